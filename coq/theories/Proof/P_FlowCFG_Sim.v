(* C21 - every execution of a function body is covered by the CFG that the (repaired) builder of
   Model/M_FlowCFG.v constructs: semantics of the statement language, positions reached in the graph,
   and the simulation. *)
From Coq Require Import NArith List Bool Arith Lia.
From CyVerif Require Import Model.M_Flow Model.M_FlowCFG Proof.P_FlowCFG.
Import ListNotations.

(* ------------------------------------------------------------------ semantics (definedness only) *)
Definition state := nat -> bool.           (* entry -> bound? *)
Definition upd (s : state) (e : nat) (v : bool) : state := fun x => if x =? e then v else s x.
Definition eff (s : lstat) (sg : state) : state :=
  match s with LRef _ _ => sg | LAsg _ e => upd sg e true | LDel _ e => upd sg e false end.

Inductive out := ONorm | OBrk | OCont | ORet | OExc.
Definition event := (nat * nat * bool)%type.    (* label, entry, was it bound *)

(* name references of a condition, in order; the first unbound one raises *)
Inductive eval_refs (sg : state) : list nref -> list event -> bool -> Prop :=
| er_nil : eval_refs sg [] [] true
| er_ok l e c tr ok : sg e = true -> eval_refs sg c tr ok ->
    eval_refs sg ((l, e) :: c) ((l, e, true) :: tr) ok
| er_fail l e c : sg e = false -> eval_refs sg ((l, e) :: c) [(l, e, false)] false.

Fixpoint bind (tg : list nref) (sg : state) : state :=
  match tg with [] => sg | r :: t => bind t (upd sg (snd r) true) end.
(* the assignments to the targets of a for loop, as events *)
Fixpoint bind_ev (tg : list nref) (sg : state) : list event :=
  match tg with [] => [] | r :: t => (fst r, snd r, sg (snd r)) :: bind_ev t (upd sg (snd r) true) end.

(* a for loop evaluates its iterator once, a while loop its condition at every iteration *)
Definition head_eval (isfor : bool) (sg : state) (c : list nref) (tr : list event) (ok : bool) : Prop :=
  if isfor then tr = [] /\ ok = true else eval_refs sg c tr ok.

Inductive item :=
| IS (s : stmt)
| IL (isfor : bool) (c tg : list nref) (body : stmt) (hasel : bool) (el : stmt)   (* at the loop head *)
| IH (hs : handlers).                                                           (* exception being matched *)

Definition fin_out (o1 o2 : out) : out := match o2 with ONorm => o1 | _ => o2 end.

(* every statement may behave as CPython does; conditions, handler matching and raise points are
   nondeterministic *)
Inductive exec : item -> state -> list event -> out -> state -> Prop :=
| x_skip sg : exec (IS Skip) sg [] ONorm sg
| x_call sg : exec (IS Call) sg [] ONorm sg
| x_call_exc sg : exec (IS Call) sg [] OExc sg
| x_ref l e sg : exec (IS (Ref l e)) sg [(l, e, sg e)] (if sg e then ONorm else OExc) sg
| x_asg l e sg : exec (IS (Asg l e)) sg [(l, e, sg e)] ONorm (upd sg e true)
| x_del l e ign sg : sg e = true \/ ign = true ->
    exec (IS (Del l e ign)) sg [(l, e, sg e)] ONorm (upd sg e false)
| x_del_exc l e sg : sg e = false -> exec (IS (Del l e false)) sg [(l, e, false)] OExc sg
| x_seq a b sg t1 s1 t2 o s2 : exec (IS a) sg t1 ONorm s1 -> exec (IS b) s1 t2 o s2 ->
    exec (IS (Seq a b)) sg (t1 ++ t2) o s2
| x_seq_stop a b sg t1 o s1 : o <> ONorm -> exec (IS a) sg t1 o s1 -> exec (IS (Seq a b)) sg t1 o s1
| x_if_exc c th h el sg tr : eval_refs sg c tr false -> exec (IS (If c th h el)) sg tr OExc sg
| x_if_then c th h el sg t1 t2 o s2 : eval_refs sg c t1 true -> exec (IS th) sg t2 o s2 ->
    exec (IS (If c th h el)) sg (t1 ++ t2) o s2
| x_if_else c th el sg t1 t2 o s2 : eval_refs sg c t1 true -> exec (IS el) sg t2 o s2 ->
    exec (IS (If c th true el)) sg (t1 ++ t2) o s2
| x_if_skip c th el sg t1 : eval_refs sg c t1 true -> exec (IS (If c th false el)) sg t1 ONorm sg
| x_while c tg body h el sg tr o s2 : exec (IL false c tg body h el) sg tr o s2 ->
    exec (IS (Loop false c tg body h el)) sg tr o s2
| x_for_exc c tg body h el sg tr : eval_refs sg c tr false ->
    exec (IS (Loop true c tg body h el)) sg tr OExc sg
| x_for c tg body h el sg t1 t2 o s2 : eval_refs sg c t1 true ->
    exec (IL true c tg body h el) sg t2 o s2 -> exec (IS (Loop true c tg body h el)) sg (t1 ++ t2) o s2
| l_exc f c tg body h el sg tr : head_eval f sg c tr false -> exec (IL f c tg body h el) sg tr OExc sg
| l_exit f c tg body el sg t1 : head_eval f sg c t1 true -> exec (IL f c tg body false el) sg t1 ONorm sg
| l_else f c tg body el sg t1 t2 o s2 : head_eval f sg c t1 true -> exec (IS el) sg t2 o s2 ->
    exec (IL f c tg body true el) sg (t1 ++ t2) o s2
| l_iter f c tg body h el sg t1 t2 ob s1 t3 o s2 : head_eval f sg c t1 true ->
    exec (IS body) (if f then bind tg sg else sg) t2 ob s1 -> ob = ONorm \/ ob = OCont ->
    exec (IL f c tg body h el) s1 t3 o s2 ->
    exec (IL f c tg body h el) sg ((t1 ++ (if f then bind_ev tg sg else [])) ++ t2 ++ t3) o s2
| l_break f c tg body h el sg t1 t2 s1 : head_eval f sg c t1 true ->
    exec (IS body) (if f then bind tg sg else sg) t2 OBrk s1 ->
    exec (IL f c tg body h el) sg ((t1 ++ (if f then bind_ev tg sg else [])) ++ t2) ONorm s1
| l_prop f c tg body h el sg t1 t2 ob s1 : head_eval f sg c t1 true ->
    exec (IS body) (if f then bind tg sg else sg) t2 ob s1 -> ob = ORet \/ ob = OExc ->
    exec (IL f c tg body h el) sg ((t1 ++ (if f then bind_ev tg sg else [])) ++ t2) ob s1
| t_norm body el hs sg t1 s1 : exec (IS body) sg t1 ONorm s1 ->
    exec (IS (Try body false el hs)) sg t1 ONorm s1
| t_else body el hs sg t1 s1 t2 o s2 : exec (IS body) sg t1 ONorm s1 -> exec (IS el) s1 t2 o s2 ->
    exec (IS (Try body true el hs)) sg (t1 ++ t2) o s2
| t_exc body h el hs sg t1 s1 t2 o s2 : exec (IS body) sg t1 OExc s1 -> exec (IH hs) s1 t2 o s2 ->
    exec (IS (Try body h el hs)) sg (t1 ++ t2) o s2
| t_prop body h el hs sg t1 o s1 : exec (IS body) sg t1 o s1 -> o = OBrk \/ o = OCont \/ o = ORet ->
    exec (IS (Try body h el hs)) sg t1 o s1
| h_nil sg : exec (IH HNil) sg [] OExc sg
| h_match (hastg : bool) tl te hb rest (sg : state) t o s2 :
    exec (IS hb) (if hastg then upd sg te true else sg) t o s2 ->
    exec (IH (HCons hastg tl te hb rest)) sg ((if hastg then [(tl, te, sg te)] else []) ++ t) o s2
| h_skip hastg tl te hb rest sg t o s2 : exec (IH rest) sg t o s2 ->
    exec (IH (HCons hastg tl te hb rest)) sg t o s2
| f_exc body fexc fnorm sg t1 s1 t2 o2 s2 : exec (IS body) sg t1 OExc s1 -> exec (IS fexc) s1 t2 o2 s2 ->
    exec (IS (TryFin body fexc fnorm)) sg (t1 ++ t2) (fin_out OExc o2) s2
| f_other body fexc fnorm sg t1 o1 s1 t2 o2 s2 : exec (IS body) sg t1 o1 s1 -> o1 <> OExc ->
    exec (IS fnorm) s1 t2 o2 s2 ->
    exec (IS (TryFin body fexc fnorm)) sg (t1 ++ t2) (fin_out o1 o2) s2
| x_break sg : exec (IS Break) sg [] OBrk sg
| x_continue sg : exec (IS Continue) sg [] OCont sg
| x_return sg : exec (IS Return) sg [] ORet sg
| x_raise sg : exec (IS Raise) sg [] OExc sg.

(* ------------------------------------------------------------------ positions reached in a graph *)
(* [P g b k s]: some path of g from the entry point arrives in front of the k-th statement of block b
   with definedness state s *)
Inductive P (g : bst) : nat -> nat -> state -> Prop :=
| P_entry : P g 0 0 (fun _ => false)
| P_stat b k s sg : P g b k sg -> stat_at g b k = Some s -> P g b (S k) (eff s sg)
| P_edge u k v sg : P g u k sg -> In (u, k, v) (eds g) -> P g v 0 sg.

(* an event "NameNode l (a read, an assignment target or a del) of entry e evaluated while e is
   unbound" is covered: the graph has a statement of that node at a position reached with e unbound *)
Definition justified (g : bst) (ev : event) : Prop :=
  match ev with (l, e, bnd) =>
    bnd = false -> exists b k sg s, P g b k sg /\ stat_at g b k = Some s /\
                                    label_of s = l /\ entry_of s = e /\ sg e = false end.

Definition at_cur (g st : bst) (sg : state) : Prop :=
  exists b, cur st = Some b /\ P g b (len st b) sg.

Definition Kexc (g : bst) (xs : list excd) (sg : state) : Prop :=
  match xs with x :: _ => P g (x_entry x) 0 sg | [] => True end.

Fixpoint chain (g : bst) (fs : list excd) (Q : state -> Prop) (sg : state) : Prop :=
  match fs with
  | [] => Q sg
  | x :: r =>
      match x_fin x with
      | None => chain g r Q sg
      | Some (fe, None) => P g fe 0 sg
      | Some (fe, Some (fxb, k)) => P g fe 0 sg /\ forall s2, P g fxb k s2 -> chain g r Q s2
      end
  end.

Definition post (g st st' : bst) (o : out) (sg : state) : Prop :=
  Kexc g (excs st) sg /\
  match o with
  | ONorm => at_cur g st' sg
  | OBrk => match loops st with
            | L :: _ => chain g (l_excs L)
                          (fun s => P g (l_next L) 0 s /\ has_parents (l_next L) st' = true) sg
            | [] => False end
  | OCont => match loops st with
             | L :: _ => chain g (l_excs L) (fun s => P g (l_loop L) 0 s) sg
             | [] => False end
  | ORet => chain g (excs st) (fun s => P g 1 0 s) sg
  | OExc => True
  end.

(* ------------------------------------------------------------------ basic facts *)
Lemma chain_impl g fs (Q Q' : state -> Prop) : (forall s, Q s -> Q' s) ->
  forall sg, chain g fs Q sg -> chain g fs Q' sg.
Proof.
  intros HQ. induction fs as [|x r IH]; intros sg; simpl; auto.
  destruct (x_fin x) as [[fe [[fxb k]|]]|]; auto.
  intros [A B]. split; auto.
Qed.

Lemma hp_mono v a b : incl (eds a) (eds b) -> has_parents v a = true -> has_parents v b = true.
Proof.
  unfold has_parents. intros Hi H. apply existsb_exists in H. destruct H as (e & He & Hv).
  apply existsb_exists. exists e. split; auto.
Qed.

Lemma post_mono g st a b o sg : incl (eds a) (eds b) -> o <> ONorm ->
  post g st a o sg -> post g st b o sg.
Proof.
  intros Hi Ho [HK H]. split; auto. destruct o; auto; try congruence.
  destruct (loops st) as [|L r]; auto.
  eapply chain_impl; [|exact H]. intros s [A B]. split; auto. eapply hp_mono; eauto.
Qed.

Lemma post_ctx g st st2 a o sg : loops st2 = loops st -> excs st2 = excs st ->
  post g st2 a o sg -> post g st a o sg.
Proof. unfold post. intros -> ->. auto. Qed.

Lemma P_edge_ext g st u k v sg : In (u, k, v) (eds st) -> ext st g -> P g u k sg -> P g v 0 sg.
Proof. intros Hin [_ Hi] HP. eapply P_edge; eauto. Qed.

Lemma at_cur_append g st s sg : ext (append s st) g -> at_cur g st sg -> at_cur g (append s st) (eff s sg).
Proof.
  intros He (b & Hc & HP). exists b. split.
  - unfold append. rewrite Hc. reflexivity.
  - rewrite (len_append_same st b s Hc). eapply P_stat; eauto.
    eapply stat_at_ext; eauto. now apply stat_at_append.
Qed.

Lemma len_frame n X Y b : R n X Y -> b < n -> cur X <> Some b -> len Y b = len X b.
Proof. intros (_ & _ & _ & _ & F) Hb Hc. now destruct (F b Hb Hc). Qed.

Lemma R_ext n X Y : R n X Y -> ext X Y.
Proof. intros H; apply H. Qed.

Lemma ext_edges a b : ext a b -> incl (eds a) (eds b).
Proof. intros H; apply H. Qed.

Lemma len_nextblock_from p X b : len (nextblock_from p X) b = len X b.
Proof. unfold nextblock_from, link_cur, len. destruct p; simpl; auto. destruct (cur X); reflexivity. Qed.

(* a block created now: an edge into it gives position 0 = its current length *)
Lemma at_cur_nextblock_from g X u sg : inv X -> u < nb X ->
  ext (nextblock_from (Some u) X) g -> P g u (len X u) sg -> at_cur g (nextblock_from (Some u) X) sg.
Proof.
  intros Hi Hu He HP. exists (nb X). split; [reflexivity|].
  rewrite len_nextblock_from, (len_fresh X) by auto. eapply P_edge_ext; [|exact He|exact HP]. simpl. left. reflexivity.
Qed.

Lemma at_cur_nextblock g X sg : inv X -> ext (nextblock X) g -> at_cur g X sg -> at_cur g (nextblock X) sg.
Proof.
  intros Hi He (b & Hc & HP). exists (nb X). split; [reflexivity|].
  unfold nextblock. rewrite len_nextblock_from, (len_fresh X) by auto. eapply P_edge_ext; [|exact He|exact HP].
  unfold nextblock, nextblock_from, link_cur. simpl. rewrite Hc. simpl. left. reflexivity.
Qed.

Lemma link_cur_sound g X v sg : ext (link_cur v X) g -> at_cur g X sg ->
  P g v 0 sg /\ has_parents v (link_cur v X) = true.
Proof.
  intros He (b & Hc & HP). unfold link_cur in *. rewrite Hc in *. simpl in *. split.
  - eapply P_edge_ext; [|exact He|exact HP]. simpl. left. reflexivity.
  - unfold has_parents. simpl. now rewrite Nat.eqb_refl.
Qed.

Lemma add_edge_sound g X u v sg : ext (add_edge u v X) g -> P g u (len X u) sg ->
  P g v 0 sg /\ has_parents v (add_edge u v X) = true.
Proof.
  intros He HP. split.
  - eapply P_edge_ext; [|exact He|exact HP]. simpl. left. reflexivity.
  - unfold has_parents. simpl. now rewrite Nat.eqb_refl.
Qed.

Lemma ext_exc_edge X : inv X -> ext X (exc_edge X).
Proof. intros Hi. eapply R_ext. apply R_exc_edge, (R_refl 0); auto. lia. Qed.

Lemma exc_edge_sound g X sg : inv X -> ext (exc_edge X) g -> at_cur g X sg ->
  at_cur g (exc_edge X) sg /\ Kexc g (excs X) sg.
Proof.
  intros Hi He HA. pose proof HA as (b & Hc & HP). unfold exc_edge in *. rewrite Hc in *.
  destruct (excs X) as [|x r] eqn:Ex; [split; simpl; auto|].
  assert (Hi1 : inv (add_edge b (x_entry x) X)) by exact Hi.
  assert (He1 : ext (add_edge b (x_entry x) X) g).
  { eapply ext_trans; [|exact He]. eapply R_ext. apply R_nextblock, (R_refl 0); auto. lia. }
  split.
  - apply at_cur_nextblock; auto.
  - simpl. eapply (add_edge_sound g X b); eauto.
Qed.

Lemma Kexc_eq g a b sg : excs a = excs b -> Kexc g (excs a) sg -> Kexc g (excs b) sg.
Proof. now intros ->. Qed.

Lemma R0 X : inv X -> R 0 X X.
Proof. intros Hi. apply R_refl; auto. lia. Qed.

Lemma ext_back X Y g : R 0 X Y -> ext Y g -> ext X g.
Proof. intros H He. eapply ext_trans; [apply (R_ext _ _ _ H)|exact He]. Qed.

Lemma excs_append s X : excs (append s X) = excs X.
Proof. unfold append. destruct (cur X); reflexivity. Qed.
Lemma excs_exc_edge X : excs (exc_edge X) = excs X.
Proof. apply (ceq_exc_edge X). Qed.

Lemma at_cur_some g X sg : at_cur g X sg -> exists b, cur X = Some b.
Proof. intros (b & H & _). eauto. Qed.

Lemma append_justified g X s sg : ext (append s X) g -> at_cur g X sg ->
  justified g (label_of s, entry_of s, sg (entry_of s)).
Proof.
  intros He (b & Hc & HP) Hb. exists b, (len X b), sg, s. split; auto. split; auto.
  eapply stat_at_ext; eauto. now apply stat_at_append.
Qed.

Lemma v_asg_sound g X l e sg : inv X -> ext (v_asg l e X) g -> at_cur g X sg ->
  at_cur g (v_asg l e X) (upd sg e true) /\ Kexc g (excs X) (upd sg e true) /\
  justified g (l, e, sg e).
Proof.
  intros Hi He HA. destruct (at_cur_some _ _ _ HA) as [b Hc]. unfold v_asg in *. rewrite Hc in *.
  set (X1 := exc_edge X) in *. set (X2 := append (LAsg l e) X1) in *.
  assert (R1 : R 0 X X1) by (apply R_exc_edge, R0, Hi).
  assert (R2 : R 0 X1 X2) by (apply R_append, R0, (R_inv _ _ _ R1)).
  assert (R3 : R 0 X2 (exc_edge X2)) by (apply R_exc_edge, R0, (R_inv _ _ _ R2)).
  assert (E2 : ext X2 g) by (eapply ext_back; eauto).
  assert (E1 : ext X1 g) by (eapply ext_back; eauto).
  destruct (exc_edge_sound g X sg Hi E1 HA) as [A1 _].
  pose proof (at_cur_append g X1 (LAsg l e) sg E2 A1) as A2.
  destruct (exc_edge_sound g X2 _ (R_inv _ _ _ R2) He A2) as [A3 K3].
  split; [exact A3|]. split; [|exact (append_justified g X1 (LAsg l e) sg E2 A1)].
  unfold X2 in K3. rewrite excs_append in K3. unfold X1 in K3. now rewrite excs_exc_edge in K3.
Qed.

Lemma v_ref_sound g X l e sg : ext (v_ref l e X) g -> at_cur g X sg ->
  at_cur g (v_ref l e X) sg /\ justified g (l, e, sg e).
Proof.
  intros He HA. split; [exact (at_cur_append g X (LRef l e) sg He HA)|].
  exact (append_justified g X (LRef l e) sg He HA).
Qed.

Lemma v_del_sound g X l e ign sg : inv X -> ext (v_del l e ign X) g -> at_cur g X sg ->
  at_cur g (v_del l e ign X) (upd sg e false) /\ Kexc g (excs X) (upd sg e false) /\
  justified g (l, e, sg e).
Proof.
  intros Hi He HA. destruct (at_cur_some _ _ _ HA) as [b Hc]. unfold v_del in *. rewrite Hc in *.
  set (X1 := if ign then X else append (LRef l e) X) in *. set (X2 := append (LDel l e) X1) in *.
  assert (R1 : R 0 X X1) by (unfold X1; destruct ign; [apply R0, Hi|apply R_append, R0, Hi]).
  assert (R2 : R 0 X1 X2) by (apply R_append, R0, (R_inv _ _ _ R1)).
  assert (R3 : R 0 X2 (exc_edge X2)) by (apply R_exc_edge, R0, (R_inv _ _ _ R2)).
  assert (E2 : ext X2 g) by (eapply ext_back; eauto).
  assert (E1 : ext X1 g) by (eapply ext_back; eauto).
  assert (A1 : at_cur g X1 sg).
  { unfold X1 in *. destruct ign; [auto|]. destruct (v_ref_sound g X l e sg E1 HA). auto. }
  pose proof (append_justified g X1 (LDel l e) sg E2 A1) as J1. simpl in J1.
  pose proof (at_cur_append g X1 (LDel l e) sg E2 A1) as A2.
  destruct (exc_edge_sound g X2 _ (R_inv _ _ _ R2) He A2) as [A3 K3].
  split; [exact A3|]. split; [|exact J1].
  unfold X2 in K3. rewrite excs_append in K3. unfold X1 in K3.
  destruct ign; [exact K3|now rewrite excs_append in K3].
Qed.

Lemma refs_sound g c : forall X sg tr ok, inv X -> ext (refs c X) g -> at_cur g X sg ->
  eval_refs sg c tr ok -> at_cur g (refs c X) sg /\ Forall (justified g) tr.
Proof.
  induction c as [|[l e] c IH]; intros X sg tr ok Hi He HA Hev.
  - inversion Hev; subst. split; auto.
  - simpl in *.
    assert (R1 : R 0 X (v_ref l e X)) by (apply R_v_ref, R0, Hi).
    assert (R2 : R 0 (v_ref l e X) (refs c (v_ref l e X))) by (apply R_refs, R0, (R_inv _ _ _ R1)).
    assert (E1 : ext (v_ref l e X) g) by (eapply ext_back; eauto).
    destruct (v_ref_sound g X l e sg E1 HA) as [A1 J1].
    inversion Hev as [|l0 e0 c0 tr0 ok0 Hb Hrest|l0 e0 c0 Hb]; subst.
    + destruct (IH _ sg tr0 ok (R_inv _ _ _ R1) He A1 Hrest) as [A2 J2]. split; auto.
      constructor; auto. intros; discriminate.
    + split.
      * (* the remaining references are still passed in the graph *)
        clear - He A1 R1. revert He A1. generalize (R_inv _ _ _ R1). generalize (v_ref l e X).
        induction c as [|[l' e'] c IHc]; intros Y HiY He A1; simpl in *; auto.
        assert (Ry : R 0 Y (v_ref l' e' Y)) by (apply R_v_ref, R0, HiY).
        assert (Ry2 : R 0 (v_ref l' e' Y) (refs c (v_ref l' e' Y))) by (apply R_refs, R0, (R_inv _ _ _ Ry)).
        apply IHc; [exact (R_inv _ _ _ Ry)|exact He|].
        apply (v_ref_sound g Y l' e' sg); auto. eapply ext_back; eauto.
      * constructor; [|constructor]. rewrite Hb in J1. exact J1.
Qed.

Lemma bind_app tg : forall sg r, bind (tg ++ [r]) sg = upd (bind tg sg) (snd r) true.
Proof. induction tg as [|a tg IH]; intros sg r; simpl; auto. Qed.

Lemma excs_v_asg l e X : excs (v_asg l e X) = excs X.
Proof. apply (ceq_v_asg l e X). Qed.

Lemma asgs_sound g tg : forall X sg, inv X -> ext (asgs tg X) g -> at_cur g X sg ->
  Kexc g (excs X) sg ->
  at_cur g (asgs tg X) (bind tg sg) /\ Kexc g (excs X) (bind tg sg) /\ Forall (justified g) (bind_ev tg sg).
Proof.
  induction tg as [|[l e] tg IH]; intros X sg Hi He HA HK; simpl in *; auto.
  assert (R1 : R 0 X (v_asg l e X)) by (apply R_v_asg, R0, Hi).
  assert (R2 : R 0 (v_asg l e X) (asgs tg (v_asg l e X))) by (apply R_asgs, R0, (R_inv _ _ _ R1)).
  assert (E1 : ext (v_asg l e X) g) by (eapply ext_back; eauto).
  destruct (v_asg_sound g X l e sg Hi E1 HA) as (A1 & K1 & J1).
  rewrite <- (excs_v_asg l e X) in K1 |- *.
  destruct (IH (v_asg l e X) (upd sg e true) (R_inv _ _ _ R1) He A1 K1) as (A2 & K2 & J2).
  split; auto.
Qed.

(* a jump: the edges of chain_edges realise [chain] *)
Lemma chain_edges_sound g fs T (Q : state -> Prop) : forall src k X sg,
  ext (chain_edges src k fs T X) g -> P g src k sg ->
  (forall s, P g T 0 s -> Q s) -> chain g fs Q sg.
Proof.
  induction fs as [|x r IH]; intros src k X sg He HP HQ; simpl in *.
  - apply HQ. eapply P_edge_ext; [|exact He|exact HP]. simpl; auto.
  - destruct (x_fin x) as [[fe [[fxb kx]|]]|].
    + assert (E1 : ext (add_edge_k src k fe X) g).
      { eapply ext_trans; [|exact He]. clear. generalize (add_edge_k src k fe X). generalize fxb, kx.
        induction r as [|y r IHr]; intros a b Y; simpl.
        - apply ext_add_edge_k.
        - destruct (x_fin y) as [[fe' [[fxb' kx']|]]|]; auto.
          + eapply ext_trans; [apply ext_add_edge_k|apply IHr]. + apply ext_add_edge_k. }
      split.
      * eapply P_edge_ext; [|exact E1|exact HP]. simpl; auto.
      * intros s2 H2. eapply IH; eauto.
    + eapply P_edge_ext; [|exact He|exact HP]. simpl; auto.
    + eapply IH; eauto.
Qed.

(* ------------------------------------------------------------------ the simulation, case by case *)
Definition inl (st : bst) : bool := match loops st with [] => false | _ => true end.

Definition sim_stmt (s : stmt) (sg : state) (tr : list event) (o : out) (s2 : state) : Prop :=
  forall st g, inv st -> wf (inl st) s = true -> ext (visit true s st) g ->
    at_cur g st sg -> Kexc g (excs st) sg ->
    Forall (justified g) tr /\ post g st (visit true s st) o s2.

Lemma visit_R0 s X : inv X -> R (nb X) X (visit true s X).
Proof. intros Hi. apply (proj1 (visit_R true)). apply R_refl; auto. Qed.
Lemma visit_R00 s X : inv X -> R 0 X (visit true s X).
Proof. intros Hi. eapply R_weaken; [|apply visit_R0; auto]. lia. Qed.
Lemma visit_loops s X : loops (visit true s X) = loops X.
Proof. apply (proj1 (visit_ceq true) s X). Qed.
Lemma visit_excs s X : excs (visit true s X) = excs X.
Proof. apply (proj1 (visit_ceq true) s X). Qed.

Lemma inl_eq a b : loops a = loops b -> inl a = inl b.
Proof. unfold inl. now intros ->. Qed.

Lemma sim_skip sg : sim_stmt Skip sg [] ONorm sg.
Proof. intros st g Hi Hw He HA HK. split; [constructor|]. split; auto. Qed.
Lemma sim_call sg : sim_stmt Call sg [] ONorm sg.
Proof. intros st g Hi Hw He HA HK. split; [constructor|]. split; auto. Qed.
Lemma sim_call_exc sg : sim_stmt Call sg [] OExc sg.
Proof. intros st g Hi Hw He HA HK. split; [constructor|]. split; auto. Qed.

Lemma sim_ref l e sg : sim_stmt (Ref l e) sg [(l, e, sg e)] (if sg e then ONorm else OExc) sg.
Proof.
  intros st g Hi Hw He HA HK. simpl in *. destruct (v_ref_sound g st l e sg He HA) as [A J].
  split; [constructor; auto|]. split; auto. destruct (sg e); auto.
Qed.

Lemma sim_asg l e sg : sim_stmt (Asg l e) sg [(l, e, sg e)] ONorm (upd sg e true).
Proof.
  intros st g Hi Hw He HA HK. simpl in *. destruct (v_asg_sound g st l e sg Hi He HA) as (A & K & J).
  split; [constructor; auto|]. split; auto.
Qed.

Lemma sim_del l e ign sg : sg e = true \/ ign = true ->
  sim_stmt (Del l e ign) sg [(l, e, sg e)] ONorm (upd sg e false).
Proof.
  intros Hb st g Hi Hw He HA HK. simpl in *.
  destruct (v_del_sound g st l e ign sg Hi He HA) as (A & K & J).
  split; [|split; auto]. constructor; auto.
Qed.

Lemma sim_del_exc l e sg : sg e = false -> sim_stmt (Del l e false) sg [(l, e, false)] OExc sg.
Proof.
  intros Hb st g Hi Hw He HA HK. simpl in *.
  destruct (v_del_sound g st l e false sg Hi He HA) as (A & K & J).
  split; [|split; auto]. constructor; auto. unfold justified in *. rewrite Hb in J. exact J.
Qed.

Lemma sim_seq a b sg t1 s1 t2 o s2 :
  sim_stmt a sg t1 ONorm s1 -> sim_stmt b s1 t2 o s2 -> sim_stmt (Seq a b) sg (t1 ++ t2) o s2.
Proof.
  intros IHa IHb st g Hi Hw He HA HK. simpl in *. cbv zeta in *. apply andb_true_iff in Hw. destruct Hw as [Hwa Hwb].
  set (X1 := visit true a st) in *.
  assert (R1 : R 0 st X1) by (apply visit_R00; auto).
  assert (E1 : ext X1 g).
  { destruct (cur X1); auto. eapply ext_back; [apply visit_R00, (R_inv _ _ _ R1)|exact He]. }
  destruct (IHa st g Hi Hwa E1 HA HK) as [J1 [K1 A1]]. simpl in A1. fold X1 in A1.
  destruct (at_cur_some _ _ _ A1) as [b1 Hc1]. rewrite Hc1 in *.
  assert (Hw2 : wf (inl X1) b = true) by (rewrite (inl_eq X1 st); auto; apply visit_loops).
  rewrite <- (visit_excs a st) in K1. fold X1 in K1.
  destruct (IHb X1 g (R_inv _ _ _ R1) Hw2 He A1 K1) as [J2 P2].
  split; [apply Forall_app; auto|].
  eapply post_ctx; [| |exact P2]; [apply visit_loops|apply visit_excs].
Qed.

Lemma sim_seq_stop a b sg t1 o s1 : o <> ONorm ->
  sim_stmt a sg t1 o s1 -> sim_stmt (Seq a b) sg t1 o s1.
Proof.
  intros Ho IHa st g Hi Hw He HA HK. simpl in *. cbv zeta in *. apply andb_true_iff in Hw. destruct Hw as [Hwa Hwb].
  set (X1 := visit true a st) in *.
  assert (R1 : R 0 st X1) by (apply visit_R00; auto).
  assert (R2 : R 0 X1 (match cur X1 with Some _ => visit true b X1 | None => X1 end)).
  { destruct (cur X1); [apply visit_R00|apply R0]; exact (R_inv _ _ _ R1). }
  assert (E1 : ext X1 g) by (eapply ext_back; eauto).
  destruct (IHa st g Hi Hwa E1 HA HK) as [J1 P1].
  split; auto. eapply post_mono; [|exact Ho|exact P1]. apply ext_edges, (R_ext _ _ _ R2).
Qed.

Ltac RV :=
  repeat (Rauto; lazymatch goal with
                 | |- R _ _ (visit true _ _) => apply (proj1 (visit_R true))
                 | |- R _ _ (if _ then _ else _) => fail
                 | |- _ => fail end).

Ltac ceq_auto :=
  repeat lazymatch goal with
  | |- ceq ?a ?a => apply ceq_refl
  | |- ceq _ (nextblock_from _ _) => eapply ceq_trans; [|apply ceq_nextblock_from]
  | |- ceq _ (nextblock _) => eapply ceq_trans; [|apply ceq_nextblock_from]
  | |- ceq _ (refs _ _) => eapply ceq_trans; [|apply ceq_refs]
  | |- ceq _ (asgs _ _) => eapply ceq_trans; [|apply ceq_asgs]
  | |- ceq _ (link_cur _ _) => eapply ceq_trans; [|apply ceq_add_edge_o]
  | |- ceq _ (add_edge_o _ _ _) => eapply ceq_trans; [|apply ceq_add_edge_o]
  | |- ceq _ (visit true _ _) => eapply ceq_trans; [|apply (proj1 (visit_ceq true))]
  | |- ceq _ (exc_edge _) => eapply ceq_trans; [|apply ceq_exc_edge]
  | |- ceq ?a (newblock ?X) => change (ceq a X)
  | |- ceq ?a (add_edge _ _ ?X) => change (ceq a X)
  | |- ceq ?a (set_cur _ ?X) => change (ceq a X)
  end.

Lemma cip_sound g Y N sg : len Y N = 0 -> has_parents N Y = true -> P g N 0 sg ->
  at_cur g (cur_if_parents N Y) sg.
Proof.
  intros HL HP H. unfold cur_if_parents. rewrite HP. exists N. split; [reflexivity|].
  change (len (set_cur (Some N) Y) N) with (len Y N). now rewrite HL.
Qed.

Lemma inv_cur_lt X b : inv X -> cur X = Some b -> b < nb X.
Proof. intros [_ H]. apply H. Qed.

Lemma R_from n X Y : (forall Z, R n Z X -> R n Z Y) -> inv X -> n <= nb X -> R n X Y.
Proof. intros H Hi Hn. apply H. apply R_refl; auto. Qed.

Section IfCase.
  Variables (c : list nref) (th : stmt) (hasel : bool) (el : stmt).
  Variables (st g : bst) (sg : state).
  Hypothesis Hi : inv st.
  Hypothesis Hw : wf (inl st) (If c th hasel el) = true.
  Hypothesis He : ext (visit true (If c th hasel el) st) g.
  Hypothesis HA : at_cur g st sg.
  Hypothesis HK : Kexc g (excs st) sg.

  Let N := nb st.
  Let X3 := refs c (nextblock (newblock st)).
  Let X4 := nextblock X3.
  Let X5 := visit true th X4.
  Let X6 := link_cur N X5.
  Let X7 := if hasel then link_cur N (visit true el (nextblock_from (cur X3) X6))
            else add_edge_o (cur X3) N X6.

  Lemma if_final : visit true (If c th hasel el) st = cur_if_parents N X7.
  Proof. reflexivity. Qed.

  Lemma if_R3 : R (S N) (newblock st) X3.
  Proof. unfold X3. apply R_from; [intros Z HZ; RV|exact (R_inv _ _ _ (R_newblock _ _ _ (R0 _ Hi)))|simpl; unfold N; lia]. Qed.
  Lemma if_nb3 : S N <= nb X3.
  Proof. pose proof (R_nb _ _ _ if_R3). simpl in *. unfold N. lia. Qed.
  Lemma if_R4n n : n <= nb X3 -> R n X3 X4.
  Proof. intros Hn. apply R_from; [intros Z HZ; unfold X4; RV|exact (R_inv _ _ _ if_R3)|exact Hn]. Qed.
  Lemma if_nb4 : nb X3 < nb X4.
  Proof. unfold X4. rewrite nb_nextblock. lia. Qed.
  Lemma if_R5n n : n <= nb X4 -> R n X4 X5.
  Proof. intros Hn. apply R_from; [intros Z HZ; unfold X5; RV|exact (R_inv _ _ _ (if_R4n 0 ltac:(lia)))|exact Hn]. Qed.
  Lemma if_nb5 : nb X4 <= nb X5.
  Proof. apply (R_nb 0 X4 X5), if_R5n. lia. Qed.
  Lemma if_R6n n : n <= nb X5 -> R n X5 X6.
  Proof. intros Hn. apply R_from; [intros Z HZ; unfold X6; RV|exact (R_inv _ _ _ (if_R5n 0 ltac:(lia)))|exact Hn]. Qed.
  Lemma if_nb6 : nb X5 <= nb X6.
  Proof. apply (R_nb 0 X5 X6), if_R6n. lia. Qed.
  Lemma if_R7n n : n <= nb X6 -> R n X6 X7.
  Proof. intros Hn. apply R_from; [intros Z HZ; unfold X7; destruct hasel; RV|exact (R_inv _ _ _ (if_R6n 0 ltac:(lia)))|exact Hn]. Qed.
  Lemma if_R4 : R (S N) X3 X4. Proof. apply if_R4n, if_nb3. Qed.
  Lemma if_R5 : R (S N) X4 X5. Proof. apply if_R5n. pose proof if_nb3. pose proof if_nb4. lia. Qed.
  Lemma if_R6 : R (S N) X5 X6. Proof. apply if_R6n. pose proof if_nb3. pose proof if_nb4. pose proof if_nb5. lia. Qed.
  Lemma if_R7 : R (S N) X6 X7.
  Proof. apply if_R7n. pose proof if_nb3. pose proof if_nb4. pose proof if_nb5. pose proof if_nb6. lia. Qed.

  Lemma if_E7 : ext X7 g.
  Proof. rewrite if_final in He. eapply ext_trans; [|exact He]. split; [exists []; reflexivity|apply incl_refl]. Qed.
  Lemma if_E6 : ext X6 g. Proof. eapply ext_trans; [apply (R_ext _ _ _ if_R7)|apply if_E7]. Qed.
  Lemma if_E5 : ext X5 g. Proof. eapply ext_trans; [apply (R_ext _ _ _ if_R6)|apply if_E6]. Qed.
  Lemma if_E4 : ext X4 g. Proof. eapply ext_trans; [apply (R_ext _ _ _ if_R5)|apply if_E5]. Qed.
  Lemma if_E3 : ext X3 g. Proof. eapply ext_trans; [apply (R_ext _ _ _ if_R4)|apply if_E4]. Qed.

  Lemma if_lenN : len X7 N = 0.
  Proof.
    assert (H : R (S N) (newblock st) X7).
    { eapply R_trans; [apply if_R3|]. eapply R_trans; [apply if_R4|]. eapply R_trans; [apply if_R5|].
      eapply R_trans; [apply if_R6|apply if_R7]. }
    rewrite (len_frame _ _ _ N H); [|lia|].
    - apply (len_fresh st); auto.
    - simpl. destruct HA as (b & Hc & _). rewrite Hc. intros E. inversion E.
      pose proof (inv_cur_lt _ _ Hi Hc). unfold N in *. lia.
  Qed.

  Lemma if_ceq4 : ceq st X4.
  Proof. unfold X4, X3. ceq_auto. Qed.

  (* the condition has been evaluated *)
  Lemma if_cond tr ok : eval_refs sg c tr ok -> at_cur g X3 sg /\ Forall (justified g) tr.
  Proof.
    intros Hev. unfold X3 in *.
    assert (R2 : R 0 st (nextblock (newblock st))) by (apply R_from; [intros; RV|exact Hi|lia]).
    apply refs_sound with (ok := ok); auto.
    - exact (R_inv _ _ _ R2).
    - apply if_E3.
    - apply at_cur_nextblock; [exact (R_inv _ _ _ (R_newblock _ _ _ (R0 _ Hi)))| |exact HA].
      eapply ext_trans; [|apply if_E3]. apply (R_ext 0). apply R_refs, R0, (R_inv _ _ _ R2).
  Qed.

  Lemma if_exc tr : eval_refs sg c tr false ->
    Forall (justified g) tr /\ post g st (visit true (If c th hasel el) st) OExc sg.
  Proof. intros Hev. destruct (if_cond tr false Hev). split; auto. split; auto. Qed.

  Lemma if_then t1 t2 o s2 : eval_refs sg c t1 true -> sim_stmt th sg t2 o s2 ->
    Forall (justified g) (t1 ++ t2) /\ post g st (visit true (If c th hasel el) st) o s2.
  Proof.
    intros Hev IH. destruct (if_cond t1 true Hev) as [A3 J1].
    assert (A4 : at_cur g X4 sg).
    { apply at_cur_nextblock; [exact (R_inv _ _ _ if_R3)|apply if_E4|exact A3]. }
    destruct if_ceq4 as [CL CE].
    assert (Hw4 : wf (inl X4) th = true).
    { rewrite (inl_eq X4 st CL). simpl in Hw. apply andb_true_iff in Hw. tauto. }
    assert (K4 : Kexc g (excs X4) sg) by (rewrite CE; exact HK).
    destruct (IH X4 g (R_inv _ _ _ if_R4) Hw4 if_E5 A4 K4) as [J2 P5]. fold X5 in P5.
    split; [apply Forall_app; auto|].
    apply (post_ctx g st X4) in P5; auto.
    destruct o.
    - (* falls through: the edge to next_block *)
      destruct P5 as [K5 A5].
      destruct (link_cur_sound g X5 N s2 if_E6 A5) as [PN HP]. fold X6 in HP.
      rewrite if_final. split; auto. apply cip_sound; auto.
      + apply if_lenN.
      + eapply hp_mono; [|exact HP]. apply ext_edges, (R_ext _ _ _ if_R7).
    - eapply post_mono; [| |exact P5]; [|discriminate]. rewrite if_final. simpl.
      eapply incl_tran; [apply ext_edges, (R_ext _ _ _ if_R6)|apply ext_edges, (R_ext _ _ _ if_R7)].
    - eapply post_mono; [| |exact P5]; [|discriminate]. rewrite if_final. simpl.
      eapply incl_tran; [apply ext_edges, (R_ext _ _ _ if_R6)|apply ext_edges, (R_ext _ _ _ if_R7)].
    - eapply post_mono; [| |exact P5]; [|discriminate]. rewrite if_final. simpl.
      eapply incl_tran; [apply ext_edges, (R_ext _ _ _ if_R6)|apply ext_edges, (R_ext _ _ _ if_R7)].
    - eapply post_mono; [| |exact P5]; [|discriminate]. rewrite if_final. simpl.
      eapply incl_tran; [apply ext_edges, (R_ext _ _ _ if_R6)|apply ext_edges, (R_ext _ _ _ if_R7)].
  Qed.

  (* the position at the end of the condition block is still there when the else branch starts *)
  Lemma if_cond_end : at_cur g X3 sg ->
    exists bc, cur X3 = Some bc /\ bc < nb X6 /\ P g bc (len X6 bc) sg.
  Proof.
    intros (bc & Hc & HP). exists bc. pose proof (inv_cur_lt _ _ (R_inv _ _ _ if_R3) Hc) as Hlt.
    pose proof if_nb4. pose proof if_nb5. pose proof if_nb6.
    split; auto. split; [lia|].
    assert (H46 : R (nb X4) X4 X6).
    { eapply R_trans; [apply if_R5n; lia|apply if_R6n; lia]. }
    rewrite (len_frame _ _ _ bc H46); [|lia|].
    - assert (E : len X4 bc = len X3 bc) by (unfold X4, nextblock; apply len_nextblock_from).
      now rewrite E.
    - unfold X4. simpl. intros E. inversion E. lia.
  Qed.

  Lemma if_skip t1 : hasel = false -> eval_refs sg c t1 true ->
    Forall (justified g) t1 /\ post g st (visit true (If c th hasel el) st) ONorm sg.
  Proof.
    intros Hh Hev. destruct (if_cond t1 true Hev) as [A3 J1]. split; auto. split; auto.
    destruct (if_cond_end A3) as (bc & Hc & Hlt & HP).
    rewrite if_final. pose proof if_E7 as E7. pose proof if_lenN as LN. unfold X7 in *. rewrite Hh in *.
    rewrite Hc in *. simpl in *.
    destruct (add_edge_sound g X6 bc N sg E7 HP) as [PN HPn]. apply cip_sound; auto.
  Qed.

  Lemma if_else t1 t2 o s2 : hasel = true -> eval_refs sg c t1 true -> sim_stmt el sg t2 o s2 ->
    Forall (justified g) (t1 ++ t2) /\ post g st (visit true (If c th hasel el) st) o s2.
  Proof.
    intros Hh Hev IH. destruct (if_cond t1 true Hev) as [A3 J1].
    destruct (if_cond_end A3) as (bc & Hc & Hlt & HP).
    pose proof if_E7 as E7. pose proof if_lenN as LN. unfold X7 in E7, LN. rewrite Hh, Hc in E7, LN.
    set (Y := nextblock_from (Some bc) X6) in *.
    assert (I6 : inv X6) by exact (R_inv _ _ _ (if_R6n 0 ltac:(lia))).
    assert (RY : R 0 X6 Y) by (apply R_from; [intros; unfold Y; RV|exact I6|lia]).
    assert (RV1 : R 0 Y (visit true el Y)) by (apply visit_R00, (R_inv _ _ _ RY)).
    assert (RL : R 0 (visit true el Y) (link_cur N (visit true el Y))) by (apply R_link_cur, R0, (R_inv _ _ _ RV1)).
    assert (EV : ext (visit true el Y) g) by (eapply ext_back; eauto).
    assert (EY : ext Y g) by (eapply ext_back; eauto).
    assert (AY : at_cur g Y sg) by (apply at_cur_nextblock_from; auto).
    assert (CY : ceq st Y).
    { unfold Y, X6, X5. ceq_auto. apply if_ceq4. }
    destruct CY as [CL CE].
    assert (HwY : wf (inl Y) el = true).
    { rewrite (inl_eq Y st CL). simpl in Hw. apply andb_true_iff in Hw. tauto. }
    assert (KY : Kexc g (excs Y) sg) by (rewrite CE; exact HK).
    destruct (IH Y g (R_inv _ _ _ RY) HwY EV AY KY) as [J2 PV].
    split; [apply Forall_app; auto|].
    apply (post_ctx g st Y) in PV; auto.
    rewrite if_final. unfold X7. rewrite Hh, Hc. fold Y.
    destruct o.
    - destruct PV as [KV AV].
      destruct (link_cur_sound g _ N s2 E7 AV) as [PN HPn].
      split; auto. apply cip_sound; auto.
    - eapply post_mono; [| |exact PV]; [|discriminate]. apply ext_edges, (R_ext _ _ _ RL).
    - eapply post_mono; [| |exact PV]; [|discriminate]. apply ext_edges, (R_ext _ _ _ RL).
    - eapply post_mono; [| |exact PV]; [|discriminate]. apply ext_edges, (R_ext _ _ _ RL).
    - eapply post_mono; [| |exact PV]; [|discriminate]. apply ext_edges, (R_ext _ _ _ RL).
  Qed.
End IfCase.

Lemma sim_if_exc c th h el sg tr : eval_refs sg c tr false -> sim_stmt (If c th h el) sg tr OExc sg.
Proof. intros Hev st g Hi Hw He HA HK. eapply if_exc; eauto. Qed.
Lemma sim_if_then c th h el sg t1 t2 o s2 : eval_refs sg c t1 true -> sim_stmt th sg t2 o s2 ->
  sim_stmt (If c th h el) sg (t1 ++ t2) o s2.
Proof. intros Hev IH st g Hi Hw He HA HK. eapply if_then; eauto. Qed.
Lemma sim_if_else c th el sg t1 t2 o s2 : eval_refs sg c t1 true -> sim_stmt el sg t2 o s2 ->
  sim_stmt (If c th true el) sg (t1 ++ t2) o s2.
Proof. intros Hev IH st g Hi Hw He HA HK. eapply if_else; eauto. Qed.
Lemma sim_if_skip c th el sg t1 : eval_refs sg c t1 true -> sim_stmt (If c th false el) sg t1 ONorm sg.
Proof. intros Hev st g Hi Hw He HA HK. eapply if_skip; eauto. Qed.

(* ------------------------------------------------------------------ jumps *)
Lemma chain_edges_ext fs T : forall src k X, ext X (chain_edges src k fs T X).
Proof.
  induction fs as [|y r IHr]; intros a b Y; simpl.
  - apply ext_add_edge_k.
  - destruct (x_fin y) as [[fe' [[fxb' kx']|]]|]; auto.
    + eapply ext_trans; [apply ext_add_edge_k|apply IHr]. + apply ext_add_edge_k.
Qed.

Lemma chain_edges_sound2 g Y fs T : forall src k X sg,
  ext (chain_edges src k fs T X) g -> incl (eds (chain_edges src k fs T X)) (eds Y) ->
  P g src k sg -> chain g fs (fun s => P g T 0 s /\ has_parents T Y = true) sg.
Proof.
  induction fs as [|x r IH]; intros src k X sg He Hy HP; simpl in *.
  - split.
    + eapply P_edge_ext; [|exact He|exact HP]. simpl; auto.
    + unfold has_parents. apply existsb_exists. exists (src, k, T). split; [apply Hy; simpl; auto|].
      simpl. apply Nat.eqb_refl.
  - destruct (x_fin x) as [[fe [[fxb kx]|]]|].
    + assert (E1 : ext (add_edge_k src k fe X) g).
      { eapply ext_trans; [|exact He]. apply chain_edges_ext. }
      split.
      * eapply P_edge_ext; [|exact E1|exact HP]. simpl; auto.
      * intros s2 H2. eapply IH; eauto.
    + eapply P_edge_ext; [|exact He|exact HP]. simpl; auto.
    + eapply IH; eauto.
Qed.

Lemma inl_true st : inl st = true -> exists L r, loops st = L :: r.
Proof. unfold inl. destruct (loops st) as [|L r]; [discriminate|eauto]. Qed.

Lemma sim_break sg : sim_stmt Break sg [] OBrk sg.
Proof.
  intros st g Hi Hw He HA HK. simpl in *. split; [constructor|]. split; auto.
  destruct (inl_true st Hw) as (L & r & HL). destruct HA as (b & Hc & HP).
  unfold v_break in *. rewrite HL, Hc in *.
  eapply chain_edges_sound2; [exact He| |exact HP]. apply incl_refl.
Qed.

Lemma sim_continue sg : sim_stmt Continue sg [] OCont sg.
Proof.
  intros st g Hi Hw He HA HK. simpl in *. split; [constructor|]. split; auto.
  destruct (inl_true st Hw) as (L & r & HL). destruct HA as (b & Hc & HP).
  unfold v_break in *. rewrite HL, Hc in *.
  eapply chain_impl; [|eapply chain_edges_sound2; [exact He|apply incl_refl|exact HP]].
  intros s [A _]. exact A.
Qed.

Lemma sim_return sg : sim_stmt Return sg [] ORet sg.
Proof.
  intros st g Hi Hw He HA HK. simpl in *. split; [constructor|]. split; auto.
  destruct HA as (b & Hc & HP). unfold v_return in *. rewrite Hc in *.
  eapply chain_impl; [|eapply chain_edges_sound2; [exact He|apply incl_refl|exact HP]].
  intros s [A _]. exact A.
Qed.

Lemma sim_raise sg : sim_stmt Raise sg [] OExc sg.
Proof. intros st g Hi Hw He HA HK. split; [constructor|]. split; auto. Qed.

(* ------------------------------------------------------------------ try / finally *)
Lemma inv_of n X Y : R n X Y -> inv Y. Proof. apply R_inv. Qed.

Section TryFinCase.
  Variables (body fexc fnorm : stmt) (st g : bst) (sg : state).
  Hypothesis Hi : inv st.
  Hypothesis Hw : wf (inl st) (TryFin body fexc fnorm) = true.
  Hypothesis He : ext (visit true (TryFin body fexc fnorm) st) g.
  Hypothesis HA : at_cur g st sg.
  Hypothesis HK : Kexc g (excs st) sg.

  Local Definition B := nb st.
  Local Definition EP := S (nb st).
  Local Definition X1 := set_cur (Some EP) (newblock (nextblock st)).
  Local Definition X2 := exc_edge X1.
  Local Definition X3 := visit true fexc X2.
  Local Definition X4 := match cur X3, excs X3 with Some b, x :: _ => add_edge b (x_entry x) X3 | _, _ => X3 end.
  Local Definition FE := nb X4.
  Local Definition X5 := set_cur (Some FE) (newblock X4).
  Local Definition X6 := visit true fnorm X5.
  Local Definition fexit := match cur X6 with Some b => Some (b, len X6 b) | None => None end.
  Local Definition d := mk_excd EP (Some (FE, fexit)).
  Local Definition X7 := push_exc d (push_loop_exc d X6).
  Local Definition X8 := nextblock (add_edge B EP (set_cur (Some B) X7)).
  Local Definition X9v := visit true body X8.
  Local Definition X9 := pop_loop_exc (pop_exc X9v).
  Local Definition XF := match cur X9 with
            | Some b => let s1 := add_edge b FE X9 in
                match fexit with
                | Some (fxb, k) => set_cur (Some (nb s1)) (add_edge_k fxb k (nb s1) (newblock s1))
                | None => set_cur None s1 end
            | None => X9 end.

  Lemma tf_final : visit true (TryFin body fexc fnorm) st = XF.
  Proof. unfold XF, X9, X9v, X8, X7, d, fexit, X6, X5, FE, X4, X3, X2, X1, EP, B. reflexivity. Qed.

  Lemma tf_nb1 : nb X1 = S (S B).
  Proof. unfold X1. change (nb (set_cur (Some EP) (newblock (nextblock st)))) with (S (nb (nextblock st))).
    now rewrite nb_nextblock. Qed.
  Lemma tf_R01 : R 0 st X1.
  Proof. unfold X1. apply R_set_cur_some; [lia| |].
    - change (nb (newblock (nextblock st))) with (S (nb (nextblock st))). rewrite nb_nextblock. unfold EP. lia.
    - apply R_newblock, R_nextblock, R0, Hi.
  Qed.
  Lemma tf_I1 : inv X1. Proof. exact (R_inv _ _ _ tf_R01). Qed.
  Lemma tf_R12 n : n <= nb X1 -> R n X1 X2.
  Proof. intros. apply R_from; [intros Z HZ; unfold X2; RV|exact tf_I1|auto]. Qed.
  Lemma tf_nb2 : nb X1 <= nb X2. Proof. apply (R_nb 0 X1 X2), tf_R12. lia. Qed.
  Lemma tf_I2 : inv X2. Proof. exact (R_inv _ _ _ (tf_R12 0 ltac:(lia))). Qed.
  Lemma tf_R23 n : n <= nb X2 -> R n X2 X3.
  Proof. intros. apply R_from; [intros Z HZ; unfold X3; RV|exact tf_I2|auto]. Qed.
  Lemma tf_nb3 : nb X2 <= nb X3. Proof. apply (R_nb 0 X2 X3), tf_R23. lia. Qed.
  Lemma tf_I3 : inv X3. Proof. exact (R_inv _ _ _ (tf_R23 0 ltac:(lia))). Qed.
  Lemma tf_R34 n : n <= nb X3 -> R n X3 X4.
  Proof. intros. apply R_from; [intros Z HZ; unfold X4; destruct (cur X3); [destruct (excs X3)|]; RV|exact tf_I3|auto]. Qed.
  Lemma tf_nb4 : nb X3 <= nb X4. Proof. apply (R_nb 0 X3 X4), tf_R34. lia. Qed.
  Lemma tf_I4 : inv X4. Proof. exact (R_inv _ _ _ (tf_R34 0 ltac:(lia))). Qed.
  Lemma tf_R45 n : n <= nb X4 -> R n X4 X5.
  Proof. intros. unfold X5. apply R_set_cur_some; [unfold FE; lia|simpl; unfold FE; lia|].
    apply R_newblock, R_refl; [exact tf_I4|auto]. Qed.
  Lemma tf_nb5 : nb X5 = S (nb X4). Proof. reflexivity. Qed.
  Lemma tf_I5 : inv X5. Proof. exact (R_inv _ _ _ (tf_R45 0 ltac:(lia))). Qed.
  Lemma tf_R56 n : n <= nb X5 -> R n X5 X6.
  Proof. intros. apply R_from; [intros Z HZ; unfold X6; RV|exact tf_I5|auto]. Qed.
  Lemma tf_nb6 : nb X5 <= nb X6. Proof. apply (R_nb 0 X5 X6), tf_R56. lia. Qed.
  Lemma tf_I6 : inv X6. Proof. exact (R_inv _ _ _ (tf_R56 0 ltac:(lia))). Qed.
  Lemma tf_R67 n : n <= nb X6 -> R n X6 X7.
  Proof. intros. apply R_from; [intros Z HZ; unfold X7; RV|exact tf_I6|auto]. Qed.
  Lemma tf_I7 : inv X7. Proof. exact (R_inv _ _ _ (tf_R67 0 ltac:(lia))). Qed.
  Lemma tf_nb7 : nb X7 = nb X6.
  Proof. unfold X7, push_loop_exc. simpl. destruct (loops X6); reflexivity. Qed.

  Lemma tf_R17 : R (S B) X1 X7.
  Proof.
    pose proof tf_nb1. pose proof tf_nb2. pose proof tf_nb3. pose proof tf_nb4. pose proof tf_nb5. pose proof tf_nb6.
    eapply R_trans; [apply tf_R12; lia|]. eapply R_trans; [apply tf_R23; lia|].
    eapply R_trans; [apply tf_R34; lia|]. eapply R_trans; [apply tf_R45; lia|].
    eapply R_trans; [apply tf_R56; lia|apply tf_R67; lia].
  Qed.

  Lemma tf_B_lt : B < nb X7.
  Proof. pose proof (R_nb _ _ _ tf_R17). pose proof tf_nb1. lia. Qed.

  Lemma tf_lenB : len X7 B = 0 /\ cur X7 <> Some B.
  Proof.
    destruct tf_R17 as (_ & _ & _ & _ & F). destruct (F B) as [L C]; [lia| |].
    - unfold X1, EP, B. simpl. intros E. inversion E. lia.
    - split; auto. rewrite L. unfold X1.
      change (len (set_cur (Some EP) (newblock (nextblock st))) B) with (len (nextblock st) B).
      unfold nextblock. rewrite len_nextblock_from. apply len_fresh; auto.
  Qed.

  Lemma tf_R78 : R 0 X7 X8.
  Proof. unfold X8. apply R_nextblock, R_add_edge, R_set_cur_some; [lia|apply tf_B_lt|apply R0, tf_I7]. Qed.
  Lemma tf_I8 : inv X8. Proof. exact (R_inv _ _ _ tf_R78). Qed.
  Lemma tf_R89 : R 0 X8 X9.
  Proof. apply R_from; [intros Z HZ; unfold X9, X9v; RV|exact tf_I8|lia]. Qed.
  Lemma tf_I9 : inv X9. Proof. exact (R_inv _ _ _ tf_R89). Qed.
  Lemma tf_R9F : R 0 X9 XF.
  Proof.
    unfold XF. destruct (cur X9) as [b|]; [|apply R0, tf_I9]. cbv zeta.
    destruct fexit as [[fxb k]|].
    - apply R_set_cur_some; [lia|simpl; lia|]. apply R_add_edge_k, R_newblock, R_add_edge, R0, tf_I9.
    - apply R_set_cur_none, R_add_edge, R0, tf_I9.
  Qed.

  Lemma tf_EF : ext XF g. Proof. rewrite tf_final in He. exact He. Qed.
  Lemma tf_E9 : ext X9 g. Proof. eapply ext_back; [apply tf_R9F|apply tf_EF]. Qed.
  Lemma tf_I9v : inv X9v. Proof. apply (R_inv 0 X8), visit_R00, tf_I8. Qed.
  Lemma tf_E9v : ext X9v g.
  Proof. eapply ext_back; [|apply tf_E9]. apply R_from; [intros Z HZ; unfold X9; RV|exact tf_I9v|lia]. Qed.
  Lemma tf_E8 : ext X8 g. Proof. eapply ext_back; [apply tf_R89|apply tf_E9]. Qed.
  Lemma tf_E7 : ext X7 g. Proof. eapply ext_back; [apply tf_R78|apply tf_E8]. Qed.
  Lemma tf_E6 : ext X6 g. Proof. eapply ext_back; [apply (tf_R67 0); lia|apply tf_E7]. Qed.
  Lemma tf_E5 : ext X5 g. Proof. eapply ext_back; [apply (tf_R56 0); lia|apply tf_E6]. Qed.
  Lemma tf_E4 : ext X4 g. Proof. eapply ext_back; [apply (tf_R45 0); lia|apply tf_E5]. Qed.
  Lemma tf_E3 : ext X3 g. Proof. eapply ext_back; [apply (tf_R34 0); lia|apply tf_E4]. Qed.
  Lemma tf_E2 : ext X2 g. Proof. eapply ext_back; [apply (tf_R23 0); lia|apply tf_E3]. Qed.
  Lemma tf_E1 : ext X1 g. Proof. eapply ext_back; [apply (tf_R12 0); lia|apply tf_E2]. Qed.

  Lemma tf_C2 : ceq st X2. Proof. unfold X2, X1. ceq_auto. Qed.
  Lemma tf_C5 : ceq st X5.
  Proof.
    unfold X5. change (ceq st X4). unfold X4.
    assert (H3 : ceq st X3) by (unfold X3; ceq_auto; apply tf_C2).
    destruct (cur X3); auto. destruct (excs X3); auto.
  Qed.
  Lemma tf_C6 : ceq st X6. Proof. unfold X6. ceq_auto. apply tf_C5. Qed.
  Lemma tf_excs8 : excs X8 = d :: excs st.
  Proof.
    unfold X8. destruct (ceq_nextblock_from None (add_edge B EP (set_cur (Some B) X7))) as [_ E].
    unfold nextblock. rewrite E. simpl. rewrite excs_push_loop_exc. f_equal. apply tf_C6.
  Qed.
  Lemma tf_loops8 : loops X8 = loops (push_loop_exc d X6).
  Proof.
    unfold X8. destruct (ceq_nextblock_from None (add_edge B EP (set_cur (Some B) X7))) as [E _].
    unfold nextblock. rewrite E. reflexivity.
  Qed.
  Lemma tf_inl8 : inl X8 = inl st.
  Proof.
    unfold inl. rewrite tf_loops8. destruct tf_C6 as [CL _]. rewrite <- CL. unfold push_loop_exc.
    destruct (loops X6) eqn:E6; simpl; rewrite ?E6; reflexivity.
  Qed.

  Lemma tf_lenEP : len X1 EP = 0.
  Proof.
    unfold X1. change (len (set_cur (Some EP) (newblock (nextblock st))) EP) with (len (nextblock st) EP).
    apply len_fresh; [exact (R_inv 0 st _ (R_nextblock _ _ _ (R0 _ Hi)))|].
    rewrite nb_nextblock. unfold EP. lia.
  Qed.

  (* whatever reaches the exception entry of the try/finally also reaches the enclosing handler *)
  Lemma tf_outer s1 : P g EP 0 s1 -> at_cur g X2 s1 /\ Kexc g (excs st) s1.
  Proof.
    intros HP. assert (A1 : at_cur g X1 s1).
    { exists EP. split; [reflexivity|]. now rewrite tf_lenEP. }
    destruct (exc_edge_sound g X1 s1 tf_I1 tf_E2 A1) as [A2 K2]. split; auto.
    assert (E1 : excs X1 = excs st) by (unfold X1; simpl; apply (ceq_nextblock_from None st)).
    now rewrite E1 in K2.
  Qed.

  Lemma tf_enter_body : at_cur g X8 sg /\ P g EP 0 sg.
  Proof.
    destruct HA as (b0 & Hc & HP).
    assert (PB : P g B 0 sg).
    { eapply P_edge_ext; [|apply tf_E1|exact HP]. unfold X1, nextblock, nextblock_from, link_cur. simpl.
      rewrite Hc. simpl. left. reflexivity. }
    destruct tf_lenB as [LB CB].
    set (Y := add_edge B EP (set_cur (Some B) X7)).
    assert (IY : inv Y) by (apply (R_inv 0 X7), R_add_edge, R_set_cur_some; [lia|apply tf_B_lt|apply R0, tf_I7]).
    assert (EY : ext Y g) by (eapply ext_back; [|apply tf_E8]; apply R_nextblock, R0, IY).
    assert (AY : at_cur g Y sg).
    { exists B. split; [reflexivity|]. change (len Y B) with (len X7 B). now rewrite LB. }
    split.
    - apply at_cur_nextblock; auto. apply tf_E8.
    - eapply P_edge_ext; [|exact EY|]. { unfold Y. simpl. left. reflexivity. }
      change (len (set_cur (Some B) X7) B) with (len X7 B). now rewrite LB.
  Qed.

  Lemma tf_lenFE : len X5 FE = 0.
  Proof. change (len X5 FE) with (len X4 FE). apply len_fresh; [apply tf_I4|unfold FE; lia]. Qed.

  Lemma tf_incl_3F : incl (eds X3) (eds XF).
  Proof.
    apply ext_edges. eapply ext_trans; [apply (R_ext 0), tf_R34; lia|].
    eapply ext_trans; [apply (R_ext 0), tf_R45; lia|]. eapply ext_trans; [apply (R_ext 0), tf_R56; lia|].
    eapply ext_trans; [apply (R_ext 0), tf_R67; lia|]. eapply ext_trans; [apply (R_ext 0), tf_R78|].
    eapply ext_trans; [apply (R_ext 0), tf_R89|apply (R_ext 0), tf_R9F].
  Qed.
  Lemma tf_incl_6F : incl (eds X6) (eds XF).
  Proof.
    apply ext_edges. eapply ext_trans; [apply (R_ext 0), tf_R67; lia|]. eapply ext_trans; [apply (R_ext 0), tf_R78|].
    eapply ext_trans; [apply (R_ext 0), tf_R89|apply (R_ext 0), tf_R9F].
  Qed.

  (* the try body raised: the exception copy of the finally clause runs *)
  Lemma tf_exc t1 s1 t2 o2 s2 : sim_stmt body sg t1 OExc s1 -> sim_stmt fexc s1 t2 o2 s2 ->
    Forall (justified g) (t1 ++ t2) /\
    post g st (visit true (TryFin body fexc fnorm) st) (fin_out OExc o2) s2.
  Proof.
    intros IHb IHe. destruct tf_enter_body as [A8 PE].
    assert (Hw8 : wf (inl X8) body = true).
    { rewrite tf_inl8. simpl in Hw. apply andb_true_iff in Hw. destruct Hw as [Hw' _].
      apply andb_true_iff in Hw'. tauto. }
    assert (K8 : Kexc g (excs X8) sg) by (rewrite tf_excs8; exact PE).
    destruct (IHb X8 g tf_I8 Hw8 tf_E9v A8 K8) as [J1 [K9 _]].
    rewrite tf_excs8 in K9. simpl in K9.
    destruct (tf_outer s1 K9) as [A2 K2].
    destruct tf_C2 as [CL CE].
    assert (Hw2 : wf (inl X2) fexc = true).
    { rewrite (inl_eq X2 st CL). simpl in Hw. apply andb_true_iff in Hw. destruct Hw as [Hw' _].
      apply andb_true_iff in Hw'. tauto. }
    assert (K2' : Kexc g (excs X2) s1) by (rewrite CE; exact K2).
    destruct (IHe X2 g tf_I2 Hw2 tf_E3 A2 K2') as [J2 P3]. fold X3 in P3.
    split; [apply Forall_app; auto|].
    apply (post_ctx g st X2) in P3; auto. rewrite tf_final.
    destruct o2; simpl.
    - destruct P3 as [K3 _]. split; auto.
    - eapply post_mono; [apply tf_incl_3F|discriminate|exact P3].
    - eapply post_mono; [apply tf_incl_3F|discriminate|exact P3].
    - eapply post_mono; [apply tf_incl_3F|discriminate|exact P3].
    - eapply post_mono; [apply tf_incl_3F|discriminate|exact P3].
  Qed.

  Lemma tf_cur9 : cur X9 = cur X9v.
  Proof. unfold X9, pop_loop_exc. simpl. destruct (loops X9v); reflexivity. Qed.
  Lemma tf_sts9 : sts X9 = sts X9v.
  Proof. unfold X9, pop_loop_exc. simpl. destruct (loops X9v); reflexivity. Qed.
  Lemma tf_eds9 : eds X9 = eds X9v.
  Proof. unfold X9, pop_loop_exc. simpl. destruct (loops X9v); reflexivity. Qed.
  Lemma tf_incl_9F : incl (eds X9v) (eds XF).
  Proof. rewrite <- tf_eds9. apply ext_edges, (R_ext 0), tf_R9F. Qed.

  (* what the finally clause has to deliver once it completes, for each way of leaving the body *)
  Definition tf_cont (o1 : out) : Prop :=
    forall fxb k s2, fexit = Some (fxb, k) -> P g fxb k s2 -> Kexc g (excs st) s2 -> post g st XF o1 s2.

  Lemma tf_leave o1 s1 : o1 <> OExc -> post g X8 X9v o1 s1 -> P g FE 0 s1 /\ tf_cont o1.
  Proof.
    intros Ho [K9 P9]. destruct tf_C6 as [CL6 CE6].
    destruct o1; try congruence.
    - (* the body completed *)
      destruct P9 as (b9 & Hc9 & HP9).
      assert (Hc : cur X9 = Some b9) by (rewrite tf_cur9; exact Hc9).
      assert (HL : len X9 b9 = len X9v b9) by (unfold len; now rewrite tf_sts9).
      split.
      + eapply P_edge_ext; [|apply tf_EF|exact HP9]. unfold XF. rewrite Hc. cbv zeta. rewrite <- HL.
        destruct fexit as [[fxb k]|]; simpl; auto.
      + intros fxb k s2 Hf HP2 HK2. split; auto. unfold XF. rewrite Hc, Hf. cbv zeta.
        exists (nb X9). split; [reflexivity|].
        match goal with |- P g _ (len ?Y _) _ => change (len Y (nb X9)) with (len X9 (nb X9)) end.
        rewrite (len_fresh X9); [|apply tf_I9|lia].
        eapply P_edge_ext; [|apply tf_EF|exact HP2]. unfold XF. rewrite Hc, Hf. cbv zeta. simpl. auto.
    - (* break *)
      rewrite tf_loops8 in P9. unfold push_loop_exc in P9. rewrite CL6 in P9.
      destruct (loops st) as [|L r] eqn:EL; [simpl in P9; rewrite CL6 in P9; contradiction|].
      simpl in P9. cbn [chain x_fin d] in P9.
      destruct fexit as [[fxb k]|] eqn:Ef.
      + destruct P9 as [PF PC]. split; auto. intros fxb' k' s2 Hf HP2 HK2. rewrite Ef in Hf. inversion Hf; subst.
        split; auto. rewrite EL. eapply chain_impl; [|apply PC, HP2].
        intros s [A Bp]. split; auto. eapply hp_mono; [apply tf_incl_9F|exact Bp].
      + split; auto. intros fxb' k' s2 Hf. rewrite Ef in Hf. discriminate.
    - (* continue *)
      rewrite tf_loops8 in P9. unfold push_loop_exc in P9. rewrite CL6 in P9.
      destruct (loops st) as [|L r] eqn:EL; [simpl in P9; rewrite CL6 in P9; contradiction|].
      simpl in P9. cbn [chain x_fin d] in P9.
      destruct fexit as [[fxb k]|] eqn:Ef.
      + destruct P9 as [PF PC]. split; auto. intros fxb' k' s2 Hf HP2 HK2. rewrite Ef in Hf. inversion Hf; subst.
        split; auto. rewrite EL. apply PC, HP2.
      + split; auto. intros fxb' k' s2 Hf. rewrite Ef in Hf. discriminate.
    - (* return *)
      rewrite tf_excs8 in P9. simpl in P9. cbn [chain x_fin d] in P9.
      destruct fexit as [[fxb k]|] eqn:Ef.
      + destruct P9 as [PF PC]. split; auto. intros fxb' k' s2 Hf HP2 HK2. rewrite Ef in Hf. inversion Hf; subst.
        split; auto.
      + split; auto. intros fxb' k' s2 Hf. rewrite Ef in Hf. discriminate.
  Qed.

  Lemma tf_other t1 o1 s1 t2 o2 s2 : o1 <> OExc ->
    sim_stmt body sg t1 o1 s1 -> sim_stmt fnorm s1 t2 o2 s2 ->
    Forall (justified g) (t1 ++ t2) /\
    post g st (visit true (TryFin body fexc fnorm) st) (fin_out o1 o2) s2.
  Proof.
    intros Ho IHb IHn. destruct tf_enter_body as [A8 PE].
    assert (Hw8 : wf (inl X8) body = true).
    { rewrite tf_inl8. simpl in Hw. apply andb_true_iff in Hw. destruct Hw as [Hw' _].
      apply andb_true_iff in Hw'. tauto. }
    assert (K8 : Kexc g (excs X8) sg) by (rewrite tf_excs8; exact PE).
    destruct (IHb X8 g tf_I8 Hw8 tf_E9v A8 K8) as [J1 P9]. fold X9v in P9.
    pose proof P9 as [K9 _]. rewrite tf_excs8 in K9. simpl in K9.
    destruct (tf_outer s1 K9) as [_ K2].
    destruct (tf_leave o1 s1 Ho P9) as [PF Cont].
    destruct tf_C5 as [CL CE].
    assert (Hw5 : wf (inl X5) fnorm = true).
    { rewrite (inl_eq X5 st CL). simpl in Hw. apply andb_true_iff in Hw. tauto. }
    assert (K5 : Kexc g (excs X5) s1) by (rewrite CE; exact K2).
    assert (A5 : at_cur g X5 s1).
    { exists FE. split; [reflexivity|]. now rewrite tf_lenFE. }
    destruct (IHn X5 g tf_I5 Hw5 tf_E6 A5 K5) as [J2 P6]. fold X6 in P6.
    split; [apply Forall_app; auto|].
    apply (post_ctx g st X5) in P6; auto. rewrite tf_final.
    destruct o2; simpl.
    - destruct P6 as [K6 (fxb & Hc6 & HP6)].
      apply (Cont fxb (len X6 fxb)); auto. unfold fexit. now rewrite Hc6.
    - eapply post_mono; [apply tf_incl_6F|discriminate|exact P6].
    - eapply post_mono; [apply tf_incl_6F|discriminate|exact P6].
    - eapply post_mono; [apply tf_incl_6F|discriminate|exact P6].
    - eapply post_mono; [apply tf_incl_6F|discriminate|exact P6].
  Qed.
End TryFinCase.

Lemma sim_tryfin_exc body fexc fnorm sg t1 s1 t2 o2 s2 :
  sim_stmt body sg t1 OExc s1 -> sim_stmt fexc s1 t2 o2 s2 ->
  sim_stmt (TryFin body fexc fnorm) sg (t1 ++ t2) (fin_out OExc o2) s2.
Proof. intros IHb IHe st g Hi Hw He HA HK. eapply tf_exc; eauto. Qed.
Lemma sim_tryfin_other body fexc fnorm sg t1 o1 s1 t2 o2 s2 : o1 <> OExc ->
  sim_stmt body sg t1 o1 s1 -> sim_stmt fnorm s1 t2 o2 s2 ->
  sim_stmt (TryFin body fexc fnorm) sg (t1 ++ t2) (fin_out o1 o2) s2.
Proof. intros Ho IHb IHn st g Hi Hw He HA HK. eapply tf_other; eauto. Qed.

(* ------------------------------------------------------------------ loops *)
Lemma refs_pass g c : forall X sg, inv X -> ext (refs c X) g -> at_cur g X sg -> at_cur g (refs c X) sg.
Proof.
  induction c as [|[l e] c IH]; intros X sg Hi He HA; simpl in *; auto.
  assert (R1 : R 0 X (v_ref l e X)) by (apply R_v_ref, R0, Hi).
  assert (R2 : R 0 (v_ref l e X) (refs c (v_ref l e X))) by (apply R_refs, R0, (R_inv _ _ _ R1)).
  apply IH; [exact (R_inv _ _ _ R1)|exact He|].
  apply (v_ref_sound g X l e sg); auto. eapply ext_back; eauto.
Qed.

Lemma cur_refs c : forall X, cur (refs c X) = cur X.
Proof.
  induction c as [|r c IH]; intros X; simpl; auto. rewrite IH. unfold v_ref, append.
  destruct (cur X) eqn:E; simpl; auto.
Qed.

Definition sim_loop f c tg body h el (sg : state) (tr : list event) (o : out) (s2 : state) : Prop :=
  forall st g, inv st -> wf (inl st) (Loop f c tg body h el) = true ->
    ext (visit true (Loop f c tg body h el) st) g ->
    P g (nb st) 0 sg -> Kexc g (excs st) sg ->
    Forall (justified g) tr /\ post g st (visit true (Loop f c tg body h el) st) o s2.

Section LoopCase.
  Variables (isfor : bool) (c tg : list nref) (body : stmt) (hasel : bool) (el : stmt).
  Variables (st g : bst).
  Hypothesis Hi : inv st.
  Hypothesis Hw : wf (inl st) (Loop isfor c tg body hasel el) = true.
  Hypothesis He : ext (visit true (Loop isfor c tg body hasel el) st) g.

  Local Definition LC := nb st.
  Local Definition LN := S (nb st).
  Local Definition Y2 := newblock (nextblock st).
  Local Definition Y3 := push_loop (mk_loopd LN LC []) Y2.
  Local Definition Y4 := refs c Y3.
  Local Definition Y5 := nextblock Y4.
  Local Definition Y6 := if isfor then nextblock (asgs tg Y5) else Y5.
  Local Definition Y7v := visit true body Y6.
  Local Definition Y7 := pop_loop Y7v.
  Local Definition Y8 := match cur Y7 with
            | Some b => let s1 := add_edge b LC Y7 in if isfor then s1 else add_edge b LN s1
            | None => Y7 end.
  Local Definition Y9 := if hasel then link_cur LN (visit true el (nextblock_from (cur Y4) Y8))
            else add_edge_o (cur Y4) LN Y8.

  Lemma lp_final : visit true (Loop isfor c tg body hasel el) st = cur_if_parents LN Y9.
  Proof. unfold Y9, Y8, Y7, Y7v, Y6, Y5, Y4, Y3, Y2, LN, LC. reflexivity. Qed.

  Lemma lp_nb2 : nb Y2 = S LN.
  Proof. unfold Y2. change (nb (newblock (nextblock st))) with (S (nb (nextblock st))). now rewrite nb_nextblock. Qed.
  Lemma lp_I2 : inv Y2.
  Proof. apply (R_inv 0 st). unfold Y2. apply R_newblock, R_nextblock, R0, Hi. Qed.
  Lemma lp_R24 n : n <= nb Y2 -> R n Y2 Y4.
  Proof. intros. apply R_from; [intros Z HZ; unfold Y4, Y3; RV|exact lp_I2|auto]. Qed.
  Lemma lp_I4 : inv Y4. Proof. exact (R_inv _ _ _ (lp_R24 0 ltac:(lia))). Qed.
  Lemma lp_nb4 : nb Y2 <= nb Y4. Proof. apply (R_nb 0 Y2 Y4), lp_R24. lia. Qed.
  Lemma lp_R45 n : n <= nb Y4 -> R n Y4 Y5.
  Proof. intros. apply R_from; [intros Z HZ; unfold Y5; RV|exact lp_I4|auto]. Qed.
  Lemma lp_I5 : inv Y5. Proof. exact (R_inv _ _ _ (lp_R45 0 ltac:(lia))). Qed.
  Lemma lp_nb5 : nb Y5 = S (nb Y4). Proof. unfold Y5. apply nb_nextblock. Qed.
  Lemma lp_R56 n : n <= nb Y5 -> R n Y5 Y6.
  Proof. intros. apply R_from; [intros Z HZ; unfold Y6; destruct isfor; RV|exact lp_I5|auto]. Qed.
  Lemma lp_I6 : inv Y6. Proof. exact (R_inv _ _ _ (lp_R56 0 ltac:(lia))). Qed.
  Lemma lp_nb6 : nb Y5 <= nb Y6. Proof. apply (R_nb 0 Y5 Y6), lp_R56. lia. Qed.
  Lemma lp_R67 n : n <= nb Y6 -> R n Y6 Y7.
  Proof. intros. apply R_from; [intros Z HZ; unfold Y7, Y7v; RV|exact lp_I6|auto]. Qed.
  Lemma lp_I7 : inv Y7. Proof. exact (R_inv _ _ _ (lp_R67 0 ltac:(lia))). Qed.
  Lemma lp_nb7 : nb Y6 <= nb Y7. Proof. apply (R_nb 0 Y6 Y7), lp_R67. lia. Qed.
  Lemma lp_R78 n : n <= nb Y7 -> R n Y7 Y8.
  Proof. intros. apply R_from; [intros Z HZ; unfold Y8; destruct (cur Y7); [destruct isfor|]; cbv zeta; RV|exact lp_I7|auto]. Qed.
  Lemma lp_I8 : inv Y8. Proof. exact (R_inv _ _ _ (lp_R78 0 ltac:(lia))). Qed.
  Lemma lp_nb8 : nb Y7 <= nb Y8. Proof. apply (R_nb 0 Y7 Y8), lp_R78. lia. Qed.
  Lemma lp_R89 n : n <= nb Y8 -> R n Y8 Y9.
  Proof. intros. apply R_from; [intros Z HZ; unfold Y9; destruct hasel; RV|exact lp_I8|auto]. Qed.
  Lemma lp_I9 : inv Y9. Proof. exact (R_inv _ _ _ (lp_R89 0 ltac:(lia))). Qed.

  Lemma lp_E9 : ext Y9 g.
  Proof. rewrite lp_final in He. eapply ext_trans; [|exact He]. split; [exists []; reflexivity|apply incl_refl]. Qed.
  Lemma lp_E8 : ext Y8 g. Proof. eapply ext_back; [apply (lp_R89 0); lia|apply lp_E9]. Qed.
  Lemma lp_E7 : ext Y7 g. Proof. eapply ext_back; [apply (lp_R78 0); lia|apply lp_E8]. Qed.
  Lemma lp_E7v : ext Y7v g. Proof. exact lp_E7. Qed.
  Lemma lp_E6 : ext Y6 g. Proof. eapply ext_back; [apply (lp_R67 0); lia|apply lp_E7]. Qed.
  Lemma lp_E5 : ext Y5 g. Proof. eapply ext_back; [apply (lp_R56 0); lia|apply lp_E6]. Qed.
  Lemma lp_E4 : ext Y4 g. Proof. eapply ext_back; [apply (lp_R45 0); lia|apply lp_E5]. Qed.
  Lemma lp_E2 : ext Y2 g. Proof. eapply ext_back; [apply (lp_R24 0); lia|apply lp_E4]. Qed.

  Lemma lp_cur4 : cur Y4 = Some LC.
  Proof. unfold Y4. rewrite cur_refs. reflexivity. Qed.

  (* next_block never receives statements *)
  Lemma lp_lenN : len Y9 LN = 0.
  Proof.
    pose proof lp_nb2. pose proof lp_nb4. pose proof lp_nb5. pose proof lp_nb6. pose proof lp_nb7. pose proof lp_nb8.
    assert (H29 : R (S LN) Y2 Y9).
    { eapply R_trans; [apply lp_R24; lia|]. eapply R_trans; [apply lp_R45; lia|].
      eapply R_trans; [apply lp_R56; lia|]. eapply R_trans; [apply lp_R67; lia|].
      eapply R_trans; [apply lp_R78; lia|apply lp_R89; lia]. }
    rewrite (len_frame _ _ _ LN H29); [|lia|].
    - unfold Y2. change (len (newblock (nextblock st)) LN) with (len (nextblock st) LN).
      unfold nextblock. rewrite len_nextblock_from. apply len_fresh; auto. unfold LN. lia.
    - unfold Y2, LN. simpl. intros E. inversion E. lia.
  Qed.

  (* the condition block keeps its statements while the body is built *)
  Lemma lp_lenC : len Y8 LC = len Y4 LC.
  Proof.
    pose proof lp_nb2. pose proof lp_nb4. pose proof lp_nb5. pose proof lp_nb6. pose proof lp_nb7.
    assert (H58 : R (nb Y5) Y5 Y8).
    { eapply R_trans; [apply lp_R56; lia|]. eapply R_trans; [apply lp_R67; lia|apply lp_R78; lia]. }
    rewrite (len_frame _ _ _ LC H58).
    - unfold Y5, nextblock. apply len_nextblock_from.
    - unfold LC, LN in *. lia.
    - unfold Y5. simpl. intros E. inversion E. unfold LC, LN in *. lia.
  Qed.

  Lemma lp_ceq6 : loops Y6 = mk_loopd LN LC [] :: loops st /\ excs Y6 = excs st.
  Proof.
    assert (H3 : loops Y3 = mk_loopd LN LC [] :: loops st /\ excs Y3 = excs st).
    { unfold Y3, Y2. destruct (ceq_nextblock_from None st) as [A B']. split.
      - change (mk_loopd LN LC [] :: loops (nextblock st) = mk_loopd LN LC [] :: loops st). f_equal. exact A.
      - change (excs (nextblock st) = excs st). exact B'. }
    assert (H36 : ceq Y3 Y6) by (unfold Y6, Y5, Y4; destruct isfor; ceq_auto).
    destruct H36 as [A B']. destruct H3. split; congruence.
  Qed.
  Lemma lp_ceq8 : ceq st Y8.
  Proof.
    assert (H7 : ceq st Y7).
    { destruct lp_ceq6 as [A B']. destruct (proj1 (visit_ceq true) body Y6) as [A2 B2]. fold Y7v in A2, B2.
      unfold Y7. split; simpl; [rewrite A2, A; reflexivity|congruence]. }
    unfold Y8. destruct (cur Y7); auto. cbv zeta. destruct isfor; exact H7.
  Qed.

  (* from the loop head through the condition *)
  Lemma lp_head sg : P g LC 0 sg -> at_cur g Y4 sg.
  Proof.
    intros HP. unfold Y4. apply refs_pass; [exact (R_inv 0 Y2 Y3 (R_push_loop _ _ _ _ (R0 _ lp_I2)))|apply lp_E4|].
    exists LC. split; [reflexivity|].
    assert (L0 : len Y3 LC = 0).
    { unfold Y3, Y2. change (len (push_loop (mk_loopd LN LC []) (newblock (nextblock st))) LC) with (len (nextblock st) LC).
      unfold nextblock. rewrite len_nextblock_from. apply len_fresh; auto. }
    now rewrite L0.
  Qed.
  Lemma lp_head_ev sg tr ok : P g LC 0 sg -> eval_refs sg c tr ok -> Forall (justified g) tr.
  Proof.
    intros HP Hev. unfold Y4.
    assert (A3 : at_cur g Y3 sg).
    { exists LC. split; [reflexivity|].
      assert (L0 : len Y3 LC = 0).
      { unfold Y3, Y2. change (len (push_loop (mk_loopd LN LC []) (newblock (nextblock st))) LC) with (len (nextblock st) LC).
        unfold nextblock. rewrite len_nextblock_from. apply len_fresh; auto. }
      now rewrite L0. }
    eapply (refs_sound g c Y3 sg tr ok); eauto.
    - exact (R_inv 0 Y2 Y3 (R_push_loop _ _ _ _ (R0 _ lp_I2))).
    - apply lp_E4.
  Qed.
  Lemma lp_head_eval sg tr ok : P g LC 0 sg -> head_eval isfor sg c tr ok -> Forall (justified g) tr.
  Proof.
    unfold head_eval. intros HP H. destruct (Bool.bool_dec isfor true) as [E|E].
    - rewrite E in H. destruct H as [-> _]. constructor.
    - apply Bool.not_true_is_false in E. rewrite E in H. eapply lp_head_ev; eauto.
  Qed.

  Lemma lp_exc sg tr : P g LC 0 sg -> Kexc g (excs st) sg -> head_eval isfor sg c tr false ->
    Forall (justified g) tr /\ post g st (visit true (Loop isfor c tg body hasel el) st) OExc sg.
  Proof. intros HP HK H. split; [eapply lp_head_eval; eauto|split; auto]. Qed.

  Lemma lp_P_end sg : P g LC 0 sg -> P g LC (len Y8 LC) sg.
  Proof. intros HP. destruct (lp_head sg HP) as (b & Hc & HPb). rewrite lp_cur4 in Hc. inversion Hc; subst.
    now rewrite lp_lenC. Qed.

  Lemma lp_exit sg t1 : hasel = false -> P g LC 0 sg -> Kexc g (excs st) sg ->
    head_eval isfor sg c t1 true ->
    Forall (justified g) t1 /\ post g st (visit true (Loop isfor c tg body hasel el) st) ONorm sg.
  Proof.
    intros Hh HP HK H. split; [eapply lp_head_eval; eauto|]. split; auto.
    rewrite lp_final. pose proof lp_E9 as E9. pose proof lp_lenN as HLN. unfold Y9 in E9, HLN |- *.
    rewrite Hh, lp_cur4 in E9, HLN |- *. simpl in E9, HLN |- *.
    destruct (add_edge_sound g Y8 LC LN sg E9 (lp_P_end sg HP)) as [PN HPn]. apply cip_sound; auto.
  Qed.

  Lemma lp_else sg t1 t2 o s2 : hasel = true -> P g LC 0 sg -> Kexc g (excs st) sg ->
    head_eval isfor sg c t1 true -> sim_stmt el sg t2 o s2 ->
    Forall (justified g) (t1 ++ t2) /\ post g st (visit true (Loop isfor c tg body hasel el) st) o s2.
  Proof.
    intros Hh HP HK H IH.
    pose proof lp_E9 as E9. pose proof lp_lenN as HLN. unfold Y9 in E9, HLN. rewrite Hh, lp_cur4 in E9, HLN.
    set (Y := nextblock_from (Some LC) Y8) in *.
    assert (RY : R 0 Y8 Y) by (apply R_from; [intros; unfold Y; RV|exact lp_I8|lia]).
    assert (RV1 : R 0 Y (visit true el Y)) by (apply visit_R00, (R_inv _ _ _ RY)).
    assert (RL : R 0 (visit true el Y) (link_cur LN (visit true el Y))) by (apply R_link_cur, R0, (R_inv _ _ _ RV1)).
    assert (EV : ext (visit true el Y) g) by (eapply ext_back; eauto).
    assert (EY : ext Y g) by (eapply ext_back; eauto).
    assert (HC : LC < nb Y8).
    { pose proof lp_nb2. pose proof lp_nb4. pose proof lp_nb5. pose proof lp_nb6. pose proof lp_nb7. pose proof lp_nb8.
      unfold LC, LN in *. lia. }
    assert (AY : at_cur g Y sg) by (apply at_cur_nextblock_from; auto; [apply lp_I8|apply lp_P_end; auto]).
    assert (CY : ceq st Y) by (unfold Y; ceq_auto; apply lp_ceq8).
    destruct CY as [CL CE].
    assert (HwY : wf (inl Y) el = true).
    { rewrite (inl_eq Y st CL). simpl in Hw. apply andb_true_iff in Hw. tauto. }
    assert (KY : Kexc g (excs Y) sg) by (rewrite CE; exact HK).
    destruct (IH Y g (R_inv _ _ _ RY) HwY EV AY KY) as [J2 PV].
    split; [apply Forall_app; split; auto; eapply lp_head_eval; eauto|].
    apply (post_ctx g st Y) in PV; auto.
    rewrite lp_final. unfold Y9. rewrite Hh, lp_cur4. fold Y.
    destruct o.
    - destruct PV as [KV AV].
      destruct (link_cur_sound g _ LN s2 E9 AV) as [PN HPn].
      split; auto. apply cip_sound; auto.
    - eapply post_mono; [| |exact PV]; [|discriminate]. apply ext_edges, (R_ext _ _ _ RL).
    - eapply post_mono; [| |exact PV]; [|discriminate]. apply ext_edges, (R_ext _ _ _ RL).
    - eapply post_mono; [| |exact PV]; [|discriminate]. apply ext_edges, (R_ext _ _ _ RL).
    - eapply post_mono; [| |exact PV]; [|discriminate]. apply ext_edges, (R_ext _ _ _ RL).
  Qed.

  Lemma lp_enter sg : at_cur g st sg -> P g LC 0 sg.
  Proof.
    intros (b & Hc & HP). eapply P_edge_ext; [|apply lp_E2|exact HP].
    unfold Y2, nextblock, nextblock_from, link_cur. simpl. rewrite Hc. simpl. auto.
  Qed.

  Lemma lp_excs5 : excs Y5 = excs st.
  Proof.
    assert (H : ceq Y3 Y5) by (unfold Y5, Y4; ceq_auto). destruct H as [_ H]. rewrite H.
    unfold Y3, Y2. change (excs (nextblock st) = excs st). apply (ceq_nextblock_from None st).
  Qed.

  Lemma lp_body_entry sg : P g LC 0 sg -> Kexc g (excs st) sg ->
    at_cur g Y6 (if isfor then bind tg sg else sg) /\ Kexc g (excs st) (if isfor then bind tg sg else sg) /\
    Forall (justified g) (if isfor then bind_ev tg sg else []).
  Proof.
    intros HP HK. pose proof (lp_head sg HP) as A4.
    assert (A5 : at_cur g Y5 sg) by (apply at_cur_nextblock; [apply lp_I4|apply lp_E5|exact A4]).
    pose proof lp_E6 as E6. unfold Y6 in *. destruct (Bool.bool_dec isfor true) as [E|E].
    - rewrite E in E6 |- *.
      assert (RA : R 0 Y5 (asgs tg Y5)) by (apply R_asgs, R0, lp_I5).
      assert (RN : R 0 (asgs tg Y5) (nextblock (asgs tg Y5))) by (apply R_nextblock, R0, (R_inv _ _ _ RA)).
      assert (EA : ext (asgs tg Y5) g) by (eapply ext_back; eauto).
      assert (K5 : Kexc g (excs Y5) sg) by (rewrite lp_excs5; exact HK).
      destruct (asgs_sound g tg Y5 sg lp_I5 EA A5 K5) as (AA & KA & JA). rewrite lp_excs5 in KA.
      split; [|split; auto]. apply at_cur_nextblock; auto. exact (R_inv _ _ _ RA).
    - apply Bool.not_true_is_false in E. rewrite E in E6 |- *. auto.
  Qed.

  Lemma lp_inl6 : inl Y6 = true.
  Proof. unfold inl. destruct lp_ceq6 as [A _]. now rewrite A. Qed.

  Lemma lp_incl_7F : incl (eds Y7v) (eds (cur_if_parents LN Y9)).
  Proof.
    change (incl (eds Y7) (eds Y9)). apply ext_edges.
    eapply ext_trans; [apply (R_ext 0), lp_R78; lia|apply (R_ext 0), lp_R89; lia].
  Qed.

  (* one execution of the body, started at the loop head *)
  Lemma lp_body sg t1 t2 ob s1 : P g LC 0 sg -> Kexc g (excs st) sg ->
    head_eval isfor sg c t1 true ->
    sim_stmt body (if isfor then bind tg sg else sg) t2 ob s1 ->
    Forall (justified g) ((t1 ++ (if isfor then bind_ev tg sg else [])) ++ t2) /\ Kexc g (excs st) s1 /\
    match ob with
    | ONorm | OCont => P g LC 0 s1
    | OBrk => at_cur g (cur_if_parents LN Y9) s1
    | ORet => chain g (excs st) (fun s => P g 1 0 s) s1
    | OExc => True
    end.
  Proof.
    intros HP HK H IH. destruct (lp_body_entry sg HP HK) as (A6 & K6 & JB).
    assert (Hw6 : wf (inl Y6) body = true).
    { rewrite lp_inl6. simpl in Hw. apply andb_true_iff in Hw. tauto. }
    destruct lp_ceq6 as [CL6 CE6].
    assert (K6' : Kexc g (excs Y6) (if isfor then bind tg sg else sg)) by (rewrite CE6; exact K6).
    destruct (IH Y6 g lp_I6 Hw6 lp_E7v A6 K6') as [J2 [K7 P7]]. fold Y7v in P7.
    rewrite CE6 in K7.
    split; [apply Forall_app; split; auto; apply Forall_app; split; auto; eapply lp_head_eval; eauto|]. split; auto.
    destruct ob; auto.
    - (* end of the body: back edge *)
      destruct P7 as (b & Hc & HPb).
      assert (Hc7 : cur Y7 = Some b) by exact Hc.
      eapply P_edge_ext; [|apply lp_E8|exact HPb].
      unfold Y8. rewrite Hc7. cbv zeta. change (len Y7 b) with (len Y7v b).
      destruct (Bool.bool_dec isfor true) as [E|E].
      + rewrite E. simpl. auto.
      + apply Bool.not_true_is_false in E. rewrite E. simpl. auto.
    - (* break: next_block *)
      rewrite CL6 in P7. simpl in P7. destruct P7 as [PN HPn].
      apply cip_sound; auto; [apply lp_lenN|]. eapply hp_mono; [apply lp_incl_7F|exact HPn].
    - (* continue *)
      rewrite CL6 in P7. simpl in P7. exact P7.
    - rewrite CE6 in P7. exact P7.
  Qed.
End LoopCase.

Lemma sim_loop_exc f c tg body h el sg tr : head_eval f sg c tr false ->
  sim_loop f c tg body h el sg tr OExc sg.
Proof. intros H st g Hi Hw He HP HK. eapply lp_exc; eauto. Qed.
Lemma sim_loop_exit f c tg body el sg t1 : head_eval f sg c t1 true ->
  sim_loop f c tg body false el sg t1 ONorm sg.
Proof. intros H st g Hi Hw He HP HK. eapply lp_exit; eauto. Qed.
Lemma sim_loop_else f c tg body el sg t1 t2 o s2 : head_eval f sg c t1 true -> sim_stmt el sg t2 o s2 ->
  sim_loop f c tg body true el sg (t1 ++ t2) o s2.
Proof. intros H IH st g Hi Hw He HP HK. eapply lp_else; eauto. Qed.
Lemma sim_loop_iter f c tg body h el sg t1 t2 ob s1 t3 o s2 : head_eval f sg c t1 true ->
  sim_stmt body (if f then bind tg sg else sg) t2 ob s1 -> ob = ONorm \/ ob = OCont ->
  sim_loop f c tg body h el s1 t3 o s2 ->
  sim_loop f c tg body h el sg ((t1 ++ (if f then bind_ev tg sg else [])) ++ t2 ++ t3) o s2.
Proof.
  intros H IHb Hob IHl st g Hi Hw He HP HK.
  destruct (lp_body f c tg body h el st g Hi Hw He sg t1 t2 ob s1 HP HK H IHb) as (J & K1 & Q).
  assert (HP1 : P g (nb st) 0 s1) by (destruct Hob; subst; exact Q).
  destruct (IHl st g Hi Hw He HP1 K1) as [J3 P3]. split; auto.
  rewrite app_assoc. apply Forall_app; auto.
Qed.
Lemma sim_loop_break f c tg body h el sg t1 t2 s1 : head_eval f sg c t1 true ->
  sim_stmt body (if f then bind tg sg else sg) t2 OBrk s1 ->
  sim_loop f c tg body h el sg ((t1 ++ (if f then bind_ev tg sg else [])) ++ t2) ONorm s1.
Proof.
  intros H IHb st g Hi Hw He HP HK.
  destruct (lp_body f c tg body h el st g Hi Hw He sg t1 t2 OBrk s1 HP HK H IHb) as (J & K1 & Q).
  split; auto. split; auto.
Qed.
Lemma sim_loop_prop f c tg body h el sg t1 t2 ob s1 : head_eval f sg c t1 true ->
  sim_stmt body (if f then bind tg sg else sg) t2 ob s1 -> ob = ORet \/ ob = OExc ->
  sim_loop f c tg body h el sg ((t1 ++ (if f then bind_ev tg sg else [])) ++ t2) ob s1.
Proof.
  intros H IHb Hob st g Hi Hw He HP HK.
  destruct (lp_body f c tg body h el st g Hi Hw He sg t1 t2 ob s1 HP HK H IHb) as (J & K1 & Q).
  split; auto. split; auto. destruct Hob; subst; auto.
Qed.

(* entering the loop statement *)
Lemma loop_enter f c tg body h el st g sg : inv st -> wf (inl st) (Loop f c tg body h el) = true ->
  ext (visit true (Loop f c tg body h el) st) g -> at_cur g st sg -> P g (nb st) 0 sg.
Proof. intros Hi Hw He HA. eapply lp_enter; eauto. Qed.

Lemma sim_while c tg body h el sg tr o s2 : sim_loop false c tg body h el sg tr o s2 ->
  sim_stmt (Loop false c tg body h el) sg tr o s2.
Proof.
  intros IH st g Hi Hw He HA HK. apply IH; auto. eapply loop_enter; eauto.
Qed.
Lemma sim_for_exc c tg body h el sg tr : eval_refs sg c tr false ->
  sim_stmt (Loop true c tg body h el) sg tr OExc sg.
Proof.
  intros Hev st g Hi Hw He HA HK. split; [|split; auto].
  eapply lp_head_ev; eauto. eapply loop_enter; eauto.
Qed.
Lemma sim_for c tg body h el sg t1 t2 o s2 : eval_refs sg c t1 true ->
  sim_loop true c tg body h el sg t2 o s2 -> sim_stmt (Loop true c tg body h el) sg (t1 ++ t2) o s2.
Proof.
  intros Hev IH st g Hi Hw He HA HK. pose proof (loop_enter _ _ _ _ _ _ _ _ _ Hi Hw He HA) as HP.
  destruct (IH st g Hi Hw He HP HK) as [J2 P2]. split; auto.
  apply Forall_app; split; auto. eapply lp_head_ev; eauto.
Qed.

(* ------------------------------------------------------------------ except clauses *)
Definition posth (g st st' : bst) (N : nat) (o : out) (sg : state) : Prop :=
  match o with
  | ONorm => Kexc g (excs st) sg /\ P g N 0 sg /\ has_parents N st' = true
  | _ => post g st st' o sg
  end.

Definition sim_h (hs : handlers) (sg : state) (tr : list event) (o : out) (s2 : state) : Prop :=
  forall st g N E, inv st -> wf_h (inl st) hs = true -> E < nb st -> len st E = 0 ->
    ext (snd (visit_h true hs N E st)) g -> P g E 0 sg -> Kexc g (excs st) sg ->
    Forall (justified g) tr /\ posth g st (snd (visit_h true hs N E st)) N o s2.

Lemma visit_h_R hs n st X N E : n <= E -> E < nb X -> R n st X ->
  R n st (snd (visit_h true hs N E X)) /\ n <= fst (visit_h true hs N E X) /\
  fst (visit_h true hs N E X) < nb (snd (visit_h true hs N E X)).
Proof. apply (proj2 (visit_R true)). Qed.

Lemma visit_h_ceq hs X N E : ceq X (snd (visit_h true hs N E X)).
Proof. apply (proj2 (visit_ceq true)). Qed.

Section HandlerCase.
  Variables (hastg : bool) (tl te : nat) (hb : stmt) (rest : handlers).
  Variables (st g : bst) (N E : nat).
  Hypothesis Hi : inv st.
  Hypothesis HE : E < nb st.
  Hypothesis HL : len st E = 0.

  Local Definition H1 := set_cur (Some E) st.
  Local Definition E2 := nb st.
  Local Definition H3 := add_edge E E2 (newblock H1).
  Local Definition H4 := nextblock H3.
  Local Definition H5 := if hastg then v_asg tl te H4 else H4.
  Local Definition H6 := link_cur N (visit true hb H5).

  Lemma hc_final : visit_h true (HCons hastg tl te hb rest) N E st = visit_h true rest N E2 H6.
  Proof. unfold H6, H5, H4, H3, E2, H1. reflexivity. Qed.

  Lemma hc_I3 : inv H3.
  Proof. apply (R_inv 0 st). unfold H3, H1. apply R_add_edge, R_newblock, R_set_cur_some; [lia|exact HE|apply R0, Hi]. Qed.
  Lemma hc_nb3 : nb H3 = S E2. Proof. reflexivity. Qed.
  Lemma hc_R34 n : n <= nb H3 -> R n H3 H4.
  Proof. intros. apply R_from; [intros Z HZ; unfold H4; RV|exact hc_I3|auto]. Qed.
  Lemma hc_I4 : inv H4. Proof. exact (R_inv _ _ _ (hc_R34 0 ltac:(lia))). Qed.
  Lemma hc_nb4 : nb H4 = S (nb H3). Proof. unfold H4. apply nb_nextblock. Qed.
  Lemma hc_R45 n : n <= nb H4 -> R n H4 H5.
  Proof. intros. apply R_from; [intros Z HZ; unfold H5; destruct hastg; RV|exact hc_I4|auto]. Qed.
  Lemma hc_I5 : inv H5. Proof. exact (R_inv _ _ _ (hc_R45 0 ltac:(lia))). Qed.
  Lemma hc_nb5 : nb H4 <= nb H5. Proof. apply (R_nb 0 H4 H5), hc_R45. lia. Qed.
  Lemma hc_R56 n : n <= nb H5 -> R n H5 H6.
  Proof. intros. apply R_from; [intros Z HZ; unfold H6; RV|exact hc_I5|auto]. Qed.
  Lemma hc_I6 : inv H6. Proof. exact (R_inv _ _ _ (hc_R56 0 ltac:(lia))). Qed.
  Lemma hc_nb6 : nb H5 <= nb H6. Proof. apply (R_nb 0 H5 H6), hc_R56. lia. Qed.

  Lemma hc_E2_lt : E2 < nb H6.
  Proof. pose proof hc_nb3. pose proof hc_nb4. pose proof hc_nb5. pose proof hc_nb6. lia. Qed.

  Lemma hc_lenE2 : len H6 E2 = 0.
  Proof.
    pose proof hc_nb3. pose proof hc_nb4. pose proof hc_nb5.
    assert (H36 : R (S E2) H3 H6).
    { eapply R_trans; [apply hc_R34; lia|]. eapply R_trans; [apply hc_R45; lia|apply hc_R56; lia]. }
    rewrite (len_frame _ _ _ E2 H36); [|lia|].
    - change (len H3 E2) with (len st E2). apply len_fresh; auto.
    - unfold H3, H1, E2. simpl. intros Q. inversion Q. lia.
  Qed.

  Lemma hc_ceq6 : ceq st H6.
  Proof. unfold H6, H5, H4, H3, H1. destruct hastg; ceq_auto.
    - eapply ceq_trans; [|apply ceq_v_asg]. ceq_auto.
  Qed.

  Hypothesis He : ext (snd (visit_h true (HCons hastg tl te hb rest) N E st)) g.

  Lemma hc_E6 : ext H6 g.
  Proof.
    rewrite hc_final in He. eapply ext_back; [|exact He].
    apply (visit_h_R rest 0 H6 H6 N E2); [lia|apply hc_E2_lt|apply R0, hc_I6].
  Qed.
  Lemma hc_E5 : ext H5 g. Proof. eapply ext_back; [apply (hc_R56 0); lia|apply hc_E6]. Qed.
  Lemma hc_E4 : ext H4 g. Proof. eapply ext_back; [apply (hc_R45 0); lia|apply hc_E5]. Qed.
  Lemma hc_E3 : ext H3 g. Proof. eapply ext_back; [apply (hc_R34 0); lia|apply hc_E4]. Qed.

  (* the exception also reaches the next clause *)
  Lemma hc_next sg : P g E 0 sg -> P g E2 0 sg.
  Proof.
    intros HP. eapply P_edge_ext; [|apply hc_E3|exact HP]. unfold H3. simpl. left.
    change (len (newblock H1) E) with (len st E). now rewrite HL.
  Qed.

  Lemma hc_skip sg tr o s2 : wf_h (inl st) (HCons hastg tl te hb rest) = true ->
    P g E 0 sg -> Kexc g (excs st) sg -> sim_h rest sg tr o s2 ->
    Forall (justified g) tr /\ posth g st (snd (visit_h true (HCons hastg tl te hb rest) N E st)) N o s2.
  Proof.
    intros Hw HP HK IH. destruct hc_ceq6 as [CL CE].
    assert (Hw6 : wf_h (inl H6) rest = true).
    { rewrite (inl_eq H6 st CL). simpl in Hw. apply andb_true_iff in Hw. tauto. }
    assert (K6 : Kexc g (excs H6) sg) by (rewrite CE; exact HK).
    pose proof He as He'. rewrite hc_final in He'.
    destruct (IH H6 g N E2 hc_I6 Hw6 hc_E2_lt hc_lenE2 He' (hc_next sg HP) K6) as [J Q].
    split; auto. rewrite hc_final. unfold posth in *. destruct o.
    - rewrite CE in Q. exact Q.
    - eapply post_ctx; eauto.
    - eapply post_ctx; eauto.
    - eapply post_ctx; eauto.
    - eapply post_ctx; eauto.
  Qed.

  Lemma hc_match sg tr o s2 : wf_h (inl st) (HCons hastg tl te hb rest) = true ->
    P g E 0 sg -> Kexc g (excs st) sg ->
    sim_stmt hb (if hastg then upd sg te true else sg) tr o s2 ->
    Forall (justified g) ((if hastg then [(tl, te, sg te)] else []) ++ tr) /\
    posth g st (snd (visit_h true (HCons hastg tl te hb rest) N E st)) N o s2.
  Proof.
    intros Hw HP HK IH.
    assert (A3 : at_cur g H3 sg).
    { exists E. split; [reflexivity|]. change (len H3 E) with (len st E). now rewrite HL. }
    assert (A4 : at_cur g H4 sg) by (apply at_cur_nextblock; [apply hc_I3|apply hc_E4|exact A3]).
    assert (C4 : ceq st H4) by (unfold H4, H3, H1; ceq_auto).
    assert (A5 : at_cur g H5 (if hastg then upd sg te true else sg) /\
                 Kexc g (excs st) (if hastg then upd sg te true else sg) /\
                 Forall (justified g) (if hastg then [(tl, te, sg te)] else [])).
    { pose proof hc_E5 as E5. unfold H5 in *. destruct (Bool.bool_dec hastg true) as [Q|Q].
      - rewrite Q in E5 |- *. destruct (v_asg_sound g H4 tl te sg hc_I4 E5 A4) as (A & K & J).
        destruct C4 as [_ CE4]. rewrite CE4 in K. auto.
      - apply Bool.not_true_is_false in Q. rewrite Q in E5 |- *. auto. }
    destruct A5 as (A5 & K5 & J5).
    assert (C5 : ceq st H5).
    { unfold H5. destruct (Bool.bool_dec hastg true) as [Q|Q].
      - rewrite Q. eapply ceq_trans; [exact C4|apply ceq_v_asg].
      - apply Bool.not_true_is_false in Q. rewrite Q. exact C4. }
    destruct C5 as [CL5 CE5].
    assert (Hw5 : wf (inl H5) hb = true).
    { rewrite (inl_eq H5 st CL5). simpl in Hw. apply andb_true_iff in Hw. tauto. }
    assert (K5' : Kexc g (excs H5) (if hastg then upd sg te true else sg)) by (rewrite CE5; exact K5).
    assert (EV : ext (visit true hb H5) g).
    { eapply ext_back; [|apply hc_E6]. apply R_link_cur, R0. apply (R_inv 0 H5), visit_R00, hc_I5. }
    destruct (IH H5 g hc_I5 Hw5 EV A5 K5') as [J Q].
    split; [apply Forall_app; auto|]. apply (post_ctx g st H5) in Q; auto.
    assert (Hincl : incl (eds H6) (eds (snd (visit_h true (HCons hastg tl te hb rest) N E st)))).
    { rewrite hc_final. apply ext_edges, (R_ext 0).
      apply (visit_h_R rest 0 H6 H6 N E2); [lia|apply hc_E2_lt|apply R0, hc_I6]. }
    unfold posth. destruct o.
    - destruct Q as [KQ AQ]. destruct (link_cur_sound g _ N s2 hc_E6 AQ) as [PN HPn].
      split; auto. split; auto. eapply hp_mono; [exact Hincl|exact HPn].
    - eapply post_mono; [|discriminate|exact Q]. eapply incl_tran; [|exact Hincl].
      apply ext_edges, (R_ext 0), R_link_cur, R0. apply (R_inv 0 H5), visit_R00, hc_I5.
    - eapply post_mono; [|discriminate|exact Q]. eapply incl_tran; [|exact Hincl].
      apply ext_edges, (R_ext 0), R_link_cur, R0. apply (R_inv 0 H5), visit_R00, hc_I5.
    - eapply post_mono; [|discriminate|exact Q]. eapply incl_tran; [|exact Hincl].
      apply ext_edges, (R_ext 0), R_link_cur, R0. apply (R_inv 0 H5), visit_R00, hc_I5.
    - eapply post_mono; [|discriminate|exact Q]. eapply incl_tran; [|exact Hincl].
      apply ext_edges, (R_ext 0), R_link_cur, R0. apply (R_inv 0 H5), visit_R00, hc_I5.
  Qed.
End HandlerCase.

Lemma sim_h_nil sg : sim_h HNil sg [] OExc sg.
Proof. intros st g N E Hi Hw HE HL He HP HK. split; [constructor|]. split; auto. Qed.
Lemma sim_h_match (hastg : bool) tl te hb rest (sg : state) t o s2 :
  sim_stmt hb (if hastg then upd sg te true else sg) t o s2 ->
  sim_h (HCons hastg tl te hb rest) sg ((if hastg then [(tl, te, sg te)] else []) ++ t) o s2.
Proof. intros IH st g N E Hi Hw HE HL He HP HK. eapply hc_match; eauto. Qed.
Lemma sim_h_skip hastg tl te hb rest sg t o s2 : sim_h rest sg t o s2 ->
  sim_h (HCons hastg tl te hb rest) sg t o s2.
Proof. intros IH st g N E Hi Hw HE HL He HP HK. eapply hc_skip; eauto. Qed.

(* the chain of clause entry blocks ends in the block that is linked to the enclosing handler *)
Lemma hwalk g hs : forall st N E sg, inv st -> E < nb st -> len st E = 0 ->
  ext (snd (visit_h true hs N E st)) g -> P g E 0 sg ->
  P g (fst (visit_h true hs N E st)) 0 sg /\
  len (snd (visit_h true hs N E st)) (fst (visit_h true hs N E st)) = 0.
Proof.
  induction hs as [|hastg tl te hb rest IH]; intros st N E sg Hi HE HL He HP.
  - simpl. auto.
  - rewrite hc_final in *. apply IH; auto.
    + apply hc_I6; auto.
    + apply hc_E2_lt; auto.
    + apply hc_lenE2; auto.
    + eapply hc_next; eauto.
Qed.

(* ------------------------------------------------------------------ try / except / else *)
Section TryCase.
  Variables (body : stmt) (hasel : bool) (el : stmt) (hs : handlers) (st g : bst) (sg : state).
  Hypothesis Hi : inv st.
  Hypothesis Hw : wf (inl st) (Try body hasel el hs) = true.
  Hypothesis He : ext (visit true (Try body hasel el hs) st) g.
  Hypothesis HA : at_cur g st sg.
  Hypothesis HK : Kexc g (excs st) sg.

  Local Definition TN := nb st.
  Local Definition TE := S (S (nb st)).
  Local Definition T1 := newblock st.
  Local Definition T3 := newblock (newblock T1).
  Local Definition T5 := nextblock (push_exc (mk_excd TE None) T3).
  Local Definition T6 := nextblock (link_cur TE T5).
  Local Definition T7v := visit true body T6.
  Local Definition T7 := pop_exc T7v.
  Local Definition T8 := match cur T7 with
                         | None => T7
                         | Some _ => link_cur TN (if hasel then visit true el (nextblock T7) else T7) end.
  Local Definition T9r := visit_h true hs TN TE T8.
  Local Definition T10 := match excs (snd T9r) with
                          | x :: _ => add_edge (fst T9r) (x_entry x) (snd T9r)
                          | [] => snd T9r end.

  Lemma tr_final : visit true (Try body hasel el hs) st = cur_if_parents TN T10.
  Proof.
    unfold T10, T9r, T8, T7, T7v, T6, T5, T3, T1, TE, TN. simpl.
    match goal with |- (let '(_, _) := ?v in _) = _ => destruct v end. reflexivity.
  Qed.

  Lemma tr_I1 : inv T1. Proof. apply (R_inv 0 st). unfold T1. apply R_newblock, R0, Hi. Qed.
  Lemma tr_R13 n : n <= nb T1 -> R n T1 T3.
  Proof. intros. apply R_from; [intros Z HZ; unfold T3; RV|exact tr_I1|auto]. Qed.
  Lemma tr_I3 : inv T3. Proof. exact (R_inv _ _ _ (tr_R13 0 ltac:(lia))). Qed.
  Lemma tr_nb3 : nb T3 = S TE. Proof. reflexivity. Qed.
  Lemma tr_R35 n : n <= nb T3 -> R n T3 T5.
  Proof. intros. apply R_from; [intros Z HZ; unfold T5; apply R_nextblock, R_push_exc, HZ|exact tr_I3|auto]. Qed.
  Lemma tr_I5 : inv T5. Proof. exact (R_inv _ _ _ (tr_R35 0 ltac:(lia))). Qed.
  Lemma tr_nb5 : nb T5 = S (nb T3). Proof. unfold T5. rewrite nb_nextblock. reflexivity. Qed.
  Lemma tr_R56 n : n <= nb T5 -> R n T5 T6.
  Proof. intros. apply R_from; [intros Z HZ; unfold T6; RV|exact tr_I5|auto]. Qed.
  Lemma tr_I6 : inv T6. Proof. exact (R_inv _ _ _ (tr_R56 0 ltac:(lia))). Qed.
  Lemma tr_nb6 : nb T5 <= nb T6. Proof. apply (R_nb 0 T5 T6), tr_R56. lia. Qed.
  Lemma tr_R67 n : n <= nb T6 -> R n T6 T7.
  Proof. intros. apply R_from; [intros Z HZ; unfold T7, T7v; RV|exact tr_I6|auto]. Qed.
  Lemma tr_I7 : inv T7. Proof. exact (R_inv _ _ _ (tr_R67 0 ltac:(lia))). Qed.
  Lemma tr_nb7 : nb T6 <= nb T7. Proof. apply (R_nb 0 T6 T7), tr_R67. lia. Qed.
  Lemma tr_R78 n : n <= nb T7 -> R n T7 T8.
  Proof. intros. apply R_from; [intros Z HZ; unfold T8; destruct (cur T7); [destruct hasel|]; RV|exact tr_I7|auto]. Qed.
  Lemma tr_I8 : inv T8. Proof. exact (R_inv _ _ _ (tr_R78 0 ltac:(lia))). Qed.
  Lemma tr_nb8 : nb T7 <= nb T8. Proof. apply (R_nb 0 T7 T8), tr_R78. lia. Qed.
  Lemma tr_TE_lt : TE < nb T8.
  Proof. pose proof tr_nb3. pose proof tr_nb5. pose proof tr_nb6. pose proof tr_nb7. pose proof tr_nb8. lia. Qed.
  Lemma tr_R89 n : n <= TE -> n <= nb T8 -> R n T8 (snd T9r) /\ fst T9r < nb (snd T9r).
  Proof.
    intros H1 H2. destruct (visit_h_R hs n T8 T8 TN TE H1 tr_TE_lt (R_refl _ _ tr_I8 H2)) as (A & _ & B').
    split; auto.
  Qed.
  Lemma tr_I9 : inv (snd T9r). Proof. exact (R_inv _ _ _ (proj1 (tr_R89 0 ltac:(lia) ltac:(lia)))). Qed.
  Lemma tr_R910 n : n <= nb (snd T9r) -> R n (snd T9r) T10.
  Proof. intros. apply R_from; [intros Z HZ; unfold T10; destruct (excs (snd T9r)); RV|exact tr_I9|auto]. Qed.
  Lemma tr_I10 : inv T10. Proof. exact (R_inv _ _ _ (tr_R910 0 ltac:(lia))). Qed.

  Lemma tr_E10 : ext T10 g.
  Proof. rewrite tr_final in He. eapply ext_trans; [|exact He]. split; [exists []; reflexivity|apply incl_refl]. Qed.
  Lemma tr_E9 : ext (snd T9r) g. Proof. eapply ext_back; [apply (tr_R910 0); lia|apply tr_E10]. Qed.
  Lemma tr_E8 : ext T8 g. Proof. eapply ext_back; [apply (tr_R89 0); lia|apply tr_E9]. Qed.
  Lemma tr_E7 : ext T7 g. Proof. eapply ext_back; [apply (tr_R78 0); lia|apply tr_E8]. Qed.
  Lemma tr_E7v : ext T7v g. Proof. exact tr_E7. Qed.
  Lemma tr_E6 : ext T6 g. Proof. eapply ext_back; [apply (tr_R67 0); lia|apply tr_E7]. Qed.
  Lemma tr_E5 : ext T5 g. Proof. eapply ext_back; [apply (tr_R56 0); lia|apply tr_E6]. Qed.

  Lemma tr_incl_8F : incl (eds T8) (eds T10).
  Proof. apply ext_edges. eapply ext_trans; [apply (R_ext 0), tr_R89; lia|apply (R_ext 0), tr_R910; lia]. Qed.

  Lemma tr_cur_ne : cur st <> Some TN.
  Proof. destruct HA as (b & Hc & _). rewrite Hc. intros Q. inversion Q.
    pose proof (inv_cur_lt _ _ Hi Hc). unfold TN in *. lia. Qed.

  Lemma tr_lenN : len T10 TN = 0.
  Proof.
    pose proof tr_nb3. pose proof tr_nb5. pose proof tr_nb6. pose proof tr_nb7. pose proof tr_nb8.
    assert (HR : R (S TN) T1 T10).
    { eapply R_trans; [apply tr_R13; simpl; unfold TN; lia|]. eapply R_trans; [apply tr_R35; unfold TE, TN in *; lia|].
      eapply R_trans; [apply tr_R56; unfold TE, TN in *; lia|]. eapply R_trans; [apply tr_R67; unfold TE, TN in *; lia|].
      eapply R_trans; [apply tr_R78; unfold TE, TN in *; lia|].
      eapply R_trans; [apply tr_R89; unfold TE, TN in *; lia|].
      apply tr_R910. pose proof (R_nb _ _ _ (proj1 (tr_R89 0 ltac:(lia) ltac:(lia)))). unfold TE, TN in *. lia. }
    rewrite (len_frame _ _ _ TN HR); [|lia|exact tr_cur_ne].
    change (len T1 TN) with (len st TN). apply len_fresh; auto.
  Qed.

  Lemma tr_lenE : len T8 TE = 0.
  Proof.
    pose proof tr_nb3. pose proof tr_nb5. pose proof tr_nb6. pose proof tr_nb7.
    assert (HR : R (S TE) T3 T8).
    { eapply R_trans; [apply tr_R35; lia|]. eapply R_trans; [apply tr_R56; lia|].
      eapply R_trans; [apply tr_R67; lia|apply tr_R78; lia]. }
    rewrite (len_frame _ _ _ TE HR); [|lia|].
    - change (len T3 TE) with (len st TE). apply len_fresh; auto. unfold TE. lia.
    - change (cur T3) with (cur st). destruct HA as (b & Hc & _). rewrite Hc. intros Q. inversion Q.
      pose proof (inv_cur_lt _ _ Hi Hc). unfold TE in *. lia.
  Qed.

  Lemma tr_ceq6 : loops T6 = loops st /\ excs T6 = mk_excd TE None :: excs st.
  Proof.
    assert (H : ceq (push_exc (mk_excd TE None) T3) T6) by (unfold T6, T5; ceq_auto).
    destruct H as [A B']. rewrite A, B'. split; reflexivity.
  Qed.
  Lemma tr_ceq7 : ceq st T7.
  Proof.
    destruct tr_ceq6 as [A B']. destruct (proj1 (visit_ceq true) body T6) as [A2 B2]. fold T7v in A2, B2.
    unfold T7. split; simpl; [congruence|rewrite B2, B'; reflexivity].
  Qed.
  Lemma tr_ceq8 : ceq st T8.
  Proof.
    unfold T8. destruct (cur T7); [|apply tr_ceq7]. destruct hasel; ceq_auto; apply tr_ceq7.
  Qed.
  Lemma tr_ceq9 : ceq st (snd T9r).
  Proof. eapply ceq_trans; [apply tr_ceq8|apply visit_h_ceq]. Qed.

  (* whatever reaches the handler entry also reaches the enclosing handler *)
  Lemma tr_outer s1 : P g TE 0 s1 -> Kexc g (excs st) s1.
  Proof.
    intros HP. destruct (hwalk g hs T8 TN TE s1 tr_I8 tr_TE_lt tr_lenE tr_E9 HP) as [PE' LE'].
    fold T9r in PE', LE'. destruct tr_ceq9 as [_ CE]. pose proof tr_E10 as E10. unfold T10 in E10.
    rewrite CE in E10. destruct (excs st) as [|x r]; simpl; auto.
    eapply (add_edge_sound g (snd T9r)); [exact E10|]. now rewrite LE'.
  Qed.

  Lemma tr_enter : at_cur g T6 sg /\ P g TE 0 sg.
  Proof.
    assert (A5 : at_cur g T5 sg).
    { apply at_cur_nextblock; [exact (R_inv 0 T3 _ (R_push_exc _ _ _ _ (R0 _ tr_I3)))|apply tr_E5|exact HA]. }
    set (Y := link_cur TE T5).
    assert (RY : R 0 T5 Y) by (apply R_link_cur, R0, tr_I5).
    assert (EY : ext Y g) by (eapply ext_back; [|apply tr_E6]; apply R_nextblock, R0, (R_inv _ _ _ RY)).
    destruct (link_cur_sound g T5 TE sg EY A5) as [PE _]. split; auto.
    apply at_cur_nextblock; [exact (R_inv _ _ _ RY)|apply tr_E6|].
    destruct A5 as (b & Hc & HP). exists b. unfold Y, link_cur. rewrite Hc. split; auto.
  Qed.

  Lemma tr_body t1 o1 s1 : sim_stmt body sg t1 o1 s1 ->
    Forall (justified g) t1 /\ post g T6 T7v o1 s1 /\ P g TE 0 s1 /\ Kexc g (excs st) s1.
  Proof.
    intros IH. destruct tr_enter as [A6 PE]. destruct tr_ceq6 as [CL CE].
    assert (Hw6 : wf (inl T6) body = true).
    { rewrite (inl_eq T6 st CL). simpl in Hw. apply andb_true_iff in Hw. destruct Hw as [Hw' _].
      apply andb_true_iff in Hw'. tauto. }
    assert (K6 : Kexc g (excs T6) sg) by (rewrite CE; exact PE).
    destruct (IH T6 g tr_I6 Hw6 tr_E7v A6 K6) as [J1 P7]. fold T7v in P7.
    pose proof P7 as [K7 _]. rewrite CE in K7. simpl in K7.
    split; auto. split; auto. split; auto. apply tr_outer; auto.
  Qed.

  Lemma tr_norm t1 s1 : hasel = false -> sim_stmt body sg t1 ONorm s1 ->
    Forall (justified g) t1 /\ post g st (visit true (Try body hasel el hs) st) ONorm s1.
  Proof.
    intros Hh IH. destruct (tr_body t1 ONorm s1 IH) as (J1 & [_ A7] & PE & KO).
    split; auto. split; auto. rewrite tr_final.
    destruct A7 as (b & Hc & HP). pose proof tr_E8 as E8. unfold T8 in E8.
    change (cur T7) with (cur T7v) in E8. rewrite Hc, Hh in E8.
    assert (A7' : at_cur g T7 s1) by (exists b; split; auto).
    destruct (link_cur_sound g T7 TN s1 E8 A7') as [PN HPn].
    apply cip_sound; auto; [apply tr_lenN|]. eapply hp_mono; [apply tr_incl_8F|].
    unfold T8. change (cur T7) with (cur T7v). rewrite Hc, Hh. exact HPn.
  Qed.

  Lemma tr_else t1 s1 t2 o s2 : hasel = true -> sim_stmt body sg t1 ONorm s1 -> sim_stmt el s1 t2 o s2 ->
    Forall (justified g) (t1 ++ t2) /\ post g st (visit true (Try body hasel el hs) st) o s2.
  Proof.
    intros Hh IHb IHe. destruct (tr_body t1 ONorm s1 IHb) as (J1 & [_ A7] & PE & KO).
    destruct A7 as (b & Hc & HP). pose proof tr_E8 as E8. unfold T8 in E8.
    change (cur T7) with (cur T7v) in E8. rewrite Hc, Hh in E8.
    assert (A7' : at_cur g T7 s1) by (exists b; split; auto).
    set (Y := nextblock T7) in *.
    assert (RY : R 0 T7 Y) by (apply R_nextblock, R0, tr_I7).
    assert (RV1 : R 0 Y (visit true el Y)) by (apply visit_R00, (R_inv _ _ _ RY)).
    assert (RL : R 0 (visit true el Y) (link_cur TN (visit true el Y))) by (apply R_link_cur, R0, (R_inv _ _ _ RV1)).
    assert (EV : ext (visit true el Y) g) by (eapply ext_back; eauto).
    assert (EY : ext Y g) by (eapply ext_back; eauto).
    assert (AY : at_cur g Y s1) by (apply at_cur_nextblock; auto; apply tr_I7).
    assert (CY : ceq st Y) by (unfold Y; ceq_auto; apply tr_ceq7).
    destruct CY as [CL CE].
    assert (HwY : wf (inl Y) el = true).
    { rewrite (inl_eq Y st CL). simpl in Hw. apply andb_true_iff in Hw. destruct Hw as [Hw' _].
      apply andb_true_iff in Hw'. tauto. }
    assert (KY : Kexc g (excs Y) s1) by (rewrite CE; exact KO).
    destruct (IHe Y g (R_inv _ _ _ RY) HwY EV AY KY) as [J2 PV].
    split; [apply Forall_app; auto|].
    apply (post_ctx g st Y) in PV; auto. rewrite tr_final.
    assert (E8eq : T8 = link_cur TN (visit true el Y)).
    { unfold T8. change (cur T7) with (cur T7v). rewrite Hc, Hh. reflexivity. }
    destruct o.
    - destruct PV as [KV AV]. destruct (link_cur_sound g _ TN s2 E8 AV) as [PN HPn].
      split; auto. apply cip_sound; auto; [apply tr_lenN|]. eapply hp_mono; [apply tr_incl_8F|].
      rewrite E8eq. exact HPn.
    - eapply post_mono; [|discriminate|exact PV]. eapply incl_tran; [|apply tr_incl_8F]. rewrite E8eq.
      apply ext_edges, (R_ext _ _ _ RL).
    - eapply post_mono; [|discriminate|exact PV]. eapply incl_tran; [|apply tr_incl_8F]. rewrite E8eq.
      apply ext_edges, (R_ext _ _ _ RL).
    - eapply post_mono; [|discriminate|exact PV]. eapply incl_tran; [|apply tr_incl_8F]. rewrite E8eq.
      apply ext_edges, (R_ext _ _ _ RL).
    - eapply post_mono; [|discriminate|exact PV]. eapply incl_tran; [|apply tr_incl_8F]. rewrite E8eq.
      apply ext_edges, (R_ext _ _ _ RL).
  Qed.

  Lemma tr_incl_7F : incl (eds T7v) (eds T10).
  Proof. eapply incl_tran; [|apply tr_incl_8F]. change (incl (eds T7) (eds T8)). apply ext_edges, (R_ext 0), tr_R78. lia. Qed.

  Lemma tr_prop t1 o s1 : o = OBrk \/ o = OCont \/ o = ORet -> sim_stmt body sg t1 o s1 ->
    Forall (justified g) t1 /\ post g st (visit true (Try body hasel el hs) st) o s1.
  Proof.
    intros Ho IH. destruct (tr_body t1 o s1 IH) as (J1 & [_ P7] & PE & KO). split; auto.
    rewrite tr_final. destruct tr_ceq6 as [CL CE]. split; auto.
    destruct Ho as [Ho | [Ho | Ho]]; subst o.
    - rewrite CL in P7. destruct (loops st); auto. eapply chain_impl; [|exact P7].
      intros s [A B']. split; auto. eapply hp_mono; [apply tr_incl_7F|exact B'].
    - rewrite CL in P7. exact P7.
    - rewrite CE in P7. exact P7.
  Qed.

  Lemma tr_exc t1 s1 t2 o s2 : sim_stmt body sg t1 OExc s1 -> sim_h hs s1 t2 o s2 ->
    Forall (justified g) (t1 ++ t2) /\ post g st (visit true (Try body hasel el hs) st) o s2.
  Proof.
    intros IHb IHh. destruct (tr_body t1 OExc s1 IHb) as (J1 & _ & PE & KO).
    destruct tr_ceq8 as [CL CE].
    assert (Hw8 : wf_h (inl T8) hs = true).
    { rewrite (inl_eq T8 st CL). simpl in Hw. apply andb_true_iff in Hw. tauto. }
    assert (K8 : Kexc g (excs T8) s1) by (rewrite CE; exact KO).
    destruct (IHh T8 g TN TE tr_I8 Hw8 tr_TE_lt tr_lenE tr_E9 PE K8) as [J2 Q]. fold T9r in Q.
    split; [apply Forall_app; auto|]. rewrite tr_final.
    assert (Hincl : incl (eds (snd T9r)) (eds T10)) by (apply ext_edges, (R_ext 0), tr_R910; lia).
    unfold posth in Q. destruct o.
    - destruct Q as (KQ & PN & HPn). rewrite CE in KQ. split; auto.
      apply cip_sound; auto; [apply tr_lenN|]. eapply hp_mono; [exact Hincl|exact HPn].
    - eapply post_mono; [exact Hincl|discriminate|]. eapply post_ctx; [| |exact Q]; auto.
    - eapply post_mono; [exact Hincl|discriminate|]. eapply post_ctx; [| |exact Q]; auto.
    - eapply post_mono; [exact Hincl|discriminate|]. eapply post_ctx; [| |exact Q]; auto.
    - eapply post_mono; [exact Hincl|discriminate|]. eapply post_ctx; [| |exact Q]; auto.
  Qed.
End TryCase.

Lemma sim_try_norm body el hs sg t1 s1 : sim_stmt body sg t1 ONorm s1 ->
  sim_stmt (Try body false el hs) sg t1 ONorm s1.
Proof. intros IH st g Hi Hw He HA HK. eapply tr_norm; eauto. Qed.
Lemma sim_try_else body el hs sg t1 s1 t2 o s2 : sim_stmt body sg t1 ONorm s1 -> sim_stmt el s1 t2 o s2 ->
  sim_stmt (Try body true el hs) sg (t1 ++ t2) o s2.
Proof. intros IHb IHe st g Hi Hw He HA HK. eapply tr_else; eauto. Qed.
Lemma sim_try_exc body h el hs sg t1 s1 t2 o s2 : sim_stmt body sg t1 OExc s1 -> sim_h hs s1 t2 o s2 ->
  sim_stmt (Try body h el hs) sg (t1 ++ t2) o s2.
Proof. intros IHb IHh st g Hi Hw He HA HK. eapply tr_exc; eauto. Qed.
Lemma sim_try_prop body h el hs sg t1 o s1 : o = OBrk \/ o = OCont \/ o = ORet -> sim_stmt body sg t1 o s1 ->
  sim_stmt (Try body h el hs) sg t1 o s1.
Proof. intros Ho IH st g Hi Hw He HA HK. eapply tr_prop; eauto. Qed.

(* ------------------------------------------------------------------ all executions *)
Theorem sim_all : forall it sg tr o s2, exec it sg tr o s2 ->
  match it with
  | IS s => sim_stmt s sg tr o s2
  | IL f c tg body h el => sim_loop f c tg body h el sg tr o s2
  | IH hs => sim_h hs sg tr o s2
  end.
Proof.
  induction 1.
  - apply sim_skip. - apply sim_call. - apply sim_call_exc. - apply sim_ref. - apply sim_asg.
  - now apply sim_del. - now apply sim_del_exc.
  - eapply sim_seq; eauto. - eapply sim_seq_stop; eauto.
  - now apply sim_if_exc. - eapply sim_if_then; eauto. - eapply sim_if_else; eauto.
  - now apply sim_if_skip.
  - now apply sim_while. - now apply sim_for_exc. - eapply sim_for; eauto.
  - now apply sim_loop_exc. - now apply sim_loop_exit. - eapply sim_loop_else; eauto.
  - eapply sim_loop_iter; eauto. - eapply sim_loop_break; eauto. - eapply sim_loop_prop; eauto.
  - now apply sim_try_norm. - eapply sim_try_else; eauto. - eapply sim_try_exc; eauto.
  - eapply sim_try_prop; eauto.
  - apply sim_h_nil. - now apply sim_h_match. - now apply sim_h_skip.
  - eapply sim_tryfin_exc; eauto. - eapply sim_tryfin_other; eauto.
  - apply sim_break. - apply sim_continue. - apply sim_return. - apply sim_raise.
Qed.

(* ------------------------------------------------------------------ a whole function *)
Definition s_init : state := fun _ => false.

Lemma st_init_ok g args : forall X sg, inv X -> at_cur g X sg ->
  ext (fold_left (fun st r => append (LAsg (fst r) (snd r)) st) args X) g ->
  inv (fold_left (fun st r => append (LAsg (fst r) (snd r)) st) args X) /\
  at_cur g (fold_left (fun st r => append (LAsg (fst r) (snd r)) st) args X) (bind args sg).
Proof.
  induction args as [|[l e] args IH]; intros X sg Hi HA He; simpl in *; auto.
  assert (R1 : R 0 X (append (LAsg l e) X)) by (apply R_append, R0, Hi).
  apply IH; auto.
  - exact (R_inv _ _ _ R1).
  - apply (at_cur_append g X (LAsg l e) sg); auto.
    eapply ext_trans; [|exact He].
    clear. generalize (append (LAsg l e) X). induction args as [|[l' e'] args IHa]; intros Y; simpl.
    + apply ext_refl.
    + eapply ext_trans; [|apply IHa]. unfold append. destruct (cur Y); [|apply ext_refl].
      split; [eexists [_]; reflexivity|apply incl_refl].
Qed.

Lemma ext_fold_append args : forall X, ext X (fold_left (fun st r => append (LAsg (fst r) (snd r)) st) args X).
Proof.
  induction args as [|[l e] args IH]; intros X; simpl; [apply ext_refl|].
  eapply ext_trans; [|apply IH]. unfold append. destruct (cur X); [|apply ext_refl].
  split; [eexists [_]; reflexivity|apply incl_refl].
Qed.

Lemma ceq_fold_append args : forall X, ceq X (fold_left (fun st r => append (LAsg (fst r) (snd r)) st) args X).
Proof.
  induction args as [|[l e] args IH]; intros X; simpl; [apply ceq_refl|].
  eapply ceq_trans; [apply ceq_append|apply IH].
Qed.

(* Every read (or del) of a name that happens while the name is unbound, in any execution of the
   function body, is a reference statement of the built graph at a position that some path from the
   entry point reaches with the name unbound. *)
Theorem cfg_covers_paths args body tr o s2 :
  wf false body = true ->
  exec (IS body) (bind args s_init) tr o s2 ->
  Forall (justified (build true args body)) tr.
Proof.
  intros Hw Hex. set (g := build true args body).
  set (X0 := nextblock (mk_bst 2 [] [] (Some 0) [] [])).
  assert (I0 : inv X0).
  { apply (R_inv 0 (mk_bst 2 [] [] (Some 0) [] [])). apply R_nextblock, R0. split; simpl.
    - intros p [].
    - intros b Hb. inversion Hb. lia. }
  assert (Eg : ext (visit true body (st_init args)) g).
  { unfold g, build, link_cur. destruct (cur (visit true body (st_init args))); [apply ext_add_edge_k|apply ext_refl]. }
  assert (Iv : inv (st_init args) /\ at_cur g (st_init args) (bind args s_init)).
  { unfold st_init. fold X0. apply st_init_ok; auto.
    - exists 2. split; [reflexivity|]. simpl.
      eapply (P_edge g 0 0 2); [apply P_entry|].
      destruct Eg as [_ Ei]. apply Ei.
      assert (E0 : ext X0 (visit true body (st_init args))).
      { eapply ext_trans; [apply (ext_fold_append args X0)|]. apply (R_ext 0), visit_R00.
        unfold st_init. fold X0.
        clear - I0. revert I0. generalize X0. induction args as [|[l e] args IH]; intros Y HY; simpl; auto.
        apply IH. exact (R_inv 0 Y _ (R_append _ _ _ _ (R0 _ HY))). }
      apply (ext_edges _ _ E0). simpl. auto.
    - eapply ext_trans; [|exact Eg]. apply (R_ext 0), visit_R00.
      clear - I0. unfold st_init. fold X0. revert I0. generalize X0.
      induction args as [|[l e] args IH]; intros Y HY; simpl; auto.
      apply IH. exact (R_inv 0 Y _ (R_append _ _ _ _ (R0 _ HY))). }
  destruct Iv as [Iv Av].
  assert (C0 : ceq (mk_bst 2 [] [] (Some 0) [] []) (st_init args)).
  { unfold st_init. eapply ceq_trans; [apply ceq_nextblock_from|apply ceq_fold_append]. }
  destruct C0 as [CL CE]. simpl in CL, CE.
  assert (Hw' : wf (inl (st_init args)) body = true) by (unfold inl; rewrite CL; exact Hw).
  assert (Kv : Kexc g (excs (st_init args)) (bind args s_init)) by (rewrite CE; exact I).
  exact (proj1 (sim_all _ _ _ _ _ Hex (st_init args) g Iv Hw' Eg Av Kv)).
Qed.
