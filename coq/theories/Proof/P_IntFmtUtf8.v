(* Proofs about Model/M_IntFmt.v, part 3: the byte-level model of
   __Pyx_PyUnicode_FromOrdinal_Padded - the UTF-8 encoding branches, the strict decoder, the
   256-byte buffer - and its refinement of the abstract from_ordinal_padded. *)
From Coq Require Import ZArith List Bool Lia ZifyBool ZifyNat.
From CyVerif Require Import Lib.CInt Model.M_IntFmt Proof.P_IntFmtDigits Proof.P_IntFmt.
Import ListNotations.
Open Scope Z_scope.
Ltac Zify.zify_post_hook ::= Z.to_euclidean_division_equations.

(* ---------- bit operations of the encoder as arithmetic ---------- *)
Lemma lor_disjoint h k x : 0 <= k -> 0 <= x < 2 ^ k -> Z.lor (h * 2 ^ k) x = h * 2 ^ k + x.
Proof.
  intros Hk Hx. rewrite <- Z.lxor_lor.
  - symmetry. apply Z.add_nocarry_lxor.
    apply Z.bits_inj'. intros n Hn. rewrite Z.land_spec, Z.bits_0.
    destruct (Z.ltb_spec n k) as [L|G].
    + rewrite <- Z.shiftl_mul_pow2 by assumption. rewrite Z.shiftl_spec_low by assumption. reflexivity.
    + rewrite <- (Z.mod_small x (2 ^ k)) by assumption.
      rewrite Z.mod_pow2_bits_high by (split; assumption). apply andb_false_r.
  - apply Z.bits_inj'. intros n Hn. rewrite Z.land_spec, Z.bits_0.
    destruct (Z.ltb_spec n k) as [L|G].
    + rewrite <- Z.shiftl_mul_pow2 by assumption. rewrite Z.shiftl_spec_low by assumption. reflexivity.
    + rewrite <- (Z.mod_small x (2 ^ k)) by assumption.
      rewrite Z.mod_pow2_bits_high by (split; assumption). apply andb_false_r.
Qed.

Lemma land_mask v k : 0 <= k -> Z.land v (2 ^ k - 1) = v mod 2 ^ k.
Proof. intros Hk. rewrite <- Z.land_ones by assumption. rewrite Z.ones_equiv. reflexivity. Qed.

Lemma cont_byte v : cchar (Z.lor 128 (Z.land v 63)) = 128 + v mod 64.
Proof.
  change 63 with (2 ^ 6 - 1). rewrite land_mask by lia. change (2 ^ 6) with 64.
  change 128 with (2 * 2 ^ 6). rewrite lor_disjoint by (change (2 ^ 6) with 64; lia).
  change (2 ^ 6) with 64. unfold cchar. lia.
Qed.
Lemma lead2_byte v : cchar (Z.lor 192 (Z.land v 31)) = 192 + v mod 32.
Proof.
  change 31 with (2 ^ 5 - 1). rewrite land_mask by lia. change (2 ^ 5) with 32.
  change 192 with (6 * 2 ^ 5). rewrite lor_disjoint by (change (2 ^ 5) with 32; lia).
  change (2 ^ 5) with 32. unfold cchar. lia.
Qed.
Lemma lead3_byte v : cchar (Z.lor 224 (Z.land v 15)) = 224 + v mod 16.
Proof.
  change 15 with (2 ^ 4 - 1). rewrite land_mask by lia. change (2 ^ 4) with 16.
  change 224 with (14 * 2 ^ 4). rewrite lor_disjoint by (change (2 ^ 4) with 16; lia).
  change (2 ^ 4) with 16. unfold cchar. lia.
Qed.
Lemma lead4_byte v : cchar (Z.lor 240 (Z.land v 7)) = 240 + v mod 8.
Proof.
  change 7 with (2 ^ 3 - 1). rewrite land_mask by lia. change (2 ^ 3) with 8.
  change 240 with (30 * 2 ^ 3). rewrite lor_disjoint by (change (2 ^ 3) with 8; lia).
  change (2 ^ 3) with 8. unfold cchar. lia.
Qed.
Lemma shr6 v : Z.shiftr v 6 = v / 64.
Proof. rewrite Z.shiftr_div_pow2 by lia. reflexivity. Qed.

(* the three branches, for every integer v (no range assumption: masks make them total) *)
Lemma enc2_eq v : enc2 v = [192 + (v / 64) mod 32; 128 + v mod 64].
Proof. unfold enc2. cbv zeta. rewrite cont_byte, lead2_byte, shr6. reflexivity. Qed.
Lemma enc3_eq v : enc3 v = [224 + (v / 64 / 64) mod 16; 128 + (v / 64) mod 64; 128 + v mod 64].
Proof. unfold enc3. cbv zeta. rewrite !cont_byte, lead3_byte, !shr6. reflexivity. Qed.
Lemma enc4_eq v :
  enc4 v = [240 + (v / 64 / 64 / 64) mod 8; 128 + (v / 64 / 64) mod 64; 128 + (v / 64) mod 64; 128 + v mod 64].
Proof. unfold enc4. cbv zeta. rewrite !cont_byte, lead4_byte, !shr6. reflexivity. Qed.

Lemma enc_length v : length (utf8_enc_c v) = if v <? 2048 then 2%nat else if v <? 65536 then 3%nat else 4%nat.
Proof.
  unfold utf8_enc_c, ENC2_LIMIT, ENC3_LIMIT. destruct (v <? 2048); [reflexivity|]. destruct (v <? 65536); reflexivity.
Qed.

Lemma enc_bytes v : Forall (fun b => 0 <= b <= 255) (utf8_enc_c v).
Proof.
  unfold utf8_enc_c, ENC2_LIMIT, ENC3_LIMIT. destruct (v <? 2048); [|destruct (v <? 65536)].
  - rewrite enc2_eq. repeat constructor; lia.
  - rewrite enc3_eq. repeat constructor; lia.
  - rewrite enc4_eq. repeat constructor; lia.
Qed.

(* ---------- one decoder step per sequence length ---------- *)
Ltac brk :=
  repeat match goal with
         | |- context [if ?c then _ else _] => let E := fresh "E" in destruct c eqn:E; try lia
         end.

Lemma dec1 b r : 0 <= b < 128 -> utf8_decode (b :: r) = option_map (cons b) (utf8_decode r).
Proof. intros H. cbn [utf8_decode]. brk. reflexivity. Qed.

Lemma dec2 b0 b1 r : 194 <= b0 < 224 -> 128 <= b1 <= 191 ->
  utf8_decode (b0 :: b1 :: r) = option_map (cons ((b0 - 192) * 64 + (b1 - 128))) (utf8_decode r).
Proof. intros H0 H1. cbn [utf8_decode]. unfold is_cont. brk. reflexivity. Qed.

Lemma dec3 b0 b1 b2 r : 224 <= b0 < 240 -> 128 <= b1 <= 191 -> 128 <= b2 <= 191 ->
  utf8_decode (b0 :: b1 :: b2 :: r) =
    let cp := (b0 - 224) * 4096 + (b1 - 128) * 64 + (b2 - 128) in
    if (2048 <=? cp) && negb (is_surrogate cp) then option_map (cons cp) (utf8_decode r) else None.
Proof.
  intros H0 H1 H2. cbn [utf8_decode]. cbv zeta. unfold is_cont, is_surrogate.
  set (cp := (b0 - 224) * 4096 + (b1 - 128) * 64 + (b2 - 128)).
  destruct (b0 <? 0) eqn:A0; [lia|]. destruct (255 <? b0) eqn:A1; [lia|]. cbn [orb].
  destruct (b0 <? 128) eqn:A2; [lia|]. destruct (b0 <? 194) eqn:A3; [lia|].
  destruct (b0 <? 224) eqn:A4; [lia|]. destruct (b0 <? 240) eqn:A5; [|lia].
  replace ((128 <=? b1) && (b1 <=? 191)) with true by lia.
  replace ((128 <=? b2) && (b2 <=? 191)) with true by lia.
  cbn [andb]. reflexivity.
Qed.

Lemma dec4 b0 b1 b2 b3 r : 240 <= b0 <= 255 -> 128 <= b1 <= 191 -> 128 <= b2 <= 191 -> 128 <= b3 <= 191 ->
  utf8_decode (b0 :: b1 :: b2 :: b3 :: r) =
    let cp := (b0 - 240) * 262144 + (b1 - 128) * 4096 + (b2 - 128) * 64 + (b3 - 128) in
    if (b0 <? 245) && (65536 <=? cp) && (cp <=? 1114111) then option_map (cons cp) (utf8_decode r) else None.
Proof.
  intros H0 H1 H2 H3. cbn [utf8_decode]. cbv zeta. unfold is_cont.
  set (cp := (b0 - 240) * 262144 + (b1 - 128) * 4096 + (b2 - 128) * 64 + (b3 - 128)).
  destruct (b0 <? 0) eqn:A0; [lia|]. destruct (255 <? b0) eqn:A1; [lia|]. cbn [orb].
  destruct (b0 <? 128) eqn:A2; [lia|]. destruct (b0 <? 194) eqn:A3; [lia|].
  destruct (b0 <? 224) eqn:A4; [lia|]. destruct (b0 <? 240) eqn:A5; [lia|].
  replace ((128 <=? b1) && (b1 <=? 191)) with true by lia.
  replace ((128 <=? b2) && (b2 <=? 191)) with true by lia.
  replace ((128 <=? b3) && (b3 <=? 191)) with true by lia.
  cbn [andb]. destruct (b0 <? 245); reflexivity.
Qed.

Lemma decode_ascii_prefix p l : Forall (fun b => 0 <= b < 128) p ->
  utf8_decode (p ++ l) = option_map (app p) (utf8_decode l).
Proof.
  induction 1 as [|b p Hb Hp IH]; cbn [app].
  - destruct (utf8_decode l); reflexivity.
  - rewrite dec1 by assumption. rewrite IH. destruct (utf8_decode l); reflexivity.
Qed.

(* ---------- decode after encode ---------- *)
(* what the decoder makes of the bytes of each branch, for EVERY v >= 0 the branch can be given *)
Lemma dec_enc2 v r : 128 <= v < 2048 ->
  utf8_decode (enc2 v ++ r) = option_map (cons v) (utf8_decode r).
Proof.
  intros H. rewrite enc2_eq. cbn [app]. rewrite dec2 by lia.
  replace ((192 + (v / 64) mod 32 - 192) * 64 + (128 + v mod 64 - 128)) with v by lia. reflexivity.
Qed.

Lemma dec_enc3 v r : 2048 <= v < 65536 ->
  utf8_decode (enc3 v ++ r) = if is_surrogate v then None else option_map (cons v) (utf8_decode r).
Proof.
  intros H. rewrite enc3_eq. cbn [app]. rewrite dec3 by lia. cbv zeta.
  replace ((224 + (v / 64 / 64) mod 16 - 224) * 4096 + (128 + (v / 64) mod 64 - 128) * 64 + (128 + v mod 64 - 128))
    with v by lia.
  replace (2048 <=? v) with true by lia. cbn [andb]. destruct (is_surrogate v); reflexivity.
Qed.

Lemma dec_enc4 v r : 65536 <= v ->
  utf8_decode (enc4 v ++ r) =
    let cp := v mod 2097152 in
    if (65536 <=? cp) && (cp <=? 1114111) then option_map (cons cp) (utf8_decode r) else None.
Proof.
  intros H. rewrite enc4_eq. cbn [app]. rewrite dec4 by lia. cbv zeta.
  replace ((240 + (v / 64 / 64 / 64) mod 8 - 240) * 262144 + (128 + (v / 64 / 64) mod 64 - 128) * 4096 +
           (128 + (v / 64) mod 64 - 128) * 64 + (128 + v mod 64 - 128)) with (v mod 2097152) by lia.
  destruct (240 + (v / 64 / 64 / 64) mod 8 <? 245) eqn:L; cbn [andb]; [reflexivity|].
  replace ((65536 <=? v mod 2097152) && (v mod 2097152 <=? 1114111)) with false by lia. reflexivity.
Qed.

(* decode (encode cp) = cp for every code point the C encoder is responsible for: all of
   U+0080..U+10FFFF except the surrogates; a tail r is decoded independently *)
Theorem utf8_roundtrip cp r : 128 <= cp <= 1114111 -> is_surrogate cp = false ->
  utf8_decode (utf8_enc_c cp ++ r) = option_map (cons cp) (utf8_decode r).
Proof.
  intros H S. unfold utf8_enc_c, ENC2_LIMIT, ENC3_LIMIT.
  destruct (Z.ltb_spec cp 2048); [apply dec_enc2; lia|].
  destruct (Z.ltb_spec cp 65536).
  - rewrite dec_enc3 by lia. rewrite S. reflexivity.
  - rewrite dec_enc4 by lia. cbv zeta. replace (cp mod 2097152) with cp by lia.
    replace ((65536 <=? cp) && (cp <=? 1114111)) with true by lia. reflexivity.
Qed.

(* the bytes are the RFC 3629 encoding *)
Theorem enc_is_utf8 cp : 128 <= cp <= 1114111 -> utf8_enc_c cp = utf8_ref cp.
Proof.
  intros H. unfold utf8_enc_c, utf8_ref, ENC2_LIMIT, ENC3_LIMIT.
  destruct (Z.ltb_spec cp 128); [lia|].
  destruct (Z.ltb_spec cp 2048).
  - rewrite enc2_eq. repeat (f_equal; try lia).
  - destruct (Z.ltb_spec cp 65536).
    + rewrite enc3_eq. repeat (f_equal; try lia).
    + rewrite enc4_eq. repeat (f_equal; try lia).
Qed.

Lemma some_single_inj (a b : Z) : Some [a] = Some [b] -> a = b.
Proof. intros H. injection H as H. exact H. Qed.

(* the guards are tight: one branch too short or too long never decodes back to the code point *)
Theorem guards_tight cp :
  (2048 <= cp -> utf8_decode (enc2 cp) <> Some [cp]) /\
  (65536 <= cp -> utf8_decode (enc3 cp) <> Some [cp]) /\
  (128 <= cp < 2048 -> utf8_decode (enc3 cp) = None) /\
  (2048 <= cp < 65536 -> utf8_decode (enc4 cp) = None).
Proof.
  repeat split.
  - intros H. rewrite enc2_eq.
    destruct (Z.ltb_spec (192 + (cp / 64) mod 32) 194) as [L|G].
    + cbn [utf8_decode]. brk. discriminate.
    + rewrite dec2 by lia. cbn [utf8_decode option_map]. intros E. apply some_single_inj in E. lia.
  - intros H. rewrite enc3_eq. rewrite dec3 by lia. cbv zeta.
    match goal with |- (if ?c then _ else _) <> _ => destruct c end; [|discriminate].
    cbn [utf8_decode option_map]. intros E. apply some_single_inj in E. lia.
  - intros H. rewrite enc3_eq. rewrite dec3 by lia. cbv zeta.
    match goal with |- (if ?c then _ else _) = _ => replace c with false by (unfold is_surrogate; lia) end.
    reflexivity.
  - intros H. rewrite enc4_eq. rewrite dec4 by lia. cbv zeta.
    match goal with |- (if ?c then _ else _) = _ => replace c with false by lia end.
    reflexivity.
Qed.

(* ---------- the byte-level helper refines the abstract one ---------- *)
Lemma repeat_ascii pad n : 0 <= pad <= 127 -> Forall (fun b => 0 <= b < 128) (repeat pad n).
Proof. intros H. induction n; cbn [repeat]; constructor; [lia|assumption]. Qed.

Theorem padded_b_refines iv ulength pad : 2 <= ulength -> 0 <= pad <= 127 ->
  from_ordinal_padded_b iv ulength pad = from_ordinal_padded iv ulength pad.
Proof.
  intros Hu Hp. unfold from_ordinal_padded_b, from_ordinal_padded, PAD_LIMIT, SURR_LO, SURR_HI, LATIN1_MAX. cbv zeta.
  assert (Cp : cchar pad = pad) by (unfold cchar; lia). rewrite Cp.
  destruct ((ulength - 1 <=? 250) && ((iv <? 55296) || (57343 <? iv))) eqn:G; [|reflexivity].
  unfold CHARS_SIZE.
  destruct (Z.leb_spec iv 255) as [Lo|Hi].
  - replace ((ulength - 1 <? 0) || (256 <? ulength)) with false by lia. reflexivity.
  - rewrite enc_length.
    assert (B : ((ulength - 1 <? 0) ||
                 (256 - Z.of_nat (if iv <? 2048 then 2%nat else if iv <? 65536 then 3%nat else 4%nat)
                  - (ulength - 1) <? 0)) = false).
    { destruct (iv <? 2048); [lia|]. destruct (iv <? 65536); lia. }
    rewrite B. rewrite decode_ascii_prefix by (apply repeat_ascii; assumption).
    rewrite <- (app_nil_r (utf8_enc_c iv)). unfold utf8_enc_c, ENC2_LIMIT, ENC3_LIMIT.
    destruct (Z.ltb_spec iv 2048).
    + rewrite dec_enc2 by lia. cbn [utf8_decode option_map].
      replace (iv <? 65536) with true by lia. reflexivity.
    + destruct (Z.ltb_spec iv 65536).
      * rewrite dec_enc3 by lia.
        replace (is_surrogate iv) with false by (unfold is_surrogate; lia). reflexivity.
      * rewrite dec_enc4 by lia. cbv zeta.
        destruct ((65536 <=? iv mod 2097152) && (iv mod 2097152 <=? 1114111)); reflexivity.
Qed.

Theorem uchar_b_refines fx w s v width pad : 0 <= pad <= 127 ->
  uchar_to_unicode_b fx w s v width pad = uchar_to_unicode fx w s v width pad.
Proof.
  intros Hp. unfold uchar_to_unicode_b, uchar_to_unicode.
  destruct (negb (uchar_accepts fx w s v)); [reflexivity|]. cbv zeta.
  destruct (Z.leb_spec width 1); [reflexivity|]. apply padded_b_refines; lia.
Qed.

(* main statement for the byte-level model of the code as it is (repaired range test) *)
Theorem char_bytes_fixed w s v width pad : 1 <= w -> in_range w s v -> 0 <= pad <= 127 ->
  uchar_to_unicode_b true w s v width pad = py_format_char v width pad.
Proof. intros Hw Hr Hp. rewrite uchar_b_refines by assumption. apply char_range_fixed; assumption. Qed.

Theorem char_bytes_partial w s v width pad : 1 <= w -> in_range w s v -> 0 <= pad <= 127 ->
  (v < 2097152 \/ sizeof w <= 2) ->
  uchar_to_unicode_b false w s v width pad = py_format_char v width pad.
Proof. intros Hw Hr Hp H. rewrite uchar_b_refines by assumption. apply char_range_partial; assumption. Qed.

(* consequences: the 256-byte buffer suffices for every width, the decoder never fails, and the
   text has exactly max(width,1) characters: width-1 padding characters then the code point *)
Theorem char_bytes_safe w s v width pad : 1 <= w -> in_range w s v -> 0 <= pad <= 127 ->
  uchar_to_unicode_b true w s v width pad <> CBufferOverflow /\
  uchar_to_unicode_b true w s v width pad <> CUnicodeDecodeError /\
  uchar_to_unicode_b true w s v width pad <> CAbort /\
  uchar_to_unicode_b true w s v width pad <> CValueError.
Proof.
  intros Hw Hr Hp. rewrite char_bytes_fixed by assumption. unfold py_format_char.
  destruct ((0 <=? v) && (v <? 1114112)); repeat split; discriminate.
Qed.

Theorem char_bytes_length w s v width pad l : 1 <= w -> in_range w s v -> 0 <= pad <= 127 ->
  uchar_to_unicode_b true w s v width pad = CText l ->
  Z.of_nat (length l) = Z.max width 1 /\ last l 0 = v /\ 0 <= v <= 1114111 /\
  firstn (Z.to_nat (width - 1)) l = repeat pad (Z.to_nat (width - 1)).
Proof.
  intros Hw Hr Hp. rewrite char_bytes_fixed by assumption. unfold py_format_char.
  destruct ((0 <=? v) && (v <? 1114112)) eqn:A; [|discriminate].
  intros [= <-]. rewrite app_length, repeat_length, last_last. cbn [length].
  repeat split; try lia.
  rewrite firstn_app, repeat_length, Nat.sub_diag. cbn [firstn]. rewrite app_nil_r.
  rewrite <- (repeat_length pad (Z.to_nat (width - 1))) at 1. apply firstn_all.
Qed.
