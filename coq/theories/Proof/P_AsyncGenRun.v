(* P_AsyncGenRun -- histories: the async generator layer over two generator machines related by a
   simulation gives equal observations (lifting of P_AsyncGen.aw_step_sim); instance Cython / CPython;
   properties of ag_closed and of finished awaitables; refutations of the variants. *)
From Coq Require Import ZArith List Bool Lia.
From CyVerif Require Import Lib.CInt Model.M_Gen Model.M_AsyncGen Proof.P_Gen Proof.P_AsyncGen.
Import ListNotations.
Open Scope Z_scope.

Section RunSim.
Variables G1 G2 L : Type.
Variable gop1 : G1 -> op -> result * G1 * list (L * input).
Variable gop2 : G2 -> op -> result * G2 * list (L * input).
Variables (gdone1 : G1 -> bool) (gdone2 : G2 -> bool) (gwr1 : G1 -> bool) (gwr2 : G2 -> bool).
Variable av : avar.
Variable hooks : bool.
Variable R : G1 -> G2 -> Prop.
Hypothesis Hop : forall g1 g2 o, R g1 g2 ->
  fst (fst (gop1 g1 o)) = fst (fst (gop2 g2 o)) /\ snd (gop1 g1 o) = snd (gop2 g2 o)
  /\ (o <> Del -> R (snd (fst (gop1 g1 o))) (snd (fst (gop2 g2 o)))).
Hypothesis Hdone : forall g1 g2, R g1 g2 -> gdone1 g1 = gdone2 g2.
Hypothesis Hwr : forall g1 g2, R g1 g2 -> gwr1 g1 = gwr2 g2.

Notation RA := (Rag G1 G2 R).
Notation step1 := (aw_step G1 L gop1 gdone1 gwr1 av).
Notation step2 := (aw_step G2 L gop2 gdone2 gwr2 av).
Notation drive1 := (drive G1 L gop1 gdone1 gwr1 av).
Notation drive2 := (drive G2 L gop2 gdone2 gwr2 av).
Notation wop1 := (world_op G1 L gop1 gdone1 gwr1 av hooks).
Notation wop2 := (world_op G2 L gop2 gdone2 gwr2 av hooks).

Lemma step_sim : forall a1 a2 w s, RA a1 a2 ->
  exists r a1' a2' w' l, step1 a1 w s = (r, a1', w', l) /\ step2 a2 w s = (r, a2', w', l) /\ RA a1' a2'.
Proof.
  intros a1 a2 w s H.
  destruct (aw_step_sim G1 G2 L gop1 gop2 gdone1 gdone2 gwr1 gwr2 av R Hop Hdone Hwr a1 a2 w s H) as (E1 & E2 & E3 & E4).
  destruct (step1 a1 w s) as [[[r a1'] w'] l]. destruct (step2 a2 w s) as [[[r2 a2'] w2] l2].
  cbn in *. subst. eauto 10.
Qed.

Lemma drive_sim : forall fuel a1 a2 w, RA a1 a2 ->
  exists vs r a1' a2' w' l, drive1 fuel a1 w = (vs, r, a1', w', l) /\ drive2 fuel a2 w = (vs, r, a2', w', l) /\ RA a1' a2'.
Proof.
  induction fuel as [|f IH]; intros a1 a2 w H; cbn [drive].
  - eauto 12.
  - destruct (step_sim a1 a2 w (StSend VNone) H) as (r & a1' & a2' & w' & l & E1 & E2 & H').
    rewrite E1, E2. destruct r; eauto 12.
    destruct (IH a1' a2' w' H') as (vs & r2 & b1 & b2 & w2 & l2 & F1 & F2 & H2).
    rewrite F1, F2. eauto 12.
Qed.

Definition Rw (w1 : world G1) (w2 : world G2) : Prop :=
  RA (w_ag G1 w1) (w_ag G2 w2) /\ w_slots G1 w1 = w_slots G2 w2.

Lemma world_op_sim : forall w1 w2 o, Rw w1 w2 ->
  fst (wop1 w1 o) = fst (wop2 w2 o) /\ (o <> ADel -> Rw (snd (wop1 w1 o)) (snd (wop2 w2 o))).
Proof.
  intros [a1 sl1] [a2 sl2] o [H Hs]; cbn in H, Hs; subst sl2.
  destruct o as [j k|j s|j|]; cbn [world_op w_ag w_slots].
  - destruct a1 as [g1 c1 r1 h1 f1], a2 as [g2 c2 r2 h2 f2]. destruct H as (HR & Hc & Hr & Hh & Hf); cbn in *; subst.
    unfold ag_new; cbn. destruct h2; cbn; (split; [reflexivity|intros _; repeat split; auto]).
  - unfold get_slot; cbn [w_slots]. destruct (nth_error sl1 j) as [[x|]|]; cbv beta iota.
    + destruct (step_sim a1 a2 x s H) as (r & a1' & a2' & w' & l & E1 & E2 & H').
      rewrite E1, E2. destruct H' as (HR & Hc & Hr & Hh & Hf). cbn. rewrite Hr.
      split; [reflexivity|intros _; repeat split; auto].
    + destruct H as (HR & Hc & Hr & Hh & Hf). cbn. rewrite Hr. split; [reflexivity|intros _; repeat split; auto].
    + destruct H as (HR & Hc & Hr & Hh & Hf). cbn. rewrite Hr. split; [reflexivity|intros _; repeat split; auto].
  - unfold get_slot; cbn [w_slots]. destruct (nth_error sl1 j) as [[x|]|]; cbv beta iota.
    + destruct (drive_sim DRIVE_MAX a1 a2 x H) as (vs & r & a1' & a2' & w' & l & E1 & E2 & H').
      rewrite E1, E2. destruct H' as (HR & Hc & Hr & Hh & Hf). cbn. rewrite Hr.
      split; [reflexivity|intros _; repeat split; auto].
    + destruct H as (HR & Hc & Hr & Hh & Hf). cbn. rewrite Hr. split; [reflexivity|intros _; repeat split; auto].
    + destruct H as (HR & Hc & Hr & Hh & Hf). cbn. rewrite Hr. split; [reflexivity|intros _; repeat split; auto].
  - split; [|congruence].
    destruct a1 as [g1 c1 r1 h1 f1], a2 as [g2 c2 r2 h2 f2]. destruct H as (HR & Hc & Hr & Hh & Hf); cbn in *; subst.
    unfold ag_del; cbn. rewrite (Hdone _ _ HR). destruct (gdone2 g2); [reflexivity|].
    destruct (f2 && negb c2); [reflexivity|].
    destruct (Hop g1 g2 Del HR) as (E1 & E2 & _).
    destruct (gop1 g1 Del) as [[? ?] ?], (gop2 g2 Del) as [[? ?] ?]; cbn in *; subst; reflexivity.
Qed.

Theorem run_world_sim : forall h w1 w2, Rw w1 w2 ->
  run_world G1 L gop1 gdone1 gwr1 av hooks w1 h = run_world G2 L gop2 gdone2 gwr2 av hooks w2 h.
Proof.
  induction h as [|o h IH]; intros w1 w2 H; [reflexivity|].
  destruct (world_op_sim w1 w2 o H) as (E & Hn).
  destruct o; cbn [run_world]; try (rewrite E; reflexivity);
    (destruct (wop1 w1 _) as [x1 w1'], (wop2 w2 _) as [x2 w2']; cbn in E, Hn; subst x2;
     rewrite (IH w1' w2' (Hn ltac:(discriminate))); reflexivity).
Qed.
End RunSim.

(* ---------------- instance: Coroutine.c + AsyncGen.c  vs  CPython 3.12 ---------------- *)
Section Inst.
Variable L : Type.
Variable start : L.
Variable step : L -> input -> outcome L.

Definition Rcp (s : cstate L) (p : pstate L) : Prop := P_Gen.cwf L s /\ p = abs L s.

Lemma Rcp_op : forall s p o, Rcp s p ->
  fst (fst (cy_op L start step false true fx_all s o)) = fst (fst (py_op L start step false true p o))
  /\ snd (cy_op L start step false true fx_all s o) = snd (py_op L start step false true p o)
  /\ (o <> Del -> Rcp (snd (fst (cy_op L start step false true fx_all s o)))
                      (snd (fst (py_op L start step false true p o)))).
Proof.
  intros s p o [Hw ->].
  destruct (op_sim L start step false true s o Hw) as (E1 & E2 & E3 & E4).
  split; [symmetry; exact E1|]. split; [symmetry; exact E2|]. intros Ho. split; [exact E4|exact (E3 Ho)].
Qed.

Lemma Rcp_done : forall s p, Rcp s p -> c_done L s = p_done L p.
Proof. intros [lab run yf] p [[Hr Hy] ->]; cbn in *; subst; destruct lab; reflexivity. Qed.

Lemma Rcp_wrapped : forall s p, Rcp s p -> c_wrapped L s = p_wrapped L p.
Proof.
  intros [lab run yf] p [[Hr Hy] ->]; cbn in *; subst. destruct lab; cbn in *; subst; try reflexivity;
    try (destruct yf; reflexivity).
Qed.

Definition Rworld := Rw (cstate L) (pstate L) Rcp.

(* every body, every variant of the layer, hooks installed or not, every pair of corresponding states,
   every history: equal observations (results, ag_running, resumptions of the body, suspension values,
   hook events) *)
Theorem agen_bisim : forall av hooks h w1 w2, Rworld w1 w2 ->
  run_cy_ag L start step fx_all av hooks w1 h = run_py_ag L start step av hooks w2 h.
Proof.
  intros av hooks h w1 w2 H. unfold run_cy_ag, run_py_ag.
  apply (run_world_sim (cstate L) (pstate L) L _ _ _ _ _ _ av hooks Rcp Rcp_op Rcp_done Rcp_wrapped h w1 w2 H).
Qed.

Corollary agen_bisim_init : forall av hooks h,
  run_cy_ag L start step fx_all av hooks (world_init (cstate L) (c_init L)) h
  = run_py_ag L start step av hooks (world_init (pstate L) (p_init L)) h.
Proof.
  intros. apply agen_bisim. split; [|reflexivity]. cbn. repeat split; auto.
Qed.
End Inst.

(* ---------------- ag_closed and finished awaitables (any underlying generator) ---------------- *)
Section Closed.
Variables G L : Type.
Variable gop : G -> op -> result * G * list (L * input).
Variables (gdone gwr : G -> bool).
Variable av : avar.

(* aclose(): once the first step of the awaitable has been taken the generator is marked closed, whatever
   the body does with GeneratorExit -- in particular when it answers with another yield *)
Theorem aclose_marks_closed : forall a arg, av_closed_first av = true ->
  ag_running_async G a = false -> gdone (ag_gen G a) = false -> is_none arg = true ->
  ag_closed G (snd (fst (fst (athrow_send G L gop gdone gwr av a KClose AInit arg)))) = true.
Proof.
  intros [g c r h f] arg Hv Hr Hd Ha; cbn in Hr, Hd; subst.
  unfold athrow_send; cbn. rewrite Hd, Ha, Hv. destruct c; [reflexivity|]. cbn.
  destruct (gop g (ThrowNC EGenExit)) as [[r g'] l]. destruct r; cbn; try reflexivity.
  destruct (gwr g'); reflexivity.
Qed.

(* a closed generator: the first step of every new aclose()/athrow() awaitable is StopAsyncIteration, the body
   is not resumed, nothing changes *)
Theorem closed_gen_answers_stopasync : forall a k arg, (forall v, k <> KSend v) ->
  ag_closed G a = true -> ag_running_async G a = false -> gdone (ag_gen G a) = false ->
  athrow_send G L gop gdone gwr av a k AInit arg = (RRaise EStopAsync, a, AClosed, []).
Proof.
  intros [g c r h f] k arg Hk Hc Hr Hd; cbn in Hc, Hr, Hd; subst.
  unfold athrow_send; cbn. rewrite Hd. reflexivity.
Qed.

(* a finished awaitable never touches the generator again *)
Theorem finished_awaitable_inert : forall a k s,
  exists r, aw_step G L gop gdone gwr av a (Awt k AClosed) s = (r, a, Awt k AClosed, [])
            /\ (r = RNone \/ exists m, r = RRaise (ERuntime m)).
Proof.
  intros a k s. destruct k, s;
    cbv [aw_step aw_kind aw_state asend_send asend_throw asend_close athrow_send athrow_throw athrow_close is_aclosed];
    try destruct (av_t313 av); cbv beta iota;
    eexists; (split; [reflexivity|]); first [left; reflexivity | right; eexists; reflexivity].
Qed.
End Closed.

(* ---------------- refutations ---------------- *)
(* witness body: answers GeneratorExit at its first yield with another yield, awaits when U0 is thrown *)
Definition ag_w_step (k : Z) (i : input) : outcome Z :=
  match i with
  | ISend _ => if k =? 0 then OYield (VInt 1) 1 else OYield (VInt 3) 2
  | IThrow EGenExit => if k =? 1 then OYield (VInt 2) 2 else ORaise EGenExit
  | IThrow (EUser 0) => ODelegate (VInt 5) (list_sub []) 2
  | IThrow e => ORaise e
  end.
Definition ares_of {L : Type} (l : list (obs L)) : list ares := map (o_res L) l.
Definition wc := world_init (cstate Z) (c_init Z).
Definition wp := world_init (pstate Z) (p_init Z).
Definition av_with (t pad cf ne : bool) := {| av_t313 := t; av_pad := pad; av_closed_first := cf; av_nullexc := ne |}.

(* the seeded variant: anext, aclose (RuntimeError), aclose again *)
Definition h_seeded := [ANew 0 (KSend VNone); ADrive 0; ANew 0 KClose; ADrive 0; ANew 0 KClose; ADrive 0].
Theorem closed_late_refuted :
  ares_of (run_cy_ag Z 0 ag_w_step fx_all (av_with false false false false) false wc h_seeded)
  <> ares_of (run_py_ag Z 0 ag_w_step av_py false wp h_seeded).
Proof. vm_compute. discriminate. Qed.

(* AsyncGen.c as it is vs CPython 3.12.1, one variant at a time *)
Definition h_t313 := [ANew 0 (KSend VNone); ADrive 0; ANew 0 (KSend VNone); AStep 0 StClose; ANew 1 KClose; ADrive 1].
Theorem t313_refuted :
  ares_of (run_cy_ag Z 0 ag_w_step fx_all (av_with true false true false) false wc h_t313)
  <> ares_of (run_py_ag Z 0 ag_w_step av_py false wp h_t313).
Proof. vm_compute. discriminate. Qed.

Definition h_running := [ANew 0 (KSend VNone); ADrive 0; ANew 0 (KThrow (EUser 0)); AStep 0 (StSend VNone);
                         ANew 1 (KSend VNone); AStep 1 (StSend VNone)].
Theorem pad_refuted :
  ares_of (run_cy_ag Z 0 ag_w_step fx_all (av_with false true true false) false wc h_running)
  <> ares_of (run_py_ag Z 0 ag_w_step av_py false wp h_running).
Proof. vm_compute. discriminate. Qed.

Definition h_nullexc := [ANew 0 (KSend VNone); ADrive 0; ANew 0 KClose; AStep 0 (StThrow (EUser 0))].
Theorem nullexc_refuted :
  ares_of (run_cy_ag Z 0 ag_w_step fx_all (av_with false false true true) false wc h_nullexc)
  <> ares_of (run_py_ag Z 0 ag_w_step av_py false wp h_nullexc).
Proof. vm_compute. discriminate. Qed.

Theorem ag_fresh_del_refuted :
  ares_of (run_cy_ag Z 0 ag_w_step fx_none av_py false wc [ADel])
  <> ares_of (run_py_ag Z 0 ag_w_step av_py false wp [ADel]).
Proof. vm_compute. discriminate. Qed.

(* non-vacuity: on the witness body the history of the seeded change runs through a yielded value, the
   "ignored GeneratorExit" error and the StopAsyncIteration answer *)
Example agen_nonvacuous :
  ares_of (run_py_ag Z 0 ag_w_step av_py false wp h_seeded)
  = [ANewOk; AR (RRaise (EStopIter (VInt 1))); ANewOk; AR (RRaise (ERuntime M_IGNORED)); ANewOk; AR (RRaise EStopAsync)].
Proof. vm_compute. reflexivity. Qed.
