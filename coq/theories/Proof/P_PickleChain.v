(* C29 - the base-class walk of _inject_pickle_methods (Model/M_Pickle.v: walk, decide_walk):
   the loop computes the chain-wide disjunctions; the decision is level-wise; the variant that
   looks __cinit__ up in the scope of the class being compiled only is characterised and refuted. *)
From Coq Require Import ZArith List Bool Lia Permutation Sorted.
From CyVerif Require Import Model.M_Pickle Proof.P_Pickle.
Import ListNotations.

(* ------------------------------------------------------------------ the loop *)
Lemma walk_fold : forall sc sr node h w0,
  fold_left (walk_step sc sr node) h w0 =
  {| w_members := w_members w0 ++ flat_map own_members h;
     w_cinit := w_cinit w0 || existsb (fun k => c_cinit (sc node k)) h;
     w_reduce := w_reduce w0 || existsb (fun k => c_reduce (sr node k)) h |}.
Proof.
  intros sc sr node h. induction h as [|k r IH]; intro w0.
  - simpl. rewrite app_nil_r. rewrite !orb_false_r. destruct w0; reflexivity.
  - simpl fold_left. rewrite IH. unfold walk_step. simpl.
    rewrite <- app_assoc. rewrite <- !orb_assoc. reflexivity.
Qed.

(* loop invariant result: after the walk the accumulators are the members of every level in chain
   order and the disjunction over ALL levels of the two lookups *)
Lemma walk_spec : forall sc sr node h,
  walk sc sr node h =
  {| w_members := gather h;
     w_cinit := existsb (fun k => c_cinit (sc node k)) h;
     w_reduce := existsb (fun k => c_reduce (sr node k)) h |}.
Proof. intros. unfold walk. rewrite walk_fold. reflexivity. Qed.

Lemma existsb_const : forall (A : Type) (b : bool) (x : A) l, existsb (fun _ => b) (x :: l) = b.
Proof.
  intros A b x l. revert x. induction l as [|y r IH]; intro x; simpl.
  - apply orb_false_r.
  - simpl in IH. rewrite (IH y). apply orb_diag.
Qed.

Lemma decide_on_core : forall f e h,
  decide_on f e h =
  decide_core f (match head_auto h with Some true => true | _ => false end)
              (existsb c_cinit h || (negb (fx_lookup f) && g_cinit e)) (all_members h).
Proof. reflexivity. Qed.

(* the loop as written computes the decision of the declarative model: every theorem about
   [decide] (eligibility = documented rule, refusal reasons, member order) holds of the walk *)
Theorem decide_walk_eq : forall f e h, decide_walk sel_cls sel_cls f e h = decide f e h.
Proof.
  intros f e h. destruct h as [|c bs]; [reflexivity|].
  unfold decide_walk, decide, reduce_in_scope. rewrite walk_spec. unfold sel_cls.
  cbn [w_members w_cinit w_reduce].
  change (existsb (fun k => c_reduce k) (c :: bs)) with (existsb c_reduce (c :: bs)).
  change (existsb (fun k => c_cinit k) (c :: bs)) with (existsb c_cinit (c :: bs)).
  rewrite decide_on_core. cbn [head_auto]. fold (all_members (c :: bs)).
  cbn [existsb].
  destruct (c_reduce c); [reflexivity|]. cbn [orb].
  destruct (negb (fx_lookup f) && g_reduce e).
  { rewrite orb_true_r. reflexivity. }
  rewrite orb_false_r.
  destruct (existsb c_reduce bs); destruct (c_auto c) as [[|]|]; reflexivity.
Qed.

(* ------------------------------------------------------------------ level-wise rule *)
Definition forced_of (c : cls) : bool := match c_auto c with Some true => true | _ => false end.

(* one level of the chain does not stand in the way of auto-pickling the leaf *)
Definition level_ok (f : flags) (forced : bool) (k : cls) : Prop :=
  c_cinit k = false /\ c_reduce k = false /\
  forall m, In m (c_members k) -> special (m_name m) = false ->
    non_py f (m_kind m) = false /\ (is_struct (m_kind m) = false \/ forced = true).

Lemma existsb_false_iff : forall (A : Type) (p : A -> bool) l,
  existsb p l = false <-> forall x, In x l -> p x = false.
Proof.
  intros A p l. induction l as [|a r IH]; simpl; split; intro H.
  - intros x [].
  - reflexivity.
  - apply orb_false_iff in H. destruct H as [H1 H2]. intros x [->|Hx]; [exact H1|].
    apply IH; assumption.
  - apply orb_false_iff. split; [apply H; left; reflexivity|]. apply IH. intros x Hx. apply H. right. exact Hx.
Qed.

Lemma documented_levelwise : forall f c bs,
  documented_rule f c bs <->
  (c_auto c <> Some false /\ forall k, In k (c :: bs) -> level_ok f (forced_of c) k).
Proof.
  intros f c bs. unfold documented_rule, level_ok. split.
  - intros [HR [HA [HC [HN HS]]]]. split; [exact HA|]. intros k Hk.
    pose proof (proj1 (existsb_false_iff _ _ _) HR k Hk) as Rk.
    pose proof (proj1 (existsb_false_iff _ _ _) HC k Hk) as Ck.
    split; [exact Ck|]. split; [exact Rk|]. intros m Hm Hs.
    assert (I : In m (all_members (c :: bs))).
    { apply in_all_members. apply in_gather. exists k. repeat split; assumption. }
    split; [apply HN; exact I|].
    destruct HS as [HS|HS]; [left; apply HS; exact I|right; unfold forced_of; rewrite HS; reflexivity].
  - intros [HA HL]. split.
    { apply existsb_false_iff. intros k Hk. apply (HL k Hk). }
    split; [exact HA|]. split.
    { apply existsb_false_iff. intros k Hk. apply (HL k Hk). }
    split.
    { intros m Hm. apply in_all_members in Hm. apply in_gather in Hm.
      destruct Hm as [k [Hk [Hm Hs]]]. apply (HL k Hk); assumption. }
    unfold forced_of in HL. destruct (c_auto c) as [[|]|] eqn:EA.
    + right. reflexivity.
    + exfalso. apply HA. reflexivity.
    + left. intros m Hm. apply in_all_members in Hm. apply in_gather in Hm.
      destruct Hm as [k [Hk [Hm Hs]]].
      destruct (HL k Hk) as [_ [_ HM]]. destruct (HM m Hm Hs) as [_ [H|H]]; [exact H|discriminate].
Qed.

(* THE CHAIN RULE: the loop injects the real __reduce_cython__/__setstate_cython__ iff
   auto_pickle is not False and NO level of the chain (the class itself or any base, at any depth)
   defines __cinit__, __reduce__/__reduce_ex__, or declares an unconvertible member (or a struct
   member without auto_pickle(True) on the class being compiled) *)
Theorem chain_rule : forall f e c bs, quiet f e ->
  ((exists ms, decide_walk sel_cls sel_cls f e (c :: bs) = InjectPickle ms) <->
   (c_auto c <> Some false /\ forall k, In k (c :: bs) -> level_ok f (forced_of c) k)).
Proof.
  intros f e c bs Q. rewrite decide_walk_eq. rewrite (decide_pickle_iff f e c bs Q).
  apply documented_levelwise.
Qed.

(* a __cinit__ at ANY level refuses the leaf (unless pickling is switched off / user-defined) *)
Theorem cinit_anywhere_refuses : forall f e c bs k,
  quiet f e -> In k (c :: bs) -> c_cinit k = true ->
  existsb c_reduce (c :: bs) = false -> c_auto c <> Some false ->
  decide_walk sel_cls sel_cls f e (c :: bs) = InjectRaise RCinit [].
Proof.
  intros f e c bs k Q Hk Ck HR HA. rewrite decide_walk_eq.
  unfold decide, reduce_in_scope. rewrite HR. rewrite (quiet_reduce f e Q). cbn [orb].
  assert (EC : existsb c_cinit (c :: bs) = true).
  { apply existsb_exists. exists k. split; assumption. }
  unfold decide_on. rewrite EC. cbn [orb].
  destruct (c_auto c) as [[|]|]; [reflexivity|exfalso; apply HA; reflexivity|reflexivity].
Qed.

(* an unconvertible member declared at ANY level refuses the leaf *)
Theorem nonpy_anywhere_refuses : forall f e c bs k m,
  In k (c :: bs) -> In m (c_members k) -> special (m_name m) = false -> non_py f (m_kind m) = true ->
  forall ms, decide_walk sel_cls sel_cls f e (c :: bs) <> InjectPickle ms.
Proof.
  intros f e c bs k m Hk Hm Hs Hn ms D. rewrite decide_walk_eq in D.
  assert (I : In m (all_members (c :: bs))).
  { apply in_all_members. apply in_gather. exists k. repeat split; assumption. }
  unfold decide in D. destruct (reduce_in_scope f e (c :: bs)); [discriminate|].
  assert (Hon : decide_on f e (c :: bs) <> InjectPickle ms).
  { unfold decide_on. intro D'.
    destruct (existsb c_cinit (c :: bs) || negb (fx_lookup f) && g_cinit e); [discriminate|].
    destruct (filter (fun m => non_py f (m_kind m)) (all_members (c :: bs))) eqn:ENP; [|discriminate].
    pose proof (proj1 (filter_nil_iff _ _ _) ENP m I) as N. cbv beta in N. rewrite Hn in N. discriminate. }
  destruct (c_auto c) as [[|]|]; [exact (Hon D)|discriminate|exact (Hon D)].
Qed.

(* ------------------------------------------------------------------ the own-scope-only variant *)
Lemma own_members_clear : forall k, own_members (clear_cinit k) = own_members k.
Proof. reflexivity. Qed.

Lemma gather_clear : forall bs, gather (map clear_cinit bs) = gather bs.
Proof.
  intro bs. unfold gather. induction bs as [|k r IH]; [reflexivity|].
  simpl. rewrite IH. reflexivity.
Qed.

Lemma existsb_reduce_clear : forall bs, existsb c_reduce (map clear_cinit bs) = existsb c_reduce bs.
Proof. intro bs. induction bs as [|k r IH]; [reflexivity|]. simpl. rewrite IH. reflexivity. Qed.

Lemma existsb_cinit_clear : forall bs, existsb c_cinit (map clear_cinit bs) = false.
Proof. intro bs. induction bs as [|k r IH]; [reflexivity|]. simpl. exact IH. Qed.

(* looking __cinit__ up in node.scope at every step = deciding the chain whose BASES have their
   __cinit__ erased, for every chain *)
Theorem own_scope_variant_spec : forall f e c bs,
  decide_walk sel_node sel_cls f e (c :: bs) = decide f e (c :: map clear_cinit bs).
Proof.
  intros f e c bs. rewrite <- decide_walk_eq.
  unfold decide_walk. rewrite !walk_spec. unfold sel_node, sel_cls.
  cbn [w_members w_cinit w_reduce].
  rewrite (existsb_const cls (c_cinit c) c bs).
  change (existsb (fun k => c_cinit k) (c :: map clear_cinit bs)) with
         (c_cinit c || existsb c_cinit (map clear_cinit bs)).
  rewrite existsb_cinit_clear. rewrite orb_false_r.
  change (existsb (fun k => c_reduce k) (c :: map clear_cinit bs)) with
         (c_reduce c || existsb c_reduce (map clear_cinit bs)).
  rewrite existsb_reduce_clear.
  change (existsb (fun k => c_reduce k) (c :: bs)) with (c_reduce c || existsb c_reduce bs).
  assert (G : gather (c :: map clear_cinit bs) = gather (c :: bs)).
  { unfold gather. simpl. f_equal. apply gather_clear. }
  rewrite G. reflexivity.
Qed.

(* hence it is wrong on EVERY chain whose only obstacle is a base-class __cinit__ *)
Theorem own_scope_variant_wrong : forall f e c bs,
  quiet f e -> c_cinit c = false -> existsb c_cinit bs = true ->
  documented_rule f c (map clear_cinit bs) ->
  (exists ms, decide_walk sel_node sel_cls f e (c :: bs) = InjectPickle ms) /\
  decide_walk sel_cls sel_cls f e (c :: bs) = InjectRaise RCinit [].
Proof.
  intros f e c bs Q Cc Cb D. split.
  - rewrite own_scope_variant_spec. apply (decide_pickle_iff f e c (map clear_cinit bs) Q). exact D.
  - destruct D as [HR [HA _]].
    apply existsb_exists in Cb. destruct Cb as [k [Hk Ck]].
    apply (cinit_anywhere_refuses f e c bs k Q); [right; exact Hk|exact Ck| |exact HA].
    cbn [existsb] in HR |- *. rewrite existsb_reduce_clear in HR. exact HR.
Qed.

(* concrete witness (repaired flags): Base(__cinit__, int a) <- Leaf(object b) *)
Definition F1 : flags := {| fx_lookup := true; fx_ptr := true; fx_pad := true |}.
Definition cinit_base : cls :=
  {| c_id := 1; c_members := [{| m_name := nA; m_kind := kint |}]; c_cinit := true; c_reduce := false;
     c_getstate := false; c_setstate := false; c_auto := None |}.
Definition cinit_chain : hierarchy := [mk_cls 2 [{| m_name := nB; m_kind := KObj |}] None; cinit_base].

Lemma own_scope_variant_refuted :
  decide_walk sel_cls sel_cls F1 E0 cinit_chain = InjectRaise RCinit [] /\
  exists ms, decide_walk sel_node sel_cls F1 E0 cinit_chain = InjectPickle ms /\ ms <> [].
Proof. split; [reflexivity|]. eexists. split; [vm_compute; reflexivity|discriminate]. Qed.

(* the same for __reduce__: looking it up in node.scope only makes an inherited user __reduce__
   invisible; witness Base(def __reduce__) <- Leaf(int a) *)
Definition reduce_base : cls :=
  {| c_id := 1; c_members := []; c_cinit := false; c_reduce := true;
     c_getstate := false; c_setstate := false; c_auto := None |}.
Definition reduce_chain : hierarchy := [mk_cls 2 [{| m_name := nA; m_kind := kint |}] None; reduce_base].

Lemma own_scope_reduce_refuted :
  decide_walk sel_cls sel_cls F1 E0 reduce_chain = NoInject /\
  exists ms, decide_walk sel_cls sel_node F1 E0 reduce_chain = InjectPickle ms.
Proof. split; [reflexivity|]. eexists. vm_compute. reflexivity. Qed.

(* ------------------------------------------------------------------ cimported bases (finding) *)
(* A base class cimported from another module is seen through its .pxd: attributes yes, methods no.
   The members are still all collected ... *)
Lemma gather_pxd_view : forall bs, gather (map pxd_view bs) = gather bs.
Proof.
  intro bs. unfold gather. induction bs as [|k r IH]; [reflexivity|].
  simpl. rewrite IH. reflexivity.
Qed.

Lemma all_members_pxd_view : forall c bs, all_members (c :: map pxd_view bs) = all_members (c :: bs).
Proof.
  intros c bs. unfold all_members. f_equal.
  change (gather (c :: map pxd_view bs)) with (own_members c ++ gather (map pxd_view bs)).
  rewrite gather_pxd_view. reflexivity.
Qed.

(* ... but a __cinit__ of the cimported base is not: the class gets the real methods although the
   documented rule (applied to the true chain) refuses it.  For every such chain: *)
Theorem cimported_cinit_unseen : forall f e c bs,
  quiet f e -> existsb c_cinit bs = true ->
  documented_rule f c (map pxd_view bs) ->
  (exists ms, decide f e (c :: map pxd_view bs) = InjectPickle ms) /\ ~ documented_rule f c bs.
Proof.
  intros f e c bs Q Cb D. split.
  - apply (decide_pickle_iff f e c (map pxd_view bs) Q). exact D.
  - intros [_ [_ [HC _]]]. cbn [existsb] in HC. apply orb_false_iff in HC. destruct HC as [_ HC].
    rewrite HC in Cb. discriminate.
Qed.

Lemma cimported_cinit_refuted :
  decide F1 E0 cinit_chain = InjectRaise RCinit [] /\
  exists ms, decide F1 E0 [mk_cls 2 [{| m_name := nB; m_kind := KObj |}] None; pxd_view cinit_base] = InjectPickle ms
             /\ ms <> [].
Proof. split; [reflexivity|]. eexists. split; [vm_compute; reflexivity|discriminate]. Qed.
