(* P_EvalOrder - proofs for C20: the temp-machine code produced by the model of the code generator
   computes exactly the events, value and variables of the CPython-order reference semantics. *)
From Coq Require Import List Bool Arith Lia.
From CyVerif Require Import Model.M_CCallMap Model.M_EvalOrder Proof.P_CCallMap.
Import ListNotations.

(* ---------- top-level copies of the local recursions of eval / gen ---------- *)
Section Copies.
Variable S : sem.
Variable vars : nat -> val.

Section Chain.
Variable m : mode.
Fixpoint echain (va : val) (ops : list op) (es : list expr) {struct es} : res :=
  match ops, es with
  | o :: ops', b :: es' =>
      let rb := eval S vars MVal b in
      let '(r, ev1) := opsem S o [va; rv rb] in
      match ops', es', m with
      | _ :: _, _ :: _, _ =>
          let '(t, ev2) := truthsem S r in
          if t then
            let rc := echain (rv rb) ops' es' in
            {| rv := rv rc; rk := rk rc; rev := rev rb ++ ev1 ++ ev2 ++ rev rc; rlf := rlf rb ++ rlf rc |}
          else {| rv := match m with MVal => r | MBool => VBool false end;
                  rk := match m with MVal => None | MBool => Some false end;
                  rev := rev rb ++ ev1 ++ ev2; rlf := rlf rb |}
      | _, _, MVal => {| rv := r; rk := None; rev := rev rb ++ ev1; rlf := rlf rb |}
      | _, _, MBool =>
          let '(t, ev2) := truthsem S r in
          {| rv := VBool t; rk := Some t; rev := rev rb ++ ev1 ++ ev2; rlf := rlf rb |}
      end
  | _, _ => match m with
            | MVal => {| rv := VNone; rk := None; rev := []; rlf := [] |}
            | MBool => let '(t, ev) := truthsem S VNone in
                       {| rv := VBool t; rk := Some t; rev := ev; rlf := [] |}
            end
  end.

End Chain.

Section Scan.
Variable o : op.
Fixpoint rscan (best : val) (vs : list val) : val * list event :=
  match vs with
  | [] => (best, [])
  | v :: vs' => let '(r, ev1) := opsem S o [v; best] in
                let '(t, ev2) := truthsem S r in
                let '(w, ev3) := rscan (if t then v else best) vs' in
                (w, ev1 ++ ev2 ++ ev3)
  end.
End Scan.

Definition tobool (m : mode) (r : res) : res :=
  match m with
  | MVal => r
  | MBool => let '(t, ev) := truth_of S (rv r) (rk r) in
             {| rv := VBool t; rk := Some t; rev := rev r ++ ev; rlf := rlf r |}
  end.

Lemma eval_EOp m o es : eval S vars m (EOp o es) =
  let rs := evals S vars es in
  let '(v, ev) := opsem S o (map rv rs) in
  tobool m {| rv := v; rk := None; rev := flat_ev rs ++ ev; rlf := flat_lf rs |}.
Proof. reflexivity. Qed.

Lemma eval_ECmp m a ops rest : eval S vars m (ECmp a ops rest) =
  let ra := eval S vars MVal a in
  let rc := echain m (rv ra) ops rest in
  {| rv := rv rc; rk := rk rc; rev := rev ra ++ rev rc; rlf := rlf ra ++ rlf rc |}.
Proof. reflexivity. Qed.

Lemma eval_EMCall m mname o obj args : eval S vars m (EMCall mname o obj args) =
  let ro := eval S vars MVal obj in
  let '(f, ev1) := opsem S (OGetAttr mname) [rv ro] in
  let rs := evals S vars args in
  let '(v, ev2) := opsem S o (f :: map rv rs) in
  tobool m {| rv := v; rk := None; rev := rev ro ++ ev1 ++ flat_ev rs ++ ev2; rlf := rlf ro ++ flat_lf rs |}.
Proof. reflexivity. Qed.

Lemma eval_EMinMax m o args : eval S vars m (EMinMax o args) =
  let rs := evals S vars args in
  match map rv rs with
  | [] => tobool m {| rv := VNone; rk := None; rev := []; rlf := [] |}
  | v0 :: vs => let '(w, ev) := rscan o v0 vs in
                tobool m {| rv := w; rk := None; rev := flat_ev rs ++ ev; rlf := flat_lf rs |}
  end.
Proof. reflexivity. Qed.

Lemma eval_ECCall m o nreq ndecl recv npos names es : eval S vars m (ECCall o nreq ndecl recv npos names es) =
  let rr := eval S vars MVal recv in
  let rs := evals S vars es in
  let '(v, ev) := opsem S o (rv rr :: map (fun p => nth p (map rv rs) VNone) (ref_slots npos names ndecl 0)) in
  tobool m {| rv := v; rk := None; rev := rev rr ++ flat_ev rs ++ ev; rlf := rlf rr ++ flat_lf rs |}.
Proof. reflexivity. Qed.
End Copies.

Section GenCopies.
Variable F : flags.

Fixpoint gchain (m : mode) (r tb endl : nat) (ra : operand) (ops : list op) (es : list expr) (n : nat)
  {struct es} : list instr * nat :=
  match ops, es with
  | o :: ops', b :: es' =>
      let '(cb, rb, n1) := gen F CVal b n in
      let cmp := cb ++ [IOp r o [ra; rb]] in
      match ops', es', m with
      | _ :: _, _ :: _, _ =>
          let '(cc, n2) := gchain m r tb endl rb ops' es' n1 in
          (cmp ++ [IIsTrue tb (OTemp r); IJumpIf tb false endl] ++ cc, n2)
      | _, _, MVal => (cmp, n1)
      | _, _, MBool => (cmp ++ [IIsTrue tb (OTemp r)], n1)
      end
  | _, _ => match m with
            | MVal => ([IMove r ONoneC], n)
            | MBool => ([IMove r ONoneC; IIsTrue tb ONoneC], n)
            end
  end.

Section GScan.
Variable o : op.
Fixpoint gscan (best tb : nat) (rs : list operand) (l : nat) : list instr * nat :=
  match rs with
  | [] => ([], l)
  | r :: rs' =>
      let '(cc, l') := gscan best tb rs' (S l) in
      ([IOp tb o [r; OTemp best]; IIsTrue tb (OTemp tb); IJumpIf tb false l; IMove best r; ILabel l] ++ cc, l')
  end.
End GScan.

Lemma gen_EOp c o es n : gen F c (EOp o es) n =
  let '(code, rs, n1) := gens F es n in finish c (code ++ [IOp n1 o rs], OTemp n1, S n1).
Proof. reflexivity. Qed.

Lemma gen_ECmp c a ops rest n : gen F c (ECmp a ops rest) n =
  let r := n in let tb := S n in let endl := S (S n) in
  let '(ca, ra, n1) := gen F CVal a (S (S (S n))) in
  let m := mode_of c in
  let '(cc, n2) := gchain m r tb endl ra ops rest n1 in
  let code := ca ++ cc ++ [ILabel endl] in
  match m with
  | MVal => finish c (code, OTemp r, n2)
  | MBool => finish_bool c code tb n2
  end.
Proof. reflexivity. Qed.

Lemma gen_EMCall c mname o obj args n : gen F c (EMCall mname o obj args) n =
  let '(co, ro, n1) := gen F CVal obj n in
  if fx_mcall F then
    let '(ca, rs, n2) := gens F args (S n1) in
    finish c (co ++ [IOp n1 (OGetAttr mname) [ro]] ++ ca ++ [IOp n2 o (OTemp n1 :: rs)], OTemp n2, S n2)
  else
    let '(ca, rs, n2) := gens F args n1 in
    finish c (co ++ ca ++ [IOp n2 (OGetAttr mname) [ro]; IOp (S n2) o (OTemp n2 :: rs)], OTemp (S n2), S (S n2)).
Proof. reflexivity. Qed.

Lemma gen_EMinMax c o args n : gen F c (EMinMax o args) n =
  match args with
  | [] => finish c ([], ONoneC, n)
  | a0 :: rest =>
      let best := n in let tb := S n in
      if fx_minmax F then
        let '(c0, r0, n1) := gen F CVal a0 (S (S n)) in
        let '(cr, rs, n2) := gens F rest n1 in
        let '(cs, n3) := gscan o best tb rs n2 in
        finish c (c0 ++ cr ++ [IMove best r0] ++ cs, OTemp best, n3)
      else
        let '(cr, rs, n1) := gens F rest (S (S n)) in
        let '(c0, r0, n2) := gen F CVal a0 n1 in
        let '(cs, n3) := gscan o best tb rs n2 in
        finish c (cr ++ c0 ++ [IMove best r0] ++ cs, OTemp best, n3)
  end.
Proof. reflexivity. Qed.

Lemma gen_ECCall c o nreq ndecl recv npos names es n : gen F c (ECCall o nreq ndecl recv npos names es) n =
  ccall_code F c o nreq ndecl (gen F CVal recv) npos names (fun p => csimple F (nth p es ENone))
             (map (gen F CVal) es) n.
Proof. reflexivity. Qed.
End GenCopies.

(* ---------- the machine: composition and skipping ---------- *)
Section Proofs.
Variable S : sem.

Definition labels (c : list instr) : list nat :=
  flat_map (fun i => match i with ILabel l => [l] | _ => [] end) c.

Lemma labels_app c1 c2 : labels (c1 ++ c2) = labels c1 ++ labels c2.
Proof. apply flat_map_app. Qed.

Lemma run_app c1 : forall c2 st m,
  run S (c1 ++ c2) st m = let '(st', m') := run S c1 st m in run S c2 st' m'.
Proof.
  induction c1 as [|i c1 IH]; intros c2 st m; simpl; [reflexivity|].
  destruct m as [|l].
  - destruct (step S i st) as [st1 m1]. apply IH.
  - destruct i; try apply IH. destruct (Nat.eqb l l0); apply IH.
Qed.

Lemma run_skip c : forall st l, ~ In l (labels c) -> run S c st (Skip l) = (st, Skip l).
Proof.
  induction c as [|i c IH]; intros st l H; simpl; auto.
  destruct i; simpl in H; try (apply IH; exact H).
  destruct (Nat.eqb_spec l l0).
  - subst. exfalso. apply H. left. reflexivity.
  - apply IH. intro. apply H. right. assumption.
Qed.

Definition lab_in (n n' : nat) (c : list instr) : Prop := forall l, In l (labels c) -> n <= l < n'.

Lemma lab_in_app n n' c1 c2 : lab_in n n' c1 -> lab_in n n' c2 -> lab_in n n' (c1 ++ c2).
Proof. unfold lab_in. intros H1 H2 l. rewrite labels_app, in_app_iff. intros [H|H]; auto. Qed.

Lemma lab_in_weak n n' m m' c : lab_in n n' c -> m <= n -> n' <= m' -> lab_in m m' c.
Proof. unfold lab_in. intros H H1 H2 l Hl. specialize (H l Hl). lia. Qed.

Lemma lab_in_nil n n' c : labels c = [] -> lab_in n n' c.
Proof. unfold lab_in. intros -> l []. Qed.

Lemma lab_in_not n n' c l : lab_in n n' c -> l < n -> ~ In l (labels c).
Proof. unfold lab_in. intros H Hl Hin. specialize (H l Hin). lia. Qed.

(* ---------- frames ---------- *)
Definition ext (n : nat) (ex : option nat) (st st' : state) (evs : list event) (lfs : list nat) : Prop :=
  mvars st' = mvars st /\ trace st' = trace st ++ evs /\ leaflog st' = leaflog st ++ lfs /\
  forall t, t < n -> Some t <> ex -> temps st' t = temps st t.

Lemma ext_refl n ex st : ext n ex st st [] [].
Proof. unfold ext. rewrite !app_nil_r. auto. Qed.

Lemma ext_trans n n' ex st st1 st2 e1 e2 l1 l2 :
  ext n ex st st1 e1 l1 -> ext n' ex st1 st2 e2 l2 -> n <= n' -> ext n ex st st2 (e1 ++ e2) (l1 ++ l2).
Proof.
  unfold ext. intros (A1 & A2 & A3 & A4) (B1 & B2 & B3 & B4) Hn.
  repeat split; try congruence.
  - rewrite B2, A2, app_assoc. reflexivity.
  - rewrite B3, A3, app_assoc. reflexivity.
  - intros t Ht He. rewrite B4 by (auto; lia). auto.
Qed.

Lemma ext_step n n' ex st st1 st2 e1 e2 l1 :
  ext n ex st st1 e1 l1 -> ext n' ex st1 st2 e2 [] -> n <= n' -> ext n ex st st2 (e1 ++ e2) l1.
Proof. intros A B H. pose proof (ext_trans _ _ _ _ _ _ _ _ _ _ A B H) as X. rewrite app_nil_r in X. exact X. Qed.

Lemma ext_step0 n n' ex st st1 st2 e1 l1 :
  ext n ex st st1 e1 l1 -> ext n' ex st1 st2 [] [] -> n <= n' -> ext n ex st st2 e1 l1.
Proof. intros A B H. pose proof (ext_trans _ _ _ _ _ _ _ _ _ _ A B H) as X. rewrite !app_nil_r in X. exact X. Qed.

Lemma ext_none n ex st st' e l : ext n None st st' e l -> ext n ex st st' e l.
Proof. unfold ext. intros (A1 & A2 & A3 & A4). repeat split; auto. intros. apply A4; auto. discriminate. Qed.

Lemma ext_weak n n' ex st st' e l : ext n' ex st st' e l -> n <= n' -> ext n ex st st' e l.
Proof. unfold ext. intros (A1 & A2 & A3 & A4) H. repeat split; auto. intros. apply A4; auto. lia. Qed.

Lemma ext_set n ex st t v ev : n <= t \/ ex = Some t -> ext n ex st (set_temp st t v ev) ev [].
Proof.
  unfold ext, set_temp; simpl. intros H. rewrite app_nil_r. repeat split; auto.
  intros t' Ht He. unfold upd. destruct (Nat.eqb_spec t' t); auto. subst. destruct H; [lia|congruence].
Qed.

Lemma ext_set2 n res st v ev w : ext n (Some res) st (set_temp (set_temp st n v ev) res w []) ev [].
Proof.
  pose proof (ext_trans n n (Some res) st _ _ ev [] [] []
    (ext_set n (Some res) st n v ev (or_introl (le_n n)))
    (ext_set n (Some res) (set_temp st n v ev) res w [] (or_intror eq_refl)) (le_n n)) as H.
  rewrite app_nil_r in H. exact H.
Qed.

Definition opok (o : operand) (n : nat) : Prop := match o with OTemp t => t < n | _ => True end.

Definition oplo (o : operand) (n : nat) : Prop := match o with OTemp t => n <= t | _ => True end.

Lemma oplo_weak o n n' : oplo o n' -> n <= n' -> oplo o n.
Proof. destruct o; simpl; auto. lia. Qed.

Lemma opok_weak o n n' : opok o n -> n <= n' -> opok o n'.
Proof. destruct o; simpl; auto. lia. Qed.

Lemma getop_ext n ex st st' e l o :
  ext n ex st st' e l -> opok o n -> (forall t, o = OTemp t -> Some t <> ex) -> getop st' o = getop st o.
Proof.
  unfold ext. intros (A1 & A2 & A3 & A4) Ho Hx. destruct o; simpl in *; auto. congruence.
Qed.

Lemma getop_ext_none n st st' e l o : ext n None st st' e l -> opok o n -> getop st' o = getop st o.
Proof. intros. eapply getop_ext; eauto. discriminate. Qed.

(* ---------- specification of generated code ---------- *)
Definition outcome (andl orl : option nat) (endl : nat) (t : bool) : nat * bool :=
  match andl, orl with
  | None, None => (endl, true)
  | Some al, None => if t then (al, false) else (endl, true)
  | None, Some ol => if t then (endl, true) else (ol, false)
  | Some al, Some ol => if t then (al, false) else (ol, false)
  end.

Definition labeled (andl orl : option nat) : bool :=
  match andl, orl with None, None => false | _, _ => true end.

Definition wfctx (c : ctx) (n : nat) : Prop :=
  match c with
  | CThread _ res andl orl endl =>
      res < n /\ endl < n /\ (forall l, andl = Some l -> l < n) /\ (forall l, orl = Some l -> l < n)
  | _ => True
  end.

Definition specR (c : ctx) (R : (nat -> val) -> res) (n : nat) (g : gres) : Prop :=
  let '(code, ro, n') := g in
  n <= n' /\ lab_in n n' code /\
  match c with
  | CThread m res andl orl endl =>
      forall st, exists st',
        let r := R (mvars st) in
        let tv := truth_of S (rv r) (rk r) in
        let oc := outcome andl orl endl (fst tv) in
        run S code st Normal = (st', Skip (fst oc)) /\
        ext n (Some res) st st' (rev r ++ if labeled andl orl then snd tv else []) (rlf r) /\
        (snd oc = true -> temps st' res = rv r)
  | _ =>
      opok ro n' /\ oplo ro n /\ (c = CBool -> exists t, ro = OTemp t) /\
      forall st, exists st', let r := R (mvars st) in
        run S code st Normal = (st', Normal) /\ ext n None st st' (rev r) (rlf r) /\ getop st' ro = rv r
  end.

Lemma specR_ext c R R' n g : (forall vars, R vars = R' vars) -> specR c R n g -> specR c R' n g.
Proof.
  intros H. unfold specR. destruct g as [[code ro] n']. intros (A & B & C). split; [|split]; auto.
  destruct c; try (destruct C as (C1 & C1' & C2 & C3); repeat split; auto; intros st; rewrite <- H; apply C3).
  intros st. rewrite <- H. apply C.
Qed.

(* ---------- BoolBinopResultNode tails ---------- *)
Lemma tail_notest res andl orl endl t n :
  exists tail, thread_tail MBool res andl orl endl (OTemp t) n = (tail, n) /\ labels tail = [] /\
  forall st b, temps st t = VBool b ->
  exists st', run S tail st Normal = (st', Skip (fst (outcome andl orl endl b))) /\
    ext n (Some res) st st' [] [] /\ (snd (outcome andl orl endl b) = true -> temps st' res = VBool b).
Proof.
  destruct andl as [al|], orl as [ol|]; simpl; eexists; (split; [reflexivity|]); (split; [reflexivity|]);
    intros st b H; simpl; rewrite ?H; simpl; destruct b; simpl;
    first [ eexists; split; [reflexivity|]; split; [apply ext_refl | discriminate]
          | eexists; split; [reflexivity|]; split;
            [apply ext_set; auto | intros _; simpl; unfold upd; rewrite Nat.eqb_refl; reflexivity] ].
Qed.

Lemma tail_test res andl orl endl r n :
  opok r n -> res < n ->
  exists tail n2, thread_tail MVal res andl orl endl r n = (tail, n2) /\ n <= n2 /\ labels tail = [] /\
  forall st, let tv := truthsem S (getop st r) in
  exists st', run S tail st Normal = (st', Skip (fst (outcome andl orl endl (fst tv)))) /\
    ext n (Some res) st st' (if labeled andl orl then snd tv else []) [] /\
    (snd (outcome andl orl endl (fst tv)) = true -> temps st' res = getop st r).
Proof.
  intros Hr Hres.
  assert (G : forall st v ev, getop (set_temp st n v ev) r = getop st r).
  { intros. destruct r; simpl in *; auto. unfold upd. destruct (Nat.eqb_spec t n); auto. lia. }
  destruct andl as [al|], orl as [ol|]; simpl; do 2 eexists; (split; [reflexivity|]); (split; [lia|]);
    (split; [reflexivity|]); intros st; destruct (truthsem S (getop st r)) as [b ev] eqn:T;
    simpl; rewrite ?T; simpl; unfold upd; rewrite ?Nat.eqb_refl; simpl;
    destruct b; simpl; eexists; (split; [reflexivity|]); rewrite ?G; simpl.
  all: try (split; [apply ext_set; left; lia | discriminate]).
  all: (split; [| intros _; unfold upd; rewrite Nat.eqb_refl; reflexivity]).
  all: try apply ext_set2.
  all: try (apply ext_set; auto).
Qed.

Lemma wfctx_weak c n n' : wfctx c n -> n <= n' -> wfctx c n'.
Proof.
  destruct c; simpl; auto. intros (A & B & C & D) H. repeat split; try lia.
  - intros l Hl. specialize (C l Hl). lia.
  - intros l Hl. specialize (D l Hl). lia.
Qed.

(* a node that produced a plain value: code runs through, value in ro, truth not yet tested *)
Definition rawspec (R0 : (nat -> val) -> res) (n : nat) (g : gres) : Prop :=
  let '(code, ro, n') := g in
  n <= n' /\ lab_in n n' code /\ opok ro n' /\ oplo ro n /\
  forall st, exists st', let r := R0 (mvars st) in
    run S code st Normal = (st', Normal) /\ ext n None st st' (rev r) (rlf r) /\ getop st' ro = rv r /\
    rk r = None.

Lemma finish_ok c R0 n g :
  wfctx c n -> rawspec R0 n g -> specR c (fun vars => tobool S (mode_of c) (R0 vars)) n (finish c g).
Proof.
  intros W. destruct g as [[code ro] n']. intros (Hn & Hl & Ho & Hlo & Hrun).
  destruct c as [| |m res andl orl endl]; simpl.
  - (* CVal *)
    split; [lia|]. split; [auto|]. split; [auto|]. split; [auto|]. split; [discriminate|].
    intros st. destruct (Hrun st) as (st' & A & B & C & D). exists st'. auto.
  - (* CBool *)
    split; [lia|]. split.
    { apply lab_in_app; [eapply lab_in_weak; eauto | apply lab_in_nil; reflexivity]. }
    split; [lia|]. split; [simpl; lia|]. split; [eauto|].
    intros st. destruct (Hrun st) as (st' & A & B & C & D).
    rewrite run_app, A. simpl. rewrite C, D. simpl.
    destruct (truthsem S (rv (R0 (mvars st)))) as [t ev] eqn:T. simpl.
    eexists. split; [reflexivity|]. split.
    + eapply ext_step; [exact B | apply ext_set; left; apply le_n | auto].
    + simpl. unfold upd. rewrite Nat.eqb_refl. reflexivity.
  - (* CThread *)
    destruct W as (W1 & W2 & W3 & W4).
    destruct m; simpl.
    + (* value mode: test only when a label follows *)
      destruct (tail_test res andl orl endl ro n' Ho ltac:(lia)) as (tail & n2 & E & Hn2 & Lt & Ht).
      rewrite E. simpl. split; [lia|]. split.
      { apply lab_in_app; [eapply lab_in_weak; eauto | apply lab_in_nil; auto]. }
      intros st. destruct (Hrun st) as (st' & A & B & C & D).
      destruct (Ht st') as (st2 & A2 & B2 & C2). rewrite C in A2, B2, C2.
      exists st2. simpl. rewrite D. simpl. rewrite run_app, A. split; [exact A2|]. split.
      * eapply ext_step; [apply ext_none; exact B | exact B2 | auto].
      * exact C2.
    + destruct (tail_notest res andl orl endl n' (Datatypes.S n')) as (tail & E & Lt & Ht).
      rewrite E. simpl. split; [lia|]. split.
      { apply lab_in_app; [apply lab_in_app|]; [eapply lab_in_weak; eauto | apply lab_in_nil; auto | apply lab_in_nil; auto]. }
      intros st. destruct (Hrun st) as (st' & A & B & C & D).
      rewrite D. simpl.
      destruct (truthsem S (rv (R0 (mvars st)))) as [t ev] eqn:T. simpl.
      destruct (Ht (set_temp st' n' (VBool t) ev) t) as (st2 & A2 & B2 & C2).
      { simpl. unfold upd. rewrite Nat.eqb_refl. reflexivity. }
      exists st2. rewrite !run_app, A. simpl. rewrite C, T. split; [exact A2|]. split.
      * destruct (labeled andl orl); rewrite ?app_nil_r;
          (eapply ext_step0; [eapply ext_step; [apply ext_none; exact B | apply (ext_set n' (Some res) st' n'); left; apply le_n | auto] | exact B2 | lia]).
      * exact C2.
Qed.


(* a node that produced a C truth value in temp t (NotNode, comparison in boolean context) *)
Definition boolspec (R : (nat -> val) -> res) (n : nat) (code : list instr) (t n' : nat) : Prop :=
  n <= n' /\ lab_in n n' code /\ n <= t < n' /\
  forall st, exists st' b, let r := R (mvars st) in
    run S code st Normal = (st', Normal) /\ ext n None st st' (rev r) (rlf r) /\ temps st' t = VBool b /\
    rv r = VBool b /\ rk r = Some b.

Lemma finish_bool_ok c R n code t n' :
  wfctx c n -> boolspec R n code t n' -> specR c R n (finish_bool c code t n').
Proof.
  intros W (Hn & Hl & Ht & Hrun).
  destruct c as [| |m res andl orl endl]; simpl.
  - split; [lia|]. split; [auto|]. split; [simpl; lia|]. split; [simpl; lia|]. split; [discriminate|].
    intros st. destruct (Hrun st) as (st' & b & A & B & C & D & E). exists st'. simpl. rewrite C, D. auto.
  - split; [lia|]. split; [auto|]. split; [simpl; lia|]. split; [simpl; lia|]. split; [eauto|].
    intros st. destruct (Hrun st) as (st' & b & A & B & C & D & E). exists st'. simpl. rewrite C, D. auto.
  - destruct W as (W1 & W2 & W3 & W4).
    destruct (tail_notest res andl orl endl t n') as (tail & E & Lt & Htl).
    rewrite E. split; [lia|]. split.
    { apply lab_in_app; [auto | apply lab_in_nil; auto]. }
    intros st. destruct (Hrun st) as (st' & b & A & B & C & D & E2).
    destruct (Htl st' b C) as (st2 & A2 & B2 & C2).
    exists st2. simpl. rewrite D, E2. simpl. rewrite run_app, A. split; [exact A2|]. split.
    + destruct (labeled andl orl); rewrite ?app_nil_r;
        (eapply ext_step0; [apply ext_none; exact B | exact B2 | lia]).
    + exact C2.
Qed.

(* ---------- argument lists ---------- *)
Variable F : flags.

Definition gens_spec (es : list expr) (n : nat) (g : list instr * list operand * nat) : Prop :=
  let '(code, rs, n') := g in
  n <= n' /\ lab_in n n' code /\ Forall (fun o => opok o n') rs /\ Forall (fun o => oplo o n) rs /\
  forall st, exists st', let l := evals S (mvars st) es in
    run S code st Normal = (st', Normal) /\ ext n None st st' (flat_ev l) (flat_lf l) /\
    map (getop st') rs = map rv l.

Definition gen_ok_at (e : expr) : Prop :=
  forall c n, wfctx c n -> specR c (fun vars => eval S vars (mode_of c) e) n (gen F c e n).

Lemma gens_ok es : Forall gen_ok_at es -> forall n, gens_spec es n (gens F es n).
Proof.
  induction 1 as [|e es He Hes IH]; intros n; simpl.
  - split; [lia|]. split; [apply lab_in_nil; reflexivity|]. split; [constructor|]. split; [constructor|].
    intros st. exists st. simpl. split; [reflexivity|]. split; [apply ext_refl | reflexivity].
  - pose proof (He CVal n I) as H1. destruct (gen F CVal e n) as [[c1 r1] n1].
    destruct H1 as (A1 & L1 & O1 & Q1 & _ & R1).
    pose proof (IH n1) as H2. destruct (gens F es n1) as [[c2 rs] n2].
    destruct H2 as (A2 & L2 & O2 & Q2 & R2).
    split; [lia|]. split.
    { apply lab_in_app; eapply lab_in_weak; eauto; lia. }
    split.
    { constructor; [eapply opok_weak; eauto | auto]. }
    split.
    { constructor; [auto|]. eapply Forall_impl; [|exact Q2]. intros o Ho. simpl in Ho. eapply oplo_weak; [exact Ho | lia]. }
    intros st. destruct (R1 st) as (st1 & B1 & C1 & D1). destruct (R2 st1) as (st2 & B2 & C2 & D2).
    assert (V : mvars st1 = mvars st) by apply C1. rewrite V in *.
    exists st2. simpl. rewrite run_app, B1. split; [exact B2|]. split.
    + unfold flat_ev, flat_lf in *. simpl. eapply ext_trans; eauto.
    + simpl. f_equal; [|exact D2]. transitivity (getop st1 r1); [eapply getop_ext_none; eauto | exact D1].
Qed.


(* ---------- results in boolean mode are C truth values ---------- *)
Definition bshape (r : res) : Prop := exists b, rv r = VBool b /\ rk r = Some b.

Lemma tobool_shape r : bshape (tobool S MBool r).
Proof. unfold bshape, tobool. destruct (truth_of S (rv r) (rk r)) as [t ev]. simpl. eauto. Qed.

Lemma echain_cons vars m va o ops b es : echain S vars m va (o :: ops) (b :: es) =
  let rb := eval S vars MVal b in
  let '(r, ev1) := opsem S o [va; rv rb] in
  match ops, es, m with
  | _ :: _, _ :: _, _ =>
      let '(t, ev2) := truthsem S r in
      if t then
        let rc := echain S vars m (rv rb) ops es in
        {| rv := rv rc; rk := rk rc; rev := rev rb ++ ev1 ++ ev2 ++ rev rc; rlf := rlf rb ++ rlf rc |}
      else {| rv := match m with MVal => r | MBool => VBool false end;
              rk := match m with MVal => None | MBool => Some false end;
              rev := rev rb ++ ev1 ++ ev2; rlf := rlf rb |}
  | _, _, MVal => {| rv := r; rk := None; rev := rev rb ++ ev1; rlf := rlf rb |}
  | _, _, MBool =>
      let '(t, ev2) := truthsem S r in
      {| rv := VBool t; rk := Some t; rev := rev rb ++ ev1 ++ ev2; rlf := rlf rb |}
  end.
Proof. reflexivity. Qed.

Lemma echain_shape vars : forall es va ops, bshape (echain S vars MBool va ops es).
Proof.
  unfold bshape. induction es as [|b es IH]; intros va ops; destruct ops as [|o ops];
    try (simpl; destruct (truthsem S VNone); simpl; eauto; fail).
  rewrite echain_cons. cbv zeta.
  destruct (opsem S o [va; rv (eval S vars MVal b)]) as [r ev1].
  destruct ops as [|o2 ops]; [destruct (truthsem S r); cbn [rv rk]; eauto|].
  destruct es as [|b2 es]; [destruct (truthsem S r); cbn [rv rk]; eauto|].
  destruct (truthsem S r) as [t ev2]. destruct t; cbn [rv rk]; eauto.
Qed.

Ltac shape := unfold bshape, tobool, truth_of; simpl;
  repeat match goal with |- context [let '(_, _) := ?p in _] => destruct p end; simpl; eauto.

Lemma eval_shape vars e : bshape (eval S vars MBool e).
Proof.
  induction e.
  - shape.
  - shape.
  - shape.
  - rewrite eval_EOp. shape.
  - shape.
  - simpl. destruct IHe1 as (b1 & A1 & B1). rewrite A1, B1. simpl. destruct b1; simpl; [exact IHe2|]. shape.
  - simpl. destruct IHe1 as (b1 & A1 & B1). rewrite A1, B1. simpl. destruct b1; simpl; [|exact IHe2]. shape.
  - shape.
  - rewrite eval_ECmp. destruct (echain_shape vars rest (rv (eval S vars MVal e)) ops) as (b & A & B).
    unfold bshape. cbn [rv rk]. eauto.
  - rewrite eval_EMCall. shape.
  - rewrite eval_EMinMax. cbv zeta. destruct (map rv (evals S vars args)); [shape|].
    destruct (rscan S o v l). shape.
  - rewrite eval_ECCall. shape.
Qed.


(* ---------- the nodes ---------- *)
Lemma ext_fresh n st t v ev lf :
  n <= t ->
  ext n None st {| temps := upd (temps st) t v; mvars := mvars st; trace := trace st ++ ev;
                   leaflog := leaflog st ++ lf |} ev lf.
Proof.
  intros H. unfold ext; simpl. repeat split; auto.
  intros t' Ht _. unfold upd. destruct (Nat.eqb_spec t' t); auto. lia.
Qed.

Lemma gen_leaf kind k : gen_ok_at (ELeaf kind k).
Proof.
  intros c n W.
  eapply specR_ext with (R := fun vars => tobool S (mode_of c)
     {| rv := fst (leafsem S kind k); rk := None; rev := snd (leafsem S kind k); rlf := [k] |}).
  { intros vars. simpl. unfold tobool. destruct (leafsem S kind k). reflexivity. }
  change (gen F c (ELeaf kind k) n) with (finish c ([ILeaf n kind k], OTemp n, Datatypes.S n)).
  apply (finish_ok c (fun _ => {| rv := fst (leafsem S kind k); rk := None; rev := snd (leafsem S kind k); rlf := [k] |})); auto.
  split; [lia|]. split; [apply lab_in_nil; reflexivity|]. split; [simpl; lia|]. split; [simpl; lia|].
  intros st. simpl. destruct (leafsem S kind k) as [v ev]. eexists. split; [reflexivity|]. simpl.
  split; [apply ext_fresh; lia|]. split; [|reflexivity]. unfold upd. rewrite Nat.eqb_refl. reflexivity.
Qed.

Lemma gen_name x : gen_ok_at (EName x).
Proof.
  intros c n W.
  eapply specR_ext with (R := fun vars => tobool S (mode_of c) {| rv := vars x; rk := None; rev := []; rlf := [] |}).
  { intros vars. reflexivity. }
  change (gen F c (EName x) n) with (finish c ([], OVar x, n)).
  apply (finish_ok c (fun vars => {| rv := vars x; rk := None; rev := []; rlf := [] |})); auto.
  split; [lia|]. split; [apply lab_in_nil; reflexivity|]. split; [simpl; auto|]. split; [simpl; auto|].
  intros st. exists st. simpl. split; [reflexivity|]. split; [apply ext_refl|]. auto.
Qed.

Lemma gen_none : gen_ok_at ENone.
Proof.
  intros c n W.
  eapply specR_ext with (R := fun vars => tobool S (mode_of c) {| rv := VNone; rk := None; rev := []; rlf := [] |}).
  { intros vars. reflexivity. }
  change (gen F c ENone n) with (finish c ([], ONoneC, n)).
  apply (finish_ok c (fun vars => {| rv := VNone; rk := None; rev := []; rlf := [] |})); auto.
  split; [lia|]. split; [apply lab_in_nil; reflexivity|]. split; [simpl; auto|]. split; [simpl; auto|].
  intros st. exists st. simpl. split; [reflexivity|]. split; [apply ext_refl|]. auto.
Qed.

Definition raw_op (o : op) (l : list res) : res :=
  {| rv := fst (opsem S o (map rv l)); rk := None; rev := flat_ev l ++ snd (opsem S o (map rv l)); rlf := flat_lf l |}.

Lemma gen_op o es : Forall gen_ok_at es -> gen_ok_at (EOp o es).
Proof.
  intros Hes c n W.
  eapply specR_ext with (R := fun vars => tobool S (mode_of c) (raw_op o (evals S vars es))).
  { intros vars. rewrite eval_EOp. unfold raw_op. cbv zeta. destruct (opsem S o _). reflexivity. }
  rewrite gen_EOp. pose proof (gens_ok es Hes n) as G. destruct (gens F es n) as [[code rs] n1].
  destruct G as (A & L & O & Q & R).
  apply (finish_ok c (fun vars => raw_op o (evals S vars es))); auto.
  split; [lia|]. split.
  { apply lab_in_app; [eapply lab_in_weak; eauto | apply lab_in_nil; reflexivity]. }
  split; [simpl; lia|]. split; [simpl; lia|].
  intros st. destruct (R st) as (st1 & B1 & C1 & D1).
  rewrite run_app, B1. simpl. rewrite D1. unfold raw_op. simpl.
  destruct (opsem S o (map rv (evals S (mvars st) es))) as [v ev]. simpl.
  eexists. split; [reflexivity|]. split.
  - eapply ext_step; [exact C1 | apply ext_set; left; apply le_n | auto].
  - split; [|reflexivity]. simpl. unfold upd. rewrite Nat.eqb_refl. reflexivity.
Qed.

Lemma gen_not a : gen_ok_at a -> gen_ok_at (ENot a).
Proof.
  intros Ha c n W.
  assert (E : forall m vars, eval S vars m (ENot a) =
     let ra := eval S vars MBool a in
     let t := match rk ra with Some t => negb t | None => false end in
     {| rv := VBool t; rk := Some t; rev := rev ra; rlf := rlf ra |}) by (intros; reflexivity).
  change (gen F c (ENot a) n) with
    (let '(ca, ra, n1) := gen F CBool a n in
     let t := match ra with OTemp t => t | _ => 0 end in
     finish_bool c (ca ++ [INot n1 t]) n1 (Datatypes.S n1)).
  pose proof (Ha CBool n I) as H. destruct (gen F CBool a n) as [[ca ra] n1].
  destruct H as (A & L & O & Q & (t & ->) & R); [reflexivity|]. simpl in O, Q.
  apply finish_bool_ok; auto.
  split; [lia|]. split.
  { apply lab_in_app; [eapply lab_in_weak; eauto | apply lab_in_nil; reflexivity]. }
  split; [lia|].
  intros st. destruct (R st) as (st1 & B1 & C1 & D1). simpl in D1.
  destruct (eval_shape (mvars st) a) as (b & S1 & S2).
  exists (set_temp st1 n1 (VBool (negb b)) []), (negb b).
  rewrite E. cbv zeta. rewrite S2. cbn [rv rk rev rlf].
  rewrite run_app, B1. simpl. rewrite D1, S1. simpl.
  split; [reflexivity|]. split.
  - eapply ext_step0; [exact C1 | apply ext_set; left; apply le_n | auto].
  - unfold upd. rewrite Nat.eqb_refl. auto.
Qed.


Lemma run_label_hit l c st : run S (ILabel l :: c) st (Skip l) = run S c st Normal.
Proof. simpl. rewrite Nat.eqb_refl. reflexivity. Qed.

Lemma run_label_miss l l' c st : l <> l' -> run S (ILabel l' :: c) st (Skip l) = run S c st (Skip l).
Proof. intros H. simpl. destruct (Nat.eqb_spec l l'); [contradiction|reflexivity]. Qed.

Lemma lab_in_label n n' l : n <= l < n' -> lab_in n n' [ILabel l].
Proof. unfold lab_in. simpl. intros H l' [<-|[]]. exact H. Qed.

Lemma skip_rest ca my cb st st1 l :
  run S ca st Normal = (st1, Skip l) -> l <> my -> ~ In l (labels cb) ->
  run S (ca ++ ILabel my :: cb) st Normal = (st1, Skip l).
Proof.
  intros H H1 H2. rewrite run_app, H.
  rewrite run_label_miss by auto. apply run_skip. auto.
Qed.

Lemma and_thread a b m res andl orl endl n :
  gen_ok_at a -> gen_ok_at b -> wfctx (CThread m res andl orl endl) n ->
  specR (CThread m res andl orl endl) (fun vars => eval S vars m (EAnd a b)) n
    (let my := n in
     let '(ca, _, n1) := gen F (CThread m res (Some my) orl endl) a (Datatypes.S n) in
     let '(cb, _, n2) := gen F (CThread m res andl orl endl) b n1 in
     (ca ++ [ILabel my] ++ cb, OTemp res, n2)).
Proof.
  intros Ha Hb W. cbv zeta.
  assert (W1 : wfctx (CThread m res (Some n) orl endl) (Datatypes.S n)).
  { destruct W as (W1 & W2 & W3 & W4). simpl. repeat split; try lia.
    - intros l [= <-]. lia.
    - intros l Hl. specialize (W4 l Hl). lia. }
  pose proof (Ha _ _ W1) as H1. destruct (gen F (CThread m res (Some n) orl endl) a (Datatypes.S n)) as [[ca ra] n1].
  destruct H1 as (A1 & L1 & R1).
  assert (W2 : wfctx (CThread m res andl orl endl) n1) by (eapply wfctx_weak; eauto; lia).
  pose proof (Hb _ _ W2) as H2. destruct (gen F (CThread m res andl orl endl) b n1) as [[cb rb] n2].
  destruct H2 as (A2 & L2 & R2).
  split; [lia|]. split.
  { apply lab_in_app; [eapply lab_in_weak; eauto; lia|].
    apply lab_in_app; [apply lab_in_label; lia | eapply lab_in_weak; eauto; lia]. }
  intros st. destruct (R1 st) as (st1 & B1 & C1 & D1). simpl in B1, C1, D1.
  assert (V : mvars st1 = mvars st) by apply C1.
  simpl.
  destruct (truth_of S (rv (eval S (mvars st) m a)) (rk (eval S (mvars st) m a))) as [t ev] eqn:T.
  simpl in B1, C1, D1.
  destruct t.
  - (* left operand true: continue with b *)
    assert (B1' : run S ca st Normal = (st1, Skip n)) by (destruct orl; exact B1).
    destruct (R2 st1) as (st2 & B2 & C2 & D2). rewrite V in B2, C2, D2. simpl in B2, C2, D2.
    exists st2. cbn [rv rk rev rlf].
    rewrite run_app, B1'. change ([ILabel n] ++ cb) with (ILabel n :: cb). rewrite run_label_hit.
    split; [exact B2|]. split; [|exact D2].
    eapply ext_weak with (n' := Datatypes.S n); [|lia].
    pose proof (ext_trans _ _ _ _ _ _ _ _ _ _ C1 C2 A1) as X.
    rewrite <- !app_assoc in X. rewrite <- !app_assoc. exact X.
  - (* left operand false: its value is the result, or jump to the next or *)
    exists st1. cbn [rv rk rev rlf truth_of fst snd].
    destruct W as (Wa & Wb & Wc & Wd).
    destruct orl as [ol|]; simpl in B1, C1, D1.
    + assert (ol < n) by (apply Wd; reflexivity).
      rewrite (skip_rest ca n cb st st1 ol B1) by (try lia; eapply lab_in_not; eauto; lia).
      destruct andl; simpl; (split; [reflexivity|]); (split; [|discriminate]);
        rewrite !app_nil_r; (eapply ext_weak; [exact C1 | lia]).
    + rewrite (skip_rest ca n cb st st1 endl B1) by (try lia; eapply lab_in_not; eauto; lia).
      destruct andl; simpl; (split; [reflexivity|]); (split; [|exact D1]);
        rewrite !app_nil_r; (eapply ext_weak; [exact C1 | lia]).
Qed.


Lemma or_thread a b m res andl orl endl n :
  gen_ok_at a -> gen_ok_at b -> wfctx (CThread m res andl orl endl) n ->
  specR (CThread m res andl orl endl) (fun vars => eval S vars m (EOr a b)) n
    (let my := n in
     let '(ca, _, n1) := gen F (CThread m res andl (Some my) endl) a (Datatypes.S n) in
     let '(cb, _, n2) := gen F (CThread m res andl orl endl) b n1 in
     (ca ++ [ILabel my] ++ cb, OTemp res, n2)).
Proof.
  intros Ha Hb W. cbv zeta.
  assert (W1 : wfctx (CThread m res andl (Some n) endl) (Datatypes.S n)).
  { destruct W as (W1 & W2 & W3 & W4). simpl. repeat split; try lia.
    - intros l Hl. specialize (W3 l Hl). lia.
    - intros l [= <-]. lia. }
  pose proof (Ha _ _ W1) as H1. destruct (gen F (CThread m res andl (Some n) endl) a (Datatypes.S n)) as [[ca ra] n1].
  destruct H1 as (A1 & L1 & R1).
  assert (W2 : wfctx (CThread m res andl orl endl) n1) by (eapply wfctx_weak; eauto; lia).
  pose proof (Hb _ _ W2) as H2. destruct (gen F (CThread m res andl orl endl) b n1) as [[cb rb] n2].
  destruct H2 as (A2 & L2 & R2).
  split; [lia|]. split.
  { apply lab_in_app; [eapply lab_in_weak; eauto; lia|].
    apply lab_in_app; [apply lab_in_label; lia | eapply lab_in_weak; eauto; lia]. }
  intros st. destruct (R1 st) as (st1 & B1 & C1 & D1). simpl in B1, C1, D1.
  assert (V : mvars st1 = mvars st) by apply C1.
  simpl.
  destruct (truth_of S (rv (eval S (mvars st) m a)) (rk (eval S (mvars st) m a))) as [t ev] eqn:T.
  simpl in B1, C1, D1.
  destruct t.
  - exists st1. cbn [rv rk rev rlf truth_of fst snd].
    destruct W as (Wa & Wb & Wc & Wd).
    destruct andl as [al|]; simpl in B1, C1, D1.
    + assert (al < n) by (apply Wc; reflexivity).
      rewrite (skip_rest ca n cb st st1 al B1) by (try lia; eapply lab_in_not; eauto; lia).
      destruct orl; simpl; (split; [reflexivity|]); (split; [|discriminate]);
        rewrite !app_nil_r; (eapply ext_weak; [exact C1 | lia]).
    + rewrite (skip_rest ca n cb st st1 endl B1) by (try lia; eapply lab_in_not; eauto; lia).
      destruct orl; simpl; (split; [reflexivity|]); (split; [|exact D1]);
        rewrite !app_nil_r; (eapply ext_weak; [exact C1 | lia]).
  - assert (B1' : run S ca st Normal = (st1, Skip n)) by (destruct andl; exact B1).
    assert (C1' : ext (Datatypes.S n) (Some res) st st1 (rev (eval S (mvars st) m a) ++ ev) (rlf (eval S (mvars st) m a)))
      by (destruct andl; exact C1).
    destruct (R2 st1) as (st2 & B2 & C2 & D2). rewrite V in B2, C2, D2. simpl in B2, C2, D2.
    exists st2. cbn [rv rk rev rlf].
    rewrite run_app, B1'. rewrite run_label_hit.
    split; [exact B2|]. split; [|exact D2].
    eapply ext_weak with (n' := Datatypes.S n); [|lia].
    pose proof (ext_trans _ _ _ _ _ _ _ _ _ _ C1' C2 A1) as X.
    rewrite <- !app_assoc in X. rewrite <- !app_assoc. exact X.
Qed.


Lemma thread_top c R n code ro n2 :
  (match c with CThread _ _ _ _ _ => False | _ => True end) ->
  specR (CThread (mode_of c) n None None (Datatypes.S n)) R (Datatypes.S (Datatypes.S n)) (code, ro, n2) ->
  specR c R n (code ++ [ILabel (Datatypes.S n)], OTemp n, n2).
Proof.
  intros Hc (A & L & R1).
  assert (X : n <= n2 /\ lab_in n n2 (code ++ [ILabel (Datatypes.S n)]) /\ opok (OTemp n) n2 /\ oplo (OTemp n) n /\
              forall st, exists st', let r := R (mvars st) in
                run S (code ++ [ILabel (Datatypes.S n)]) st Normal = (st', Normal) /\
                ext n None st st' (rev r) (rlf r) /\ getop st' (OTemp n) = rv r).
  { split; [lia|]. split.
    { apply lab_in_app; [eapply lab_in_weak; eauto; lia | apply lab_in_label; lia]. }
    split; [simpl; lia|]. split; [simpl; lia|].
    intros st. destruct (R1 st) as (st1 & B1 & C1 & D1). simpl in B1, C1, D1.
    exists st1. cbv zeta. rewrite run_app, B1. rewrite run_label_hit. simpl.
    split; [reflexivity|]. split; [|apply D1; reflexivity].
    rewrite app_nil_r in C1. destruct C1 as (E1 & E2 & E3 & E4).
    repeat split; auto. intros t Ht _. apply E4; [lia|]. intros [= ->]. lia. }
  destruct X as (X1 & X2 & X3 & X3' & X4).
  destruct c; try contradiction; simpl; (split; [exact X1|]); (split; [exact X2|]); (split; [exact X3|]);
    (split; [exact X3'|]); (split; [first [discriminate | eauto]|]); exact X4.
Qed.

Lemma gen_and a b : gen_ok_at a -> gen_ok_at b -> gen_ok_at (EAnd a b).
Proof.
  intros Ha Hb c n W.
  destruct c as [| |m res andl orl endl].
  - pose proof (and_thread a b MVal n None None (Datatypes.S n) (Datatypes.S (Datatypes.S n)) Ha Hb) as H.
    cbv zeta in H. change (gen F CVal (EAnd a b) n) with
      (let '(ca, _, n1) := gen F (CThread MVal n (Some (Datatypes.S (Datatypes.S n))) None (Datatypes.S n)) a (Datatypes.S (Datatypes.S (Datatypes.S n))) in
       let '(cb, _, n2) := gen F (CThread MVal n None None (Datatypes.S n)) b n1 in
       (ca ++ [ILabel (Datatypes.S (Datatypes.S n))] ++ cb ++ [ILabel (Datatypes.S n)], OTemp n, n2)).
    destruct (gen F (CThread MVal n (Some (Datatypes.S (Datatypes.S n))) None (Datatypes.S n)) a _) as [[ca ra] n1].
    destruct (gen F (CThread MVal n None None (Datatypes.S n)) b n1) as [[cb rb] n2].
    replace (ca ++ [ILabel (Datatypes.S (Datatypes.S n))] ++ cb ++ [ILabel (Datatypes.S n)])
      with ((ca ++ [ILabel (Datatypes.S (Datatypes.S n))] ++ cb) ++ [ILabel (Datatypes.S n)])
      by (rewrite <- !app_assoc; reflexivity).
    apply (thread_top CVal) with (ro := OTemp n); [exact I|]. apply H. simpl. repeat split; try lia; discriminate.
  - pose proof (and_thread a b MBool n None None (Datatypes.S n) (Datatypes.S (Datatypes.S n)) Ha Hb) as H.
    cbv zeta in H. change (gen F CBool (EAnd a b) n) with
      (let '(ca, _, n1) := gen F (CThread MBool n (Some (Datatypes.S (Datatypes.S n))) None (Datatypes.S n)) a (Datatypes.S (Datatypes.S (Datatypes.S n))) in
       let '(cb, _, n2) := gen F (CThread MBool n None None (Datatypes.S n)) b n1 in
       (ca ++ [ILabel (Datatypes.S (Datatypes.S n))] ++ cb ++ [ILabel (Datatypes.S n)], OTemp n, n2)).
    destruct (gen F (CThread MBool n (Some (Datatypes.S (Datatypes.S n))) None (Datatypes.S n)) a _) as [[ca ra] n1].
    destruct (gen F (CThread MBool n None None (Datatypes.S n)) b n1) as [[cb rb] n2].
    replace (ca ++ [ILabel (Datatypes.S (Datatypes.S n))] ++ cb ++ [ILabel (Datatypes.S n)])
      with ((ca ++ [ILabel (Datatypes.S (Datatypes.S n))] ++ cb) ++ [ILabel (Datatypes.S n)])
      by (rewrite <- !app_assoc; reflexivity).
    apply (thread_top CBool) with (ro := OTemp n); [exact I|]. apply H. simpl. repeat split; try lia; discriminate.
  - apply (and_thread a b m res andl orl endl n Ha Hb W).
Qed.

Lemma gen_or a b : gen_ok_at a -> gen_ok_at b -> gen_ok_at (EOr a b).
Proof.
  intros Ha Hb c n W.
  destruct c as [| |m res andl orl endl].
  - pose proof (or_thread a b MVal n None None (Datatypes.S n) (Datatypes.S (Datatypes.S n)) Ha Hb) as H.
    cbv zeta in H. change (gen F CVal (EOr a b) n) with
      (let '(ca, _, n1) := gen F (CThread MVal n None (Some (Datatypes.S (Datatypes.S n))) (Datatypes.S n)) a (Datatypes.S (Datatypes.S (Datatypes.S n))) in
       let '(cb, _, n2) := gen F (CThread MVal n None None (Datatypes.S n)) b n1 in
       (ca ++ [ILabel (Datatypes.S (Datatypes.S n))] ++ cb ++ [ILabel (Datatypes.S n)], OTemp n, n2)).
    destruct (gen F (CThread MVal n None (Some (Datatypes.S (Datatypes.S n))) (Datatypes.S n)) a _) as [[ca ra] n1].
    destruct (gen F (CThread MVal n None None (Datatypes.S n)) b n1) as [[cb rb] n2].
    replace (ca ++ [ILabel (Datatypes.S (Datatypes.S n))] ++ cb ++ [ILabel (Datatypes.S n)])
      with ((ca ++ [ILabel (Datatypes.S (Datatypes.S n))] ++ cb) ++ [ILabel (Datatypes.S n)])
      by (rewrite <- !app_assoc; reflexivity).
    apply (thread_top CVal) with (ro := OTemp n); [exact I|]. apply H. simpl. repeat split; try lia; discriminate.
  - pose proof (or_thread a b MBool n None None (Datatypes.S n) (Datatypes.S (Datatypes.S n)) Ha Hb) as H.
    cbv zeta in H. change (gen F CBool (EOr a b) n) with
      (let '(ca, _, n1) := gen F (CThread MBool n None (Some (Datatypes.S (Datatypes.S n))) (Datatypes.S n)) a (Datatypes.S (Datatypes.S (Datatypes.S n))) in
       let '(cb, _, n2) := gen F (CThread MBool n None None (Datatypes.S n)) b n1 in
       (ca ++ [ILabel (Datatypes.S (Datatypes.S n))] ++ cb ++ [ILabel (Datatypes.S n)], OTemp n, n2)).
    destruct (gen F (CThread MBool n None (Some (Datatypes.S (Datatypes.S n))) (Datatypes.S n)) a _) as [[ca ra] n1].
    destruct (gen F (CThread MBool n None None (Datatypes.S n)) b n1) as [[cb rb] n2].
    replace (ca ++ [ILabel (Datatypes.S (Datatypes.S n))] ++ cb ++ [ILabel (Datatypes.S n)])
      with ((ca ++ [ILabel (Datatypes.S (Datatypes.S n))] ++ cb) ++ [ILabel (Datatypes.S n)])
      by (rewrite <- !app_assoc; reflexivity).
    apply (thread_top CBool) with (ro := OTemp n); [exact I|]. apply H. simpl. repeat split; try lia; discriminate.
  - apply (or_thread a b m res andl orl endl n Ha Hb W).
Qed.


Definition raw_cond (vars : nat -> val) (c a b : expr) : res :=
  let rc := eval S vars MBool c in
  let t := match rk rc with Some t => t | None => false end in
  let rx := if t then eval S vars MVal a else eval S vars MVal b in
  {| rv := rv rx; rk := None; rev := rev rc ++ rev rx; rlf := rlf rc ++ rlf rx |}.

Lemma eqb_SSn_Sn n : Nat.eqb (Datatypes.S (Datatypes.S n)) (Datatypes.S n) = false.
Proof. apply Nat.eqb_neq. lia. Qed.

Lemma gen_cond cnd a b : gen_ok_at cnd -> gen_ok_at a -> gen_ok_at b -> gen_ok_at (ECond cnd a b).
Proof.
  intros Hc Ha Hb c n W.
  eapply specR_ext with (R := fun vars => tobool S (mode_of c) (raw_cond vars cnd a b)).
  { intros vars. reflexivity. }
  change (gen F c (ECond cnd a b) n) with
    (let res := n in let lelse := Datatypes.S n in let lend := Datatypes.S (Datatypes.S n) in
     let '(cc, rc, n1) := gen F CBool cnd (Datatypes.S (Datatypes.S (Datatypes.S n))) in
     let t := match rc with OTemp t => t | _ => 0 end in
     let '(ca, ra, n2) := gen F CVal a n1 in
     let '(cb, rb, n3) := gen F CVal b n2 in
     finish c (cc ++ [IJumpIf t false lelse] ++ ca ++ [IMove res ra; IGoto lend; ILabel lelse]
                  ++ cb ++ [IMove res rb; ILabel lend], OTemp res, n3)).
  cbv zeta.
  pose proof (Hc CBool (Datatypes.S (Datatypes.S (Datatypes.S n))) I) as H1.
  destruct (gen F CBool cnd _) as [[cc rc] n1]. destruct H1 as (A1 & L1 & O1 & Q1 & (t & ->) & R1); [reflexivity|].
  pose proof (Ha CVal n1 I) as H2. destruct (gen F CVal a n1) as [[ca ra] n2]. destruct H2 as (A2 & L2 & O2 & Q2 & _ & R2).
  pose proof (Hb CVal n2 I) as H3. destruct (gen F CVal b n2) as [[cb rb] n3]. destruct H3 as (A3 & L3 & O3 & Q3 & _ & R3).
  apply (finish_ok c (fun vars => raw_cond vars cnd a b)); auto.
  split; [lia|]. split.
  { repeat apply lab_in_app; try (eapply lab_in_weak; eauto; lia);
      try (apply lab_in_nil; reflexivity).
    - unfold lab_in. simpl. intros l [<-|[]]. lia.
    - unfold lab_in. simpl. intros l [<-|[]]. lia. }
  split; [simpl; lia|]. split; [simpl; lia|].
  intros st. destruct (R1 st) as (st1 & B1 & C1 & D1). simpl in D1, O1.
  destruct (eval_shape (mvars st) cnd) as (bb & S1 & S2).
  assert (V1 : mvars st1 = mvars st) by apply C1.
  unfold raw_cond. cbv zeta. rewrite S2.
  rewrite run_app, B1. simpl. rewrite D1, S1. simpl.
  destruct bb; simpl.
  - destruct (R2 st1) as (st2 & B2 & C2 & D2). rewrite V1 in C2, D2. simpl in C2, D2.
    rewrite run_app, B2. simpl.
    assert (Q : match n with 0 => false | Datatypes.S m' => n =? m' end = false)
      by (destruct n; [reflexivity | apply Nat.eqb_neq; lia]).
    rewrite Q.
    rewrite run_app, run_skip by (eapply lab_in_not; eauto; lia). simpl. rewrite Nat.eqb_refl.
    eexists. split; [reflexivity|]. split.
    + eapply ext_step0; [eapply ext_trans; [eapply ext_weak; [exact C1 | lia] | exact C2 | lia] | apply (ext_set n None); left; apply le_n | lia].
    + split; [|reflexivity]. simpl. unfold upd. rewrite Nat.eqb_refl. exact D2.
  - rewrite run_app, run_skip by (eapply lab_in_not; eauto; lia). simpl. rewrite Nat.eqb_refl.
    destruct (R3 st1) as (st2 & B2 & C2 & D2). rewrite V1 in C2, D2. simpl in C2, D2.
    rewrite run_app, B2. simpl.
    eexists. split; [reflexivity|]. split.
    + eapply ext_step0; [eapply ext_trans; [eapply ext_weak; [exact C1 | lia] | exact C2 | lia] | apply (ext_set n None); left; apply le_n | lia].
    + split; [|reflexivity]. simpl. unfold upd. rewrite Nat.eqb_refl. exact D2.
Qed.


Definition raw_mcall (vars : nat -> val) (mname : nat) (o : op) (obj : expr) (args : list expr) : res :=
  let ro := eval S vars MVal obj in
  let p1 := opsem S (OGetAttr mname) [rv ro] in
  let rs := evals S vars args in
  let p2 := opsem S o (fst p1 :: map rv rs) in
  {| rv := fst p2; rk := None; rev := rev ro ++ snd p1 ++ flat_ev rs ++ snd p2; rlf := rlf ro ++ flat_lf rs |}.

Lemma gen_mcall mname o obj args :
  fx_mcall F = true -> gen_ok_at obj -> Forall gen_ok_at args -> gen_ok_at (EMCall mname o obj args).
Proof.
  intros Hf Ho Hargs c n W.
  eapply specR_ext with (R := fun vars => tobool S (mode_of c) (raw_mcall vars mname o obj args)).
  { intros vars. rewrite eval_EMCall. unfold raw_mcall. cbv zeta.
    destruct (opsem S (OGetAttr mname) _). simpl. destruct (opsem S o _). reflexivity. }
  rewrite gen_EMCall, Hf.
  pose proof (Ho CVal n I) as H1. destruct (gen F CVal obj n) as [[co ro] n1]. destruct H1 as (A1 & L1 & O1 & Q1 & _ & R1).
  pose proof (gens_ok args Hargs (Datatypes.S n1)) as G. destruct (gens F args (Datatypes.S n1)) as [[ca rs] n2].
  destruct G as (A2 & L2 & O2 & Q2 & R2).
  apply (finish_ok c (fun vars => raw_mcall vars mname o obj args)); auto.
  split; [lia|]. split.
  { repeat apply lab_in_app; try (eapply lab_in_weak; eauto; lia); apply lab_in_nil; reflexivity. }
  split; [simpl; lia|]. split; [simpl; lia|].
  intros st. destruct (R1 st) as (st1 & B1 & C1 & D1). simpl in D1.
  assert (V1 : mvars st1 = mvars st) by apply C1.
  unfold raw_mcall. cbv zeta.
  rewrite run_app, B1. simpl. rewrite D1.
  destruct (opsem S (OGetAttr mname) [rv (eval S (mvars st) MVal obj)]) as [f ev1] eqn:E1. simpl.
  destruct (R2 (set_temp st1 n1 f ev1)) as (st3 & B3 & C3 & D3). simpl in C3, D3. rewrite V1 in C3, D3.
  rewrite run_app, B3. simpl. rewrite D3.
  assert (T1 : temps st3 n1 = f).
  { destruct C3 as (_ & _ & _ & X). rewrite X by (try lia; discriminate). simpl. unfold upd. rewrite Nat.eqb_refl. reflexivity. }
  rewrite T1.
  destruct (opsem S o (f :: map rv (evals S (mvars st) args))) as [v ev2] eqn:E2. simpl.
  eexists. split; [reflexivity|]. split.
  - pose proof (ext_step _ _ _ _ _ _ _ _ _ C1 (ext_set n1 None st1 n1 f ev1 (or_introl (le_n n1))) A1) as X1.
    pose proof (ext_trans _ _ _ _ _ _ _ _ _ _ X1 C3 ltac:(lia)) as X2.
    pose proof (ext_step _ _ _ _ _ _ _ _ _ X2 (ext_set n2 None st3 n2 v ev2 (or_introl (le_n n2))) ltac:(lia)) as X3.
    rewrite <- !app_assoc in X3. exact X3.
  - split; [|reflexivity]. simpl. unfold upd. rewrite Nat.eqb_refl. reflexivity.
Qed.


Definition avoids (r : operand) (a b : nat) : Prop := forall t, r = OTemp t -> t <> a /\ t <> b.

Lemma getop_upd_avoid st r a b t v ev : avoids r a b -> (t = a \/ t = b) ->
  getop (set_temp st t v ev) r = getop st r.
Proof.
  intros H Ht. destruct r; simpl; auto. unfold upd. destruct (Nat.eqb_spec t0 t); auto.
  subst. destruct (H t eq_refl). destruct Ht; congruence.
Qed.

Lemma gscan_ok o best tb : best <> tb ->
  forall rs l st, best < l -> tb < l -> Forall (fun r => avoids r best tb) rs ->
  exists cs l', gscan o best tb rs l = (cs, l') /\ l <= l' /\ lab_in l l' cs /\
  exists st', run S cs st Normal = (st', Normal) /\
    temps st' best = fst (rscan S o (temps st best) (map (getop st) rs)) /\
    trace st' = trace st ++ snd (rscan S o (temps st best) (map (getop st) rs)) /\
    mvars st' = mvars st /\ leaflog st' = leaflog st /\
    forall t, t <> best -> t <> tb -> temps st' t = temps st t.
Proof.
  intros Hbt. induction rs as [|r rs IH]; intros l st Hb Ht Hav.
  - exists [], l. simpl. split; [reflexivity|]. split; [lia|]. split; [apply lab_in_nil; reflexivity|].
    exists st. rewrite app_nil_r. repeat split; auto.
  - inversion Hav as [|? ? Hr Hrs]; subst.
    simpl gscan.
    set (st1 := set_temp st tb (fst (opsem S o [getop st r; temps st best])) (snd (opsem S o [getop st r; temps st best]))).
    set (rr := fst (opsem S o [getop st r; temps st best])).
    set (st2 := set_temp st1 tb (VBool (fst (truthsem S rr))) (snd (truthsem S rr))).
    set (st3 := if fst (truthsem S rr) then set_temp st2 best (getop st r) [] else st2).
    assert (G3 : forall r', avoids r' best tb -> getop st3 r' = getop st r').
    { intros r' Hr'. unfold st3. destruct (fst (truthsem S rr)).
      - rewrite (getop_upd_avoid st2 r' best tb best) by auto. unfold st2.
        rewrite (getop_upd_avoid st1 r' best tb tb) by auto. unfold st1.
        apply (getop_upd_avoid st r' best tb tb); auto.
      - unfold st2. rewrite (getop_upd_avoid st1 r' best tb tb) by auto. unfold st1.
        apply (getop_upd_avoid st r' best tb tb); auto. }
    destruct (IH (Datatypes.S l) st3 ltac:(lia) ltac:(lia) Hrs) as (cc & l' & E & Hl & Lc & st' & B & C1 & C2 & C3 & C4 & C5).
    rewrite E. eexists _, l'. split; [reflexivity|]. split; [lia|]. split.
    { unfold lab_in. simpl. intros x [<-|Hx]; [lia|]. specialize (Lc x Hx). lia. }
    assert (M : map (getop st3) rs = map (getop st) rs).
    { clear - Hrs G3. induction Hrs; simpl; auto. f_equal; auto. }
    rewrite M in C1, C2.
    assert (Tb : temps st3 best = if fst (truthsem S rr) then getop st r else temps st best).
    { unfold st3. destruct (fst (truthsem S rr)); simpl.
      - unfold upd. rewrite Nat.eqb_refl. reflexivity.
      - unfold upd. destruct (Nat.eqb_spec best tb); [congruence|].
        destruct (Nat.eqb_spec best tb); congruence. }
    rewrite Tb in C1, C2.
    exists st'. split.
    + simpl.
      destruct (opsem S o [getop st r; temps st best]) as [rr0 ev1] eqn:E1. simpl.
      unfold upd. rewrite ?Nat.eqb_refl.
      destruct (truthsem S rr0) as [t ev2] eqn:E2. simpl.
      unfold upd. rewrite ?Nat.eqb_refl. simpl.
      subst rr st1 st2 st3. simpl in *. rewrite E2 in *. simpl in *.
      destruct t; simpl.
      * rewrite (getop_upd_avoid _ r best tb tb) by auto.
        rewrite (getop_upd_avoid _ r best tb tb) by auto. exact B.
      * rewrite Nat.eqb_refl. exact B.
    + simpl map. simpl rscan.
      destruct (opsem S o [getop st r; temps st best]) as [rr0 ev1] eqn:E1.
      subst rr. simpl in *.
      destruct (truthsem S rr0) as [t ev2] eqn:E2. simpl in *.
      destruct (rscan S o (if t then getop st r else temps st best) (map (getop st) rs)) as [w ev3] eqn:E3.
      simpl in *. split; [exact C1|]. split.
      { rewrite C2. subst st3 st2 st1. destruct t; simpl; rewrite ?app_nil_r, <- ?app_assoc; reflexivity. }
      split; [rewrite C3; subst st3 st2 st1; destruct t; reflexivity|].
      split; [rewrite C4; subst st3 st2 st1; destruct t; reflexivity|].
      intros x Hx1 Hx2. rewrite C5 by auto. subst st3 st2 st1. destruct t; simpl; unfold upd;
        destruct (Nat.eqb_spec x best); try congruence; destruct (Nat.eqb_spec x tb); congruence.
Qed.


Definition raw_minmax (vars : nat -> val) (o : op) (args : list expr) : res :=
  let rs := evals S vars args in
  match map rv rs with
  | [] => {| rv := VNone; rk := None; rev := []; rlf := [] |}
  | v0 :: vs => let p := rscan S o v0 vs in
                {| rv := fst p; rk := None; rev := flat_ev rs ++ snd p; rlf := flat_lf rs |}
  end.

Lemma gen_minmax o args : fx_minmax F = true -> Forall gen_ok_at args -> gen_ok_at (EMinMax o args).
Proof.
  intros Hf Hargs c n W.
  eapply specR_ext with (R := fun vars => tobool S (mode_of c) (raw_minmax vars o args)).
  { intros vars. rewrite eval_EMinMax. unfold raw_minmax. cbv zeta.
    destruct (map rv (evals S vars args)); [reflexivity|]. destruct (rscan S o v l). reflexivity. }
  rewrite gen_EMinMax. destruct args as [|a0 rest].
  - apply (finish_ok c (fun vars => raw_minmax vars o [])); auto.
    split; [lia|]. split; [apply lab_in_nil; reflexivity|]. split; [simpl; auto|]. split; [simpl; auto|].
    intros st. exists st. simpl. split; [reflexivity|]. split; [apply ext_refl|]. auto.
  - rewrite Hf. cbv zeta. inversion Hargs as [|? ? Ha0 Hrest]; subst.
    pose proof (Ha0 CVal (Datatypes.S (Datatypes.S n)) I) as H1.
    destruct (gen F CVal a0 (Datatypes.S (Datatypes.S n))) as [[c0 r0] n1].
    destruct H1 as (A1 & L1 & O1 & Q1 & _ & R1).
    pose proof (gens_ok rest Hrest n1) as G. destruct (gens F rest n1) as [[cr rs] n2].
    destruct G as (A2 & L2 & O2 & Q2 & R2).
    assert (Av : Forall (fun r => avoids r n (Datatypes.S n)) rs).
    { eapply Forall_impl; [|exact Q2]. intros r Hr t ->. simpl in Hr. lia. }
    destruct (gscan o n (Datatypes.S n) rs n2) as [cs n3] eqn:E.
    destruct (gscan_ok o n (Datatypes.S n) ltac:(lia) rs n2 init_state ltac:(lia) ltac:(lia) Av)
      as (cs0 & l0 & E0 & Hl & Lc & _).
    rewrite E in E0. injection E0 as <- <-.
    apply (finish_ok c (fun vars => raw_minmax vars o (a0 :: rest))); auto.
    split; [lia|]. split.
    { repeat apply lab_in_app; try (eapply lab_in_weak; eauto; lia); apply lab_in_nil; reflexivity. }
    split; [simpl; lia|]. split; [simpl; lia|].
    intros st. destruct (R1 st) as (st1 & B1 & C1 & D1). simpl in D1.
    assert (V1 : mvars st1 = mvars st) by apply C1.
    destruct (R2 st1) as (st2 & B2 & C2 & D2). rewrite V1 in C2, D2. simpl in C2, D2.
    assert (V2 : mvars st2 = mvars st) by (destruct C2 as (X & _); simpl in X; congruence).
    assert (G0 : getop st2 r0 = rv (eval S (mvars st) MVal a0)).
    { rewrite <- D1. eapply getop_ext_none; eauto. }
    set (st3 := set_temp st2 n (getop st2 r0) []).
    assert (M3 : map (getop st3) rs = map rv (evals S (mvars st) rest)).
    { rewrite <- D2. clear - Av. induction Av; simpl; auto. f_equal; auto.
      apply (getop_upd_avoid st2 x n (Datatypes.S n) n); auto. }
    destruct (gscan_ok o n (Datatypes.S n) ltac:(lia) rs n2 st3 ltac:(lia) ltac:(lia) Av)
      as (cs1 & l1 & E1 & _ & _ & st4 & B4 & T1 & T2 & T3 & T4 & T5).
    rewrite E in E1. injection E1 as <- <-.
    assert (Tb : temps st3 n = rv (eval S (mvars st) MVal a0)).
    { unfold st3. simpl. unfold upd. rewrite Nat.eqb_refl. exact G0. }
    rewrite Tb, M3 in T1, T2.
    exists st4. unfold raw_minmax. cbv zeta. simpl evals. simpl map.
    rewrite run_app, B1, run_app, B2. simpl. fold st3. split; [exact B4|].
    destruct (rscan S o (rv (eval S (mvars st) MVal a0)) (map rv (evals S (mvars st) rest))) as [w ev] eqn:ER.
    simpl in T1, T2. cbn [rv rk rev rlf fst snd].
    split; [|split; [exact T1 | reflexivity]].
    pose proof (ext_trans _ _ _ _ _ _ _ _ _ _ (ext_weak n _ _ _ _ _ _ C1 ltac:(lia)) C2 ltac:(lia)) as X.
    destruct X as (X1 & X2 & X3 & X4).
    unfold ext. split; [rewrite T3; unfold st3; simpl; exact X1|]. split.
    { rewrite T2. unfold st3. simpl. rewrite app_nil_r, X2. unfold flat_ev. simpl. rewrite <- !app_assoc. reflexivity. }
    split.
    { rewrite T4. unfold st3. simpl. rewrite X3. unfold flat_lf. simpl. reflexivity. }
    intros t Ht _. rewrite T5 by lia. unfold st3. simpl. unfold upd.
    destruct (Nat.eqb_spec t n); [lia|]. apply X4; [lia | discriminate].
Qed.


(* ---------- cascaded comparisons ---------- *)
Definition extx (n r tb : nat) (st st' : state) (evs : list event) (lfs : list nat) : Prop :=
  mvars st' = mvars st /\ trace st' = trace st ++ evs /\ leaflog st' = leaflog st ++ lfs /\
  forall t, t < n -> t <> r -> t <> tb -> temps st' t = temps st t.

Lemma extx_of_ext n r tb st st' e l : ext n None st st' e l -> extx n r tb st st' e l.
Proof. intros (A & B & C & D). repeat split; auto. intros. apply D; auto. discriminate. Qed.

Lemma extx_trans n n' r tb st st1 st2 e1 e2 l1 l2 :
  extx n r tb st st1 e1 l1 -> extx n' r tb st1 st2 e2 l2 -> n <= n' ->
  extx n r tb st st2 (e1 ++ e2) (l1 ++ l2).
Proof.
  intros (A1 & A2 & A3 & A4) (B1 & B2 & B3 & B4) Hn. repeat split; try congruence.
  - rewrite B2, A2, app_assoc. reflexivity.
  - rewrite B3, A3, app_assoc. reflexivity.
  - intros t H1 H2 H3. rewrite B4 by (auto; lia). auto.
Qed.

Lemma extx_set n r tb st t v ev : (t = r \/ t = tb) -> extx n r tb st (set_temp st t v ev) ev [].
Proof.
  intros H. unfold extx, set_temp; simpl. rewrite app_nil_r. repeat split; auto.
  intros t' _ H1 H2. unfold upd. destruct (Nat.eqb_spec t' t); auto. subst. destruct H; congruence.
Qed.

Definition chain_res (m : mode) (r tb : nat) (st' : state) (rc : res) : Prop :=
  match m with
  | MVal => temps st' r = rv rc
  | MBool => exists b, temps st' tb = VBool b /\ rv rc = VBool b /\ rk rc = Some b
  end.

Lemma gchain_ok m r tb endl : r <> tb ->
  forall es, Forall gen_ok_at es ->
  forall ops ra n, r < n -> tb < n -> endl < n -> opok ra n -> avoids ra r tb ->
  exists cc n2, gchain F m r tb endl ra ops es n = (cc, n2) /\ n <= n2 /\ lab_in n n2 cc /\
  forall st, exists st',
    let rc := echain S (mvars st) m (getop st ra) ops es in
    run S (cc ++ [ILabel endl]) st Normal = (st', Normal) /\
    extx n r tb st st' (rev rc) (rlf rc) /\ chain_res m r tb st' rc.
Proof.
  intros Hrt. induction 1 as [|b es Hb Hes IH]; intros ops ra n Hr Htb Hend Hra Hav.
  - (* no operand left: degenerate *)
    assert (E : gchain F m r tb endl ra ops [] n =
                (match m with MVal => [IMove r ONoneC] | MBool => [IMove r ONoneC; IIsTrue tb ONoneC] end, n))
      by (destruct ops, m; reflexivity).
    rewrite E. do 2 eexists. split; [reflexivity|]. split; [lia|]. split; [destruct m; apply lab_in_nil; reflexivity|].
    intros st.
    assert (E2 : echain S (mvars st) m (getop st ra) ops [] =
                 match m with
                 | MVal => {| rv := VNone; rk := None; rev := []; rlf := [] |}
                 | MBool => let '(t, ev) := truthsem S VNone in {| rv := VBool t; rk := Some t; rev := ev; rlf := [] |}
                 end) by (destruct ops, m; reflexivity).
    cbv zeta. rewrite E2. destruct m; simpl.
    + eexists. split; [reflexivity|]. split; [apply extx_set; auto|]. simpl. unfold upd. rewrite Nat.eqb_refl. reflexivity.
    + destruct (truthsem S VNone) as [t ev] eqn:T. simpl. eexists. split; [reflexivity|]. split.
      * pose proof (extx_trans n n r tb st _ _ [] ev [] [] (extx_set n r tb st r VNone [] (or_introl eq_refl))
                      (extx_set n r tb (set_temp st r VNone []) tb (VBool t) ev (or_intror eq_refl)) (le_n n)) as X.
        exact X.
      * exists t. simpl. unfold upd. rewrite Nat.eqb_refl. auto.
  - destruct ops as [|o ops].
    { (* no operator left: degenerate *)
      assert (E : gchain F m r tb endl ra [] (b :: es) n =
                (match m with MVal => [IMove r ONoneC] | MBool => [IMove r ONoneC; IIsTrue tb ONoneC] end, n))
        by (destruct m; reflexivity).
      rewrite E.
      do 2 eexists. split; [reflexivity|]. split; [lia|]. split; [destruct m; apply lab_in_nil; reflexivity|].
      intros st. cbv zeta. destruct m; simpl.
      + eexists. split; [reflexivity|]. split; [apply extx_set; auto|]. simpl. unfold upd. rewrite Nat.eqb_refl. reflexivity.
      + destruct (truthsem S VNone) as [t ev] eqn:T. simpl. eexists. split; [reflexivity|]. split.
        * pose proof (extx_trans n n r tb st _ _ [] ev [] [] (extx_set n r tb st r VNone [] (or_introl eq_refl))
                        (extx_set n r tb (set_temp st r VNone []) tb (VBool t) ev (or_intror eq_refl)) (le_n n)) as X.
          exact X.
        * exists t. simpl. unfold upd. rewrite Nat.eqb_refl. auto. }
    pose proof (Hb CVal n I) as H1.
    simpl gchain. destruct (gen F CVal b n) as [[cb rb] n1]. destruct H1 as (A1 & L1 & O1 & Q1 & _ & R1).
    assert (Avb : avoids rb r tb) by (intros t ->; simpl in Q1; lia).
    (* common prefix: evaluate b, compare *)
    assert (P : forall st, exists st1 rr ev1,
               opsem S o [getop st ra; rv (eval S (mvars st) MVal b)] = (rr, ev1) /\
               run S (cb ++ [IOp r o [ra; rb]]) st Normal = (st1, Normal) /\
               extx n r tb st st1 (rev (eval S (mvars st) MVal b) ++ ev1) (rlf (eval S (mvars st) MVal b)) /\
               temps st1 r = rr /\ getop st1 rb = rv (eval S (mvars st) MVal b) /\ mvars st1 = mvars st).
    { intros st. destruct (R1 st) as (st1 & B1 & C1 & D1). simpl in C1, D1.
      destruct (opsem S o [getop st ra; rv (eval S (mvars st) MVal b)]) as [rr ev1] eqn:E.
      exists (set_temp st1 r rr ev1), rr, ev1. split; [reflexivity|]. split.
      - rewrite run_app, B1. simpl. rewrite D1. rewrite (getop_ext_none _ _ _ _ _ _ C1 Hra). rewrite E. reflexivity.
      - split.
        + pose proof (extx_trans n n r tb st st1 _ _ ev1 _ [] (extx_of_ext _ r tb _ _ _ _ C1)
                        (extx_set n r tb st1 r rr ev1 (or_introl eq_refl)) (le_n n)) as X.
          rewrite app_nil_r in X. exact X.
        + split; [simpl; unfold upd; rewrite Nat.eqb_refl; reflexivity|].
          split; [rewrite (getop_upd_avoid st1 rb r tb r) by auto; exact D1 | apply C1]. }
    assert (Last : ops = [] \/ es = [] ->
      exists cc n2, (let cmp := cb ++ [IOp r o [ra; rb]] in
                     match m with MVal => (cmp, n1) | MBool => (cmp ++ [IIsTrue tb (OTemp r)], n1) end) = (cc, n2) /\
        n <= n2 /\ lab_in n n2 cc /\
        forall st, exists st',
          let rc := echain S (mvars st) m (getop st ra) (o :: ops) (b :: es) in
          run S (cc ++ [ILabel endl]) st Normal = (st', Normal) /\
          extx n r tb st st' (rev rc) (rlf rc) /\ chain_res m r tb st' rc).
    { intros Hlast. cbv zeta. destruct m.
      - do 2 eexists. split; [reflexivity|]. split; [lia|]. split.
        { apply lab_in_app; [eapply lab_in_weak; eauto; lia | apply lab_in_nil; reflexivity]. }
        intros st. destruct (P st) as (st1 & rr & ev1 & E & B & C & D & G & V).
        exists st1. cbv zeta. rewrite echain_cons. cbv zeta. rewrite E.
        assert (X : forall A (x y : A), match ops, es, MVal with
                                        | _ :: _, _ :: _, _ => x | _, _, MVal => y | _, _, MBool => x end = y).
        { intros. destruct Hlast; subst; [reflexivity | destruct ops; reflexivity]. }
        rewrite run_app, B. simpl.
        destruct Hlast as [-> | ->]; [|destruct ops]; cbn [rv rk rev rlf]; auto.
      - do 2 eexists. split; [reflexivity|]. split; [lia|]. split.
        { apply lab_in_app; [apply lab_in_app|]; [eapply lab_in_weak; eauto; lia | apply lab_in_nil; reflexivity | apply lab_in_nil; reflexivity]. }
        intros st. destruct (P st) as (st1 & rr & ev1 & E & B & C & D & G & V).
        destruct (truthsem S rr) as [t ev2] eqn:T.
        exists (set_temp st1 tb (VBool t) ev2). cbv zeta. rewrite echain_cons. cbv zeta. rewrite E.
        rewrite run_app, run_app, B. simpl. rewrite D, T. simpl.
        assert (R : extx n r tb st (set_temp st1 tb (VBool t) ev2)
                      (rev (eval S (mvars st) MVal b) ++ ev1 ++ ev2) (rlf (eval S (mvars st) MVal b))).
        { pose proof (extx_trans n n r tb st st1 _ _ ev2 _ [] C
                        (extx_set n r tb st1 tb (VBool t) ev2 (or_intror eq_refl)) (le_n n)) as X.
          rewrite app_nil_r, <- app_assoc in X. exact X. }
        destruct Hlast as [-> | ->]; [|destruct ops]; rewrite ?T; cbn [rv rk rev rlf]; (split; [reflexivity|]);
          (split; [exact R|]); exists t; simpl; unfold upd; rewrite Nat.eqb_refl; auto. }
    destruct ops as [|o2 ops'].
    { destruct (Last (or_introl eq_refl)) as (cc & n2 & E & X). simpl in E.
      assert (E' : (match m with MVal => (cb ++ [IOp r o [ra; rb]], n1)
                            | MBool => ((cb ++ [IOp r o [ra; rb]]) ++ [IIsTrue tb (OTemp r)], n1) end) = (cc, n2)) by exact E.
      destruct m; rewrite E'; eauto. }
    destruct es as [|b2 es'].
    { destruct (Last (or_intror eq_refl)) as (cc & n2 & E & X). simpl in E.
      assert (E' : (match m with MVal => (cb ++ [IOp r o [ra; rb]], n1)
                            | MBool => ((cb ++ [IOp r o [ra; rb]]) ++ [IIsTrue tb (OTemp r)], n1) end) = (cc, n2)) by exact E.
      destruct m; rewrite E'; eauto. }
    clear Last.
    destruct (IH (o2 :: ops') rb n1 ltac:(lia) ltac:(lia) ltac:(lia) O1 Avb) as (cc & n2 & E & A2 & L2 & R2).
    rewrite E. do 2 eexists. split; [reflexivity|]. split; [lia|]. split.
    { repeat apply lab_in_app; try (eapply lab_in_weak; eauto; lia); apply lab_in_nil; reflexivity. }
    intros st. destruct (P st) as (st1 & rr & ev1 & E1 & B & C & D & G & V).
    destruct (truthsem S rr) as [t ev2] eqn:T.
    set (st2 := set_temp st1 tb (VBool t) ev2).
    assert (C2 : extx n r tb st st2 (rev (eval S (mvars st) MVal b) ++ ev1 ++ ev2) (rlf (eval S (mvars st) MVal b))).
    { pose proof (extx_trans n n r tb st st1 _ _ ev2 _ [] C
                    (extx_set n r tb st1 tb (VBool t) ev2 (or_intror eq_refl)) (le_n n)) as X.
      rewrite app_nil_r, <- app_assoc in X. exact X. }
    cbv zeta. rewrite echain_cons. cbv zeta. rewrite E1, T.
    rewrite run_app, run_app, B. simpl. rewrite D, T. simpl. fold st2.
    unfold upd at 1. rewrite Nat.eqb_refl. simpl.
    destruct t; simpl.
    + (* comparison true: go on with the next one *)
      destruct (R2 st2) as (st3 & B3 & C3 & D3). cbv zeta in B3, C3, D3.
      assert (G2 : getop st2 rb = rv (eval S (mvars st) MVal b)).
      { unfold st2. rewrite (getop_upd_avoid st1 rb r tb tb) by auto. exact G. }
      assert (V2 : mvars st2 = mvars st) by exact V.
      rewrite G2, V2 in C3, D3. rewrite run_app in B3.
      exists st3. split; [exact B3|]. cbn [rv rk rev rlf]. split.
      * pose proof (extx_trans _ _ _ _ _ _ _ _ _ _ _ C2 C3 A1) as X. rewrite <- !app_assoc in X. exact X.
      * destruct m; exact D3.
    + (* comparison false: its result is the result of the cascade *)
      rewrite run_skip by (eapply lab_in_not; eauto; lia). simpl. rewrite Nat.eqb_refl.
      exists st2. split; [reflexivity|]. cbn [rv rk rev rlf]. split; [exact C2|].
      destruct m; simpl.
      * unfold upd. destruct (Nat.eqb_spec r tb); [congruence|]. exact D.
      * exists false. unfold upd. rewrite Nat.eqb_refl. auto.
Qed.


Lemma echain_rk_val vars : forall es va ops, rk (echain S vars MVal va ops es) = None.
Proof.
  induction es as [|b es IH]; intros va ops; destruct ops as [|o ops]; try reflexivity.
  rewrite echain_cons. cbv zeta. destruct (opsem S o _) as [r ev1].
  destruct ops as [|o2 ops]; [reflexivity|]. destruct es as [|b2 es]; [reflexivity|].
  destruct (truthsem S r) as [t ev2]. destruct t; cbn [rk]; auto.
Qed.

Definition raw_cmp (vars : nat -> val) (m : mode) (a : expr) (ops : list op) (rest : list expr) : res :=
  let ra := eval S vars MVal a in
  let rc := echain S vars m (rv ra) ops rest in
  {| rv := rv rc; rk := rk rc; rev := rev ra ++ rev rc; rlf := rlf ra ++ rlf rc |}.

Lemma gen_cmp a ops rest : gen_ok_at a -> Forall gen_ok_at rest -> gen_ok_at (ECmp a ops rest).
Proof.
  intros Ha Hrest c n W.
  rewrite gen_ECmp. cbv zeta.
  pose proof (Ha CVal (Datatypes.S (Datatypes.S (Datatypes.S n))) I) as H1.
  destruct (gen F CVal a _) as [[ca ra] n1]. destruct H1 as (A1 & L1 & O1 & Q1 & _ & R1).
  assert (Av : avoids ra n (Datatypes.S n)) by (intros t ->; simpl in Q1; lia).
  destruct (gchain_ok (mode_of c) n (Datatypes.S n) (Datatypes.S (Datatypes.S n)) ltac:(lia) rest Hrest ops ra n1
              ltac:(lia) ltac:(lia) ltac:(lia) O1 Av) as (cc & n2 & E & A2 & L2 & R2).
  rewrite E.
  assert (Lab : lab_in n n2 (ca ++ cc ++ [ILabel (Datatypes.S (Datatypes.S n))])).
  { repeat apply lab_in_app; try (eapply lab_in_weak; eauto; lia). apply lab_in_label. lia. }
  assert (Run : forall st, exists st',
            let r := raw_cmp (mvars st) (mode_of c) a ops rest in
            run S (ca ++ cc ++ [ILabel (Datatypes.S (Datatypes.S n))]) st Normal = (st', Normal) /\
            ext n None st st' (rev r) (rlf r) /\
            chain_res (mode_of c) n (Datatypes.S n) st' (echain S (mvars st) (mode_of c) (rv (eval S (mvars st) MVal a)) ops rest)).
  { intros st. destruct (R1 st) as (st1 & B1 & C1 & D1). simpl in C1, D1.
    assert (V1 : mvars st1 = mvars st) by apply C1.
    destruct (R2 st1) as (st2 & B2 & C2 & D2). cbv zeta in B2, C2, D2. rewrite D1, V1 in C2, D2.
    exists st2. unfold raw_cmp. cbv zeta. cbn [rv rk rev rlf].
    rewrite run_app, B1. split; [exact B2|]. split; [|exact D2].
    destruct C1 as (X1 & X2 & X3 & X4). destruct C2 as (Y1 & Y2 & Y3 & Y4).
    unfold ext. split; [congruence|]. split; [rewrite Y2, X2, app_assoc; reflexivity|].
    split; [rewrite Y3, X3, app_assoc; reflexivity|].
    intros t Ht _. rewrite Y4 by lia. apply X4; [lia | discriminate]. }
  destruct (mode_of c) eqn:M.
  - (* value mode *)
    eapply specR_ext with (R := fun vars => tobool S (mode_of c) (raw_cmp vars MVal a ops rest)).
    { intros vars. cbv beta. rewrite M. rewrite eval_ECmp. reflexivity. }
    apply (finish_ok c (fun vars => raw_cmp vars MVal a ops rest)); auto.
    split; [lia|]. split; [exact Lab|]. split; [simpl; lia|]. split; [simpl; lia|].
    intros st. destruct (Run st) as (st' & B & C & D). exists st'. cbv zeta.
    split; [exact B|]. split; [exact C|]. split; [exact D|].
    unfold raw_cmp. cbn [rk]. apply echain_rk_val.
  - (* boolean mode *)
    eapply specR_ext with (R := fun vars => raw_cmp vars MBool a ops rest).
    { intros vars. rewrite eval_ECmp. reflexivity. }
    apply finish_bool_ok; auto.
    split; [lia|]. split; [exact Lab|]. split; [lia|].
    intros st. destruct (Run st) as (st' & B & C & (bb & D1 & D2 & D3)). exists st', bb. cbv zeta.
    split; [exact B|]. split; [exact C|]. split; [exact D1|]. unfold raw_cmp. cbn [rv rk]. auto.
Qed.



(* ---------- calls of C functions: keyword arguments mapped to declared positions ---------- *)
Definition select (es : list expr) (ps : list nat) : list expr := map (fun p => nth p es ENone) ps.

Lemma nth_gfs es : forall p n,
  nth p (map (gen F CVal) es) (fun n => ([], ONoneC, n)) n = gen F CVal (nth p es ENone) n.
Proof. induction es as [|e es IH]; intros [|p] n; simpl; auto. Qed.

Lemma gen_sel_gens es : forall ps n, gen_sel (map (gen F CVal) es) ps n = gens F (select es ps) n.
Proof.
  induction ps as [|p ps IH]; intros n; simpl; [reflexivity|].
  rewrite nth_gfs. destruct (gen F CVal (nth p es ENone) n) as [[c1 r1] n1]. rewrite IH. reflexivity.
Qed.

Lemma select_ok es ps : Forall gen_ok_at es -> Forall gen_ok_at (select es ps).
Proof.
  intros H. unfold select. apply Forall_forall. intros e He. apply in_map_iff in He.
  destruct He as (p & <- & _). destruct (Nat.lt_ge_cases p (length es)) as [L|L].
  - rewrite Forall_forall in H. apply H. apply nth_In. auto.
  - rewrite nth_overflow by auto. apply gen_none.
Qed.

Lemma evals_map vars es : evals S vars es = map (eval S vars MVal) es.
Proof. induction es; simpl; congruence. Qed.

Lemma tsimple_silent vars e : tsimple e = true ->
  rev (eval S vars MVal e) = [] /\ rlf (eval S vars MVal e) = [].
Proof. destruct e; simpl; try discriminate; auto. Qed.

Section CCallSel.
Variable vars : nat -> val.
Variable es : list expr.
Let E (p : nat) : list event := rev (eval S vars MVal (nth p es ENone)).
Let LF (p : nat) : list nat := rlf (eval S vars MVal (nth p es ENone)).
Let nonts (p : nat) : bool := negb (tsimple (nth p es ENone)).

Lemma sel_ev ps : flat_ev (evals S vars (select es ps)) = flat_map E ps.
Proof. induction ps; simpl; auto. unfold flat_ev in *. simpl. rewrite IHps. reflexivity. Qed.

Lemma sel_lf ps : flat_lf (evals S vars (select es ps)) = flat_map LF ps.
Proof. induction ps; simpl; auto. unfold flat_lf in *. simpl. rewrite IHps. reflexivity. Qed.

Lemma sel_rv ps : map rv (evals S vars (select es ps)) = map (fun p => rv (eval S vars MVal (nth p es ENone))) ps.
Proof. induction ps; simpl; auto. f_equal. auto. Qed.

Lemma flat_E_filter ps : flat_map E ps = flat_map E (filter nonts ps).
Proof.
  induction ps as [|p ps IH]; simpl; auto. unfold nonts at 1.
  destruct (tsimple (nth p es ENone)) eqn:T; simpl; [|congruence].
  unfold E at 1. destruct (tsimple_silent vars _ T) as [-> _]. exact IH.
Qed.

Lemma flat_LF_filter ps : flat_map LF ps = flat_map LF (filter nonts ps).
Proof.
  induction ps as [|p ps IH]; simpl; auto. unfold nonts at 1.
  destruct (tsimple (nth p es ENone)) eqn:T; simpl; [|congruence].
  unfold LF at 1. destruct (tsimple_silent vars _ T) as [_ ->]. exact IH.
Qed.
End CCallSel.

Lemma seq_all_gen vars : forall es es0,
  flat_map (fun p => rev (eval S vars MVal (nth p (es0 ++ es) ENone))) (seq (length es0) (length es))
    = flat_ev (evals S vars es) /\
  flat_map (fun p => rlf (eval S vars MVal (nth p (es0 ++ es) ENone))) (seq (length es0) (length es))
    = flat_lf (evals S vars es).
Proof.
  induction es as [|x r IH]; intros es0; simpl; [auto|].
  rewrite nth_middle. specialize (IH (es0 ++ [x])).
  rewrite <- app_assoc, app_length in IH. simpl in IH. rewrite Nat.add_1_r in IH.
  destruct IH as [A B]. unfold flat_ev, flat_lf in *. simpl. rewrite A, B. auto.
Qed.

Lemma seq_all vars es :
  flat_map (fun p => rev (eval S vars MVal (nth p es ENone))) (seq 0 (length es)) = flat_ev (evals S vars es) /\
  flat_map (fun p => rlf (eval S vars MVal (nth p es ENone))) (seq 0 (length es)) = flat_lf (evals S vars es).
Proof. exact (seq_all_gen vars es []). Qed.

Lemma nth_vals vars es q :
  nth q (map rv (evals S vars es)) VNone = rv (eval S vars MVal (nth q es ENone)).
Proof.
  rewrite evals_map, map_map.
  change VNone with ((fun e => rv (eval S vars MVal e)) ENone).
  apply map_nth.
Qed.

Lemma lookup_val st (f : nat -> val) : forall ks ops,
  map (getop st) ops = map f ks -> forall p, In p ks -> getop st (lookup p (combine ks ops)) = f p.
Proof.
  induction ks as [|k ks IH]; intros ops H p Hp; [destruct Hp|].
  destruct ops as [|o ops]; [discriminate|]. simpl in H. injection H as H1 H2. simpl.
  destruct (Nat.eqb_spec k p) as [->|Hn]; [exact H1|].
  apply IH; auto. destruct Hp; [contradiction | auto].
Qed.

Lemma map_getop_ext n st st' e l rs :
  ext n None st st' e l -> Forall (fun o => opok o n) rs -> map (getop st') rs = map (getop st) rs.
Proof.
  intros X. induction 1; simpl; auto. f_equal; auto. eapply getop_ext_none; eauto.
Qed.

Lemma filter_filter_impl {A} (f g : A -> bool) l :
  (forall x, f x = true -> g x = true) -> filter f (filter g l) = filter f l.
Proof.
  intros H. induction l as [|x l IH]; simpl; auto.
  destruct (g x) eqn:G; simpl; destruct (f x) eqn:Fx; auto; try congruence.
  rewrite (H x Fx) in G. discriminate.
Qed.

(* the layout with the receiver first *)
Definition cc_code1 (c : ctx) (o : op) (grecv : nat -> gres) (gfs : list (nat -> gres))
    (temps args : list nat) (n : nat) : gres :=
  let inplace := filter (fun p => negb (memb p temps)) args in
  let '(c0, r0, n0) := grecv n in
  let '(c1, trs, n1) := gen_sel gfs temps n0 in
  let '(c2, irs, n2) := gen_sel gfs inplace n1 in
  let env := combine (temps ++ inplace) (trs ++ irs) in
  finish c (c0 ++ c1 ++ c2 ++ [IOp n2 o (r0 :: map (fun p => lookup p env) args)], OTemp n2, Datatypes.S n2).

Definition raw_ccall (vars : nat -> val) (o : op) (recv : expr) (es : list expr) (slots : list nat) : res :=
  let rr := eval S vars MVal recv in
  let rs := evals S vars es in
  let p := opsem S o (rv rr :: map (fun q => nth q (map rv rs) VNone) slots) in
  {| rv := fst p; rk := None; rev := rev rr ++ flat_ev rs ++ snd p; rlf := rlf rr ++ flat_lf rs |}.

Lemma cc_code1_ok c o recv es temps slots n :
  wfctx c n -> gen_ok_at recv -> Forall gen_ok_at es ->
  filter (fun p => negb (tsimple (nth p es ENone))) (cc_order temps slots)
    = filter (fun p => negb (tsimple (nth p es ENone))) (seq 0 (length es)) ->
  (forall p, In p slots -> In p (cc_order temps slots)) ->
  specR c (fun vars => tobool S (mode_of c) (raw_ccall vars o recv es slots)) n
        (cc_code1 c o (gen F CVal recv) (map (gen F CVal) es) temps slots n).
Proof.
  intros W Hrecv Hes Hord Hin. unfold cc_code1.
  set (inplace := filter (fun p => negb (memb p temps)) slots) in *.
  assert (Eord : cc_order temps slots = temps ++ inplace) by reflexivity. rewrite Eord in Hord, Hin.
  pose proof (Hrecv CVal n I) as H0. destruct (gen F CVal recv n) as [[c0 r0] n0].
  destruct H0 as (A0 & L0 & O0 & Q0 & _ & R0).
  rewrite gen_sel_gens.
  pose proof (gens_ok (select es temps) (select_ok es temps Hes) n0) as H1.
  destruct (gens F (select es temps) n0) as [[c1 trs] n1]. destruct H1 as (A1 & L1 & O1 & Q1 & R1).
  rewrite gen_sel_gens.
  pose proof (gens_ok (select es inplace) (select_ok es inplace Hes) n1) as H2.
  destruct (gens F (select es inplace) n1) as [[c2 irs] n2]. destruct H2 as (A2 & L2 & O2 & Q2 & R2).
  apply (finish_ok c (fun vars => raw_ccall vars o recv es slots)); auto.
  split; [lia|]. split.
  { repeat apply lab_in_app; try (eapply lab_in_weak; eauto; lia); apply lab_in_nil; reflexivity. }
  split; [simpl; lia|]. split; [simpl; lia|].
  intros st. destruct (R0 st) as (st0 & B0 & C0 & D0). simpl in D0.
  assert (V0 : mvars st0 = mvars st) by apply C0.
  destruct (R1 st0) as (st1 & B1 & C1 & D1). rewrite V0 in C1, D1. simpl in C1, D1.
  assert (V1 : mvars st1 = mvars st) by (destruct C1 as (X & _); congruence).
  destruct (R2 st1) as (st2 & B2 & C2 & D2). rewrite V1 in C2, D2. simpl in C2, D2.
  set (vars := mvars st) in *.
  set (f := fun p => rv (eval S vars MVal (nth p es ENone))).
  (* operand values at the call *)
  assert (G0 : getop st2 r0 = rv (eval S vars MVal recv)).
  { rewrite <- D0. transitivity (getop st1 r0).
    - eapply getop_ext_none; [exact C2 | eapply opok_weak; eauto].
    - eapply getop_ext_none; [exact C1 | auto]. }
  assert (G1 : map (getop st2) (trs ++ irs) = map f (temps ++ inplace)).
  { rewrite !map_app. f_equal.
    - rewrite (map_getop_ext _ _ _ _ _ _ C2 O1), D1. apply sel_rv.
    - rewrite D2. apply sel_rv. }
  assert (G2 : map (getop st2) (map (fun p => lookup p (combine (temps ++ inplace) (trs ++ irs))) slots)
               = map (fun q => nth q (map rv (evals S vars es)) VNone) slots).
  { rewrite map_map. apply map_ext_in. intros q Hq. rewrite nth_vals.
    apply (lookup_val st2 f); auto. }
  (* events and leaves *)
  destruct (seq_all vars es) as [SA SL].
  assert (EV : flat_ev (evals S vars (select es temps)) ++ flat_ev (evals S vars (select es inplace))
               = flat_ev (evals S vars es)).
  { rewrite !sel_ev, <- flat_map_app, (flat_E_filter vars es), Hord, <- (flat_E_filter vars es). exact SA. }
  assert (LV : flat_lf (evals S vars (select es temps)) ++ flat_lf (evals S vars (select es inplace))
               = flat_lf (evals S vars es)).
  { rewrite !sel_lf, <- flat_map_app, (flat_LF_filter vars es), Hord, <- (flat_LF_filter vars es). exact SL. }
  rewrite run_app, B0, run_app, B1, run_app, B2. simpl.
  rewrite G0, G2. unfold raw_ccall. cbv zeta. fold vars.
  destruct (opsem S o (rv (eval S vars MVal recv) :: map (fun q => nth q (map rv (evals S vars es)) VNone) slots))
    as [v ev] eqn:EO. simpl.
  eexists. split; [reflexivity|]. split.
  - pose proof (ext_trans _ _ _ _ _ _ _ _ _ _ C0 C1 A0) as X1.
    pose proof (ext_trans _ _ _ _ _ _ _ _ _ _ X1 C2 ltac:(lia)) as X2.
    pose proof (ext_step _ _ _ _ _ _ _ _ _ X2 (ext_set n2 None st2 n2 v ev (or_introl (le_n n2))) ltac:(lia)) as X3.
    rewrite <- !app_assoc in X3. rewrite <- EV, <- LV, <- !app_assoc. exact X3.
  - split; [|reflexivity]. simpl. unfold upd. rewrite Nat.eqb_refl. reflexivity.
Qed.

(* the layout of the tree as it is (temps, receiver, arguments left in place) is the same code when the
   receiver is a name or there are no temps *)
Lemma cc_layout c o recv gfs temps args n :
  fx_ccrecv F = true \/ tsimple recv = true \/ temps = [] ->
  (let inplace := filter (fun p => negb (memb p temps)) args in
   if fx_ccrecv F then
     let '(c0, r0, n0) := gen F CVal recv n in
     let '(c1, trs, n1) := gen_sel gfs temps n0 in
     let '(c2, irs, n2) := gen_sel gfs inplace n1 in
     let env := combine (temps ++ inplace) (trs ++ irs) in
     finish c (c0 ++ c1 ++ c2 ++ [IOp n2 o (r0 :: map (fun p => lookup p env) args)], OTemp n2, Datatypes.S n2)
   else
     let '(c1, trs, n1) := gen_sel gfs temps n in
     let '(c0, r0, n0) := gen F CVal recv n1 in
     let '(c2, irs, n2) := gen_sel gfs inplace n0 in
     let env := combine (temps ++ inplace) (trs ++ irs) in
     finish c (c1 ++ c0 ++ c2 ++ [IOp n2 o (r0 :: map (fun p => lookup p env) args)], OTemp n2, Datatypes.S n2))
  = cc_code1 c o (gen F CVal recv) gfs temps args n.
Proof.
  intros H. unfold cc_code1. cbv zeta. destruct (fx_ccrecv F); [reflexivity|].
  destruct H as [H|[H|H]]; [discriminate| |].
  - destruct recv; try discriminate; simpl;
      destruct (gen_sel gfs temps n) as [[c1 trs] n1];
      destruct (gen_sel gfs _ n1) as [[c2 irs] n2]; rewrite ?app_nil_r; reflexivity.
  - subst temps. simpl. destruct (gen F CVal recv n) as [[c0 r0] n0].
    destruct (gen_sel gfs _ n0) as [[c2 irs] n2]. reflexivity.
Qed.

Lemma forallb_seq (f : nat -> bool) a n : forallb f (seq a n) = true -> forall p, a <= p < a + n -> f p = true.
Proof. intros H p Hp. rewrite forallb_forall in H. apply H. apply in_seq. auto. Qed.

Lemma gen_ccall o nreq ndecl recv npos names es :
  ccok F nreq ndecl recv npos names es = true ->
  gen_ok_at recv -> Forall gen_ok_at es -> gen_ok_at (ECCall o nreq ndecl recv npos names es).
Proof.
  intros Hok Hrecv Hes c n W.
  unfold ccok in Hok. cbv zeta in Hok.
  repeat (apply andb_true_iff in Hok; let X := fresh "K" in destruct Hok as [Hok X]).
  rename K into Krecv, K0 into Ksimple, K1 into Kkeep, K2 into Kreq, K3 into Ksort, K4 into Kwf.
  apply Nat.eqb_eq in Hok. apply Nat.leb_le in Kreq.
  set (m := npos + length names) in *. set (k := npos + inorder_prefix ndecl npos names) in *.
  set (simple := fun p => csimple F (nth p es ENone)) in *.
  set (ts := fun p => tsimple (nth p es ENone)).
  set (slots := ref_slots npos names ndecl 0).
  (* the mapping *)
  assert (M : exists temps,
             ccmap (cc_sorted F) (fx_cckeep F) npos ndecl names simple = CMOk temps slots /\
             filter (nonsimple ts) (cc_order temps slots) = filter (nonsimple ts) (seq 0 m) /\
             (forall p, In p slots -> In p (cc_order temps slots)) /\ length slots = m).
  { rewrite Ksort. apply orb_true_iff in Ksimple. destruct Ksimple as [Ks|Ks].
    - assert (Hc : fx_cckeep F = true \/ (forall p, p < k -> simple p = true) \/
                   (forall p, k <= p < m -> simple p = true)).
      { apply orb_true_iff in Kkeep. destruct Kkeep as [Kk|Kk]; [|right; right; intros p Hp; apply (forallb_seq _ _ _ Kk); lia].
        apply orb_true_iff in Kk. destruct Kk as [Kk|Kk]; [left; auto|].
        right; left; intros p Hp; apply (forallb_seq _ _ _ Kk); lia. }
      destruct (ccmap_ok (fx_cckeep F) npos ndecl names simple Kwf Hc) as (temps & E1 & E2 & _ & E4 & E5 & E6).
      fold slots in E1, E2, E4, E5, E6.
      exists temps. split; [exact E1|]. split; [|split; [|exact E6]].
      + assert (Imp : forall p, nonsimple ts p = true -> nonsimple simple p = true).
        { intros p. unfold nonsimple, ts, simple. rewrite !negb_true_iff. intros T.
          destruct (csimple F (nth p es ENone)) eqn:Cs; auto.
          destruct (Nat.lt_ge_cases p (length es)) as [L|L].
          - rewrite forallb_forall in Ks. specialize (Ks _ (nth_In es ENone L)). rewrite Cs, T in Ks. discriminate.
          - rewrite nth_overflow in T by auto. discriminate. }
        rewrite <- (filter_filter_impl _ _ (cc_order temps slots) Imp), E2. apply filter_filter_impl. exact Imp.
      + intros p Hp. apply E4. apply E5. exact Hp.
    - apply Nat.leb_le in Ks. rewrite (ccmap_inorder _ _ _ _ _ simple ts Ks).
      assert (Hc : fx_cckeep F = true \/ (forall p, p < k -> ts p = true) \/ (forall p, k <= p < m -> ts p = true)).
      { right; right. intros p Hp. pose proof (pre_le npos ndecl names). unfold k, m in Hp. lia. }
      destruct (ccmap_ok (fx_cckeep F) npos ndecl names ts Kwf Hc) as (temps & E1 & E2 & _ & E4 & E5 & E6).
      fold slots in E1, E2, E4, E5, E6.
      exists temps. split; [exact E1|]. split; [exact E2|]. split; [|exact E6].
      intros p Hp. apply E4. apply E5. exact Hp. }
  destruct M as (temps & M1 & M2 & M3 & M4).
  eapply specR_ext with (R := fun vars => tobool S (mode_of c) (raw_ccall vars o recv es slots)).
  { intros vars. rewrite eval_ECCall. unfold raw_ccall. cbv zeta. fold slots. destruct (opsem S o _). reflexivity. }
  rewrite gen_ECCall. unfold ccall_code. fold simple. rewrite M1.
  assert (Lr : Nat.ltb (length slots) nreq = false) by (apply Nat.ltb_ge; lia). rewrite Lr.
  rewrite cc_layout.
  - apply cc_code1_ok; auto. rewrite Hok. exact M2.
  - apply orb_true_iff in Krecv. destruct Krecv as [Kr|Kr].
    + apply orb_true_iff in Kr. destruct Kr; auto.
    + right; right. fold simple in Kr. rewrite M1 in Kr. destruct temps; [reflexivity | discriminate].
Qed.

(* ---------- all expressions ---------- *)
Section ExprInd.
Variable P : expr -> Prop.
Hypothesis HLeaf : forall kind k, P (ELeaf kind k).
Hypothesis HName : forall x, P (EName x).
Hypothesis HNone : P ENone.
Hypothesis HOp : forall o es, Forall P es -> P (EOp o es).
Hypothesis HNot : forall a, P a -> P (ENot a).
Hypothesis HAnd : forall a b, P a -> P b -> P (EAnd a b).
Hypothesis HOr : forall a b, P a -> P b -> P (EOr a b).
Hypothesis HCond : forall c a b, P c -> P a -> P b -> P (ECond c a b).
Hypothesis HCmp : forall a ops rest, P a -> Forall P rest -> P (ECmp a ops rest).
Hypothesis HMCall : forall m o obj args, P obj -> Forall P args -> P (EMCall m o obj args).
Hypothesis HMinMax : forall o args, Forall P args -> P (EMinMax o args).
Hypothesis HCCall : forall o nreq ndecl recv npos names es, P recv -> Forall P es ->
  P (ECCall o nreq ndecl recv npos names es).

Fixpoint expr_ind' (e : expr) : P e :=
  let go := fix go (l : list expr) : Forall P l :=
      match l with [] => Forall_nil P | x :: xs => Forall_cons x (expr_ind' x) (go xs) end in
  match e with
  | ELeaf kind k => HLeaf kind k
  | EName x => HName x
  | ENone => HNone
  | EOp o es => HOp o es (go es)
  | ENot a => HNot a (expr_ind' a)
  | EAnd a b => HAnd a b (expr_ind' a) (expr_ind' b)
  | EOr a b => HOr a b (expr_ind' a) (expr_ind' b)
  | ECond c a b => HCond c a b (expr_ind' c) (expr_ind' a) (expr_ind' b)
  | ECmp a ops rest => HCmp a ops rest (expr_ind' a) (go rest)
  | EMCall m o obj args => HMCall m o obj args (expr_ind' obj) (go args)
  | EMinMax o args => HMinMax o args (go args)
  | ECCall o nreq ndecl recv npos names es => HCCall o nreq ndecl recv npos names es (expr_ind' recv) (go es)
  end.
End ExprInd.

(* the expression contains a min/max or method-call node only if the corresponding repair is on *)
Fixpoint eok (e : expr) : bool :=
  match e with
  | ELeaf _ _ | EName _ | ENone => true
  | EOp _ es => forallb eok es
  | ENot a => eok a
  | EAnd a b | EOr a b => eok a && eok b
  | ECond c a b => eok c && eok a && eok b
  | ECmp a _ rest => eok a && forallb eok rest
  | EMCall _ _ obj args => fx_mcall F && eok obj && forallb eok args
  | EMinMax _ args => fx_minmax F && forallb eok args
  | ECCall _ nreq ndecl recv npos names es =>
      eok recv && forallb eok es && ccok F nreq ndecl recv npos names es
  end.

Lemma forall_ok es : Forall (fun e => eok e = true -> gen_ok_at e) es -> forallb eok es = true -> Forall gen_ok_at es.
Proof.
  induction 1 as [|e es He Hes IH]; simpl; intros H; constructor;
    apply andb_true_iff in H; destruct H; auto.
Qed.

Theorem gen_correct : forall e, eok e = true -> gen_ok_at e.
Proof.
  intros e. induction e as [kind k|x| |o es IHes|a IHa|a b IHa IHb|a b IHa IHb|c a b IHc IHa IHb
                           |a ops rest IHa IHrest|m o obj args IHobj IHargs|o args IHargs
                           |o nreq ndecl recv npos names es IHrecv IHes] using expr_ind';
    simpl; intros Hok.
  - apply gen_leaf.
  - apply gen_name.
  - apply gen_none.
  - apply gen_op. apply forall_ok; auto.
  - apply gen_not; auto.
  - apply andb_true_iff in Hok. destruct Hok. apply gen_and; auto.
  - apply andb_true_iff in Hok. destruct Hok. apply gen_or; auto.
  - apply andb_true_iff in Hok. destruct Hok as [Hok H3]. apply andb_true_iff in Hok. destruct Hok. apply gen_cond; auto.
  - apply andb_true_iff in Hok. destruct Hok. apply gen_cmp; auto. apply forall_ok; auto.
  - apply andb_true_iff in Hok. destruct Hok as [Hok H3]. apply andb_true_iff in Hok. destruct Hok.
    apply gen_mcall; auto. apply forall_ok; auto.
  - apply andb_true_iff in Hok. destruct Hok. apply gen_minmax; auto. apply forall_ok; auto.
  - apply andb_true_iff in Hok. destruct Hok as [Hok H3]. apply andb_true_iff in Hok. destruct Hok.
    apply gen_ccall; auto. apply forall_ok; auto.
Qed.

(* the statement for a whole expression evaluated for its value *)
Theorem gen_expr_correct : forall e n st, eok e = true ->
  let '(code, ro, n') := gen F CVal e n in
  let r := eval S (mvars st) MVal e in
  exists st', run S code st Normal = (st', Normal) /\
    mvars st' = mvars st /\ trace st' = trace st ++ rev r /\ leaflog st' = leaflog st ++ rlf r /\
    getop st' ro = rv r /\ (forall t, t < n -> temps st' t = temps st t).
Proof.
  intros e n st H. pose proof (gen_correct e H CVal n I) as G.
  destruct (gen F CVal e n) as [[code ro] n']. destruct G as (A & L & O & Q & _ & R).
  destruct (R st) as (st' & B & (C1 & C2 & C3 & C4) & D). exists st'. simpl in *.
  repeat split; auto. intros t Ht. apply C4; auto. discriminate.
Qed.

End Proofs.

(* ---------- statements: del, and (cascaded) assignment to plain targets ---------- *)
Section Stmts.
Variable S : sem.
Variable F : flags.

Lemma gens_correct es n st : forallb (eok F) es = true ->
  let '(code, rs, n') := gens F es n in
  let l := evals S (mvars st) es in
  n <= n' /\ Forall (fun o => opok o n') rs /\
  exists st', run S code st Normal = (st', Normal) /\ ext n None st st' (flat_ev l) (flat_lf l) /\
    map (getop st') rs = map rv l.
Proof.
  intros H.
  assert (G : Forall (gen_ok_at S F) es).
  { apply forall_ok; auto. clear H. induction es; constructor; auto. intros; apply gen_correct; auto. }
  pose proof (gens_ok S F es G n) as X. destruct (gens F es n) as [[code rs] n'].
  destruct X as (A & L & O & Q & R). split; [auto|]. split; [auto|]. apply R.
Qed.

Theorem del_correct o es st : forallb (eok F) es = true ->
  let '(code, _) := gen_stmt F (SDel o es) 0 in
  let r := ref_stmt S (mvars st) (SDel o es) in
  exists st', run S code st Normal = (st', Normal) /\
    mvars st' = svars r /\ trace st' = trace st ++ sev r /\ leaflog st' = leaflog st ++ slf r.
Proof.
  intros H. simpl. pose proof (gens_correct es 0 st H) as G.
  destruct (gens F es 0) as [[code rs] n1]. destruct G as (A & O & st1 & B & (C1 & C2 & C3 & C4) & D).
  rewrite run_app, B. simpl. rewrite D.
  destruct (opsem S o (map rv (evals S (mvars st) es))) as [v ev]. simpl.
  eexists. split; [reflexivity|]. simpl. rewrite C1, C2, C3, <- ?app_assoc. auto.
Qed.

End Stmts.

(* ---------- findings: the tree as it is deviates from the reference (witnesses on std_sem) ---------- *)
Definition asis : flags := mk_flags false false false false.
Definition repaired : flags := mk_flags true true true true.
Definition rvar : nat := 3.

Definition trace_of (Fl : flags) (s : stmt) : list event := trace (fst (run_stmt Fl s)).
Definition vars_of (Fl : flags) (s : stmt) : list val := map (mvars (fst (run_stmt Fl s))) [3; 0; 1; 2].
Definition ref_vars (s : stmt) : list val := map (svars (ref_run s)) [3; 0; 1; 2].

(* r = min(T(1), F(2), T(3)) *)
Definition w_minmax : stmt :=
  SAssign [TS (TName rvar)] (EMinMax (OLog 0) [ELeaf 0 1; ELeaf 1 2; ELeaf 0 3]).
(* r = T(1).m(T(2)) *)
Definition w_mcall : stmt :=
  SAssign [TS (TName rvar)] (EMCall 7 (OLog 1) (ELeaf 0 1) [ELeaf 0 2]).
(* T(1).a.b += T(2) *)
Definition w_inplace : stmt :=
  SAug (EOp (OGetAttr 1) [EOp (OGetAttr 0) [ELeaf 0 1]]) (OLog 2) (ELeaf 0 2).
(* (T(1)[T(2)], T(3)[T(4)]) = (T(5).a, T(6).a) = (T(7), T(8)) *)
Definition w_cascade : stmt :=
  SAssign [TTup [TStore OSetItem [ELeaf 0 1; ELeaf 0 2]; TStore OSetItem [ELeaf 0 3; ELeaf 0 4]];
           TTup [TStore (OSetAttr 0) [ELeaf 0 5]; TStore (OSetAttr 0) [ELeaf 0 6]]]
          (EOp (OSeq 0) [ELeaf 0 7; ELeaf 0 8]).

Lemma minmax_refuted_w : trace_of (mk_flags false true true true) w_minmax <> sev (ref_run w_minmax).
Proof. vm_compute. discriminate. Qed.
Lemma minmax_repaired_w : trace_of repaired w_minmax = sev (ref_run w_minmax) /\ vars_of repaired w_minmax = ref_vars w_minmax.
Proof. vm_compute. auto. Qed.
Lemma mcall_refuted_w : trace_of (mk_flags true false true true) w_mcall <> sev (ref_run w_mcall).
Proof. vm_compute. discriminate. Qed.
Lemma inplace_refuted_w : trace_of (mk_flags true true false true) w_inplace <> sev (ref_run w_inplace).
Proof. vm_compute. discriminate. Qed.
Lemma inplace_repaired_w : trace_of repaired w_inplace = sev (ref_run w_inplace).
Proof. vm_compute. reflexivity. Qed.
Lemma cascade_refuted_w : trace_of (mk_flags true true true false) w_cascade <> sev (ref_run w_cascade).
Proof. vm_compute. discriminate. Qed.
Lemma cascade_repaired_w : trace_of repaired w_cascade = sev (ref_run w_cascade).
Proof. vm_compute. reflexivity. Qed.

(* ConstantFolding._handle_NotNode turns  not (a in b < c)  into  a not in b < c : different meaning *)
Definition w_notflip_src : expr := ENot (ECmp (ELeaf 1 3) [OIn true; OLog 0] [ELeaf 1 4; ELeaf 0 5]).
Definition w_notflip_dst : expr := ECmp (ELeaf 1 3) [OIn false; OLog 0] [ELeaf 1 4; ELeaf 0 5].
Lemma notflip_refuted_w :
  rev (eval std_sem init_vars MVal w_notflip_src) <> rev (eval std_sem init_vars MVal w_notflip_dst) /\
  rv (eval std_sem init_vars MVal w_notflip_src) <> rv (eval std_sem init_vars MVal w_notflip_dst).
Proof. vm_compute. split; discriminate. Qed.

(* non-vacuity: a statement with every kind of node on which the repaired generator agrees with the reference *)
Definition w_big : stmt :=
  SAssign [TS (TStore OSetItem [ELeaf 0 20; EName 0]); TS (TName 1)]
    (ECond (EOr (ENot (ELeaf 1 1)) (ELeaf 0 2))
           (EAnd (ECmp (ELeaf 0 3) [OLog 0; OIn false; OLog 1] [ELeaf 0 4; ELeaf 0 5; ELeaf 1 6])
                 (EMCall 7 (OLog 2) (ELeaf 0 7) [EMinMax (OLog 0) [ELeaf 0 8; ELeaf 1 9; ELeaf 0 10]]))
           (ELeaf 0 11)).
Lemma big_agrees : trace_of repaired w_big = sev (ref_run w_big) /\ vars_of repaired w_big = ref_vars w_big
  /\ 10 <= length (trace_of repaired w_big).
Proof. vm_compute. repeat split; auto; repeat constructor. Qed.
