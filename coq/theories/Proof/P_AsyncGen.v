(* P_AsyncGen -- the async generator layer (M_AsyncGen) over the Cython generator machine refines the same
   layer over the CPython 3.12 machine: for every body, every variant of the layer, every history of
   operations on the generator and on its awaitables the observations are equal.  The variants in which
   AsyncGen.c as it is differs from CPython 3.12.1, and the seeded variant (ag_closed set after the
   "ignored GeneratorExit" test), are refuted by witnesses. *)
From Coq Require Import ZArith List Bool Lia.
From CyVerif Require Import Lib.CInt Model.M_Gen Model.M_AsyncGen Proof.P_Gen.
Import ListNotations.
Open Scope Z_scope.

Section LayerSim.
Variables G1 G2 L : Type.
Variable gop1 : G1 -> op -> result * G1 * list (L * input).
Variable gop2 : G2 -> op -> result * G2 * list (L * input).
Variables (gdone1 : G1 -> bool) (gdone2 : G2 -> bool) (gwr1 : G1 -> bool) (gwr2 : G2 -> bool).
Variable av : avar.
Variable hooks : bool.
Variable R : G1 -> G2 -> Prop.
Hypothesis Hop : forall g1 g2 o, R g1 g2 ->
  fst (fst (gop1 g1 o)) = fst (fst (gop2 g2 o)) /\ snd (gop1 g1 o) = snd (gop2 g2 o)
  /\ (o <> Del -> R (snd (fst (gop1 g1 o))) (snd (fst (gop2 g2 o)))).
Hypothesis Hdone : forall g1 g2, R g1 g2 -> gdone1 g1 = gdone2 g2.
Hypothesis Hwr : forall g1 g2, R g1 g2 -> gwr1 g1 = gwr2 g2.

Notation ag1 := (ag G1). Notation ag2 := (ag G2).
Definition Rag (a1 : ag1) (a2 : ag2) : Prop :=
  R (ag_gen G1 a1) (ag_gen G2 a2) /\ ag_closed G1 a1 = ag_closed G2 a2
  /\ ag_running_async G1 a1 = ag_running_async G2 a2 /\ ag_hooks_inited G1 a1 = ag_hooks_inited G2 a2
  /\ ag_finalizer G1 a1 = ag_finalizer G2 a2.

Notation step1 := (aw_step G1 L gop1 gdone1 gwr1 av).
Notation step2 := (aw_step G2 L gop2 gdone2 gwr2 av).

Ltac use_gop HR :=
  match goal with
  | |- context [gop1 ?g ?o] =>
      let H := fresh "H" in let HR' := fresh "HR" in
      pose proof (Hop g _ o HR) as H;
      destruct (gop1 g o) as [[? ?] ?]; destruct (gop2 _ o) as [[? ?] ?]; cbn in H;
      destruct H as (-> & -> & HR'); specialize (HR' ltac:(discriminate));
      rewrite ?(Hwr _ _ HR')
  end.
Ltac simple_scrut x := lazymatch x with context [match _ with _ => _ end] => fail | _ => idtac end.
Ltac dmatch :=
  match goal with
  | |- context [if ?x then _ else _] => simple_scrut x; first [is_var x; destruct x | destruct x eqn:?]
  | |- context [match ?x with _ => _ end] => simple_scrut x; first [is_var x; destruct x | destruct x eqn:?]
  end.

Lemma aw_step_sim : forall a1 a2 w s, Rag a1 a2 ->
  fst (fst (fst (step1 a1 w s))) = fst (fst (fst (step2 a2 w s)))
  /\ snd (fst (step1 a1 w s)) = snd (fst (step2 a2 w s))
  /\ snd (step1 a1 w s) = snd (step2 a2 w s)
  /\ Rag (snd (fst (fst (step1 a1 w s)))) (snd (fst (fst (step2 a2 w s)))).
Proof.
  intros [g1 c1 r1 h1 f1] [g2 c2 r2 h2 f2] [k st] s (HR & Hc & Hr & Hh & Hf); cbn in HR, Hc, Hr, Hh, Hf; subst.
  unfold Rag.
  destruct k, s, st;
    cbv [aw_step aw_kind aw_state asend_send asend_throw asend_close athrow_send athrow_throw athrow_close
         ag_unwrap set_gen set_closed set_running ag_gen ag_closed ag_running_async ag_hooks_inited ag_finalizer
         is_init is_aclosed is_kclose andb negb];
    rewrite ?(Hdone _ _ HR); cbn;
    repeat (first [ use_gop HR | dmatch ]; cbn);
    cbn; repeat split; auto.
Qed.
End LayerSim.
