(* C22 -- the compiler's exception-state scheme refines CPython's semantics (all statements,
   with-blocks included).
   Induction on statements (mutual with handler lists); invariant Rel: same core (heap, names,
   log), the scheme's top exc_info item is the reference one or (unrepaired ExceptionSave, nothing
   in the reference top item) the topmost value underneath, and live handler temps hold the
   exception in the reference top item. *)
From Coq Require Import List Bool Arith Lia.
From CyVerif Require Import Model.M_Exc.
Import ListNotations.

(* the reference semantics never produces the scheme-only outcome *)
Lemma lift_raise_internal_oc c st : exists e, fst (lift (raise_internal c) st) = ORaise e.
Proof. unfold lift, raise_internal, alloc, raise_with. simpl. eauto. Qed.

Lemma lift_do_raise_oc w cz st : exists e, fst (lift (do_raise w cz) st) = ORaise e.
Proof.
  unfold lift, do_raise, raise_internal, alloc, raise_with.
  destruct w; simpl.
  - destruct cz; simpl; eauto. destruct (lookup x _); simpl; eauto.
  - destruct (lookup x _); simpl; eauto.
    destruct cz; simpl; eauto. destruct (lookup x0 _); simpl; eauto.
Qed.

Lemma after_no_crash o o2 : o <> OCrash -> o2 <> OCrash -> after o o2 <> OCrash.
Proof. destruct o2; simpl; auto. Qed.

Scheme stmt_mind := Induction for stmt Sort Prop
  with handlers_mind := Induction for handlers Sort Prop.
Combined Scheme stmt_handlers_ind from stmt_mind, handlers_mind.

Lemma ref_no_crash :
  (forall s r, fst (exec_ref s r) <> OCrash) /\
  (forall hs e r, fst (handle_ref hs e r) <> OCrash).
Proof.
  apply stmt_handlers_ind; simpl; intros; try discriminate.
  - destruct (lift_do_raise_oc w cz r) as [e ->]. discriminate.
  - unfold reraise_dynamic. destruct (handled r); simpl; try discriminate.
  - specialize (H r). destruct (exec_ref a r) as [o r1]. destruct o; simpl in *; auto; discriminate.
  - specialize (H r). destruct (exec_ref body r) as [o r1]. destruct o; simpl in *; auto; discriminate.
  - specialize (H r). destruct (exec_ref body r) as [o r1].
    destruct o; simpl in *;
      match goal with |- context [exec_ref fin ?x] =>
        specialize (H0 x); destruct (exec_ref fin x) as [o2 r2]; simpl in *;
        apply after_no_crash; auto; discriminate end.
  - match goal with |- context [exec_ref body ?x] =>
      specialize (H x); destruct (exec_ref body x) as [o r1] end.
    destruct o; simpl in *; try (destruct x; simpl; try discriminate;
      match goal with |- context [lift (raise_internal ?c) ?y] =>
        destruct (lift_raise_internal_oc c y) as [e' He'];
        destruct (lift (raise_internal c) y); simpl in *; rewrite He'; discriminate end).
    congruence.
  - revert r. induction n; intros r; simpl; try discriminate.
    specialize (H r). destruct (exec_ref body r) as [o r1].
    destruct o; simpl in *; auto; discriminate.
  - destruct (pat_matches pat (cls_of r e)); auto.
    match goal with |- context [exec_ref body ?x] =>
      specialize (H x); destruct (exec_ref body x) as [o r1] end. simpl in *. auto.
Qed.

Section Main.
Variables fx sx : bool.

Definition top_rel (b tr tc : option nat) : Prop :=
  tc = tr \/ (sx = false /\ tr = None /\ tc = b).

Definition Rel (r c : state) : Prop :=
  co r = co c /\ below r = below c /\ top_rel (below c) (top r) (top c) /\
  (forall e, cur c = Some (Some e) -> top r = Some e) /\
  (fx = true -> cur c <> Some None).

Definition shape (c c' : state) : Prop :=
  cur c' = cur c \/ (fx = false /\ cur c' = Some None /\ cur c <> None).

Definition Post (r c r' c' : state) : Prop :=
  Rel r' c' /\ wx c' = wx c /\ shape c c' /\ below c' = below c /\ top r' = top r.

Definition Res (pr pc : oc * state) (r c : state) : Prop :=
  (fx = false /\ fst pc = OCrash) \/ (fst pc = fst pr /\ Post r c (snd pr) (snd pc)).

Lemma rel_handled r c : Rel r c -> handled r = handled c.
Proof.
  intros (_ & Hb & Ht & _ & _). unfold handled.
  destruct Ht as [-> | (_ & -> & ->)].
  - rewrite Hb. reflexivity.
  - rewrite Hb. destruct (below c); reflexivity.
Qed.

Lemma shape_refl c : shape c c.
Proof. left; reflexivity. Qed.

Lemma shape_trans a b c : shape a b -> shape b c -> shape a c.
Proof.
  unfold shape. intros [H1 | (F1 & H1 & N1)] [H2 | (F2 & H2 & N2)].
  - left; congruence.
  - right; repeat split; auto. congruence.
  - right; repeat split; auto. congruence.
  - right; repeat split; auto.
Qed.

Lemma post_refl r c : Rel r c -> Post r c r c.
Proof. intros H. repeat split; auto using shape_refl; apply H. Qed.

Lemma post_trans r c r1 c1 r2 c2 : Post r c r1 c1 -> Post r1 c1 r2 c2 -> Post r c r2 c2.
Proof.
  intros (R1 & W1 & S1 & B1 & T1) (R2 & W2 & S2 & B2 & T2).
  repeat split; try apply R2; try congruence. eapply shape_trans; eauto.
Qed.

(* the value ExceptionSave stores is one ExceptionReset may write back *)
Lemma saved_rel r c : Rel r c -> top_rel (below c) (top r) (if sx then top c else handled c).
Proof.
  intros (_ & Hb & Ht & _ & _). unfold top_rel in *. destruct sx eqn:E.
  - destruct Ht as [-> | (F & _)]; [left; reflexivity | discriminate].
  - unfold handled. destruct Ht as [-> | (_ & -> & ->)].
    + destruct (top r); [left; reflexivity | right; auto].
    + right. repeat split. destruct (below c); reflexivity.
Qed.

(* shared operations *)
Lemma lift_rel g r c : Rel r c ->
  fst (lift g c) = fst (lift g r) /\ Post r c (snd (lift g r)) (snd (lift g c)).
Proof.
  intros H. pose proof (rel_handled _ _ H) as Hh. destruct H as (Hc & Hb & Ht & Hv & Hz).
  unfold lift. rewrite <- Hh, <- Hc. destruct (g (co r) (handled r)) as [o k]. simpl.
  split; auto. repeat split; simpl; auto; left; reflexivity.
Qed.

Lemma logst_post ev r c : Rel r c -> Post r c (logst ev r) (logst ev c).
Proof.
  intros H. pose proof (rel_handled _ _ H) as Hh. destruct H as (Hc & Hb & Ht & Hv & Hz).
  unfold logst. rewrite <- Hh, <- Hc. repeat split; simpl; auto; left; reflexivity.
Qed.

Lemma reraise_dynamic_rel r c : Rel r c ->
  fst (reraise_dynamic c) = fst (reraise_dynamic r) /\
  Post r c (snd (reraise_dynamic r)) (snd (reraise_dynamic c)).
Proof.
  intros H. unfold reraise_dynamic. rewrite <- (rel_handled _ _ H).
  destruct (handled r).
  - simpl. split; auto using post_refl.
  - apply lift_rel; auto.
Qed.

Lemma reraise_res r c : Rel r c -> Res (reraise_dynamic r) (reraise_sch fx c) r c.
Proof.
  intros H. unfold reraise_sch. destruct (cur c) as [[e|]|] eqn:E.
  - (* temps live: they hold the exception in the reference top item *)
    pose proof H as (Hc & Hb & Ht & Hv & Hz). specialize (Hv e E).
    unfold reraise_dynamic, handled. rewrite Hv. right. simpl. split; auto.
    destruct fx eqn:F.
    + apply post_refl; auto.
    + repeat split; simpl; auto; try discriminate; try congruence.
      right. repeat split; auto. congruence.
  - (* zeroed temps: only without the repair *)
    destruct fx eqn:F.
    + exfalso. destruct H as (_ & _ & _ & _ & Hz). apply Hz; auto.
    + left; auto.
  - right. apply reraise_dynamic_rel; auto.
Qed.

Lemma res_trans r c r1 c1 pr pc : Post r c r1 c1 -> Res pr pc r1 c1 -> Res pr pc r c.
Proof. intros P [L | (E & Q)]; [left; auto | right; split; eauto using post_trans]. Qed.

(* writing a saved value back into the top item (ExceptionReset on an exit path) *)
Lemma post_reset r c r1 c1 sv :
  Post r c r1 c1 -> top_rel (below c) (top r) sv -> Post r c r1 (set_top sv c1).
Proof.
  intros ((Hc & Hb & Ht & Hv & Hz) & W & S & B & T) Hsv.
  repeat split; simpl; auto. rewrite B, T. exact Hsv.
Qed.

(* entering a handler / a finally clause with a pending exception: GetException *)
Lemma rel_enter r c e k : Rel r c ->
  Rel (set_co k (set_top (Some e) r)) (set_cur (Some (Some e)) (set_co k (set_top (Some e) c))).
Proof.
  intros (Hc & Hb & Ht & Hv & Hz). repeat split; simpl; auto.
  - left; reflexivity.
  - congruence.
  - discriminate.
Qed.

Lemma rel_enter0 r c e : Rel r c ->
  Rel (set_top (Some e) r) (set_cur (Some (Some e)) (set_top (Some e) c)).
Proof.
  intros (Hc & Hb & Ht & Hv & Hz). repeat split; simpl; auto.
  - left; reflexivity.
  - congruence.
  - discriminate.
Qed.

Lemma rel_set_co r c k : Rel r c -> Rel (set_co k r) (set_co k c).
Proof. intros (Hc & Hb & Ht & Hv & Hz). repeat split; simpl; auto. Qed.

(* leaving it: ExceptionReset, the enclosing handler's temps are current again *)
Lemma post_exit r c c1 r2 c2 sv :
  Rel r c -> top_rel (below c) (top r) sv ->
  wx c1 = wx c -> below c1 = below c ->
  Rel r2 c2 -> wx c2 = wx c1 -> below c2 = below c1 ->
  Post r c (set_top (top r) r2) (set_top sv (set_cur (cur c) c2)).
Proof.
  intros (Hc & Hb & Ht & Hv & Hz) Hsv W1 B1 (Hc2 & Hb2 & Ht2 & Hv2 & Hz2) W2 B2.
  repeat split; simpl; auto; try congruence.
  left; reflexivity.
Qed.

(* handler bodies for which the generated code skips GetException *)
Lemma trivial_exec : forall s, trivial (desugar s) = true ->
  exists o, o <> OCrash /\ (forall r, exec_ref s r = (o, r)) /\
            (forall c, exec_sch fx sx (desugar s) c = (o, c)).
Proof.
  induction s; simpl; intros T; try discriminate.
  - exists ONorm; repeat split; auto; discriminate.
  - apply andb_prop in T. destruct T as [T1 T2].
    destruct (IHs1 T1) as (o1 & N1 & R1 & C1). destruct (IHs2 T2) as (o2 & N2 & R2 & C2).
    destruct o1; try (eexists; repeat split; intros; try rewrite R1; try rewrite C1; try reflexivity; congruence).
    exists o2. repeat split; auto; intros; [rewrite R1; apply R2 | rewrite C1; apply C2].
  - exists ORet; repeat split; auto; discriminate.
Qed.

Definition PS (s : stmt) : Prop :=
  forall r c, Rel r c -> Res (exec_ref s r) (exec_sch fx sx (desugar s) c) r c.
Definition PH (hs : handlers) : Prop :=
  forall e sv r c, Rel r c -> top_rel (below c) (top r) sv ->
    Res (handle_ref hs e r) (handle_sch fx sx (desugar_h hs) e sv c) r c.

Ltac ih IH rr cc HR :=
  let H := fresh "IHr" in
  pose proof (IH rr cc HR) as H;
  destruct (exec_ref _ rr) as [?o ?r] eqn:?; destruct (exec_sch _ _ _ cc) as [?o ?c] eqn:?;
  destruct H as [[? ?] | (? & ?)]; simpl in *; subst.

Ltac ihg IH HRe :=
  match goal with |- context [exec_ref _ ?rr] =>
  match goal with |- context [exec_sch _ _ _ ?cc] =>
    let H := fresh "IHr" in
    pose proof (IH rr cc HRe) as H;
    destruct (exec_ref _ rr) as [?o ?r] eqn:?; destruct (exec_sch _ _ _ cc) as [?o ?c] eqn:?;
    destruct H as [[? ?] | (? & ?)]; simpl in *; subst
  end end.

Ltac nocrash :=
  exfalso;
  match goal with
  | H : exec_ref ?s ?r = (OCrash, _) |- _ =>
      apply (proj1 ref_no_crash s r); rewrite H; reflexivity
  | H : handle_ref ?hs ?e ?r = (OCrash, _) |- _ =>
      apply (proj2 ref_no_crash hs e r); rewrite H; reflexivity
  end.

Lemma rel_set_wx r c w : Rel r c -> Rel r (set_wx w c).
Proof. intros (Hc & Hb & Ht & Hv & Hz). repeat split; simpl; auto. Qed.

Lemma post_intro r c r' c' :
  Rel r' c' -> wx c' = wx c -> shape c c' -> below c' = below c -> top r' = top r -> Post r c r' c'.
Proof. intros; repeat split; auto; apply H. Qed.

Lemma lift_frame g st :
  cur (snd (lift g st)) = cur st /\ below (snd (lift g st)) = below st /\
  top (snd (lift g st)) = top st /\ wx (snd (lift g st)) = wx st.
Proof. unfold lift. destruct (g (co st) (handled st)); simpl; auto. Qed.

(* the end of a with-block: the scheme puts the statement's own exit_var flag back *)
Lemma res_close r c r' c' o :
  Rel r' c' -> shape c c' -> below c' = below c -> top r' = top r ->
  Res (o, r') (o, set_wx (wx c) c') r c.
Proof.
  intros HR' S B T. right. split; auto. cbn [snd].
  apply post_intro; auto using rel_set_wx.
Qed.

(* leaving the implicit handler / the pending-exception part of a with-block *)
Lemma rel_exit r1 c1 rX cY sv :
  Rel r1 c1 -> co rX = co cY -> below rX = below r1 -> below cY = below c1 ->
  top_rel (below c1) (top r1) sv ->
  Rel (set_top (top r1) rX) (set_top sv (set_cur (cur c1) cY)).
Proof.
  intros (Hc & Hb & Ht & Hv & Hz) Hco B1 B2 Hsv. repeat split; simpl; auto; try congruence.
Qed.

Lemma rel_reset r1 c1 sv : Rel r1 c1 -> top_rel (below c1) (top r1) sv -> Rel r1 (set_top sv c1).
Proof. intros (Hc & Hb & Ht & Hv & Hz) Hsv. repeat split; simpl; auto. Qed.

(* __exit__(None, None, None) after a body that was left without an exception *)
Lemma with_exit_none k x r c r1 cA o :
  Rel r1 cA -> shape c cA -> below cA = below c -> top r1 = top r ->
  (forall e, o <> ORaise e) ->
  Res (match x with
       | XRaise n => lift (raise_internal n) (logst (ev_exit k None) r1)
       | _ => (o, logst (ev_exit k None) r1)
       end)
      (let (o', c2) :=
         (let (o2, c3) :=
            match x with
            | XRaise n => lift (raise_internal n) (logst (ev_exit k None) (set_wx false cA))
            | _ => (ONorm, logst (ev_exit k None) (set_wx false cA))
            end in (after o o2, c3)) in
       (o', set_wx (wx c) c2)) r c.
Proof.
  intros HRA S B T NR.
  assert (HRL : Rel (logst (ev_exit k None) r1) (logst (ev_exit k None) (set_wx false cA))).
  { apply (logst_post (ev_exit k None) r1 (set_wx false cA)). apply rel_set_wx; auto. }
  destruct x as [| |n].
  - cbn [after]. apply res_close; auto.
  - cbn [after]. apply res_close; auto.
  - destruct (lift_rel (raise_internal n) _ _ HRL) as (E & P).
    destruct (lift_frame (raise_internal n) (logst (ev_exit k None) r1)) as (_ & _ & T3 & _).
    destruct (lift_frame (raise_internal n) (logst (ev_exit k None) (set_wx false cA))) as (C3 & B3 & _ & _).
    destruct (lift_raise_internal_oc n (logst (ev_exit k None) r1)) as [e2 He2].
    destruct (lift (raise_internal n) (logst (ev_exit k None) r1)) as [o1 r3].
    destruct (lift (raise_internal n) (logst (ev_exit k None) (set_wx false cA))) as [o2 c3].
    cbn [fst snd] in *. subst o2. subst o1.
    replace (after o (ORaise e2)) with (ORaise e2) by (destruct o; reflexivity).
    apply res_close.
    + apply P.
    + unfold shape in *. rewrite C3. exact S.
    + rewrite B3. exact B.
    + rewrite T3. exact T.
Qed.

Lemma main : (forall s, PS s) /\ (forall hs, PH hs).
Proof.
  apply stmt_handlers_ind; unfold PS, PH.
  - (* SSkip *) intros r c HR. right. simpl. split; auto using post_refl.
  - (* SLog *) intros n r c HR. right. simpl. split; auto using logst_post.
  - (* SProbe *) intros r c HR. right. simpl. split; auto using logst_post.
  - (* SRaise *) intros w cz r c HR. right. simpl. apply lift_rel; auto.
  - (* SReraise *) intros r c HR. simpl. apply reraise_res; auto.
  - (* SSeq *) intros a IHa b IHb r c HR. simpl. ih IHa r c HR.
    + left; auto.
    + destruct o; try (right; split; auto; fail).
      eapply res_trans; eauto. apply IHb. apply H0.
  - (* STry *) intros body IHbody hs IHhs orelse IHorelse r c HR. simpl.
    pose proof (saved_rel _ _ HR) as Hsv.
    remember (if sx then top c else handled c) as sv eqn:Esv. clear Esv.
    ih IHbody r c HR.
    + left; auto.
    + destruct H0 as (HR1 & W1 & S1 & B1 & T1).
      assert (Hsv1 : top_rel (below c0) (top r0) sv) by (rewrite B1, T1; exact Hsv).
      assert (P1 : Post r c r0 c0) by (repeat split; auto; apply HR1).
      destruct o; try (right; split; auto; apply post_reset; auto; fail).
      * (* else clause *)
        ih IHorelse r0 c0 HR1.
        -- left; auto.
        -- assert (P2 : Post r c r1 c1) by (eapply post_trans; eauto).
           destruct o; right; split; auto; apply post_reset; auto.
      * (* handlers *)
        eapply res_trans; eauto.
  - (* SFinally *) intros body IHbody fin IHfin r c HR. simpl. ih IHbody r c HR.
    + left; auto.
    + destruct H0 as (HR1 & W1 & S1 & B1 & T1).
      assert (P1 : Post r c r0 c0) by (repeat split; auto; apply HR1).
      destruct o; try nocrash;
        try (ih IHfin r0 c0 HR1;
             [ left; auto | right; split; auto; eapply post_trans; eauto ]; fail).
      (* exception pending *)
      pose proof (rel_enter0 r0 c0 e HR1) as HRe.
      ih IHfin (set_top (Some e) r0) (set_cur (Some (Some e)) (set_top (Some e) c0)) HRe.
      * left; auto.
      * destruct H0 as (HR2 & W2 & S2 & B2 & T2). simpl in *.
        assert (PX : Post r c (set_top (top r0) r1) (set_top (top c0) (set_cur (cur c0) c1))).
        { eapply post_trans; [exact P1|].
          eapply (post_exit r0 c0 (set_cur (Some (Some e)) (set_top (Some e) c0))); eauto.
          apply HR1. }
        destruct o; try nocrash; try (right; split; auto; fail).
        destruct S2 as [S2 | (F2 & S2 & _)]; simpl in S2; rewrite S2.
        -- right; split; auto.
        -- left; auto.
  - (* SWith: WithTransform = try/finally around try/except with the implicit handler *)
    intros k x body IHb r c HR.
    cbn [desugar]. cbn [exec_ref]. cbn [exec_sch].
    set (r0 := logst (fun _ _ => EvEnter k) r).
    set (c0 := set_wx true (logst (fun _ _ => EvEnter k) c)).
    assert (P0 : Post r c r0 (logst (fun _ _ => EvEnter k) c)) by (apply logst_post; auto).
    assert (HR0 : Rel r0 c0) by (apply rel_set_wx; apply P0).
    pose proof (saved_rel _ _ HR0) as Hsv.
    remember (if sx then top c0 else handled c0) as sv eqn:Esv. clear Esv. clear P0.
    assert (Wc : wx c0 = true) by reflexivity.
    pose proof (IHb r0 c0 HR0) as IH1.
    destruct (exec_ref body r0) as [o r1] eqn:Er.
    destruct (exec_sch fx sx (desugar body) c0) as [o' c1] eqn:Ec.
    destruct IH1 as [[F1 F2] | (E1 & P1)]; cbn [fst snd] in *.
    + subst o'. left; split; auto.
    + subst o'. destruct P1 as (HR1 & W1 & S1 & B1 & T1).
      assert (Hsv1 : top_rel (below c1) (top r1) sv) by (rewrite B1, T1; exact Hsv).
      destruct o.
      * (* body completed *)
        cbn [exec_sch]. rewrite W1, Wc.
        apply with_exit_none; auto; discriminate.
      * (* exception in the body: the implicit handler calls __exit__ with the exception *)
        cbn [exec_sch handle_sch pat_matches orb negb trivial bind_opt].
        change (cur (set_cur (Some (Some e)) (set_co (co c1) (set_top (Some e) c1)))) with (Some (Some e)).
        cbv iota.
        pose proof (rel_set_wx _ _ false (rel_enter0 r1 c1 e HR1)) as HRE.
        pose proof (proj1 (logst_post (ev_exit k (Some e)) _ _ HRE)) as HRX.
        change (set_cur (Some (Some e)) (set_top (Some e) c1))
          with (set_cur (Some (Some e)) (set_co (co c1) (set_top (Some e) c1))) in HRE, HRX.
        set (rX := logst (ev_exit k (Some e)) (set_top (Some e) r1)) in *.
        set (cX := logst (ev_exit k (Some e))
                     (set_wx false (set_cur (Some (Some e)) (set_co (co c1) (set_top (Some e) c1))))) in *.
        assert (Sc : shape c (set_top sv (set_cur (cur c1) cX))) by exact S1.
        destruct x as [| |n].
        -- (* __exit__ returned false: re-raise from the handler temps *)
           unfold reraise_sch. change (cur cX) with (Some (Some e)). cbv iota.
           set (cY := if fx then cX else set_cur (Some None) cX).
           assert (EY : co cY = co cX /\ below cY = below cX) by (unfold cY; destruct (fx); auto).
           destruct EY as (EY1 & EY2).
           apply res_close.
           ++ apply rel_exit; auto; try (rewrite EY1; apply HRX); try (rewrite EY2; reflexivity).
           ++ exact S1.
           ++ cbn [below set_top set_cur]. rewrite EY2. exact B1.
           ++ exact T1.
        -- (* swallowed *)
           change (wx (set_top sv (set_cur (cur c1) cX))) with false. cbv iota. cbn [after].
           apply res_close.
           ++ apply rel_exit; auto. apply HRX.
           ++ exact S1.
           ++ exact B1.
           ++ exact T1.
        -- (* __exit__ raised *)
           destruct (lift_rel (raise_internal n) _ _ HRX) as (E & P).
           destruct (lift_frame (raise_internal n) rX) as (_ & B3r & _ & _).
           destruct (lift_frame (raise_internal n) cX) as (C3 & B3 & _ & _).
           destruct (lift_raise_internal_oc n rX) as [e2 He2].
           destruct (lift (raise_internal n) rX) as [o1 r3].
           destruct (lift (raise_internal n) cX) as [o2 c3].
           cbn [fst snd] in *. subst o2. subst o1.
           apply res_close.
           ++ apply rel_exit; auto. apply P.
           ++ exact S1.
           ++ cbn [below set_top set_cur]. rewrite B3. exact B1.
           ++ exact T1.
      * cbn [exec_sch wx set_top]. rewrite W1, Wc.
        apply with_exit_none; auto; try discriminate. apply rel_reset; auto.
      * cbn [exec_sch wx set_top]. rewrite W1, Wc.
        apply with_exit_none; auto; try discriminate. apply rel_reset; auto.
      * cbn [exec_sch wx set_top]. rewrite W1, Wc.
        apply with_exit_none; auto; try discriminate. apply rel_reset; auto.
      * exfalso. apply (proj1 ref_no_crash body r0). rewrite Er. reflexivity.
  - (* SLoop *) intros n body IHbody. induction n as [|n IHn]; intros r c HR.
    + right; simpl; split; auto using post_refl.
    + simpl. ih IHbody r c HR.
      * left; auto.
      * destruct o; try nocrash; try (right; split; auto; fail);
          (eapply res_trans; [exact H0|]; apply IHn; apply H0).
  - (* SReturn *) intros r c HR. right. simpl. split; auto using post_refl.
  - intros r c HR. right. simpl. split; auto using post_refl.
  - intros r c HR. right. simpl. split; auto using post_refl.
  - (* HNil *) intros e sv r c HR Hsv. right. simpl. split; auto.
    apply post_reset; auto using post_refl.
  - (* HCons *) intros pat name body IHbody tl IHtl e sv r c HR Hsv.
    assert (Hco : co c = co r) by (symmetry; apply HR).
    assert (Hcls : cls_of c e = cls_of r e) by (unfold cls_of; rewrite Hco; reflexivity).
    destruct name as [x|]; cbn [handle_ref handle_sch desugar_h]; rewrite Hcls;
      destruct (pat_matches pat (cls_of r e)); try (apply IHtl; auto; fail).
    + (* except .. as x: the body is wrapped in try/finally: del x *)
      cbn [orb exec_sch bind_opt unbind_opt]. rewrite Hco.
      pose proof (rel_enter r c e (bind x e (co r)) HR) as HRe.
      ihg IHbody HRe.
      * left; auto.
      * destruct H0 as (HR2 & W2 & S2 & B2 & T2). simpl in *.
        assert (PX : Post r c (set_top (top r) (set_co (unbind x (co r0)) r0))
                       (set_top sv (set_cur (cur c) (set_co (unbind x (co c0)) c0)))).
        { eapply (post_exit r c (set_cur (Some (Some e)) (set_co (bind x e (co r)) (set_top (Some e) c))));
            eauto.
          replace (co c0) with (co r0) by apply HR2. apply rel_set_co; auto. }
        destruct o; try nocrash; right; split; auto; exact PX.
    + cbn [orb bind_opt unbind_opt]. destruct (trivial (desugar body)) eqn:Tr; cbn [negb].
      * (* GetException skipped: the body cannot observe the exception state *)
        destruct (trivial_exec body Tr) as (o & No & Er & Ec). rewrite Er, Ec.
        assert (PX : Post r c (set_top (top r) (set_co (co (set_co (co r) (set_top (Some e) r)))
                                                     (set_co (co r) (set_top (Some e) r))))
                       (set_top sv c)).
        { apply post_reset; auto. destruct HR as (Hc & Hb & Ht & Hv & Hz).
          repeat split; simpl; auto. left; reflexivity. }
        destruct o; try congruence; right; split; auto; exact PX.
      * rewrite Hco.
        pose proof (rel_enter r c e (co r) HR) as HRe.
        ihg IHbody HRe.
        -- left; auto.
        -- destruct H0 as (HR2 & W2 & S2 & B2 & T2). simpl in *.
           assert (PX : Post r c (set_top (top r) (set_co (co r0) r0))
                          (set_top sv (set_cur (cur c) c0))).
           { eapply (post_exit r c (set_cur (Some (Some e)) (set_co (co r) (set_top (Some e) c))));
               eauto. }
           destruct o; try nocrash; right; split; auto; exact PX.
Qed.


Lemma rel_init h t b : Rel (init_state h t b) (init_state h t b).
Proof. repeat split; simpl; auto; try discriminate. left; reflexivity. Qed.

End Main.

(* ---------- the statements used by Prop/C22.v ---------- *)

(* observable part of a run: outcome (with the identity of the propagating exception), the core
   (heap = __context__/__cause__/__suppress_context__ of every exception, names, log with every
   probe and every heap snapshot) and what sys.exc_info() shows afterwards *)
Definition same_obs (pr pc : oc * state) : Prop :=
  fst pc = fst pr /\ co (snd pc) = co (snd pr) /\ handled (snd pc) = handled (snd pr).

Theorem scheme_refines_reference_core : forall fx sx s r c,
  Rel fx sx r c ->
  (fx = false /\ fst (exec_sch fx sx (desugar s) c) = OCrash) \/
  same_obs (exec_ref s r) (exec_sch fx sx (desugar s) c).
Proof.
  intros fx sx s r c HR.
  destruct (proj1 (main fx sx) s r c HR) as [L | (E & (HR' & _))]; [left; auto | right].
  repeat split; auto.
  - symmetry; apply HR'.
  - symmetry; eapply rel_handled; eauto.
Qed.

(* with the repaired ReraiseStatNode: every program of the fragment, every calling context *)
Theorem repaired_matches_reference : forall sx s h t b,
  same_obs (run_ref s h t b) (run_sch true sx s h t b).
Proof.
  intros sx s h t b. unfold run_ref, run_sch.
  destruct (scheme_refines_reference_core true sx s _ _ (rel_init true sx h t b)) as [(F & _) | H];
    [discriminate | exact H].
Qed.

(* the code as it is: equal whenever the zeroed-temps state is not reached *)
Theorem current_matches_reference_unless_crash : forall sx s h t b,
  fst (run_sch false sx s h t b) <> OCrash ->
  same_obs (run_ref s h t b) (run_sch false sx s h t b).
Proof.
  intros sx s h t b NC. unfold run_ref, run_sch in *.
  destruct (scheme_refines_reference_core false sx s _ _ (rel_init false sx h t b)) as [(_ & F) | H];
    [contradiction | exact H].
Qed.

Definition reraise_twice : stmt :=
  STry (SRaise (RNew 3) NoCause)
       (HCons None None
          (SSeq (STry SReraise (HCons None None SSkip HNil) SSkip) SReraise) HNil)
       SSkip.

Theorem current_reraise_refuted :
  exists s h t b, fst (run_sch false false s h t b) = OCrash /\
                  fst (run_ref s h t b) = ORaise 0.
Proof. exists reraise_twice, [], None, None. vm_compute. auto. Qed.

(* the top exc_info item after the statement *)
Theorem top_item_restored : forall fx sx s h t b,
  (b = None \/ sx = true) ->
  fst (run_sch fx sx s h t b) <> OCrash ->
  top (snd (run_sch fx sx s h t b)) = t /\ top (snd (run_ref s h t b)) = t.
Proof.
  intros fx sx s h t b Hb NC. unfold run_ref, run_sch in *.
  destruct (proj1 (main fx sx) s _ _ (rel_init fx sx h t b)) as [(_ & F) | (E & (HR' & _ & _ & B & T))];
    [contradiction |].
  simpl in T, B. split; auto.
  destruct HR' as (_ & _ & [Ht | (Hs & Hn & Ht)] & _); rewrite Ht; auto.
  - rewrite B. destruct Hb as [-> | Hb]; [congruence | congruence].
Qed.

Definition catch_one : stmt := STry (SRaise (RNew 3) NoCause) (HCons None None SSkip HNil) SSkip.
Definition outer_obj : eobj := mkobj 9 true None None false.

Theorem top_item_refuted :
  exists s h t b fx, fst (run_sch fx false s h t b) <> OCrash /\
    top (snd (run_sch fx false s h t b)) <> top (snd (run_ref s h t b)).
Proof. exists catch_one, [outer_obj], None, (Some 0), true. vm_compute. repeat split; discriminate. Qed.

(* try/finally of the generated code *)
Theorem finally_runs_once : forall fx sx body fin c o c1,
  exec_sch fx sx body c = (o, c1) -> o <> OCrash ->
  exists cin pending,
    co cin = co c1 /\
    (fst (exec_sch fx sx (CFinally true body fin) c) = OCrash \/
     (fst (exec_sch fx sx (CFinally true body fin) c) = after pending (fst (exec_sch fx sx fin cin)) /\
      co (snd (exec_sch fx sx (CFinally true body fin) c)) = co (snd (exec_sch fx sx fin cin)))).
Proof.
  intros fx sx body fin c o c1 E NC. simpl. rewrite E.
  destruct o; try congruence;
    try (exists c1; eexists; split; [reflexivity|]; right;
         destruct (exec_sch fx sx fin c1) as [o2 c2]; simpl; split; reflexivity).
  exists (set_cur (Some (Some e)) (set_top (Some e) c1)).
  destruct (exec_sch fx sx fin (set_cur (Some (Some e)) (set_top (Some e) c1))) as [o2 c2] eqn:F.
  destruct o2; simpl.
  - destruct (cur c2) as [[e'|]|]; [exists (ORaise e') | exists ONorm | exists ONorm];
      (split; [reflexivity|]); simpl; auto.
  - exists ONorm; split; [reflexivity|]; right; simpl; auto.
  - exists ONorm; split; [reflexivity|]; right; simpl; auto.
  - exists ONorm; split; [reflexivity|]; right; simpl; auto.
  - exists ONorm; split; [reflexivity|]; right; simpl; auto.
  - exists ONorm; split; [reflexivity|]; left; auto.
Qed.

Theorem return_in_finally_swallows : forall fx sx body fin c e c1 c2,
  exec_sch fx sx body c = (ORaise e, c1) ->
  exec_sch fx sx fin (set_cur (Some (Some e)) (set_top (Some e) c1)) = (ORet, c2) ->
  exec_sch fx sx (CFinally true body fin) c = (ORet, set_top (top c1) (set_cur (cur c1) c2)).
Proof. intros fx sx body fin c e c1 c2 E F. simpl. rewrite E, F. reflexivity. Qed.
