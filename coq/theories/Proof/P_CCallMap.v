(* P_CCallMap - proofs about the model of GeneralCallNode.map_to_simple_call_node (C20):
   for every well-formed call the mapped argument list is the declared binding and the evaluation
   order (temps, then the arguments left in place) visits the non-simple arguments in call order. *)
From Coq Require Import List Bool Arith Lia Sorted Permutation.
From CyVerif Require Import Model.M_CCallMap.
Import ListNotations.

(* ---------- small list facts ---------- *)
Lemma memb_In x l : memb x l = true <-> In x l.
Proof.
  induction l as [|y r IH]; simpl; [split; [discriminate | tauto]|].
  rewrite orb_true_iff, IH, Nat.eqb_eq. tauto.
Qed.

Lemma memb_false x l : memb x l = false <-> ~ In x l.
Proof.
  rewrite <- memb_In. destruct (memb x l).
  - split; [discriminate | intros H; exfalso; apply H; reflexivity].
  - split; [intros _; discriminate | reflexivity].
Qed.

Lemma nodupb_NoDup l : nodupb l = true -> NoDup l.
Proof.
  induction l as [|x r IH]; simpl; intros H; constructor; apply andb_true_iff in H; destruct H as [H1 H2]; auto.
  apply negb_true_iff in H1. apply memb_false. exact H1.
Qed.

Lemma index_of_Some d l : forall i, index_of d l = Some i -> i < length l /\ nth i l 0 = d.
Proof.
  induction l as [|x r IH]; simpl; intros i H; [discriminate|].
  destruct (Nat.eqb_spec x d).
  - injection H as <-. split; [lia | auto].
  - destruct (index_of d r) as [j|]; [|discriminate]. injection H as <-.
    destruct (IH j eq_refl). split; [lia | auto].
Qed.

Lemma index_of_None d l : index_of d l = None -> ~ In d l.
Proof.
  induction l as [|x r IH]; simpl; intros H; [tauto|].
  destruct (Nat.eqb_spec x d); [discriminate|].
  destruct (index_of d r); [discriminate|]. intros [E|E]; [auto | apply IH; auto].
Qed.

Lemma index_of_nth l : NoDup l -> forall i, i < length l -> index_of (nth i l 0) l = Some i.
Proof.
  induction 1 as [|x r Hx Hr IH]; simpl; intros i Hi; [lia|].
  destruct i as [|i].
  - rewrite Nat.eqb_refl. reflexivity.
  - destruct (Nat.eqb_spec x (nth i r 0)) as [E|E].
    + exfalso. apply Hx. rewrite E. apply nth_In. lia.
    + rewrite IH by lia. reflexivity.
Qed.

Lemma filter_true {A} (f : A -> bool) l : (forall x, In x l -> f x = true) -> filter f l = l.
Proof.
  induction l as [|x r IH]; simpl; intros H; auto.
  rewrite (H x) by auto. f_equal. apply IH. auto.
Qed.

Lemma filter_false {A} (f : A -> bool) l : (forall x, In x l -> f x = false) -> filter f l = [].
Proof.
  induction l as [|x r IH]; simpl; intros H; auto.
  rewrite (H x) by auto. apply IH. auto.
Qed.

Lemma filter_idem {A} (f : A -> bool) l : filter f (filter f l) = filter f l.
Proof. apply filter_true. intros x H. apply filter_In in H. tauto. Qed.

Lemma NoDup_filter' {A} (f : A -> bool) l : NoDup l -> NoDup (filter f l).
Proof.
  induction 1 as [|x r Hx Hr IH]; simpl; [constructor|].
  destruct (f x); auto. constructor; auto. intro H. apply filter_In in H. tauto.
Qed.

Lemma NoDup_app' {A} (l1 l2 : list A) :
  NoDup l1 -> NoDup l2 -> (forall x, In x l1 -> ~ In x l2) -> NoDup (l1 ++ l2).
Proof.
  induction 1 as [|x r Hx Hr IH]; simpl; intros H2 D; auto.
  constructor.
  - rewrite in_app_iff. intros [H|H]; [auto | apply (D x); auto].
  - apply IH; auto.
Qed.

(* ---------- sorting ---------- *)
Lemma insert_perm x l : Permutation (insert x l) (x :: l).
Proof.
  induction l as [|y r IH]; simpl; auto.
  destruct (Nat.leb x y); auto.
  eapply perm_trans; [apply perm_skip; exact IH | apply perm_swap].
Qed.

Lemma isort_perm l : Permutation (isort l) l.
Proof.
  induction l as [|x r IH]; simpl; auto.
  eapply perm_trans; [apply insert_perm | apply perm_skip; exact IH].
Qed.

Lemma insert_sorted x l : StronglySorted le l -> StronglySorted le (insert x l).
Proof.
  induction 1 as [|y r Hr IH Hy]; simpl.
  - constructor; constructor.
  - destruct (Nat.leb_spec x y).
    + constructor; [constructor; auto|]. constructor; auto.
      eapply Forall_impl; [|exact Hy]. intros; lia.
    + constructor; auto.
      eapply Permutation_Forall; [apply Permutation_sym, insert_perm|]. constructor; [lia | auto].
Qed.

Lemma isort_sorted l : StronglySorted le (isort l).
Proof. induction l; simpl; [constructor | apply insert_sorted; auto]. Qed.

Lemma sorted_lt_of_le l : StronglySorted le l -> NoDup l -> StronglySorted lt l.
Proof.
  induction 1 as [|x r Hr IH Hx]; intros N; constructor; inversion N; subst; auto.
  rewrite Forall_forall in *. intros y Hy. specialize (Hx y Hy).
  assert (x <> y) by (intros ->; auto). lia.
Qed.

Lemma sorted_lt_unique l1 : forall l2,
  StronglySorted lt l1 -> StronglySorted lt l2 -> (forall x, In x l1 <-> In x l2) -> l1 = l2.
Proof.
  induction l1 as [|a r1 IH]; intros l2 S1 S2 E.
  - destruct l2 as [|b r2]; auto. exfalso. apply (E b). left; auto.
  - destruct l2 as [|b r2]; [exfalso; apply (E a); left; auto|].
    inversion S1 as [|? ? S1' F1]; subst. inversion S2 as [|? ? S2' F2]; subst.
    rewrite Forall_forall in F1, F2.
    assert (a = b).
    { destruct (proj1 (E a) (or_introl eq_refl)) as [|Ha]; auto.
      destruct (proj2 (E b) (or_introl eq_refl)) as [|Hb]; auto.
      specialize (F1 b Hb). specialize (F2 a Ha). lia. }
    subst b. f_equal. apply IH; auto.
    intros x. split; intros H.
    + destruct (proj1 (E x) (or_intror H)) as [->|]; auto. specialize (F1 x H). lia.
    + destruct (proj2 (E x) (or_intror H)) as [->|]; auto. specialize (F2 x H). lia.
Qed.

Lemma seq_sorted a n : StronglySorted lt (seq a n).
Proof.
  revert a. induction n as [|n IH]; intros a; simpl; constructor; auto.
  rewrite Forall_forall. intros x H. apply in_seq in H. lia.
Qed.

Lemma filter_sorted (f : nat -> bool) l : StronglySorted lt l -> StronglySorted lt (filter f l).
Proof.
  induction 1 as [|x r Hr IH Hx]; simpl; [constructor|].
  destruct (f x); auto. constructor; auto.
  rewrite Forall_forall in *. intros y Hy. apply filter_In in Hy. apply Hx. tauto.
Qed.

(* sorting a duplicate-free list that has the elements of a strictly increasing one yields that list *)
Lemma isort_is l l' :
  NoDup l -> StronglySorted lt l' -> (forall x, In x l <-> In x l') -> isort l = l'.
Proof.
  intros N S E. apply sorted_lt_unique; auto.
  - apply sorted_lt_of_le; [apply isort_sorted|].
    eapply Permutation_NoDup; [apply Permutation_sym, isort_perm | exact N].
  - intros x. rewrite <- E. split; apply Permutation_in; [apply isort_perm | apply Permutation_sym, isort_perm].
Qed.

(* ---------- the loops of the mapping ---------- *)
Lemma inorder_prefix_spec ndecl l : forall d i,
  i < inorder_prefix ndecl d l -> nth i l 0 = d + i /\ d + i < ndecl.
Proof.
  induction l as [|x r IH]; simpl; intros d i H; [lia|].
  destruct (Nat.eqb_spec x d); simpl in H; [|lia].
  destruct (Nat.ltb_spec d ndecl); simpl in H; [|lia].
  destruct i as [|i]; [subst; split; [auto | lia]|].
  destruct (IH (S d) i ltac:(lia)) as [A B]. split; [rewrite A|]; lia.
Qed.

Lemma inorder_prefix_le ndecl l : forall d, inorder_prefix ndecl d l <= length l.
Proof.
  induction l as [|x r IH]; simpl; intros d; [lia|].
  destruct (Nat.eqb x d && Nat.ltb d ndecl); [specialize (IH (S d)); lia | lia].
Qed.

Lemma before_first_filter (f : nat -> bool) l : forall first t,
  filter f l = first :: t -> filter f (before_first first l) = [].
Proof.
  induction l as [|x r IH]; simpl; intros first t H; [discriminate|].
  destruct (f x) eqn:Fx.
  - injection H as -> _. rewrite Nat.eqb_refl. reflexivity.
  - assert (Ff : f first = true).
    { assert (In first (filter f r)) by (rewrite H; left; auto). apply filter_In in H0. tauto. }
    destruct (Nat.eqb_spec x first) as [->|]; [congruence|].
    simpl. rewrite Fx. eapply IH; eauto.
Qed.

Lemma before_first_app l1 l2 first :
  ~ In first l1 -> before_first first (l1 ++ l2) = l1 ++ before_first first l2.
Proof.
  induction l1 as [|x r IH]; simpl; intros H; auto.
  destruct (Nat.eqb_spec x first); [exfalso; auto|]. f_equal. apply IH. tauto.
Qed.

Section Wf.
Variables (npos ndecl : nat) (names : list nat).
Hypothesis Hpos : npos <= ndecl.
Hypothesis Hnd : NoDup names.
Hypothesis Hrange : forall x, In x names -> npos <= x < ndecl.

Let pre := inorder_prefix ndecl npos names.
Let k := npos + pre.
Let m := npos + length names.

Lemma pre_le : pre <= length names.
Proof. apply inorder_prefix_le. Qed.

Lemma k_le_ndecl : k <= ndecl.
Proof.
  unfold k. destruct pre as [|p] eqn:E; [lia|].
  destruct (inorder_prefix_spec ndecl names npos p) as [_ H]; [fold pre; lia|]. lia.
Qed.

Lemma slot_pos_ge d : npos <= d -> slot_pos npos names d = option_map (Nat.add npos) (index_of d names).
Proof. intros H. unfold slot_pos. destruct (Nat.ltb_spec d npos); [lia | reflexivity]. Qed.

Lemma slot_pos_prefix d : d < k -> slot_pos npos names d = Some d.
Proof.
  intros H. unfold slot_pos. destruct (Nat.ltb_spec d npos); [reflexivity|].
  destruct (inorder_prefix_spec ndecl names npos (d - npos)) as [A _]; [fold pre; unfold k in H; lia|].
  replace (npos + (d - npos)) with d in A by lia.
  rewrite <- A. rewrite index_of_nth; auto; [simpl; f_equal; lia|].
  pose proof pre_le. unfold k in H. lia.
Qed.

Lemma slot_pos_inj d d' p : npos <= d -> npos <= d' ->
  slot_pos npos names d = Some p -> slot_pos npos names d' = Some p -> d = d'.
Proof.
  intros H H'. rewrite !slot_pos_ge by auto.
  destruct (index_of d names) as [i|] eqn:E; [|discriminate].
  destruct (index_of d' names) as [i'|] eqn:E'; [|discriminate].
  simpl. intros [= <-] [= X]. assert (i' = i) by lia. subst i'.
  destruct (index_of_Some _ _ _ E) as [_ A]. destruct (index_of_Some _ _ _ E') as [_ A']. congruence.
Qed.

Lemma ref_slots_seq : forall j fuel d,
  (forall i, i < j -> slot_pos npos names (d + i) = Some (d + i)) -> j <= fuel ->
  ref_slots npos names fuel d = seq d j ++ ref_slots npos names (fuel - j) (d + j).
Proof.
  induction j as [|j IH]; intros fuel d H Hf; simpl.
  - rewrite Nat.sub_0_r, Nat.add_0_r. reflexivity.
  - destruct fuel as [|fuel]; [lia|]. simpl.
    pose proof (H 0 ltac:(lia)) as H0. rewrite Nat.add_0_r in H0. rewrite H0. f_equal.
    rewrite (IH fuel (S d)); [|intros i Hi; specialize (H (S i) ltac:(lia)); replace (S d + i) with (d + S i) by lia; exact H | lia].
    f_equal. f_equal. lia.
Qed.

Lemma nogapb_skip : forall j fuel d,
  (forall i, i < j -> slot_pos npos names (d + i) = Some (d + i)) -> j <= fuel ->
  nogapb npos names fuel d false = true -> nogapb npos names (fuel - j) (d + j) false = true.
Proof.
  induction j as [|j IH]; intros fuel d H Hf G.
  - rewrite Nat.sub_0_r, Nat.add_0_r. exact G.
  - destruct fuel as [|fuel]; [lia|]. simpl in G.
    pose proof (H 0 ltac:(lia)) as H0. rewrite Nat.add_0_r in H0. rewrite H0 in G. simpl in G.
    replace (S fuel - S j) with (fuel - j) by lia. replace (d + S j) with (S d + j) by lia.
    apply IH; auto; [|lia]. intros i Hi. specialize (H (S i) ltac:(lia)).
    replace (S d + i) with (d + S i) by lia. exact H.
Qed.

Lemma nogapb_missing : forall fuel d, nogapb npos names fuel d true = true ->
  forall d', d <= d' < d + fuel -> slot_pos npos names d' = None.
Proof.
  induction fuel as [|fuel IH]; intros d G d' Hd; [lia|]. simpl in G.
  destruct (slot_pos npos names d) eqn:E; [discriminate|].
  destruct (Nat.eq_dec d' d) as [->|]; auto. apply (IH (S d)); auto. lia.
Qed.

Lemma scan_rel : forall fuel d missing, npos <= d ->
  nogapb npos names fuel d missing = true ->
  ooo_scan npos names fuel d missing = Some (if missing then [] else ref_slots npos names fuel d).
Proof.
  induction fuel as [|fuel IH]; intros d missing Hd G; simpl.
  - destruct missing; reflexivity.
  - simpl in G. rewrite slot_pos_ge in * by auto.
    destruct (index_of d names) as [i|] eqn:E; simpl in *.
    + destruct missing; [discriminate|]. simpl in G.
      rewrite (IH (S d) false) by (auto; lia). reflexivity.
    + rewrite (IH (S d) true) by (auto; lia). destruct missing; reflexivity.
Qed.

Lemma ref_slots_In : forall fuel d p, In p (ref_slots npos names fuel d) ->
  exists d', d <= d' < d + fuel /\ slot_pos npos names d' = Some p.
Proof.
  induction fuel as [|fuel IH]; simpl; intros d p H; [tauto|].
  destruct (slot_pos npos names d) as [q|] eqn:E; [|destruct H].
  destruct H as [<-|H]; [exists d; split; [lia | auto]|].
  destruct (IH _ _ H) as (d' & A & B). exists d'. split; [lia | auto].
Qed.

Lemma ref_slots_complete : forall fuel d, nogapb npos names fuel d false = true ->
  forall d' p, d <= d' < d + fuel -> slot_pos npos names d' = Some p -> In p (ref_slots npos names fuel d).
Proof.
  induction fuel as [|fuel IH]; intros d G d' p Hd Hp; [lia|]. simpl in G. simpl.
  destruct (slot_pos npos names d) as [q|] eqn:E.
  - simpl in G. destruct (Nat.eq_dec d' d) as [->|]; [left; congruence|].
    right. apply (IH (S d) G d'); auto. lia.
  - destruct (Nat.eq_dec d' d) as [->|]; [congruence|].
    rewrite (nogapb_missing _ _ G d') in Hp by lia. discriminate.
Qed.

Lemma ref_slots_NoDup : forall fuel d, npos <= d -> NoDup (ref_slots npos names fuel d).
Proof.
  induction fuel as [|fuel IH]; simpl; intros d Hd; [constructor|].
  destruct (slot_pos npos names d) as [q|] eqn:E; [|constructor].
  constructor; [|apply IH; lia].
  intros H. destruct (ref_slots_In _ _ _ H) as (d' & A & B).
  assert (d = d') by (eapply slot_pos_inj; eauto; lia). lia.
Qed.

(* the out-of-order part of the argument list holds exactly the call positions k .. m-1 *)
Lemma oo_In : nogapb npos names (ndecl - k) k false = true ->
  forall p, In p (ref_slots npos names (ndecl - k) k) <-> k <= p < m.
Proof.
  intros G p. split.
  - intros H. destruct (ref_slots_In _ _ _ H) as (d' & A & B).
    rewrite slot_pos_ge in B by (unfold k in A; lia).
    destruct (index_of d' names) as [i|] eqn:E; [|discriminate]. injection B as <-.
    destruct (index_of_Some _ _ _ E) as [Hi Hn]. split; [|unfold m; lia].
    destruct (Nat.lt_ge_cases i pre) as [L|L]; [|unfold k; lia].
    destruct (inorder_prefix_spec ndecl names npos i L) as [X _]. unfold k in A. lia.
  - intros [H1 H2]. set (i := p - npos).
    assert (Hi : i < length names) by (unfold i, m in *; unfold k in H1; lia).
    set (d := nth i names 0).
    assert (Hin : In d names) by (apply nth_In; auto).
    destruct (Hrange d Hin) as [R1 R2].
    assert (Sp : slot_pos npos names d = Some p).
    { rewrite slot_pos_ge by auto. unfold d. rewrite index_of_nth by auto. simpl. f_equal.
      unfold i. unfold k in H1. lia. }
    assert (k <= d).
    { destruct (Nat.lt_ge_cases d k) as [L|L]; auto. rewrite slot_pos_prefix in Sp by auto.
      injection Sp as ->. lia. }
    apply (ref_slots_complete _ _ G d); auto. pose proof k_le_ndecl. lia.
Qed.

End Wf.

(* ---------- the theorem ---------- *)
Definition nonsimple (simple : nat -> bool) (p : nat) : bool := negb (simple p).

Lemma cc_order_nil args : cc_order [] args = args.
Proof. unfold cc_order. simpl. apply filter_true. auto. Qed.

Lemma wf_parts npos ndecl names : cc_wf npos ndecl names = true ->
  npos <= ndecl /\ NoDup names /\ (forall x, In x names -> npos <= x < ndecl) /\
  nodupb names = true /\ nogapb npos names ndecl 0 false = true.
Proof.
  unfold cc_wf. intros H. apply andb_true_iff in H. destruct H as [H G].
  apply andb_true_iff in H. destruct H as [H R]. apply andb_true_iff in H. destruct H as [P N].
  split; [apply Nat.leb_le; auto|]. split; [apply nodupb_NoDup; auto|]. split; [|auto].
  intros x Hx. rewrite forallb_forall in R. specialize (R x Hx). apply andb_true_iff in R.
  destruct R as [A B]. apply Nat.leb_le in A. apply Nat.ltb_lt in B. lia.
Qed.

Theorem ccmap_ok : forall cc_keep npos ndecl names simple,
  cc_wf npos ndecl names = true ->
  let m := npos + length names in
  let k := npos + inorder_prefix ndecl npos names in
  (cc_keep = true \/ (forall p, p < k -> simple p = true) \/ (forall p, k <= p < m -> simple p = true)) ->
  let slots := ref_slots npos names ndecl 0 in
  exists temps,
    ccmap true cc_keep npos ndecl names simple = CMOk temps slots /\
    filter (nonsimple simple) (cc_order temps slots) = filter (nonsimple simple) (seq 0 m) /\
    NoDup (cc_order temps slots) /\
    (forall p, In p (cc_order temps slots) <-> p < m) /\
    (forall p, In p slots <-> p < m) /\ length slots = m.
Proof.
  intros cc_keep npos ndecl names simple W m k Hc slots.
  destruct (wf_parts _ _ _ W) as (Hpos & Hnd & Hrange & Hndb & Hgap).
  pose proof (k_le_ndecl npos ndecl names Hpos) as Hk. fold k in Hk.
  pose proof (pre_le npos ndecl names) as Hpre.
  assert (Hpref : forall i, i < k -> slot_pos npos names (0 + i) = Some (0 + i)).
  { intros i Hi. simpl. apply (slot_pos_prefix npos ndecl names Hpos Hnd); auto. }
  assert (Sl : slots = seq 0 k ++ ref_slots npos names (ndecl - k) k).
  { unfold slots. rewrite (ref_slots_seq npos ndecl names Hpos k ndecl 0 Hpref Hk). reflexivity. }
  pose proof (nogapb_skip npos ndecl names Hpos k ndecl 0 Hpref Hk Hgap) as Hgap'. simpl in Hgap'.
  set (oo := ref_slots npos names (ndecl - k) k) in *.
  pose proof (oo_In npos ndecl names Hpos Hnd Hrange Hgap') as Hoo. fold k m oo in Hoo.
  assert (Noo : NoDup oo) by (apply (ref_slots_NoDup npos ndecl names Hpos); unfold k; lia).
  assert (Hslots : forall p, In p slots <-> p < m).
  { intros p. rewrite Sl, in_app_iff, in_seq, Hoo. unfold m, k in *. lia. }
  assert (Nslots : NoDup slots).
  { rewrite Sl. apply NoDup_app'; [apply seq_NoDup | auto|].
    intros x H1 H2. apply in_seq in H1. apply Hoo in H2. lia. }
  assert (Lslots : length slots = m).
  { rewrite <- (seq_length m 0). apply Permutation_length, NoDup_Permutation; auto; [apply seq_NoDup|].
    intros p. rewrite Hslots, in_seq. lia. }
  (* the guards of ccmap *)
  unfold ccmap.
  assert (G1 : Nat.ltb ndecl npos = false) by (apply Nat.ltb_ge; auto). rewrite G1.
  assert (G2 : existsb (fun x => Nat.ltb x npos) names = false).
  { apply not_true_is_false. intros H. apply existsb_exists in H. destruct H as (x & Hx & Hl).
    apply Nat.ltb_lt in Hl. specialize (Hrange x Hx). lia. }
  rewrite G2, Hndb. simpl.
  assert (G3 : existsb (fun x => Nat.leb ndecl x) names = false).
  { apply not_true_is_false. intros H. apply existsb_exists in H. destruct H as (x & Hx & Hl).
    apply Nat.leb_le in Hl. specialize (Hrange x Hx). lia. }
  rewrite G3. fold k.
  assert (Split : filter (nonsimple simple) (seq 0 m) =
                  filter (nonsimple simple) (seq 0 k) ++ filter (nonsimple simple) (seq k (m - k))).
  { replace m with (k + (m - k)) at 1 by (unfold m, k in *; lia). rewrite seq_app, filter_app. reflexivity. }
  destruct (Nat.leb_spec (length names) (inorder_prefix ndecl npos names)) as [Lall|Lsome].
  - (* every keyword is passed in declaration order *)
    assert (Ekm : k = m) by (unfold k, m; lia).
    assert (Eoo : oo = []).
    { destruct oo as [|p r] eqn:E; auto. exfalso. assert (In p (p :: r)) by (left; auto).
      apply Hoo in H. lia. }
    exists []. rewrite Sl, Eoo, app_nil_r, cc_order_nil.
    split; [reflexivity|]. split; [rewrite Ekm; reflexivity|]. split; [apply seq_NoDup|].
    split; [intros p; rewrite in_seq; lia|]. split; [intros p; rewrite in_seq; lia|].
    rewrite seq_length. auto.
  - rewrite (scan_rel npos ndecl names Hpos (ndecl - k) k false) by (auto; unfold k; lia). fold oo.
    destruct (filter (fun p => negb (simple p)) oo) as [|first rest] eqn:Et.
    + (* all out-of-order keyword values are simple: no temps *)
      exists []. rewrite <- Sl, cc_order_nil.
      split; [reflexivity|]. split; [|split; [auto | split; auto]].
      rewrite Split, Sl, filter_app. f_equal.
      transitivity (@nil nat); [exact Et|]. symmetry. apply filter_false.
      intros p Hp. apply in_seq in Hp.
      assert (In p oo) by (apply Hoo; unfold m, k in *; lia).
      destruct (negb (simple p)) eqn:E; auto. exfalso.
      assert (In p (filter (fun p => negb (simple p)) oo)) by (apply filter_In; auto).
      rewrite Et in H0. destruct H0.
    + (* some out-of-order keyword value goes into a temp *)
      assert (Hfirst : In first oo).
      { assert (In first (filter (fun p => negb (simple p)) oo)) by (rewrite Et; left; auto).
        apply filter_In in H. tauto. }
      assert (Bf : before_first first (seq 0 k ++ oo) = seq 0 k ++ before_first first oo).
      { apply before_first_app. intros H. apply in_seq in H. apply Hoo in Hfirst. lia. }
      rewrite Bf, filter_app, (before_first_filter _ oo first rest Et), app_nil_r.
      assert (Sorted : isort (first :: rest) = filter (nonsimple simple) (seq k (m - k))).
      { rewrite <- Et. apply isort_is.
        - apply NoDup_filter'. auto.
        - apply filter_sorted, seq_sorted.
        - intros x. unfold nonsimple. rewrite !filter_In, in_seq, Hoo. unfold m, k in *. intuition lia. }
      rewrite Sorted.
      set (T := filter (fun p => negb (simple p)) (seq 0 k) ++ filter (nonsimple simple) (seq k (m - k))).
      assert (ET : T = filter (nonsimple simple) (seq 0 m)) by (rewrite Split; reflexivity).
      assert (Args : (match filter (fun p => negb (simple p)) (seq 0 k) with
                      | [] => seq 0 k ++ oo
                      | _ :: _ => if cc_keep then seq 0 k ++ oo else seq 0 k ++ before_first first oo
                      end) = slots).
      { rewrite Sl. destruct (filter (fun p => negb (simple p)) (seq 0 k)) as [|q r] eqn:En; auto.
        destruct Hc as [->|[Hc|Hc]]; auto.
        - exfalso. assert (In q (filter (fun p => negb (simple p)) (seq 0 k))) by (rewrite En; left; auto).
          apply filter_In in H. destruct H as [H1 H2]. apply in_seq in H1. rewrite Hc in H2 by lia. discriminate.
        - exfalso. assert (In first (filter (fun p => negb (simple p)) oo)) by (rewrite Et; left; auto).
          apply filter_In in H. destruct H as [H1 H2]. apply Hoo in H1. rewrite Hc in H2 by lia. discriminate. }
      rewrite Args. exists T. split; [reflexivity|].
      assert (InT : forall p, In p T <-> p < m /\ simple p = false).
      { intros p. rewrite ET. unfold nonsimple. rewrite filter_In, in_seq, negb_true_iff. intuition lia. }
      assert (Rest : forall p, In p (filter (fun p => negb (memb p T)) slots) <-> p < m /\ simple p = true).
      { intros p. rewrite filter_In, Hslots, negb_true_iff, memb_false, InT.
        destruct (simple p); intuition congruence. }
      unfold cc_order. split; [|split; [|split; [|auto]]].
      * rewrite filter_app. rewrite ET at 1. rewrite filter_idem, <- ET.
        rewrite (filter_false (nonsimple simple) (filter _ slots)); [apply app_nil_r|].
        intros p Hp. apply Rest in Hp. unfold nonsimple. destruct Hp as [_ ->]. reflexivity.
      * apply NoDup_app'.
        -- rewrite ET. apply NoDup_filter', seq_NoDup.
        -- apply NoDup_filter'. auto.
        -- intros p Hp Hq. apply InT in Hp. apply Rest in Hq. destruct Hp, Hq. congruence.
      * intros p. rewrite in_app_iff, InT, Rest. destruct (simple p); intuition congruence.
Qed.

(* the temp-sorting step is needed: without it (the seeded variant) the temps follow the declaration *)
Lemma ccmap_unsorted_w :
  ccmap false false 0 3 [2; 1; 0] (fun _ => false) = CMOk [2; 1; 0] [2; 1; 0] /\
  ccmap true false 0 3 [2; 1; 0] (fun _ => false) = CMOk [0; 1; 2] [2; 1; 0].
Proof. split; reflexivity. Qed.

(* the argument list is cut at the first temp when a non-simple argument precedes it (as is) *)
Lemma ccmap_truncated_w :
  ccmap true false 1 3 [2; 1] (fun _ => false) = CMOk [0; 1; 2] [0] /\
  ccmap true true 1 3 [2; 1] (fun _ => false) = CMOk [0; 1; 2] [0; 2; 1] /\
  ref_slots 1 [2; 1] 3 0 = [0; 2; 1].
Proof. repeat split; reflexivity. Qed.

(* when every keyword is passed in declaration order the mapping does not look at the arguments *)
Lemma ccmap_inorder s kp npos ndecl names simple simple' :
  length names <= inorder_prefix ndecl npos names ->
  ccmap s kp npos ndecl names simple = ccmap s kp npos ndecl names simple'.
Proof.
  intros H. unfold ccmap. apply Nat.leb_le in H. rewrite H.
  destruct (Nat.ltb ndecl npos); auto.
Qed.
