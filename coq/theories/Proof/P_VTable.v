From Coq Require Import ZArith List Bool Lia.
From CyVerif Require Import Model.M_Override Model.M_VTable Proof.P_Override.
Import ListNotations.
Local Open Scope nat_scope.

(* ---------- part 1: the vtable of a chain ---------- *)
Definition ent_for (askip : bool) (k : nat) (ov : bool) (s : slot) : Prop :=
  exists oa, s_ent s = EAdapt k (if s_ov s then SkFwd else if ov then SkConst askip else SkNone) oa.

(* after the most-derived declaration (k, ov, f): head slot = k's own function, every older slot an
   adapter to it; older slots are never more overridable than the implementation *)
Definition good (askip : bool) (vt : vtable) (st : dstate) : Prop :=
  match st with
  | None => vt = []
  | Some (k, ov, f) =>
      exists hd r, vt = hd :: r /\ s_ent hd = EImpl k /\ s_ov hd = ov /\ s_fin hd = f /\
                   Forall (fun s => ent_for askip k ov s /\ (s_ov s = true -> ov = true)) r
  end.

Lemma adapt_all askip i ov n l :
  (forall s, In s l -> s_ov s = true -> ov = true) ->
  Forall (fun s => ent_for askip i ov s /\ (s_ov s = true -> ov = true)) (map (mk_adapt askip i ov n) l).
Proof.
  intros H. apply Forall_forall. intros x Hx. apply in_map_iff in Hx as (s & <- & Hs).
  split; [eexists; cbn; reflexivity|]. cbn. apply (H s Hs).
Qed.

Lemma declare_good askip i ov n f vt st :
  good askip vt st ->
  match st with Some (_, ov0, f0) => negb f0 && implb ov0 ov | None => true end = true ->
  good askip (declare askip i (VDecl ov n f) vt) (Some (i, ov, f)).
Proof.
  intros G Hok. destruct st as [[[k0 ov0] f0]|]; cbn [good] in G.
  - destruct G as (hd & r & -> & He & Hov & Hf & Hr).
    apply andb_true_iff in Hok as [_ Himp].
    assert (Hmono : forall s, In s (hd :: r) -> s_ov s = true -> ov = true).
    { intros s [<-|Hs] E.
      - rewrite Hov in E. rewrite E in Himp. exact Himp.
      - rewrite Forall_forall in Hr. destruct (Hr s Hs) as [_ Hm]. rewrite (Hm E) in Himp. exact Himp. }
    cbn [declare]. destruct (Bool.eqb (s_ov hd) ov && Nat.eqb (s_nopt hd) n).
    + cbn [good]. eexists _, _. split; [reflexivity|]. cbn. repeat (split; [reflexivity|]).
      apply adapt_all. intros s Hs. apply Hmono. now right.
    + cbn [good]. eexists _, _. split; [reflexivity|]. cbn [s_ent s_ov s_fin]. repeat (split; [reflexivity|]).
      apply adapt_all. exact Hmono.
  - subst vt. cbn. eexists _, _. split; [reflexivity|]. cbn. repeat (split; [reflexivity|]). constructor.
Qed.

Lemma build_good askip : forall ch vt st, good askip vt st -> wf_chain ch st = true ->
  good askip (build askip ch vt) (last_decl ch st).
Proof.
  induction ch as [|[i d] ch IH]; intros vt st G W; [exact G|].
  destruct d as [|ov n f].
  - cbn in *. apply IH; assumption.
  - cbn [wf_chain] in W. apply andb_true_iff in W as [W1 W2].
    cbn [build last_decl fold_left]. change (upd_st st (i, VDecl ov n f)) with (Some (i, ov, f)).
    apply IH; [|exact W2]. apply (declare_good askip i ov n f vt st G W1).
Qed.

Lemma run_good vt k ov f s : good false vt (Some (k, ov, f)) -> In s vt ->
  run_entry s = if ov then VEntry k false else VBody k.
Proof.
  intros (hd & r & -> & He & Hov & _ & Hr) [<-|Hs].
  - unfold run_entry. rewrite He, Hov. reflexivity.
  - rewrite Forall_forall in Hr. destruct (Hr s Hs) as [[oa Ha] Hm].
    unfold run_entry. rewrite Ha. destruct (s_ov s) eqn:E.
    + rewrite (Hm eq_refl). reflexivity.
    + destruct ov; reflexivity.
Qed.

Lemma build_app askip : forall a b vt, build askip (a ++ b) vt = build askip b (build askip a vt).
Proof. induction a as [|[i d] a IH]; intros; cbn; [reflexivity|apply IH]. Qed.

Lemma split_at_app t : forall ch pre post, split_at t ch = Some (pre, post) -> ch = pre ++ post.
Proof.
  induction ch as [|[i d] ch IH]; intros pre post H; cbn in H; [discriminate|].
  destruct (Nat.eqb i t).
  - injection H as <- <-. reflexivity.
  - destruct (split_at t ch) as [[a b]|]; [|discriminate]. injection H as <- <-. cbn. f_equal. apply IH. reflexivity.
Qed.

Lemma last_decl_app a b st : last_decl (a ++ b) st = last_decl b (last_decl a st).
Proof. apply fold_left_app. Qed.

Lemma wf_chain_app : forall a b st, wf_chain (a ++ b) st = wf_chain a st && wf_chain b (last_decl a st).
Proof.
  induction a as [|[i d] a IH]; intros b st; [reflexivity|].
  destruct d as [|ov n f]; cbn [app wf_chain last_decl fold_left].
  - apply IH.
  - change (upd_st st (i, VDecl ov n f)) with (Some (i, ov, f)). rewrite IH. apply andb_assoc.
Qed.

Lemma declare_len askip i d vt : length vt <= length (declare askip i d vt).
Proof.
  destruct d as [|ov n f]; cbn; [lia|]. destruct vt as [|s r]; cbn; [lia|].
  destruct (Bool.eqb (s_ov s) ov && Nat.eqb (s_nopt s) n); cbn; rewrite map_length; lia.
Qed.

Lemma build_len askip : forall ch vt, length vt <= length (build askip ch vt).
Proof.
  induction ch as [|[i d] ch IH]; intros vt; cbn; [lia|].
  pose proof (declare_len askip i d vt). pose proof (IH (declare askip i d vt)). lia.
Qed.

Lemma wf_final_no_decl : forall ch k ov, wf_chain ch (Some (k, ov, true)) = true ->
  last_decl ch (Some (k, ov, true)) = Some (k, ov, true) /\ forall askip vt, build askip ch vt = vt.
Proof.
  induction ch as [|[i d] ch IH]; intros k ov W; [split; reflexivity|].
  destruct d as [|ov' n f]; cbn in W; [|discriminate].
  destruct (IH k ov W) as [A B]. split; [exact A|]. intros. cbn. apply B.
Qed.

Lemma last_decl_some : forall ch x, exists y, last_decl ch (Some x) = Some y.
Proof.
  induction ch as [|[i d] ch IH]; intros x; [eexists; reflexivity|].
  cbn [last_decl fold_left]. destruct d; cbn; apply IH.
Qed.

(* every C-level call through a static type reaches the most-derived declaration: the cdef body,
   or the cpdef entry point with skip_dispatch = 0 (so that its override check runs) *)
Theorem vt_call_correct ch t : wf_chain ch None = true -> vt_call false ch t = vt_ref ch t.
Proof.
  intros W. unfold vt_call, vt_ref. destruct (split_at t ch) as [[pre post]|] eqn:Es; [|reflexivity].
  apply split_at_app in Es. subst ch. rewrite wf_chain_app in W. apply andb_true_iff in W as [Wa Wb].
  pose proof (build_good false pre [] None eq_refl Wa) as Gp.
  rewrite last_decl_app.
  destruct (last_decl pre None) as [[[k ov] f]|] eqn:Ep.
  2:{ cbn in Gp. rewrite Gp. reflexivity. }
  pose proof Gp as (hd & r & Evt & He & Hov & Hf & Hr). rewrite Evt. rewrite <- Evt.
  rewrite Hf. destruct f.
  - destruct (wf_final_no_decl post k ov Wb) as [A _]. rewrite A.
    rewrite (run_good _ k ov true hd Gp) by (rewrite Evt; now left). destruct ov; reflexivity.
  - pose proof (build_good false post _ _ Gp Wb) as Gd.
    destruct (last_decl_some post (k, ov, false)) as [[[k' ov'] f'] Ey]. rewrite Ey in *.
    pose proof (build_len false post (build false pre [])) as Hl.
    assert (Hpos : 0 < length (build false pre [])) by (rewrite Evt; cbn; lia).
    destruct (nth_error (build false post (build false pre []))
                (length (build false post (build false pre [])) - length (build false pre []))) as [s|] eqn:En.
    + apply nth_error_In in En. rewrite (run_good _ k' ov' f' s Gd En). destruct ov'; reflexivity.
    + apply nth_error_None in En. lia.
Qed.

(* the adapter passing skip_dispatch = 1 (the override check of the implementation is skipped) *)
Theorem vt_call_askip_refuted : exists ch t, wf_chain ch None = true /\ vt_call true ch t <> vt_ref ch t.
Proof.
  exists [(0, VDecl false 0 false); (1, VDecl true 0 false)], 0.
  split; [reflexivity|]. vm_compute. discriminate.
Qed.

Lemma vt_ref_inv ch t r : vt_ref ch t = Some r ->
  (exists k f, r = VEntry k false /\ last_decl ch None = Some (k, true, f)) \/
  (exists k f, r = VBody k /\ last_decl ch None = Some (k, false, f)).
Proof.
  unfold vt_ref. destruct (split_at t ch) as [[pre post]|]; [|discriminate].
  destruct (last_decl pre None); [|discriminate].
  destruct (last_decl ch None) as [[[k [|]] f]|]; intros H; inversion H; [left|right]; eauto.
Qed.

(* ---------- part 2: composition with the override check ---------- *)
Section Compose.
Variable h : hier.
Hypothesis Hwf : wf_hier h = true.
Variable vd : list vdecl.
Hypothesis Hvt : wf_vt h vd = true.

Lemma getc_overflow i : length h <= i -> getc h i = dcls.
Proof. intros. unfold getc. apply nth_overflow. assumption. Qed.

Lemma agree_all i : agree_at h vd i = true.
Proof.
  unfold wf_vt in Hvt. apply andb_true_iff in Hvt as [H1 _]. apply andb_true_iff in H1 as [H1 _].
  apply andb_true_iff in H1 as [Hl Ha].
  destruct (lt_dec i (length h)) as [L|L].
  - rewrite forallb_forall in Ha. apply Ha. apply in_seq. lia.
  - apply Nat.leb_le in Hl. unfold agree_at. rewrite (nth_overflow vd VNone) by lia.
    rewrite getc_overflow by lia. reflexivity.
Qed.

Lemma cpdef_is_ext i : cdecl (getc h i) = MCpdef -> is_py (getc h i) = false.
Proof.
  destruct (lt_dec i (length h)) as [L|L]; [apply (wf_cpdef_ext h Hwf i L)|].
  rewrite getc_overflow by lia. discriminate.
Qed.

Lemma first_cpdef_filter : forall m,
  first_cpdef h m = first_cpdef h (filter (fun i => is_ext (getc h i)) m).
Proof.
  induction m as [|a m IH]; [reflexivity|]. cbn [filter first_cpdef].
  unfold is_ext at 1. destruct (is_py (getc h a)) eqn:Ep; cbn [negb].
  - destruct (cdecl (getc h a)) eqn:Ed; try exact IH. apply cpdef_is_ext in Ed. congruence.
  - cbn [first_cpdef]. rewrite IH. reflexivity.
Qed.

Lemma ld_first_cpdef k f : forall m,
  last_decl (map (fun i => (i, nth i vd VNone)) (rev m)) None = Some (k, true, f) -> first_cpdef h m = Some k.
Proof.
  induction m as [|a m IH]; intros H; [discriminate|].
  cbn [rev] in H. rewrite map_app, last_decl_app in H. cbn [map last_decl fold_left] in H.
  unfold upd_st in H. cbn [fst snd] in H.
  pose proof (agree_all a) as Ag. unfold agree_at in Ag. cbn [first_cpdef].
  destruct (nth a vd VNone) as [|ov n fi].
  - destruct (cdecl (getc h a)); try discriminate; apply IH; exact H.
  - inversion H. subst. destruct (cdecl (getc h k)); try discriminate. reflexivity.
Qed.

Lemma list_eqb_eq : forall a b, list_eqb a b = true -> a = b.
Proof.
  induction a as [|x a IH]; intros [|y b] H; cbn in H; try discriminate; [reflexivity|].
  apply andb_true_iff in H as [H1 H2]. apply Nat.eqb_eq in H1. subst. f_equal. apply IH, H2.
Qed.

Lemma vslot_of_chain c e k f : (c < length h)%nat -> ext_base h c = Some e ->
  last_decl (chain_of h vd e) None = Some (k, true, f) -> vslot h c = Some k.
Proof.
  intros Hc He Hl. unfold vslot. rewrite first_cpdef_filter.
  assert (Hs : shape_at h c = true).
  { unfold wf_vt in Hvt. apply andb_true_iff in Hvt as [H1 _]. apply andb_true_iff in H1 as [_ H1].
    rewrite forallb_forall in H1. apply H1. apply in_seq. lia. }
  unfold shape_at in Hs. rewrite He in Hs. apply list_eqb_eq in Hs. rewrite Hs.
  apply (ld_first_cpdef k f). exact Hl.
Qed.

Lemma chain_wf c e : (c < length h)%nat -> ext_base h c = Some e -> wf_chain (chain_of h vd e) None = true.
Proof.
  intros Hc He. unfold ext_base in He. apply find_some in He as [Hin Hext].
  pose proof (wf_mro_valid h Hwf c e Hc Hin) as Hlt.
  unfold wf_vt in Hvt. apply andb_true_iff in Hvt as [_ H1].
  rewrite forallb_forall in H1. specialize (H1 e). rewrite Hext in H1. apply H1. apply in_seq. lia.
Qed.

Variable fx : bool.

Lemma vstep_sim cached cv w s o : Inv h fx cv w -> Rel w s -> (cached = true -> cv = true) ->
  (cv = true -> match o with VBase b => leaf_op h b = true | _ => True end \/ fx = true) -> no_ext_def h = true ->
  snd (vstep_cy false cached fx h vd w o) = snd (vstep_py h vd s o) /\
  Inv h fx cv (fst (vstep_cy false cached fx h vd w o)) /\
  Rel (fst (vstep_cy false cached fx h vd w o)) (fst (vstep_py h vd s o)).
Proof.
  intros I R Hcv Hleaf Hnd. destruct o as [b|t oi].
  - cbn [vstep_cy vstep_py]. apply (step_sim h Hwf fx cached cv w s b); assumption.
  - pose proof I as [B C]. pose proof R as [Rc Ro].
    cbn [vstep_cy vstep_py fst snd]. rewrite Ro, view_nth.
    destruct (nth_error (w_objs w) oi) as [o|] eqn:Eo; cbn [fst snd]; [|split; [reflexivity|split; assumption]].
    pose proof (b_ocls h w B oi o Eo) as Hc.
    destruct (ext_base h (os_cls o)) as [e|] eqn:Ee; cbn [fst snd]; [|split; [reflexivity|split; assumption]].
    rewrite (vt_call_correct _ t (chain_wf _ _ Hc Ee)).
    destruct (vt_ref (chain_of h vd e) t) as [r|] eqn:Er; cbn [fst snd]; [|split; [reflexivity|split; assumption]].
    destruct (vt_ref_inv _ _ _ Er) as [(k & f & -> & Hl)|(k & f & -> & Hl)].
    + pose proof (vslot_of_chain _ _ _ _ Hc Ee Hl) as Hv.
      destruct (cbody_ok h Hwf fx cached cv w k oi o I Hcv Hnd Eo Hv) as (R1 & R2 & R3 & R4).
      cbn [interp_cy]. destruct (cbody cached fx h w k false oi o) as [w1 x]. cbn [fst snd] in *.
      split; [|split; [assumption|]].
      * rewrite R1. unfold dispatch_py. f_equal. f_equal. apply lookup_ext. intros c. symmetry. apply cd_rel. exact R.
      * unfold Rel. rewrite R3, R4. split; assumption.
    + cbn [interp_cy fst snd]. split; [reflexivity|split; assumption].
Qed.

Lemma vrun_sim cached cv : forall ops w s, Inv h fx cv w -> Rel w s -> (cached = true -> cv = true) ->
  (cv = true -> fx = true) -> no_ext_def h = true ->
  vrun_cy false cached fx h vd w ops = vrun_py h vd s ops.
Proof.
  induction ops as [|o ops IH]; intros w s I R Hcv Hfx Hnd; [reflexivity|].
  destruct (vstep_sim cached cv w s o I R Hcv (fun E => or_intror (Hfx E)) Hnd) as (S1 & S2 & S3).
  cbn [vrun_cy vrun_py]. rewrite S1. rewrite (IH _ _ S2 S3 Hcv Hfx Hnd). reflexivity.
Qed.
End Compose.

(* every history of class / instance mutations interleaved with Python-level calls and C-level calls
   through ANY static type of the chain: cache compiled out (default build) *)
Theorem vdispatch_eq_nocache h vd fx ops : wf_hier h = true -> wf_vt h vd = true -> no_ext_def h = true ->
  vrun_cy false false fx h vd (w0 h) ops = vrun_py h vd (p0 h) ops.
Proof.
  intros Hwf Hvt Hnd. apply (vrun_sim h Hwf vd Hvt fx false false); auto; try discriminate.
  - split; [apply base_w0; assumption|discriminate].
  - apply rel_w0.
Qed.

(* dict-version cache on, repaired variant *)
Theorem vdispatch_eq_cached_fx h vd ops : wf_hier h = true -> wf_vt h vd = true -> no_ext_def h = true ->
  vrun_cy false true true h vd (w0 h) ops = vrun_py h vd (p0 h) ops.
Proof.
  intros Hwf Hvt Hnd. apply (vrun_sim h Hwf vd Hvt true true true); auto.
  - split; [apply base_w0; assumption|intros _; apply cache_w0; assumption].
  - apply rel_w0.
Qed.

(* end to end witness for the adapter with skip_dispatch = 1:
   A: cdef m; B(A): cpdef m; class P(B) overriding m; p = P(); C call through A *)
Theorem vdispatch_askip_refuted : exists h vd ops, wf_hier h = true /\ wf_vt h vd = true /\ no_ext_def h = true /\
  vrun_cy true false false h vd (w0 h) ops <> vrun_py h vd (p0 h) ops /\
  vrun_cy false false false h vd (w0 h) ops = vrun_py h vd (p0 h) ops.
Proof.
  exists [mkcls Ext [0] MNone false NoDict; mkcls Ext [1; 0] MCpdef false NoDict; mkcls Py [2; 1; 0] (MDef 7%Z) false Managed],
         [VDecl false 0 false; VDecl true 0 false; VNone],
         [VBase (New 2); VCallT 1 0; VCallT 0 0].
  split; [vm_compute; reflexivity|]. split; [vm_compute; reflexivity|]. split; [vm_compute; reflexivity|].
  split; [vm_compute; discriminate|vm_compute; reflexivity].
Qed.
