(* The oracle of Model/M_CmpFloat.v (cross-multiplied integers) is the order of the rational n / 2^k and the
   integer z in Coq's Q.  (Separate file: QArith is not needed by the other users of P_CmpFloat.) *)
From Coq Require Import ZArith Lia.
From CyVerif Require Import Lib.CInt Lib.PyLong Model.M_CmpInt Model.M_CmpFloat.
From Coq Require Import QArith.
Open Scope Z_scope.

Definition q_of (n k : Z) : Q := Qmake n (Z.to_pos (2 ^ k)).

Lemma fz_cmp_rational n k z : 0 <= k ->
  fz_cmp (DFin n k) z = Some (Qcompare (q_of n k) (inject_Z z)).
Proof.
  intros Hk. unfold fz_cmp, Qcompare, q_of, inject_Z. cbn [Qnum Qden].
  rewrite Z2Pos.id by (apply Z.pow_pos_nonneg; lia). rewrite Z.mul_1_r. reflexivity.
Qed.

Lemma zf_cmp_rational n k z : 0 <= k ->
  zf_cmp z (DFin n k) = Some (Qcompare (inject_Z z) (q_of n k)).
Proof.
  intros Hk. unfold zf_cmp, Qcompare, q_of, inject_Z. cbn [Qnum Qden].
  rewrite Z2Pos.id by (apply Z.pow_pos_nonneg; lia). rewrite Z.mul_1_r. reflexivity.
Qed.
