(* C21 - from positions reached in the built graph (P_FlowCFG_Sim.P) to the hints computed by
   check_definitions (M_Flow.analyse on M_FlowCFG.cfg_of): a reference reached with its entry unbound
   is never classified "definitely bound". *)
From Coq Require Import NArith List Bool Arith Lia.
From CyVerif Require Import Model.M_Flow Model.M_FlowCFG Proof.P_Flow Proof.P_FlowCFG Proof.P_FlowCFG_Sim.
Import ListNotations.

(* ------------------------------------------------------------------ numbering of the definitions *)
Lemma number_stats_fst : forall ss next, map fst (fst (number_stats next ss)) = ss.
Proof.
  induction ss as [|s r IH]; intros next; simpl; auto.
  destruct (is_def s).
  - specialize (IH (S next)). destruct (number_stats (S next) r) as [l n]. simpl in *. now rewrite IH.
  - specialize (IH next). destruct (number_stats next r) as [l n]. simpl in *. now rewrite IH.
Qed.

Lemma number_stats_bounds : forall ss next,
  next <= snd (number_stats next ss) /\
  forall p, In p (fst (number_stats next ss)) -> is_def (fst p) = true ->
            next <= snd p < snd (number_stats next ss).
Proof.
  induction ss as [|s r IH]; intros next; simpl.
  - split; auto. intros p [].
  - destruct (is_def s) eqn:Ds.
    + destruct (IH (S next)) as [A B]. destruct (number_stats (S next) r) as [l n]. simpl in *.
      split; [lia|]. intros p [<-|Hp] Hd; simpl; [lia|]. specialize (B p Hp Hd). lia.
    + destruct (IH next) as [A B]. destruct (number_stats next r) as [l n]. simpl in *.
      split; [lia|]. intros p [<-|Hp] Hd; simpl in *; [congruence|]. apply B; auto.
Qed.

Lemma number_blocks_nth : forall bs start i blk, nth_error bs i = Some blk ->
  exists next, start <= next /\ next <= snd (number_blocks start bs) /\
    nth i (fst (number_blocks start bs)) [] = fst (number_stats next (b_stats blk)) /\
    snd (number_stats next (b_stats blk)) <= snd (number_blocks start bs).
Proof.
  induction bs as [|b r IH]; intros start i blk Hn; [destruct i; discriminate|].
  simpl. pose proof (number_stats_bounds (b_stats b) start) as [A _].
  destruct (number_stats start (b_stats b)) as [ns n1] eqn:E1. simpl in A.
  destruct i as [|i]; simpl in Hn.
  - inversion Hn; subst. exists start.
    destruct (number_blocks n1 r) as [l n2] eqn:E2. simpl. rewrite E1. simpl.
    assert (n1 <= n2).
    { clear - E2. revert n1 l n2 E2. induction r as [|b r IHr]; intros n1 l n2 E2; simpl in E2.
      - inversion E2; lia.
      - pose proof (number_stats_bounds (b_stats b) n1) as [A _].
        destruct (number_stats n1 (b_stats b)) as [ns n1']. destruct (number_blocks n1' r) as [l' n2'] eqn:E.
        inversion E2; subst. simpl in A. specialize (IHr _ _ _ E). lia. }
    repeat split; auto; lia.
  - destruct (IH n1 i blk Hn) as (next & H1 & H2 & H3 & H4).
    destruct (number_blocks n1 r) as [l n2]. simpl in *. exists next. repeat split; auto; lia.
Qed.

Lemma number_blocks_len : forall bs start, length (fst (number_blocks start bs)) = length bs.
Proof.
  induction bs as [|b r IH]; intros start; simpl; auto.
  destruct (number_stats start (b_stats b)) as [ns n1]. specialize (IH n1).
  destruct (number_blocks n1 r) as [l n2]. simpl in *. now rewrite IH.
Qed.

Lemma number_blocks_all : forall bs start p,
  In p (concat (fst (number_blocks start bs))) -> is_def (fst p) = true ->
  start <= snd p < snd (number_blocks start bs).
Proof.
  induction bs as [|b r IH]; intros start p Hp Hd; simpl in *; [contradiction|].
  pose proof (number_stats_bounds (b_stats b) start) as [A B].
  destruct (number_stats start (b_stats b)) as [ns n1]. specialize (IH n1 p).
  assert (n1 <= snd (number_blocks n1 r)).
  { clear. revert n1. induction r as [|b r IHr]; intros n1; simpl; auto.
    pose proof (number_stats_bounds (b_stats b) n1) as [A _].
    destruct (number_stats n1 (b_stats b)) as [ns n1']. specialize (IHr n1').
    destruct (number_blocks n1' r) as [l' n2']. simpl in *. lia. }
  destruct (number_blocks n1 r) as [l n2]. simpl in *.
  apply in_app_or in Hp. destruct Hp as [Hp|Hp].
  - specialize (B p Hp Hd). lia.
  - specialize (IH Hp Hd). lia.
Qed.

(* ------------------------------------------------------------------ Uninitialized bits *)
Lemma tb_bitN_nat j k : N.testbit (bitN j) (N.of_nat k) = (j =? k).
Proof.
  rewrite tb_bitN. destruct (Nat.eqb_spec j k) as [->|H].
  - apply N.eqb_refl. - apply N.eqb_neq. lia.
Qed.

(* the mask of an entry contains no Uninitialized bit but its own *)
Lemma mask_uninit all ne e e' : e < ne ->
  (forall p, In p all -> is_def (fst p) = true -> ne <= snd p) ->
  N.testbit (mask_of all e') (N.of_nat e) = (e' =? e).
Proof.
  intros He Hall. unfold mask_of.
  assert (G : forall l init, (forall p, In p l -> is_def (fst p) = true -> ne <= snd p) ->
    N.testbit (fold_left (fun acc p => if is_def (fst p) && (stat_entry (fst p) =? e')
                                       then N.lor acc (bitN (snd p)) else acc) l init) (N.of_nat e)
    = N.testbit init (N.of_nat e)).
  { induction l as [|p l IH]; intros init Hl; simpl; auto.
    rewrite IH by (intros; apply Hl; simpl; auto).
    destruct (is_def (fst p)) eqn:D; simpl; auto. destruct (stat_entry (fst p) =? e'); auto.
    rewrite N.lor_spec, tb_bitN_nat.
    assert (ne <= snd p) by (apply Hl; simpl; auto).
    destruct (Nat.eqb_spec (snd p) e); [lia|]. apply orb_false_r. }
  rewrite G by auto. apply tb_bitN_nat.
Qed.

(* the last definition of entry e in a block: Some None = deleted, Some (Some k) = assignment k *)
Fixpoint last_def (ns : list (stat * nat)) (e : nat) : option (option nat) :=
  match ns with
  | [] => None
  | (s, k) :: r =>
      match last_def r e with
      | Some v => Some v
      | None => match s with
                | SAssign e' => if e' =? e then Some (Some k) else None
                | SDel e' => if e' =? e then Some None else None
                | SRef _ => None
                end
      end
  end.

Lemma in_dict_set e v d e' v' :
  In (e', v') (dict_set e v d) <-> (e' = e /\ v' = v) \/ (e' <> e /\ In (e', v') d).
Proof.
  unfold dict_set. simpl. rewrite filter_In. simpl. split.
  - intros [H|[H1 H2]]; [inversion H; auto|]. right. split; auto.
    apply negb_true_iff, Nat.eqb_neq in H2. auto.
  - intros [[-> ->]|[H1 H2]]; auto. right. split; auto. apply negb_true_iff, Nat.eqb_neq. auto.
Qed.

Lemma in_gen_dict : forall ns d e v,
  In (e, v) (gen_dict ns d) <->
  last_def ns e = Some v \/ (last_def ns e = None /\ In (e, v) d).
Proof.
  induction ns as [|[s k] r IH]; intros d e v; simpl.
  - split; [auto|intros [H|[_ H]]; [discriminate|auto]].
  - destruct s as [e'|e'|e']; rewrite IH; clear IH.
    + rewrite in_dict_set. destruct (last_def r e) as [w|]; [intuition congruence|].
      destruct (Nat.eqb_spec e' e) as [->|Hne]; split.
      * intros [H|[_ [[_ ->]|[H _]]]]; [discriminate|auto|congruence].
      * intros [H|[H _]]; [inversion H; subst; right; split; auto|discriminate].
      * intros [H|[_ [[H _]|[_ H]]]]; [discriminate|congruence|auto].
      * intros [H|[_ H]]; [discriminate|]. right. split; auto.
    + rewrite in_dict_set. destruct (last_def r e) as [w|]; [intuition congruence|].
      destruct (Nat.eqb_spec e' e) as [->|Hne]; split.
      * intros [H|[_ [[_ ->]|[H _]]]]; [discriminate|auto|congruence].
      * intros [H|[H _]]; [inversion H; subst; right; split; auto|discriminate].
      * intros [H|[_ [[H _]|[_ H]]]]; [discriminate|congruence|auto].
      * intros [H|[_ H]]; [discriminate|]. right. split; auto.
    + destruct (last_def r e); intuition congruence.
Qed.

Lemma last_def_in_del : forall ns e, last_def ns e = Some None -> exists k, In (SDel e, k) ns.
Proof.
  induction ns as [|[s k'] r IH]; intros e H; simpl in *; [discriminate|].
  destruct (last_def r e) as [w|] eqn:E.
  - inversion H; subst. destruct (IH e E) as [k Hk]. exists k. now right.
  - destruct s as [e'|e'|e']; try discriminate.
    + destruct (e' =? e); discriminate.
    + destruct (Nat.eqb_spec e' e); [|discriminate]. subst. exists k'. now left.
Qed.

Lemma number_blocks_mono : forall bs start, start <= snd (number_blocks start bs).
Proof.
  induction bs as [|b r IH]; intros start; simpl; auto.
  pose proof (number_stats_bounds (b_stats b) start) as [A _].
  destruct (number_stats start (b_stats b)) as [ns n1]. specialize (IH n1).
  destruct (number_blocks n1 r) as [l n2]. simpl in *. lia.
Qed.

Lemma number_blocks_in : forall bs start ns, In ns (fst (number_blocks start bs)) ->
  exists blk, In blk bs /\ map fst ns = b_stats blk.
Proof.
  induction bs as [|b r IH]; intros start ns H; simpl in *; [contradiction|].
  pose proof (number_stats_fst (b_stats b) start) as F.
  destruct (number_stats start (b_stats b)) as [ns1 n1]. specialize (IH n1 ns).
  destruct (number_blocks n1 r) as [l n2]. simpl in *. destruct H as [<-|H].
  - exists b. split; auto.
  - destruct (IH H) as (blk & Hb & Hm). exists blk. split; auto.
Qed.

Lemma last_def_in : forall ns e k, last_def ns e = Some (Some k) -> In (SAssign e, k) ns.
Proof.
  induction ns as [|[s k'] r IH]; intros e k H; simpl in *; [discriminate|].
  destruct (last_def r e) as [w|] eqn:E.
  - inversion H; subst. right. apply IH; auto.
  - destruct s as [e'|e'|e']; try discriminate.
    + destruct (Nat.eqb_spec e' e); [|discriminate]. inversion H; subst. left; reflexivity.
    + destruct (e' =? e); discriminate.
Qed.

Section Uninit.
  Variables (mask : nat -> N) (ne : nat).
  Hypothesis mask_ok : forall e e', e < ne -> N.testbit (mask e') (N.of_nat e) = (e' =? e).

  Definition uninit_after (ns : list (stat * nat)) (e : nat) (xe : bool) : bool :=
    match last_def ns e with None => xe | Some None => true | Some (Some _) => false end.

  Lemma state_after_uninit : forall ns x e, e < ne ->
    (forall p, In p ns -> is_def (fst p) = true -> ne <= snd p) ->
    N.testbit (state_after mask ns x) (N.of_nat e) = uninit_after ns e (N.testbit x (N.of_nat e)).
  Proof.
    unfold state_after, uninit_after.
    induction ns as [|[s k] r IH]; intros x e He Hn; simpl; auto.
    rewrite IH by (auto; intros; apply Hn; simpl; auto).
    destruct (last_def r e) as [[w|]|]; auto.
    assert (Hk : is_def s = true -> ne <= k) by (intros; apply (Hn (s, k)); simpl; auto).
    destruct s as [e'|e'|e']; simpl.
    - rewrite N.lor_spec, N.ldiff_spec, mask_ok, tb_bitN_nat by auto.
      specialize (Hk eq_refl). destruct (Nat.eqb_spec k e); [lia|].
      destruct (e' =? e); destruct (N.testbit x (N.of_nat e)); reflexivity.
    - rewrite N.lor_spec, N.ldiff_spec, mask_ok, tb_bitN_nat by auto.
      destruct (e' =? e); destruct (N.testbit x (N.of_nat e)); reflexivity.
    - reflexivity.
  Qed.

  Lemma transfer_uninit ps ns x e : e < ne ->
    (forall p, In p ns -> is_def (fst p) = true -> ne <= snd p) ->
    let d := gen_dict ns [] in
    N.testbit (transfer (mk_rblock ps (gen_bits d) (kill_bits mask d [])) x) (N.of_nat e)
    = uninit_after ns e (N.testbit x (N.of_nat e)).
  Proof.
    intros He Hn d. rewrite tb_transfer. cbn [r_gen r_kill].
    assert (Hgen : N.testbit (gen_bits d) (N.of_nat e) = true <-> last_def ns e = Some None).
    { unfold gen_bits. rewrite (tb_fold_lor (fun p => match snd p with None => bitN (fst p) | Some k => bitN k end)).
      rewrite N.bits_0, orb_false_l, existsb_exists. split.
      - intros ([e' [k|]] & Hin & Ht); cbn [snd fst] in Ht; rewrite tb_bitN_nat in Ht; apply Nat.eqb_eq in Ht; subst.
        + apply in_gen_dict in Hin. destruct Hin as [Hin|[_ []]].
          apply last_def_in in Hin. specialize (Hn _ Hin eq_refl). simpl in Hn. lia.
        + apply in_gen_dict in Hin. destruct Hin as [Hin|[_ []]]. exact Hin.
      - intros H. exists (e, None). split; [apply in_gen_dict; auto|]. cbn [snd fst]. rewrite tb_bitN_nat. apply Nat.eqb_refl. }
    assert (Hkill : N.testbit (kill_bits mask d []) (N.of_nat e) = true <-> last_def ns e <> None).
    { unfold kill_bits. simpl. rewrite (tb_fold_lor (fun p => mask (fst p))).
      rewrite N.bits_0, orb_false_l, existsb_exists. split.
      - intros ([e' v] & Hin & Ht). cbn [snd fst] in Ht. rewrite mask_ok in Ht by auto. apply Nat.eqb_eq in Ht; subst.
        apply in_gen_dict in Hin. destruct Hin as [Hin|[_ []]]. congruence.
      - intros H. destruct (last_def ns e) as [v|] eqn:E; [|congruence].
        exists (e, v). split; [apply in_gen_dict; auto|]. cbn [snd fst]. rewrite mask_ok by auto. apply Nat.eqb_refl. }
    unfold uninit_after. destruct (last_def ns e) as [[k|]|] eqn:E.
    - assert (G : N.testbit (gen_bits d) (N.of_nat e) = false).
      { apply Bool.not_true_is_false. intros T. apply Hgen in T. discriminate. }
      assert (K : N.testbit (kill_bits mask d []) (N.of_nat e) = true) by (apply Hkill; discriminate).
      rewrite G, K. destruct (N.testbit x (N.of_nat e)); reflexivity.
    - assert (G : N.testbit (gen_bits d) (N.of_nat e) = true) by (apply Hgen; auto).
      rewrite G. apply orb_true_r.
    - assert (G : N.testbit (gen_bits d) (N.of_nat e) = false).
      { apply Bool.not_true_is_false. intros T. apply Hgen in T. discriminate. }
      assert (K : N.testbit (kill_bits mask d []) (N.of_nat e) = false).
      { apply Bool.not_true_is_false. intros T. apply Hkill in T. congruence. }
      rewrite G, K. destruct (N.testbit x (N.of_nat e)); reflexivity.
  Qed.
End Uninit.

(* ------------------------------------------------------------------ lengths kept by the iteration *)
Lemma rd_pass_len_ins : forall todo outs ins d outs' ins' d',
  rd_pass todo outs ins d = (outs', ins', d') -> length ins' = length ins.
Proof.
  induction todo as [|[i b] r IH]; intros outs ins d outs' ins' d' H; simpl in H.
  - now inversion H.
  - apply IH in H. now rewrite set_nth_length in H.
Qed.
Lemma rd_loop_len_ins : forall fuel todo outs ins outs' ins',
  rd_loop fuel todo outs ins = Some (outs', ins') -> length ins' = length ins.
Proof.
  induction fuel as [|f IH]; intros todo outs ins outs' ins' H; [discriminate|].
  simpl in H. destruct (rd_pass todo outs ins false) as [[o1 i1] d1] eqn:E.
  apply rd_pass_len_ins in E. destruct d1.
  - apply IH in H. congruence.
  - inversion H; subst. exact E.
Qed.
Lemma rd_len_ins nbits bs outs ins :
  reaching_definitions nbits bs = Some (outs, ins) -> length ins = length bs.
Proof. unfold reaching_definitions. intros H. apply rd_loop_len_ins in H. rewrite H. apply map_length. Qed.

Lemma nth_repeat_false n : forall e, nth e (repeat false n) false = false.
Proof. induction n as [|n IH]; intros [|e]; simpl; auto. Qed.

Lemma firstn_S_nth {A} (l : list A) k x : nth_error l k = Some x -> firstn (S k) l = firstn k l ++ [x].
Proof.
  revert k. induction l as [|a l IH]; intros [|k] H; simpl in *; try discriminate.
  - now inversion H. - now rewrite (IH k H).
Qed.

Lemma nth_error_combine {A B} : forall (l1 : list A) (l2 : list B) i a b,
  nth_error l1 i = Some a -> nth_error l2 i = Some b -> nth_error (combine l1 l2) i = Some (a, b).
Proof.
  induction l1 as [|x l1 IH]; intros [|y l2] [|i] a b H1 H2; simpl in *; try discriminate.
  - inversion H1; inversion H2; subst; reflexivity.
  - now apply IH.
Qed.

Lemma state_after_app mask l1 l2 x : state_after mask (l1 ++ l2) x = state_after mask l2 (state_after mask l1 x).
Proof. unfold state_after. apply fold_left_app. Qed.

(* ------------------------------------------------------------------ the graph as analysed *)
Lemma reach_closed g : reachable g 0 = true /\
  forall u k v, In (u, k, v) (eds g) -> reachable g u = true -> reachable g v = true.
Proof.
  unfold reachable. destruct (closed_b g (reach_iter (nb g) g [0])) eqn:E; [|split; auto].
  unfold closed_b in E. apply andb_true_iff in E. destruct E as [E0 E1]. split; auto.
  intros u k v Hin Hu. rewrite forallb_forall in E1. specialize (E1 _ Hin). simpl in E1.
  rewrite Hu in E1. exact E1.
Qed.

Lemma P_reach g : forall b k sg, P g b k sg -> reachable g b = true.
Proof.
  destruct (reach_closed g) as [H0 Hc]. induction 1; auto. eapply Hc; eauto.
Qed.

Section Bridge.
  Variables (ne : nat) (g : bst) (r : result).
  Hypothesis Hok : graph_ok ne g = true.
  Hypothesis Han : analyse (cfg_of ne g) = Some r.

  Let fblock (b : nat) : block :=
    if reachable g b then
      mk_block (map (fun e => fst (fst e)) (filter (fun e => (snd e =? b) && reachable g (fst (fst e))) (eds g)))
               (map to_stat (block_stats g b)) []
    else mk_block [] [] [].
  Let blocks := map fblock (seq 0 (nb g)).
  Let cc := cfg_of ne g.

  Lemma br_blocks : c_blocks cc = blocks. Proof. reflexivity. Qed.

  Lemma br_ok : edges_at_end g = true /\ len g 0 = 0 /\ 1 <= nb g /\
    (forall u k v, In (u, k, v) (eds g) -> u < nb g /\ v < nb g) /\
    (forall b s, In (b, s) (sts g) -> b < nb g /\ entry_of s < ne).
  Proof.
    pose proof Hok as H'. unfold graph_ok in H'.
    apply andb_true_iff in H'. destruct H' as [H' H5]. apply andb_true_iff in H'. destruct H' as [H' H4].
    apply andb_true_iff in H'. destruct H' as [H' H3]. apply andb_true_iff in H'. destruct H' as [H1 H2].
    split; auto. split; [now apply Nat.eqb_eq|]. split; [now apply Nat.leb_le|]. split.
    - intros u k v Hin. rewrite forallb_forall in H4. specialize (H4 _ Hin). simpl in H4.
      apply andb_true_iff in H4. destruct H4. split; now apply Nat.ltb_lt.
    - intros b s Hin. rewrite forallb_forall in H5. specialize (H5 _ Hin). simpl in H5.
      apply andb_true_iff in H5. destruct H5. split; now apply Nat.ltb_lt.
  Qed.

  Let lnss := fst (number_blocks ne (tl blocks)).
  Let nbits := snd (number_blocks ne (tl blocks)).
  Let nss : list (list (stat * nat)) := [] :: lnss.
  Let mask := mask_of (concat nss).
  Let NS (b : nat) := nth b nss [].

  Lemma br_numbered : numbered cc = (nss, nbits).
  Proof.
    unfold numbered. rewrite br_blocks. change (c_ne cc) with ne. unfold nss, lnss, nbits.
    destruct (number_blocks ne (tl blocks)); reflexivity.
  Qed.

  Lemma br_blocks_len : length blocks = nb g.
  Proof. unfold blocks. now rewrite map_length, seq_length. Qed.
  Lemma br_tl_nth b : 1 <= b < nb g -> nth_error (tl blocks) (b - 1) = Some (fblock b).
  Proof.
    intros Hb. unfold blocks. destruct (nb g) as [|n] eqn:En; [lia|]. simpl.
    rewrite <- seq_shift, map_map. rewrite nth_error_map.
    assert (E : nth_error (seq 0 n) (b - 1) = Some (b - 1)).
    { rewrite nth_error_nth' with (d := 0) by (rewrite seq_length; lia). rewrite seq_nth by lia. reflexivity. }
    rewrite E. simpl. f_equal. f_equal. lia.
  Qed.

  Lemma br_defs_ge p : In p (concat nss) -> is_def (fst p) = true -> ne <= snd p < nbits.
  Proof. unfold nss. simpl. apply number_blocks_all. Qed.

  Lemma br_mask_ok e e' : e < ne -> N.testbit (mask e') (N.of_nat e) = (e' =? e).
  Proof. intros He. apply mask_uninit with (ne := ne); auto. intros p Hp Hd. apply br_defs_ge; auto. Qed.

  (* the numbered statements of a reachable block *)
  Lemma br_NS b : 1 <= b < nb g -> reachable g b = true ->
    map fst (NS b) = map to_stat (block_stats g b) /\
    (forall p, In p (NS b) -> is_def (fst p) = true -> ne <= snd p < nbits).
  Proof.
    intros Hb Hr. destruct (number_blocks_nth (tl blocks) ne (b - 1) (fblock b) (br_tl_nth b Hb))
      as (next & H1 & H2 & H3 & H4).
    assert (E : NS b = fst (number_stats next (b_stats (fblock b)))).
    { unfold NS, nss. destruct b as [|b]; [lia|]. simpl. replace (S b - 1) with b in H3 by lia. exact H3. }
    assert (Eb : b_stats (fblock b) = map to_stat (block_stats g b)) by (unfold fblock; rewrite Hr; reflexivity).
    split.
    - rewrite E, number_stats_fst. exact Eb.
    - intros p Hp Hd. rewrite E in Hp. destruct (number_stats_bounds (b_stats (fblock b)) next) as [_ B].
      specialize (B p Hp Hd). fold nbits in H2, H4. lia.
  Qed.

  Lemma br_NS_len b : 1 <= b < nb g -> reachable g b = true -> length (NS b) = len g b.
  Proof.
    intros Hb Hr. destruct (br_NS b Hb Hr) as [E _].
    rewrite <- (map_length fst), E, map_length. apply len_block_stats.
  Qed.

  Lemma br_NS_nth b k s : 1 <= b < nb g -> reachable g b = true -> stat_at g b k = Some s ->
    exists num, nth_error (NS b) k = Some (to_stat s, num).
  Proof.
    intros Hb Hr Hs. destruct (br_NS b Hb Hr) as [E _].
    assert (H : nth_error (map fst (NS b)) k = Some (to_stat s)).
    { rewrite E, nth_error_map. unfold stat_at in Hs. now rewrite Hs. }
    rewrite nth_error_map in H. destruct (nth_error (NS b) k) as [[s' num]|] eqn:En; [|discriminate].
    simpl in H. inversion H; subst. eauto.
  Qed.

  (* the raw blocks of initialize() *)
  Let rawF (p : block * list (stat * nat)) : rblock :=
    let d := gen_dict (snd p) [] in
    mk_rblock (b_parents (fst p)) (gen_bits d) (kill_bits mask d (b_bounded (fst p))).
  Let raw := initialize cc.

  Lemma br_raw : raw = mk_rblock (b_parents (fblock 0)) (all_uninit ne) 0%N ::
                       map rawF (combine (tl blocks) lnss).
  Proof.
    unfold raw, initialize. rewrite br_numbered, br_blocks.
    unfold blocks at 1. destruct br_ok as (_ & _ & Hnb & _).
    destruct (nb g) as [|n] eqn:En; [lia|]. unfold nss. simpl.
    f_equal; try (unfold blocks; rewrite En; reflexivity).
  Qed.

  Lemma br_lnss_len : length lnss = nb g - 1.
  Proof. unfold lnss. rewrite number_blocks_len. unfold blocks. destruct (nb g); simpl; [reflexivity|].
    rewrite map_length, seq_length. lia. Qed.

  Lemma br_raw_len : length raw = nb g.
  Proof.
    rewrite br_raw. simpl. rewrite map_length, combine_length, br_lnss_len.
    assert (length (tl blocks) = nb g - 1).
    { unfold blocks. destruct (nb g); simpl; [reflexivity|]. rewrite map_length, seq_length. lia. }
    destruct br_ok as (_ & _ & Hnb & _). lia.
  Qed.

  Lemma br_raw_nth b : 1 <= b < nb g ->
    nth_error raw b = Some (rawF (fblock b, NS b)).
  Proof.
    intros Hb. rewrite br_raw. destruct b as [|b]; [lia|]. simpl.
    rewrite nth_error_map.
    assert (E : nth_error (combine (tl blocks) lnss) b = Some (fblock (S b), nth b lnss [])).
    { pose proof (br_tl_nth (S b) Hb) as H1. replace (S b - 1) with b in H1 by lia.
      assert (H2 : nth_error lnss b = Some (nth b lnss [])).
      { apply nth_error_nth'. rewrite br_lnss_len. lia. }
      now apply nth_error_combine. }
    rewrite E. reflexivity.
  Qed.

  (* ---- the analysis result *)
  Lemma br_an : exists outs ins, reaching_definitions nbits raw = Some (outs, ins) /\
    res_cls r = map (fun p => walk cc mask (fst p) (snd p)) (combine ins nss).
  Proof.
    pose proof Han as H. fold cc in H. unfold analyse in H. rewrite br_numbered in H. fold raw in H.
    destruct (reaching_definitions nbits raw) as [[outs ins]|]; [|discriminate].
    exists outs, ins. split; auto. inversion H; subst. reflexivity.
  Qed.

  Lemma br_ne_nbits : ne <= nbits.
  Proof. unfold nbits. apply number_blocks_mono. Qed.

  Lemma br_entries ns p : In ns lnss -> In p ns -> stat_entry (fst p) < ne.
  Proof.
    intros Hns Hp. destruct (number_blocks_in (tl blocks) ne ns Hns) as (blk & Hb & Hm).
    assert (Hb' : In blk blocks) by (destruct blocks; simpl in *; auto).
    unfold blocks in Hb'. apply in_map_iff in Hb'. destruct Hb' as (b & <- & _).
    assert (Hs : In (fst p) (b_stats (fblock b))) by (rewrite <- Hm; now apply in_map).
    unfold fblock in Hs. destruct (reachable g b); simpl in Hs; [|contradiction].
    apply in_map_iff in Hs. destruct Hs as (s & Es & Hs). unfold block_stats in Hs.
    apply in_rev, in_map_iff in Hs. destruct Hs as ([b' s'] & E' & Hin). simpl in E'. subst s'.
    apply filter_In in Hin. destruct Hin as [Hin _].
    destruct br_ok as (_ & _ & _ & _ & Hsts). destruct (Hsts _ _ Hin) as [_ Hlt].
    rewrite <- Es. destruct s; exact Hlt.
  Qed.

  Lemma br_gen_below rb : In rb raw -> bits_below nbits (r_gen rb).
  Proof.
    rewrite br_raw. intros [<-|Hin].
    - simpl. intros k Hk. apply all_uninit_spec in Hk. pose proof br_ne_nbits. lia.
    - apply in_map_iff in Hin. destruct Hin as ([blk ns] & <- & Hc). apply in_combine_r in Hc.
      unfold rawF. cbn [r_gen snd]. intros k Hk. unfold gen_bits in Hk.
      rewrite (tb_fold_lor (fun p => match snd p with None => bitN (fst p) | Some k => bitN k end)) in Hk.
      rewrite N.bits_0, orb_false_l, existsb_exists in Hk. destruct Hk as ([e [j|]] & Hd & Ht); cbn [snd fst] in Ht.
      + rewrite tb_bitN in Ht. apply N.eqb_eq in Ht. subst k.
        apply in_gen_dict in Hd. destruct Hd as [Hd|[_ []]]. apply last_def_in in Hd.
        assert (Hj : ne <= j < nbits).
        { apply (br_defs_ge (SAssign e, j)); [|reflexivity]. unfold nss. simpl. apply in_concat. eauto. }
        lia.
      + rewrite tb_bitN in Ht. apply N.eqb_eq in Ht. subst k.
        apply in_gen_dict in Hd. destruct Hd as [Hd|[_ []]]. apply last_def_in_del in Hd. destruct Hd as [j Hj].
        pose proof (br_entries ns _ Hc Hj) as He. simpl in He. pose proof br_ne_nbits. lia.
  Qed.

  Lemma nth_map_combine {A B C} (f : A * B -> C) (l1 : list A) (l2 : list B) i a b d :
    nth_error l1 i = Some a -> nth_error l2 i = Some b -> nth i (map f (combine l1 l2)) d = f (a, b).
  Proof.
    intros H1 H2. apply nth_error_nth. rewrite nth_error_map, (nth_error_combine l1 l2 i a b H1 H2). reflexivity.
  Qed.

  Section WithSolution.
    Variables (outs ins : list N).
    Hypothesis Hrd : reaching_definitions nbits raw = Some (outs, ins).
    Hypothesis Hcls : res_cls r = map (fun p => walk cc mask (fst p) (snd p)) (combine ins nss).

    Lemma br_eqs : rd_equations raw outs ins.
    Proof. eapply rd_fixpoint; [exact br_gen_below|exact Hrd]. Qed.
    Lemma br_ins_len : length ins = nb g.
    Proof. rewrite (rd_len_ins _ _ _ _ Hrd). apply br_raw_len. Qed.

    Definition INb (b : nat) : N := if b =? 0 then all_uninit ne else getN ins b.

    (* reached with entry e unbound => the Uninitialized bit of e is in the state there *)
    Definition Q (b k : nat) (sg : state) : Prop :=
      b < nb g /\ forall e, e < ne -> sg e = false ->
        N.testbit (state_after mask (firstn k (NS b)) (INb b)) (N.of_nat e) = true.

    Lemma br_step_bit s num x sg e : e < ne -> (is_def (to_stat s) = true -> ne <= num) ->
      (sg e = false -> N.testbit x (N.of_nat e) = true) ->
      eff s sg e = false -> N.testbit (stat_step mask x (to_stat s, num)) (N.of_nat e) = true.
    Proof.
      intros He Hn Hx Hs.
      change (stat_step mask x (to_stat s, num)) with (state_after mask [(to_stat s, num)] x).
      rewrite (state_after_uninit mask ne br_mask_ok) by (auto; intros p [<-|[]]; auto).
      unfold uninit_after. destruct s as [l e'|l e'|l e']; simpl in *.
      - auto.
      - unfold upd in Hs. destruct (Nat.eqb_spec e e'); [discriminate|].
        destruct (Nat.eqb_spec e' e); [congruence|]. auto.
      - unfold upd in Hs. destruct (Nat.eqb_spec e e'); subst.
        + now rewrite Nat.eqb_refl.
        + destruct (Nat.eqb_spec e' e); [congruence|]. auto.
    Qed.

    Lemma br_block0 k : stat_at g 0 k = None.
    Proof.
      destruct br_ok as (_ & H0 & _). unfold stat_at.
      assert (E : block_stats g 0 = []).
      { pose proof (len_block_stats g 0) as L. rewrite H0 in L. destruct (block_stats g 0); [auto|discriminate]. }
      rewrite E. destruct k; reflexivity.
    Qed.

    Lemma br_outs_bit u e sg : Q u (len g u) sg -> reachable g u = true -> e < ne -> sg e = false ->
      N.testbit (getN outs u) (N.of_nat e) = true.
    Proof.
      intros [Hu HQ] Hr He Hs. destruct br_eqs as (Hlen & H0 & Heq).
      destruct u as [|u].
      - rewrite H0, br_raw. simpl. apply all_uninit_spec. lia.
      - assert (Hb : 1 <= S u < nb g) by lia.
        destruct (Heq (S u) _ (ltac:(rewrite br_raw_len; lia)) (br_raw_nth (S u) Hb)) as [_ Ho].
        rewrite Ho. unfold rawF. cbn [fst snd].
        assert (Eb : b_bounded (fblock (S u)) = []) by (unfold fblock; rewrite Hr; reflexivity).
        rewrite Eb.
        destruct (br_NS (S u) Hb Hr) as [_ Hnum].
        rewrite (transfer_uninit mask ne br_mask_ok) by (auto; intros p Hp Hd; apply (Hnum p Hp Hd)).
        specialize (HQ e He Hs). unfold INb in HQ. simpl in HQ.
        rewrite <- (br_NS_len (S u) Hb Hr), firstn_all in HQ.
        rewrite (state_after_uninit mask ne br_mask_ok) in HQ by (auto; intros p Hp Hd; apply (Hnum p Hp Hd)).
        exact HQ.
    Qed.

    Lemma br_inv : forall b k sg, P g b k sg -> Q b k sg.
    Proof.
      destruct br_ok as (Hend & H0 & Hnb & Hedges & Hsts).
      induction 1 as [|b k s sg HP IH Hs|u k v sg HP IH Hin].
      - split; [lia|]. intros e He _. unfold INb. simpl. apply all_uninit_spec. lia.
      - destruct IH as [Hb HQ]. split; auto. intros e He Hse.
        assert (Hb0 : b <> 0) by (intros ->; rewrite br_block0 in Hs; discriminate).
        assert (Hb1 : 1 <= b < nb g) by lia.
        pose proof (P_reach g b k sg HP) as Hr.
        destruct (br_NS_nth b k s Hb1 Hr Hs) as [num Hn].
        rewrite (firstn_S_nth _ _ _ Hn), state_after_app.
        change (state_after mask [(to_stat s, num)] ?x) with (stat_step mask x (to_stat s, num)).
        apply (br_step_bit s num _ sg e); auto.
        intros Hd. destruct (br_NS b Hb1 Hr) as [_ Hnum].
        apply (Hnum (to_stat s, num)); auto. eapply nth_error_In; eauto.
      - destruct (Hedges _ _ _ Hin) as [Hu Hv]. split; auto. intros e He Hse. simpl.
        unfold INb. destruct (Nat.eqb_spec v 0) as [->|Hv0]; [apply all_uninit_spec; lia|].
        assert (Hk : k = len g u).
        { unfold edges_at_end in Hend. rewrite forallb_forall in Hend. specialize (Hend _ Hin). simpl in Hend.
          now apply Nat.eqb_eq. }
        subst k. pose proof (P_reach g u _ sg HP) as Hru.
        pose proof (br_outs_bit u e sg IH Hru He Hse) as Ho.
        destruct br_eqs as (Hlen & _ & Heq).
        assert (Hb : 1 <= v < nb g) by lia.
        destruct (Heq v _ (ltac:(rewrite br_raw_len; lia)) (br_raw_nth v Hb)) as [Hi _].
        rewrite Hi, tb_or_parents. apply existsb_exists. exists u. split; auto.
        unfold rawF. cbn [r_parents fst]. unfold fblock.
        destruct (reach_closed g) as [_ Hc]. rewrite (Hc _ _ _ Hin Hru). simpl.
        apply in_map_iff. exists (u, len g u, v). split; auto.
        apply filter_In. split; auto. simpl. rewrite Nat.eqb_refl, Hru. reflexivity.
    Qed.

    Lemma br_final b k sg s : P g b k sg -> stat_at g b k = Some s -> sg (entry_of s) = false ->
      exists c', cls_at ne g r b k = Some c' /\ c' <> Bound.
    Proof.
      intros HP Hs Hse. set (e := entry_of s) in *. destruct (br_inv b k sg HP) as [Hb HQ].
      assert (Hb0 : b <> 0) by (intros ->; rewrite br_block0 in Hs; discriminate).
      assert (Hb1 : 1 <= b < nb g) by lia.
      pose proof (P_reach g b k sg HP) as Hr.
      destruct (br_NS_nth b k _ Hb1 Hr Hs) as [num Hn].
      assert (He : e < ne).
      { destruct br_ok as (_ & _ & _ & _ & Hsts). unfold stat_at, block_stats in Hs.
        apply nth_error_In, in_rev, in_map_iff in Hs. destruct Hs as ([b' s'] & E' & Hin). simpl in E'. subst s'.
        apply filter_In in Hin. destruct Hin as [Hin _]. destruct (Hsts _ _ Hin) as [_ Hlt]. exact Hlt. }
      assert (Hse' : stat_entry (to_stat s) = e) by (destruct s; reflexivity).
      unfold cls_at. rewrite Hr. eexists; split; [reflexivity|].
      rewrite Hcls.
      assert (Hi : nth_error ins b = Some (getN ins b)).
      { unfold getN. apply nth_error_nth'. rewrite br_ins_len. lia. }
      assert (Hn2 : nth_error nss b = Some (NS b)).
      { unfold NS. apply nth_error_nth'. unfold nss. simpl. rewrite br_lnss_len. lia. }
      rewrite (nth_map_combine _ ins nss b _ _ [] Hi Hn2). cbn [fst snd].
      assert (Hsplit : NS b = firstn k (NS b) ++ (to_stat s, num) :: skipn (S k) (NS b)).
      { rewrite <- (firstn_skipn k (NS b)) at 1. f_equal.
        clear - Hn. revert k Hn. generalize (NS b) as ll. induction ll as [|a ll IH]; intros [|k] Hn; simpl in *; try discriminate.
        - now inversion Hn. - now apply IH. }
      assert (Hlen : length (firstn k (NS b)) = k).
      { apply firstn_length_le. apply Nat.lt_le_incl. apply nth_error_Some. congruence. }
      pose proof (walk_spec cc mask (NS b) (getN ins b) (firstn k (NS b)) (to_stat s, num) _ Hsplit) as W.
      rewrite Hlen in W. rewrite W. cbn [fst]. cbv zeta. rewrite Hse'.
      specialize (HQ e He Hse). unfold INb in HQ. destruct (Nat.eqb_spec b 0); [lia|].
      rewrite has_uninit_spec, HQ. unfold classify.
      assert (Es : nth e (c_static cc) false = false) by apply nth_repeat_false.
      assert (Ec : nth e (c_closure cc) false = false) by apply nth_repeat_false.
      rewrite Es, Ec. destruct (has_other mask _ e); discriminate.
    Qed.
  End WithSolution.

  Theorem bridge b k sg s : P g b k sg -> stat_at g b k = Some s -> sg (entry_of s) = false ->
    exists c', cls_at ne g r b k = Some c' /\ c' <> Bound.
  Proof. destruct br_an as (outs & ins & Hrd & Hcls). eapply br_final; eauto. Qed.
End Bridge.

(* ------------------------------------------------------------------ end to end *)
Theorem unbound_use_is_checked ne args body tr o s2 l e r :
  wf false body = true ->
  graph_ok ne (build true args body) = true ->
  exec (IS body) (bind args s_init) tr o s2 ->
  In (l, e, false) tr ->
  analyse (cfg_of ne (build true args body)) = Some r ->
  exists b k s c', stat_at (build true args body) b k = Some s /\ label_of s = l /\ entry_of s = e /\
                   cls_at ne (build true args body) r b k = Some c' /\ c' <> Bound.
Proof.
  intros Hw Hok Hex Hin Han.
  pose proof (cfg_covers_paths args body tr o s2 Hw Hex) as HJ.
  rewrite Forall_forall in HJ. specialize (HJ _ Hin). simpl in HJ.
  destruct (HJ eq_refl) as (b & k & sg & s & HP & Hs & Hl & He & Hse).
  rewrite <- He in Hse.
  destruct (bridge ne _ r Hok Han b k sg s HP Hs Hse) as (c' & Hc & Hn).
  exists b, k, s, c'. auto.
Qed.

(* contrapositive: a NameNode all of whose statements carry no cf_maybe_null hint is never evaluated
   (read, assigned to, deleted) while its entry is unbound *)
Corollary no_hint_no_unbound_use ne args body tr o s2 l e r :
  wf false body = true ->
  graph_ok ne (build true args body) = true ->
  exec (IS body) (bind args s_init) tr o s2 ->
  analyse (cfg_of ne (build true args body)) = Some r ->
  (forall b k s, stat_at (build true args body) b k = Some s -> label_of s = l ->
                 cls_at ne (build true args body) r b k = Some Bound) ->
  ~ In (l, e, false) tr.
Proof.
  intros Hw Hok Hex Han Hall Hin.
  destruct (unbound_use_is_checked ne args body tr o s2 l e r Hw Hok Hex Hin Han)
    as (b & k & s & c' & Hs & Hl & He & Hc & Hn).
  rewrite (Hall b k s Hs Hl) in Hc. inversion Hc; subst. congruence.
Qed.

(* ------------------------------------------------------------------ the code as it is: refuted *)
(* x = 'a'
   for i in range(c):          entries: c = 0, t = 1, x = 2, i = 3
       try:
           try: break
           finally: pass
       finally: del x
   t.append(x)                                                            *)
Definition w1_args : list nref := [(0, 0); (1, 1)].
Definition w1_body : stmt :=
  Seq (Asg 2 2)
   (Seq (Loop true [(3, 0)] [(4, 3)]
           (TryFin (TryFin Break Skip Skip) (Del 5 2 false) (Del 6 2 false)) false Skip)
        (Ref 7 2)).

Lemma w1_exec : exists tr s2, exec (IS w1_body) (bind w1_args s_init) tr OExc s2 /\ In (7, 2, false) tr.
Proof.
  set (s0 := bind w1_args s_init).
  set (s1 := upd s0 2 true).
  set (s1b := bind [(4, 3)] s1).
  set (s3 := upd s1b 2 false).
  eexists _, s3.
  split; [|shelve].
  unfold w1_body. eapply x_seq; [apply x_asg|].
  eapply x_seq.
  - eapply x_for.
    + apply er_ok; [reflexivity|apply er_nil].
    + eapply (l_break true _ _ _ _ _ s1 [] _ s3); [split; reflexivity|].
      eapply (f_other _ _ _ s1b _ OBrk s1b _ ONorm s3); [|discriminate|].
      * eapply (f_other _ _ _ s1b [] OBrk s1b [] ONorm s1b); [apply x_break|discriminate|apply x_skip].
      * apply (x_del 6 2 false s1b). left. reflexivity.
  - apply (x_ref 7 2 s3).
  Unshelve. vm_compute. auto 10.
Qed.

Lemma w1_class : exists r, analyse (cfg_of 4 (build false w1_args w1_body)) = Some r /\
  graph_ok 4 (build false w1_args w1_body) = true /\ wf false w1_body = true /\
  forallb (fun q => match q with (s, b, k) =>
             match s with LRef 7 2 => match cls_at 4 (build false w1_args w1_body) r b k with
                                      | Some Bound => true | _ => false end
                        | _ => true end end)
          (all_stats (build false w1_args w1_body)) = true /\
  existsb (fun q => match q with (LRef 7 2, _, _) => true | _ => false end)
          (all_stats (build false w1_args w1_body)) = true.
Proof. vm_compute. eexists; repeat split. Qed.

(* x = 'a'
   try:
       try: del x
       finally: g(c); return     <- the finally clause cannot complete normally
   except: t.append(x)                                                     *)
Definition w2_body : stmt :=
  Seq (Asg 2 2)
   (Try (TryFin (Del 3 2 false) (Seq Call Return) (Seq Call Return)) false Skip
        (HCons false 0 0 (Ref 4 2) HNil)).

Lemma w2_exec : exists tr s2, exec (IS w2_body) (bind w1_args s_init) tr OExc s2 /\ In (4, 2, false) tr.
Proof.
  set (s0 := bind w1_args s_init).
  set (s1 := upd s0 2 true).
  set (s2 := upd s1 2 false).
  eexists _, s2.
  split; [|shelve].
  unfold w2_body. eapply x_seq; [apply x_asg|].
  eapply (t_exc _ _ _ _ s1 _ s2 _ OExc s2).
  - eapply (f_other _ _ _ s1 _ ONorm s2 [] OExc s2); [|discriminate|].
    + apply (x_del 3 2 false s1). left. reflexivity.
    + apply x_seq_stop; [discriminate|apply x_call_exc].
  - apply h_match. apply (x_ref 4 2 s2).
  Unshelve. vm_compute. auto 10.
Qed.

Lemma w2_class : exists r, analyse (cfg_of 3 (build false w1_args w2_body)) = Some r /\
  graph_ok 3 (build false w1_args w2_body) = true /\ wf false w2_body = true /\
  forallb (fun q => match q with (s, b, k) =>
             match s with LRef 4 2 => match cls_at 3 (build false w1_args w2_body) r b k with
                                      | Some Bound => true | _ => false end
                        | _ => true end end)
          (all_stats (build false w1_args w2_body)) = true /\
  existsb (fun q => match q with (LRef 4 2, _, _) => true | _ => false end)
          (all_stats (build false w1_args w2_body)) = true.
Proof. vm_compute. eexists; repeat split. Qed.

(* the repaired variant on the same programs: the theorem's hypotheses hold (non-vacuous) *)
Lemma w1_fixed_ok : graph_ok 4 (build true w1_args w1_body) = true /\ wf false w1_body = true /\
  exists r, analyse (cfg_of 4 (build true w1_args w1_body)) = Some r.
Proof. vm_compute. repeat split. eexists; reflexivity. Qed.
