From Coq Require Import ZArith List Bool Lia ZifyBool.
From CyVerif Require Import Lib.CInt Model.M_IntPow.
Open Scope Z_scope.

(* --- wrap is a ring homomorphism modulo 2^w ------------------------------------------ *)

Lemma wrap_mod w s x : 1 <= w -> (wrap w s x) mod 2 ^ w = x mod 2 ^ w.
Proof.
  intros Hw. pose proof (wrap_congr w s x Hw) as H. pose proof (pow2_pos w ltac:(lia)) as P.
  rewrite <- (Z.sub_add x (wrap w s x)). 
  rewrite Z.add_mod, H, Z.add_0_l, Z.mod_mod by lia. reflexivity.
Qed.

Lemma wrap_eq_of_mod w s x y : 1 <= w -> x mod 2 ^ w = y mod 2 ^ w -> wrap w s x = wrap w s y.
Proof.
  intros Hw H. pose proof (pow2_pos w ltac:(lia)) as P. unfold wrap. destruct s.
  - rewrite (Z.add_mod x), (Z.add_mod y), H by lia. reflexivity.
  - exact H.
Qed.

Lemma pow_mod_l a k n : 0 < n -> 0 <= k -> (a mod n) ^ k mod n = a ^ k mod n.
Proof.
  intros Hn Hk. pattern k. apply natlike_ind; [reflexivity | | exact Hk].
  intros x Hx IH. rewrite !Z.pow_succ_r by lia.
  rewrite Z.mul_mod, IH, Z.mod_mod by lia. rewrite <- Z.mul_mod by lia. reflexivity.
Qed.

(* --- the "1 or b" factor ---------------------------------------------------------------- *)

Lemma land_1 e : Z.land e 1 = e mod 2.
Proof. change 1 with (Z.ones 1). rewrite Z.land_ones by lia. reflexivity. Qed.

Lemma lnot_land_1 e : Z.land (Z.lnot e) 1 = 1 - e mod 2.
Proof. rewrite land_1. unfold Z.lnot. Z.to_euclidean_division_equations. lia. Qed.

Lemma wrap_0 w s : 1 <= w -> wrap w s 0 = 0.
Proof.
  intros Hw. apply wrap_id; [lia|]. unfold in_range, min_int, max_int.
  pose proof (pow2_pos (w - 1) ltac:(lia)). pose proof (pow2_pos w ltac:(lia)). destruct s; lia.
Qed.

Lemma pow_factor_spec w s b e : 1 <= w -> in_range w s b ->
  pow_factor w s b e = if e mod 2 =? 1 then b else 1.
Proof.
  intros Hw Hb. unfold pow_factor. rewrite lnot_land_1, land_1.
  assert (H : e mod 2 = 0 \/ e mod 2 = 1) by (Z.to_euclidean_division_equations; lia).
  destruct H as [H|H]; rewrite H; cbn [Z.eqb Pos.eqb].
  - rewrite Z.mul_0_r, wrap_0 by lia. reflexivity.
  - rewrite Z.mul_1_r, wrap_id by assumption. apply Z.lor_0_r.
Qed.

(* --- the loop ----------------------------------------------------------------------------- *)

Lemma pow_split b e : 0 <= e -> b ^ e = (b * b) ^ (e / 2) * (if e mod 2 =? 1 then b else 1).
Proof.
  intros He. rewrite <- Z.pow_2_r, <- Z.pow_mul_r by (try lia; Z.to_euclidean_division_equations; lia).
  assert (H : e mod 2 = 0 \/ e mod 2 = 1) by (Z.to_euclidean_division_equations; lia).
  pose proof (Z.div_mod e 2 ltac:(lia)) as E.
  destruct H as [H|H]; rewrite H in *; cbn [Z.eqb Pos.eqb].
  - rewrite Z.mul_1_r. f_equal. lia.
  - replace e with (2 * (e / 2) + 1) at 1 by lia.
    rewrite Z.pow_add_r, Z.pow_1_r by (try lia; Z.to_euclidean_division_equations; lia). reflexivity.
Qed.

Lemma pow_loop_correct fuel : forall w s t b e,
  1 <= w -> in_range w s t -> in_range w s b -> 0 <= e < 2 ^ Z.of_nat fuel ->
  pow_loop fuel w s t b e = Some (wrap w s (t * b ^ e)).
Proof.
  induction fuel as [|f IH]; intros w s t b e Hw Ht Hb He.
  - assert (e = 0) by (cbn in He; lia). subst e. cbn. rewrite Z.mul_1_r, wrap_id by assumption. reflexivity.
  - cbn [pow_loop]. destruct (Z.eqb_spec e 0) as [->|Hne].
    + rewrite Z.pow_0_r, Z.mul_1_r, wrap_id by assumption. reflexivity.
    + rewrite pow_factor_spec by assumption.
      rewrite Z.shiftr_div_pow2 by lia. change (2 ^ 1) with 2.
      pose proof (pow2_pos w ltac:(lia)) as P.
      assert (Hdiv : 0 <= e / 2 < 2 ^ Z.of_nat f).
      { rewrite Nat2Z.inj_succ, Z.pow_succ_r in He by lia.
        split; [Z.to_euclidean_division_equations; lia|]. apply Z.div_lt_upper_bound; lia. }
      destruct (Z.eqb_spec (e / 2) 0) as [E0|E0].
      * (* last bit: the base is not squared any more *)
        rewrite IH; try apply wrap_in_range; try assumption; try lia.
        assert (e = 1) by (Z.to_euclidean_division_equations; lia). subst e.
        rewrite E0, Z.pow_0_r, Z.mul_1_r. change (1 mod 2 =? 1) with true. cbn iota.
        rewrite Z.pow_1_r. f_equal. apply wrap_eq_of_mod; [lia|]. apply wrap_mod. lia.
      * rewrite IH; try apply wrap_in_range; try lia.
        f_equal. apply wrap_eq_of_mod; [exact Hw|].
        rewrite (pow_split b e) by lia.
        set (fac := if e mod 2 =? 1 then b else 1).
        rewrite Z.mul_mod by lia. rewrite wrap_mod by lia.
        rewrite <- (pow_mod_l (wrap w s (b * b))) by (try lia; Z.to_euclidean_division_equations; lia).
        rewrite wrap_mod by lia.
        rewrite pow_mod_l by (try lia; Z.to_euclidean_division_equations; lia).
        rewrite <- Z.mul_mod by lia. f_equal. ring.
Qed.

(* --- main theorems ------------------------------------------------------------------------ *)

Lemma in_range_1 w s : 2 <= w -> in_range w s 1.
Proof.
  intros Hw. unfold in_range, min_int, max_int.
  pose proof (pow2_split (w - 1) ltac:(lia)). pose proof (pow2_pos (w - 2) ltac:(lia)).
  replace (w - 1 - 1) with (w - 2) in * by lia.
  pose proof (pow2_split w ltac:(lia)). destruct s; lia.
Qed.

Lemma in_range_lt_pow w s e : 2 <= w -> in_range w s e -> e < 2 ^ Z.of_nat (Z.to_nat w).
Proof.
  intros Hw He. rewrite Z2Nat.id by lia. unfold in_range, min_int, max_int in He.
  pose proof (pow2_split w ltac:(lia)). pose proof (pow2_pos (w - 1) ltac:(lia)). destruct s; lia.
Qed.

(* for every width, signedness, base and non-negative exponent: the result is b^e reduced to the type *)
Theorem int_pow_wrap w s b e :
  2 <= w -> in_range w s b -> in_range w s e -> 0 <= e ->
  int_pow w s b e = Some (wrap w s (b ^ e)).
Proof.
  intros Hw Hb He He0. unfold int_pow. assert (Hw1 : 1 <= w) by lia.
  destruct (Z.eqb_spec e 3) as [->|N3].
  { f_equal. apply wrap_eq_of_mod; [lia|]. pose proof (pow2_pos w ltac:(lia)).
    rewrite Z.mul_mod, wrap_mod, <- Z.mul_mod by lia. f_equal. ring. }
  destruct (Z.eqb_spec e 2) as [->|N2]; [f_equal; f_equal; ring|].
  destruct (Z.eqb_spec e 1) as [->|N1]; [rewrite Z.pow_1_r, wrap_id by assumption; reflexivity|].
  destruct (Z.eqb_spec e 0) as [->|N0]; [rewrite Z.pow_0_r, wrap_id by (try lia; apply in_range_1; lia); reflexivity|].
  replace (s && (e <? 0)) with false by lia.
  rewrite pow_loop_correct; try assumption.
  - rewrite Z.mul_1_l. reflexivity.
  - apply in_range_1; lia.
  - split; [lia|]. eapply in_range_lt_pow; eassumption.
Qed.

(* exact whenever the mathematical power fits the C type *)
Theorem int_pow_exact w s b e :
  2 <= w -> in_range w s b -> in_range w s e -> 0 <= e -> in_range w s (b ^ e) ->
  int_pow w s b e = Some (b ^ e).
Proof. intros. rewrite int_pow_wrap by assumption. rewrite wrap_id by (try lia; assumption). reflexivity. Qed.

(* negative exponent on a signed type: 0 (C truncation of b^e), never the loop *)
Theorem int_pow_neg w b e : e < 0 -> int_pow w true b e = Some 0.
Proof.
  intros He. unfold int_pow.
  destruct (Z.eqb_spec e 3); [lia|]. destruct (Z.eqb_spec e 2); [lia|].
  destruct (Z.eqb_spec e 1); [lia|]. destruct (Z.eqb_spec e 0); [lia|].
  cbn [andb]. destruct (Z.ltb_spec e 0); [reflexivity|lia].
Qed.

(* the loop always terminates within w iterations on in-range exponents: never out of fuel *)
Theorem int_pow_terminates w s b e :
  2 <= w -> in_range w s b -> in_range w s e -> int_pow w s b e <> None.
Proof.
  intros Hw Hb He. destruct (Z.ltb_spec e 0) as [Hn|Hp].
  - destruct s.
    + rewrite int_pow_neg by assumption. discriminate.
    + unfold in_range, min_int in He. lia.
  - rewrite int_pow_wrap by assumption. discriminate.
Qed.

(* 2**n fast path *)
Theorem pow2_correct n : 0 <= n -> pow2_value n = Some (2 ^ n).
Proof.
  intros Hn. unfold pow2_value, pow2.
  destruct (Z.eqb_spec n 0) as [->|N0]; [reflexivity|].
  destruct (Z.ltb_spec n 0); [lia|].
  destruct (Z.leb_spec n (2 ^ 63 - 1)).
  - destruct (Z.leb_spec n 62).
    + f_equal. rewrite Z.shiftl_1_l. apply wrap_id; [lia|].
      unfold in_range, min_int, max_int. change (64 - 1) with 63.
      assert (2 ^ n <= 2 ^ 62) by (apply Z.pow_le_mono_r; lia).
      pose proof (pow2_pos n Hn). change (2 ^ 63) with (2 * 2 ^ 62). lia.
    + destruct (Z.leb_spec n 63).
      * f_equal. rewrite Z.shiftl_1_l. apply wrap_id; [lia|].
        unfold in_range, min_int, max_int.
        assert (2 ^ n <= 2 ^ 63) by (apply Z.pow_le_mono_r; lia).
        pose proof (pow2_pos n Hn). change (2 ^ 64) with (2 * 2 ^ 63). lia.
      * f_equal. apply Z.shiftl_1_l.
  - destruct (Z.ltb_spec n 0); [lia|reflexivity].
Qed.

(* the shifts performed on the fast paths are in range of the C type (no UB) *)
Theorem pow2_shift_defined n :
  match pow2 n with
  | P2Long _ => 0 <= n <= 62 | P2ULL _ => n = 63 | P2Lshift k => k = n /\ 63 < n | _ => True
  end.
Proof.
  unfold pow2. destruct (Z.eqb_spec n 0); [exact I|]. destruct (Z.ltb_spec n 0); [exact I|].
  destruct (Z.leb_spec n (2 ^ 63 - 1)); [|exact I].
  destruct (Z.leb_spec n 62); [lia|]. destruct (Z.leb_spec n 63); lia.
Qed.

