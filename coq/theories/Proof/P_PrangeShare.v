From Coq Require Import ZArith List Bool Lia ZifyBool Permutation.
From CyVerif Require Import Lib.CInt Model.M_PrangeShare Proof.P_IntPow.
Import ListNotations.
Open Scope Z_scope.

(* ---- a commutative monoid on a sub-domain P (the representable values of the C type) --------- *)

Section MonoidOn.
  Context {A : Type} (P : A -> Prop) (op : A -> A -> A) (e : A).
  Hypothesis P_op : forall a b, P (op a b).
  Hypothesis P_e : P e.
  Hypothesis op_assoc : forall a b c, op a (op b c) = op (op a b) c.
  Hypothesis op_comm : forall a b, op a b = op b a.
  Hypothesis op_id : forall a, P a -> op a e = a.

  Lemma fold_P l : forall a, P a -> P (fold_left op l a).
  Proof. induction l as [|x l IH]; intros a Ha; cbn [fold_left]; [assumption|]. apply IH, P_op. Qed.

  Lemma fold_init_on l : Forall P l -> forall a, P a -> fold_left op l a = op a (fold_left op l e).
  Proof.
    induction 1 as [|x l Hx Hl IH]; intros a Ha; cbn [fold_left]; [now rewrite op_id|].
    rewrite (IH (op a x)) by apply P_op. rewrite (IH (op e x)) by apply P_op.
    rewrite (op_comm e x), (op_id x Hx). symmetry. apply op_assoc.
  Qed.

  Lemma fold_perm_on l l' : Permutation l l' -> forall a, fold_left op l a = fold_left op l' a.
  Proof.
    induction 1 as [|x l l' _ IH|x y l|l1 l2 l3 _ IH1 _ IH2]; intros a; cbn [fold_left].
    - reflexivity.
    - apply IH.
    - f_equal. rewrite <- !op_assoc. f_equal. apply op_comm.
    - now rewrite IH1.
  Qed.

  Lemma fold_partials_on (chunks : list (list A)) : Forall (Forall P) chunks -> forall a, P a ->
    fold_left op (map (fun c => fold_left op c e) chunks) a = fold_left op (concat chunks) a.
  Proof.
    induction 1 as [|c cs Hc Hcs IH]; intros a Ha; cbn [map concat fold_left]; [reflexivity|].
    rewrite fold_left_app. rewrite <- (fold_init_on c Hc a Ha). apply IH. now apply fold_P.
  Qed.

  (* every partition of every permutation of the contributions, partial results in any order *)
  Theorem reduction_on (xs : list A) (chunks : list (list A)) (partials : list A) init :
    Forall P xs -> P init ->
    Permutation (concat chunks) xs ->
    Permutation partials (map (fun c => fold_left op c e) chunks) ->
    fold_left op partials init = fold_left op xs init.
  Proof.
    intros Hxs Hi Hc Hp. rewrite (fold_perm_on _ _ Hp).
    rewrite fold_partials_on; [now apply fold_perm_on| |assumption].
    assert (Hall : Forall P (concat chunks)).
    { rewrite Forall_forall in *. intros x Hx. apply Hxs. eapply Permutation_in; eassumption. }
    clear - Hall. induction chunks as [|c cs IH]; [constructor|].
    cbn [concat] in Hall. rewrite Forall_app in Hall. destruct Hall. constructor; auto.
  Qed.
End MonoidOn.

(* ---- arithmetic of the C type: wrap is a congruence for + - * & | ^ ----------------------------- *)

Lemma land_land_mask a b n : Z.land (Z.land a b) n = Z.land (Z.land a n) (Z.land b n).
Proof.
  apply Z.bits_inj'. intros k _. rewrite !Z.land_spec.
  destruct (Z.testbit a k), (Z.testbit b k), (Z.testbit n k); reflexivity.
Qed.
Lemma lor_land_mask a b n : Z.land (Z.lor a b) n = Z.lor (Z.land a n) (Z.land b n).
Proof.
  apply Z.bits_inj'. intros k _. rewrite !Z.land_spec, !Z.lor_spec, !Z.land_spec.
  destruct (Z.testbit a k), (Z.testbit b k), (Z.testbit n k); reflexivity.
Qed.
Lemma lxor_land_mask a b n : Z.land (Z.lxor a b) n = Z.lxor (Z.land a n) (Z.land b n).
Proof.
  apply Z.bits_inj'. intros k _. rewrite !Z.land_spec, !Z.lxor_spec, !Z.land_spec.
  destruct (Z.testbit a k), (Z.testbit b k), (Z.testbit n k); reflexivity.
Qed.

Section Arith.
  Variable w : Z.
  Variable sg : bool.
  Hypothesis Hw : 2 <= w.
  Notation W := (W w sg).
  Notation rng := (in_range w sg).

  Definition cong (x y : Z) : Prop := x mod 2 ^ w = y mod 2 ^ w.
  Definition resp (f : Z -> Z -> Z) : Prop :=
    forall a a' b b', cong a a' -> cong b b' -> cong (f a b) (f a' b').

  Lemma W_cong x : cong (W x) x.
  Proof. apply wrap_mod. lia. Qed.
  Lemma W_eq x y : cong x y -> W x = W y.
  Proof. apply wrap_eq_of_mod. lia. Qed.
  Lemma W_rng x : rng (W x).
  Proof. apply wrap_in_range. lia. Qed.
  Lemma W_id x : rng x -> W x = x.
  Proof. apply wrap_id. lia. Qed.

  Lemma W_l f : resp f -> forall a b, W (f (W a) b) = W (f a b).
  Proof. intros Hf a b. apply W_eq. apply Hf; [apply W_cong|reflexivity]. Qed.
  Lemma W_r f : resp f -> forall a b, W (f a (W b)) = W (f a b).
  Proof. intros Hf a b. apply W_eq. apply Hf; [reflexivity|apply W_cong]. Qed.

  Lemma pw : 0 < 2 ^ w. Proof. apply pow2_pos. lia. Qed.

  Lemma resp_add : resp Z.add.
  Proof. intros a a' b b' H1 H2. unfold cong in *. pose proof pw. rewrite (Z.add_mod a), (Z.add_mod a'), H1, H2 by lia. reflexivity. Qed.
  Lemma resp_sub : resp Z.sub.
  Proof. intros a a' b b' H1 H2. unfold cong in *. pose proof pw. rewrite (Zminus_mod a), (Zminus_mod a'), H1, H2. reflexivity. Qed.
  Lemma resp_mul : resp Z.mul.
  Proof. intros a a' b b' H1 H2. unfold cong in *. pose proof pw. rewrite (Z.mul_mod a), (Z.mul_mod a'), H1, H2 by lia. reflexivity. Qed.
  Lemma resp_land : resp Z.land.
  Proof.
    intros a a' b b' H1 H2. unfold cong in *. rewrite <- !Z.land_ones in * by lia.
    rewrite (land_land_mask a), (land_land_mask a'), H1, H2. reflexivity.
  Qed.
  Lemma resp_lor : resp Z.lor.
  Proof.
    intros a a' b b' H1 H2. unfold cong in *. rewrite <- !Z.land_ones in * by lia.
    rewrite (lor_land_mask a), (lor_land_mask a'), H1, H2. reflexivity.
  Qed.
  Lemma resp_lxor : resp Z.lxor.
  Proof.
    intros a a' b b' H1 H2. unfold cong in *. rewrite <- !Z.land_ones in * by lia.
    rewrite (lxor_land_mask a), (lxor_land_mask a'), H1, H2. reflexivity.
  Qed.

  Lemma rng_0 : rng 0.
  Proof.
    unfold in_range, min_int, max_int. pose proof (pow2_pos (w - 1) ltac:(lia)). pose proof pw.
    destruct sg; lia.
  Qed.
  Lemma rng_1 : rng 1.
  Proof. apply in_range_1. lia. Qed.
  Lemma rng_b2z b : rng (b2z b).
  Proof. destruct b; [apply rng_1|apply rng_0]. Qed.

  (* the laws of the OpenMP combiner, for the six reduction operators *)
  Lemma mop_assoc o a b c : omp_reduction_op o = true ->
    mop w sg o a (mop w sg o b c) = mop w sg o (mop w sg o a b) c.
  Proof.
    intros Ho. destruct o; try discriminate; cbn [mop act].
    - rewrite (W_r _ resp_add), (W_l _ resp_add). f_equal. lia.
    - rewrite (W_r _ resp_mul), (W_l _ resp_mul). f_equal. lia.
    - rewrite (W_r _ resp_add), (W_l _ resp_add). f_equal. lia.
    - rewrite (W_r _ resp_land), (W_l _ resp_land). f_equal. apply Z.land_assoc.
    - rewrite (W_r _ resp_lxor), (W_l _ resp_lxor). f_equal. symmetry. apply Z.lxor_assoc.
    - rewrite (W_r _ resp_lor), (W_l _ resp_lor). f_equal. apply Z.lor_assoc.
  Qed.

  Lemma mop_comm o a b : omp_reduction_op o = true -> mop w sg o a b = mop w sg o b a.
  Proof.
    intros Ho. destruct o; try discriminate; cbn [mop act]; f_equal;
      [lia|lia|lia|apply Z.land_comm|apply Z.lxor_comm|apply Z.lor_comm].
  Qed.

  Lemma mop_ident o a : omp_reduction_op o = true -> rng a -> mop w sg o a (ident w sg o) = a.
  Proof.
    intros Ho Ha. destruct o; try discriminate; cbn [mop act ident].
    - rewrite Z.add_0_r. now apply W_id.
    - rewrite Z.mul_1_r. now apply W_id.
    - rewrite Z.add_0_r. now apply W_id.
    - rewrite (W_r _ resp_land), Z.land_m1_r. now apply W_id.
    - rewrite Z.lxor_0_r. now apply W_id.
    - rewrite Z.lor_0_r. now apply W_id.
  Qed.

  (* x o= v on a value that is "offset a combined with b" acts on b only; for - this is
     (a + b) - v = a + (b - v): partial differences are ADDED *)
  Lemma act_mop o a b v : omp_reduction_op o = true ->
    act w sg o (mop w sg o a b) v = mop w sg o a (act w sg o b v).
  Proof.
    intros Ho. destruct o; try discriminate; cbn [mop act].
    - rewrite (W_l _ resp_add), (W_r _ resp_add). f_equal. lia.
    - rewrite (W_l _ resp_mul), (W_r _ resp_mul). f_equal. lia.
    - rewrite (W_l _ resp_sub), (W_r _ resp_add). f_equal. lia.
    - rewrite (W_l _ resp_land), (W_r _ resp_land). f_equal. symmetry. apply Z.land_assoc.
    - rewrite (W_l _ resp_lxor), (W_r _ resp_lxor). f_equal. apply Z.lxor_assoc.
    - rewrite (W_l _ resp_lor), (W_r _ resp_lor). f_equal. symmetry. apply Z.lor_assoc.
  Qed.

  Lemma mop_rng o a b : omp_reduction_op o = true -> rng (mop w sg o a b).
  Proof. intros Ho. destruct o; try discriminate; cbn [mop act]; apply W_rng. Qed.

  Lemma ident_rng o : rng (ident w sg o).
  Proof. destruct o; cbn [ident]; try apply rng_0; [apply rng_1|apply W_rng]. Qed.

  Lemma act_rng o a v : rng a -> rng (act w sg o a v).
  Proof. intros Ha. destruct o; cbn [act]; try apply W_rng. destruct (v =? 0); [assumption|apply W_rng]. Qed.

  (* ---- all values stay representable ------------------------------------------------------------ *)

  Definition Rng (e : env) : Prop := forall x, rng (e x).

  Lemma upd_rng e x v : Rng e -> rng v -> Rng (upd e x v).
  Proof. intros He Hv y. unfold upd. destruct (Nat.eqb y x); auto. Qed.

  Lemma eval_rng e ex : Rng e -> rng (eval w sg e ex).
  Proof.
    intros He. induction ex as [c|x|b a IHa c IHc]; cbn [eval]; [apply W_rng|apply He|].
    destruct b; cbn [bin]; try apply W_rng; apply rng_b2z.
  Qed.

  Lemma iter_pres (Q : env -> Prop) f : (forall k e, Q e -> Q (f k e)) ->
    forall n k e, Q e -> Q (iter n k f e).
  Proof. intros Hf. induction n as [|n IH]; intros k e He; cbn [iter]; auto. Qed.

  Lemma exec_rng st : forall e, Rng e -> Rng (exec w sg st e).
  Proof.
    induction st as [|a IHa b IHb|x ex|x o ex|c t IHt f IHf|par x n b IHb]; intros e He; cbn [exec]; auto.
    - apply upd_rng; [assumption|now apply eval_rng].
    - apply upd_rng; [assumption|]. apply act_rng, He.
    - destruct (_ =? 0); auto.
    - apply iter_pres; [|assumption]. intros k e' He'. apply IHb. apply upd_rng; [assumption|apply W_rng].
  Qed.

  (* ---- simulation: two executions of a well-formed body ------------------------------------------ *)

  Section Sim.
    Variable cls : var -> clause.

    (* agreement on everything an expression may read *)
    Definition Agree (D : list var) (e1 e2 : env) : Prop :=
      forall x, var_ok cls D x = true -> e1 x = e2 x.
    (* reduction variables of the first execution = offset a combined with the second *)
    Definition RedRel (a e1 e2 : env) : Prop :=
      forall x o, cls x = CRed o -> e1 x = mop w sg o (a x) (e2 x).

    Lemma mem_cons x y D : mem x (y :: D) = Nat.eqb x y || mem x D.
    Proof. reflexivity. Qed.

    Lemma mem_In x D : mem x D = true <-> In x D.
    Proof.
      unfold mem. rewrite existsb_exists. split.
      - intros (y & Hy & E). apply Nat.eqb_eq in E. now subst.
      - intros H. exists x. split; [assumption|apply Nat.eqb_refl].
    Qed.

    Lemma var_ok_mono D D' x : incl D D' -> var_ok cls D x = true -> var_ok cls D' x = true.
    Proof.
      intros Hi. unfold var_ok. destruct (cls x); auto.
      rewrite !mem_In. apply Hi.
    Qed.

    Lemma Agree_weaken D D' e1 e2 : incl D D' -> Agree D' e1 e2 -> Agree D e1 e2.
    Proof. intros Hi H x Hx. apply H. eapply var_ok_mono; eassumption. Qed.

    Lemma eval_agree D e1 e2 ex : expr_ok cls D ex = true -> Agree D e1 e2 ->
      eval w sg e1 ex = eval w sg e2 ex.
    Proof.
      intros Hok Ha. induction ex as [c|x|b a IHa c IHc]; cbn [eval expr_ok] in *; [reflexivity|now apply Ha|].
      apply andb_prop in Hok. destruct Hok. rewrite IHa, IHc by assumption. reflexivity.
    Qed.

    Lemma wf_mono st : forall D D', wf cls D st = Some D' -> incl D D'.
    Proof.
      induction st as [|a IHa b IHb|x ex|x o ex|c t IHt f IHf|par x n b IHb]; intros D D' H; cbn [wf] in H.
      - injection H as <-. apply incl_refl.
      - destruct (wf cls D a) as [D1|] eqn:Ea; [|discriminate].
        eapply incl_tran; [eapply IHa|eapply IHb]; eassumption.
      - destruct (_ && _); [|discriminate]. injection H as <-. apply incl_tl, incl_refl.
      - destruct (_ && _); [|discriminate]. injection H as <-. apply incl_refl.
      - destruct (expr_ok cls D c); [|discriminate].
        destruct (wf cls D t); [|discriminate]. destruct (wf cls D f); [|discriminate].
        injection H as <-. apply incl_refl.
      - destruct (_ && _); [|discriminate]. destruct (wf cls (x :: D) b); [|discriminate].
        injection H as <-. apply incl_refl.
    Qed.

    Lemma clause_eqb_eq a b : clause_eqb a b = true -> a = b.
    Proof.
      destruct a as [o| | |], b as [p| | |]; cbn; try discriminate; try reflexivity.
      destruct o, p; cbn; try discriminate; reflexivity.
    Qed.

    Lemma Agree_upd_new D e1 e2 x v : Agree D e1 e2 -> Agree (x :: D) (upd e1 x v) (upd e2 x v).
    Proof.
      intros H y Hy. unfold upd. destruct (Nat.eqb y x) eqn:E; [reflexivity|]. apply H.
      unfold var_ok in *. destruct (cls y); auto. rewrite mem_cons, E in Hy. exact Hy.
    Qed.

    Lemma RedRel_upd_other a e1 e2 x v1 v2 : (forall o, cls x <> CRed o) ->
      RedRel a e1 e2 -> RedRel a (upd e1 x v1) (upd e2 x v2).
    Proof.
      intros Hx H y o Hy. unfold upd. destruct (Nat.eqb y x) eqn:E; [|now apply H].
      apply Nat.eqb_eq in E. subst y. now destruct (Hx o).
    Qed.

    (* opt = false switches the reduction part off (used for the lastprivate argument) *)
    Definition RR (opt : bool) (a e1 e2 : env) : Prop := if opt then RedRel a e1 e2 else True.

    Lemma RR_upd_other opt a e1 e2 x v1 v2 : (forall o, cls x <> CRed o) ->
      RR opt a e1 e2 -> RR opt a (upd e1 x v1) (upd e2 x v2).
    Proof. destruct opt; [apply RedRel_upd_other|auto]. Qed.

    Lemma iter_sim f1 f2 (R : env -> env -> Prop) :
      (forall k e1 e2, R e1 e2 -> R (f1 k e1) (f2 k e2)) ->
      forall n k e1 e2, R e1 e2 -> R (iter n k f1 e1) (iter n k f2 e2).
    Proof. intros Hf. induction n as [|n IH]; intros k e1 e2 H; cbn [iter]; auto. Qed.

    Theorem sim st : forall opt D D' a e1 e2,
      wf cls D st = Some D' -> Agree D e1 e2 -> RR opt a e1 e2 ->
      Agree D' (exec w sg st e1) (exec w sg st e2) /\ RR opt a (exec w sg st e1) (exec w sg st e2).
    Proof.
      induction st as [|s1 IH1 s2 IH2|x ex|x o ex|c t IHt f IHf|par x n b IHb];
        intros opt D D' a e1 e2 Hwf Ha Hr; cbn [wf] in Hwf; cbn [exec].
      - injection Hwf as <-. auto.
      - destruct (wf cls D s1) as [D1|] eqn:E1; [|discriminate].
        destruct (IH1 opt _ _ _ _ _ E1 Ha Hr) as [Ha1 Hr1]. eapply IH2; eassumption.
      - destruct (clause_eqb (cls x) CFirstLast) eqn:Ec; [|discriminate].
        destruct (expr_ok cls D ex) eqn:Eo; [|discriminate]. cbn [andb] in Hwf. injection Hwf as <-.
        apply clause_eqb_eq in Ec. rewrite (eval_agree D e1 e2 ex Eo Ha). split.
        + now apply Agree_upd_new.
        + apply RR_upd_other; [|assumption]. intros o. rewrite Ec. discriminate.
      - destruct (omp_reduction_op o) eqn:Eop; [|discriminate].
        destruct (clause_eqb (cls x) (CRed o)) eqn:Ec; [|discriminate].
        destruct (expr_ok cls D ex) eqn:Eo; [|discriminate]. cbn [andb] in Hwf. injection Hwf as <-.
        apply clause_eqb_eq in Ec. rewrite (eval_agree D e1 e2 ex Eo Ha). split.
        + intros y Hy. unfold upd. destruct (Nat.eqb y x) eqn:E; [|now apply Ha].
          apply Nat.eqb_eq in E. subst y. unfold var_ok in Hy. rewrite Ec in Hy. discriminate.
        + destruct opt; [|exact I]. cbn [RR] in *.
          intros y p Hy. unfold upd. destruct (Nat.eqb y x) eqn:E; [|now apply Hr].
          apply Nat.eqb_eq in E. subst y. rewrite Ec in Hy. injection Hy as <-.
          rewrite (Hr x o Ec). now apply act_mop.
      - destruct (expr_ok cls D c) eqn:Eo; [|discriminate].
        destruct (wf cls D t) as [Dt|] eqn:Et; [|discriminate].
        destruct (wf cls D f) as [Df|] eqn:Ef; [|discriminate]. injection Hwf as <-.
        rewrite (eval_agree D e1 e2 c Eo Ha). destruct (_ =? 0).
        + destruct (IHf opt _ _ _ _ _ Ef Ha Hr) as [A R]. split; [|assumption].
          apply (Agree_weaken D Df); [exact (wf_mono f _ _ Ef)|exact A].
        + destruct (IHt opt _ _ _ _ _ Et Ha Hr) as [A R]. split; [|assumption].
          apply (Agree_weaken D Dt); [exact (wf_mono t _ _ Et)|exact A].
      - destruct (expr_ok cls D n) eqn:Eo; [|discriminate].
        destruct (clause_eqb (cls x) CFirstLast) eqn:Ec; [|discriminate]. cbn [andb] in Hwf.
        destruct (wf cls (x :: D) b) as [Db|] eqn:Eb; [|discriminate]. injection Hwf as <-.
        apply clause_eqb_eq in Ec. rewrite (eval_agree D e1 e2 n Eo Ha).
        apply (iter_sim _ _ (fun u v => Agree D u v /\ RR opt a u v)); [|auto].
        intros k u v [A R].
        destruct (IHb opt (x :: D) Db a (upd u x (W k)) (upd v x (W k)) Eb) as [A' R'].
        + now apply Agree_upd_new.
        + apply RR_upd_other; [|assumption]. intros o. rewrite Ec. discriminate.
        + split; [|assumption]. eapply Agree_weaken; [|eassumption].
          eapply incl_tran; [apply incl_tl, incl_refl|eapply wf_mono; eassumption].
    Qed.

    (* variables without a clause (shared, block-private) are never written by a well-formed body *)
    Lemma frame st : forall D D' e x, wf cls D st = Some D' -> var_ok cls [] x = true ->
      exec w sg st e x = e x.
    Proof.
      induction st as [|s1 IH1 s2 IH2|y ex|y o ex|c t IHt f IHf|par y n b IHb];
        intros D D' e x Hwf Hx; cbn [wf] in Hwf; cbn [exec].
      - reflexivity.
      - destruct (wf cls D s1) as [D1|] eqn:E1; [|discriminate].
        rewrite (IH2 _ _ _ _ Hwf Hx). eapply IH1; eassumption.
      - destruct (clause_eqb (cls y) CFirstLast) eqn:Ec; [|discriminate]. apply clause_eqb_eq in Ec.
        unfold upd. destruct (Nat.eqb x y) eqn:E; [|reflexivity]. apply Nat.eqb_eq in E. subst.
        unfold var_ok in Hx. rewrite Ec in Hx. discriminate.
      - destruct (omp_reduction_op o); [|discriminate].
        destruct (clause_eqb (cls y) (CRed o)) eqn:Ec; [|discriminate]. apply clause_eqb_eq in Ec.
        unfold upd. destruct (Nat.eqb x y) eqn:E; [|reflexivity]. apply Nat.eqb_eq in E. subst.
        unfold var_ok in Hx. rewrite Ec in Hx. discriminate.
      - destruct (expr_ok cls D c); [|discriminate].
        destruct (wf cls D t) as [Dt|] eqn:Et; [|discriminate].
        destruct (wf cls D f) as [Df|] eqn:Ef; [|discriminate].
        destruct (_ =? 0); [eapply IHf|eapply IHt]; eassumption.
      - destruct (expr_ok cls D n); [|discriminate].
        destruct (clause_eqb (cls y) CFirstLast) eqn:Ec; [|discriminate]. cbn [andb] in Hwf.
        apply clause_eqb_eq in Ec.
        destruct (wf cls (y :: D) b) as [Db|] eqn:Eb; [|discriminate].
        apply (iter_pres (fun e' => e' x = e x)); [|reflexivity].
        intros k e' He'. rewrite (IHb _ _ _ _ Eb Hx). unfold upd.
        destruct (Nat.eqb x y) eqn:E; [|assumption]. apply Nat.eqb_eq in E. subst.
        unfold var_ok in Hx. rewrite Ec in Hx. discriminate.
    Qed.

    (* ---- the loop ------------------------------------------------------------------------------- *)

    Variable tgt : var.
    Variable body : stmt.
    Variable Df : list var.
    Hypothesis Htgt : cls tgt = CFirstLast.
    Hypothesis Hwf : wf cls [tgt] body = Some Df.
    Variable e0 : env.
    Hypothesis He0 : Rng e0.

    Notation xi := (exec_iter w sg tgt body).

    Lemma Agree_nil_tgt e1 e2 v : Agree [] e1 e2 -> Agree [tgt] (upd e1 tgt v) (upd e2 tgt v).
    Proof. apply Agree_upd_new. Qed.

    Lemma iter_step_sim opt a e1 e2 v : Agree [] e1 e2 -> RR opt a e1 e2 ->
      Agree Df (xi v e1) (xi v e2) /\ RR opt a (xi v e1) (xi v e2).
    Proof.
      intros A R. unfold exec_iter. eapply sim; [exact Hwf|now apply Agree_nil_tgt|].
      apply RR_upd_other; [|assumption]. intros o. rewrite Htgt. discriminate.
    Qed.

    (* an environment reachable inside the region: clause-less variables as in e0, values representable *)
    Definition Inv (e : env) : Prop := (forall x, var_ok cls [] x = true -> e x = e0 x) /\ Rng e.

    Lemma Inv_step v e : Inv e -> Inv (xi v e).
    Proof.
      intros [Hs Hr]. unfold exec_iter. split.
      - intros x Hx. rewrite (frame _ _ _ _ _ Hwf Hx). unfold upd.
        destruct (Nat.eqb x tgt) eqn:E; [|now apply Hs]. apply Nat.eqb_eq in E. subst.
        unfold var_ok in Hx. rewrite Htgt in Hx. discriminate.
      - apply exec_rng, upd_rng; [assumption|apply W_rng].
    Qed.

    Lemma Inv_run l : forall e, Inv e -> Inv (fold_left (fun e v => xi v e) l e).
    Proof. induction l as [|v l IH]; intros e He; cbn [fold_left]; [assumption|]. apply IH, Inv_step, He. Qed.

    Lemma Inv_e0 : Inv e0.
    Proof. split; [reflexivity|exact He0]. Qed.

    Lemma Inv_priv : Inv (priv_init w sg cls e0).
    Proof.
      split.
      - intros x Hx. unfold priv_init, var_ok in *. destruct (cls x); try discriminate; reflexivity.
      - intros x. unfold priv_init. destruct (cls x); try apply He0. apply ident_rng.
    Qed.

    Lemma Inv_agree e1 e2 : Inv e1 -> Inv e2 -> Agree [] e1 e2.
    Proof. intros [H1 _] [H2 _] x Hx. now rewrite H1, H2. Qed.

    (* contribution of iteration v to reduction variable x *)
    Definition contrib (x : var) (v : Z) : Z := xi v (priv_init w sg cls e0) x.

    Hypothesis Hops : forall x o, cls x = CRed o -> omp_reduction_op o = true.

    Lemma step_contrib e v x o : Inv e -> cls x = CRed o ->
      xi v e x = mop w sg o (e x) (contrib x v).
    Proof.
      intros He Hx. unfold contrib.
      destruct (iter_step_sim true e e (priv_init w sg cls e0) v) as [_ R].
      - apply Inv_agree; [assumption|apply Inv_priv].
      - intros y p Hy. unfold priv_init. rewrite Hy. symmetry. apply mop_ident; [eauto|apply He].
      - now apply R.
    Qed.

    Lemma run_contrib l x o : cls x = CRed o -> forall e, Inv e ->
      fold_left (fun e v => xi v e) l e x = fold_left (mop w sg o) (map (contrib x) l) (e x).
    Proof.
      intros Hx. induction l as [|v l IH]; intros e He; cbn [fold_left map]; [reflexivity|].
      rewrite IH by now apply Inv_step. now rewrite (step_contrib e v x o He Hx).
    Qed.

    Lemma thr_steps_fst chunk lastv : forall e acc,
      fst (thr_steps w sg tgt body chunk lastv e acc) = fold_left (fun e v => xi v e) chunk e.
    Proof. induction chunk as [|v r IH]; intros e acc; cbn [thr_steps fold_left]; [reflexivity|apply IH]. Qed.

    (* the state a thread copies out for lastprivate is the state right after iteration lastv,
       started from some environment of the region *)
    Definition acc_ok (lastv : Z) (acc : option env) : Prop :=
      forall e', acc = Some e' -> exists e, Inv e /\ e' = xi lastv e.

    Lemma thr_steps_snd chunk lastv : forall e acc, Inv e -> acc_ok lastv acc ->
      acc_ok lastv (snd (thr_steps w sg tgt body chunk lastv e acc)) /\
      (In lastv chunk \/ acc <> None -> snd (thr_steps w sg tgt body chunk lastv e acc) <> None).
    Proof.
      induction chunk as [|v r IH]; intros e acc He Hacc; cbn [thr_steps snd].
      - split; [assumption|]. intros [[]|H]; assumption.
      - destruct (Z.eqb_spec v lastv) as [->|Hne].
        + destruct (IH (xi lastv e) (Some (xi lastv e))) as [A B].
          * now apply Inv_step.
          * intros e' [= <-]. now exists e.
          * split; [assumption|]. intros _. apply B. right. discriminate.
        + destruct (IH (xi v e) acc) as [A B]; [now apply Inv_step|assumption|].
          split; [assumption|]. intros [[E|Hin]|Hn]; [contradiction| |]; apply B; auto.
    Qed.

    Lemma first_some_spec (l : list (option env)) (Q : env -> Prop) :
      (forall e, In (Some e) l -> Q e) ->
      match first_some l with Some e => Q e | None => forall o, In o l -> o = None end.
    Proof.
      induction l as [|[e|] l IH]; intros H; cbn [first_some].
      - intros o [].
      - apply H. now left.
      - specialize (IH (fun e He => H e (or_intror He))). destruct (first_some l); [assumption|].
        intros o [<-|Ho]; auto.
    Qed.

    (* lastprivate variables assigned on every path of an iteration *)
    Lemma last_value x e1 e2 v : In x Df -> cls x = CFirstLast -> Inv e1 -> Inv e2 ->
      xi v e1 x = xi v e2 x.
    Proof.
      intros Hin Hx H1 H2.
      destruct (iter_step_sim false e1 e1 e2 v) as [A _]; [now apply Inv_agree|exact I|].
      apply A. unfold var_ok. rewrite Hx. now apply mem_In.
    Qed.

    Lemma contrib_rng x v : in_range w sg (contrib x v).
    Proof. unfold contrib. apply (Inv_step v _ Inv_priv). Qed.

    Lemma par_red x o chunks lastv : cls x = CRed o ->
      par_exec w sg cls tgt body chunks lastv e0 x =
      fold_left (mop w sg o)
        (map (fun c => fold_left (mop w sg o) c (ident w sg o)) (map (map (contrib x)) chunks)) (e0 x).
    Proof.
      intros Hx. unfold par_exec. cbn zeta. rewrite Hx. rewrite !map_map. f_equal. apply map_ext.
      intros ch. unfold thr_run. rewrite thr_steps_fst. rewrite (run_contrib ch x o Hx _ Inv_priv).
      unfold priv_init. rewrite Hx. reflexivity.
    Qed.

    Lemma first_some_none (l : list (option env)) : (forall o, In o l -> o = None) -> first_some l = None.
    Proof.
      induction l as [|[e|] l IH]; intros H; cbn [first_some]; [reflexivity| |].
      - discriminate (H (Some e) (or_introl eq_refl)).
      - apply IH. intros o Ho. apply H. now right.
    Qed.

    Lemma concat_nil_all {A} (ls : list (list A)) : concat ls = [] -> forall l, In l ls -> l = [].
    Proof.
      induction ls as [|c cs IH]; intros H l []; cbn [concat] in H; apply app_eq_nil in H; destruct H; subst; auto.
    Qed.

    (* MAIN: under every assignment of the iterations to threads, in every order inside a thread,
       the region leaves in x what the sequential loop leaves *)
    Theorem share_par_eq_seq idxs chunks x :
      Permutation (concat chunks) idxs ->
      (cls x = CFirstLast -> In x Df) ->
      par_exec w sg cls tgt body chunks (last idxs 0) e0 x = seq_run w sg tgt body idxs e0 x.
    Proof.
      intros Hperm Hdef. unfold seq_run. destruct (cls x) as [o| | |] eqn:Hx.
      - (* reduction *)
        rewrite (par_red x o chunks _ Hx). rewrite (run_contrib idxs x o Hx e0 Inv_e0).
        pose proof (Hops x o Hx) as Ho.
        apply (reduction_on (in_range w sg) (mop w sg o) (ident w sg o)) with (chunks := map (map (contrib x)) chunks).
        + intros a b. now apply mop_rng.
        + intros a b c. now apply mop_assoc.
        + intros a b. now apply mop_comm.
        + intros a Ha. now apply mop_ident.
        + rewrite Forall_forall. intros z Hz. apply in_map_iff in Hz. destruct Hz as (v & <- & _).
          apply contrib_rng.
        + apply He0.
        + rewrite <- concat_map. now apply Permutation_map.
        + reflexivity.
      - (* lastprivate *)
        specialize (Hdef eq_refl). unfold par_exec. cbn zeta. rewrite Hx. rewrite map_map.
        destruct idxs as [|i0 rest] eqn:Eidx.
        + apply Permutation_sym, Permutation_nil in Hperm. cbn [fold_left].
          rewrite first_some_none; [reflexivity|].
          intros o Ho. apply in_map_iff in Ho. destruct Ho as (ch & <- & Hch).
          rewrite (concat_nil_all chunks Hperm ch Hch). reflexivity.
        + rewrite <- Eidx in *. assert (Hne : idxs <> []) by (rewrite Eidx; discriminate).
          destruct (exists_last Hne) as (pre & lastv & Epre). rewrite Epre, last_last, fold_left_app.
          cbn [fold_left].
          set (runs := map (fun ch => snd (thr_run w sg cls tgt body ch lastv e0)) chunks).
          pose proof (first_some_spec runs (fun e' => exists e, Inv e /\ e' = xi lastv e)) as Hfs.
          assert (Hall : forall e, In (Some e) runs -> exists e1, Inv e1 /\ e = xi lastv e1).
          { intros e He. apply in_map_iff in He. destruct He as (ch & Hch & _).
            unfold thr_run in Hch.
            destruct (thr_steps_snd ch lastv (priv_init w sg cls e0) None Inv_priv) as [A _]; [intros ? [=]|].
            apply A. exact Hch. }
          specialize (Hfs Hall). destruct (first_some runs) as [e'|].
          * destruct Hfs as (e1 & He1 & ->). apply (last_value x e1 _ lastv Hdef Hx He1).
            apply Inv_run, Inv_e0.
          * exfalso. assert (Hin : In lastv (concat chunks)).
            { eapply Permutation_in; [apply Permutation_sym; exact Hperm|]. rewrite Epre. apply in_or_app. right. now left. }
            apply in_concat in Hin. destruct Hin as (ch & Hch & Hl).
            destruct (thr_steps_snd ch lastv (priv_init w sg cls e0) None Inv_priv) as [_ B]; [intros ? [=]|].
            apply B; [now left|]. apply Hfs. unfold runs. apply in_map_iff. exists ch. split; [reflexivity|assumption].
      - (* block-private: not written by the loop *)
        unfold par_exec. cbn zeta. rewrite Hx. symmetry.
        apply (Inv_run idxs e0 Inv_e0). unfold var_ok. now rewrite Hx.
      - unfold par_exec. cbn zeta. rewrite Hx. symmetry.
        apply (Inv_run idxs e0 Inv_e0). unfold var_ok. now rewrite Hx.
    Qed.
  End Sim.

  (* ---- the region as classified by the compiler model ------------------------------------------- *)

  Lemma classify_red_omp r x o : classify r x = CRed o -> omp_reduction_op o = true.
  Proof.
    unfold classify. destruct (aget _ x) as [[p|]|].
    - destruct (Nat.eqb x (r_tgt r)); [discriminate|].
      destruct (omp_reduction_op p) eqn:E; [|discriminate]. intros [= <-]. exact E.
    - destruct (Nat.eqb _ _); discriminate.
    - destruct (amem _ _); discriminate.
  Qed.

  Theorem region_par_eq_seq fx r Df e0 idxs chunks x :
    region_wf fx r = Some Df -> Rng e0 -> Permutation (concat chunks) idxs ->
    classify r x <> CBlockPriv -> (classify r x = CFirstLast -> In x Df) ->
    region_par w sg r chunks (last idxs 0) e0 x = region_seq w sg r idxs e0 x.
  Proof.
    unfold region_wf. destruct (region_errors fx r); [|discriminate].
    destruct (clause_eqb (classify r (r_tgt r)) CFirstLast) eqn:Et; [|discriminate].
    apply clause_eqb_eq in Et. intros Hwf He0 Hperm Hnb Hdef.
    unfold region_par, region_seq. cbn zeta.
    set (e1 := match r_pre r with Some p => exec w sg p e0 | None => e0 end).
    assert (He1 : Rng e1) by (unfold e1; destruct (r_pre r); [now apply exec_rng|assumption]).
    pose proof (share_par_eq_seq (classify r) (r_tgt r) (r_body r) Df Et Hwf e1 He1
                  (classify_red_omp r) idxs chunks x Hperm Hdef) as H.
    destruct (classify r x) eqn:Hx; try exact H. contradiction.
  Qed.
End Arith.

(* ---- accepted bodies for which the classification is NOT sound (64-bit signed) ------------------ *)

Definition sharing_unsound (r : region) : Prop :=
  region_errors no_fixes r = [] /\
  exists idxs chunks e0 x,
    Permutation (concat chunks) idxs /\ (forall y, in_range 64 true (e0 y)) /\
    classify r x <> CBlockPriv /\
    region_par 64 true r chunks (last idxs 0) e0 x <> region_seq 64 true r idxs e0 x.

Ltac unsound idxs chunks e0 x :=
  split; [reflexivity|]; exists idxs, chunks, e0, x;
  split; [apply Permutation_refl|]; split; [intros y; vm_compute; split; discriminate|];
  split; [vm_compute; discriminate|vm_compute; discriminate].

(* x <<= 1 : an in-place operator that is not an OpenMP reduction operator gets firstprivate/lastprivate *)
Definition r_shl : region := {| r_pre := None; r_tgt := 0%nat; r_body := SInplace 1%nat OShl (EC 1) |}.
Theorem shl_unsound : sharing_unsound r_shl.
Proof. unsound [0; 1] [[0]; [1]] (fun _ : var => 1) 1%nat. Qed.

(* x = 0; x += i : the last recorded form wins, x becomes reduction(+:x) *)
Definition r_mixed : region :=
  {| r_pre := None; r_tgt := 0%nat; r_body := SSeq (SAssign 1%nat (EC 0)) (SInplace 1%nat OAdd (EV 0%nat)) |}.
Theorem mixed_unsound : sharing_unsound r_mixed.
Proof. unsound [0; 1; 2] [[0; 1]; [2]] (fun _ : var => 5) 1%nat. Qed.

(* x += 1 in the outer prange, x *= 2 in a nested prange: the nested operator replaces the outer one *)
Definition r_nested_op : region :=
  {| r_pre := None; r_tgt := 0%nat;
     r_body := SSeq (SInplace 1%nat OAdd (EC 1)) (SLoop true 2%nat (EC 2) (SInplace 1%nat OMul (EC 2))) |}.
Theorem nested_op_unsound : sharing_unsound r_nested_op.
Proof. unsound [0; 1] [[0; 1]] (fun _ : var => 3) 1%nat. Qed.

(* a += 1; b += a : reading a reduction variable is only rejected outside in-place statements *)
Definition r_read_rhs : region :=
  {| r_pre := None; r_tgt := 0%nat; r_body := SSeq (SInplace 1%nat OAdd (EC 1)) (SInplace 2%nat OAdd (EV 1%nat)) |}.
Theorem read_rhs_unsound : sharing_unsound r_read_rhs.
Proof. unsound [0; 1] [[0]; [1]] (fun _ : var => 0) 2%nat. Qed.

(* the same shapes are rejected by the well-formedness check, so the theorem does not speak about them *)
Lemma unsound_not_wf : forall fx, region_wf fx r_shl = None /\ region_wf fx r_mixed = None /\
                       region_wf fx r_nested_op = None /\ region_wf fx r_read_rhs = None.
Proof. intros [[] [] []]; vm_compute; auto. Qed.

(* with the proposed repairs three of the four shapes are rejected by the front end; the mixed
   plain/in-place form stays accepted (no repair proposed: the nested idiom  s = 0; for j in prange: s += j
   relies on it) *)
Lemma repairs_reject :
  region_errors all_fixes r_shl = [EUnsupportedOp] /\
  region_errors all_fixes r_nested_op = [EInconsistent] /\
  region_errors all_fixes r_read_rhs = [EReadReduction] /\
  region_errors all_fixes r_mixed = [].
Proof. vm_compute. auto. Qed.

(* ---- the classification of uniformly used names ----------------------------------------------------
   rho declares one role per name; [uses rho st]: every assignment form in st, at every nesting level,
   is the form of the declared role.  Then the compiler model gives every assigned name exactly the
   declared clause, whatever the nesting of range / prange loops and conditionals. *)

Definition op_of (c : clause) : option (option iop) :=
  match c with CRed o => Some (Some o) | CFirstLast => Some None | _ => None end.

Fixpoint uses (rho : var -> clause) (st : stmt) : bool :=
  match st with
  | SSkip => true
  | SSeq a b => uses rho a && uses rho b
  | SAssign x _ => clause_eqb (rho x) CFirstLast
  | SInplace x o _ => omp_reduction_op o && clause_eqb (rho x) (CRed o)
  | SIf _ t e => uses rho t && uses rho e
  | SLoop _ x _ b => clause_eqb (rho x) CFirstLast && uses rho b
  end.

Fixpoint assignedb (x : var) (st : stmt) : bool :=
  match st with
  | SSkip => false
  | SSeq a b => assignedb x a || assignedb x b
  | SAssign y _ => Nat.eqb x y
  | SInplace y _ _ => Nat.eqb x y
  | SIf _ t e => assignedb x t || assignedb x e
  | SLoop _ y _ b => Nat.eqb x y || assignedb x b
  end.

(* assigned in the node itself (nested prange bodies and their targets belong to other nodes) *)
Fixpoint directb (x : var) (st : stmt) : bool :=
  match st with
  | SSkip => false
  | SSeq a b => directb x a || directb x b
  | SAssign y _ => Nat.eqb x y
  | SInplace y _ _ => Nat.eqb x y
  | SIf _ t e => directb x t || directb x e
  | SLoop false y _ b => Nat.eqb x y || directb x b
  | SLoop true _ _ _ => false
  end.

Section Declared.
  Variable rho : var -> clause.

  Definition allc (al : alist) : Prop := Forall (fun p => op_of (rho (fst p)) = Some (snd p)) al.
  Definition dom (al : alist) (q : var) : Prop := aget al q <> None.

  Lemma aget_aset al x v q : aget (aset al x v) q = if Nat.eqb x q then Some v else aget al q.
  Proof.
    induction al as [|[y u] r IH]; cbn [aset aget].
    - reflexivity.
    - destruct (Nat.eqb y x) eqn:Eyx; cbn [aget].
      + apply Nat.eqb_eq in Eyx. subst y. destruct (Nat.eqb x q); reflexivity.
      + rewrite IH. destruct (Nat.eqb y q) eqn:Eyq; [|reflexivity].
        apply Nat.eqb_eq in Eyq. subst y. rewrite Nat.eqb_sym, Eyx. reflexivity.
  Qed.

  Lemma aget_in al y v : aget al y = Some v -> In (y, v) al.
  Proof.
    induction al as [|[z u] r IH]; cbn [aget]; [discriminate|].
    destruct (Nat.eqb z y) eqn:E; [|auto with datatypes].
    apply Nat.eqb_eq in E. subst. intros [= ->]. now left.
  Qed.

  Lemma allc_aget al y v : allc al -> aget al y = Some v -> op_of (rho y) = Some v.
  Proof. intros H Hg. apply aget_in in Hg. unfold allc in H. rewrite Forall_forall in H. exact (H _ Hg). Qed.

  Lemma aset_allc al x v : allc al -> op_of (rho x) = Some v -> allc (aset al x v).
  Proof.
    intros H Hx. induction H as [|[y u] r Hy Hr IH]; cbn [aset]; [repeat constructor; exact Hx|].
    destruct (Nat.eqb y x) eqn:E.
    - apply Nat.eqb_eq in E. subst. constructor; assumption.
    - constructor; assumption.
  Qed.

  Lemma aset_dom al x v q : x = q \/ dom al q -> dom (aset al x v) q.
  Proof.
    unfold dom. rewrite aget_aset. intros [->|H]; [rewrite Nat.eqb_refl; discriminate|].
    destruct (Nat.eqb x q); [discriminate|assumption].
  Qed.

  Lemma mark_fst x op acc : fst (mark x op acc) = aset (fst acc) x op.
  Proof. destruct acc. reflexivity. Qed.

  Lemma marks_allc st : forall acc, uses rho st = true -> allc (fst acc) -> allc (fst (marks st acc)).
  Proof.
    induction st as [|a IHa b IHb|x ex|x o ex|c t IHt f IHf|par x n b IHb]; intros acc Hu Ha; cbn [marks uses] in *.
    - assumption.
    - apply andb_prop in Hu. destruct Hu. auto.
    - rewrite mark_fst. apply aset_allc; [assumption|]. apply clause_eqb_eq in Hu. now rewrite Hu.
    - apply andb_prop in Hu. destruct Hu as [_ Hu]. rewrite mark_fst. apply aset_allc; [assumption|].
      apply clause_eqb_eq in Hu. now rewrite Hu.
    - apply andb_prop in Hu. destruct Hu. auto.
    - apply andb_prop in Hu. destruct Hu as [Hx Hb]. apply clause_eqb_eq in Hx. destruct par; [assumption|].
      apply IHb; [assumption|]. rewrite !mark_fst. repeat apply aset_allc; try assumption; now rewrite Hx.
  Qed.

  Lemma marks_dom st : forall acc q, directb q st = true \/ dom (fst acc) q -> dom (fst (marks st acc)) q.
  Proof.
    induction st as [|a IHa b IHb|x ex|x o ex|c t IHt f IHf|par x n b IHb]; intros acc q H; cbn [marks directb] in *.
    - destruct H; [discriminate|assumption].
    - apply IHb. destruct H as [H|H]; [apply orb_prop in H; destruct H; [right; apply IHa|]|right; apply IHa]; auto.
    - rewrite mark_fst. apply aset_dom. destruct H as [H|H]; [left; apply Nat.eqb_eq in H; auto|now right].
    - rewrite mark_fst. apply aset_dom. destruct H as [H|H]; [left; apply Nat.eqb_eq in H; auto|now right].
    - apply IHf. destruct H as [H|H]; [apply orb_prop in H; destruct H; [right; apply IHt|]|right; apply IHt]; auto.
    - destruct par; [destruct H; [discriminate|assumption]|].
      apply IHb. destruct H as [H|H]; [apply orb_prop in H; destruct H as [H|H]|].
      + right. rewrite !mark_fst. apply aset_dom. left. apply Nat.eqb_eq in H. auto.
      + now left.
      + right. rewrite !mark_fst. apply aset_dom. right. apply aset_dom. now right.
  Qed.

  Lemma aupdate_allc new : forall al, allc al -> allc new -> allc (aupdate al new).
  Proof.
    unfold aupdate. induction new as [|[y v] r IH]; intros al Ha Hn; cbn [fold_left]; [assumption|].
    inversion Hn as [|? ? Hy Hr]; subst. apply IH; [|assumption]. now apply aset_allc.
  Qed.

  Lemma aupdate_dom_l new : forall al q, dom al q -> dom (aupdate al new) q.
  Proof.
    unfold aupdate. induction new as [|[y v] r IH]; intros al q H; cbn [fold_left]; [assumption|].
    apply IH. apply aset_dom. now right.
  Qed.

  Lemma aupdate_dom_r new : forall al q, dom new q -> dom (aupdate al new) q.
  Proof.
    unfold aupdate. induction new as [|[y v] r IH]; intros al q H; cbn [fold_left].
    - now destruct H.
    - unfold dom in H. cbn [aget] in H. destruct (Nat.eqb y q) eqn:E.
      + apply Nat.eqb_eq in E. subst. apply (aupdate_dom_l r). apply aset_dom. now left.
      + now apply IH.
  Qed.

  Lemma nested_uses st : uses rho st = true ->
    Forall (fun nb => rho (fst nb) = CFirstLast /\ uses rho (snd nb) = true) (nested st).
  Proof.
    induction st as [|a IHa b IHb|x ex|x o ex|c t IHt f IHf|par x n b IHb]; intros Hu; cbn [nested uses] in *;
      try constructor.
    - apply andb_prop in Hu. destruct Hu. apply Forall_app. auto.
    - apply andb_prop in Hu. destruct Hu. apply Forall_app. auto.
    - apply andb_prop in Hu. destruct Hu as [Hx Hb]. apply clause_eqb_eq in Hx. destruct par; [|auto].
      apply Forall_app. split; [auto|]. constructor; [|constructor]. cbn [fst snd]. auto.
  Qed.

  (* an assigned name is recorded in the node itself or in one of the nested prange nodes *)
  Lemma assigned_where st x : assignedb x st = true ->
    directb x st = true \/ exists nb, In nb (nested st) /\ (x = fst nb \/ directb x (snd nb) = true).
  Proof.
    induction st as [|a IHa b IHb|y ex|y o ex|c t IHt f IHf|par y n b IHb]; intros H; cbn [assignedb directb nested] in *.
    - discriminate.
    - apply orb_prop in H. destruct H as [H|H]; [destruct (IHa H) as [D|(nb & Hin & Hx)]|destruct (IHb H) as [D|(nb & Hin & Hx)]].
      + left. now rewrite D.
      + right. exists nb. split; [apply in_or_app; now left|assumption].
      + left. rewrite D. apply orb_true_r.
      + right. exists nb. split; [apply in_or_app; now right|assumption].
    - now left.
    - now left.
    - apply orb_prop in H. destruct H as [H|H]; [destruct (IHt H) as [D|(nb & Hin & Hx)]|destruct (IHf H) as [D|(nb & Hin & Hx)]].
      + left. now rewrite D.
      + right. exists nb. split; [apply in_or_app; now left|assumption].
      + left. rewrite D. apply orb_true_r.
      + right. exists nb. split; [apply in_or_app; now right|assumption].
    - destruct par.
      + right. apply orb_prop in H. destruct H as [H|H].
        * exists (y, b). split; [apply in_or_app; right; now left|]. left. apply Nat.eqb_eq in H. exact H.
        * destruct (IHb H) as [D|(nb & Hin & Hx)].
          -- exists (y, b). split; [apply in_or_app; right; now left|]. now right.
          -- exists nb. split; [apply in_or_app; now left|assumption].
      + apply orb_prop in H. destruct H as [H|H]; [left; now rewrite H|].
        destruct (IHb H) as [D|(nb & Hin & Hx)]; [left; rewrite D; apply orb_true_r|].
        right. exists nb. split; assumption.
  Qed.

  Lemma node_assignments_allc tgt body : rho tgt = CFirstLast -> uses rho body = true ->
    allc (node_assignments tgt body).
  Proof.
    intros Ht Hu. unfold node_assignments, node_marks. apply aset_allc; [|now rewrite Ht].
    apply marks_allc; [assumption|constructor].
  Qed.

  Lemma node_assignments_dom tgt body q : q = tgt \/ directb q body = true -> dom (node_assignments tgt body) q.
  Proof.
    intros H. unfold node_assignments, node_marks. apply aset_dom. destruct H as [->|H]; [now left|].
    right. apply marks_dom. now left.
  Qed.

  Lemma final_merge_spec nodes : forall st,
    Forall (fun nb => rho (fst nb) = CFirstLast /\ uses rho (snd nb) = true) nodes -> allc (fst st) ->
    let res := fold_left (fun st nb => let na := node_assignments (fst nb) (snd nb) in
                                       (aupdate (fst st) na, snd st ++ merge_errs (fst st) na)) nodes st in
    allc (fst res) /\
    (forall q, dom (fst st) q \/ (exists nb, In nb nodes /\ (q = fst nb \/ directb q (snd nb) = true)) -> dom (fst res) q).
  Proof.
    induction nodes as [|nb r IH]; intros st Hn Ha; cbn [fold_left].
    - split; [assumption|]. intros q [H|(nb & [] & _)]. assumption.
    - inversion Hn as [|? ? [Hx Hu] Hr]; subst.
      set (st1 := (aupdate (fst st) (node_assignments (fst nb) (snd nb)),
                   snd st ++ merge_errs (fst st) (node_assignments (fst nb) (snd nb)))).
      destruct (IH st1 Hr) as [A D].
      { cbn [st1 fst]. apply aupdate_allc; [assumption|now apply node_assignments_allc]. }
      split; [exact A|]. intros q H. apply D. destruct H as [H|(nb' & [<-|Hin] & Hq)].
      + left. cbn [st1 fst]. now apply aupdate_dom_l.
      + left. cbn [st1 fst]. apply aupdate_dom_r. apply node_assignments_dom. destruct Hq; auto.
      + right. exists nb'. auto.
  Qed.

  (* MAIN: the compiler model classifies every uniformly used name as declared *)
  Theorem classify_declared r x :
    rho (r_tgt r) = CFirstLast -> uses rho (r_body r) = true ->
    x = r_tgt r \/ assignedb x (r_body r) = true ->
    classify r x = rho x /\ (rho x = CFirstLast \/ exists o, rho x = CRed o /\ omp_reduction_op o = true).
  Proof.
    intros Ht Hu Hx.
    pose proof (final_merge_spec (nested (r_body r)) (node_assignments (r_tgt r) (r_body r), [])
                  (nested_uses _ Hu) (node_assignments_allc _ _ Ht Hu)) as [A D].
    fold (final_merge (r_tgt r) (r_body r)) in A, D. fold (final_assignments (r_tgt r) (r_body r)) in A, D.
    assert (Hd : dom (final_assignments (r_tgt r) (r_body r)) x).
    { apply D. cbn [fst]. destruct Hx as [->|Hx].
      - left. apply node_assignments_dom. now left.
      - destruct (assigned_where _ _ Hx) as [Hdir|Hn]; [left; apply node_assignments_dom; now right|now right]. }
    unfold classify. unfold dom in Hd. destruct (aget (final_assignments (r_tgt r) (r_body r)) x) as [op|] eqn:Eg; [|contradiction].
    pose proof (allc_aget _ _ _ A Eg) as Hop.
    destruct (Nat.eqb x (r_tgt r)) eqn:Et.
    - apply Nat.eqb_eq in Et. subst x. split; [now rewrite Ht|now left].
    - destruct (rho x) as [o| | |] eqn:Er; cbn [op_of] in Hop; try discriminate; injection Hop as <-.
      + (* a declared reduction: its operator is one of the string *)
        assert (Ho : omp_reduction_op o = true).
        { clear - Hu Hx Er Et. destruct Hx as [->|Hx]; [rewrite Nat.eqb_refl in Et; discriminate|].
          revert Hx. generalize (r_body r) Hu. clear Hu. intros st.
          induction st as [|a IHa b IHb|y ex|y p ex|c t IHt f IHf|par y n b IHb]; cbn [uses assignedb]; intros Hu Hx.
          - discriminate.
          - apply andb_prop in Hu. destruct Hu. apply orb_prop in Hx. destruct Hx; auto.
          - apply Nat.eqb_eq in Hx. subst y. apply clause_eqb_eq in Hu. rewrite Er in Hu. discriminate.
          - apply Nat.eqb_eq in Hx. subst y. apply andb_prop in Hu. destruct Hu as [Hp Hc].
            apply clause_eqb_eq in Hc. rewrite Er in Hc. injection Hc as ->. exact Hp.
          - apply andb_prop in Hu. destruct Hu. apply orb_prop in Hx. destruct Hx; auto.
          - apply andb_prop in Hu. destruct Hu as [Hy Hb]. apply orb_prop in Hx. destruct Hx as [Hx|Hx]; [|auto].
            apply Nat.eqb_eq in Hx. subst y. apply clause_eqb_eq in Hy. rewrite Er in Hy. discriminate. }
        rewrite Ho. split; [reflexivity|right; eauto].
      + split; [reflexivity|now left].
  Qed.
End Declared.

(* wf only looks at the classification of the names it meets *)
Lemma wf_ext cls1 cls2 : (forall x, cls1 x = cls2 x) -> forall st D, wf cls1 D st = wf cls2 D st.
Proof.
  intros H.
  assert (Hv : forall D x, var_ok cls1 D x = var_ok cls2 D x) by (intros; unfold var_ok; now rewrite H).
  assert (He : forall D e, expr_ok cls1 D e = expr_ok cls2 D e).
  { intros D e. induction e as [c|x|b a IHa c IHc]; cbn [expr_ok]; [reflexivity|apply Hv|now rewrite IHa, IHc]. }
  induction st as [|a IHa b IHb|x ex|x o ex|c t IHt f IHf|par x n b IHb]; intros D; cbn [wf].
  - reflexivity.
  - rewrite IHa. destruct (wf cls2 D a); [apply IHb|reflexivity].
  - now rewrite H, He.
  - now rewrite H, He.
  - rewrite He, IHt, IHf. reflexivity.
  - rewrite He, H, IHb. reflexivity.
Qed.

(* a body that is well-formed for DECLARED roles which it uses uniformly is well-formed for the
   classification the compiler model computes (so the any-schedule theorem applies to it), as soon
   as the front end reports no error and the declaration agrees with the model on unassigned names
   (shared / block-private) *)
Theorem declared_region_wf fx r rho Df :
  rho (r_tgt r) = CFirstLast -> uses rho (r_body r) = true ->
  (forall x, x <> r_tgt r -> assignedb x (r_body r) = false -> rho x = classify r x) ->
  wf rho [r_tgt r] (r_body r) = Some Df ->
  region_errors fx r = [] ->
  region_wf fx r = Some Df.
Proof.
  intros Ht Hu Hun Hwf Herr.
  assert (Heq : forall x, classify r x = rho x).
  { intros x. destruct (Nat.eqb x (r_tgt r)) eqn:Et.
    - apply Nat.eqb_eq in Et. apply (classify_declared rho r x Ht Hu). now left.
    - destruct (assignedb x (r_body r)) eqn:Ea.
      + apply (classify_declared rho r x Ht Hu). now right.
      + symmetry. apply Hun; [|assumption]. intros ->. rewrite Nat.eqb_refl in Et. discriminate. }
  unfold region_wf. rewrite Herr, (Heq (r_tgt r)), Ht. cbn [clause_eqb].
  rewrite (wf_ext (classify r) rho Heq). exact Hwf.
Qed.
