(* Proofs for C31: the decision structure built by MatchCaseNodes (match_cy) equals PEP 634
   (match_ref) outside the refuted classes. *)
From Coq Require Import ZArith List Bool NArith Lia Sorted.
From CyVerif Require Import Model.M_Match.
Import ListNotations.
Open Scope Z_scope.

Scheme pat_mind := Induction for pat Sort Prop
with pats_mind := Induction for pats Sort Prop
with kpats_mind := Induction for kpats Sort Prop.
Combined Scheme pat_mutind from pat_mind, pats_mind, kpats_mind.

Definition noerr {A} (r : res A) : Prop := forall e, r <> Err e.

Lemma both_ok_nil_l : forall r, both (Ok []) r = r.
Proof. intros [b| |e]; reflexivity. Qed.

Lemma both_ok_nil_r : forall r, both r (Ok []) = r.
Proof. intros [b| |e]; simpl; try reflexivity. now rewrite app_nil_r. Qed.

Lemma noerr_both : forall r1 r2, noerr r1 -> noerr r2 -> noerr (both r1 r2).
Proof.
  intros [a| |e] [b| |e'] H1 H2 x; simpl; try discriminate;
    try (exfalso; exact (H2 e' eq_refl)); exfalso; exact (H1 e eq_refl).
Qed.

(* ---------- ckey ---------- *)
Lemma ckey_eqb_eq : forall a b, ckey_eqb a b = true <-> a = b.
Proof.
  intros [x|x| |x] [y|y| |y]; simpl; split; intro H; try discriminate; try reflexivity.
  - apply Z.eqb_eq in H. now subst.
  - inversion H. apply Z.eqb_refl.
  - apply N.eqb_eq in H. now subst.
  - inversion H. apply N.eqb_refl.
  - apply N.eqb_eq in H. now subst.
  - inversion H. apply N.eqb_refl.
Qed.

Lemma memc_In : forall c l, memc c l = true <-> In c l.
Proof.
  intros c l. unfold memc. rewrite existsb_exists. split.
  - intros [x [Hx He]]. apply ckey_eqb_eq in He. now subst.
  - intro H. exists c. split; [exact H | now apply ckey_eqb_eq].
Qed.

Lemma memc_false : forall c l, memc c l = false <-> ~ In c l.
Proof.
  intros c l. rewrite <- memc_In. destruct (memc c l); split; intro H; try discriminate; auto.
  exfalso. now apply H.
Qed.

Lemma nodupc_NoDup : forall l, nodupc l = true <-> NoDup l.
Proof.
  induction l as [|a r IH]; simpl.
  - split; [constructor | reflexivity].
  - rewrite andb_true_iff, negb_true_iff, memc_false, IH. split.
    + intros [H1 H2]. now constructor.
    + intro H. inversion H. now split.
Qed.

(* ---------- duplicate tests ---------- *)
Lemma ref_lookups_nodup : forall present dup ks seen,
  NoDup (map key_canon ks) -> (forall k, In k ks -> ~ In (key_canon k) seen) ->
  ref_lookups present seen ks dup = if forallb present ks then Ok tt else NoMatch.
Proof.
  intros present dup. induction ks as [|k r IH]; intros seen Hnd Hs; simpl.
  - reflexivity.
  - assert (Hk : memc (key_canon k) seen = false) by (apply memc_false, Hs; now left).
    rewrite Hk. destruct (present k); simpl; [|reflexivity].
    inversion Hnd as [|? ? Hnin Hnd']; subst. apply IH; [exact Hnd'|].
    intros k' Hin [Heq|Hin']; [|exact (Hs k' (or_intror Hin) Hin')].
    apply Hnin. rewrite Heq. now apply in_map.
Qed.

Lemma NoDup_map_filter : forall (f : key -> bool) ks,
  NoDup (map key_canon ks) -> NoDup (map key_canon (filter f ks)).
Proof.
  intros f. induction ks as [|k r IH]; simpl; intro H; [constructor|].
  inversion H as [|? ? Hnin Hnd]; subst. destruct (f k); simpl; [|now apply IH].
  constructor; [|now apply IH]. intro Hin. apply Hnin.
  apply in_map_iff in Hin. destruct Hin as [x [Hx Hin]]. apply filter_In in Hin.
  apply in_map_iff. exists x. tauto.
Qed.

Lemma cy_map_dup_nodup : forall ks, NoDup (map key_canon ks) -> cy_map_dup ks = false.
Proof.
  intros ks H. unfold cy_map_dup. apply orb_false_iff. split.
  - apply negb_false_iff, nodupc_NoDup, NoDup_map_filter, H.
  - apply not_true_iff_false. intro He. apply existsb_exists in He. destruct He as [c [Hc Hm]].
    apply memc_In in Hm. apply in_map_iff in Hc. destruct Hc as [k1 [E1 H1]].
    apply in_map_iff in Hm. destruct Hm as [k2 [E2 H2]].
    apply filter_In in H1. apply filter_In in H2. destruct H1 as [I1 L1], H2 as [I2 L2].
    assert (k1 <> k2) by (intro; subst; rewrite L1 in L2; discriminate).
    clear L1 L2. subst c. revert I1 I2 E2 H0 H. clear. induction ks as [|k r IH]; simpl; intros I1 I2 E Hne Hnd; [tauto|].
    inversion Hnd as [|? ? Hnin Hnd']; subst.
    destruct I1 as [->|I1], I2 as [->|I2].
    + now apply Hne.
    + apply Hnin. rewrite <- E. now apply in_map.
    + apply Hnin. rewrite E. now apply in_map.
    + now apply IH.
Qed.

Lemma NoDup_app_l : forall (A : Type) (l l' : list A), NoDup (l ++ l') -> NoDup l.
Proof.
  induction l as [|a r IH]; simpl; intros l' H; [constructor|].
  inversion H as [|? ? Hnin Hnd]; subst. constructor; [|now apply IH with l'].
  intro Hin. apply Hnin, in_or_app. now left.
Qed.

Lemma cy_cls_dup_nodup : forall pn kw,
  NoDup (map key_canon (map KAttr pn ++ kw)) -> cy_cls_dup pn kw = false.
Proof.
  intros pn kw H. unfold cy_cls_dup. rewrite map_app in H.
  assert (Hm : map key_canon (map KAttr pn) = map CAttrK pn) by (rewrite map_map; reflexivity).
  rewrite Hm in H. apply orb_false_iff. split.
  - apply negb_false_iff, nodupc_NoDup. now apply NoDup_app_l in H.
  - apply not_true_iff_false. intro He. apply existsb_exists in He. destruct He as [k [Hk Hmem]].
    apply memc_In in Hmem. revert H Hmem Hk. generalize (map CAttrK pn). clear.
    induction l as [|a r IH]; simpl; intros Hnd Hin Hk; [tauto|].
    inversion Hnd as [|? ? Hnin Hnd']; subst. destruct Hin as [->|Hin].
    + apply Hnin, in_or_app. right. now apply in_map.
    + now apply IH.
Qed.

Lemma forallb_sorted : forall (f : key -> bool) ks, forallb f (sorted_keys ks) = forallb f ks.
Proof.
  intros f ks. unfold sorted_keys. rewrite forallb_app. induction ks as [|k r IH]; simpl; [reflexivity|].
  rewrite <- IH. destruct (is_litkey k); simpl; destruct (f k); simpl; try reflexivity.
  - now rewrite andb_false_r.
Qed.

Lemma cy_rest_filter : forall ks kvs,
  cy_rest ks kvs = filter (fun kv => negb (memc (canon (fst kv)) (map key_canon ks))) kvs.
Proof.
  unfold cy_rest. induction ks as [|k r IH]; intro kvs; simpl.
  - induction kvs as [|a l IHl]; simpl; [reflexivity|]. now rewrite <- IHl.
  - rewrite IH. unfold del_key. induction kvs as [|a l IHl]; simpl; [reflexivity|].
    destruct (ckey_eqb (canon (fst a)) (key_canon k)); simpl.
    + exact IHl.
    + destruct (memc (canon (fst a)) (map key_canon r)); simpl; [exact IHl | now rewrite IHl].
Qed.

(* ---------- list facts for the index arithmetic ---------- *)
Lemma skipn_nth : forall (l : list value) k, (k < length l)%nat ->
  exists x, nth_error l k = Some x /\ skipn k l = x :: skipn (S k) l.
Proof.
  induction l as [|a r IH]; intros k Hk; simpl in Hk; [lia|].
  destruct k as [|k]; simpl.
  - exists a. split; reflexivity.
  - destruct (IH k) as [x [H1 H2]]; [lia|]. exists x. split; [exact H1|]. exact H2.
Qed.

Lemma index_z_nat : forall l k, index_z l (Z.of_nat k) = nth_error l k.
Proof.
  intros l k. unfold index_z. destruct (Z.ltb_spec (Z.of_nat k) 0); [lia|]. now rewrite Nat2Z.id.
Qed.

Lemma slice_z_ok : forall (l : list value) n m, (n + m <= length l)%nat ->
  slice_z l (Z.of_nat n)
    (if Z.of_nat m =? 0 then Z.of_nat (length l) else Z.of_nat (length l) + - Z.of_nat m)
  = Some (firstn (length l - n - m) (skipn n l)).
Proof.
  intros l n m H.
  assert (E : (if Z.of_nat m =? 0 then Z.of_nat (length l) else Z.of_nat (length l) + - Z.of_nat m)
              = Z.of_nat (length l - m)) by (destruct (Z.eqb_spec (Z.of_nat m) 0); lia).
  rewrite E. unfold slice_z.
  destruct (Z.ltb_spec (Z.of_nat n) 0); [lia|].
  destruct (Z.ltb_spec (Z.of_nat (length l - m)) (Z.of_nat n)); [lia|].
  destruct (Z.ltb_spec (Z.of_nat (length l)) (Z.of_nat (length l - m))); [lia|].
  simpl. rewrite Nat2Z.id. do 2 f_equal. lia.
Qed.

Lemma firstn_skipn_all : forall (l : list value) k m, (k + m = length l)%nat ->
  firstn m (skipn k l) = skipn k l.
Proof. intros l k m H. apply firstn_all2. rewrite skipn_length. lia. Qed.

Lemma orb_and_split : forall a b c, a || (b && c) = true -> a || b = true /\ a || c = true.
Proof. intros [|] [|] [|]; simpl; intro H; split; auto. Qed.

Lemma noerr_ok : forall A (a : A), noerr (Ok a).
Proof. intros A a e H. discriminate. Qed.
Lemma noerr_nomatch : forall A, noerr (@NoMatch A).
Proof. intros A e H. discriminate. Qed.
Lemma noerr_if : forall A (c : bool) (r1 r2 : res A), noerr r1 -> noerr r2 -> noerr (if c then r1 else r2).
Proof. intros A [|] r1 r2 H1 H2; assumption. Qed.
#[local] Hint Resolve noerr_ok noerr_nomatch noerr_both noerr_if : ne.

Section MAIN.
Variable fx : bool.
Variable ct : ctab.

Lemma as_value_ok : forall q v b, fx || as_harmless q = true ->
  pm_ref ct q v = Ok b -> as_value fx q v = v.
Proof.
  intros q v. unfold as_value. destruct fx; [reflexivity|]. simpl.
  induction q as [l|l|x| |pre st post|items rest|c pos kw|alts|q IH x]; intros b H R; try reflexivity.
  - destruct l as [z|bb| |s]; simpl in H; try discriminate;
      simpl in R; destruct v; simpl in R; try discriminate; try reflexivity.
    + destruct bb, b0; simpl in R; try discriminate; reflexivity.
    + unfold eq_lit in R. simpl in R. destruct (N.eqb_spec s0 s); [now subst | discriminate].
  - destruct l as [z|bb| |s]; simpl in H; try discriminate;
      simpl in R; destruct v; simpl in R; try discriminate; try reflexivity.
    unfold eq_lit in R. simpl in R. destruct (N.eqb_spec s0 s); [now subst | discriminate].
  - change (as_src (PAs q x)) with (as_src q). change (as_harmless (PAs q x)) with (as_harmless q) in H.
    change (pm_ref ct (PAs q x) v) with (both (pm_ref ct q v) (Ok [(x, v)])) in R.
    destruct (pm_ref ct q v) as [b'| |e] eqn:R'; try discriminate. exact (IH b' H eq_refl).
Qed.

Definition cy_msubs (ks : kpats) (v : value) : res binds :=
  bind (cy_kp fx ct true ks v) (fun bl => bind (cy_kp fx ct false ks v) (fun bv => cy_kp_binds fx ct ks bl bv)).

Definition P (p : pat) := forall s v, safe ct s p = true -> fx || as_ok p = true ->
  cy fx ct p v = pm_ref ct p v /\ (s = true -> noerr (pm_ref ct p v)).

Definition PL (ps : pats) := forall s, safe_list ct s ps = true -> fx || as_ok_list ps = true ->
  (forall vs, cy_list fx ct ps vs = ref_list ct ps vs)
  /\ (forall l k, (k + plen ps <= length l)%nat ->
        cy_items fx ct ps l (Z.of_nat k) = ref_list ct ps (firstn (plen ps) (skipn k l)))
  /\ (forall v, cy_alts fx ct ps v = ref_alts ct ps v)
  /\ (s = true -> (forall vs, noerr (ref_list ct ps vs)) /\ (forall v, noerr (ref_alts ct ps v))).

Definition PK (ks : kpats) := forall s v, safe_kp ct s ks = true -> fx || as_ok_kp ks = true ->
  cy_kall fx ct ks v = ref_kp ct ks v
  /\ (has_valkey (kkeys ks) = false -> cy_msubs ks v = ref_kp ct ks v)
  /\ (s = true -> cy_msubs ks v = ref_kp ct ks v /\ noerr (ref_kp ct ks v)
                  /\ noerr (cy_kp fx ct true ks v) /\ noerr (cy_kp fx ct false ks v)).

(* unfolding equations (simpl/cbn expose the raw mutual fixpoints) *)
Definition present (v : value) (k : key) : bool := match klookup v k with Some _ => true | None => false end.

Lemma ref_eq_seq : forall pre st post v, pm_ref ct (PSeq pre st post) v =
  match seq_items v with
  | None => NoMatch
  | Some l =>
      let n := plen pre in let m := plen post in let L := length l in
      match st with
      | StarNone =>
          if Nat.eqb L (n + m)
          then both (ref_list ct pre (firstn n l)) (ref_list ct post (skipn (L - m) l))
          else NoMatch
      | _ =>
          if Nat.leb (n + m) L
          then both (ref_list ct pre (firstn n l))
                 (both (Ok (star_binds st (firstn (L - n - m) (skipn n l))))
                       (ref_list ct post (skipn (L - m) l)))
          else NoMatch
      end
  end.
Proof. reflexivity. Qed.

Lemma cy_eq_seq : forall pre st post v, cy fx ct (PSeq pre st post) v =
  match seq_items v with
  | None => NoMatch
  | Some l =>
      let n := Z.of_nat (plen pre) in let m := Z.of_nat (plen post) in
      let L := Z.of_nat (length l) in
      match st with
      | StarNone =>
          if L =? n + m
          then both (cy_items fx ct pre l 0) (cy_items fx ct post l n)
          else NoMatch
      | _ =>
          if n + m <=? L
          then both (cy_items fx ct pre l 0)
                 (both (match st with
                        | StarCap x =>
                            match slice_z l n (if m =? 0 then L else L + (- m)) with
                            | Some mid => Ok [(x, VList mid)]
                            | None => Err EInternal
                            end
                        | _ => Ok []
                        end)
                       (cy_items fx ct post l (L + (- m))))
          else NoMatch
      end
  end.
Proof. reflexivity. Qed.

Lemma ref_eq_map : forall items rest v, pm_ref ct (PMap items rest) v =
  match map_items v with
  | None => NoMatch
  | Some kvs =>
      if Nat.ltb (length kvs) (klen items) then NoMatch
      else bind (ref_lookups (present v) [] (kkeys items) EValueError)
             (fun _ => both (ref_kp ct items v) (Ok (rest_binds rest (ref_rest items kvs))))
  end.
Proof. reflexivity. Qed.

Lemma cy_eq_map : forall items rest v, cy fx ct (PMap items rest) v =
  if cy_map_dup (kkeys items) then Err EValueError
  else match map_items v with
  | None => NoMatch
  | Some kvs =>
      if Nat.ltb (length kvs) (klen items) then NoMatch
      else if negb (forallb (present v) (sorted_keys (kkeys items))) then NoMatch
      else both (cy_msubs items v) (Ok (rest_binds rest (cy_rest (kkeys items) kvs)))
  end.
Proof. reflexivity. Qed.

Definition cls_vals (c : cls) (np : nat) (v : value) (pnames : list N) : option (list value) :=
  if match_self c then Some (match np with O => [] | S _ => [v] end) else attr_vals v pnames.
Definition cls_pnames (c : cls) (np : nat) : list N :=
  if match_self c then [] else firstn np (match_args ct c).

Lemma ref_eq_class : forall c pos kw v, pm_ref ct (PClass c pos kw) v =
  if negb (isinst v c) then NoMatch
  else if Nat.ltb (allowed ct c) (plen pos) then Err ETypeError
  else
    bind (ref_lookups (present v) [] (map KAttr (cls_pnames c (plen pos)) ++ kkeys kw) ETypeError)
      (fun _ =>
         match cls_vals c (plen pos) v (cls_pnames c (plen pos)) with
         | None => Err EInternal
         | Some vals => both (ref_list ct pos vals) (ref_kp ct kw v)
         end).
Proof. reflexivity. Qed.

Lemma cy_eq_class : forall c pos kw v, cy fx ct (PClass c pos kw) v =
  if negb (isinst v c) then NoMatch
  else
    let np := plen pos in
    let pnames := cls_pnames c np in
    bind (match np with
          | O => Ok tt
          | _ =>
              if Nat.ltb (allowed ct c) np then Err ETypeError
              else if match_self c then Ok tt
              else if cy_cls_dup pnames (kkeys kw) then Err ETypeError
              else if forallb (fun a => match getattr v a with Some _ => true | None => false end) pnames
                   then Ok tt else NoMatch
          end)
      (fun _ =>
         if negb (forallb (present v) (kkeys kw)) then NoMatch
         else
           match cls_vals c np v pnames with
           | None => Err EInternal
           | Some vals =>
               bind (cy_kall fx ct kw v) (fun bk =>
               bind (cy_list fx ct pos vals) (fun bp => Ok (bp ++ bk)))
           end).
Proof. reflexivity. Qed.

Lemma ref_eq_as : forall q x v, pm_ref ct (PAs q x) v = both (pm_ref ct q v) (Ok [(x, v)]).
Proof. reflexivity. Qed.
Lemma cy_eq_as : forall q x v, cy fx ct (PAs q x) v = both (cy fx ct q v) (Ok [(x, as_value fx q v)]).
Proof. reflexivity. Qed.

Lemma ref_list_cons : forall p r vs, ref_list ct (PCons p r) vs =
  match vs with x :: xs => both (pm_ref ct p x) (ref_list ct r xs) | [] => NoMatch end.
Proof. intros p r [|x xs]; reflexivity. Qed.
Lemma cy_list_cons : forall p r vs, cy_list fx ct (PCons p r) vs =
  match vs with x :: xs => both (cy fx ct p x) (cy_list fx ct r xs) | [] => NoMatch end.
Proof. intros p r [|x xs]; reflexivity. Qed.
Lemma ref_list_nil : forall vs, ref_list ct PNil vs = match vs with [] => Ok [] | _ => NoMatch end.
Proof. intros [|x xs]; reflexivity. Qed.
Lemma cy_list_nil : forall vs, cy_list fx ct PNil vs = match vs with [] => Ok [] | _ => NoMatch end.
Proof. intros [|x xs]; reflexivity. Qed.
Lemma cy_items_cons : forall p r l i, cy_items fx ct (PCons p r) l i =
  if is_wild p then cy_items fx ct r l (i + 1)
  else match index_z l i with
       | Some x => both (cy fx ct p x) (cy_items fx ct r l (i + 1))
       | None => Err EInternal
       end.
Proof. reflexivity. Qed.
Lemma ref_alts_cons : forall p r v, ref_alts ct (PCons p r) v =
  match pm_ref ct p v with Ok b => Ok b | NoMatch => ref_alts ct r v | Err e => Err e end.
Proof. reflexivity. Qed.
Lemma cy_alts_cons : forall p r v, cy_alts fx ct (PCons p r) v =
  match cy fx ct p v with Ok b => Ok b | NoMatch => cy_alts fx ct r v | Err e => Err e end.
Proof. reflexivity. Qed.
Lemma ref_kp_cons : forall k p r v, ref_kp ct (KCons k p r) v =
  match klookup v k with Some x => both (pm_ref ct p x) (ref_kp ct r v) | None => NoMatch end.
Proof. reflexivity. Qed.
Lemma cy_kall_cons : forall k p r v, cy_kall fx ct (KCons k p r) v =
  match klookup v k with Some x => both (cy fx ct p x) (cy_kall fx ct r v) | None => NoMatch end.
Proof. reflexivity. Qed.
Lemma cy_kp_cons : forall lits k p r v, cy_kp fx ct lits (KCons k p r) v =
  if Bool.eqb (is_litkey k) lits then
    match klookup v k with
    | Some x => bind (cy fx ct p x) (fun b => bind (cy_kp fx ct lits r v) (fun bs => Ok (b :: bs)))
    | None => NoMatch
    end
  else cy_kp fx ct lits r v.
Proof. reflexivity. Qed.
Lemma cy_kp_binds_cons : forall k p r bl bv, cy_kp_binds fx ct (KCons k p r) bl bv =
  if is_litkey k then
    match bl with b :: bl' => bind (cy_kp_binds fx ct r bl' bv) (fun bs => Ok (b ++ bs)) | [] => Err EInternal end
  else
    match bv with b :: bv' => bind (cy_kp_binds fx ct r bl bv') (fun bs => Ok (b ++ bs)) | [] => Err EInternal end.
Proof. reflexivity. Qed.

Lemma P_seq : forall pre, PL pre -> forall st post, PL post -> P (PSeq pre st post).
Proof.
  intros pre IHpre st post IHpost s v Hs Ha.
  change (safe_list ct s pre && safe_list ct s post = true) in Hs.
  apply andb_true_iff in Hs. destruct Hs as [Hs1 Hs2].
  change (fx || (as_ok_list pre && as_ok_list post) = true) in Ha.
  destruct (orb_and_split _ _ _ Ha) as [Ha1 Ha2].
  destruct (IHpre s Hs1 Ha1) as [_ [Ipre [_ Npre]]]. destruct (IHpost s Hs2 Ha2) as [_ [Ipost [_ Npost]]].
  split.
  - rewrite cy_eq_seq, ref_eq_seq. cbv zeta. destruct (seq_items v) as [l|]; [|reflexivity].
    pose proof (Ipre l 0%nat) as I0. cbn [Z.of_nat] in I0. simpl skipn in I0.
    destruct st as [| |x].
    + destruct (Nat.eqb_spec (length l) (plen pre + plen post)) as [E|E].
      * replace (Z.of_nat (length l) =? Z.of_nat (plen pre) + Z.of_nat (plen post)) with true
          by (symmetry; apply Z.eqb_eq; lia).
        rewrite I0 by lia. rewrite (Ipost l (plen pre)) by lia.
        replace (length l - plen post)%nat with (plen pre) by lia.
        rewrite firstn_skipn_all by lia. reflexivity.
      * replace (Z.of_nat (length l) =? Z.of_nat (plen pre) + Z.of_nat (plen post)) with false
          by (symmetry; apply Z.eqb_neq; lia). reflexivity.
    + destruct (Nat.leb_spec (plen pre + plen post) (length l)) as [E|E].
      * replace (Z.of_nat (plen pre) + Z.of_nat (plen post) <=? Z.of_nat (length l)) with true
          by (symmetry; apply Z.leb_le; lia).
        rewrite I0 by lia.
        replace (Z.of_nat (length l) + - Z.of_nat (plen post)) with (Z.of_nat (length l - plen post)) by lia.
        rewrite (Ipost l (length l - plen post)%nat) by lia.
        rewrite firstn_skipn_all by lia. reflexivity.
      * replace (Z.of_nat (plen pre) + Z.of_nat (plen post) <=? Z.of_nat (length l)) with false
          by (symmetry; apply Z.leb_gt; lia). reflexivity.
    + destruct (Nat.leb_spec (plen pre + plen post) (length l)) as [E|E].
      * replace (Z.of_nat (plen pre) + Z.of_nat (plen post) <=? Z.of_nat (length l)) with true
          by (symmetry; apply Z.leb_le; lia).
        rewrite I0 by lia. rewrite slice_z_ok by lia.
        replace (Z.of_nat (length l) + - Z.of_nat (plen post)) with (Z.of_nat (length l - plen post)) by lia.
        rewrite (Ipost l (length l - plen post)%nat) by lia.
        rewrite (firstn_skipn_all l (length l - plen post) (plen post)) by lia. reflexivity.
      * replace (Z.of_nat (plen pre) + Z.of_nat (plen post) <=? Z.of_nat (length l)) with false
          by (symmetry; apply Z.leb_gt; lia). reflexivity.
  - intro St. destruct (Npre St) as [N1 _]. destruct (Npost St) as [N2 _]. rewrite ref_eq_seq. cbv zeta.
    destruct (seq_items v) as [l|]; [|auto with ne].
    destruct st; apply noerr_if; auto with ne.
Qed.

Lemma P_leaf_lit : forall l, P (PLit l).
Proof.
  intros l s v _ _. split; [reflexivity|]. intros _.
  change (noerr (if lit_match l v then @Ok binds [] else NoMatch)). auto with ne.
Qed.
Lemma P_leaf_val : forall l, P (PVal l).
Proof.
  intros l s v _ _. split; [reflexivity|]. intros _.
  change (noerr (if eq_lit l v then @Ok binds [] else NoMatch)). auto with ne.
Qed.
Lemma P_leaf_cap : forall x, P (PCap x).
Proof. intros x s v _ _. split; [reflexivity|]. intros _. change (noerr (@Ok binds [(x, v)])). auto with ne. Qed.
Lemma P_leaf_wild : P PWild.
Proof. intros s v _ _. split; [reflexivity|]. intros _. change (noerr (@Ok binds [])). auto with ne. Qed.

Lemma P_or : forall alts, PL alts -> P (POr alts).
Proof.
  intros alts IH s v Hs Ha.
  change (safe_list ct s alts = true) in Hs. change (fx || as_ok_list alts = true) in Ha.
  destruct (IH s Hs Ha) as [_ [_ [A N]]].
  change (cy fx ct (POr alts) v) with (cy_alts fx ct alts v).
  change (pm_ref ct (POr alts) v) with (ref_alts ct alts v).
  split; [apply A|]. intro St. apply (proj2 (N St)).
Qed.

Lemma P_as : forall q, P q -> forall x, P (PAs q x).
Proof.
  intros q IH x s v Hs Ha.
  change (safe ct s q = true) in Hs. change (fx || (as_harmless q && as_ok q) = true) in Ha.
  destruct (orb_and_split _ _ _ Ha) as [Hh Ha'].
  destruct (IH s v Hs Ha') as [E N]. rewrite cy_eq_as, ref_eq_as, E. split.
  - destruct (pm_ref ct q v) as [b| |e] eqn:R; simpl; try reflexivity.
    now rewrite (as_value_ok q v b Hh R).
  - intro St. apply noerr_both; auto with ne.
Qed.

Lemma PL_nil : PL PNil.
Proof.
  intros s _ _. split; [|split; [|split]].
  - intros vs. now rewrite cy_list_nil, ref_list_nil.
  - intros l k _. reflexivity.
  - intros v. reflexivity.
  - intros _. split.
    + intros vs. rewrite ref_list_nil. destruct vs; auto with ne.
    + intros v. change (noerr (@NoMatch binds)). auto with ne.
Qed.

Lemma PL_cons : forall p, P p -> forall r, PL r -> PL (PCons p r).
Proof.
  intros p IHp r IHr s Hs Ha.
  change (safe ct s p && safe_list ct s r = true) in Hs. apply andb_true_iff in Hs. destruct Hs as [Hs1 Hs2].
  change (fx || (as_ok p && as_ok_list r) = true) in Ha. destruct (orb_and_split _ _ _ Ha) as [Ha1 Ha2].
  destruct (IHr s Hs2 Ha2) as [L1 [L2 [L3 L4]]].
  assert (Ip : forall x, cy fx ct p x = pm_ref ct p x) by (intro x; apply (IHp s x Hs1 Ha1)).
  split; [|split; [|split]].
  - intros vs. rewrite cy_list_cons, ref_list_cons. destruct vs as [|x xs]; [reflexivity|]. now rewrite Ip, L1.
  - intros l k Hk. change (plen (PCons p r)) with (S (plen r)) in *.
    destruct (skipn_nth l k) as [x [Hx Hsk]]; [lia|].
    rewrite Hsk. change (firstn (S (plen r)) (x :: skipn (S k) l)) with (x :: firstn (plen r) (skipn (S k) l)).
    rewrite cy_items_cons, ref_list_cons.
    replace (Z.of_nat k + 1) with (Z.of_nat (S k)) by lia. rewrite (L2 l (S k)) by lia.
    destruct (is_wild p) eqn:W.
    + destruct p; try discriminate. change (pm_ref ct PWild x) with (@Ok binds []).
      now rewrite both_ok_nil_l.
    + now rewrite index_z_nat, Hx, Ip.
  - intros v. now rewrite cy_alts_cons, ref_alts_cons, Ip, L3.
  - intro St. destruct (L4 St) as [N1 N2]. split.
    + intros vs. rewrite ref_list_cons. destruct vs as [|x xs]; auto with ne.
      apply noerr_both; [apply (IHp s x Hs1 Ha1), St | apply N1].
    + intros v. rewrite ref_alts_cons. destruct (pm_ref ct p v) as [b| |e] eqn:R; auto with ne.
      exfalso. exact (proj2 (IHp s v Hs1 Ha1) St e R).
Qed.

Lemma PK_nil : PK KNil.
Proof.
  intros s v _ _. split; [reflexivity|]. split; [intros _; reflexivity|]. intros _.
  split; [reflexivity|]. repeat split; intros e H; cbv in H; discriminate.
Qed.

Lemma msubs_lit : forall k p r v x R, is_litkey k = true -> klookup v k = Some x -> cy fx ct p x = R ->
  cy_msubs (KCons k p r) v = both R (cy_msubs r v).
Proof.
  intros k p r v x R Hl Hk HR. unfold cy_msubs. rewrite !cy_kp_cons, Hl, Hk, HR. simpl Bool.eqb. cbv iota.
  destruct R as [b| |e]; simpl; try reflexivity.
  destruct (cy_kp fx ct true r v) as [bl| |e]; simpl; try reflexivity.
  destruct (cy_kp fx ct false r v) as [bv| |e]; simpl; try reflexivity.
  try rewrite cy_kp_binds_cons; rewrite Hl. destruct (cy_kp_binds fx ct r bl bv); reflexivity.
Qed.

Lemma msubs_val : forall k p r v x, is_litkey k = false -> klookup v k = Some x ->
  noerr (cy fx ct p x) -> noerr (cy_kp fx ct true r v) ->
  cy_msubs (KCons k p r) v = both (cy fx ct p x) (cy_msubs r v).
Proof.
  intros k p r v x Hl Hk N1 N2. unfold cy_msubs. rewrite !cy_kp_cons, Hl, Hk. simpl Bool.eqb. cbv iota.
  destruct (cy_kp fx ct true r v) as [bl| |e]; [| |exfalso; exact (N2 e eq_refl)];
    (destruct (cy fx ct p x) as [b| |e]; [| |exfalso; exact (N1 e eq_refl)]); simpl; try reflexivity.
  destruct (cy_kp fx ct false r v) as [bv| |e]; simpl; try reflexivity.
  try rewrite cy_kp_binds_cons; rewrite Hl. destruct (cy_kp_binds fx ct r bl bv); reflexivity.
Qed.

Lemma noerr_bind2 : forall (r1 : res binds) (r2 : res (list binds)), noerr r1 -> noerr r2 ->
  noerr (bind r1 (fun b => bind r2 (fun bs => Ok (b :: bs)))).
Proof.
  intros [a| |e] [b| |e'] H1 H2 x; simpl; try discriminate;
    try (exfalso; exact (H2 e' eq_refl)); exfalso; exact (H1 e eq_refl).
Qed.

Lemma PK_cons : forall k p, P p -> forall r, PK r -> PK (KCons k p r).
Proof.
  intros k p IHp r IHr s v Hs Ha.
  change (safe ct s p && safe_kp ct s r = true) in Hs. apply andb_true_iff in Hs. destruct Hs as [Hs1 Hs2].
  change (fx || (as_ok p && as_ok_kp r) = true) in Ha. destruct (orb_and_split _ _ _ Ha) as [Ha1 Ha2].
  destruct (IHr s v Hs2 Ha2) as [K1 [K2 K3]].
  assert (Ip : forall x, cy fx ct p x = pm_ref ct p x) by (intro x; apply (IHp s x Hs1 Ha1)).
  split; [|split].
  - rewrite cy_kall_cons, ref_kp_cons. destruct (klookup v k) as [x|]; [|reflexivity]. now rewrite Ip, K1.
  - intro Hv. change (negb (is_litkey k) || has_valkey (kkeys r) = false) in Hv.
    apply orb_false_iff in Hv. destruct Hv as [Hl Hv]. apply negb_false_iff in Hl.
    rewrite ref_kp_cons. destruct (klookup v k) as [x|] eqn:Hk.
    + rewrite (msubs_lit k p r v x _ Hl Hk (Ip x)). now rewrite (K2 Hv).
    + unfold cy_msubs. rewrite cy_kp_cons, Hl, Hk. reflexivity.
  - intro St. destruct (K3 St) as [M [N1 [N2 N3]]].
    assert (Np : forall x, noerr (pm_ref ct p x)) by (intro x; apply (IHp s x Hs1 Ha1), St).
    split; [|split; [|split]].
    + rewrite ref_kp_cons. destruct (klookup v k) as [x|] eqn:Hk; destruct (is_litkey k) eqn:Hl.
      * rewrite (msubs_lit k p r v x _ Hl Hk (Ip x)). now rewrite M.
      * rewrite (msubs_val k p r v x Hl Hk); [now rewrite Ip, M | rewrite Ip; apply Np | exact N2].
      * unfold cy_msubs. rewrite cy_kp_cons, Hl, Hk. reflexivity.
      * unfold cy_msubs. rewrite !cy_kp_cons, Hl, Hk. simpl Bool.eqb. cbv iota.
        destruct (cy_kp fx ct true r v) as [bl| |e]; simpl; try reflexivity. exfalso; exact (N2 e eq_refl).
    + rewrite ref_kp_cons. destruct (klookup v k); auto with ne.
    + rewrite cy_kp_cons. destruct (Bool.eqb (is_litkey k) true); [|exact N2].
      destruct (klookup v k) as [x|]; auto with ne. apply noerr_bind2; [rewrite Ip; apply Np | exact N2].
    + rewrite cy_kp_cons. destruct (Bool.eqb (is_litkey k) false); [|exact N3].
      destruct (klookup v k) as [x|]; auto with ne. apply noerr_bind2; [rewrite Ip; apply Np | exact N3].
Qed.

Lemma P_map : forall items, PK items -> forall rest, P (PMap items rest).
Proof.
  intros items IH rest s v Hs Ha.
  change (nodupc (map key_canon (kkeys items)) && safe_kp ct (s || has_valkey (kkeys items)) items = true) in Hs.
  apply andb_true_iff in Hs. destruct Hs as [Hnd Hsk]. apply nodupc_NoDup in Hnd.
  change (fx || as_ok_kp items = true) in Ha.
  destruct (IH _ v Hsk Ha) as [_ [K2 K3]].
  assert (M : cy_msubs items v = ref_kp ct items v).
  { destruct (has_valkey (kkeys items)) eqn:HV; [apply K3, orb_true_r | apply K2; reflexivity]. }
  assert (HL : ref_lookups (present v) [] (kkeys items) EValueError
               = if forallb (present v) (kkeys items) then Ok tt else NoMatch).
  { apply ref_lookups_nodup; [exact Hnd | intros ? ? []]. }
  split.
  - rewrite cy_eq_map, ref_eq_map, (cy_map_dup_nodup _ Hnd).
    destruct (map_items v) as [kvs|]; [|reflexivity].
    destruct (Nat.ltb (length kvs) (klen items)); [reflexivity|].
    rewrite forallb_sorted, HL. destruct (forallb (present v) (kkeys items)); simpl; [|reflexivity].
    rewrite M, cy_rest_filter. reflexivity.
  - intro St. rewrite ref_eq_map. destruct (map_items v) as [kvs|]; auto with ne.
    apply noerr_if; auto with ne. rewrite HL. destruct (forallb (present v) (kkeys items)); simpl; auto with ne.
    apply noerr_both; auto with ne. apply K3. now rewrite St.
Qed.

Lemma attr_vals_present : forall v pn,
  forallb (fun a => match getattr v a with Some _ => true | None => false end) pn = true ->
  exists vals, attr_vals v pn = Some vals.
Proof.
  intros v. induction pn as [|a r IH]; simpl; intro H; [now exists []|].
  apply andb_true_iff in H. destruct H as [H1 H2]. destruct (IH H2) as [vals E]. rewrite E.
  destruct (getattr v a) as [x|]; [|discriminate]. now exists (x :: vals).
Qed.

Lemma forallb_present_attr : forall v pn,
  forallb (present v) (map KAttr pn)
  = forallb (fun a => match getattr v a with Some _ => true | None => false end) pn.
Proof. intros v. induction pn as [|a r IH]; simpl; [reflexivity|]. now rewrite IH. Qed.

Lemma cls_vals_0 : forall c v, cls_vals c 0 v (cls_pnames c 0) = Some [].
Proof. intros c v. unfold cls_vals, cls_pnames. destruct (match_self c); reflexivity. Qed.

Lemma P_class : forall c pos, PL pos -> forall kw, PK kw -> P (PClass c pos kw).
Proof.
  intros c pos IHpos kw IHkw s v Hs Ha.
  pose (s' := s || (negb (Nat.eqb (plen pos) 0) && negb (Nat.eqb (klen kw) 0))).
  change (nodupc (map key_canon (map KAttr (cls_pnames c (plen pos)) ++ kkeys kw))
          && (negb s || Nat.leb (plen pos) (allowed ct c))
          && (safe_list ct s' pos && safe_kp ct s' kw) = true) in Hs.
  apply andb_true_iff in Hs. destruct Hs as [Hs Hs3]. apply andb_true_iff in Hs. destruct Hs as [Hnd Hal].
  apply andb_true_iff in Hs3. destruct Hs3 as [Hsp Hsk]. apply nodupc_NoDup in Hnd.
  change (fx || (as_ok_list pos && as_ok_kp kw) = true) in Ha. destruct (orb_and_split _ _ _ Ha) as [Ha1 Ha2].
  destruct (IHpos s' Hsp Ha1) as [L1 [_ [_ L4]]]. destruct (IHkw s' v Hsk Ha2) as [K1 [_ K3]].
  assert (HL : ref_lookups (present v) [] (map KAttr (cls_pnames c (plen pos)) ++ kkeys kw) ETypeError
               = if forallb (present v) (map KAttr (cls_pnames c (plen pos))) && forallb (present v) (kkeys kw)
                 then Ok tt else NoMatch).
  { rewrite <- forallb_app. apply ref_lookups_nodup; [exact Hnd | intros ? ? []]. }
  assert (Hre : forall vals, (plen pos = O -> vals = []) ->
            bind (cy_kall fx ct kw v) (fun bk => bind (cy_list fx ct pos vals) (fun bp => Ok (bp ++ bk)))
            = both (ref_list ct pos vals) (ref_kp ct kw v)).
  { intros vals Hv. rewrite K1, L1.
    destruct (Nat.eqb (plen pos) 0) eqn:E1.
    - apply Nat.eqb_eq in E1. rewrite (Hv E1). destruct pos; [|discriminate].
      change (ref_list ct PNil []) with (@Ok binds []). rewrite both_ok_nil_l.
      destruct (ref_kp ct kw v); reflexivity.
    - destruct (Nat.eqb (klen kw) 0) eqn:E2.
      + apply Nat.eqb_eq in E2. destruct kw; [|discriminate].
        change (ref_kp ct KNil v) with (@Ok binds []). rewrite both_ok_nil_r.
        destruct (ref_list ct pos vals); simpl; try reflexivity. now rewrite app_nil_r.
      + assert (St : s' = true) by (unfold s'; rewrite ?E1, ?E2; simpl; apply orb_true_r).
        destruct (L4 St) as [NL _]. destruct (K3 St) as [_ [NK _]]. specialize (NL vals).
        destruct (ref_list ct pos vals) as [a| |e]; destruct (ref_kp ct kw v) as [b| |e']; simpl; try reflexivity;
          exfalso; first [exact (NL e eq_refl) | exact (NK e' eq_refl)]. }
  split.
  - rewrite cy_eq_class, ref_eq_class. destruct (negb (isinst v c)); [reflexivity|]. cbv zeta.
    rewrite HL. destruct (plen pos) as [|n0] eqn:Enp.
    + destruct (Nat.ltb_spec (allowed ct c) 0) as [?|_]; [lia|].
      assert (Hpn : cls_pnames c 0 = []) by (unfold cls_pnames; destruct (match_self c); reflexivity).
      rewrite cls_vals_0. rewrite Hpn. simpl. destruct (forallb (present v) (kkeys kw)); simpl; [|reflexivity].
      apply Hre. reflexivity.
    + destruct (Nat.ltb (allowed ct c) (S n0)); [reflexivity|].
      assert (Hv : forall vals : list value, S n0 = O -> vals = []) by (intros ? H0; discriminate H0).
      destruct (match_self c) eqn:MS.
      * assert (Hpn : cls_pnames c (S n0) = []) by (unfold cls_pnames; now rewrite MS).
        rewrite Hpn. simpl. destruct (forallb (present v) (kkeys kw)); simpl; [|reflexivity].
        destruct (cls_vals c (S n0) v []) as [vals|]; [|reflexivity]. apply Hre, Hv.
      * rewrite (cy_cls_dup_nodup _ _ Hnd), forallb_present_attr.
        destruct (forallb _ (cls_pnames c (S n0))); simpl; [|reflexivity].
        destruct (forallb (present v) (kkeys kw)); simpl; [|reflexivity].
        destruct (cls_vals c (S n0) v (cls_pnames c (S n0))) as [vals|]; [|reflexivity]. apply Hre, Hv.
  - intro St. rewrite St in Hal. simpl in Hal. apply Nat.leb_le in Hal.
    assert (St' : s' = true) by (unfold s'; now rewrite St).
    destruct (L4 St') as [NL _]. destruct (K3 St') as [_ [NK _]].
    rewrite ref_eq_class. apply noerr_if; auto with ne.
    destruct (Nat.ltb_spec (allowed ct c) (plen pos)) as [?|_]; [lia|].
    rewrite HL. destruct (forallb (present v) (map KAttr (cls_pnames c (plen pos)))) eqn:F1; simpl; auto with ne.
    destruct (forallb (present v) (kkeys kw)); simpl; auto with ne.
    unfold cls_vals. destruct (match_self c) eqn:MS.
    + apply noerr_both; auto.
    + unfold cls_pnames in F1 |- *. rewrite MS in F1 |- *. rewrite forallb_present_attr in F1.
      destruct (attr_vals_present _ _ F1) as [vals E]. rewrite E. apply noerr_both; auto.
Qed.

Theorem cy_eq_ref :
  (forall p, P p) /\ (forall ps, PL ps) /\ (forall ks, PK ks).
Proof.
  apply pat_mutind.
  - exact P_leaf_lit.
  - exact P_leaf_val.
  - exact P_leaf_cap.
  - exact P_leaf_wild.
  - intros pre H st post H'. now apply P_seq.
  - intros items H rest. now apply P_map.
  - intros c pos H kw H'. now apply P_class.
  - exact P_or.
  - exact P_as.
  - exact PL_nil.
  - exact PL_cons.
  - exact PK_nil.
  - exact PK_cons.
Qed.
End MAIN.

(* ---------- simple cases (if-chains) ---------- *)
Section TOP.
Variable fx : bool.
Variable ct : ctab.

Lemma simple_nt : forall p v, simple_notarget p = true ->
  cy fx ct p v = if simple_cmp p v then Ok [] else NoMatch.
Proof. intros p v H. destruct p; try discriminate; reflexivity. Qed.

Lemma simple_alts : forall ps v, all_simple_notarget ps = true ->
  cy_alts fx ct ps v = if simple_or ps v then Ok [] else NoMatch.
Proof.
  induction ps as [|p r IH]; intros v H; [reflexivity|].
  change (simple_notarget p && all_simple_notarget r = true) in H. apply andb_true_iff in H. destruct H as [H1 H2].
  rewrite cy_alts_cons, (simple_nt p v H1). change (simple_or (PCons p r) v) with (simple_cmp p v || simple_or r v).
  destruct (simple_cmp p v); simpl; [reflexivity | now apply IH].
Qed.

Lemma cy_simple_eq : forall p, is_simple p = true -> forall v, cy_simple fx p v = cy fx ct p v.
Proof.
  induction p as [l|l|x| |pre st post|items rest|c pos kw|alts|q IH x]; intros H v; try discriminate; try reflexivity.
  - change (cy fx ct (POr alts) v) with (cy_alts fx ct alts v). rewrite simple_alts by exact H. reflexivity.
  - rewrite cy_eq_as. change (cy_simple fx (PAs q x) v) with (both (cy_simple fx q v) (Ok [(x, as_value fx q v)])).
    now rewrite IH.
Qed.

Lemma run_cases_ext : forall m1 m2 cases v,
  (forall i p g, In (p, g) cases -> m1 i p g v = m2 i p g v) ->
  forall i env gs, run_cases m1 cases v i env gs = run_cases m2 cases v i env gs.
Proof.
  intros m1 m2 cases v. induction cases as [|[p g] r IH]; intros H i env gs; [reflexivity|].
  simpl. rewrite (H i p g) by now left.
  assert (H' : forall i p g, In (p, g) r -> m1 i p g v = m2 i p g v) by (intros; apply H; now right).
  destruct (m2 i p g v); try reflexivity; [|now apply IH].
  destruct (eval_guard g (rev a ++ env)) as [[|]| |]; try reflexivity. now apply IH.
Qed.

Theorem match_eq_gen : forall cases v,
  safe_cases ct cases = true -> fx = true \/ as_ok_cases cases = true ->
  match_cy fx ct cases v = match_ref ct cases v.
Proof.
  intros cases v Hs Ha. unfold match_cy, match_ref. apply run_cases_ext. intros i p g Hin.
  unfold safe_cases in Hs. rewrite forallb_forall in Hs. specialize (Hs _ Hin). simpl in Hs.
  assert (Ha' : fx || as_ok p = true).
  { destruct Ha as [->|Ha]; [reflexivity|]. unfold as_ok_cases in Ha. rewrite forallb_forall in Ha.
    specialize (Ha _ Hin). simpl in Ha. rewrite Ha. apply orb_true_r. }
  destruct (is_simple p && negb (has_guard g)) eqn:E.
  - apply andb_true_iff in E. destruct E as [E _]. rewrite (cy_simple_eq p E).
    apply (proj1 (cy_eq_ref fx ct) p false v Hs Ha').
  - apply (proj1 (cy_eq_ref fx ct) p false v Hs Ha').
Qed.

(* on the theorem's domain the boundscheck=False indexing never leaves the sequence: the
   compiled decision structure never produces the explicit out-of-bounds outcome unless
   PEP 634 semantics itself does (and match_ref has no such constructor use in pm_ref/ref_list) *)
End TOP.

(* ---------- guards: only after a successful pattern, in case order ---------- *)
Lemma run_cases_guards : forall m cases v i env gs,
  exists new,
    (match run_cases m cases v i env gs with
     | SDone o => o_guards o | SRaise _ g => g end) = rev gs ++ new
    /\ StronglySorted lt new
    /\ Forall (fun j => (i <= j)%nat /\ exists p g b,
                 nth_error cases (j - i) = Some (p, g) /\ m j p g v = Ok b /\ has_guard g = true) new.
Proof.
  intros m cases v. induction cases as [|[p g] r IH]; intros i env gs.
  - exists []. simpl. rewrite app_nil_r. repeat split; constructor.
  - simpl. destruct (m i p g v) as [b| |e] eqn:M.
    + (* pattern matched *)
      assert (Hstep : forall new', StronglySorted lt new' ->
                Forall (fun j => (S i <= j)%nat /\ exists p0 g0 b0,
                   nth_error r (j - S i) = Some (p0, g0) /\ m j p0 g0 v = Ok b0 /\ has_guard g0 = true) new' ->
                has_guard g = true ->
                StronglySorted lt (i :: new') /\
                Forall (fun j => (i <= j)%nat /\ exists p0 g0 b0,
                   nth_error ((p, g) :: r) (j - i) = Some (p0, g0) /\ m j p0 g0 v = Ok b0 /\ has_guard g0 = true) (i :: new')).
      { intros new' S' F' HG. split.
        - constructor; [exact S'|]. eapply Forall_impl; [|exact F']. intros j [Hj _]. lia.
        - constructor.
          + split; [lia|]. exists p, g, b. rewrite Nat.sub_diag. auto.
          + eapply Forall_impl; [|exact F']. intros j [Hj [p0 [g0 [b0 [N [Mj HG0]]]]]]. split; [lia|].
            exists p0, g0, b0. replace (j - i)%nat with (S (j - S i)) by lia. auto. }
      assert (Hskip : forall new', 
                Forall (fun j => (S i <= j)%nat /\ exists p0 g0 b0,
                   nth_error r (j - S i) = Some (p0, g0) /\ m j p0 g0 v = Ok b0 /\ has_guard g0 = true) new' ->
                Forall (fun j => (i <= j)%nat /\ exists p0 g0 b0,
                   nth_error ((p, g) :: r) (j - i) = Some (p0, g0) /\ m j p0 g0 v = Ok b0 /\ has_guard g0 = true) new').
      { intros new' F'. eapply Forall_impl; [|exact F']. intros j [Hj [p0 [g0 [b0 [N [Mj HG0]]]]]]. split; [lia|].
        exists p0, g0, b0. replace (j - i)%nat with (S (j - S i)) by lia. auto. }
      destruct (has_guard g) eqn:HG.
      * destruct (eval_guard g (rev b ++ env)) as [[|]| |e].
        -- exists [i]. simpl. destruct (Hstep [] (SSorted_nil _) (Forall_nil _) eq_refl) as [A B]. auto.
        -- destruct (IH (S i) (rev b ++ env) (i :: gs)) as [new' [E [S' F']]].
           exists (i :: new'). rewrite E. simpl. rewrite <- app_assoc. simpl.
           destruct (Hstep new' S' F' eq_refl) as [A B]. auto.
        -- exists [i]. simpl. destruct (Hstep [] (SSorted_nil _) (Forall_nil _) eq_refl) as [A B]. auto.
        -- exists [i]. simpl. destruct (Hstep [] (SSorted_nil _) (Forall_nil _) eq_refl) as [A B]. auto.
      * destruct (eval_guard g (rev b ++ env)) as [[|]| |e].
        -- exists []. simpl. rewrite app_nil_r. repeat split; constructor.
        -- destruct (IH (S i) (rev b ++ env) gs) as [new' [E [S' F']]].
           exists new'. rewrite E. auto.
        -- exists []. simpl. rewrite app_nil_r. repeat split; constructor.
        -- exists []. simpl. rewrite app_nil_r. repeat split; constructor.
    + destruct (IH (S i) env gs) as [new' [E [S' F']]]. exists new'. rewrite E. split; [reflexivity|]. split; [exact S'|].
      eapply Forall_impl; [|exact F']. intros j [Hj [p0 [g0 [b0 [N [Mj HG0]]]]]]. split; [lia|].
      exists p0, g0, b0. replace (j - i)%nat with (S (j - S i)) by lia. auto.
    + exists []. simpl. rewrite app_nil_r. repeat split; constructor.
Qed.

Theorem guard_order_ref : forall ct cases v,
  let tr := match match_ref ct cases v with SDone o => o_guards o | SRaise _ g => g end in
  StronglySorted lt tr /\
  Forall (fun j => exists p g b, nth_error cases j = Some (p, g) /\ pm_ref ct p v = Ok b /\ has_guard g = true) tr.
Proof.
  intros ct cases v. unfold match_ref.
  destruct (run_cases_guards (fun _ p _ w => pm_ref ct p w) cases v O [] []) as [new [E [S' F']]].
  simpl in E. cbv zeta. rewrite E. split; [exact S'|].
  eapply Forall_impl; [|exact F']. intros j [_ [p [g [b [N H]]]]]. exists p, g, b. now rewrite Nat.sub_0_r in N.
Qed.

(* ---------- the refuted classes: concrete witnesses ---------- *)
Definition w_dupmap : list (pat * guard) :=
  [(PMap (KCons (KVal (LInt 1)) (PLit (LInt 1)) (KCons (KVal (LInt 1)) (PLit (LInt 2)) KNil)) None, GNone);
   (PWild, GNone)].
Lemma refuted_dupmap :
  match_cy false [] w_dupmap (VInt 5) = SRaise EValueError []
  /\ match_ref [] w_dupmap (VInt 5) = SDone {| o_sel := Some 1%nat; o_env := []; o_guards := [] |}.
Proof. split; vm_compute; reflexivity. Qed.

Definition w_ct : ctab := [(0%N, [0%N; 1%N]); (1%N, [0%N])].
Definition w_dupcls : list (pat * guard) :=
  [(PClass (CUser 0) (PCons (PLit (LInt 1)) (PCons (PLit (LInt 2)) PNil)) (KCons (KAttr 1) (PLit (LInt 3)) KNil), GNone);
   (PWild, GNone)].
Lemma refuted_dupcls :
  match_cy false w_ct w_dupcls (VInst 0 []) = SRaise ETypeError []
  /\ match_ref w_ct w_dupcls (VInst 0 []) = SDone {| o_sel := Some 1%nat; o_env := []; o_guards := [] |}.
Proof. split; vm_compute; reflexivity. Qed.

Definition w_order : list (pat * guard) :=
  [(PClass (CUser 0)
      (PCons (PClass (CUser 1) (PCons (PLit (LInt 1)) (PCons (PLit (LInt 2)) PNil)) KNil) PNil)
      (KCons (KAttr 2) (PLit (LInt 5)) KNil), GNone);
   (PWild, GNone)].
Definition w_order_v : value := VInst 0 [(0%N, VInst 1 [(0%N, VInt 1)]); (2%N, VInt 4)].
Lemma refuted_order :
  match_cy false w_ct w_order w_order_v = SDone {| o_sel := Some 1%nat; o_env := []; o_guards := [] |}
  /\ match_ref w_ct w_order w_order_v = SRaise ETypeError [].
Proof. split; vm_compute; reflexivity. Qed.

Definition w_as : list (pat * guard) := [(PAs (PLit (LInt 1)) 0, GVarEq 0 (LInt 1)); (PWild, GNone)].
Lemma refuted_as :
  match_cy false [] w_as (VBool true) = SDone {| o_sel := Some 0%nat; o_env := [(0%N, VInt 1)]; o_guards := [0%nat] |}
  /\ match_ref [] w_as (VBool true) = SDone {| o_sel := Some 0%nat; o_env := [(0%N, VBool true)]; o_guards := [0%nat] |}
  /\ match_cy true [] w_as (VBool true) = match_ref [] w_as (VBool true).
Proof. repeat split; vm_compute; reflexivity. Qed.
