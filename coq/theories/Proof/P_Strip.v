(* Proofs about the model of strip_string_literals (Model/M_Strip.v). *)
From Coq Require Import NArith List Bool Lia Arith.
From CyVerif Require Import Model.M_Strip.
Import ListNotations.
Open Scope list_scope.
Open Scope nat_scope.

(* ------------------------------------------------------------------ regex layer *)
Definition tok_text (t : token) : list ch :=
  match t with
  | TComment => [c_hash]
  | TBrace b => [b]
  | TBraces _ run => run
  | TEscape bs q => bs ++ [q]
  | TQuote pre _ run => pre ++ run
  end.

Definition tok_ok (r : rx) (t : token) : Prop :=
  match t with
  | TComment => r = RxCode
  | TBrace _ => r = RxCode
  | TBraces b run => r = RxFStr /\ run <> [] /\ Forall (fun x => x = b) run
  | TEscape bs _ => r <> RxCode /\ bs <> []
  | TQuote _ q run => run <> [] /\ Forall (fun x => x = q) run
  end.

Lemma span_eq_spec c l : forall run r, span_eq c l = (run, r) ->
  l = run ++ r /\ Forall (fun x => x = c) run /\ match r with x :: _ => x <> c | [] => True end.
Proof.
  induction l as [|x t IH]; intros run r H; simpl in H.
  - inversion H; subst. repeat split; constructor.
  - destruct (N.eqb_spec x c) as [E|E].
    + destruct (span_eq c t) as [run' r'] eqn:S. inversion H; subst.
      destruct (IH _ _ eq_refl) as (A & B & C). repeat split.
      * simpl. f_equal. exact A.
      * constructor; [reflexivity | exact B].
      * exact C.
    + inversion H; subst. repeat split; [constructor | exact E].
Qed.

Lemma span_eq_head c t : exists run r, span_eq c (c :: t) = (c :: run, r).
Proof. simpl. rewrite N.eqb_refl. destruct (span_eq c t) as [run r]. eauto. Qed.

Lemma span_nl_spec l : forall b r, span_nl l = (b, r) -> l = b ++ r.
Proof.
  induction l as [|x t IH]; intros b r H; simpl in H.
  - inversion H; reflexivity.
  - destruct (N.eqb x c_nl).
    + inversion H; reflexivity.
    + destruct (span_nl t) as [b' r'] eqn:S. inversion H; subst. simpl. f_equal. apply IH. reflexivity.
Qed.

Lemma match_quote_spec fixp l tok rest : match_quote fixp l = Some (tok, rest) ->
  l = tok_text tok ++ rest /\ (exists pre q run, tok = TQuote pre q run /\ run <> [] /\ Forall (fun x => x = q) run).
Proof.
  unfold match_quote. destruct l as [|c t]; [discriminate|].
  destruct (is_quote c) eqn:Q.
  - destruct (span_eq_head c t) as (run & r & E). rewrite E. intros H; inversion H; subst.
    destruct (span_eq_spec _ _ _ _ E) as (A & B & _). split; [exact A|].
    exists [], c, (c :: run). repeat split; [discriminate | exact B].
  - destruct (is_f fixp c); [|discriminate].
    destruct t as [|q t']; [discriminate|].
    destruct (is_quote q) eqn:Q2.
    + destruct (span_eq_head q t') as (run & r & E). rewrite E. intros H; inversion H; subst.
      destruct (span_eq_spec _ _ _ _ E) as (A & B & _). split.
      * simpl. f_equal. exact A.
      * exists [c], q, (q :: run). repeat split; [discriminate | exact B].
    + destruct (fixp && is_r q); [|discriminate].
      destruct t' as [|q2 t2]; [discriminate|].
      destruct (is_quote q2); [|discriminate].
      destruct (span_eq_head q2 t2) as (run & r & E). rewrite E. intros H; inversion H; subst.
      destruct (span_eq_spec _ _ _ _ E) as (A & B & _). split.
      * simpl. do 2 f_equal. exact A.
      * exists [c; q], q2, (q2 :: run). repeat split; [discriminate | exact B].
Qed.

Lemma match_escape_spec t tok rest : match_escape (c_bs :: t) = Some (tok, rest) ->
  c_bs :: t = tok_text tok ++ rest /\ exists bs q, tok = TEscape bs q /\ bs <> [].
Proof.
  unfold match_escape. destruct (span_eq_head c_bs t) as (run & r & E). rewrite E.
  destruct (span_eq_spec _ _ _ _ E) as (A & _ & _).
  destruct r as [|q r']; [discriminate|]. destruct (is_quote q); [|discriminate].
  intros H; inversion H; subst. split.
  - rewrite A. simpl. rewrite <- app_assoc. reflexivity.
  - exists (c_bs :: run), q. split; [reflexivity | discriminate].
Qed.

Lemma try_at_spec r fixp l tok rest : try_at r fixp l = Some (tok, rest) ->
  l = tok_text tok ++ rest /\ tok_ok r tok /\ tok_text tok <> [].
Proof.
  unfold try_at. destruct l as [|c t]; [discriminate|].
  assert (MQ : forall fx, match_quote fx (c :: t) = Some (tok, rest) ->
            c :: t = tok_text tok ++ rest /\ tok_ok r tok /\ tok_text tok <> []).
  { intros fx H. destruct (match_quote_spec _ _ _ _ H) as (A & pre & q & run & -> & Hne & Hall).
    split; [exact A|]. split; [split; assumption|]. simpl. destruct pre; destruct run; try discriminate; congruence. }
  assert (ME : r <> RxCode -> match_escape (c_bs :: t) = Some (tok, rest) ->
            c_bs :: t = tok_text tok ++ rest /\ tok_ok r tok /\ tok_text tok <> []).
  { intros Hr H. destruct (match_escape_spec _ _ _ H) as (A & bs & q & -> & Hne).
    split; [exact A|]. split; [split; assumption|]. simpl. destruct bs; [congruence | discriminate]. }
  destruct r.
  - destruct (N.eqb_spec c c_hash) as [->|_].
    + intros H; inversion H; subst. repeat split. discriminate.
    + destruct (is_brace c).
      * intros H; inversion H; subst. repeat split. discriminate.
      * apply MQ.
  - destruct (N.eqb_spec c c_bs) as [->|_]; [apply ME; discriminate | apply MQ].
  - destruct (is_brace c).
    + destruct (span_eq_head c t) as (run & r' & E). rewrite E.
      destruct (span_eq_spec _ _ _ _ E) as (A & B & _).
      intros H; inversion H; subst. repeat split; try assumption; discriminate.
    + destruct (N.eqb_spec c c_bs) as [->|_]; [apply ME; discriminate | apply MQ].
Qed.

Lemma find_spec r fixp l : forall sk tok rest, find r fixp l = Some (sk, tok, rest) ->
  l = sk ++ tok_text tok ++ rest /\ tok_ok r tok /\ tok_text tok <> [].
Proof.
  induction l as [|c t IH]; intros sk tok rest H; [discriminate|].
  cbn [find] in H. destruct (try_at r fixp (c :: t)) as [[tk rs]|] eqn:T.
  - inversion H; subst. exact (try_at_spec _ _ _ _ _ T).
  - destruct (find r fixp t) as [[[sk' tk] rs]|] eqn:F; [|discriminate].
    inversion H; subst. destruct (IH _ _ _ eq_refl) as (A & B & C).
    split; [simpl; f_equal; exact A | split; assumption].
Qed.

Lemma find_none_nil r fixp : find r fixp [] = None.
Proof. reflexivity. Qed.

(* ------------------------------------------------------------------ substitution on items *)
Lemma subst_app L a : forall b, subst L (a ++ b) =
  match subst L a, subst L b with Some x, Some y => Some (x ++ y) | _, _ => None end.
Proof.
  induction a as [|i a IH]; intros b; simpl.
  - destruct (subst L b); reflexivity.
  - destruct i as [c|k].
    + rewrite IH. destruct (subst L a), (subst L b); reflexivity.
    + destruct k as [|p]; [reflexivity|]. rewrite IH.
      destruct (nth_error L (N.to_nat (N.pred (N.pos p)))); [|reflexivity].
      destruct (subst L a), (subst L b); simpl; try reflexivity. rewrite app_assoc. reflexivity.
Qed.

Lemma subst_ext L x items : forall r, subst L items = Some r -> subst (L ++ [x]) items = Some r.
Proof.
  induction items as [|i t IH]; intros r H; simpl in *; [exact H|].
  destruct i as [c|k].
  - destruct (subst L t) as [r'|]; [|discriminate]. rewrite (IH _ eq_refl). exact H.
  - destruct k as [|p]; [discriminate|].
    destruct (nth_error L (N.to_nat (N.pred (N.pos p)))) as [l|] eqn:E; [|discriminate].
    destruct (subst L t) as [r'|]; [|discriminate].
    rewrite nth_error_app1 by (apply nth_error_Some; congruence).
    rewrite E, (IH _ eq_refl). exact H.
Qed.

Lemma subst_chars L cs : subst L (map Ch cs) = Some cs.
Proof. induction cs as [|c t IH]; simpl; [reflexivity | rewrite IH; reflexivity]. Qed.

Definition inv (s : state) (pre : list ch) : Prop :=
  subst (rev (s_lits s)) (rev (s_out s)) = Some pre /\ s_cnt s = N.of_nat (length (s_lits s)).

Lemma inv_emit cs s pre : inv s pre -> inv (emit cs s) (pre ++ cs).
Proof.
  intros [H C]. split; [|exact C]. unfold emit; simpl.
  rewrite rev_append_rev, rev_app_distr, rev_involutive, subst_app, H, subst_chars. reflexivity.
Qed.

Lemma inv_label lit s pre : inv s pre -> inv (emit_label lit s) (pre ++ lit).
Proof.
  intros [H C]. split.
  - unfold emit_label; simpl. rewrite subst_app, (subst_ext _ lit _ _ H). simpl.
    rewrite C. destruct (N.succ (N.of_nat (length (s_lits s)))) eqn:E; [lia|]. rewrite <- E.
    replace (N.to_nat (N.pred (N.succ (N.of_nat (length (s_lits s)))))) with (length (rev (s_lits s)))
      by (rewrite rev_length; lia).
    rewrite nth_error_app2 by lia. rewrite Nat.sub_diag. simpl. rewrite app_nil_r. reflexivity.
  - unfold emit_label; simpl. rewrite C. lia.
Qed.

Lemma inv_label_ne lit s pre : inv s pre -> inv (emit_label_ne lit s) (pre ++ lit).
Proof.
  intros H. destruct lit as [|c t]; simpl.
  - rewrite app_nil_r. exact H.
  - apply (inv_label (c :: t)). exact H.
Qed.

Lemma inv_finish s pre : inv s pre ->
  exists items lits, finish s = Done items lits /\ subst lits items = Some pre.
Proof. intros [H _]. eexists _, _. split; [reflexivity | exact H]. Qed.

Lemma last_in (l : list ch) d : l <> [] -> In (last l d) l.
Proof.
  induction l as [|x t IH]; intros H; [congruence|].
  destruct t as [|y t']; [left; reflexivity|]. right. apply IH. discriminate.
Qed.

Definition pend (m : mode) : list ch :=
  match m with MCode _ => [] | MStr _ _ _ _ rp => rev rp end.

Ltac lnorm := repeat (rewrite ?rev_append_rev, ?rev_app_distr, ?rev_involutive, ?app_nil_r, <- ?app_assoc; simpl).

(* ------------------------------------------------------------------ main invariant:
   enough fuel => a result, and substituting the literals back gives the consumed text *)
Lemma run_ok : forall fuel fixp fixe m rest s pre,
  length rest < fuel -> inv s pre ->
  exists items lits, run fuel fixp fixe m rest s = Done items lits
                     /\ subst lits items = Some (pre ++ pend m ++ rest).
Proof.
  induction fuel as [|fuel IH]; intros fixp fixe m rest s pre Hlen Hinv; [lia|].
  assert (STEP : forall m' rest' s' pre', length rest' < length rest -> inv s' pre' ->
            pre' ++ pend m' ++ rest' = pre ++ pend m ++ rest ->
            exists items lits, run fuel fixp fixe m' rest' s' = Done items lits
                               /\ subst lits items = Some (pre ++ pend m ++ rest)).
  { intros m' rest' s' pre' L I E. rewrite <- E. apply IH; [lia | exact I]. }
  destruct m as [c | q triple isf p rpend]; cbn [run].
  - (* parse_code frame *)
    destruct (find RxCode fixp rest) as [[[sk tok] rest']|] eqn:F.
    2:{ simpl. apply inv_finish. apply inv_emit. exact Hinv. }
    destruct (find_spec _ _ _ _ _ _ F) as (E & OK & NE).
    assert (L : length rest' < length rest).
    { rewrite E, !app_length. destruct (tok_text tok); [congruence | simpl; lia]. }
    destruct tok as [ | b | b brun | bs e | qpre qc qrun]; simpl in OK, E.
    + (* comment *)
      destruct (span_nl rest') as [body after] eqn:SN. pose proof (span_nl_spec _ _ _ SN) as E2.
      assert (I2 : inv (emit_label body (emit (sk ++ [c_hash]) s)) ((pre ++ sk ++ [c_hash]) ++ body))
        by (apply inv_label, inv_emit; exact Hinv).
      destruct after as [|a after'].
      * destruct (inv_finish _ _ I2) as (items & lits & E3 & E4). exists items, lits.
        split; [exact E3|]. rewrite E4, E, E2. lnorm. reflexivity.
      * eapply (STEP (MCode c)); [ rewrite E2, app_length in L; lia | exact I2 | ].
        rewrite E, E2. lnorm. reflexivity.
    + (* brace *)
      assert (I2 : inv (emit (sk ++ [b]) s) (pre ++ sk ++ [b])) by (apply inv_emit; exact Hinv).
      assert (EQ : forall m', pend m' = [] -> (pre ++ sk ++ [b]) ++ pend m' ++ rest' = pre ++ pend (MCode c) ++ rest).
      { intros m' ->. rewrite E. lnorm. reflexivity. }
      assert (FIN : forall m', pend m' = [] -> exists items lits,
                run fuel fixp fixe m' rest' (emit (sk ++ [b]) s) = Done items lits
                /\ subst lits items = Some (pre ++ pend (MCode c) ++ rest)).
      { intros m' Hm. eapply (STEP m'); [exact L | exact I2 | apply EQ; exact Hm]. }
      destruct c as [|q triple p|p].
      * apply FIN; reflexivity.
      * destruct (N.eqb b c_rb); apply FIN; reflexivity.
      * destruct (N.eqb b c_rb); apply FIN; reflexivity.
    + destruct OK as (O1 & _). discriminate.
    + destruct OK as (O1 & _). congruence.
    + (* quote run *)
      match goal with |- context [if ?b then _ else _] => destruct b end.
      * eapply (STEP (MCode c)); [exact L | apply inv_emit; exact Hinv | ].
        rewrite E. lnorm. reflexivity.
      * match goal with |- context [run fuel fixp fixe (MStr ?q ?t ?i ?c (rev (skipn ?k ?r))) rest' (emit (sk ++ qpre ++ firstn ?k ?r) s)] =>
          eapply (STEP (MStr q t i c (rev (skipn k r)))); [exact L | apply inv_emit; exact Hinv | ];
          rewrite E; simpl; rewrite rev_involutive; lnorm; rewrite (app_assoc (firstn k r)), firstn_skipn; reflexivity
        end.
  - (* parse_string frame *)
    set (r := if isf then RxFStr else RxStr) in *.
    destruct (find r false rest) as [[[sk tok] rest']|] eqn:F.
    2:{ destruct (inv_finish _ _ (inv_label (rev_append rpend rest) _ _ Hinv)) as (items & lits & E3 & E4).
        exists items, lits. split; [exact E3|]. rewrite E4. simpl. lnorm. reflexivity. }
    destruct (find_spec _ _ _ _ _ _ F) as (E & OK & NE).
    assert (L : length rest' < length rest).
    { rewrite E, !app_length. destruct (tok_text tok); [congruence | simpl; lia]. }
    destruct tok as [ | b | b brun | bs e | qpre qc qrun]; simpl in OK, E.
    + subst r; destruct isf; discriminate.
    + subst r; destruct isf; discriminate.
    + (* braces *)
      destruct OK as (O1 & O2 & O3). destruct isf; [|subst r; discriminate]. cbn [negb].
      destruct (Nat.even (length brun) || negb (N.eqb b c_lb)) eqn:C.
      * eapply (STEP (MStr q triple true p _)); [exact L | exact Hinv |].
        rewrite E. simpl. lnorm. reflexivity.
      * apply orb_false_elim in C. destruct C as [_ C]. apply negb_false_iff, N.eqb_eq in C. subst b.
        assert (BR : brun = removelast brun ++ [c_lb]).
        { rewrite (app_removelast_last c_lb O2) at 1. f_equal. f_equal.
          assert (In (last brun c_lb) brun) by (apply last_in; exact O2).
          rewrite Forall_forall in O3. exact (O3 _ H). }
        eapply (STEP (MCode (CFromStr q triple p))); [exact L | apply inv_emit, inv_label_ne; exact Hinv |].
        rewrite E. rewrite BR at 2. simpl. lnorm. reflexivity.
    + (* escape *)
      destruct OK as (_ & O2).
      destruct (Nat.even (length bs) && N.eqb e q).
      * eapply (STEP (MStr q triple isf p _)); [ | exact Hinv | ].
        -- rewrite E, !app_length. simpl. destruct bs; [congruence | simpl; lia].
        -- rewrite E. simpl. lnorm. reflexivity.
      * eapply (STEP (MStr q triple isf p _)); [exact L | exact Hinv |].
        rewrite E. simpl. lnorm. reflexivity.
    + (* quote run *)
      destruct OK as (O1 & _).
      destruct (N.eqb qc q && Nat.leb (qlen triple) (length qrun)).
      * eapply (STEP (MCode p)); [ | apply inv_emit, inv_label_ne; exact Hinv | ].
        -- rewrite E, !app_length, skipn_length. destruct qrun; [congruence|].
           simpl length. destruct triple; simpl qlen; lia.
        -- rewrite E. simpl. lnorm.
           rewrite (app_assoc (firstn (qlen triple) qrun)), firstn_skipn. reflexivity.
      * eapply (STEP (MStr q triple isf p _)); [exact L | exact Hinv |].
        rewrite E. simpl. lnorm. reflexivity.
Qed.

(* termination (fuel S(length code) suffices, never Stuck) + losslessness on items *)
Theorem strip_total_lossless fixp fixe code :
  exists items lits, strip fixp fixe code = Done items lits /\ subst lits items = Some code.
Proof.
  unfold strip.
  destruct (run_ok (S (length code)) fixp fixe (MCode CTop) code init_state [] ltac:(lia)) as (items & lits & E & H).
  - split; reflexivity.
  - exists items, lits. split; [exact E | exact H].
Qed.

Corollary strip_lossless fixp fixe code items lits :
  strip fixp fixe code = Done items lits -> subst lits items = Some code.
Proof.
  intros H. destruct (strip_total_lossless fixp fixe code) as (i & l & E & S). congruence.
Qed.

(* ------------------------------------------------------------------ classification of characters *)
Lemma classify_app L a : forall b, classify L (a ++ b) =
  match classify L a, classify L b with Some x, Some y => Some (x ++ y) | _, _ => None end.
Proof.
  induction a as [|i a IH]; intros b; simpl.
  - destruct (classify L b); reflexivity.
  - destruct i as [c|k].
    + rewrite IH. destruct (classify L a), (classify L b); reflexivity.
    + destruct k as [|p]; [reflexivity|]. rewrite IH.
      destruct (nth_error L (N.to_nat (N.pred (N.pos p)))); [|reflexivity].
      destruct (classify L a), (classify L b); simpl; try reflexivity. rewrite app_assoc. reflexivity.
Qed.

Lemma classify_ext L x items : forall r, classify L items = Some r -> classify (L ++ [x]) items = Some r.
Proof.
  induction items as [|i t IH]; intros r H; simpl in *; [exact H|].
  destruct i as [c|k].
  - destruct (classify L t) as [r'|]; [|discriminate]. rewrite (IH _ eq_refl). exact H.
  - destruct k as [|p]; [discriminate|].
    destruct (nth_error L (N.to_nat (N.pred (N.pos p)))) as [l|] eqn:E; [|discriminate].
    destruct (classify L t) as [r'|]; [|discriminate].
    rewrite nth_error_app1 by (apply nth_error_Some; congruence).
    rewrite E, (IH _ eq_refl). exact H.
Qed.

Lemma classify_chars L cs : classify L (map Ch cs) = Some (map kept cs).
Proof. induction cs as [|c t IH]; simpl; [reflexivity | rewrite IH; reflexivity]. Qed.

Definition invc (s : state) (pre : list (ch * bool)) : Prop :=
  classify (rev (s_lits s)) (rev (s_out s)) = Some pre /\ s_cnt s = N.of_nat (length (s_lits s)).

Lemma invc_emit cs s pre : invc s pre -> invc (emit cs s) (pre ++ map kept cs).
Proof.
  intros [H C]. split; [|exact C]. unfold emit; simpl.
  rewrite rev_append_rev, rev_app_distr, rev_involutive, classify_app, H, classify_chars. reflexivity.
Qed.

Lemma invc_label lit s pre : invc s pre -> invc (emit_label lit s) (pre ++ map body lit).
Proof.
  intros [H C]. split.
  - unfold emit_label; simpl. rewrite classify_app, (classify_ext _ lit _ _ H). simpl.
    rewrite C. destruct (N.succ (N.of_nat (length (s_lits s)))) eqn:E; [lia|]. rewrite <- E.
    replace (N.to_nat (N.pred (N.succ (N.of_nat (length (s_lits s)))))) with (length (rev (s_lits s)))
      by (rewrite rev_length; lia).
    rewrite nth_error_app2 by lia. rewrite Nat.sub_diag. simpl. rewrite app_nil_r. reflexivity.
  - unfold emit_label; simpl. rewrite C. lia.
Qed.

Lemma invc_label_ne lit s pre : invc s pre -> invc (emit_label_ne lit s) (pre ++ map body lit).
Proof.
  intros H. destruct lit as [|c t]; simpl.
  - rewrite app_nil_r. exact H.
  - apply (invc_label (c :: t)). exact H.
Qed.

Lemma invc_finish s pre : invc s pre ->
  exists items lits, finish s = Done items lits /\ classify lits items = Some pre.
Proof. intros [H _]. eexists _, _. split; [reflexivity | exact H]. Qed.

Lemma subst_classify L items : subst L items = option_map (map fst) (classify L items).
Proof.
  induction items as [|i t IH]; simpl; [reflexivity|]. destruct i as [c|k].
  - rewrite IH. destruct (classify L t); reflexivity.
  - destruct k as [|p]; [reflexivity|]. rewrite IH.
    destruct (nth_error L (N.to_nat (N.pred (N.pos p)))); [|reflexivity].
    destruct (classify L t); simpl; [|reflexivity].
    rewrite map_app, map_map. simpl. rewrite map_id. reflexivity.
Qed.

(* ------------------------------------------------------------------ skipping one character *)
Lemma is_quote_cases c : is_quote c = true -> c = c_sq \/ c = c_dq.
Proof.
  unfold is_quote. destruct (N.eqb_spec c c_sq); [left; assumption|].
  destruct (N.eqb_spec c c_dq); [right; assumption | discriminate].
Qed.

Lemma run_skip_code fuel fixp fixe ctx c t s :
  try_at RxCode fixp (c :: t) = None ->
  run (S fuel) fixp fixe (MCode ctx) (c :: t) s = run (S fuel) fixp fixe (MCode ctx) t (emit [c] s).
Proof.
  intros T. cbn [run find]. rewrite T.
  destruct (find RxCode fixp t) as [[[sk tok] rest']|]; [|reflexivity].
  destruct tok; reflexivity.
Qed.

Lemma run_skip_str fuel fixp fixe q tr p rp c t s :
  is_quote c = false ->
  (N.eqb c c_bs = false \/ match_escape (c :: t) = None) ->
  run (S fuel) fixp fixe (MStr q tr false p rp) (c :: t) s = run (S fuel) fixp fixe (MStr q tr false p (c :: rp)) t s.
Proof.
  intros Q B. cbn [run find].
  assert (TA : try_at RxStr false (c :: t) = match_quote false (c :: t) \/ try_at RxStr false (c :: t) = None).
  { unfold try_at. destruct (N.eqb c c_bs) eqn:E; [|left; reflexivity].
    destruct B as [B|B]; [discriminate | right; exact B]. }
  assert (SKIP : try_at RxStr false (c :: t) = None ->
     run (S fuel) fixp fixe (MStr q tr false p rp) (c :: t) s = run (S fuel) fixp fixe (MStr q tr false p (c :: rp)) t s).
  { intros T. cbn [run find]. rewrite T.
    destruct (find RxStr false t) as [[[sk tok] rest']|]; [|reflexivity].
    destruct tok; try reflexivity;
      match goal with |- context [if ?b then _ else _] => destruct b; reflexivity end. }
  destruct TA as [TA|TA]; [|exact (SKIP TA)].
  destruct (match_quote false (c :: t)) as [[tok rest']|] eqn:MQ; [|exact (SKIP TA)].
  (* c = f followed by a quote run *)
  rewrite TA. unfold match_quote in MQ. rewrite Q in MQ.
  destruct (is_f false c); [|discriminate].
  destruct t as [|qc t']; [discriminate|].
  destruct (is_quote qc) eqn:Q2; [|discriminate].
  destruct (span_eq qc (qc :: t')) as [qrun r] eqn:SP. inversion MQ; subst tok rest'. clear MQ.
  assert (T2 : try_at RxStr false (qc :: t') = Some (TQuote [] qc qrun, r)).
  { unfold try_at. destruct (is_quote_cases _ Q2) as [-> | ->]; simpl N.eqb; cbv iota;
      unfold match_quote; simpl is_quote; cbv iota; rewrite SP; reflexivity. }
  cbn [find]. rewrite T2. cbn [app].
  destruct (N.eqb qc q && Nat.leb (qlen tr) (length qrun)); reflexivity.
Qed.

(* ------------------------------------------------------------------ the reference tokenizer on runs *)
Definition headne (c : ch) (r : list ch) : Prop := match r with x :: _ => x <> c | [] => True end.

Lemma forall_repeat (c : ch) l : Forall (fun x => x = c) l -> l = repeat c (length l).
Proof. induction 1 as [|x l H _ IH]; simpl; [reflexivity | rewrite H, <- IH; reflexivity]. Qed.

Lemma omap_app {A} (a b : list A) (o : option (list A)) :
  option_map (app a) (option_map (app b) o) = option_map (app (a ++ b)) o.
Proof. destruct o; simpl; [rewrite app_assoc|]; reflexivity. Qed.

Lemma omap_cons {A} (a : A) (o : option (list A)) : option_map (cons a) o = option_map (app [a]) o.
Proof. destruct o; reflexivity. Qed.

Lemma omap_nil {A} (o : option (list A)) : option_map (app []) o = o.
Proof. destruct o; reflexivity. Qed.

Lemma ref_comment t : forall b after, span_nl t = (b, after) ->
  refc RComment t = option_map (app (map body b)) (refc (RCode 0) after).
Proof.
  induction t as [|x t IH]; intros b after H; simpl in H.
  - inversion H; subst. reflexivity.
  - destruct (N.eqb_spec x c_nl) as [->|NE].
    + inversion H; subst. cbn. destruct (refc (RCode 0) t); reflexivity.
    + destruct (span_nl t) as [b' a'] eqn:S. inversion H; subst.
      cbn [refc]. destruct (N.eqb_spec x c_nl) as [|_]; [contradiction|].
      rewrite (IH _ _ eq_refl). rewrite omap_cons, omap_app. reflexivity.
Qed.

Lemma ref_bs_run q tr bs : forall e l, Forall (fun x => x = c_bs) bs ->
  refc (RStr q tr e) (bs ++ l) =
  option_map (app (map body bs)) (refc (RStr q tr (xorb e (Nat.odd (length bs)))) l).
Proof.
  induction bs as [|x bs IH]; intros e l H.
  - simpl. rewrite xorb_false_r, omap_nil. reflexivity.
  - inversion H as [|? ? Hx Hr]; subst. cbn [app refc length].
    rewrite Nat.odd_succ, <- Nat.negb_odd.
    destruct e.
    + rewrite (IH false l Hr). rewrite omap_cons, omap_app.
      destruct (Nat.odd (length bs)); reflexivity.
    + rewrite N.eqb_refl. rewrite (IH true l Hr). rewrite omap_cons, omap_app.
      destruct (Nat.odd (length bs)); reflexivity.
Qed.

Lemma ref_run_other q tr c n l : N.eqb c q = false -> N.eqb c c_bs = false ->
  refc (RStr q tr false) (repeat c n ++ l) =
  option_map (app (map body (repeat c n))) (refc (RStr q tr false) l).
Proof.
  intros Hq Hb. induction n as [|n IH]; simpl.
  - rewrite omap_nil. reflexivity.
  - rewrite Hb, Hq, IH, omap_cons, omap_app. reflexivity.
Qed.

(* six quotes in code = an empty triple-quoted literal *)
Lemma ref_q6 c l : is_quote c = true ->
  refc (RCode 0) (c :: c :: c :: c :: c :: c :: l) =
  option_map (app (map kept [c; c; c; c; c; c])) (refc (RCode 0) l).
Proof.
  intros Q. destruct (is_quote_cases _ Q) as [-> | ->]; cbn; destruct (refc (RCode 0) l); reflexivity.
Qed.

Lemma ref_q6k c k : forall l, is_quote c = true ->
  refc (RCode 0) (repeat c (6 * k) ++ l) = option_map (app (map kept (repeat c (6 * k)))) (refc (RCode 0) l).
Proof.
  induction k as [|k IH]; intros l Q.
  - simpl. rewrite omap_nil. reflexivity.
  - replace (6 * S k) with (6 + 6 * k) by lia. rewrite repeat_app, <- app_assoc.
    change (repeat c 6 ++ repeat c (6 * k) ++ l) with (c :: c :: c :: c :: c :: c :: repeat c (6 * k) ++ l).
    rewrite (ref_q6 _ _ Q), (IH _ Q), omap_app, map_app. reflexivity.
Qed.

(* unfolding lemmas for the reference tokenizer at a quote *)
Definition starts2 (c : ch) (t : list ch) : bool :=
  match t with c2 :: c3 :: _ => N.eqb c2 c && N.eqb c3 c | _ => false end.

Lemma quote_not_special c : is_quote c = true -> N.eqb c c_hash = false /\ N.eqb c c_bs = false.
Proof. intros Q. destruct (is_quote_cases _ Q) as [-> | ->]; split; reflexivity. Qed.

Lemma refc_code_quote c t : is_quote c = true ->
  refc (RCode 0) (c :: t) =
  if starts2 c t then option_map (app [kept c; kept c; kept c]) (refc (RStr c true false) (skipn 2 t))
  else option_map (cons (kept c)) (refc (RStr c false false) t).
Proof.
  intros Q. destruct (quote_not_special _ Q) as [H1 _]. cbn [refc]. rewrite H1, Q. cbn [Nat.eqb negb].
  destruct t as [|c2 [|c3 t3]]; try reflexivity. cbn [starts2 skipn].
  destruct (N.eqb_spec c2 c) as [->|]; [|reflexivity].
  destruct (N.eqb_spec c3 c) as [->|]; [|reflexivity].
  cbn [andb]. destruct (refc (RStr c true false) t3); reflexivity.
Qed.

Lemma refc_str_close3 q t : is_quote q = true ->
  refc (RStr q true false) (q :: t) =
  if starts2 q t then option_map (app [kept q; kept q; kept q]) (refc (RCode 0) (skipn 2 t))
  else option_map (cons (body q)) (refc (RStr q true false) t).
Proof.
  intros Q. destruct (quote_not_special _ Q) as [_ H2]. cbn [refc]. rewrite H2, N.eqb_refl.
  destruct t as [|c2 [|c3 t3]]; try reflexivity. cbn [starts2 skipn].
  destruct (N.eqb_spec c2 q) as [->|]; [|reflexivity].
  destruct (N.eqb_spec c3 q) as [->|]; [|reflexivity].
  cbn [andb]. destruct (refc (RCode 0) t3); reflexivity.
Qed.

Lemma refc_str_close1 q t : is_quote q = true ->
  refc (RStr q false false) (q :: t) = option_map (cons (kept q)) (refc (RCode 0) t).
Proof.
  intros Q. destruct (quote_not_special _ Q) as [_ H2]. cbn [refc]. rewrite H2, N.eqb_refl. reflexivity.
Qed.

Lemma s2_headne c r : headne c r -> starts2 c r = false.
Proof.
  destruct r as [|x [|y r']]; simpl; try reflexivity. intros H.
  apply N.eqb_neq in H. rewrite H. reflexivity.
Qed.

Lemma s2_one c r : headne c r -> starts2 c (c :: r) = false.
Proof.
  destruct r as [|x r']; simpl; [reflexivity|]. intros H. apply N.eqb_neq in H. rewrite H, andb_false_r. reflexivity.
Qed.

Lemma s2_two c l : starts2 c (c :: c :: l) = true.
Proof. simpl. rewrite N.eqb_refl. reflexivity. Qed.

(* fewer than six quotes in code, followed by a different character *)
Lemma ref_q1 c r : is_quote c = true -> headne c r ->
  refc (RCode 0) (c :: r) = option_map (app [kept c]) (refc (RStr c false false) r).
Proof. intros Q H. rewrite (refc_code_quote _ _ Q), (s2_headne _ _ H), omap_cons. reflexivity. Qed.

Lemma ref_q2 c r : is_quote c = true -> headne c r ->
  refc (RCode 0) (c :: c :: r) = option_map (app [kept c; kept c]) (refc (RCode 0) r).
Proof.
  intros Q H. rewrite (refc_code_quote _ _ Q), (s2_one _ _ H), (refc_str_close1 _ _ Q), !omap_cons, omap_app.
  reflexivity.
Qed.

Lemma ref_q3 c r : is_quote c = true ->
  refc (RCode 0) (c :: c :: c :: r) = option_map (app [kept c; kept c; kept c]) (refc (RStr c true false) r).
Proof. intros Q. rewrite (refc_code_quote _ _ Q), s2_two. reflexivity. Qed.

Lemma ref_q4 c r : is_quote c = true -> headne c r ->
  refc (RCode 0) (c :: c :: c :: c :: r) =
  option_map (app [kept c; kept c; kept c; body c]) (refc (RStr c true false) r).
Proof.
  intros Q H. rewrite (ref_q3 _ _ Q), (refc_str_close3 _ _ Q), (s2_headne _ _ H), omap_cons, omap_app.
  reflexivity.
Qed.

Lemma ref_q5 c r : is_quote c = true -> headne c r ->
  refc (RCode 0) (c :: c :: c :: c :: c :: r) =
  option_map (app [kept c; kept c; kept c; body c; body c]) (refc (RStr c true false) r).
Proof.
  intros Q H. rewrite (ref_q3 _ _ Q), (refc_str_close3 _ _ Q), (s2_one _ _ H),
    (refc_str_close3 _ _ Q), (s2_headne _ _ H), !omap_cons, !omap_app.
  reflexivity.
Qed.

(* ------------------------------------------------------------------ simulation: scanner vs reference *)
Definition esc_inv (e : bool) (l : list ch) : Prop :=
  e = true -> match snd (span_eq c_bs l) with x :: _ => is_quote x = false | [] => True end.

Inductive related (l : list ch) : mode -> rstate -> Prop :=
| RelCode pf : related l (MCode CTop) (RCode pf)
| RelStr q tr e rp : is_quote q = true -> esc_inv e l ->
    related l (MStr q tr false CTop rp) (RStr q tr e).

Definition pendc (m : mode) : list (ch * bool) := map body (pend m).

Lemma omap_some {A} (X : list A) o cl : option_map (app X) o = Some cl ->
  exists cl', o = Some cl' /\ cl = X ++ cl'.
Proof. destruct o as [y|]; simpl; intros H; inversion H; eauto. Qed.

Lemma brace_not_quote c : is_brace c = true -> is_quote c = false.
Proof.
  unfold is_brace. destruct (N.eqb_spec c c_lb) as [->|]; [reflexivity|].
  destruct (N.eqb_spec c c_rb) as [->|]; [reflexivity | discriminate].
Qed.

Lemma nprime n : (if Nat.ltb n 6 then n else Nat.modulo n 6) = Nat.modulo n 6.
Proof. destruct (Nat.ltb_spec n 6); [symmetry; apply Nat.mod_small; assumption | reflexivity]. Qed.

Lemma firstn_len_app {A} (a b : list A) : firstn (length a) (a ++ b) = a.
Proof. rewrite firstn_app, Nat.sub_diag, firstn_all. simpl. apply app_nil_r. Qed.

Lemma skipn_len_app {A} (a b : list A) : skipn (length a) (a ++ b) = b.
Proof. rewrite skipn_app, Nat.sub_diag, skipn_all. reflexivity. Qed.

(* an f-string prefix in front of a quote: the reference tokenizer gives up *)
Lemma mq_pre_ref_none fixp pf c t tok r :
  is_quote c = false -> N.eqb c c_hash = false ->
  match_quote fixp (c :: t) = Some (tok, r) -> refc (RCode pf) (c :: t) = None.
Proof.
  intros Q Hh. unfold match_quote. rewrite Q.
  destruct (is_f fixp c) eqn:F; [|discriminate].
  assert (PF : next_pf pf c = 1).
  { unfold next_pf. unfold is_f in F. destruct (N.eqb c c_f); [reflexivity|].
    destruct fixp; [|discriminate]. simpl in F. rewrite F. reflexivity. }
  destruct t as [|q t']; [discriminate|].
  cbn [refc]. rewrite Hh, Q, PF.
  destruct (is_quote q) eqn:Q2.
  - intros _. destruct (quote_not_special _ Q2) as [H1 _]. rewrite H1. reflexivity.
  - destruct (fixp && is_r q) eqn:R; [|discriminate].
    destruct t' as [|q2 t2]; [discriminate|]. destruct (is_quote q2) eqn:Q3; [|discriminate]. intros _.
    apply andb_prop in R. destruct R as [_ R].
    assert (Hq : N.eqb q c_hash = false /\ next_pf 1 q = 2).
    { unfold is_r in R. unfold next_pf, is_r.
      destruct (N.eqb_spec q c_r) as [->|]; [split; reflexivity|].
      destruct (N.eqb_spec q c_R) as [->|]; [split; reflexivity | discriminate]. }
    destruct Hq as [H1 H2]. destruct (quote_not_special _ Q3) as [H3 _].
    rewrite H1, H2. cbn [refc]. rewrite H3, Q3. reflexivity.
Qed.

Ltac cfin := unfold pendc; cbn [pend app map];
  repeat (rewrite ?rev_append_rev, ?rev_app_distr, ?rev_involutive, ?app_nil_r, ?map_app, <- ?app_assoc; cbn [app map rev]);
  try reflexivity.

Lemma sim : forall n fuel fixp fixe m rest s pre rs cl,
  length rest <= n -> length rest < fuel -> invc s pre -> related rest m rs ->
  refc rs rest = Some cl ->
  exists items lits, run fuel fixp fixe m rest s = Done items lits
                     /\ classify lits items = Some (pre ++ pendc m ++ cl).
Proof.
  induction n as [|n IH]; intros fuel fixp fixe m rest s pre rs cl Hn Hf Hinv Hrel Href;
    (destruct fuel as [|fuel]; [lia|]);
    (destruct rest as [|c t];
     [ (* empty text *)
       assert (cl = []) by (destruct rs; simpl in Href; inversion Href; reflexivity); subst cl;
       destruct Hrel as [pf | q tr e rp Q I]; cbn [run find];
       [ destruct (invc_finish _ _ (invc_emit [] _ _ Hinv)) as (items & lits & E1 & E2);
         exists items, lits; split; [exact E1|]; rewrite E2; unfold pendc; simpl; rewrite !app_nil_r; reflexivity
       | destruct (invc_finish _ _ (invc_label (rev_append rp []) _ _ Hinv)) as (items & lits & E1 & E2);
         exists items, lits; split; [exact E1|]; rewrite E2; unfold pendc; simpl;
         rewrite rev_append_rev, !app_nil_r; reflexivity ]
     | ]); [simpl in Hn; lia|].
  simpl in Hn, Hf.
  assert (STEPC : forall fuel2 m' rest' s' pre' rs' cl',
            length rest' <= n -> length rest' < fuel2 -> invc s' pre' -> related rest' m' rs' ->
            refc rs' rest' = Some cl' -> pre' ++ pendc m' ++ cl' = pre ++ pendc m ++ cl ->
            exists items lits, run fuel2 fixp fixe m' rest' s' = Done items lits
                               /\ classify lits items = Some (pre ++ pendc m ++ cl)).
  { intros fuel2 m' rest' s' pre' rs' cl' A B C D E G. rewrite <- G. apply (IH fuel2 fixp fixe m' rest' s' pre' rs' cl'); assumption. }
  destruct Hrel as [pf | q tr e rp Q I].
  - (* ---------------- code ---------------- *)
    destruct (N.eqb_spec c c_hash) as [->|Hh].
    { (* comment *)
      assert (T : try_at RxCode fixp (c_hash :: t) = Some (TComment, t)) by reflexivity.
      cbn [run find]. rewrite T. cbn [app].
      destruct (span_nl t) as [b after] eqn:SN. pose proof (span_nl_spec _ _ _ SN) as E2.
      cbn [refc] in Href. change (N.eqb c_hash c_hash) with true in Href. cbv iota in Href.
      rewrite (ref_comment _ _ _ SN), omap_cons, omap_app in Href.
      destruct (omap_some _ _ _ Href) as (cl' & R1 & ->).
      assert (I2 : invc (emit_label b (emit [c_hash] s)) ((pre ++ map kept [c_hash]) ++ map body b))
        by (apply invc_label, invc_emit; exact Hinv).
      destruct after as [|a after'].
      - simpl in R1. inversion R1; subst cl'.
        destruct (invc_finish _ _ I2) as (items & lits & E3 & E4). exists items, lits.
        split; [exact E3|]. rewrite E4. cfin.
      - eapply (STEPC fuel (MCode CTop) (a :: after') _ _ (RCode 0) cl'); [ | | exact I2 | constructor | exact R1 | ].
        + rewrite E2, app_length in Hn. lia.
        + rewrite E2, app_length in Hf. lia.
        + cfin. }
    apply N.eqb_neq in Hh.
    destruct (is_brace c) eqn:B.
    { (* brace, not in an f-string *)
      assert (T : try_at RxCode fixp (c :: t) = Some (TBrace c, t)) by (unfold try_at; rewrite Hh, B; reflexivity).
      cbn [run find]. rewrite T. cbn [app].
      cbn [refc] in Href. rewrite Hh, (brace_not_quote _ B), omap_cons in Href.
      destruct (omap_some _ _ _ Href) as (cl' & R1 & ->).
      eapply (STEPC fuel (MCode CTop) t _ _ (RCode _) cl'); [lia | lia | apply invc_emit; exact Hinv | constructor | exact R1 | ].
      cfin. }
    destruct (is_quote c) eqn:Q.
    { (* a run of quotes *)
      assert (PF : pf = 0).
      { destruct pf; [reflexivity|]. cbn [refc] in Href. rewrite Hh, Q in Href. discriminate. }
      subst pf.
      destruct (span_eq c (c :: t)) as [qrun r] eqn:SP.
      destruct (span_eq_spec _ _ _ _ SP) as (E & ALL & HNE).
      assert (T : try_at RxCode fixp (c :: t) = Some (TQuote [] c qrun, r)).
      { unfold try_at. rewrite Hh, B. unfold match_quote. rewrite Q, SP. reflexivity. }
      cbn [run find]. rewrite T. cbn [app]. rewrite nprime.
      pose proof (forall_repeat _ _ ALL) as RP. remember (length qrun) as nq eqn:NQD.
      assert (NQ : 1 <= nq).
      { destruct (span_eq_head c t) as (x & y & Z). rewrite Z in SP. inversion SP; subst. simpl. lia. }
      assert (LR : length r + nq = S (length t)).
      { change (S (length t)) with (length (c :: t)). rewrite E, app_length. lia. }
      pose proof (Nat.div_mod nq 6 ltac:(lia)) as DM.
      pose proof (Nat.mod_upper_bound nq 6 ltac:(lia)) as MB.
      remember (nq / 6) as k eqn:KD.
      rewrite E in Href. rewrite RP in Href.
      (* skipped run: j = 0 or 2 *)
      assert (SKIPQ : forall j, nq = 6 * k + j ->
                refc (RCode 0) (repeat c j ++ r) = option_map (app (map kept (repeat c j))) (refc (RCode 0) r) ->
                exists items lits, run fuel fixp fixe (MCode CTop) r (emit qrun s) = Done items lits
                                   /\ classify lits items = Some (pre ++ pendc (MCode CTop) ++ cl)).
      { intros j EJ RJ. rewrite EJ, repeat_app, <- app_assoc, (ref_q6k _ _ _ Q), RJ, omap_app, <- map_app, <- repeat_app, <- EJ in Href.
        destruct (omap_some _ _ _ Href) as (cl' & R1 & ->).
        eapply (STEPC fuel (MCode CTop) r _ _ (RCode 0) cl'); [lia | lia | apply invc_emit; exact Hinv | constructor | exact R1 | ].
        rewrite <- RP. cfin. }
      (* opened literal: keep quotes are code, extra quotes are body *)
      assert (OPENQ : forall j keepj extra tr, nq = 6 * k + j -> j = keepj + extra ->
                refc (RCode 0) (repeat c j ++ r) =
                  option_map (app (map kept (repeat c keepj) ++ map body (repeat c extra))) (refc (RStr c tr false) r) ->
                exists items lits,
                  run fuel fixp fixe (MStr c tr false CTop (rev (skipn (nq - extra) qrun))) r
                      (emit (firstn (nq - extra) qrun) s) = Done items lits
                  /\ classify lits items = Some (pre ++ pendc (MCode CTop) ++ cl)).
      { intros j keepj extra tr EJ EK RJ.
        rewrite EJ, repeat_app, <- app_assoc, (ref_q6k _ _ _ Q), RJ, omap_app in Href.
        destruct (omap_some _ _ _ Href) as (cl' & R1 & ->).
        assert (SPLIT : qrun = repeat c (nq - extra) ++ repeat c extra).
        { rewrite <- repeat_app. replace (nq - extra + extra) with nq by lia. exact RP. }
        assert (F1 : firstn (nq - extra) qrun = repeat c (nq - extra)).
        { rewrite SPLIT at 1. rewrite <- (repeat_length c (nq - extra)) at 1. apply firstn_len_app. }
        assert (F2 : skipn (nq - extra) qrun = repeat c extra).
        { rewrite SPLIT at 1. rewrite <- (repeat_length c (nq - extra)) at 1. apply skipn_len_app. }
        rewrite F1, F2.
        eapply (STEPC fuel (MStr c tr false CTop _) r _ _ (RStr c tr false) cl');
          [lia | lia | apply invc_emit; exact Hinv | constructor; [exact Q | intros; discriminate] | exact R1 | ].
        unfold pendc. simpl. rewrite rev_involutive, <- !app_assoc. f_equal.
        replace (nq - extra) with (6 * k + keepj) by lia. rewrite repeat_app, !map_app, <- !app_assoc. reflexivity. }
      destruct (nq mod 6) as [|[|[|[|[|[|j']]]]]] eqn:J; try lia; cbn [Nat.eqb orb negb Nat.sub nonempty andb].
      - apply (SKIPQ 0); [lia|]. simpl. rewrite omap_nil. reflexivity.
      - apply (OPENQ 1 1 0 false); [lia | lia |]. simpl. apply (ref_q1 _ _ Q HNE).
      - apply (SKIPQ 2); [lia|]. simpl. apply (ref_q2 _ _ Q HNE).
      - apply (OPENQ 3 3 0 true); [lia | lia |]. simpl. apply (ref_q3 _ _ Q).
      - apply (OPENQ 4 3 1 true); [lia | lia |]. simpl. apply (ref_q4 _ _ Q HNE).
      - apply (OPENQ 5 3 2 true); [lia | lia |]. simpl. apply (ref_q5 _ _ Q HNE). }
    (* ordinary character, possibly an f-string prefix *)
    destruct (match_quote fixp (c :: t)) as [[tok r]|] eqn:MQ.
    { rewrite (mq_pre_ref_none _ _ _ _ _ _ Q Hh MQ) in Href. discriminate. }
    assert (T : try_at RxCode fixp (c :: t) = None) by (unfold try_at; rewrite Hh, B; exact MQ).
    rewrite (run_skip_code _ _ _ _ _ _ _ T).
    cbn [refc] in Href. rewrite Hh, Q, omap_cons in Href.
    destruct (omap_some _ _ _ Href) as (cl' & R1 & ->).
    eapply (STEPC (S fuel) (MCode CTop) t _ _ (RCode _) cl'); [lia | lia | apply invc_emit; exact Hinv | constructor | exact R1 | ].
    cfin.
  - (* ---------------- plain string literal ---------------- *)
    destruct (quote_not_special _ Q) as [_ Qbs].
    assert (SKIPS : forall e', esc_inv e' t -> is_quote c = false ->
              (N.eqb c c_bs = false \/ match_escape (c :: t) = None) ->
              refc (RStr q tr e) (c :: t) = option_map (cons (body c)) (refc (RStr q tr e') t) ->
              exists items lits, run (S fuel) fixp fixe (MStr q tr false CTop rp) (c :: t) s = Done items lits
                                 /\ classify lits items = Some (pre ++ pendc (MStr q tr false CTop rp) ++ cl)).
    { intros e' I' Qc Bc RJ. rewrite (run_skip_str _ _ _ _ _ _ _ _ _ _ Qc Bc).
      rewrite RJ, omap_cons in Href. destruct (omap_some _ _ _ Href) as (cl' & R1 & ->).
      eapply (STEPC (S fuel) (MStr q tr false CTop (c :: rp)) t _ _ (RStr q tr e') cl');
        [lia | lia | exact Hinv | constructor; assumption | exact R1 | ].
      cfin. }
    destruct (N.eqb_spec c c_bs) as [->|Hb].
    { (* backslash *)
      destruct (span_eq c_bs (c_bs :: t)) as [bs r] eqn:SP.
      destruct (span_eq_spec _ _ _ _ SP) as (E & ALL & HNE).
      assert (BN : bs <> []).
      { destruct (span_eq_head c_bs t) as (x & y & Z). rewrite Z in SP. inversion SP. discriminate. }
      assert (ESC : (exists x r', r = x :: r' /\ is_quote x = true) \/ match_escape (c_bs :: t) = None).
      { unfold match_escape. rewrite SP. destruct r as [|x r']; [right; reflexivity|].
        destruct (is_quote x) eqn:QX; [left; eauto | right; reflexivity]. }
      destruct ESC as [(x & r' & -> & QX) | ME].
      - (* escaped or unescaped quote *)
        assert (e = false).
        { destruct e; [|reflexivity]. specialize (I eq_refl). rewrite SP in I. simpl in I. congruence. }
        subst e.
        assert (T : try_at RxStr false (c_bs :: t) = Some (TEscape bs x, r')).
        { unfold try_at. change (N.eqb c_bs c_bs) with true. cbv iota. unfold match_escape. rewrite SP, QX. reflexivity. }
        cbn [run find]. rewrite T. cbn [app].
        rewrite E, (ref_bs_run _ _ _ _ _ ALL), xorb_false_l in Href.
        destruct (omap_some _ _ _ Href) as (cl' & R1 & ->).
        assert (LL : length bs + S (length r') = S (length t)).
        { change (S (length t)) with (length (c_bs :: t)). rewrite E, app_length. reflexivity. }
        assert (BL : 1 <= length bs) by (destruct bs; [congruence | simpl; lia]).
        destruct (Nat.even (length bs) && N.eqb x q) eqn:C.
        + apply andb_prop in C. destruct C as [C1 C2].
          rewrite <- Nat.negb_even, C1 in R1. cbn [negb] in R1.
          eapply (STEPC fuel (MStr q tr false CTop _) (x :: r') _ _ (RStr q tr false) cl');
            [simpl; lia | simpl; lia | exact Hinv | constructor; [exact Q | intros; discriminate] | exact R1 | ].
          cfin.
        + assert (RX : refc (RStr q tr (Nat.odd (length bs))) (x :: r') =
                       option_map (cons (body x)) (refc (RStr q tr false) r')).
          { destruct (quote_not_special _ QX) as [_ Xbs].
            destruct (Nat.odd (length bs)) eqn:OD; cbn [refc]; [reflexivity|].
            rewrite <- Nat.negb_odd, OD in C. cbn [negb andb] in C. rewrite Xbs, C. reflexivity. }
          rewrite RX, omap_cons in R1. destruct (omap_some _ _ _ R1) as (cl2 & R2 & ->).
          eapply (STEPC fuel (MStr q tr false CTop _) r' _ _ (RStr q tr false) cl2);
            [lia | lia | exact Hinv | constructor; [exact Q | intros; discriminate] | exact R2 | ].
          cfin.
      - (* backslash run not followed by a quote *)
        assert (I' : forall e', esc_inv e' t).
        { intros e' _. destruct (span_eq c_bs t) as [bs' r2] eqn:SP2.
          assert (Z : span_eq c_bs (c_bs :: t) = (c_bs :: bs', r2)).
          { cbn [span_eq]. change (N.eqb c_bs c_bs) with true. cbv iota. rewrite SP2. reflexivity. }
          unfold match_escape in ME. rewrite Z in ME. cbn [snd].
          destruct r2 as [|x r']; [exact Logic.I|]. destruct (is_quote x); [discriminate | reflexivity]. }
        apply (SKIPS (negb e)); [apply I' | reflexivity | right; exact ME |].
        cbn [refc]. destruct e; [reflexivity|]. change (N.eqb c_bs c_bs) with true. reflexivity. }
    apply N.eqb_neq in Hb.
    destruct (is_quote c) eqn:Qc.
    { (* quote run inside the literal *)
      assert (e = false).
      { destruct e; [|reflexivity]. specialize (I eq_refl). simpl in I. rewrite Hb in I. simpl in I. congruence. }
      subst e.
      destruct (span_eq c (c :: t)) as [qrun r] eqn:SP.
      destruct (span_eq_spec _ _ _ _ SP) as (E & ALL & HNE).
      destruct (span_eq_head c t) as (qrun' & r0 & Z). rewrite Z in SP. inversion SP; subst qrun r0. clear SP.
      assert (T : try_at RxStr false (c :: t) = Some (TQuote [] c (c :: qrun'), r)).
      { unfold try_at. rewrite Hb. unfold match_quote. rewrite Qc, Z. reflexivity. }
      cbn [run find]. rewrite T. cbn [app].
      assert (ET : t = qrun' ++ r) by (simpl in E; inversion E; reflexivity).
      assert (LT : length t = length qrun' + length r) by (rewrite ET, app_length; reflexivity).
      inversion ALL as [|? ? _ ALL']; subst.
      destruct (N.eqb c q && Nat.leb (qlen tr) (length (c :: qrun'))) eqn:C.
      - apply andb_prop in C. destruct C as [C1 C2]. apply N.eqb_eq in C1. subst c.
        destruct tr.
        + (* closing triple quote *)
          destruct qrun' as [|q2 [|q3 qrun'']]; try (simpl in C2; discriminate).
          inversion ALL' as [|? ? A1 ALL'']; subst. inversion ALL'' as [|? ? A2 _]; subst.
          cbn [app] in Href, LT |- *. simpl in Hn, Hf. rewrite app_length in Hn, Hf.
          rewrite (refc_str_close3 _ _ Q), s2_two in Href. cbn [skipn] in Href.
          destruct (omap_some _ _ _ Href) as (cl' & R1 & ->).
          cbn [qlen firstn skipn app].
          eapply (STEPC fuel (MCode CTop) (qrun'' ++ r) _ _ (RCode 0) cl');
            [rewrite app_length; lia | rewrite app_length; lia
            | apply invc_emit, invc_label_ne; exact Hinv | constructor | exact R1 | ].
          cfin.
        + (* closing single quote *)
          rewrite (refc_str_close1 _ _ Q), omap_cons in Href.
          destruct (omap_some _ _ _ Href) as (cl' & R1 & ->).
          cbn [qlen firstn skipn app].
          eapply (STEPC fuel (MCode CTop) (qrun' ++ r) _ _ (RCode 0) cl');
            [lia | lia | apply invc_emit, invc_label_ne; exact Hinv | constructor | exact R1 | ].
          cfin.
      - (* quotes that do not close the literal *)
        assert (RQ : refc (RStr q tr false) (c :: qrun' ++ r) =
                     option_map (app (map body (c :: qrun'))) (refc (RStr q tr false) r)).
        { destruct (N.eqb_spec c q) as [->|NE].
          - simpl in C. destruct tr; [|discriminate]. cbn [qlen] in C.
            destruct qrun' as [|q2 [|q3 qrun'']]; [ | | simpl in C; discriminate ].
            + cbn [app]. rewrite (refc_str_close3 _ _ Q), (s2_headne _ _ HNE), omap_cons. reflexivity.
            + inversion ALL' as [|? ? A1 _]; subst. cbn [app].
              rewrite (refc_str_close3 _ _ Q), (s2_one _ _ HNE), (refc_str_close3 _ _ Q), (s2_headne _ _ HNE),
                !omap_cons, omap_app. reflexivity.
          - apply N.eqb_neq in NE. rewrite E, (forall_repeat _ _ ALL).
            apply (ref_run_other _ _ _ _ _ NE Hb). }
        rewrite RQ in Href. destruct (omap_some _ _ _ Href) as (cl' & R1 & ->).
        eapply (STEPC fuel (MStr q tr false CTop _) r _ _ (RStr q tr false) cl');
          [lia | lia | exact Hinv | constructor; [exact Q | intros; discriminate] | exact R1 | ].
        cfin. }
    (* ordinary character *)
    apply (SKIPS false); [intros; discriminate | reflexivity | left; reflexivity |].
    cbn [refc]. destruct e; [reflexivity|]. rewrite Hb.
    assert (NQ : N.eqb c q = false).
    { apply N.eqb_neq. intros ->. congruence. }
    rewrite NQ. reflexivity.
Qed.

(* completeness on the fragment without f-string prefixes: the characters kept in the stripped
   text / moved into literals are exactly the code / body characters of the reference tokenizer *)
Theorem strip_complete_plain fixp fixe code cl :
  ref_classify code = Some cl ->
  exists items lits, strip fixp fixe code = Done items lits /\ classify lits items = Some cl.
Proof.
  intros H. unfold strip.
  destruct (sim (length code) (S (length code)) fixp fixe (MCode CTop) code init_state [] (RCode 0) cl)
    as (items & lits & E & C); try lia.
  - split; reflexivity.
  - constructor.
  - exact H.
  - exists items, lits. split; [exact E | exact C].
Qed.

Corollary ref_classify_is_partition code cl : ref_classify code = Some cl -> map fst cl = code.
Proof.
  intros H. destruct (strip_complete_plain false false code cl H) as (items & lits & E & C).
  pose proof (strip_lossless _ _ _ _ _ E) as L. rewrite subst_classify, C in L. simpl in L. congruence.
Qed.

(* ------------------------------------------------------------------ the rendered text:
   re.sub(prefix + digits + '_', lookup) on the joined stripped text gives the input back *)
From Coq Require Import DecimalN DecimalPos.

Lemma strip_prefix_app p : forall r, strip_prefix p (p ++ r) = Some r.
Proof. induction p as [|x p IH]; intros r; simpl; [reflexivity | rewrite N.eqb_refl; apply IH]. Qed.

Lemma strip_prefix_some p : forall l r, strip_prefix p l = Some r -> l = p ++ r.
Proof.
  induction p as [|x p IH]; intros l r H; simpl in H.
  - inversion H; reflexivity.
  - destruct l as [|y l']; [discriminate|]. destruct (N.eqb_spec x y) as [->|]; [|discriminate].
    simpl. f_equal. apply IH. exact H.
Qed.

Lemma uint_chars_digits u : Forall (fun c => is_digit c = true) (uint_chars u).
Proof. induction u; simpl; constructor; try reflexivity; assumption. Qed.

Lemma uint_chars_inj u : forall u', uint_chars u = uint_chars u' -> u = u'.
Proof.
  induction u; intros u' H; destruct u'; simpl in H; try discriminate; try reflexivity;
    inversion H; f_equal; auto.
Qed.

Lemma dec_nonnil k : dec k <> [].
Proof.
  unfold dec. destruct k as [|p]; [discriminate|]. simpl.
  pose proof (DecimalPos.Unsigned.to_uint_nonnil p) as H.
  destruct (Pos.to_uint p); [congruence | discriminate..].
Qed.

Lemma dec_inj k k' : dec k = dec k' -> k = k'.
Proof. unfold dec. intros H. apply DecimalN.Unsigned.to_uint_inj, uint_chars_inj, H. Qed.

Lemma label_inj p k k' : label p k = label p k' -> k = k'.
Proof.
  unfold label. intros H. apply app_inv_head in H. apply app_inv_tail in H. apply dec_inj, H.
Qed.

Lemma span_digits_app ds : forall x r, Forall (fun c => is_digit c = true) ds -> is_digit x = false ->
  span_digits (ds ++ x :: r) = (ds, x :: r).
Proof.
  induction ds as [|d ds IH]; intros x r H Hx; simpl.
  - rewrite Hx. reflexivity.
  - inversion H as [|? ? Hd Hr]; subst. rewrite Hd, (IH _ _ Hr Hx). reflexivity.
Qed.

Lemma match_label_at p k r : match_label p (label p k ++ r) = Some (label p k).
Proof.
  unfold match_label, label. rewrite <- !app_assoc, strip_prefix_app. simpl.
  rewrite (span_digits_app (dec k) c_us r (uint_chars_digits _) eq_refl).
  destruct (dec k) eqn:D; [exfalso; exact (dec_nonnil k D)|]. reflexivity.
Qed.

Lemma list_eqb_spec a : forall b, list_eqb a b = true <-> a = b.
Proof.
  induction a as [|x a IH]; intros [|y b]; simpl; split; intros H; try reflexivity; try discriminate.
  - apply andb_prop in H. destruct H as [H1 H2]. apply N.eqb_eq in H1. apply IH in H2. congruence.
  - inversion H; subst. rewrite N.eqb_refl. apply IH. reflexivity.
Qed.

Lemma lookup_dict p lits : forall k0 k, (k0 <= k)%N ->
  lookup (dict_from p k0 lits) (label p k) = nth_error lits (N.to_nat (k - k0)).
Proof.
  induction lits as [|l t IH]; intros k0 k H; simpl.
  - destruct (N.to_nat (k - k0)); reflexivity.
  - destruct (list_eqb (label p k0) (label p k)) eqn:E.
    + apply list_eqb_spec, label_inj in E. subst. rewrite N.sub_diag. reflexivity.
    + assert (k0 <> k) by (intros ->; rewrite (proj2 (list_eqb_spec _ _) eq_refl) in E; discriminate).
      rewrite IH by lia. replace (N.to_nat (k - k0)) with (S (N.to_nat (k - N.succ k0))) by lia. reflexivity.
Qed.

Lemma subst_text_skip p d a : forall r, subst_text p d (length a) (a ++ r) = subst_text p d 0 r.
Proof.
  induction a as [|x a IH]; intros r; simpl; [|apply IH].
  destruct r; reflexivity.
Qed.

Definition safe (p : list ch) (items : list item) : Prop :=
  forall A c t, items = A ++ Ch c :: t -> match_label p (render p (Ch c :: t)) = None.

Lemma subst_text_render p lits items : safe p items -> forall r,
  subst lits items = Some r -> subst_text p (dict p lits) 0 (render p items) = Some r.
Proof.
  induction items as [|i t IH]; intros S r H.
  - simpl in *. exact H.
  - assert (St : safe p t).
    { intros A c t' E. apply (S (i :: A) c t'). rewrite E. reflexivity. }
    destruct i as [c|k].
    + cbn [render subst] in *. destruct (subst lits t) as [r'|] eqn:E; [|discriminate].
      cbn [subst_text]. change (c :: render p t) with (render p (Ch c :: t)).
      rewrite (S [] c t eq_refl). rewrite (IH St _ eq_refl). exact H.
    + cbn [render subst] in *. destruct k as [|pk]; [discriminate|].
      destruct (nth_error lits (N.to_nat (N.pred (N.pos pk)))) as [l|] eqn:E1; [|discriminate].
      destruct (subst lits t) as [r'|] eqn:E2; [|discriminate].
      pose proof (match_label_at p (N.pos pk) (render p t)) as ML.
      destruct (label p (N.pos pk)) as [|x lab'] eqn:LB.
      { unfold label in LB. destruct p; destruct (dec (N.pos pk)); discriminate. }
      cbn [app subst_text] in *. rewrite ML.
      unfold dict. rewrite <- LB, lookup_dict by lia.
      replace (N.to_nat (N.pos pk - 1)) with (N.to_nat (N.pred (N.pos pk))) by lia. rewrite E1.
      rewrite LB. replace (length (x :: lab') - 1) with (length lab') by (simpl; lia).
      rewrite subst_text_skip. change (dict_from p 1 lits) with (dict p lits). rewrite (IH St _ eq_refl). exact H.
Qed.

Definition borderless (p : list ch) : Prop :=
  forall a b c, p = a ++ b -> p = b ++ c -> a = [] \/ b = [].
Definition occurs (p l : list ch) : Prop := exists a b, l = a ++ p ++ b.

Lemma lead_split items : exists cs t', items = map Ch cs ++ t' /\ (t' = [] \/ exists k t'', t' = Lab k :: t'').
Proof.
  induction items as [|i t (cs & t' & E & H)].
  - exists [], []. split; [reflexivity | left; reflexivity].
  - destruct i as [c|k].
    + exists (c :: cs), t'. split; [simpl; f_equal; exact E | exact H].
    + exists [], (Lab k :: t). split; [reflexivity | right; eauto].
Qed.

Lemma render_chars p cs t : render p (map Ch cs ++ t) = cs ++ render p t.
Proof. induction cs as [|c cs IH]; simpl; [reflexivity | f_equal; exact IH]. Qed.

Lemma safe_of_lossless p lits items input :
  borderless p -> ~ occurs p input -> subst lits items = Some input -> safe p items.
Proof.
  intros BL NO H A c t E.
  destruct (match_label p (render p (Ch c :: t))) as [key|] eqn:ML; [exfalso|reflexivity].
  unfold match_label in ML.
  destruct (strip_prefix p (render p (Ch c :: t))) as [l1|] eqn:SP; [|discriminate]. clear ML.
  apply strip_prefix_some in SP.
  destruct (lead_split t) as (cs & t' & Et & Ht').
  rewrite E, subst_app in H.
  destruct (subst lits A) as [sA|]; [|discriminate].
  rewrite Et in H, SP.
  change (Ch c :: map Ch cs ++ t') with (map Ch (c :: cs) ++ t') in H, SP.
  rewrite subst_app, subst_chars in H. rewrite render_chars in SP.
  destruct (subst lits t') as [sT|]; [|discriminate]. inversion H; subst input. clear H.
  destruct (app_eq_app _ _ _ _ SP) as (l & [[E1 E2] | [E1 E2]]).
  - apply NO. exists sA, (l ++ sT). change (c :: cs ++ sT) with ((c :: cs) ++ sT).
    rewrite E1, <- !app_assoc. reflexivity.
  - destruct l as [|x l'].
    + apply NO. exists sA, sT. rewrite app_nil_r in E1. change (c :: cs ++ sT) with ((c :: cs) ++ sT).
      rewrite <- E1. reflexivity.
    + destruct Ht' as [-> | (k & t'' & ->)]; [simpl in E2; discriminate|].
      cbn [render] in E2. unfold label in E2. rewrite <- app_assoc in E2.
      destruct (app_eq_app _ _ _ _ E2) as (l2 & [[F1 F2] | [F1 F2]]).
      * (* p = cs' ++ l = l ++ l2 with cs', l non-empty: a border *)
        destruct (BL (c :: cs) (x :: l') l2 E1 F1) as [B|B]; discriminate.
      * (* x :: l' = p ++ l2 : then p is longer than itself *)
        assert (length p = length (c :: cs) + length (x :: l')) by (rewrite E1 at 1; apply app_length).
        assert (length (x :: l') = length p + length l2) by (rewrite F1 at 1; apply app_length).
        simpl in *. lia.
Qed.

Theorem strip_text_lossless fixp fixe prefix code items lits :
  borderless prefix -> ~ occurs prefix code ->
  strip fixp fixe code = Done items lits ->
  subst_text prefix (dict prefix lits) 0 (render prefix items) = Some code.
Proof.
  intros BL NO H. pose proof (strip_lossless _ _ _ _ _ H) as L.
  apply subst_text_render; [|exact L]. exact (safe_of_lossless _ _ _ _ BL NO L).
Qed.

Definition default_prefix : list ch := [95; 95; 80; 121; 120; 95; 76]%N.   (* __Pyx_L *)

Lemma default_prefix_borderless : borderless default_prefix.
Proof.
  unfold borderless, default_prefix. intros a b c H1 H2.
  destruct a as [|a0 a]; [left; reflexivity|]. right.
  destruct b as [|b0 b]; [reflexivity|]. exfalso.
  do 7 (destruct a as [|? a]; [simpl in H1; inversion H1; subst; simpl in H2; inversion H2 |]).
  simpl in H1; inversion H1.
Qed.

(* decidable form of "the prefix occurs in the text" *)
Fixpoint occursb (p l : list ch) : bool :=
  match strip_prefix p l with
  | Some _ => true
  | None => match l with [] => false | _ :: t => occursb p t end
  end.

Lemma occurs_occursb p l : occurs p l -> occursb p l = true.
Proof.
  intros (a & b & ->). induction a as [|x a IH].
  - simpl app. destruct (p ++ b) eqn:E; simpl; rewrite <- E, strip_prefix_app; reflexivity.
  - cbn [app occursb]. destruct (strip_prefix p (x :: a ++ p ++ b)); [reflexivity | exact IH].
Qed.

Theorem strip_default_prefix_lossless fixp fixe code items lits :
  occursb default_prefix code = false ->
  strip fixp fixe code = Done items lits ->
  subst_text default_prefix (dict default_prefix lits) 0 (render default_prefix items) = Some code.
Proof.
  intros NO H. apply (strip_text_lossless fixp fixe); [exact default_prefix_borderless | | exact H].
  intros O. rewrite (occurs_occursb _ _ O) in NO. discriminate.
Qed.

(* ------------------------------------------------------------------ finding F21: witnesses *)
(* F"{d["k"]}" : the k (index 6) is the body of the nested literal "k" *)
Definition w_upper_f : list ch := [70; 34; 123; 100; 91; 34; 107; 34; 93; 125; 34]%N.
(* f"""{x:#x}<newline>abc""" : a (index 11) is literal text of the f-string *)
Definition w_spec_hash : list ch :=
  [102; 34; 34; 34; 123; 120; 58; 35; 120; 125; 10; 97; 98; 99; 34; 34; 34]%N.
(* a = f"{x:'^9}"<newline>b = 'lit'<newline> : l (index 20) is the body of 'lit' *)
Definition w_spec_quote : list ch :=
  [97; 32; 61; 32; 102; 34; 123; 120; 58; 39; 94; 57; 125; 34; 10; 98; 32; 61; 32; 39; 108; 105; 116; 39; 10]%N.

Definition kept_at (fixp fixe : bool) (code : list ch) (i : nat) (c : ch) : Prop :=
  exists items lits cl, strip fixp fixe code = Done items lits /\ classify lits items = Some cl
                        /\ nth_error code i = Some c /\ nth_error cl i = Some (c, false).
Definition removed_at (fixp fixe : bool) (code : list ch) (i : nat) (c : ch) : Prop :=
  exists items lits cl, strip fixp fixe code = Done items lits /\ classify lits items = Some cl
                        /\ nth_error code i = Some c /\ nth_error cl i = Some (c, true).

Lemma upper_f_prefix_refuted : forall fixe, kept_at false fixe w_upper_f 6 107%N.
Proof. intros []; eexists _, _, _; repeat split; vm_compute; reflexivity. Qed.

Lemma upper_f_prefix_repaired : forall fixe, removed_at true fixe w_upper_f 6 107%N.
Proof. intros []; eexists _, _, _; repeat split; vm_compute; reflexivity. Qed.

Lemma spec_hash_refuted : forall fixp fixe, kept_at fixp fixe w_spec_hash 11 97%N.
Proof. intros [] []; eexists _, _, _; repeat split; vm_compute; reflexivity. Qed.

Lemma spec_quote_refuted : forall fixp fixe, kept_at fixp fixe w_spec_quote 20 108%N.
Proof. intros [] []; eexists _, _, _; repeat split; vm_compute; reflexivity. Qed.

(* f''''''' {}' : an empty triple-quoted f-string followed by the plain literal ' {}' ; the brace
   (index 9) is literal body, but the scanner carries the f flag over to the second literal *)
Definition w_empty_triple : list ch := [102; 39; 39; 39; 39; 39; 39; 39; 32; 123; 125; 39]%N.

Lemma empty_triple_flag_refuted : forall fixp, kept_at fixp false w_empty_triple 9 123%N.
Proof. intros []; eexists _, _, _; repeat split; vm_compute; reflexivity. Qed.

Lemma empty_triple_flag_repaired : forall fixp, removed_at fixp true w_empty_triple 9 123%N.
Proof. intros []; eexists _, _, _; repeat split; vm_compute; reflexivity. Qed.
