(* C08 -- proofs about M_Complex.v *)
From Coq Require Import ZArith Bool List SpecFloat Lia.
From CyVerif Require Import Model.M_FloatOps Model.M_Complex Lib.FloatMulOne.
Import ListNotations.
Open Scope Z_scope.

(* ---------- same operation tree: + - * unary - conjugate == ---------- *)
Lemma sum_same a b : c_sum a b = py_c_sum a b.       Proof. reflexivity. Qed.
Lemma diff_same a b : c_diff a b = py_c_diff a b.    Proof. reflexivity. Qed.
Lemma prod_same a b : c_prod a b = py_c_prod a b.    Proof. reflexivity. Qed.
Lemma neg_same a : c_neg a = py_c_neg a.             Proof. reflexivity. Qed.
Lemma conj_same a : c_conj a = py_conj a.            Proof. reflexivity. Qed.
Lemma eq_same a b : c_eq a b = py_eq a b.            Proof. reflexivity. Qed.

(* ---------- zero division ---------- *)
Definition absf (x : F) : F := if fltb x fzero then fopp x else x.   (* x < 0 ? -x : x *)

Lemma absf_zero_test br bi :
  feqb (absf br) fzero && fgeb (absf br) (absf bi) = feqb br fzero && feqb bi fzero.
Proof.
  destruct br as [[|]|[|]| |[|] mr er]; try reflexivity;
  destruct bi as [[|]|[|]| |[|] mi ei]; reflexivity.
Qed.

Lemma py_quot_edom a b : py_c_quot a b = None <-> c_is_zero b = true.
Proof.
  destruct b as [br bi]. unfold py_c_quot, c_is_zero. cbn [re im].
  fold (absf br). fold (absf bi). rewrite <- absf_zero_test.
  destruct (fgeb (absf br) (absf bi)) eqn:E1.
  - destruct (feqb (absf br) fzero); cbn [andb]; split; intros H; try reflexivity; discriminate H.
  - rewrite andb_false_r. destruct (fgeb (absf bi) (absf br)); split; discriminate.
Qed.

Definition res_match (d : divres) (p : pyres) : Prop :=
  match d, p with
  | DivZeroDiv, PyZeroDiv => True
  | DivVal z, PyVal w => z = w
  | _, _ => False
  end.

Lemma zero_division_exact fixed a b :
  div_node fixed false a b = DivZeroDiv <-> py_complex_div a b = PyZeroDiv.
Proof.
  unfold div_node, py_complex_div. cbn [negb andb].
  pose proof (py_quot_edom a b) as H.
  destruct (c_is_zero b) eqn:Ez, (py_c_quot a b) eqn:Ep.
  - destruct H as [_ H]. discriminate (H eq_refl).
  - split; reflexivity.
  - split; discriminate.
  - destruct H as [H _]. discriminate (H eq_refl).
Qed.

(* ---------- the repaired quotient is _Py_c_quot ---------- *)
Lemma quot_new_same a b z : py_c_quot a b = Some z -> c_quot_new a b = z.
Proof.
  unfold py_c_quot, c_quot_new.
  destruct (fgeb _ _).
  - destruct (feqb _ fzero); [discriminate|]. intros [= <-]. reflexivity.
  - destruct (fgeb _ _); intros [= <-]; reflexivity.
Qed.

Lemma div_node_fixed_same a b : res_match (div_node true false a b) (py_complex_div a b).
Proof.
  unfold div_node, py_complex_div. cbn [negb andb c_quot].
  pose proof (py_quot_edom a b) as H.
  destruct (c_is_zero b) eqn:Ez, (py_c_quot a b) eqn:Ep; cbn.
  - destruct H as [_ H]. discriminate (H eq_refl).
  - exact I.
  - apply quot_new_same. exact Ep.
  - destruct H as [H _]. discriminate (H eq_refl).
Qed.

(* ---------- the current quotient ---------- *)
Definition fmtwohalf : F := S754_finite true 5629499534213120 (-51).   (* -2.5 *)

(* 1j / (1-2.5j): last bit (x*s vs x/denom);  0j / (-5e-324j): 1/denom overflows;
   (0-0j) / (1-0j): the b.imag == 0 shortcut keeps -0.0 *)
Lemma quot_old_refuted :
  (exists a b, ~ res_match (div_node false false a b) (py_complex_div a b) /\
               is_fnz (re b) = true /\ is_fnz (im b) = true /\ is_fin (re a) = true /\ is_fin (im a) = true) /\
  (exists a b, div_node false false a b = DivVal (Cx S754_nan S754_nan) /\
               py_complex_div a b = PyVal (Cx (S754_zero true) (S754_zero false))) /\
  (exists a b, im b = S754_zero true /\ ~ res_match (div_node false false a b) (py_complex_div a b)).
Proof.
  split; [|split].
  - exists (Cx fzero fone), (Cx fone fmtwohalf). split; [|repeat split; reflexivity].
    vm_compute. intros H. discriminate H.
  - exists (Cx fzero fzero), (Cx fzero (fminsub true)). split; vm_compute; reflexivity.
  - exists (Cx fzero fnzero), (Cx fone fnzero). split; [reflexivity|].
    vm_compute. intros H. discriminate H.
Qed.

(* what the shortcut does preserve: a real divisor (b.imag = +-0, b.real finite non-zero) and a
   dividend with finite non-zero components *)
Lemma quot_old_real_divisor a b :
  feqb (im b) fzero = true -> is_fnz (re b) = true -> is_fnz (re a) = true -> is_fnz (im a) = true ->
  py_c_quot a b = Some (c_quot_old a b).
Proof.
  destruct a as [ar ai], b as [br bi]. cbn [re im]. intros Hz Hb Har Hai.
  unfold c_quot_old, py_c_quot. cbn [re im]. rewrite Hz.
  destruct br as [ | | |sb mb eb]; try discriminate Hb.
  destruct ar as [ | | |sa ma ea]; try discriminate Har.
  destruct ai as [ | | |si mi ei]; try discriminate Hai.
  destruct bi as [sz|[|]| |[|] ? ?]; try discriminate Hz.
  destruct sb, sz, sa, si; reflexivity.
Qed.

Lemma div_node_old_real_divisor_partial a b :
  feqb (im b) fzero = true -> is_fnz (re b) = true -> is_fnz (re a) = true -> is_fnz (im a) = true ->
  res_match (div_node false false a b) (py_complex_div a b).
Proof.
  intros Hz Hb Har Hai. unfold div_node, py_complex_div. cbn [negb andb c_quot].
  rewrite (quot_old_real_divisor a b Hz Hb Har Hai).
  unfold c_is_zero. destruct (re b) as [ | | |[|] ? ?]; try discriminate Hb; cbn; reflexivity.
Qed.

(* same branch of Smith's method whenever the shortcut is not taken *)
Lemma quot_same_branch b :
  fgeb (fabs (re b)) (fabs (im b)) = fgeb (absf (re b)) (absf (im b)).
Proof.
  destruct b as [br bi]. cbn [re im].
  destruct br as [[|]|[|]| |[|] mr er], bi as [[|]|[|]| |[|] mi ei]; reflexivity.
Qed.

(* ---------- ** with small integral exponents ---------- *)
Definition ftwo : F := S754_finite false 4503599627370496 (-51).
Definition ffour : F := S754_finite false 4503599627370496 (-50).
Definition py_ret (p : cplx) : pyres := if has_inf p then PyOverflow else PyVal p.

(* exponent 0 (any signs of the zeros): both give 1+0j for every base *)
Lemma pow0_same a s1 s2 :
  c_pow a (Cx (S754_zero s1) (S754_zero s2)) = PowVal c_1 /\
  py_complex_pow a (Cx (S754_zero s1) (S754_zero s2)) = PyVal c_1.
Proof. destruct s1, s2; split; reflexivity. Qed.

(* the exact relation for exponents 1..4: Cython returns the product chain, CPython's c_powu starts
   from r = 1+0j and associates a**3 as (1*a)*(a*a) *)
Lemma pow1_relation a s :
  c_pow a (Cx fone (S754_zero s)) = PowVal a /\
  py_complex_pow a (Cx fone (S754_zero s)) = py_ret (py_c_prod c_1 a).
Proof. destruct s; split; reflexivity. Qed.

Lemma pow2_relation a s :
  c_pow a (Cx ftwo (S754_zero s)) = PowVal (c_prod a a) /\
  py_complex_pow a (Cx ftwo (S754_zero s)) = py_ret (py_c_prod c_1 (c_prod a a)).
Proof. destruct s; split; reflexivity. Qed.

Lemma pow3_relation a s :
  c_pow a (Cx fthree (S754_zero s)) = PowVal (c_prod (c_prod a a) a) /\
  py_complex_pow a (Cx fthree (S754_zero s)) = py_ret (py_c_prod (py_c_prod c_1 a) (c_prod a a)).
Proof. destruct s; split; reflexivity. Qed.

Lemma pow4_relation a s :
  c_pow a (Cx ffour (S754_zero s)) = PowVal (c_prod (c_prod a a) (c_prod a a)) /\
  py_complex_pow a (Cx ffour (S754_zero s)) = py_ret (py_c_prod c_1 (c_prod (c_prod a a) (c_prod a a))).
Proof. destruct s; split; reflexivity. Qed.

(* components that are valid doubles, finite and non-zero *)
Definition nice (z : cplx) : Prop :=
  is_fnz (re z) = true /\ is_fnz (im z) = true /\ fvalid (re z) = true /\ fvalid (im z) = true.

Lemma unit_prod_nice z : nice z -> py_c_prod c_1 z = z.
Proof.
  destruct z as [x y]. unfold nice. cbn [re im]. intros (Hx & Hy & Vx & Vy).
  unfold py_c_prod, c_1. cbn [re im]. rewrite (fmul_one_l x Vx), (fmul_one_l y Vy).
  destruct x as [ | | |sx mx ex]; try discriminate Hx.
  destruct y as [ | | |sy my ey]; try discriminate Hy.
  destruct sx, sy; reflexivity.
Qed.

Lemma nice_no_inf z : nice z -> has_inf z = false.
Proof.
  destruct z as [x y]. intros (Hx & Hy & _). cbn [re im] in *.
  destruct x; try discriminate Hx. destruct y; try discriminate Hy. reflexivity.
Qed.

Definition pow_match (c : powres) (p : pyres) : Prop :=
  match c, p with PowVal z, PyVal w => z = w | _, _ => False end.

Lemma pow1_same_partial a s : nice a ->
  pow_match (c_pow a (Cx fone (S754_zero s))) (py_complex_pow a (Cx fone (S754_zero s))).
Proof.
  intros H. destruct (pow1_relation a s) as [-> ->]. unfold py_ret.
  rewrite (unit_prod_nice a H), (nice_no_inf a H). reflexivity.
Qed.

Lemma pow2_same_partial a s : nice (c_prod a a) ->
  pow_match (c_pow a (Cx ftwo (S754_zero s))) (py_complex_pow a (Cx ftwo (S754_zero s))).
Proof.
  intros H. destruct (pow2_relation a s) as [-> ->]. unfold py_ret.
  rewrite (unit_prod_nice _ H), (nice_no_inf _ H). reflexivity.
Qed.

Lemma pow4_same_partial a s : nice (c_prod (c_prod a a) (c_prod a a)) ->
  pow_match (c_pow a (Cx ffour (S754_zero s))) (py_complex_pow a (Cx ffour (S754_zero s))).
Proof.
  intros H. destruct (pow4_relation a s) as [-> ->]. unfold py_ret.
  rewrite (unit_prod_nice _ H), (nice_no_inf _ H). reflexivity.
Qed.

(* (-0.0-1j) ** 1: Cython (-0-1j), CPython (0-1j);  (1e308j) ** 2: Cython (-inf+0j), CPython
   OverflowError;  0j ** -1: Cython (nan+nanj), CPython ZeroDivisionError *)
Definition fmone_ : F := S754_finite true 4503599627370496 (-52).
Lemma pow_small_refuted :
  (exists a, c_pow a (Cx fone fzero) = PowVal a /\
             py_complex_pow a (Cx fone fzero) = PyVal (Cx fzero (im a)) /\ re a = S754_zero true) /\
  (exists a, c_pow a (Cx ftwo fzero) = PowVal (Cx (S754_infinity true) fzero) /\
             py_complex_pow a (Cx ftwo fzero) = PyOverflow) /\
  (exists a, c_pow a (Cx fmone_ fzero) = PowVal (Cx S754_nan S754_nan) /\
             py_complex_pow a (Cx fmone_ fzero) = PyZeroDiv).
Proof.
  split; [|split].
  - exists (Cx fnzero fmone_). vm_compute. repeat split.
  - exists (Cx fzero f1e308). vm_compute. repeat split.
  - exists (Cx fzero fzero). vm_compute. repeat split.
Qed.

(* ---------- conversions ---------- *)
Lemma conv_struct_identity fixed z : to_py (from_py false fixed z) = z.
Proof. destruct z. reflexivity. Qed.

Lemma conv_native_fixed_identity z : to_py (from_py true true z) = z.
Proof. destruct z. reflexivity. Qed.

(* complex(-0.0, 1.0) -> (0+1j);  complex(0.0, inf) -> (nan+infj) *)
Lemma from_parts_native_refuted :
  from_py true false (Cx fnzero fone) = Cx fzero fone /\
  from_py true false (Cx fzero (finf_ false)) = Cx S754_nan (finf_ false).
Proof. split; reflexivity. Qed.

Lemma from_parts_native_partial z :
  is_fin (im z) = true -> re z <> S754_zero true -> from_py true false z = z.
Proof.
  destruct z as [x y]. cbn [re im]. intros Hy Hx.
  unfold from_py, from_parts, from_parts_native_old. cbn [re im andb negb].
  destruct y as [sy| | |sy my ey]; try discriminate Hy;
  destruct x as [[|]|sx| |sx mx ex]; try (exfalso; apply Hx; reflexivity); destruct sy; reflexivity.
Qed.

(* ---------- abs ---------- *)
Section Abs.
  Variable hypot : F -> F -> F.
  (* C99 F.9.4.3 / 7.12.7.3: hypot(+-inf, y) = hypot(x, +-inf) = +inf even for NaN; NaN otherwise
     propagates *)
  Hypothesis hypot_inf_l : forall s y, hypot (S754_infinity s) y = S754_infinity false.
  Hypothesis hypot_inf_r : forall s x, hypot x (S754_infinity s) = S754_infinity false.
  Hypothesis hypot_nan_l : forall y, is_inf y = false -> hypot S754_nan y = S754_nan.
  Hypothesis hypot_nan_r : forall x, is_inf x = false -> hypot x S754_nan = S754_nan.

  (* with hypot (HAVE_HYPOT) the helper returns what CPython returns, except that CPython raises
     OverflowError when the modulus of a finite value overflows *)
  Lemma abs_hypot_same z :
    py_abs hypot z = AbsVal (c_abs hypot true z) \/
    (py_abs hypot z = AbsOverflow /\ is_fin (re z) = true /\ is_fin (im z) = true /\
     is_fin (c_abs hypot true z) = false).
  Proof.
    destruct z as [x y]. unfold py_abs, c_abs, c_abs_hypot. cbn [re im].
    destruct x as [sx|sx| |sx mx ex]; destruct y as [sy|sy| |sy my ey]; cbn [is_fin is_inf negb orb fabs SFabs];
      rewrite ?hypot_inf_l, ?hypot_inf_r, ?hypot_nan_l, ?hypot_nan_r by reflexivity;
      try (left; reflexivity);
      match goal with |- context [is_fin (hypot ?u ?v)] =>
        destruct (is_fin (hypot u v)) eqn:E; [left; reflexivity | right; repeat split; reflexivity] end.
  Qed.

  (* the variant compiled today (HAVE_HYPOT undefined): abs(1e308j) = inf *)
  Lemma abs_naive_refuted :
    hypot fzero f1e308 = f1e308 ->
    py_abs hypot (Cx fzero f1e308) = AbsVal f1e308 /\
    c_abs hypot false (Cx fzero f1e308) = S754_infinity false.
  Proof.
    intros H. split.
    - unfold py_abs. cbn [re im is_fin negb orb]. rewrite H. reflexivity.
    - vm_compute. reflexivity.
  Qed.
End Abs.

(* ---------- commutativity of the IEEE operations (spec_float has a single NaN) ---------- *)
Lemma fmul_comm x y : fmul x y = fmul y x.
Proof.
  unfold fmul. destruct x as [sx|sx| |sx mx ex], y as [sy|sy| |sy my ey]; cbn [SFmul];
    rewrite ?(xorb_comm sy sx); try reflexivity.
  rewrite (Pos.mul_comm my mx), (Z.add_comm ey ex). reflexivity.
Qed.

Lemma fadd_comm x y : fadd x y = fadd y x.
Proof.
  unfold fadd. destruct x as [sx|sx| |sx mx ex], y as [sy|sy| |sy my ey]; cbn [SFadd]; try reflexivity.
  - destruct sx, sy; reflexivity.
  - destruct sx, sy; reflexivity.
  - rewrite (Z.min_comm ey ex), Z.add_comm. reflexivity.
Qed.

Lemma c_prod_comm x y : c_prod x y = c_prod y x.
Proof.
  unfold c_prod. rewrite (fmul_comm (re y) (re x)), (fmul_comm (im y) (im x)).
  rewrite (fadd_comm (fmul (re y) (im x))), (fmul_comm (im x) (re y)), (fmul_comm (re x) (im y)).
  reflexivity.
Qed.

Lemma pow3_same_partial a s : nice a -> has_inf (c_prod (c_prod a a) a) = false ->
  pow_match (c_pow a (Cx fthree (S754_zero s))) (py_complex_pow a (Cx fthree (S754_zero s))).
Proof.
  intros H Hi. destruct (pow3_relation a s) as [-> ->]. unfold py_ret.
  rewrite (unit_prod_nice a H). change py_c_prod with c_prod.
  rewrite (c_prod_comm a (c_prod a a)), Hi. reflexivity.
Qed.
