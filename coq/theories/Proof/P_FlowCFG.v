(* C21 - the CFG built by ControlFlowAnalysis (Model/M_FlowCFG.v) covers every execution path:
   structural facts about the builder (this file), simulation and the link to check_definitions
   (P_FlowCFG_Sim.v, P_FlowCFG_Bridge.v). *)
From Coq Require Import NArith List Bool Arith Lia.
From CyVerif Require Import Model.M_Flow Model.M_FlowCFG.
Import ListNotations.

(* ------------------------------------------------------------------ len / stat_at *)
Lemma len_cons st b p :
  length (filter (fun q => fst q =? b) (p :: sts st)) =
  (if fst p =? b then 1 else 0) + len st b.
Proof. unfold len. simpl. destruct (fst p =? b); reflexivity. Qed.

Definition inv (st : bst) : Prop :=
  (forall p, In p (sts st) -> fst p < nb st) /\ (forall b, cur st = Some b -> b < nb st).

Lemma len_fresh st b : inv st -> nb st <= b -> len st b = 0.
Proof.
  intros [H _] Hb. unfold len.
  assert (E : filter (fun p => fst p =? b) (sts st) = []); [|now rewrite E].
  induction (sts st) as [|p l IH]; simpl; auto.
  assert (fst p < nb st) by (apply H; simpl; auto).
  destruct (Nat.eqb_spec (fst p) b); [lia|]. apply IH. intros q Hq. apply H. simpl; auto.
Qed.

(* [ext st g]: g was obtained from st by creating statements and edges *)
Definition ext (st g : bst) : Prop :=
  (exists new, sts g = new ++ sts st) /\ incl (eds st) (eds g).

Lemma ext_refl st : ext st st.
Proof. split; [exists []; reflexivity|apply incl_refl]. Qed.
Lemma ext_trans a b c : ext a b -> ext b c -> ext a c.
Proof.
  intros [[n1 H1] I1] [[n2 H2] I2]. split.
  - exists (n2 ++ n1). rewrite H2, H1. now rewrite app_assoc.
  - eapply incl_tran; eauto.
Qed.

Lemma block_stats_ext st g b : ext st g ->
  exists more, block_stats g b = block_stats st b ++ more.
Proof.
  intros [[new H] _]. unfold block_stats. rewrite H, filter_app, map_app, rev_app_distr.
  eexists; reflexivity.
Qed.

Lemma stat_at_ext st g b k s : ext st g -> stat_at st b k = Some s -> stat_at g b k = Some s.
Proof.
  intros He Hs. destruct (block_stats_ext st g b He) as [more Hm].
  unfold stat_at in *. rewrite Hm. rewrite nth_error_app1; auto.
  apply nth_error_Some. congruence.
Qed.

Lemma len_block_stats st b : length (block_stats st b) = len st b.
Proof. unfold block_stats, len. now rewrite rev_length, map_length. Qed.

Lemma stat_at_append st b s :
  cur st = Some b -> stat_at (append s st) b (len st b) = Some s.
Proof.
  intros Hc. unfold stat_at, block_stats, append. rewrite Hc. simpl.
  rewrite Nat.eqb_refl. simpl. rewrite nth_error_app2; rewrite rev_length, map_length; fold (len st b).
  - now rewrite Nat.sub_diag.
  - unfold len. lia.
Qed.

Lemma len_append_same st b s : cur st = Some b -> len (append s st) b = S (len st b).
Proof. intros Hc. unfold append. rewrite Hc. unfold len. simpl. now rewrite Nat.eqb_refl. Qed.

Lemma len_append_other st b' s : cur st <> Some b' -> len (append s st) b' = len st b'.
Proof.
  intros Hc. unfold append. destruct (cur st) as [c|] eqn:E; auto.
  unfold len. simpl. destruct (Nat.eqb_spec c b'); [subst; congruence|reflexivity].
Qed.

(* ------------------------------------------------------------------ the step relation *)
(* [R n st st']: st' extends st, keeps the invariant, and leaves alone every block older than n
   that is not the current one *)
Definition R (n : nat) (st st' : bst) : Prop :=
  inv st' /\ ext st st' /\ nb st <= nb st' /\ n <= nb st /\
  (forall b, b < n -> cur st <> Some b -> len st' b = len st b /\ cur st' <> Some b).

Lemma R_refl n st : inv st -> n <= nb st -> R n st st.
Proof. intros Hi Hn. split; auto. split; [apply ext_refl|]. split; auto. Qed.

Lemma R_trans n a b c : R n a b -> R n b c -> R n a c.
Proof.
  intros (I1 & E1 & N1 & M1 & F1) (I2 & E2 & N2 & M2 & F2).
  split; auto. split; [eapply ext_trans; eauto|]. split; [lia|]. split; auto.
  intros x Hx Hc. destruct (F1 x Hx Hc) as [L1 C1]. destruct (F2 x Hx C1) as [L2 C2].
  split; congruence.
Qed.

Lemma R_weaken n m a b : m <= n -> R n a b -> R m a b.
Proof.
  intros Hm (I1 & E1 & N1 & M1 & F1).
  split; auto. split; auto. split; auto. split; [lia|]. intros x Hx. apply F1. lia.
Qed.

(* primitive steps: each has the form  R n st X -> R n st (prim X) *)
Ltac Rstep := intros (IX & EX & NX & MX & FX).

Lemma R_set_cur_none n st X : R n st X -> R n st (set_cur None X).
Proof.
  Rstep. split; [|split; [|split; [|split]]]; auto.
  - destruct IX as [A B]. split; auto. intros b Hb. discriminate.
  - intros b Hb Hc. destruct (FX b Hb Hc). split; auto. simpl. discriminate.
Qed.

Lemma R_set_cur_some n st X c : n <= c -> c < nb X -> R n st X -> R n st (set_cur (Some c) X).
Proof.
  intros Hc1 Hc2. Rstep. split; [|split; [|split; [|split]]]; auto.
  - destruct IX as [A B]. split; auto. intros b Hb. simpl in Hb. inversion Hb; subst. exact Hc2.
  - intros b Hb Hc. destruct (FX b Hb Hc). split; auto. simpl. intros E. inversion E. lia.
Qed.

Lemma R_newblock n st X : R n st X -> R n st (newblock X).
Proof.
  Rstep. split; [|split; [|split; [|split]]]; auto.
  - destruct IX as [A B]. split; simpl.
    + intros p Hp. specialize (A p Hp). lia.
    + intros b Hb. specialize (B b Hb). lia.
  - simpl. lia.
Qed.

Lemma ext_add_edge_k u k v X : ext X (add_edge_k u k v X).
Proof. split; [exists []; reflexivity|]. simpl. apply incl_tl, incl_refl. Qed.

Lemma R_add_edge_k n st X u k v : R n st X -> R n st (add_edge_k u k v X).
Proof.
  Rstep. split; [|split; [|split; [|split]]]; auto.
  eapply ext_trans; [exact EX|apply ext_add_edge_k].
Qed.

Lemma R_add_edge n st X u v : R n st X -> R n st (add_edge u v X).
Proof. apply R_add_edge_k. Qed.
Lemma R_add_edge_o n st X u v : R n st X -> R n st (add_edge_o u v X).
Proof. destruct u; simpl; auto. apply R_add_edge. Qed.
Lemma R_link_cur n st X v : R n st X -> R n st (link_cur v X).
Proof. apply R_add_edge_o. Qed.

Lemma nb_add_edge_o u v X : nb (add_edge_o u v X) = nb X.
Proof. destruct u; reflexivity. Qed.

Lemma nb_nextblock_from p X : nb (nextblock_from p X) = S (nb X).
Proof. unfold nextblock_from. destruct p; simpl; auto. unfold link_cur. now rewrite nb_add_edge_o. Qed.
Lemma nb_nextblock X : nb (nextblock X) = S (nb X).
Proof. apply nb_nextblock_from. Qed.

Lemma R_nextblock_from n st X p : R n st X -> R n st (nextblock_from p X).
Proof.
  intros H. pose proof H as (_ & _ & NX & MX & _). unfold nextblock_from.
  apply R_set_cur_some.
  - lia.
  - destruct p; [simpl; lia|]. unfold link_cur. rewrite nb_add_edge_o. simpl. lia.
  - destruct p; [apply R_add_edge|apply R_link_cur]; now apply R_newblock.
Qed.
Lemma R_nextblock n st X : R n st X -> R n st (nextblock X).
Proof. apply R_nextblock_from. Qed.

Lemma R_append n st X s : R n st X -> R n st (append s X).
Proof.
  intros H. unfold append. destruct (cur X) as [c|] eqn:Ec; [|exact H]. revert H.
  Rstep. split; [|split; [|split; [|split]]]; auto.
  - destruct IX as [A B]. split; simpl.
    + intros p [<-|Hp]; [simpl; apply B; exact Ec|auto].
    + intros b Hb. apply B. congruence.
  - eapply ext_trans; [exact EX|]. split; [exists [(c, s)]; reflexivity|apply incl_refl].
  - intros b Hb Hc. destruct (FX b Hb Hc) as [L C]. split.
    + rewrite <- L. unfold len. simpl. destruct (Nat.eqb_spec c b); [subst; congruence|reflexivity].
    + simpl. congruence.
Qed.

Lemma R_exc_edge n st X : R n st X -> R n st (exc_edge X).
Proof.
  intros H. unfold exc_edge. destruct (cur X); auto. destruct (excs X); auto.
  now apply R_nextblock, R_add_edge.
Qed.
Lemma R_v_ref n st X l e : R n st X -> R n st (v_ref l e X).
Proof. apply R_append. Qed.
Lemma R_v_asg n st X l e : R n st X -> R n st (v_asg l e X).
Proof. intros H. unfold v_asg. destruct (cur X); auto. now apply R_exc_edge, R_append, R_exc_edge. Qed.
Lemma R_v_del n st X l e i : R n st X -> R n st (v_del l e i X).
Proof.
  intros H. unfold v_del. destruct (cur X); auto. apply R_exc_edge, R_append.
  destruct i; auto. now apply R_append.
Qed.
Lemma R_refs n st c : forall X, R n st X -> R n st (refs c X).
Proof. induction c as [|r c IH]; intros X H; simpl; auto. apply IH, R_v_ref, H. Qed.
Lemma R_asgs n st c : forall X, R n st X -> R n st (asgs c X).
Proof. induction c as [|r c IH]; intros X H; simpl; auto. apply IH, R_v_asg, H. Qed.

Lemma R_ctx n st X X' :
  nb X' = nb X -> sts X' = sts X -> eds X' = eds X -> cur X' = cur X -> R n st X -> R n st X'.
Proof.
  intros H1 H2 H3 H4. Rstep. split; [|split; [|split; [|split]]]; auto.
  - destruct IX as [A B]. split; [rewrite H1, H2; auto|rewrite H1, H4; auto].
  - destruct EX as [[new E1] E2]. split; [exists new; congruence|rewrite H3; exact E2].
  - lia.
  - intros b Hb Hc. destruct (FX b Hb Hc). unfold len in *. rewrite H2, H4. auto.
Qed.
Lemma R_push_loop n st X d : R n st X -> R n st (push_loop d X).
Proof. apply R_ctx; reflexivity. Qed.
Lemma R_pop_loop n st X : R n st X -> R n st (pop_loop X).
Proof. apply R_ctx; reflexivity. Qed.
Lemma R_push_exc n st X d : R n st X -> R n st (push_exc d X).
Proof. apply R_ctx; reflexivity. Qed.
Lemma R_pop_exc n st X : R n st X -> R n st (pop_exc X).
Proof. apply R_ctx; reflexivity. Qed.
Lemma R_push_loop_exc n st X d : R n st X -> R n st (push_loop_exc d X).
Proof. unfold push_loop_exc. destruct (loops X); auto. Qed.
Lemma R_pop_loop_exc n st X : R n st X -> R n st (pop_loop_exc X).
Proof. unfold pop_loop_exc. destruct (loops X); auto. Qed.

Lemma R_cur_if_parents n st X v : n <= v -> v < nb X -> R n st X -> R n st (cur_if_parents v X).
Proof.
  intros H1 H2 H. unfold cur_if_parents. destruct (has_parents v X).
  - now apply R_set_cur_some. - now apply R_set_cur_none.
Qed.

Lemma R_chain_edges n st fs T : forall src k X, R n st X -> R n st (chain_edges src k fs T X).
Proof.
  induction fs as [|x r IH]; intros src k X H; simpl.
  - now apply R_add_edge_k.
  - destruct (x_fin x) as [[fe [[fxb kx]|]]|]; auto.
    + apply IH. now apply R_add_edge_k. + now apply R_add_edge_k.
Qed.
Lemma R_jump_loop_asis n st fs T src k X : R n st X -> R n st (jump_loop_asis src k fs T X).
Proof.
  intros H. unfold jump_loop_asis. destruct fs as [|x r]; [now apply R_add_edge_k|].
  destruct (x_fin x) as [[fe [[fxb kx]|]]|]; repeat apply R_add_edge_k; auto.
Qed.
Lemma R_jump_ret_asis n st fs src k X : R n st X -> R n st (jump_ret_asis src k fs X).
Proof.
  intros H. unfold jump_ret_asis. destruct (first_fin fs) as [[[fe [[fxb kx]|]] r]|];
    repeat apply R_add_edge_k; auto.
Qed.
Lemma R_v_break n st fx i X : R n st X -> R n st (v_break fx i X).
Proof.
  intros H. unfold v_break. destruct (loops X); auto. destruct (cur X); auto.
  apply R_set_cur_none. destruct fx; [now apply R_chain_edges|now apply R_jump_loop_asis].
Qed.
Lemma R_v_return n st fx X : R n st X -> R n st (v_return fx X).
Proof.
  intros H. unfold v_return. destruct (cur X); auto.
  apply R_set_cur_none. destruct fx; [now apply R_chain_edges|now apply R_jump_ret_asis].
Qed.
Lemma R_v_raise n st X : R n st X -> R n st (v_raise X).
Proof.
  intros H. unfold v_raise. destruct (cur X); auto.
  apply R_set_cur_none. destruct (excs X); auto. now apply R_add_edge.
Qed.

Lemma R_nb n st X : R n st X -> nb st <= nb X /\ n <= nb X.
Proof. intros (_ & _ & A & B & _). lia. Qed.

(* ------------------------------------------------------------------ the visitor is a step *)
Scheme stmt_mut := Induction for stmt Sort Prop
  with handlers_mut := Induction for handlers Sort Prop.
Combined Scheme stmt_handlers_mut from stmt_mut, handlers_mut.

Definition visit_R_stmt (fx : bool) (s : stmt) : Prop :=
  forall n st X, R n st X -> R n st (visit fx s X).
Definition visit_R_h (fx : bool) (hs : handlers) : Prop :=
  forall n st X N E, n <= E -> E < nb X -> R n st X ->
    R n st (snd (visit_h fx hs N E X)) /\ n <= fst (visit_h fx hs N E X) /\
    fst (visit_h fx hs N E X) < nb (snd (visit_h fx hs N E X)).

Ltac Rauto :=
  repeat lazymatch goal with
  | |- R _ ?a ?a => fail
  | H : R ?n ?a ?b |- R ?n ?a ?b => exact H
  | |- R _ _ (set_cur None _) => apply R_set_cur_none
  | |- R _ _ (newblock _) => apply R_newblock
  | |- R _ _ (add_edge_k _ _ _ _) => apply R_add_edge_k
  | |- R _ _ (add_edge _ _ _) => apply R_add_edge
  | |- R _ _ (add_edge_o _ _ _) => apply R_add_edge_o
  | |- R _ _ (link_cur _ _) => apply R_link_cur
  | |- R _ _ (nextblock_from _ _) => apply R_nextblock_from
  | |- R _ _ (nextblock _) => apply R_nextblock
  | |- R _ _ (append _ _) => apply R_append
  | |- R _ _ (exc_edge _) => apply R_exc_edge
  | |- R _ _ (v_ref _ _ _) => apply R_v_ref
  | |- R _ _ (v_asg _ _ _) => apply R_v_asg
  | |- R _ _ (v_del _ _ _ _) => apply R_v_del
  | |- R _ _ (refs _ _) => apply R_refs
  | |- R _ _ (asgs _ _) => apply R_asgs
  | |- R _ _ (push_loop _ _) => apply R_push_loop
  | |- R _ _ (pop_loop _) => apply R_pop_loop
  | |- R _ _ (push_exc _ _) => apply R_push_exc
  | |- R _ _ (pop_exc _) => apply R_pop_exc
  | |- R _ _ (push_loop_exc _ _) => apply R_push_loop_exc
  | |- R _ _ (pop_loop_exc _) => apply R_pop_loop_exc
  | |- R _ _ (v_break _ _ _) => apply R_v_break
  | |- R _ _ (v_return _ _) => apply R_v_return
  | |- R _ _ (v_raise _) => apply R_v_raise
  end.

Lemma R_inv n st X : R n st X -> inv X.
Proof. intros H; apply H. Qed.

Ltac Rbase H := apply R_refl; [exact (R_inv _ _ _ H)|destruct (R_nb _ _ _ H); first [lia|simpl in *; lia]].

Lemma visit_R fx : (forall s, visit_R_stmt fx s) /\ (forall hs, visit_R_h fx hs).
Proof.
  apply stmt_handlers_mut; unfold visit_R_stmt, visit_R_h.
  - (* Skip *) intros; simpl; auto.
  - intros; simpl; auto.
  - intros; simpl; Rauto.
  - intros; simpl; Rauto.
  - intros; simpl; Rauto.
  - (* Seq *) intros a IHa b IHb n st X H. simpl.
    destruct (cur (visit fx a X)); auto.
  - (* If *) intros c th IHth hasel el IHel n st X H. simpl.
    pose proof (R_nb _ _ _ H) as [HA HB].
    assert (H0 : R n st (newblock X)) by Rauto.
    match goal with |- R _ _ (cur_if_parents _ ?Y) => assert (HY : R n (newblock X) Y) end.
    { destruct hasel.
      - apply R_link_cur, IHel, R_nextblock_from, R_link_cur, IHth. Rauto. Rbase H0.
      - apply R_add_edge_o, R_link_cur, IHth. Rauto. Rbase H0. }
    apply R_cur_if_parents; [lia|apply R_nb in HY; simpl in HY; lia|].
    eapply R_trans; eauto.
  - (* Loop *) intros isfor c tg body IHb hasel el IHel n st X H. simpl.
    pose proof (R_nb _ _ _ H) as [HA HB].
    assert (H0 : R n st (newblock (nextblock X))) by Rauto.
    match goal with |- R _ _ (cur_if_parents _ ?Y) => assert (HY : R n (newblock (nextblock X)) Y) end.
    { assert (H7 : R n (newblock (nextblock X))
         (pop_loop (visit fx body
           (if isfor then nextblock (asgs tg (nextblock (refs c (push_loop
              {| l_next := S (nb X); l_loop := nb X; l_excs := [] |} (newblock (nextblock X))))))
            else nextblock (refs c (push_loop {| l_next := S (nb X); l_loop := nb X; l_excs := [] |}
              (newblock (nextblock X)))))))).
      { apply R_pop_loop, IHb. destruct isfor; Rauto; Rbase H0. }
      match goal with |- R _ _ (if hasel then link_cur _ (visit _ _ (nextblock_from _ ?Z)) else _) =>
        assert (H8 : R n (newblock (nextblock X)) Z) end.
      { match goal with |- R _ _ (match cur ?Y with _ => _ end) => destruct (cur Y) end; auto.
        destruct isfor; Rauto. }
      destruct hasel; Rauto. apply IHel. Rauto. }
    assert (Hn2 : nb (newblock (nextblock X)) = S (S (nb X))) by (change (nb (newblock (nextblock X))) with (S (nb (nextblock X))); now rewrite nb_nextblock).
    apply R_cur_if_parents; [lia|apply R_nb in HY; rewrite Hn2 in HY; lia|].
    eapply R_trans; eauto.
  - (* Try *) intros body IHb hasel el IHel hs IHh n st X H. simpl.
    pose proof (R_nb _ _ _ H) as [HA HB].
    set (X3 := newblock (newblock (newblock X))).
    assert (H0 : R n st X3) by (unfold X3; Rauto).
    match goal with |- R _ _ (let '(E', st9) := visit_h fx hs _ _ ?Z in _) =>
      assert (H8 : R n X3 Z) end.
    { match goal with |- R _ _ (match cur ?Y with _ => _ end) => assert (H7 : R n X3 Y) end.
      { apply R_pop_exc, IHb. Rauto. Rbase H0. }
      match goal with |- R _ _ (match cur ?Y with _ => _ end) => destruct (cur Y) end; auto. apply R_link_cur. destruct hasel; auto. apply IHel. Rauto. }
    match type of H8 with R _ _ ?Z =>
      destruct (IHh n X3 Z (nb X) (S (S (nb X))) ltac:(lia)
                  ltac:(pose proof (R_nb _ _ _ H8) as [Q _]; change (nb X3) with (S (S (S (nb X)))) in Q; lia) H8) as (H9 & HE1 & HE2);
      destruct (visit_h fx hs (nb X) (S (S (nb X))) Z) as [E' st9] end.
    simpl in *.
    assert (H10 : R n X3 (match excs st9 with x :: _ => add_edge E' (x_entry x) st9 | [] => st9 end)).
    { destruct (excs st9); Rauto. }
    apply R_cur_if_parents; [lia|pose proof (R_nb _ _ _ H10) as [Q _];
      change (nb X3) with (S (S (S (nb X)))) in Q; lia|].
    eapply R_trans; eauto.
  - (* TryFin *) intros body IHb fexc IHe fnorm IHn n st X H. simpl.
    pose proof (R_nb _ _ _ H) as [HA HB].
    set (X1 := newblock (nextblock X)).
    assert (H0 : R n st X1) by (unfold X1; Rauto).
    assert (Hnb1 : nb X1 = S (S (nb X))).
    { unfold X1. change (nb (newblock (nextblock X))) with (S (nb (nextblock X))). now rewrite nb_nextblock. }
    set (X2 := if fx then exc_edge (set_cur (Some (S (nb X))) X1) else set_cur (Some (S (nb X))) X1).
    assert (H2 : R n X1 X2).
    { unfold X2. destruct fx; [apply R_exc_edge|]; (apply R_set_cur_some; [lia|lia|Rbase H0]). }
    set (X3 := visit fx fexc X2).
    assert (H3 : R n X1 X3) by (unfold X3; apply IHe, H2).
    set (X4 := match cur X3, excs X3 with Some b, x :: _ => add_edge b (x_entry x) X3 | _, _ => X3 end).
    assert (H4 : R n X1 X4).
    { unfold X4. destruct (cur X3); auto. destruct (excs X3); Rauto. }
    set (X6 := visit fx fnorm (set_cur (Some (nb X4)) (newblock X4))).
    assert (H6 : R n X1 X6).
    { unfold X6. apply IHn. apply R_set_cur_some; [apply R_nb in H4; lia|simpl; lia|Rauto]. }
    set (fexit := match cur X6 with Some b => Some (b, len X6 b) | None => None end).
    set (d := {| x_entry := S (nb X); x_fin := Some (nb X4, fexit) |}).
    set (X9 := pop_loop_exc (pop_exc (visit fx body (nextblock (add_edge (nb X) (S (nb X))
                 (set_cur (Some (nb X)) (push_exc d (push_loop_exc d X6)))))))).
    assert (H9 : R n X1 X9).
    { unfold X9. apply R_pop_loop_exc, R_pop_exc, IHb, R_nextblock, R_add_edge.
      apply R_set_cur_some; [lia|apply R_nb in H6; simpl; unfold push_loop_exc;
        destruct (loops X6); simpl; lia|Rauto]. }
    fold X1 X2 X3 X4 X6 fexit d X9.
    eapply R_trans; [exact H0|].
    destruct (cur X9) as [b|]; auto.
    destruct fexit as [[fxb k]|].
    + apply R_set_cur_some; [apply R_nb in H9; simpl; lia|simpl; lia|Rauto].
    + Rauto.
  - intros; simpl; Rauto.
  - intros; simpl; Rauto.
  - intros; simpl; Rauto.
  - intros; simpl; Rauto.
  - (* HNil *) intros n st X N E H1 H2 H. simpl. auto.
  - (* HCons *) intros hastg tl te hb IHb rest IHr n st X N E H1 H2 H. simpl.
    set (X1 := set_cur (Some E) X).
    assert (G1 : R n st X1) by (unfold X1; apply R_set_cur_some; auto).
    match goal with |- R _ _ (snd (visit_h _ _ _ _ ?Z)) /\ _ => assert (G6 : R n st Z) end.
    { apply R_link_cur, IHb. destruct hastg; Rauto. }
    match type of G6 with R _ _ ?Z =>
      assert (G7 : nb X1 < nb Z) end.
    { match type of G6 with R _ _ (link_cur _ (visit _ _ ?W)) =>
        assert (G5 : R n (newblock X1) W) end.
      { destruct hastg; Rauto; Rbase (R_newblock _ _ _ G1). }
      pose proof (R_nb _ _ _ (R_link_cur _ _ _ N (IHb _ _ _ G5))) as [Q _].
      change (nb (newblock X1)) with (S (nb X1)) in Q. lia. }
    apply IHr; auto. apply R_nb in G1. lia.
Qed.

(* ------------------------------------------------------------------ the descriptor stacks are restored *)
Definition ceq (X Y : bst) : Prop := loops Y = loops X /\ excs Y = excs X.
Lemma ceq_refl X : ceq X X. Proof. split; reflexivity. Qed.
Lemma ceq_trans X Y Z : ceq X Y -> ceq Y Z -> ceq X Z.
Proof. intros [A B] [C D]. split; congruence. Qed.

Lemma ceq_add_edge_o u v X : ceq X (add_edge_o u v X).
Proof. destruct u; (split; reflexivity). Qed.
Lemma ceq_nextblock_from p X : ceq X (nextblock_from p X).
Proof. unfold nextblock_from, link_cur. destruct p; simpl; [(split; reflexivity)|].
  destruct (cur X); (split; reflexivity). Qed.
Lemma ceq_append s X : ceq X (append s X).
Proof. unfold append. destruct (cur X); (split; reflexivity). Qed.
Lemma ceq_exc_edge X : ceq X (exc_edge X).
Proof. unfold exc_edge. destruct (cur X); [|(split; reflexivity)]. destruct (excs X) eqn:E; [(split; reflexivity)|].
  eapply ceq_trans; [|apply ceq_nextblock_from]. split; simpl; auto. Qed.
Lemma ceq_v_asg l e X : ceq X (v_asg l e X).
Proof. unfold v_asg. destruct (cur X); [|(split; reflexivity)].
  eapply ceq_trans; [apply ceq_exc_edge|]. eapply ceq_trans; [apply ceq_append|apply ceq_exc_edge]. Qed.
Lemma ceq_v_del l e i X : ceq X (v_del l e i X).
Proof. unfold v_del. destruct (cur X); [|(split; reflexivity)].
  eapply ceq_trans; [|apply ceq_exc_edge]. eapply ceq_trans; [|apply ceq_append].
  destruct i; [(split; reflexivity)|apply ceq_append]. Qed.
Lemma ceq_refs c : forall X, ceq X (refs c X).
Proof. induction c as [|r c IH]; intros X; simpl; [(split; reflexivity)|].
  eapply ceq_trans; [apply ceq_append|apply IH]. Qed.
Lemma ceq_asgs c : forall X, ceq X (asgs c X).
Proof. induction c as [|r c IH]; intros X; simpl; [(split; reflexivity)|].
  eapply ceq_trans; [apply ceq_v_asg|apply IH]. Qed.
Lemma ceq_chain_edges fs T : forall src k X, ceq X (chain_edges src k fs T X).
Proof. induction fs as [|x r IH]; intros src k X; simpl; [(split; reflexivity)|].
  destruct (x_fin x) as [[fe [[fxb kx]|]]|]; auto; try (split; reflexivity).
  eapply ceq_trans; [|apply IH]. (split; reflexivity). Qed.
Lemma ceq_v_break fx i X : ceq X (v_break fx i X).
Proof. unfold v_break. destruct (loops X) eqn:E; [(split; reflexivity)|]. destruct (cur X); [|(split; reflexivity)].
  destruct fx.
  - destruct (ceq_chain_edges (l_excs l) (if i then l_next l else l_loop l) n (len X n) X) as [A B].
    split; simpl; congruence.
  - unfold jump_loop_asis. destruct (l_excs l) as [|x r]; [split; simpl; auto|].
    destruct (x_fin x) as [[fe [[fxb kx]|]]|]; split; simpl; auto. Qed.
Lemma ceq_v_return fx X : ceq X (v_return fx X).
Proof. unfold v_return. destruct (cur X); [|(split; reflexivity)]. destruct fx.
  - destruct (ceq_chain_edges (excs X) 1 n (len X n) X) as [A B]. split; simpl; congruence.
  - unfold jump_ret_asis. destruct (first_fin (excs X)) as [[[fe [[fxb kx]|]] r]|]; split; simpl; auto. Qed.
Lemma ceq_v_raise X : ceq X (v_raise X).
Proof. unfold v_raise. destruct (cur X); [|(split; reflexivity)]. destruct (excs X) eqn:E; split; simpl; auto. Qed.

Lemma pop_push_loop_exc d X6 Z :
  loops Z = loops (push_loop_exc d X6) -> loops (pop_loop_exc Z) = loops X6.
Proof.
  unfold push_loop_exc, pop_loop_exc. destruct (loops X6) as [|L r] eqn:E; intros H.
  - rewrite E in H. rewrite H. exact H.
  - simpl in H. rewrite H. simpl. destruct L; reflexivity.
Qed.
Lemma excs_pop_loop_exc Z : excs (pop_loop_exc Z) = excs Z.
Proof. unfold pop_loop_exc. destruct (loops Z); reflexivity. Qed.
Lemma excs_push_loop_exc d Z : excs (push_loop_exc d Z) = excs Z.
Proof. unfold push_loop_exc. destruct (loops Z); reflexivity. Qed.

Definition visit_ceq_stmt (fx : bool) (s : stmt) : Prop := forall X, ceq X (visit fx s X).
Definition visit_ceq_h (fx : bool) (hs : handlers) : Prop :=
  forall X N E, ceq X (snd (visit_h fx hs N E X)).

Ltac ceq_step := first
  [ (split; reflexivity) | apply ceq_add_edge_o | apply ceq_nextblock_from | apply ceq_append
  | apply ceq_exc_edge | apply ceq_v_asg | apply ceq_v_del | apply ceq_refs | apply ceq_asgs ].

Lemma ceq_of X Y : loops Y = loops X -> excs Y = excs X -> ceq X Y.
Proof. split; auto. Qed.

Lemma visit_ceq fx : (forall s, visit_ceq_stmt fx s) /\ (forall hs, visit_ceq_h fx hs).
Proof.
  apply stmt_handlers_mut; unfold visit_ceq_stmt, visit_ceq_h.
  - intros; (split; reflexivity).
  - intros; (split; reflexivity).
  - intros; apply ceq_append.
  - intros; apply ceq_v_asg.
  - intros; apply ceq_v_del.
  - intros a IHa b IHb X. simpl. destruct (cur (visit fx a X)); auto.
    eapply ceq_trans; [apply IHa|apply IHb].
  - (* If *) intros c th IHth hasel el IHel X. simpl.
    match goal with |- ceq _ (cur_if_parents _ ?Y) => assert (H : ceq X Y) end.
    { assert (H6 : ceq X (link_cur (nb X) (visit fx th (nextblock (refs c (nextblock (newblock X))))))).
      { eapply ceq_trans; [|apply ceq_add_edge_o]. eapply ceq_trans; [|apply IHth].
        eapply ceq_trans; [|apply ceq_nextblock_from]. eapply ceq_trans; [|apply ceq_refs].
        eapply ceq_trans; [|apply ceq_nextblock_from]. (split; reflexivity). }
      destruct hasel.
      - eapply ceq_trans; [exact H6|]. eapply ceq_trans; [|apply ceq_add_edge_o].
        eapply ceq_trans; [|apply IHel]. apply ceq_nextblock_from.
      - eapply ceq_trans; [exact H6|apply ceq_add_edge_o]. }
    destruct H as [A B]. split; simpl; auto.
  - (* Loop *) intros isfor c tg body IHb hasel el IHel X. simpl.
    match goal with |- ceq _ (cur_if_parents _ ?Y) => assert (H : ceq X Y) end.
    { set (X3 := push_loop {| l_next := S (nb X); l_loop := nb X; l_excs := [] |} (newblock (nextblock X))).
      assert (H3 : excs X3 = excs X /\ loops X3 = {| l_next := S (nb X); l_loop := nb X; l_excs := [] |} :: loops X).
      { destruct (ceq_nextblock_from None X) as [A B]. unfold X3. simpl. split; auto.
        f_equal. exact A. }
      match goal with |- ceq _ (if hasel then link_cur _ (visit _ _ (nextblock_from _ ?Z)) else _) =>
        assert (H8 : ceq X Z) end.
      { match goal with |- context [visit fx body ?W] => set (W0 := W) end.
        assert (H6 : ceq X3 W0).
        { unfold W0. destruct isfor.
          - eapply ceq_trans; [|apply ceq_nextblock_from]. eapply ceq_trans; [|apply ceq_asgs].
            eapply ceq_trans; [|apply ceq_nextblock_from]. apply ceq_refs.
          - eapply ceq_trans; [|apply ceq_nextblock_from]. apply ceq_refs. }
        assert (H7 : ceq X (pop_loop (visit fx body W0))).
        { destruct (ceq_trans _ _ _ H6 (IHb W0)) as [A B]. destruct H3 as [H3a H3b].
          split; simpl; [rewrite A, H3b; reflexivity|congruence]. }
        destruct H7 as [A B]. simpl in A, B.
        destruct (cur (visit fx body W0)); [destruct isfor|]; split; simpl; auto. }
      destruct hasel.
      - eapply ceq_trans; [exact H8|]. eapply ceq_trans; [|apply ceq_add_edge_o].
        eapply ceq_trans; [|apply IHel]. apply ceq_nextblock_from.
      - eapply ceq_trans; [exact H8|apply ceq_add_edge_o]. }
    destruct H as [A B]. split; simpl; auto.
  - (* Try *) intros body IHb hasel el IHel hs IHh X. simpl.
    match goal with |- ceq _ (let '(E', st9) := visit_h fx hs _ _ ?Z in _) =>
      assert (H8 : ceq X Z) end.
    { match goal with |- context [visit fx body ?W] => set (W0 := W) end.
      assert (H6 : loops W0 = loops X /\ excs W0 = {| x_entry := S (S (nb X)); x_fin := None |} :: excs X).
      { unfold W0.
        match goal with |- loops (nextblock ?W) = _ /\ _ => destruct (ceq_nextblock_from None W) as [A B] end.
        match goal with |- loops (nextblock (link_cur ?e (nextblock ?V))) = _ /\ _ =>
          destruct (ceq_nextblock_from None V) as [C D];
          destruct (ceq_add_edge_o (cur (nextblock V)) e (nextblock V)) as [C' D'] end.
        unfold nextblock, link_cur in *. rewrite A, B, C', D', C, D. simpl. auto. }
      assert (H7 : ceq X (pop_exc (visit fx body W0))).
      { destruct (IHb W0) as [A B]. destruct H6 as [H6a H6b].
        split; simpl; [congruence|rewrite B, H6b; reflexivity]. }
      destruct (cur (visit fx body W0)); auto.
      eapply ceq_trans; [exact H7|]. eapply ceq_trans; [|apply ceq_add_edge_o].
      destruct hasel; [|(split; reflexivity)]. eapply ceq_trans; [|apply IHel]. apply ceq_nextblock_from. }
    match type of H8 with ceq _ ?Z =>
      pose proof (IHh Z (nb X) (S (S (nb X)))) as H9;
      destruct (visit_h fx hs (nb X) (S (S (nb X))) Z) as [E' st9] end.
    simpl in H9. pose proof (ceq_trans _ _ _ H8 H9) as [A B].
    destruct (excs st9) eqn:Ex; split; simpl; congruence.
  - (* TryFin *) intros body IHb fexc IHe fnorm IHn X. simpl.
    set (X2 := if fx then exc_edge (set_cur (Some (S (nb X))) (newblock (nextblock X)))
               else set_cur (Some (S (nb X))) (newblock (nextblock X))).
    assert (H2 : ceq X X2).
    { assert (H1 : ceq X (set_cur (Some (S (nb X))) (newblock (nextblock X)))).
      { destruct (ceq_nextblock_from None X). split; simpl; auto. }
      unfold X2. destruct fx; auto. eapply ceq_trans; [exact H1|apply ceq_exc_edge]. }
    set (X3 := visit fx fexc X2).
    assert (H3 : ceq X X3) by (eapply ceq_trans; [exact H2|apply IHe]).
    set (X4 := match cur X3, excs X3 with Some b, x :: _ => add_edge b (x_entry x) X3 | _, _ => X3 end).
    assert (H4 : ceq X X4).
    { unfold X4. destruct (cur X3); auto. destruct (excs X3) eqn:E; auto. }
    set (X6 := visit fx fnorm (set_cur (Some (nb X4)) (newblock X4))).
    assert (H6 : ceq X X6).
    { eapply ceq_trans; [|apply IHn]. destruct H4. split; simpl; auto. }
    set (fexit := match cur X6 with Some b => Some (b, len X6 b) | None => None end).
    set (d := {| x_entry := S (nb X); x_fin := Some (nb X4, fexit) |}).
    set (Y7 := add_edge (nb X) (S (nb X)) (set_cur (Some (nb X)) (push_exc d (push_loop_exc d X6)))).
    set (X8 := nextblock Y7).
    set (X9 := pop_loop_exc (pop_exc (visit fx body X8))).
    assert (H9 : ceq X X9).
    { destruct (IHb X8) as [A B]. destruct (ceq_nextblock_from None Y7) as [C D].
      change (nextblock_from None Y7) with X8 in C, D. destruct H6 as [P Q].
      unfold X9. split.
      - rewrite (pop_push_loop_exc d X6); [exact P|]. simpl. rewrite A, C. reflexivity.
      - rewrite excs_pop_loop_exc. simpl. rewrite B, D. simpl. rewrite excs_push_loop_exc. exact Q. }
    fold X2 X3 X4 X6 fexit d Y7 X8 X9.
    destruct (cur X9); auto. destruct fexit as [[fxb k]|]; destruct H9; split; simpl; auto.
  - intros; apply ceq_v_break.
  - intros; apply ceq_v_break.
  - intros; apply ceq_v_return.
  - intros; apply ceq_v_raise.
  - intros; simpl; (split; reflexivity).
  - intros hastg tl te hb IHb rest IHr X N E. simpl.
    eapply ceq_trans; [|apply IHr].
    eapply ceq_trans; [|apply ceq_add_edge_o]. eapply ceq_trans; [|apply IHb].
    assert (H1 : ceq X (set_cur (Some E) X)) by (split; reflexivity).
    eapply ceq_trans; [exact H1|].
    eapply ceq_trans; [|destruct hastg; [apply ceq_v_asg|(split; reflexivity)]].
    eapply ceq_trans; [|apply ceq_nextblock_from]. split; reflexivity.
Qed.
