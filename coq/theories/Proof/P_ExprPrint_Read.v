(* C25: the repaired printer is read back by the grammar reader (all expressions). *)
From Coq Require Import List NArith Bool Arith Lia.
From CyVerif Require Import Gen.Gen_Prec Model.M_ExprPrint Proof.P_ExprPrint.
Import ListNotations.
Open Scope nat_scope.

(* "for every sufficiently large fuel" *)
Definition ev {A : Type} (F : nat -> res A) (r : res A) : Prop := exists f0, forall f, f0 <= f -> F f = r.

Lemma ev_const {A : Type} (r : res A) : ev (fun _ => r) r.
Proof. exists 0; auto. Qed.
Lemma ev_S {A : Type} (F G : nat -> res A) r : (forall f, F (S f) = G f) -> ev G r -> ev F r.
Proof. intros E [f0 H]. exists (S f0). intros f Hf. destruct f; [lia|]. rewrite E. apply H. lia. Qed.
Lemma ev_ext {A : Type} (F G : nat -> res A) r : (forall f, F f = G f) -> ev G r -> ev F r.
Proof. intros E [f0 H]. exists f0. intros f Hf. rewrite E. auto. Qed.
Lemma ev_bind {A B : Type} (F : nat -> res A) (K : nat -> A -> list tok -> res B) a rest r :
  ev F (Ok a rest) -> ev (fun f => K f a rest) r -> ev (fun f => bind (F f) (K f)) r.
Proof.
  intros [f0 H0] [f1 H1]. exists (max f0 f1). intros f Hf.
  rewrite H0 by lia. cbn [bind]. apply H1. lia.
Qed.

(* ------------------------------------------------------------------ what may follow an operand *)
Definition infix_level (x : tok) : option nat :=
  match x with
  | TOp o _ =>
      match o with
      | OPow => Some 12 | OInv => None
      | OLt | OLe | OGt | OGe | OEq | ONe => Some 4
      | OBitOr => Some 5 | OBitXor => Some 6 | OBitAnd => Some 7 | OLShift | ORShift => Some 8
      | OAdd | OSub => Some 9 | _ => Some 10
      end
  | TKw KOr _ => Some 1 | TKw KAnd _ => Some 2
  | TKw KNot _ | TKw KIn _ | TKw KIs _ => Some 4
  | TKw KIf _ => Some 0
  | TDot | TLpar | TLbrk => Some 13
  | _ => None
  end.
Definition stops (L : nat) (ts : list tok) : Prop :=
  match ts with
  | [] => True
  | x :: _ => match infix_level x with Some q => q < L | None => True end
  end.

Lemma stops_mono L L' ts : stops L ts -> L <= L' -> stops L' ts.
Proof. destruct ts as [|x ts]; cbn; auto. destruct (infix_level x); auto. lia. Qed.
Lemma stops_12_11 ts : stops 12 ts -> stops 11 ts.
Proof.
  destruct ts as [|x ts]; cbn; auto.
  destruct x; cbn; auto; try (destruct o; cbn; lia); try (destruct k; cbn; lia); lia.
Qed.
Lemma stops_4_3 ts : stops 4 ts -> stops 3 ts.
Proof.
  destruct ts as [|x ts]; cbn; auto.
  destruct x; cbn; auto; try (destruct o; cbn; lia); try (destruct k; cbn; lia); lia.
Qed.
Lemma stops_14 ts : stops 14 ts.
Proof.
  destruct ts as [|x ts]; cbn; auto.
  destruct x; cbn; auto; try (destruct o; cbn; lia); try (destruct k; cbn; lia); lia.
Qed.
Lemma closer_stops L ts : closer ts = true -> stops L ts.
Proof. destruct ts as [|x ts]; cbn; auto. destruct x; cbn; auto; discriminate. Qed.
Lemma closer_not_comma {A : Type} ts (X : layout -> list tok -> A) (Y : A) :
  closer ts = true -> match ts with TComma l :: r => X l r | _ => Y end = Y.
Proof. destruct ts as [|x ts]; auto. destruct x; auto; discriminate. Qed.
Lemma stops_cmpop_none ts : stops 4 ts -> cmpop_of ts = None.
Proof.
  destruct ts as [|x ts]; cbn; auto.
  destruct x; cbn; auto.
  - destruct o; cbn; auto; lia.
  - destruct k; cbn; auto; lia.
Qed.

(* ------------------------------------------------------------------ how a printed operand may start *)
Definition hd_ok (L : nat) (ts : list tok) : Prop :=
  match ts with
  | [] => False
  | TKw KLambda _ :: _ => L <= 0
  | TKw KNot _ :: _ => L <= 3
  | TKw _ _ :: _ => False
  | TOp o _ :: _ => match unop_of_tok o with Some _ => L <= 11 | None => False end
  | TRpar :: _ | TRbrk :: _ | TRbrace :: _ | TComma _ :: _ | TColon :: _ | TDot :: _ => False
  | _ => True
  end.
Lemma hd_mono L L' ts : hd_ok L ts -> L' <= L -> hd_ok L' ts.
Proof.
  destruct ts as [|x ts]; cbn; auto.
  destruct x; cbn; auto.
  - destruct (unop_of_tok o); auto. lia.
  - destruct k; auto; lia.
Qed.
Lemma hd_app L ts r : hd_ok L ts -> hd_ok L (ts ++ r).
Proof. destruct ts as [|x ts]; cbn; [tauto | auto]. Qed.
Lemma hd_not_closer L ts : hd_ok L ts -> closer ts = false.
Proof. destruct ts as [|x ts]; cbn; [tauto|]. destruct x; auto; tauto. Qed.
Lemma hd_not_knot ts : hd_ok 4 ts -> forall (A : Type) (X : layout -> list tok -> A) (Y : A),
  match ts with TKw KNot l :: r => X l r | _ => Y end = Y.
Proof.
  destruct ts as [|x ts]; cbn; [tauto|]. destruct x; auto. destruct k; auto. lia.
Qed.

(* ------------------------------------------------------------------ one-step equations of the reader *)
Lemma parse0_nolam f ts : hd_ok 1 ts ->
  parse (S f) 0 ts =
  bind (parse f 1 ts) (fun c r =>
    match r with
    | TKw KIf _ :: r1 =>
        bind (parse f 1 r1) (fun cnd r2 =>
          match r2 with
          | TKw KElse _ :: r3 => bind (parse f 0 r3) (fun fv r4 => Ok (ECond c cnd fv) r4)
          | _ => Err
          end)
    | _ => Ok c r
    end).
Proof.
  destruct ts as [|x ts]; cbn [hd_ok]; [tauto|].
  destruct x; try reflexivity. destruct k; try reflexivity. lia.
Qed.
Lemma parse3_nonot f ts : hd_ok 4 ts -> parse (S f) 3 ts = parse f 4 ts.
Proof.
  destruct ts as [|x ts]; cbn [hd_ok]; [tauto|].
  destruct x; try reflexivity. destruct k; try reflexivity. lia.
Qed.
Lemma parse11_noun f ts : hd_ok 12 ts -> parse (S f) 11 ts = parse f 12 ts.
Proof.
  destruct ts as [|x ts]; cbn [hd_ok]; [tauto|].
  destruct x; try reflexivity. destruct o; cbn [unop_of_tok]; try reflexivity; lia.
Qed.
Lemma parse_lassoc f L ts : 5 <= L <= 10 ->
  parse (S f) L ts = bind (parse f (S L) ts) (fun a r => loop f L a r).
Proof.
  intros H. destruct L as [|[|[|[|[|[|[|[|[|[|[|L]]]]]]]]]]]; try lia; reflexivity.
Qed.

Lemma loop_stop L acc rest : stops L rest -> forall f, loop (S f) L acc rest = Ok acc rest.
Proof.
  intros H f. destruct rest as [|x rest]; [reflexivity|].
  destruct x; try reflexivity.
  cbn [loop]. destruct (binop_of_tok o) as [[b lv]|] eqn:E; [|reflexivity].
  replace (lv =? L) with false; [reflexivity|].
  symmetry. apply Nat.eqb_neq. cbn in H. destruct o; cbn in E; inversion E; subst; cbn in H; lia.
Qed.
Lemma postfix_stop acc rest : stops 13 rest -> forall f, postfix (S f) acc rest = Ok acc rest.
Proof.
  intros H f. destruct rest as [|x rest]; [reflexivity|].
  destruct x; try reflexivity; cbn in H; lia.
Qed.
Lemma ev_loop_stop L acc rest : stops L rest -> ev (fun f => loop f L acc rest) (Ok acc rest).
Proof. intros H. eapply ev_S; [intro f; apply (loop_stop _ _ _ H) | apply ev_const]. Qed.
Lemma ev_postfix_stop acc rest : stops 13 rest -> ev (fun f => postfix f acc rest) (Ok acc rest).
Proof. intros H. eapply ev_S; [intro f; apply (postfix_stop _ _ H) | apply ev_const]. Qed.

Ltac stop_tac Hs :=
  cbn beta;
  match type of Hs with
  | stops _ ?rest =>
      destruct rest as [|[] ?]; simpl; try apply ev_const;
      try (match goal with k : kw |- _ => destruct k end; simpl; try apply ev_const);
      try (match goal with o : optok |- _ => destruct o end; simpl; try apply ev_const);
      cbn in Hs; try lia; try contradiction
  end.

(* from level L+1 down to level L when nothing at level L follows *)
Lemma step L ts e rest : L < 13 -> hd_ok (S L) ts -> stops L rest ->
  ev (fun f => parse f (S L) ts) (Ok e rest) -> ev (fun f => parse f L ts) (Ok e rest).
Proof.
  intros HL Hh Hs H.
  destruct L as [|[|[|[|[|[|[|[|[|[|[|[|[|L]]]]]]]]]]]]]; try lia.
  - eapply ev_S; [intro f; apply parse0_nolam; exact Hh|].
    eapply ev_bind; [exact H|]. stop_tac Hs.
  - eapply ev_S; [intro f; reflexivity|]. eapply ev_bind; [exact H|]. stop_tac Hs.
  - eapply ev_S; [intro f; reflexivity|]. eapply ev_bind; [exact H|]. stop_tac Hs.
  - eapply ev_S; [intro f; apply parse3_nonot; exact Hh|]. exact H.
  - eapply ev_S; [intro f; reflexivity|]. eapply ev_bind; [exact H|].
    cbn beta. rewrite (stops_cmpop_none _ Hs). apply ev_const.
  - eapply ev_S; [intro f; apply parse_lassoc; lia|]. eapply ev_bind; [exact H|]. apply ev_loop_stop; exact Hs.
  - eapply ev_S; [intro f; apply parse_lassoc; lia|]. eapply ev_bind; [exact H|]. apply ev_loop_stop; exact Hs.
  - eapply ev_S; [intro f; apply parse_lassoc; lia|]. eapply ev_bind; [exact H|]. apply ev_loop_stop; exact Hs.
  - eapply ev_S; [intro f; apply parse_lassoc; lia|]. eapply ev_bind; [exact H|]. apply ev_loop_stop; exact Hs.
  - eapply ev_S; [intro f; apply parse_lassoc; lia|]. eapply ev_bind; [exact H|]. apply ev_loop_stop; exact Hs.
  - eapply ev_S; [intro f; apply parse_lassoc; lia|]. eapply ev_bind; [exact H|]. apply ev_loop_stop; exact Hs.
  - eapply ev_S; [intro f; apply parse11_noun; exact Hh|]. exact H.
  - eapply ev_S; [intro f; reflexivity|]. eapply ev_bind; [exact H|]. stop_tac Hs.
Qed.

Lemma climb d : forall L ts e rest, L + d <= 13 -> hd_ok (L + d) ts -> stops L rest ->
  ev (fun f => parse f (L + d) ts) (Ok e rest) -> ev (fun f => parse f L ts) (Ok e rest).
Proof.
  induction d as [|d IH]; intros L ts e rest HL Hh Hs H.
  - rewrite Nat.add_0_r in H. exact H.
  - apply step; [lia | eapply hd_mono; [exact Hh | lia] | exact Hs |].
    apply (IH (S L)); [lia | replace (S L + d) with (L + S d) by lia; exact Hh
                       | eapply stops_mono; [exact Hs | lia]
                       | replace (S L + d) with (L + S d) by lia; exact H].
Qed.

(* ------------------------------------------------------------------ the printer, level view *)
Definition body (e : expr) : list tok := pr_new 0 e.
Definition eprec (e : expr) : nat :=
  match e with
  | EBin o _ _ => py_level_bin o
  | ECmp _ _ _ _ => 4
  | EBool LOr _ _ => 1 | EBool LAnd _ _ => 2
  | ENot _ => 3
  | EUn _ _ => 11
  | ENum _ true _ => 11
  | ECond _ _ _ | ELambda _ _ => 0
  | _ => 13
  end.
Lemma eprec_le e : eprec e <= 13.
Proof. destruct e; cbn; try lia. - destruct neg; lia. - destruct o; cbn; lia. - destruct o; lia. Qed.

Lemma ltb_13 L : L <= 13 -> (13 <? L) = false.
Proof. intros. apply Nat.ltb_ge. lia. Qed.

Lemma pr_new_wrap e L : L <= 13 -> pr_new L e = wrap (eprec e <? L) (body e).
Proof.
  intros HL. unfold body.
  destruct e; try destruct neg; cbn [pr_new eprec];
    rewrite ?prec_bin_py, ?prec_cmp_py, ?prec_un_py, ?prec_not_py, ?test_prec_py, ?atom_prec_py, ?prec_bool_py;
    rewrite ?(ltb_13 L HL); cbn [wrap]; try reflexivity.
Qed.

Definition is_loop (e : expr) : bool := ((5 <=? eprec e) && (eprec e <=? 10)) || (eprec e =? 13).
Definition cont (p f : nat) (e : expr) (rest : list tok) : res expr :=
  if p =? 13 then postfix f e rest else loop f p e rest.
Definition body_ok (e : expr) : Prop :=
  if is_loop e
  then forall rest r, stops (S (eprec e)) rest -> ev (fun f => cont (eprec e) f e rest) r ->
                      ev (fun f => parse f (eprec e) (body e ++ rest)) r
  else forall rest, stops (eprec e) rest -> ev (fun f => parse f (eprec e) (body e ++ rest)) (Ok e rest).
Definition core (e : expr) : Prop := body_ok e /\ forall rest, hd_ok (eprec e) (body e ++ rest).

Lemma top_of_core e rest : core e -> stops (eprec e) rest ->
  ev (fun f => parse f (eprec e) (body e ++ rest)) (Ok e rest).
Proof.
  intros [Hb _] Hs. unfold body_ok in Hb. destruct (is_loop e) eqn:E; [|auto].
  apply Hb; [eapply stops_mono; [exact Hs | lia]|].
  unfold cont. destruct (eprec e =? 13) eqn:E13.
  - apply Nat.eqb_eq in E13. rewrite E13 in Hs. apply ev_postfix_stop; exact Hs.
  - apply ev_loop_stop; exact Hs.
Qed.

Lemma A0_of_core e L rest : core e -> L <= eprec e -> stops L rest ->
  ev (fun f => parse f L (body e ++ rest)) (Ok e rest).
Proof.
  intros Hc HL Hs.
  pose proof (eprec_le e) as Hle.
  apply (climb (eprec e - L)).
  - lia.
  - replace (L + (eprec e - L)) with (eprec e) by lia. apply (proj2 Hc).
  - exact Hs.
  - replace (L + (eprec e - L)) with (eprec e) by lia.
    apply top_of_core; [exact Hc | eapply stops_mono; [exact Hs | lia]].
Qed.

Lemma paren13 e X r : core e -> ev (fun f => postfix f e X) r ->
  ev (fun f => parse f 13 (TLpar :: body e ++ TRpar :: X)) r.
Proof.
  intros Hc Hp.
  eapply ev_S; [intro f; reflexivity|].
  eapply ev_bind; [|exact Hp].
  eapply ev_S.
  { intro f. cbn [atom]. rewrite (hd_not_closer _ _ (proj2 Hc (TRpar :: X))). reflexivity. }
  eapply ev_bind; [apply A0_of_core; [exact Hc | lia | exact I]|].
  cbn beta iota. apply ev_const.
Qed.

Lemma wrap_true_app ts rest : wrap true ts ++ rest = TLpar :: ts ++ TRpar :: rest.
Proof. cbn [wrap]. rewrite <- app_comm_cons, <- app_assoc. reflexivity. Qed.

Lemma A_of_core e L rest : core e -> L <= 13 -> stops L rest ->
  ev (fun f => parse f L (pr_new L e ++ rest)) (Ok e rest).
Proof.
  intros Hc HL Hs. rewrite (pr_new_wrap e L HL).
  destruct (eprec e <? L) eqn:E.
  - rewrite wrap_true_app.
    apply (climb (13 - L)); [lia | replace (L + (13 - L)) with 13 by lia; exact I | exact Hs |].
    replace (L + (13 - L)) with 13 by lia.
    apply paren13; [exact Hc|]. apply ev_postfix_stop. eapply stops_mono; [exact Hs | lia].
  - apply Nat.ltb_ge in E. cbn [wrap]. apply A0_of_core; assumption.
Qed.

Lemma H_of_core e L rest : core e -> L <= 13 -> hd_ok L (pr_new L e ++ rest).
Proof.
  intros Hc HL. rewrite (pr_new_wrap e L HL).
  destruct (eprec e <? L) eqn:E.
  - exact I.
  - apply Nat.ltb_ge in E. cbn [wrap]. eapply hd_mono; [apply (proj2 Hc) | exact E].
Qed.

Lemma is_loop_mid e : 5 <= eprec e <= 10 -> is_loop e = true.
Proof.
  intros H. unfold is_loop. apply orb_true_iff. left. apply andb_true_iff.
  split; apply Nat.leb_le; lia.
Qed.
Lemma is_loop_13 e : eprec e = 13 -> is_loop e = true.
Proof. intros H. unfold is_loop. rewrite H. reflexivity. Qed.

Lemma B_of_core e L rest r : core e -> 5 <= L <= 10 -> stops (S L) rest ->
  ev (fun f => loop f L e rest) r -> ev (fun f => parse f L (pr_new L e ++ rest)) r.
Proof.
  intros Hc HL Hs Hl.
  destruct (Nat.eq_dec (eprec e) L) as [E|NE].
  - rewrite (pr_new_wrap e L) by lia. rewrite E, Nat.ltb_irrefl. cbn [wrap].
    pose proof (proj1 Hc) as Hb. unfold body_ok in Hb. rewrite is_loop_mid in Hb by lia.
    rewrite E in Hb. apply Hb; [exact Hs|].
    unfold cont. replace (L =? 13) with false by (symmetry; apply Nat.eqb_neq; lia). exact Hl.
  - assert (EQ : pr_new L e = pr_new (S L) e).
    { rewrite (pr_new_wrap e L), (pr_new_wrap e (S L)) by lia.
      replace (eprec e <? S L) with (eprec e <? L); [reflexivity|].
      destruct (eprec e <? L) eqn:E1; symmetry.
      - apply Nat.ltb_lt in E1. apply Nat.ltb_lt. lia.
      - apply Nat.ltb_ge in E1. apply Nat.ltb_ge. lia. }
    eapply ev_S; [intro f; apply parse_lassoc; exact HL|].
    eapply ev_bind; [|exact Hl].
    rewrite EQ. apply A_of_core; [exact Hc | lia | exact Hs].
Qed.

Lemma B13_of_core e X r : core e -> ev (fun f => postfix f e X) r ->
  ev (fun f => parse f 13 (pr_new 13 e ++ X)) r.
Proof.
  intros Hc Hp. rewrite (pr_new_wrap e 13) by lia.
  destruct (eprec e <? 13) eqn:E.
  - rewrite wrap_true_app. apply paren13; assumption.
  - apply Nat.ltb_ge in E. pose proof (eprec_le e). assert (E13 : eprec e = 13) by lia.
    cbn [wrap]. pose proof (proj1 Hc) as Hb. unfold body_ok in Hb. rewrite is_loop_13 in Hb by exact E13.
    rewrite E13 in Hb. apply Hb; [apply stops_14|]. unfold cont. cbn [Nat.eqb]. exact Hp.
Qed.

(* ------------------------------------------------------------------ per-constructor facts *)
Definition seq_fact (l : exprs) : Prop :=
  forall rest, closer rest = true -> ev (fun f => pseq f (seq_new l ++ rest)) (Ok l rest).
Definition seq_split (l : exprs) : Prop :=
  match l with ENil => True | ECons x l' => core x /\ seq_fact l' end.
Definition items_fact (l : items) : Prop :=
  forall rest, closer rest = true -> ev (fun f => pitems f (items_new l ++ rest)) (Ok l rest).
Definition cmps_fact (cs : cmps) : Prop :=
  forall rest, stops 4 rest -> ev (fun f => pcmps f (cmps_new 5 cs ++ rest)) (Ok cs rest).

Lemma core_of_13 e : eprec e = 13 ->
  (forall X r, ev (fun f => postfix f e X) r -> ev (fun f => parse f 13 (body e ++ X)) r) ->
  (forall X, hd_ok 13 (body e ++ X)) -> core e.
Proof.
  intros E Hb Hh. split; [|rewrite E; exact Hh].
  unfold body_ok. rewrite is_loop_13 by exact E. rewrite E. intros rest r _ Hp.
  unfold cont in Hp. cbn [Nat.eqb] in Hp. apply Hb. exact Hp.
Qed.
Lemma core_of_atom e : eprec e = 13 -> (forall f X, atom (S f) (body e ++ X) = Ok e X) ->
  (forall X, hd_ok 13 (body e ++ X)) -> core e.
Proof.
  intros E Ha Hh. apply core_of_13; [exact E | | exact Hh].
  intros X r Hp. eapply ev_S; [intro f; reflexivity|]. eapply ev_bind; [|exact Hp].
  eapply ev_S; [intro f; apply Ha | apply ev_const].
Qed.
Lemma core_of_plain e : is_loop e = false ->
  (forall rest, stops (eprec e) rest -> ev (fun f => parse f (eprec e) (body e ++ rest)) (Ok e rest)) ->
  (forall rest, hd_ok (eprec e) (body e ++ rest)) -> core e.
Proof. intros E Hb Hh. split; [|exact Hh]. unfold body_ok. rewrite E. exact Hb. Qed.

Ltac norm_app := repeat (rewrite <- app_assoc || (progress cbn [app])).

Lemma core_negnum k s : k <> KImag -> core (ENum k true s).
Proof.
  intros Hk.
  apply core_of_plain; [reflexivity | | intros; cbn; lia].
  intros rest Hs. cbn [eprec body pr_new] in *. rewrite prec_un_py. cbn [wrap Nat.ltb Nat.leb app].
  eapply ev_S; [intro f; reflexivity|].
  eapply ev_bind.
  - change (TNum k s :: rest) with (pr_new 11 (ENum k false s) ++ rest).
    apply A_of_core; [|lia|exact Hs].
    apply core_of_atom; [reflexivity | intros; reflexivity | intros; exact I].
  - destruct k; try congruence; cbn; apply ev_const.
Qed.

Lemma body_un o a : body (EUn o a) = TOp (tok_un o) Tight :: pr_new 11 a.
Proof. unfold body. cbn [pr_new]. rewrite prec_un_py. reflexivity. Qed.
Lemma parse11_un f o X :
  parse (S f) 11 (TOp (tok_un o) Tight :: X) = bind (parse f 11 X) (fun a r => Ok (mk_un o a) r).
Proof. destruct o; reflexivity. Qed.
Lemma loop_bin f o a X : o <> BPow ->
  loop (S f) (py_level_bin o) a (TOp (tok_bin o) Spaced :: X) =
  bind (parse f (S (py_level_bin o)) X) (fun x r => loop f (py_level_bin o) (EBin o a x) r).
Proof. intros H. destruct o; try congruence; reflexivity. Qed.
Lemma core_un o a : core a -> (match o with UNeg => not_plain_num a | _ => true end) = true -> core (EUn o a).
Proof.
  intros Ca Hw. apply core_of_plain; [reflexivity | | intros; rewrite body_un; cbn; destruct o; cbn; lia].
  intros rest Hs. rewrite body_un. cbn [eprec app] in *.
  eapply ev_S; [intro f; apply parse11_un|].
  eapply ev_bind; [apply A_of_core; [exact Ca | lia | exact Hs]|].
  cbn beta. replace (mk_un o a) with (EUn o a); [apply ev_const|].
  destruct o; try reflexivity. destruct a; try reflexivity. destruct k; destruct neg; try reflexivity; discriminate.
Qed.

Lemma body_not a : body (ENot a) = TKw KNot After :: pr_new 3 a.
Proof. unfold body. cbn [pr_new]. rewrite prec_not_py. reflexivity. Qed.
Lemma core_not a : core a -> core (ENot a).
Proof.
  intros Ca. apply core_of_plain; [reflexivity | | intros; rewrite body_not; cbn; lia].
  intros rest Hs. rewrite body_not. cbn [eprec app] in *.
  eapply ev_S; [intro f; reflexivity|].
  eapply ev_bind; [apply A_of_core; [exact Ca | lia | exact Hs]|].
  apply ev_const.
Qed.

Lemma body_pow a b : body (EBin BPow a b) = pr_new 13 a ++ [TOp OPow Spaced] ++ pr_new 11 b.
Proof. unfold body. cbn [pr_new]. rewrite prec_bin_py, prec_un_py. reflexivity. Qed.
Lemma core_pow a b : core a -> core b -> core (EBin BPow a b).
Proof.
  intros Ca Cb. apply core_of_plain; [reflexivity | | ].
  - intros rest Hs. rewrite body_pow. cbn [eprec py_level_bin] in *. norm_app.
    eapply ev_S; [intro f; reflexivity|].
    eapply ev_bind; [apply A_of_core; [exact Ca | lia | cbn; lia]|].
    simpl. eapply ev_bind; [apply A_of_core; [exact Cb | lia | apply stops_12_11; exact Hs]|].
    apply ev_const.
  - intros rest. rewrite body_pow. cbn [eprec py_level_bin]. norm_app.
    eapply hd_mono; [apply (H_of_core a 13); [exact Ca | lia] | lia].
Qed.

Lemma body_bin o a b : o <> BPow ->
  body (EBin o a b) = pr_new (py_level_bin o) a ++ [TOp (tok_bin o) Spaced] ++ pr_new (S (py_level_bin o)) b.
Proof. intros H. unfold body. cbn [pr_new]. rewrite prec_bin_py. destruct o; try congruence; reflexivity. Qed.
Lemma core_bin o a b : o <> BPow -> core a -> core b -> core (EBin o a b).
Proof.
  intros Ho Ca Cb.
  assert (Hp : 5 <= py_level_bin o <= 10) by (destruct o; try congruence; cbn; lia).
  split.
  - unfold body_ok. rewrite is_loop_mid by exact Hp. cbn [eprec].
    intros rest r Hs Hl. rewrite body_bin by exact Ho. norm_app.
    unfold cont in Hl. replace (py_level_bin o =? 13) with false in Hl by (symmetry; apply Nat.eqb_neq; lia).
    apply B_of_core; [exact Ca | exact Hp | destruct o; try congruence; cbn; lia |].
    eapply ev_S; [intro f; apply loop_bin; exact Ho|].
    eapply ev_bind; [apply A_of_core; [exact Cb | lia | exact Hs]|].
    exact Hl.
  - intros rest. cbn [eprec]. rewrite body_bin by exact Ho. norm_app.
    apply (H_of_core a); [exact Ca | lia].
Qed.

Lemma cmpop_of_toks o Y : hd_ok 4 Y -> cmpop_of (cmp_toks o ++ Y) = Some (o, Y).
Proof.
  intros H. destruct o; try reflexivity.
  cbn [cmp_toks app cmpop_of].
  destruct Y as [|y Y']; [destruct H|]. destruct y; try reflexivity. destruct k; try reflexivity.
  cbn in H. lia.
Qed.
Lemma stops5_cmp_toks o Y : stops 5 (cmp_toks o ++ Y).
Proof. destruct o; cbn; lia. Qed.
Lemma stops5_cmps cs rest : stops 4 rest -> stops 5 (cmps_new 5 cs ++ rest).
Proof.
  intros H. destruct cs; [cbn [cmps_new app]; eapply stops_mono; [exact H | lia]|].
  cbn [cmps_new]. rewrite <- app_assoc. apply stops5_cmp_toks.
Qed.

Lemma parse4_S f ts :
  parse (S f) 4 ts =
  bind (parse f 5 ts) (fun a r =>
    match cmpop_of r with
    | Some (o, r1) =>
        bind (parse f 5 r1) (fun b r2 => bind (pcmps f r2) (fun cs r3 => Ok (ECmp a o b cs) r3))
    | None => Ok a r
    end).
Proof. reflexivity. Qed.
Lemma body_cmp a o b cs : body (ECmp a o b cs) = pr_new 5 a ++ cmp_toks o ++ pr_new 5 b ++ cmps_new 5 cs.
Proof. unfold body. cbn [pr_new]. rewrite prec_cmp_py. reflexivity. Qed.
Lemma core_cmp a o b cs : core a -> core b -> cmps_fact cs -> core (ECmp a o b cs).
Proof.
  intros Ca Cb Cc. apply core_of_plain; [reflexivity | | ].
  - intros rest Hs. rewrite body_cmp. cbn [eprec] in *. rewrite <- !app_assoc.
    eapply ev_S; [intro f; apply parse4_S|].
    eapply ev_bind; [apply A_of_core; [exact Ca | lia | apply stops5_cmp_toks]|].
    cbn beta. rewrite cmpop_of_toks by (eapply hd_mono; [apply (H_of_core b 5); [exact Cb | lia] | lia]).
    eapply ev_bind; [apply A_of_core; [exact Cb | lia | apply stops5_cmps; exact Hs]|].
    cbn beta. eapply ev_bind; [apply Cc; exact Hs|]. apply ev_const.
  - intros rest. rewrite body_cmp. cbn [eprec]. rewrite <- !app_assoc.
    eapply hd_mono; [apply (H_of_core a 5); [exact Ca | lia] | lia].
Qed.

Lemma body_or a b : body (EBool LOr a b) = pr_new 2 a ++ [TKw KOr Spaced] ++ pr_new 1 b.
Proof. unfold body. cbn [pr_new]. rewrite prec_bool_py. reflexivity. Qed.
Lemma body_and a b : body (EBool LAnd a b) = pr_new 3 a ++ [TKw KAnd Spaced] ++ pr_new 2 b.
Proof. unfold body. cbn [pr_new]. rewrite prec_bool_py. reflexivity. Qed.
Lemma core_bool o a b : core a -> core b -> core (EBool o a b).
Proof.
  intros Ca Cb. destruct o.
  - apply core_of_plain; [reflexivity | | ].
    + intros rest Hs. rewrite body_and. cbn [eprec] in *. norm_app.
      eapply ev_S; [intro f; reflexivity|].
      eapply ev_bind; [apply A_of_core; [exact Ca | lia | cbn; lia]|].
      simpl. eapply ev_bind; [apply A_of_core; [exact Cb | lia | exact Hs]|]. apply ev_const.
    + intros rest. rewrite body_and. cbn [eprec]. norm_app.
      eapply hd_mono; [apply (H_of_core a 3); [exact Ca | lia] | lia].
  - apply core_of_plain; [reflexivity | | ].
    + intros rest Hs. rewrite body_or. cbn [eprec] in *. norm_app.
      eapply ev_S; [intro f; reflexivity|].
      eapply ev_bind; [apply A_of_core; [exact Ca | lia | cbn; lia]|].
      simpl. eapply ev_bind; [apply A_of_core; [exact Cb | lia | exact Hs]|]. apply ev_const.
    + intros rest. rewrite body_or. cbn [eprec]. norm_app.
      eapply hd_mono; [apply (H_of_core a 2); [exact Ca | lia] | lia].
Qed.

Lemma body_cond tv c fv :
  body (ECond tv c fv) = pr_new 1 tv ++ [TKw KIf Spaced] ++ pr_new 1 c ++ [TKw KElse Spaced] ++ pr_new 0 fv.
Proof. unfold body. cbn [pr_new]. rewrite test_prec_py, prec_bool_py. reflexivity. Qed.
Lemma core_cond tv c fv : core tv -> core c -> core fv -> core (ECond tv c fv).
Proof.
  intros Ct Cc Cf. apply core_of_plain; [reflexivity | | ].
  - intros rest Hs. rewrite body_cond. cbn [eprec] in *. norm_app.
    eapply ev_S; [intro f; apply parse0_nolam; apply (H_of_core tv 1); [exact Ct | lia]|].
    eapply ev_bind; [apply A_of_core; [exact Ct | lia | cbn; lia]|].
    simpl. eapply ev_bind; [apply A_of_core; [exact Cc | lia | exact I]|].
    simpl. eapply ev_bind; [apply A_of_core; [exact Cf | lia | exact Hs]|]. apply ev_const.
  - intros rest. rewrite body_cond. cbn [eprec]. norm_app.
    eapply hd_mono; [apply (H_of_core tv 1); [exact Ct | lia] | lia].
Qed.

Lemma pnames_names ps X : pnames (name_toks ps ++ TColon :: X) = (ps, TColon :: X).
Proof.
  induction ps as [|p ps IH]; [reflexivity|].
  destruct ps as [|p2 ps']; [reflexivity|].
  change (name_toks (p :: p2 :: ps')) with (TName p :: TComma After :: name_toks (p2 :: ps')).
  cbn [app pnames]. rewrite IH. reflexivity.
Qed.
Lemma body_lam ps b : body (ELambda ps b) =
  TKw KLambda (match ps with [] => Tight | _ => After end) :: name_toks ps ++ [TColon] ++ pr_new 0 b.
Proof. unfold body. cbn [pr_new]. rewrite test_prec_py. cbn [wrap Nat.ltb Nat.leb]. unfold lambda_head. norm_app. reflexivity. Qed.
Lemma core_lam ps b : core b -> core (ELambda ps b).
Proof.
  intros Cb. apply core_of_plain; [reflexivity | | intros; rewrite body_lam; cbn; lia].
  intros rest Hs. rewrite body_lam. cbn [eprec] in *. norm_app.
  eapply ev_S; [intro f; cbn [parse]; rewrite pnames_names; reflexivity|].
  eapply ev_bind; [apply A_of_core; [exact Cb | lia | exact Hs]|]. apply ev_const.
Qed.


(* one-step equations with the recursive calls as constants *)
Lemma atom_lpar f r1 : closer r1 = false ->
  atom (S f) (TLpar :: r1) =
  bind (parse f 0 r1) (fun e r2 =>
    match r2 with
    | TRpar :: r3 => Ok e r3
    | TComma _ :: r3 =>
        bind (pseq f r3) (fun l r4 =>
          match r4 with TRpar :: r5 => Ok (ETuple (ECons e l)) r5 | _ => Err end)
    | _ => Err
    end).
Proof. intros H. cbn [atom]. rewrite H. reflexivity. Qed.
Lemma atom_lbrk f r1 :
  atom (S f) (TLbrk :: r1) =
  bind (pseq f r1) (fun l r2 => match r2 with TRbrk :: r3 => Ok (EList l) r3 | _ => Err end).
Proof. reflexivity. Qed.
Lemma atom_lbrace f r1 : closer r1 = false ->
  atom (S f) (TLbrace :: r1) =
  bind (parse f 0 r1) (fun k r2 =>
    match r2 with
    | TColon :: r3 =>
        bind (parse f 0 r3) (fun v r4 =>
          match r4 with
          | TComma _ :: r5 =>
              bind (pitems f r5) (fun l r6 =>
                match r6 with TRbrace :: r7 => Ok (EDict (ICons k v l)) r7 | _ => Err end)
          | TRbrace :: r5 => Ok (EDict (ICons k v INil)) r5
          | _ => Err
          end)
    | TComma _ :: r3 =>
        bind (pseq f r3) (fun l r4 =>
          match r4 with TRbrace :: r5 => Ok (ESet (ECons k l)) r5 | _ => Err end)
    | TRbrace :: r3 => Ok (ESet (ECons k ENil)) r3
    | _ => Err
    end).
Proof. intros H. cbn [atom]. rewrite H. reflexivity. Qed.
Lemma pseq_S f ts : closer ts = false ->
  pseq (S f) ts =
  bind (parse f 0 ts) (fun e r =>
    match r with
    | TComma _ :: r1 => bind (pseq f r1) (fun l r2 => Ok (ECons e l) r2)
    | _ => Ok (ECons e ENil) r
    end).
Proof. intros H. cbn [pseq]. rewrite H. reflexivity. Qed.
Lemma pitems_S f ts : closer ts = false ->
  pitems (S f) ts =
  bind (parse f 0 ts) (fun k r =>
    match r with
    | TColon :: r1 =>
        bind (parse f 0 r1) (fun v r2 =>
          match r2 with
          | TComma _ :: r3 => bind (pitems f r3) (fun l r4 => Ok (ICons k v l) r4)
          | _ => Ok (ICons k v INil) r2
          end)
    | _ => Err
    end).
Proof. intros H. cbn [pitems]. rewrite H. reflexivity. Qed.
Lemma pcmps_S f o Y : hd_ok 4 Y ->
  pcmps (S f) (cmp_toks o ++ Y) =
  bind (parse f 5 Y) (fun b r2 => bind (pcmps f r2) (fun cs r3 => Ok (CCons o b cs) r3)).
Proof. intros H. cbn [pcmps]. rewrite (cmpop_of_toks o Y H). reflexivity. Qed.
Lemma postfix_lbrk f acc r1 :
  postfix (S f) acc (TLbrk :: r1) =
  bind (parse f 0 r1) (fun i r2 =>
    match r2 with
    | TRbrk :: r3 => postfix f (ESub acc i) r3
    | TComma _ :: r3 =>
        bind (pseq f r3) (fun l r4 =>
          match r4 with
          | TRbrk :: r5 => postfix f (ESub acc (ETuple (ECons i l))) r5
          | _ => Err
          end)
    | _ => Err
    end).
Proof. reflexivity. Qed.
Lemma postfix_lpar f acc r1 :
  postfix (S f) acc (TLpar :: r1) =
  bind (pseq f r1) (fun l r2 => match r2 with TRpar :: r3 => postfix f (ECall acc l) r3 | _ => Err end).
Proof. reflexivity. Qed.
Lemma parse13_S f ts : parse (S f) 13 ts = bind (atom f ts) (fun a r => postfix f a r).
Proof. reflexivity. Qed.

Lemma ev_pseq_nil X : closer X = true -> ev (fun f => pseq f X) (Ok ENil X).
Proof. intros H. eapply ev_S; [intro f; cbn [pseq]; rewrite H; reflexivity | apply ev_const]. Qed.

(* first element already read: "x" then either the closer or ", rest" *)
Lemma seq_fact_cons x l' : core x -> seq_fact l' -> seq_fact (ECons x l').
Proof.
  intros Cx Cl rest Hc.
  destruct l' as [|y l''].
  - cbn [seq_new]. rewrite test_prec_py.
    eapply ev_S; [intro f; apply pseq_S; apply (hd_not_closer 0); apply H_of_core; [exact Cx | lia]|].
    eapply ev_bind; [apply A_of_core; [exact Cx | lia | apply closer_stops; exact Hc]|].
    cbn beta. destruct rest as [|[] ?]; try discriminate Hc; simpl; (cbn beta iota; apply ev_const).
  - change (seq_new (ECons x (ECons y l''))) with (pr_new test_prec x ++ [TComma After] ++ seq_new (ECons y l'')).
    set (l1 := ECons y l'') in *; clearbody l1.
    rewrite test_prec_py. norm_app.
    eapply ev_S; [intro f; apply pseq_S; apply (hd_not_closer 0); apply H_of_core; [exact Cx | lia]|].
    eapply ev_bind; [apply A_of_core; [exact Cx | lia | exact I]|].
    cbn beta iota. eapply ev_bind; [apply Cl; exact Hc|]. (cbn beta iota; apply ev_const).
Qed.

(* after an opening bracket: first element, then  closer | "," more closer ; K decides on the closer *)
Lemma core_tuple l : seq_fact l -> seq_split l -> core (ETuple l).
Proof.
  intros Cl Cs. apply core_of_13; [reflexivity | | intros; exact I].
  intros X r Hp. eapply ev_S; [intro f; apply parse13_S|]. eapply ev_bind; [|exact Hp].
  unfold body. cbn [pr_new].
  destruct l as [|x l'].
  - cbn [seq_new tuple_comma is_single app].
    eapply ev_S; [intro f; simpl; reflexivity | apply ev_const].
  - destruct Cs as [Cx Cl']. destruct l' as [|y l''].
    + cbn [seq_new tuple_comma is_single]. rewrite test_prec_py. norm_app.
      eapply ev_S; [intro f; apply atom_lpar; apply (hd_not_closer 0); apply H_of_core; [exact Cx | lia]|].
      eapply ev_bind; [apply A_of_core; [exact Cx | lia | exact I]|].
      cbn beta iota. eapply ev_bind; [apply ev_pseq_nil; reflexivity|]. (cbn beta iota; apply ev_const).
    + cbn [tuple_comma is_single].
      change (seq_new (ECons x (ECons y l''))) with (pr_new test_prec x ++ [TComma After] ++ seq_new (ECons y l'')).
    set (l1 := ECons y l'') in *; clearbody l1. rewrite test_prec_py. norm_app.
      eapply ev_S; [intro f; apply atom_lpar; apply (hd_not_closer 0); apply H_of_core; [exact Cx | lia]|].
      eapply ev_bind; [apply A_of_core; [exact Cx | lia | exact I]|].
      cbn beta iota. eapply ev_bind; [apply Cl'; reflexivity|]. (cbn beta iota; apply ev_const).
Qed.

Lemma core_list l : seq_fact l -> core (EList l).
Proof.
  intros Cl. apply core_of_13; [reflexivity | | intros; exact I].
  intros X r Hp. eapply ev_S; [intro f; apply parse13_S|]. eapply ev_bind; [|exact Hp].
  unfold body. cbn [pr_new]. norm_app.
  eapply ev_S; [intro f; apply atom_lbrk|].
  eapply ev_bind; [apply Cl; reflexivity|]. (cbn beta iota; apply ev_const).
Qed.

Lemma core_set x l' : core x -> seq_fact l' -> core (ESet (ECons x l')).
Proof.
  intros Cx Cl'. apply core_of_13; [reflexivity | | intros; exact I].
  intros X r Hp. eapply ev_S; [intro f; apply parse13_S|]. eapply ev_bind; [|exact Hp].
  unfold body. cbn [pr_new].
  destruct l' as [|y l''].
  - cbn [seq_new]. rewrite test_prec_py. norm_app.
    eapply ev_S; [intro f; apply atom_lbrace; apply (hd_not_closer 0); apply H_of_core; [exact Cx | lia]|].
    eapply ev_bind; [apply A_of_core; [exact Cx | lia | exact I]|].
    (cbn beta iota; apply ev_const).
  - change (seq_new (ECons x (ECons y l''))) with (pr_new test_prec x ++ [TComma After] ++ seq_new (ECons y l'')).
    set (l1 := ECons y l'') in *; clearbody l1.
    rewrite test_prec_py. norm_app.
    eapply ev_S; [intro f; apply atom_lbrace; apply (hd_not_closer 0); apply H_of_core; [exact Cx | lia]|].
    eapply ev_bind; [apply A_of_core; [exact Cx | lia | exact I]|].
    cbn beta iota. eapply ev_bind; [apply Cl'; reflexivity|]. (cbn beta iota; apply ev_const).
Qed.

Lemma ev_pitems_nil X : closer X = true -> ev (fun f => pitems f X) (Ok INil X).
Proof. intros H. eapply ev_S; [intro f; cbn [pitems]; rewrite H; reflexivity | apply ev_const]. Qed.
Lemma items_fact_cons k v l' : core k -> core v -> items_fact l' -> items_fact (ICons k v l').
Proof.
  intros Ck Cv Cl rest Hc.
  destruct l' as [|k2 v2 l''].
  - cbn [items_new]. rewrite test_prec_py. norm_app.
    eapply ev_S; [intro f; apply pitems_S; apply (hd_not_closer 0); apply H_of_core; [exact Ck | lia]|].
    eapply ev_bind; [apply A_of_core; [exact Ck | lia | exact I]|].
    cbn beta iota. eapply ev_bind; [apply A_of_core; [exact Cv | lia | apply closer_stops; exact Hc]|].
    cbn beta. destruct rest as [|[] ?]; try discriminate Hc; simpl; (cbn beta iota; apply ev_const).
  - change (items_new (ICons k v (ICons k2 v2 l''))) with
      (pr_new test_prec k ++ [TColon] ++ pr_new test_prec v ++ [TComma After] ++ items_new (ICons k2 v2 l'')).
    set (l1 := ICons k2 v2 l'') in *; clearbody l1.
    rewrite test_prec_py. norm_app.
    eapply ev_S; [intro f; apply pitems_S; apply (hd_not_closer 0); apply H_of_core; [exact Ck | lia]|].
    eapply ev_bind; [apply A_of_core; [exact Ck | lia | exact I]|].
    cbn beta iota. eapply ev_bind; [apply A_of_core; [exact Cv | lia | exact I]|].
    cbn beta iota. eapply ev_bind; [apply Cl; exact Hc|]. (cbn beta iota; apply ev_const).
Qed.
Lemma core_dict l : items_fact l ->
  (match l with INil => True | ICons k v l' => core k /\ core v /\ items_fact l' end) -> core (EDict l).
Proof.
  intros Cl Cs. apply core_of_13; [reflexivity | | intros; exact I].
  intros X r Hp. eapply ev_S; [intro f; apply parse13_S|]. eapply ev_bind; [|exact Hp].
  unfold body. cbn [pr_new].
  destruct l as [|k v l'].
  - cbn [items_new app]. eapply ev_S; [intro f; simpl; reflexivity | apply ev_const].
  - destruct Cs as [Ck [Cv Cl']]. destruct l' as [|k2 v2 l''].
    + cbn [items_new]. rewrite test_prec_py. norm_app.
      eapply ev_S; [intro f; apply atom_lbrace; apply (hd_not_closer 0); apply H_of_core; [exact Ck | lia]|].
      eapply ev_bind; [apply A_of_core; [exact Ck | lia | exact I]|].
      cbn beta iota. eapply ev_bind; [apply A_of_core; [exact Cv | lia | exact I]|]. (cbn beta iota; apply ev_const).
    + change (items_new (ICons k v (ICons k2 v2 l''))) with
        (pr_new test_prec k ++ [TColon] ++ pr_new test_prec v ++ [TComma After] ++ items_new (ICons k2 v2 l'')).
      set (l1 := ICons k2 v2 l'') in *; clearbody l1.
      rewrite test_prec_py. norm_app.
      eapply ev_S; [intro f; apply atom_lbrace; apply (hd_not_closer 0); apply H_of_core; [exact Ck | lia]|].
      eapply ev_bind; [apply A_of_core; [exact Ck | lia | exact I]|].
      cbn beta iota. eapply ev_bind; [apply A_of_core; [exact Cv | lia | exact I]|].
      cbn beta iota. eapply ev_bind; [apply Cl'; reflexivity|]. (cbn beta iota; apply ev_const).
Qed.

Lemma core_attr a n : core a -> core (EAttr a n).
Proof.
  intros Ca.
  assert (Hpost : forall X r, ev (fun f => postfix f (EAttr a n) X) r ->
                              ev (fun f => postfix f a (TDot :: TName n :: X)) r).
  { intros X r Hp. eapply ev_S; [intro f; reflexivity | exact Hp]. }
  assert (G1 : forall X r, ev (fun f => postfix f (EAttr a n) X) r ->
               ev (fun f => parse f 13 (pr_new 13 a ++ TDot :: TName n :: X)) r)
    by (intros X r Hp; apply B13_of_core; [exact Ca | apply Hpost; exact Hp]).
  assert (G2 : forall X r, ev (fun f => postfix f (EAttr a n) X) r ->
               ev (fun f => parse f 13 (TLpar :: body a ++ TRpar :: TDot :: TName n :: X)) r)
    by (intros X r Hp; apply paren13; [exact Ca | apply Hpost; exact Hp]).
  apply core_of_13; [reflexivity | | ].
  - intros X r Hp. unfold body at 1. cbn [pr_new]. rewrite test_prec_py, atom_prec_py.
    destruct a; try (norm_app; apply G1; exact Hp).
    destruct k; try (norm_app; apply G1; exact Hp).
    norm_app. apply G2. exact Hp.
  - intros X. unfold body at 1. cbn [pr_new]. rewrite test_prec_py, atom_prec_py.
    destruct a; try (norm_app; apply H_of_core; [exact Ca | lia]).
    destruct k; try (norm_app; apply H_of_core; [exact Ca | lia]).
    exact I.
Qed.

Lemma core_sub a i : core a -> core i -> (match i with ETuple l => seq_split l | _ => True end) -> core (ESub a i).
Proof.
  intros Ca Ci Cs.
  apply core_of_13; [reflexivity | | ].
  2:{ intros X. unfold body. cbn [pr_new]. rewrite atom_prec_py. norm_app. apply H_of_core; [exact Ca | lia]. }
  intros X r Hp. unfold body. cbn [pr_new]. rewrite atom_prec_py, test_prec_py. norm_app.
  apply B13_of_core; [exact Ca|].
  assert (Gen : ev (fun f => postfix f a (TLbrk :: pr_new 0 i ++ TRbrk :: X)) r).
  { eapply ev_S; [intro f; apply postfix_lbrk|].
    eapply ev_bind; [apply A_of_core; [exact Ci | lia | exact I]|].
    cbn beta iota. exact Hp. }
  destruct i; try exact Gen.
  destruct l as [|x l']; [exact Gen|].
  destruct Cs as [Cx Cl']. destruct l' as [|y l''].
  - cbn [seq_new tuple_comma is_single]. rewrite test_prec_py. norm_app.
    eapply ev_S; [intro f; apply postfix_lbrk|].
    eapply ev_bind; [apply A_of_core; [exact Cx | lia | exact I]|].
    cbn beta iota. eapply ev_bind; [apply ev_pseq_nil; reflexivity|]. cbn beta iota. exact Hp.
  - cbn [tuple_comma is_single].
    change (seq_new (ECons x (ECons y l''))) with (pr_new test_prec x ++ [TComma After] ++ seq_new (ECons y l'')).
    set (l1 := ECons y l'') in *; clearbody l1. rewrite test_prec_py. norm_app.
    eapply ev_S; [intro f; apply postfix_lbrk|].
    eapply ev_bind; [apply A_of_core; [exact Cx | lia | exact I]|].
    cbn beta iota. eapply ev_bind; [apply Cl'; reflexivity|]. cbn beta iota. exact Hp.
Qed.

Lemma core_call fn args : core fn -> seq_fact args -> core (ECall fn args).
Proof.
  intros Cf Cl. apply core_of_13; [reflexivity | | ].
  2:{ intros X. unfold body. cbn [pr_new]. rewrite atom_prec_py. norm_app. apply H_of_core; [exact Cf | lia]. }
  intros X r Hp. unfold body. cbn [pr_new]. rewrite atom_prec_py. norm_app.
  apply B13_of_core; [exact Cf|].
  eapply ev_S; [intro f; apply postfix_lpar|].
  eapply ev_bind; [apply Cl; reflexivity|]. cbn beta iota. exact Hp.
Qed.

Lemma cmps_fact_nil : cmps_fact CNil.
Proof.
  intros rest Hs. cbn [cmps_new app].
  eapply ev_S; [intro f; cbn [pcmps]; rewrite (stops_cmpop_none _ Hs); reflexivity | apply ev_const].
Qed.
Lemma cmps_fact_cons o x cs : core x -> cmps_fact cs -> cmps_fact (CCons o x cs).
Proof.
  intros Cx Cc rest Hs. cbn [cmps_new]. rewrite <- !app_assoc.
  eapply ev_S; [intro f; apply pcmps_S; eapply hd_mono; [apply (H_of_core x 5); [exact Cx | lia] | lia]|].
  eapply ev_bind; [apply A_of_core; [exact Cx | lia | apply stops5_cmps; exact Hs]|].
  cbn beta. eapply ev_bind; [apply Cc; exact Hs|]. (cbn beta iota; apply ev_const).
Qed.

(* ------------------------------------------------------------------ all expressions *)
Scheme expr_mut := Induction for expr Sort Prop
with exprs_mut := Induction for exprs Sort Prop
with items_mut := Induction for items Sort Prop
with cmps_mut := Induction for cmps Sort Prop.
Combined Scheme expr_all_ind from expr_mut, exprs_mut, items_mut, cmps_mut.

Definition items_split (l : items) : Prop :=
  match l with INil => True | ICons k v l' => core k /\ core v /\ items_fact l' end.
Definition Pe (e : expr) : Prop :=
  wf e = true -> core e /\ match e with ETuple l => seq_split l | _ => True end.
Definition Pes (l : exprs) : Prop := wf_seq l = true -> seq_fact l /\ seq_split l.
Definition Pit (l : items) : Prop := wf_items l = true -> items_fact l /\ items_split l.
Definition Pc (cs : cmps) : Prop := wf_cmps cs = true -> cmps_fact cs.

Ltac wf_split H :=
  cbn [wf wf_seq wf_items wf_cmps] in H;
  repeat match type of H with
         | (_ && _) = true => let H1 := fresh "W" in apply andb_true_iff in H; destruct H as [H H1]
         end.

Lemma read_back_all :
  (forall e, Pe e) /\ (forall l, Pes l) /\ (forall l, Pit l) /\ (forall cs, Pc cs).
Proof.
  apply expr_all_ind; unfold Pe, Pes, Pit, Pc.
  - (* EName *) intros s _. split; [|exact I]. apply core_of_atom; [reflexivity | intros; reflexivity | intros; exact I].
  - (* ENum *) intros k neg s W. split; [|exact I].
    destruct neg; [apply core_negnum; intros ->; discriminate|].
    apply core_of_atom; [reflexivity | intros; reflexivity | intros; exact I].
  - intros s _. split; [|exact I]. apply core_of_atom; [reflexivity | intros; reflexivity | intros; exact I].
  - intros s _. split; [|exact I]. apply core_of_atom; [reflexivity | intros; reflexivity | intros; exact I].
  - intros _. split; [|exact I]. apply core_of_atom; [reflexivity | intros; reflexivity | intros; exact I].
  - intros _. split; [|exact I]. apply core_of_atom; [reflexivity | intros; reflexivity | intros; exact I].
  - intros _. split; [|exact I]. apply core_of_atom; [reflexivity | intros; reflexivity | intros; exact I].
  - intros _. split; [|exact I]. apply core_of_atom; [reflexivity | intros; reflexivity | intros; exact I].
  - (* EUn *) intros o a IHa W. wf_split W. split; [|exact I]. apply core_un; [apply IHa; exact W | exact W0].
  - (* ENot *) intros a IHa W. cbn [wf] in W. split; [|exact I]. apply core_not. apply IHa; exact W.
  - (* EBin *) intros o a IHa b IHb W. wf_split W. split; [|exact I].
    destruct (binop_eqb o BPow) eqn:E.
    + destruct o; try discriminate. apply core_pow; [apply IHa; exact W | apply IHb; exact W0].
    + apply core_bin; [intros ->; discriminate | apply IHa; exact W | apply IHb; exact W0].
  - (* ECmp *) intros a IHa o b IHb cs IHc W. wf_split W. split; [|exact I].
    apply core_cmp; [apply IHa; exact W | apply IHb; exact W1 | apply IHc; exact W0].
  - (* EBool *) intros o a IHa b IHb W. wf_split W. split; [|exact I].
    apply core_bool; [apply IHa; exact W | apply IHb; exact W0].
  - (* ECond *) intros a IHa b IHb c IHc W. wf_split W. split; [|exact I].
    apply core_cond; [apply IHa; exact W | apply IHb; exact W1 | apply IHc; exact W0].
  - (* ETuple *) intros l IHl W. cbn [wf] in W. destruct (IHl W) as [F Sp]. split; [|exact Sp].
    apply core_tuple; assumption.
  - (* EList *) intros l IHl W. cbn [wf] in W. destruct (IHl W) as [F Sp]. split; [|exact I].
    apply core_list; assumption.
  - (* ESet *) intros l IHl W. wf_split W. destruct (IHl W) as [F Sp]. split; [|exact I].
    destruct l as [|x l']; [discriminate|]. destruct Sp as [Cx Cl']. apply core_set; assumption.
  - (* EDict *) intros l IHl W. cbn [wf] in W. destruct (IHl W) as [F Sp]. split; [|exact I].
    apply core_dict; assumption.
  - (* EAttr *) intros a IHa n W. cbn [wf] in W. split; [|exact I]. apply core_attr. apply IHa; exact W.
  - (* ESub *) intros a IHa i IHi W. wf_split W. split; [|exact I].
    destruct (IHi W0) as [Ci Si]. apply core_sub; [apply IHa; exact W | exact Ci | exact Si].
  - (* ECall *) intros fn IHf args IHl W. wf_split W. split; [|exact I].
    apply core_call; [apply IHf; exact W | apply IHl; exact W0].
  - (* ELambda *) intros ps b IHb W. cbn [wf] in W. split; [|exact I]. apply core_lam. apply IHb; exact W.
  - (* ENil *) intros _. split; [|exact I]. intros rest Hc. cbn [seq_new app]. apply ev_pseq_nil; exact Hc.
  - (* ECons *) intros x IHx l IHl W. wf_split W. destruct (IHl W0) as [F Sp].
    pose proof (proj1 (IHx W)) as Cx. split; [apply seq_fact_cons; assumption | exact (conj Cx F)].
  - (* INil *) intros _. split; [|exact I]. intros rest Hc. cbn [items_new app]. apply ev_pitems_nil; exact Hc.
  - (* ICons *) intros k IHk v IHv l IHl W. wf_split W. destruct (IHl W0) as [F Sp].
    pose proof (proj1 (IHk W)) as Ck. pose proof (proj1 (IHv W1)) as Cv.
    split; [apply items_fact_cons; assumption | exact (conj Ck (conj Cv F))].
  - (* CNil *) intros _. apply cmps_fact_nil.
  - (* CCons *) intros o x IHx cs IHc W. wf_split W.
    apply cmps_fact_cons; [apply IHx; exact W | apply IHc; exact W0].
Qed.

(* reparse (print e) = e for every well-formed tree, with any sufficient fuel *)
Theorem print_unambiguous_fixed : forall e, wf e = true ->
  exists fuel0, forall fuel, fuel0 <= fuel -> reparse fuel (print true e) = RExpr e.
Proof.
  intros e W. destruct (proj1 read_back_all e W) as [Hc _].
  destruct (A_of_core e 0 [] Hc (Nat.le_0_l 13) I) as [f0 H].
  exists f0. intros fuel Hf. unfold reparse, print. specialize (H fuel Hf).
  rewrite app_nil_r in H. rewrite H. reflexivity.
Qed.

(* the same inside any context that cannot continue the expression (closing bracket, comma ...) *)
Theorem print_unambiguous_fixed_ctx : forall e L rest, wf e = true -> L <= 13 -> stops L rest ->
  exists fuel0, forall fuel, fuel0 <= fuel -> parse fuel L (pr_new L e ++ rest) = Ok e rest.
Proof. intros e L rest W HL Hs. apply A_of_core; [apply (proj1 read_back_all e W) | exact HL | exact Hs]. Qed.
