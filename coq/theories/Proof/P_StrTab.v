(* Proofs for Model/M_StrTab.v: back-reference forms of the string-table codec and the table-level
   round trip, on top of C12's P_LZSS (round trip of the codec) and P_StrLit (length index). *)
From Coq Require Import NArith ZArith List Bool Lia ZifyBool ZifyNat ZifyN.
From CyVerif Require Import Lib.CInt Model.M_LZSS Model.M_StrLit Model.M_StrTab Proof.P_LZSS Proof.P_StrLit.
Import ListNotations.
Open Scope Z_scope.

(* ------------------------------------------------------------------ one back reference *)
(* what LZSS.py writes for (end offset, length) is read back by the C field decoding as exactly
   (form, end offset, length); the form is the one form_of names and fixes the encoded size *)
Theorem backref_fields_exact : forall eo len bs rest,
  len <= 258 -> encode_match (eo + len) len = Some bs ->
  exists f, form_of eo len = Some f /\ ref_fields (bs ++ rest) = Some (f, eo, len, rest)
            /\ Z.of_nat (length bs) = rform_len f /\ bytes bs.
Proof.
  intros eo len bs rest L H. unfold encode_match in H. cbv zeta in H.
  replace (eo + len - len) with eo in H by lia. unfold form_of.
  destruct (Z.ltb_spec len 3) as [H1|H1]; cbn [orb] in *; [discriminate|].
  destruct (Z.ltb_spec eo 0) as [H2|H2]; [discriminate|].
  destruct (Z.leb_spec eo 127) as [H3|H3].
  { injection H as <-. exists F7. split; [reflexivity|]. cbn [app ref_fields].
    rewrite (k7_spec eo ltac:(lia)), Z.eqb_refl. replace (len - 3 + 3) with len by lia.
    split; [reflexivity|]. split; [reflexivity|]. repeat constructor; unfold byte; lia. }
  assert (F9case : 3 <= len < 35 -> eo - 128 < 512 ->
          ref_fields ([Z.lor (Z.land (eo - 128) 127) 128; Z.lor (Z.shiftr (Z.land (eo - 128) 384) 2) (len - 3)] ++ rest)
          = Some (F9, eo, len, rest)
          /\ bytes [Z.lor (Z.land (eo - 128) 127) 128; Z.lor (Z.shiftr (Z.land (eo - 128) 384) 2) (len - 3)]).
  { intros Hl Ho. pose proof (k9_spec (eo - 128) (len - 3) ltac:(lia) ltac:(lia)) as K. unfold k9_ok, k9_lo, k9_hi in K.
    cbn [app ref_fields].
    set (lo := Z.lor (Z.land (eo - 128) 127) 128) in *.
    set (hi := Z.lor (Z.shiftr (Z.land (eo - 128) 384) 2) (len - 3)) in *.
    destruct (Z.eqb_spec (Z.land lo 128) 0) as [C|_]; [lia|].
    destruct (Z.eqb_spec (Z.land hi 128) 0) as [_|C]; [|lia].
    replace (Z.lor (Z.land (Z.shiftl hi 2) 384) (Z.land lo 127)) with (eo - 128) by lia.
    replace (Z.land hi 31) with (len - 3) by lia.
    replace (128 + (eo - 128)) with eo by lia. replace (len - 3 + 3) with len by lia.
    split; [reflexivity|]. repeat constructor; unfold byte; lia. }
  assert (F14case : 3 < len -> eo - 128 < 16384 ->
          ref_fields ([Z.lor (Z.land (eo - 128) 127) 128; Z.lor (Z.land (Z.shiftr (eo - 128) 7) 127) 128; len - 3] ++ rest)
          = Some (F14, eo, len, rest)
          /\ bytes [Z.lor (Z.land (eo - 128) 127) 128; Z.lor (Z.land (Z.shiftr (eo - 128) 7) 127) 128; len - 3]).
  { intros Hl Ho. pose proof (k14_spec (eo - 128) ltac:(lia)) as K. unfold k14_ok, k14_lo, k14_hi in K.
    cbn [app ref_fields].
    set (lo := Z.lor (Z.land (eo - 128) 127) 128) in *.
    set (hi := Z.lor (Z.land (Z.shiftr (eo - 128) 7) 127) 128) in *.
    destruct (Z.eqb_spec (Z.land lo 128) 0) as [C|_]; [lia|].
    destruct (Z.eqb_spec (Z.land hi 128) 0) as [C|_]; [lia|].
    replace (Z.lor (Z.shiftl (Z.land hi 127) 7) (Z.land lo 127)) with (eo - 128) by lia.
    replace (128 + (eo - 128)) with eo by lia. replace (len - 3 + 3) with len by lia.
    split; [reflexivity|]. repeat constructor; unfold byte; lia. }
  destruct (Z.ltb_spec (len - 3) 32) as [H4|H4]; cbn [andb] in *.
  - destruct (Z.ltb_spec (eo - 128) 512) as [H5|H5].
    + injection H as <-. exists F9. destruct F9case as [A B]; [lia|lia|]. repeat split; assumption.
    + destruct (Z.gtb_spec len 3) as [H6|H6]; cbn [andb] in *; [|discriminate].
      destruct (Z.ltb_spec (eo - 128) 16384) as [H7|H7]; [|discriminate].
      injection H as <-. exists F14. destruct F14case as [A B]; [lia|lia|]. repeat split; assumption.
  - destruct (Z.gtb_spec len 3) as [H6|H6]; cbn [andb] in *; [|discriminate].
    destruct (Z.ltb_spec (eo - 128) 16384) as [H7|H7]; [|discriminate].
    injection H as <-. exists F14. destruct F14case as [A B]; [lia|lia|]. repeat split; assumption.
Qed.

(* distinct back references have distinct encodings: every bit of the offset and length fields
   of every form is significant to the decoder *)
Theorem backref_injective : forall eo len eo' len' bs,
  len <= 258 -> len' <= 258 ->
  encode_match (eo + len) len = Some bs -> encode_match (eo' + len') len' = Some bs ->
  eo = eo' /\ len = len'.
Proof.
  intros eo len eo' len' bs L L' E E'.
  destruct (backref_fields_exact eo len bs [] L E) as (f & _ & R & _).
  destruct (backref_fields_exact eo' len' bs [] L' E') as (f' & _ & R' & _).
  rewrite R in R'. injection R' as _ <- <-. split; reflexivity.
Qed.

(* the thresholds between the forms, and what cannot be stored as a reference at all *)
Theorem form_ranges : forall eo len f, form_of eo len = Some f ->
  match f with
  | F7 => 0 <= eo <= 127 /\ 3 <= len
  | F9 => 128 <= eo <= 639 /\ 3 <= len <= 34
  | F14 => 128 <= eo <= 16511 /\ 4 <= len /\ (640 <= eo \/ 35 <= len)
  end.
Proof.
  intros eo len f. unfold form_of.
  destruct (Z.ltb_spec len 3); cbn [orb]; [discriminate|].
  destruct (Z.ltb_spec eo 0); [discriminate|].
  destruct (Z.leb_spec eo 127); [intros [= <-]; lia|].
  destruct (Z.ltb_spec (len - 3) 32); cbn [andb].
  - destruct (Z.ltb_spec (eo - 128) 512); [intros [= <-]; lia|].
    destruct (Z.gtb_spec len 3); cbn [andb]; [|discriminate].
    destruct (Z.ltb_spec (eo - 128) 16384); [intros [= <-]; lia|discriminate].
  - destruct (Z.gtb_spec len 3); cbn [andb]; [|discriminate].
    destruct (Z.ltb_spec (eo - 128) 16384); [intros [= <-]; lia|discriminate].
Qed.

Theorem form_none : forall eo len,
  form_of eo len = None <-> (len < 3 \/ eo < 0 \/ 16512 <= eo \/ (640 <= eo /\ len = 3)).
Proof.
  intros eo len. unfold form_of.
  destruct (Z.ltb_spec len 3); cbn [orb]; [split; [lia|reflexivity]|].
  destruct (Z.ltb_spec eo 0); [split; [lia|reflexivity]|].
  destruct (Z.leb_spec eo 127); [split; [discriminate|lia]|].
  destruct (Z.ltb_spec (len - 3) 32); cbn [andb].
  - destruct (Z.ltb_spec (eo - 128) 512); [split; [discriminate|lia]|].
    destruct (Z.gtb_spec len 3); cbn [andb]; [|split; [lia|reflexivity]].
    destruct (Z.ltb_spec (eo - 128) 16384); [split; [discriminate|lia]|split; [lia|reflexivity]].
  - destruct (Z.gtb_spec len 3); cbn [andb]; [|lia].
    destruct (Z.ltb_spec (eo - 128) 16384); [split; [discriminate|lia]|split; [lia|reflexivity]].
Qed.

(* form_of is the selection of encode_match *)
Theorem form_of_encode : forall eo len,
  form_of eo len = None <-> encode_match (eo + len) len = None.
Proof.
  intros eo len. unfold form_of, encode_match. cbv zeta. replace (eo + len - len) with eo by lia.
  destruct ((len <? 3) || (eo <? 0)); [tauto|].
  destruct (eo <=? 127); [split; discriminate|].
  destruct ((len - 3 <? 32) && (eo - 128 <? 512)); [split; discriminate|].
  destruct ((len >? 3) && (eo - 128 <? 16384)); [split; discriminate|tauto].
Qed.

(* tie of ref_fields to C12's model of the decompressor: on a back-reference round the modelled C
   loop copies exactly the range named by ref_fields *)
Theorem dec_ref_uses_fields : forall dst_len src f eo len rest flags pos outr out_pos,
  Z.land flags 256 <> 0 -> Z.land flags 1 = 0 ->
  ref_fields src = Some (f, eo, len, rest) ->
  M_LZSS.dec dst_len src flags pos outr out_pos =
  M_LZSS.dec_copy dst_len (M_LZSS.dec dst_len rest) flags (pos + rform_len f) eo (len - 3) outr out_pos.
Proof.
  intros dst_len src f eo len rest flags pos outr out_pos F8 F0 R.
  destruct src as [|lo [|hi r]]; cbn [ref_fields] in R; try discriminate.
  cbn [M_LZSS.dec].
  destruct (Z.eqb_spec (Z.land flags 256) 0) as [C|_]; [contradiction|].
  destruct (Z.eqb_spec (Z.land flags 1) 0) as [_|C]; [|contradiction]. cbn [negb].
  destruct (Z.land lo 128 =? 0).
  { injection R as <- <- <- <-. cbn [rform_len]. replace (hi + 3 - 3) with hi by lia. reflexivity. }
  destruct (Z.land hi 128 =? 0).
  { injection R as <- <- <- <-. cbn [rform_len]. replace (Z.land hi 31 + 3 - 3) with (Z.land hi 31) by lia. reflexivity. }
  destruct r as [|l3 r']; [discriminate|].
  injection R as <- <- <- <-. cbn [rform_len]. replace (l3 + 3 - 3) with l3 by lia. reflexivity.
Qed.

(* ------------------------------------------------------------------ the table *)
(* split (decode (encode (concat table))) = table, for EVERY non-empty table - whether or not
   the 200-byte saving test selects the LZSS branch for it *)
Theorem table_lzss_roundtrip : forall fx texts bstrs,
  Forall (Forall (fun c => is_scalar c = true)) texts -> Forall bytesN bstrs ->
  index_ok fx (map utf8_len texts) -> index_ok fx (map nlen bstrs) ->
  concat (map (flat_map enc_char) texts) ++ concat bstrs <> [] ->
  exists t c, gen_table fx texts bstrs = GOk t /\ lzss_compress (t_data t) = Some c /\ bytesN c
              /\ lzss_unpack t c = Some (texts, bstrs).
Proof.
  intros fx texts bstrs Hs Hb Hi1 Hi2 Hne.
  destruct (string_table_roundtrip fx texts bstrs Hs Hi1 Hi2) as (t & G & D & U).
  assert (Hbytes : bytesN (t_data t)).
  { rewrite D. apply Forall_app. split.
    - apply Forall_concat. apply Forall_map. eapply Forall_impl; [|exact Hs]. intros tx Htx.
      apply Forall_flat_map. eapply Forall_impl; [|exact Htx]. intros c Hc. now apply enc_char_bytes.
    - now apply Forall_concat. }
  destruct (nz_roundtrip (t_data t) Hbytes) as [R1 R2].
  assert (Hnz : map Z.of_N (t_data t) <> []).
  { rewrite D. intros Hnil. apply Hne. apply map_eq_nil in Hnil. exact Hnil. }
  destruct (P_LZSS.roundtrip _ Hnz R2) as (cz & E1 & B1 & _).
  destruct (P_LZSS.string_wrapper _ Hnz R2) as (cz' & E1' & W).
  rewrite E1 in E1'. injection E1' as <-.
  destruct (zn_roundtrip cz B1) as [Z1 Z2].
  exists t, (map Z.to_N cz). split; [exact G|]. split; [unfold lzss_compress; now rewrite E1|].
  split; [exact Z2|].
  unfold lzss_unpack. rewrite Z1. unfold nlen. rewrite !map_length, !nat_N_Z.
  rewrite map_length in W. rewrite W, R1. exact U.
Qed.

(* the storage-mode threshold: the lzss branch exists (and is the default) exactly when it saves at
   least 200 bytes *)
Theorem lzss_stored_iff_saving : forall cd data c, lzss_compress data = Some c ->
  (In (90%N, c) (compressions cd data) <-> (nlen c + 200 <= nlen data)%N)
  /\ (default_compression (compressions cd data) = 90 <-> (nlen c + 200 <= nlen data)%N).
Proof.
  intros cd data c E.
  assert (A : In (90%N, c) (compressions cd data) <-> (nlen c + 200 <= nlen data)%N).
  { split.
    - intros Hin. destruct (select_loop_in _ _ _ _ _ _ Hin) as [_ H]. exact H.
    - intros Hs. unfold compressions. cbn [select_loop]. unfold compress_with at 1.
      change (90 =? 90)%N with true. cbv iota. rewrite E.
      destruct (N.ltb_spec (nlen data) (nlen c + 200)) as [C|_]; [lia|]. now left. }
  split; [exact A|]. unfold default_compression.
  destruct (existsb (fun p : N * list N => (fst p =? 90)%N) (compressions cd data)) eqn:X.
  - apply existsb_exists in X as ((a & c') & Hin & Ha). cbn [fst] in Ha. apply N.eqb_eq in Ha. subst a.
    destruct (select_loop_in _ _ _ _ _ _ Hin) as [Ec Hsz]. unfold compress_with in Ec.
    change (90 =? 90)%N with true in Ec. cbv iota in Ec. rewrite E in Ec. injection Ec as <-. tauto.
  - split; [discriminate|]. intros Hs. apply A in Hs.
    assert (existsb (fun p : N * list N => (fst p =? 90)%N) (compressions cd data) = true) as Y.
    { apply existsb_exists. exists (90%N, c). split; [exact Hs|reflexivity]. }
    congruence.
Qed.
