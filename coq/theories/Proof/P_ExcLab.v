(* C22 -- the label-level code (M_ExcLab.gen / exec_lab) reaches, from every clause position and
   for every kind of exit, the continuation that the structural scheme M_Exc.exec_sch selects;
   hence (P_Exc) the one CPython selects.  Induction on the statement, for every label state:
   the labels a statement allocates are fresh (>= label_counter), the labels it was entered with
   are restored when it is left, and a sub-part generated against the labels L leaves only by
   falling through or by a jump to one of L. *)
From Coq Require Import List Bool Arith Lia.
From CyVerif Require Import Model.M_Exc Model.M_ExcLab Proof.P_Exc.
Import ListNotations.

Scheme cstmt_mind := Induction for cstmt Sort Prop
  with chandlers_mind := Induction for chandlers Sort Prop.
Combined Scheme cstmt_chandlers_ind from cstmt_mind, chandlers_mind.

(* all four current labels were allocated before *)
Definition wf (g : cgs) : Prop :=
  g_err g < g_next g /\ g_ret g < g_next g /\ g_brk g < g_next g /\ g_cont g < g_next g.

(* the labels are the same again after a statement, the counter only grows *)
Definition keeps (g g' : cgs) : Prop :=
  g_err g' = g_err g /\ g_ret g' = g_ret g /\ g_brk g' = g_brk g /\ g_cont g' = g_cont g /\
  g_next g <= g_next g'.

Lemma keeps_refl g : keeps g g.
Proof. unfold keeps; auto. Qed.

Ltac proj_simpl :=
  cbn [g_err g_ret g_brk g_cont g_next set_err set_ret set_brk set_cont restore bump fst snd] in *.

Ltac gen_step1 IH gg :=
  let K := fresh "K" in
  pose proof (IH gg) as K; unfold keeps in K;
  destruct (gen false _ gg) as [?c ?g] eqn:?;
  destruct K as (? & ? & ? & ? & ?); proj_simpl.
Ltac genh_step1 IH gg :=
  let K := fresh "K" in
  pose proof (IH gg) as K; unfold keeps in K;
  destruct (gen_h false _ gg) as [?c ?g] eqn:?;
  destruct K as (? & ? & ? & ? & ?); proj_simpl.
Ltac gen_step IH := match goal with |- context [gen false _ ?gg] => gen_step1 IH gg end.
Ltac genh_step IH := match goal with |- context [gen_h false _ ?gg] => genh_step1 IH gg end.
Ltac keeps_done := unfold keeps; proj_simpl; repeat split; lia.

Lemma gen_keeps :
  (forall s g, keeps g (snd (gen false s g))) /\
  (forall hs g, keeps g (snd (gen_h false hs g))).
Proof.
  apply cstmt_chandlers_ind; intros; cbn [gen gen_h]; try apply keeps_refl.
  - (* CSeq *) gen_step H. gen_step H0. keeps_done.
  - (* CTry *) gen_step H. gen_step H1. genh_step H0. keeps_done.
  - (* CFinally *) gen_step H. do 5 gen_step H0. keeps_done.
  - (* CLoop *) gen_step H. keeps_done.
  - (* CWithScope *) gen_step H. keeps_done.
  - (* CHCons *) gen_step H. genh_step H0. keeps_done.
Qed.

(* ---------- outcomes of the primitive operations ---------- *)
Definition raises (o : oc) : Prop := (exists e, o = ORaise e) \/ o = OCrash.

Lemma reraise_sch_raises fx c : raises (fst (reraise_sch fx c)).
Proof.
  unfold reraise_sch. destruct (cur c) as [[e|]|]; simpl.
  - left; eauto.
  - right; auto.
  - unfold reraise_dynamic. destruct (handled c); simpl; [left; eauto|].
    left. apply (lift_raise_internal_oc c_runtime c).
Qed.

Section Lab.
Variables fx sx : bool.

(* the jump an outcome becomes in code generated against the labels of g *)
Definition tr (g : cgs) (o : oc) : lx :=
  match o with
  | ONorm => XFall
  | ORaise e => XJump (g_err g) (Some e)
  | ORet => XJump (g_ret g) None
  | OBrk => XJump (g_brk g) None
  | OCont => XJump (g_cont g) None
  | OCrash => XCrash
  end.

Lemma err_to_tr g o : raises o -> err_to (g_err g) o = tr g o.
Proof. intros [[e ->] | ->]; reflexivity. Qed.

Definition PS (s : cstmt) : Prop := forall g c, wf g ->
  exec_lab fx sx (fst (gen false s g)) c =
  (tr g (fst (exec_sch fx sx s c)), snd (exec_sch fx sx s c)).

Definition tl_at (n : nat) (g : cgs) : trylabels :=
  mktl n (2 + n) (3 + n) (4 + n) (5 + n) (6 + n) (g_err g) (g_ret g) (g_brk g) (g_cont g).

(* the except clauses of a statement whose labels start at n, followed by its interceptors *)
Definition PH (hs : chandlers) : Prop := forall n gold g e saved c,
  g_err g = 2 + n -> g_ret g = 3 + n -> g_brk g = 5 + n -> g_cont g = 6 + n -> 8 + n <= g_next g ->
  try_exits (tl_at n gold) saved
    (fst (handle_lab fx sx (fst (gen_h false hs g)) e (tl_at n gold) saved c))
    (snd (handle_lab fx sx (fst (gen_h false hs g)) e (tl_at n gold) saved c)) =
  (tr gold (fst (handle_sch fx sx hs e saved c)), snd (handle_sch fx sx hs e saved c)).

Ltac eqb_simpl :=
  repeat match goal with
  | |- context [Nat.eqb ?a ?b] =>
      first [ rewrite (proj2 (Nat.eqb_eq a b)) by lia | rewrite (proj2 (Nat.eqb_neq a b)) by lia ]
  end.

(* destruct the next sub-generation; keep: its label facts and its execution equation *)
Ltac gen_ih IHe :=
  match goal with |- context [gen false ?s ?gg] =>
    let K := fresh "K" in let E := fresh "E" in let X := fresh "X" in
    pose proof (proj1 gen_keeps s gg) as K; unfold keeps in K;
    pose proof (IHe gg) as X;
    destruct (gen false s gg) as [?c ?g] eqn:E;
    destruct K as (? & ? & ? & ? & ?); proj_simpl
  end.
Ltac genh_ih :=
  match goal with |- context [gen_h false ?s ?gg] =>
    let K := fresh "K" in let E := fresh "E" in
    pose proof (proj2 gen_keeps s gg) as K; unfold keeps in K;
    destruct (gen_h false s gg) as [?c ?g] eqn:E;
    destruct K as (? & ? & ? & ? & ?); proj_simpl
  end.
Ltac wf_done := unfold wf in *; proj_simpl; lia.

Ltac tx :=
  repeat (progress (eqb_simpl; unfold fin_relabel;
    cbn [tr try_exits fin_relabel fin_copy t_our_err t_exc_err t_exc_ret t_try_ret t_try_brk t_try_cont
         t_old_err t_old_ret t_old_brk t_old_cont
         f_new_cont f_new_brk f_new_ret f_new_err f_ex_cont f_ex_brk f_ex_ret f_ex_err
         f_old_cont f_old_brk f_old_ret f_old_err
         g_err g_ret g_brk g_cont g_next fst snd andb]; proj_simpl)).

(* bodies of handlers that skip GetException leave by falling through or by return only *)
Lemma trivial_oc : forall s, trivial s = true -> forall c,
  fst (exec_sch fx sx s c) = ONorm \/ fst (exec_sch fx sx s c) = ORet.
Proof.
  induction s; simpl; try discriminate; intros T st; auto.
  apply andb_prop in T. destruct T as [T1 T2].
  specialize (IHs1 T1 st). destruct (exec_sch fx sx s1 st) as [o st1]. simpl in *.
  destruct IHs1 as [-> | ->]; auto.
Qed.

Lemma lab_main : (forall s, PS s) /\ (forall hs, PH hs).
Proof.
  apply cstmt_chandlers_ind; unfold PS, PH.
  - (* CSkip *) reflexivity.
  - (* CLog *) reflexivity.
  - (* CProbe *) reflexivity.
  - (* CRaise *) intros w cz g c W. cbn [gen fst exec_lab exec_sch].
    destruct (lift_do_raise_oc w cz c) as [e He].
    destruct (lift (do_raise w cz) c) as [o q1]. simpl in *. subst o. reflexivity.
  - (* CReraise *) intros g c W. cbn [gen fst exec_lab exec_sch].
    pose proof (reraise_sch_raises fx c) as R.
    destruct (reraise_sch fx c) as [o q1]. simpl in *. rewrite err_to_tr; auto.
  - (* CSeq *) intros a IHa b IHb g c W. cbn [gen exec_sch].
    gen_ih IHa. gen_ih IHb. cbn [exec_lab]. rewrite X by exact W.
    destruct (exec_sch fx sx a c) as [o q1]. cbn [fst snd].
    destruct o; cbn [tr]; try reflexivity.
    rewrite X0 by wf_done. destruct (exec_sch fx sx b q1) as [o2 q2]. cbn [fst snd].
    destruct o2; cbn [tr]; congruence.
  - (* CTry *) intros body IHb hs IHh orelse IHo g c W. cbn [gen exec_sch].
    set (n := g_next g) in *.
    gen_ih IHb. gen_ih IHo.
    pose proof (IHh n g (set_err (2 + n) g1)) as XH.
    genh_ih. cbn [exec_lab]. rewrite X by wf_done.
    destruct (exec_sch fx sx body c) as [o q1]. cbn [fst snd].
    remember (if sx then top c else handled c) as saved eqn:Esv. clear Esv.
    destruct o; cbn [tr g_err g_ret g_brk g_cont].
    + (* the body completed: else clause *)
      rewrite X0 by wf_done. destruct (exec_sch fx sx orelse q1) as [o2 q2]. cbn [fst snd].
      destruct o2; tx; reflexivity.
    + (* exception in the body: the except clauses *)
      tx.
      specialize (XH e saved q1). unfold tl_at in XH.
      destruct (handle_lab fx sx c2 e _ saved q1) as [x3 q4] eqn:EH.
      cbn [fst snd] in XH. rewrite XH by lia.
      destruct (handle_sch fx sx hs e saved q1); reflexivity.
    + tx; reflexivity.
    + tx; reflexivity.
    + tx; reflexivity.
    + reflexivity.
  - (* CFinally *) intros herr body IHb fin IHf g c W. cbn [gen exec_sch].
    destruct W as (W1 & W2 & W3 & W4). set (n := g_next g) in *.
    gen_ih IHb. gen_ih IHf.
    set (m := g_next g1) in *.
    gen_ih IHf. gen_ih IHf. gen_ih IHf. gen_ih IHf.
    cbn [exec_lab]. rewrite X by (destruct herr; wf_done).
    destruct (exec_sch fx sx body c) as [o q1]. cbn [fst snd].
    destruct o; cbn [tr g_err g_ret g_brk g_cont].
    + (* normal exit *)
      rewrite X0 by wf_done. destruct (exec_sch fx sx fin q1) as [o2 q2]. cbn [fst snd].
      destruct o2; reflexivity.
    + (* exception exit *)
      destruct herr; tx.
      * rewrite X1 by wf_done.
        destruct (exec_sch fx sx fin (set_cur (Some (Some e)) (set_top (Some e) q1))) as [o2 q2].
        cbn [fst snd]. destruct o2; tx; try reflexivity.
        destruct (cur q2) as [[e'|]|]; reflexivity.
      * reflexivity.
    + (* return *)
      destruct herr; tx; rewrite X4 by wf_done;
        destruct (exec_sch fx sx fin q1) as [o2 q2]; destruct o2; unfold fin_copy; cbn [tr fst snd after]; proj_simpl; congruence.
    + (* break *)
      destruct herr; tx; rewrite X3 by wf_done;
        destruct (exec_sch fx sx fin q1) as [o2 q2]; destruct o2; unfold fin_copy; cbn [tr fst snd after]; proj_simpl; congruence.
    + (* continue *)
      destruct herr; tx; rewrite X2 by wf_done;
        destruct (exec_sch fx sx fin q1) as [o2 q2]; destruct o2; unfold fin_copy; cbn [tr fst snd after]; proj_simpl; congruence.
    + reflexivity.
  - (* CLoop *) intros k body IHb g c W. cbn [gen exec_sch].
    destruct W as (W1 & W2 & W3 & W4). set (n := g_next g) in *.
    gen_ih IHb. cbn [fst exec_lab].
    revert c. induction k as [|k IHk]; intros c; [reflexivity|].
    rewrite X by wf_done.
    destruct (exec_sch fx sx body c) as [o q1]. cbn [fst snd].
    destruct o; tx; try reflexivity; apply IHk.
  - (* CReturn *) reflexivity.
  - (* CBreak *) reflexivity.
  - (* CContinue *) reflexivity.
  - (* CDel *) reflexivity.
  - (* CWithScope *) intros k body IHb g c W. cbn [gen exec_sch].
    gen_ih IHb. cbn [fst exec_lab]. rewrite X by wf_done.
    destruct (exec_sch fx sx body _) as [o q1]. cbn [fst snd].
    destruct o; reflexivity.
  - (* CExitExc *) intros k x g c W. cbn [gen fst exec_lab exec_sch].
    destruct x as [| |m]; try reflexivity.
    match goal with |- context [reraise_sch fx ?st] =>
      pose proof (reraise_sch_raises fx st) as R; destruct (reraise_sch fx st) as [o q1] end.
    simpl in *. rewrite err_to_tr; auto.
  - (* CExitNone *) intros k x g c W. cbn [gen fst exec_lab exec_sch].
    destruct (wx c); [|reflexivity].
    destruct x as [| |m]; reflexivity.
  - (* CHNil *) intros n gold g e saved c G1 G2 G3 G4 G5.
    cbn [gen_h fst snd handle_lab handle_sch]. unfold tl_at. tx. reflexivity.
  - (* CHCons *) intros pat name body IHb tl IHt n gold g e saved c G1 G2 G3 G4 G5.
    cbn [gen_h handle_sch].
    set (m := g_next g) in *.
    gen_ih IHb.
    pose proof (IHt n gold (restore g g0) e saved c) as XT.
    genh_ih. cbn [fst handle_lab].
    destruct (pat_matches pat (cls_of c e)).
    + destruct ((match name with Some _ => true | None => false end) || negb (trivial body)) eqn:T.
      * rewrite X by wf_done.
        destruct (exec_sch fx sx body _) as [o q1]. cbn [fst snd].
        unfold tl_at. destruct o; tx; reflexivity.
      * rewrite X by wf_done.
        apply orb_false_elim in T. destruct T as [_ T]. apply negb_false_iff in T.
        pose proof (trivial_oc body T c) as TO.
        destruct (exec_sch fx sx body c) as [o q1]. cbn [fst snd] in *.
        unfold tl_at. destruct TO as [-> | ->]; tx; reflexivity.
    + apply XT; proj_simpl; lia.
Qed.
End Lab.

(* ---------- the statements used by Prop/C22.v ---------- *)

(* every statement, every label state, every machine state: the generated label code leaves by
   exactly the label that stands for the outcome the structural scheme computes *)
Theorem gen_selects_scheme_continuation : forall fx sx s g c, wf g ->
  exec_lab fx sx (fst (gen false s g)) c =
  (tr g (fst (exec_sch fx sx s c)), snd (exec_sch fx sx s c)).
Proof. intros fx sx s g c W. apply (proj1 (lab_main fx sx) s g c W). Qed.

(* the labels current before a statement are current again after it *)
Theorem gen_restores_labels : forall s g,
  let g' := snd (gen false s g) in
  g_err g' = g_err g /\ g_ret g' = g_ret g /\ g_brk g' = g_brk g /\ g_cont g' = g_cont g /\
  g_next g <= g_next g'.
Proof. intros s g. apply (proj1 gen_keeps s g). Qed.

Lemma untr_tr o : untr g_fun (tr g_fun o) = o.
Proof. destruct o; reflexivity. Qed.

Lemma wf_fun : wf g_fun.
Proof. unfold wf, g_fun; simpl; lia. Qed.

(* whole functions, with-blocks included *)
Theorem run_lab_eq_run_sch : forall fx sx s h t b,
  run_lab false fx sx s h t b = run_sch fx sx s h t b.
Proof.
  intros fx sx s h t b. unfold run_lab, run_sch.
  rewrite (gen_selects_scheme_continuation fx sx (desugar s) g_fun _ wf_fun).
  rewrite untr_tr. destruct (exec_sch fx sx (desugar s) (init_state h t b)); reflexivity.
Qed.

Theorem lab_matches_reference : forall sx s h t b,
  same_obs (run_ref s h t b) (run_lab false true sx s h t b).
Proof. intros. rewrite run_lab_eq_run_sch. apply repaired_matches_reference. Qed.

Theorem lab_current_matches_reference_unless_crash : forall sx s h t b,
  fst (run_lab false false sx s h t b) <> OCrash ->
  same_obs (run_ref s h t b) (run_lab false false sx s h t b).
Proof.
  intros sx s h t b NC. rewrite run_lab_eq_run_sch in *.
  apply current_matches_reference_unless_crash; auto.
Qed.

(* an exit taken in the else clause never reaches the except clauses of its own statement:
   whatever they are, the exception arrives at the label that was the error label before the
   statement, the return at the outer return label ... *)
Theorem else_exits_bypass_own_handlers : forall fx sx body hs orelse g c c1 o c2,
  wf g ->
  exec_sch fx sx body c = (ONorm, c1) -> exec_sch fx sx orelse c1 = (o, c2) ->
  o <> ONorm -> o <> OCrash ->
  exec_lab fx sx (fst (gen false (CTry body hs orelse) g)) c =
  (tr g o, set_top (if sx then top c else handled c) c2).
Proof.
  intros fx sx body hs orelse g c c1 o c2 W Eb Eo N1 N2.
  rewrite gen_selects_scheme_continuation by exact W.
  cbn [exec_sch]. rewrite Eb, Eo. destruct o; try congruence; reflexivity.
Qed.

(* sensitivity: with the error label switched only after the else clause was generated, an
   exception raised in an else clause is caught by the statement's own matching handler *)
Definition else_raises_matching : stmt :=
  STry (SLog 1) (HCons (Some 3) None (SLog 2) HNil) (SRaise (RNew 3) NoCause).

Theorem late_switch_refuted :
  exists s h t b,
    fst (run_lab true true true s h t b) = ONorm /\ fst (run_ref s h t b) = ORaise 0 /\
    fst (run_lab false true true s h t b) = ORaise 0.
Proof. exists else_raises_matching, [], None, None. vm_compute. auto. Qed.
