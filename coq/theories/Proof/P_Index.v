(* Proofs about Model/M_Index.v: integer indexing and two-bound slicing fast paths vs CPython. *)
From Coq Require Import ZArith List Bool Lia ZifyBool.
From CyVerif Require Import Lib.CInt Model.M_Index.
Open Scope Z_scope.
Ltac Zify.zify_post_hook ::= Z.to_euclidean_division_equations.

(* ---------------------------------------------------------------------------------------- *)
(* literals                                                                                  *)

Lemma SSZ_MIN_eq : SSZ_MIN = -9223372036854775808. Proof. reflexivity. Qed.
Lemma SSZ_MAX_eq : SSZ_MAX = 9223372036854775807. Proof. reflexivity. Qed.
Lemma ssz_unfold v :
  ssz v = (v + 9223372036854775808) mod 18446744073709551616 - 9223372036854775808.
Proof. reflexivity. Qed.
Lemma valid_unfold i l :
  is_valid_index i l = (i mod 18446744073709551616 <? l mod 18446744073709551616).
Proof. reflexivity. Qed.
Lemma in_sszb_unfold v :
  in_sszb v = ((-9223372036854775808 <=? v) && (v <=? 9223372036854775807)).
Proof. reflexivity. Qed.
Lemma clamp_unfold z :
  clamp_ssz z = Z.max (-9223372036854775808) (Z.min 9223372036854775807 z).
Proof. reflexivity. Qed.

Ltac lits :=
  unfold in_ssz in *;
  rewrite ?SSZ_MIN_eq, ?SSZ_MAX_eq, ?ssz_unfold, ?valid_unfold, ?in_sszb_unfold, ?clamp_unfold in *.

(* case-split every `if`, innermost conditions first (so that no hypothesis hides an `if`) *)
Ltac brk1 :=
  match goal with
  | |- context [if ?c then _ else _] =>
      lazymatch c with
      | context [if _ then _ else _] => fail
      | _ => destruct c eqn:?
      end
  end.
Ltac brk := repeat brk1.

Ltac fin :=
  try reflexivity; try discriminate; try lia;
  try (f_equal; lia); try (exfalso; lia).

Lemma ssz_id v : in_ssz v -> ssz v = v.
Proof. intros H. lits. lia. Qed.

(* i + n with i < 0 <= n never leaves the Py_ssize_t range: the wrap-around addition of the
   helpers cannot overflow, PY_SSIZE_T_MIN included *)
Lemma index_add_no_overflow n i :
  0 <= n <= SSZ_MAX -> in_ssz i -> i < 0 -> in_ssz (i + n) /\ ssz (i + n) = i + n.
Proof. intros Hn Hi Hneg. lits. lia. Qed.

Lemma valid_index_spec i n :
  in_ssz i -> 0 <= n <= SSZ_MAX -> is_valid_index i n = ((0 <=? i) && (i <? n)).
Proof. intros Hi Hn. lits. lia. Qed.

(* the transcription of list_subscript & co. is the mathematical specification *)
Lemma cpython_subscript_eq n i :
  0 <= n <= SSZ_MAX -> cpython_subscript n i = py_index n i.
Proof.
  intros Hn. unfold cpython_subscript, py_index. lits.
  brk; fin.
Qed.

(* ---------------------------------------------------------------------------------------- *)
(* the helpers on a Py_ssize_t index                                                         *)

(* the index is one the directives leave defined: with boundscheck off the program promises an
   in-range index (after wrap-around if that is on) *)
Definition defined (wa bc : bool) (n i : Z) : Prop :=
  bc = true \/ (if wa then - n <= i < n else 0 <= i < n).
(* ... and one on which the directives keep Python semantics: wraparound on, or non-negative *)
Definition pythonic (wa : bool) (i : Z) : Prop := wa = true \/ 0 <= i.

Section Helpers.
  Variables n i : Z.
  Hypothesis Hn : 0 <= n <= SSZ_MAX.
  Hypothesis Hi : in_ssz i.

  Lemma listtuple_fast_eq wa bc :
    defined wa bc n i -> pythonic wa i ->
    run n (getitem_listtuple_fast n i wa bc) = py_index n i.
  Proof.
    unfold defined, pythonic, getitem_listtuple_fast, run, py_index. intros D P. lits.
    destruct wa, bc; cbn [andb orb negb]; brk; fin.
  Qed.

  Lemma unicode_fast_eq wa bc :
    defined wa bc n i -> pythonic wa i ->
    run n (getitem_unicode_fast n i wa bc) = py_index n i.
  Proof.
    unfold defined, pythonic, getitem_unicode_fast, run, py_index. intros D P. lits.
    destruct wa, bc; cbn [andb orb negb]; brk; fin.
  Qed.

  Lemma bytes_fast_eq wa bc :
    defined wa bc n i -> pythonic wa i ->
    run n (getitem_bytes_fast n i wa bc) = py_index n i.
  Proof.
    unfold defined, pythonic, getitem_bytes_fast, run, py_index. intros D P. lits.
    destruct wa, bc; cbn [andb orb negb]; brk; fin.
  Qed.

  Lemma list_set_eq wa bc :
    defined wa bc n i -> pythonic wa i ->
    run n (let j := if negb wa then i else if 0 <=? i then i else ssz (i + n) in
           if negb bc || is_valid_index j n then Fast j else Generic i) = py_index n i.
  Proof.
    unfold defined, pythonic, run, py_index. intros D P. lits.
    destruct wa, bc; cbn [andb orb negb]; brk; fin.
  Qed.

  (* C slot: correct; with the repair also the dispatcher slot *)
  Lemma sq_path_eq fx disp wa :
    pythonic wa i -> (disp = true -> fx = true) ->
    run n (sq_path fx disp n i wa) = py_index n i.
  Proof.
    unfold pythonic, sq_path, run, sq_slot, py_index. intros P F. lits.
    destruct wa, fx, disp; cbn [andb orb negb]; try (specialize (F eq_refl); discriminate);
      brk; fin.
  Qed.

  (* memory safety: with boundscheck on, whatever wraparound is and whatever the index is, the
     direct item-array access stays inside [0, n) *)
  Lemma listtuple_fast_in_bounds wa j :
    getitem_listtuple_fast n i wa true = Fast j -> 0 <= j < n.
  Proof.
    unfold getitem_listtuple_fast. lits. destruct wa; cbn [andb orb negb]; brk;
      intros E; inversion E; subst; lia.
  Qed.

  Lemma unicode_fast_in_bounds wa j :
    getitem_unicode_fast n i wa true = Fast j -> 0 <= j < n.
  Proof.
    unfold getitem_unicode_fast. lits. destruct wa; cbn [andb orb negb]; brk;
      intros E; inversion E; subst; lia.
  Qed.

  Lemma bytes_fast_in_bounds wa j :
    getitem_bytes_fast n i wa true = Fast j -> 0 <= j < n.
  Proof.
    unfold getitem_bytes_fast. lits. destruct wa; cbn [andb orb negb]; brk;
      intros E; inversion E; subst; lia.
  Qed.

  Lemma list_set_in_bounds wa j :
    (let j := if negb wa then i else if 0 <=? i then i else ssz (i + n) in
     if negb true || is_valid_index j n then Fast j else Generic i) = Fast j -> 0 <= j < n.
  Proof.
    lits. destruct wa; cbn [andb orb negb]; brk; intros E; inversion E; subst; lia.
  Qed.
End Helpers.

(* ---------------------------------------------------------------------------------------- *)
(* the macro level: C index of any integer type                                              *)

Lemma pow2_le_mono a b : 0 <= a <= b -> 2 ^ a <= 2 ^ b.
Proof. intros. apply Z.pow_le_mono_r; lia. Qed.

Lemma fits_true_in_ssz tw ts v :
  1 <= tw -> in_range tw ts v -> fits_ssz tw ts v = true -> in_ssz v.
Proof.
  intros Hw [Hlo Hhi] F. unfold fits_ssz in F. unfold in_ssz. rewrite SSZ_MIN_eq, SSZ_MAX_eq in *.
  unfold min_int, max_int in *.
  destruct (Z.ltb_spec tw 64) as [Hlt|Hge].
  - assert (P1 : 2 ^ (tw - 1) <= 2 ^ 62) by (apply pow2_le_mono; lia).
    assert (P2 : 2 ^ tw <= 2 ^ 63) by (apply pow2_le_mono; lia).
    pose proof (pow2_pos (tw - 1) ltac:(lia)) as P3.
    change (2 ^ 62) with 4611686018427387904 in P1.
    change (2 ^ 63) with 9223372036854775808 in P2.
    destruct ts; lia.
  - cbn [orb] in F. destruct (Z.eqb_spec tw 64) as [->|Hne].
    + change (2 ^ (64 - 1)) with 9223372036854775808 in *.
      change (2 ^ 64) with 18446744073709551616 in *.
      destruct ts; lia.
    + pose proof (pow2_pos (tw - 1) ltac:(lia)) as P3. destruct ts; lia.
Qed.

Lemma fits_false_not_ssz tw ts v :
  1 <= tw -> in_range tw ts v -> fits_ssz tw ts v = false -> ~ in_ssz v.
Proof.
  intros Hw [Hlo Hhi] F. unfold fits_ssz in F. unfold in_ssz. rewrite SSZ_MIN_eq, SSZ_MAX_eq in *.
  unfold min_int, max_int in *.
  destruct (Z.ltb_spec tw 64) as [Hlt|Hge]; [discriminate|].
  cbn [orb] in F. destruct (Z.eqb_spec tw 64) as [->|Hne].
  - change (2 ^ (64 - 1)) with 9223372036854775808 in *. destruct ts; lia.
  - pose proof (pow2_pos (tw - 1) ltac:(lia)) as P3. destruct ts; lia.
Qed.

Lemma py_index_out_of_ssz n v :
  0 <= n <= SSZ_MAX -> ~ in_ssz v -> py_index n v = IndexError.
Proof. intros Hn Hv. unfold py_index. lits. brk; fin. Qed.

Lemma unsigned_nonneg tw v : in_range tw false v -> 0 <= v.
Proof. unfold in_range, min_int. lia. Qed.

(* the wraparound flag the compiler passes under the directive wraparound=dwa keeps Python
   semantics for every value of an index expression of signedness ts that is / is not a
   non-negative literal *)
Definition idx_ok (tw : Z) (ts cn : bool) (v : Z) : Prop :=
  1 <= tw /\ in_range tw ts v /\ (cn = true -> 0 <= v).

Lemma pythonic_flag tw ts cn v : idx_ok tw ts cn v -> pythonic (wa_flag true ts cn) v.
Proof.
  intros (Hw & Hr & Hc). unfold pythonic, wa_flag.
  destruct ts, cn; cbn [andb negb]; auto; right; apply (unsigned_nonneg tw); exact Hr.
Qed.

Section Macro.
  Variables (fx : bool) (k : kind) (tw : Z) (ts : bool) (n v : Z).
  Hypothesis Hn : 0 <= n <= SSZ_MAX.
  Hypothesis Hw : 1 <= tw.
  Hypothesis Hv : in_range tw ts v.
  Hypothesis Hfx : k = KObjSeqPy -> fx = true.

  Lemma getitem_int_gen wa bc :
    defined wa bc n v -> pythonic wa v ->
    run n (getitem_int fx k tw ts n v wa bc) = py_index n v.
  Proof.
    intros D P. unfold getitem_int, getitem_generic_fast.
    destruct (fits_ssz tw ts v) eqn:F.
    - pose proof (fits_true_in_ssz _ _ _ Hw Hv F) as Hs. rewrite (ssz_id _ Hs).
      destruct k; try reflexivity;
        try (apply listtuple_fast_eq; assumption);
        try (apply unicode_fast_eq; assumption);
        try (apply bytes_fast_eq; assumption).
      + apply sq_path_eq; try assumption. discriminate.
      + apply sq_path_eq; try assumption. intros _. apply Hfx. reflexivity.
    - pose proof (fits_false_not_ssz _ _ _ Hw Hv F) as Hs.
      rewrite (py_index_out_of_ssz _ _ Hn Hs). destruct k; cbn [run]; try reflexivity;
        apply (py_index_out_of_ssz _ _ Hn Hs).
  Qed.

  Lemma setitem_int_gen wa bc :
    defined wa bc n v -> pythonic wa v ->
    run n (setitem_int fx k tw ts n v wa bc) = py_index n v.
  Proof.
    intros D P. unfold setitem_int.
    destruct (fits_ssz tw ts v) eqn:F.
    - pose proof (fits_true_in_ssz _ _ _ Hw Hv F) as Hs. rewrite (ssz_id _ Hs).
      destruct k; try reflexivity;
        try (apply unicode_fast_eq; assumption);
        try (apply list_set_eq; assumption).
      + apply sq_path_eq; try assumption. discriminate.
      + apply sq_path_eq; try assumption. intros _. apply Hfx. reflexivity.
    - pose proof (fits_false_not_ssz _ _ _ Hw Hv F) as Hs.
      rewrite (py_index_out_of_ssz _ _ Hn Hs). destruct k; cbn [run]; try reflexivity;
        apply (py_index_out_of_ssz _ _ Hn Hs).
  Qed.

  Lemma delitem_int_gen wa :
    pythonic wa v ->
    run n (delitem_int fx k tw ts n v wa) = py_index n v.
  Proof.
    intros P. unfold delitem_int.
    destruct (fits_ssz tw ts v) eqn:F.
    - pose proof (fits_true_in_ssz _ _ _ Hw Hv F) as Hs. rewrite (ssz_id _ Hs).
      destruct k; try reflexivity;
        try (apply sq_path_eq; try assumption; discriminate).
      apply sq_path_eq; try assumption. intros _. apply Hfx. reflexivity.
    - pose proof (fits_false_not_ssz _ _ _ Hw Hv F) as Hs.
      rewrite (py_index_out_of_ssz _ _ Hn Hs). destruct k; cbn [run]; try reflexivity;
        apply (py_index_out_of_ssz _ _ Hn Hs).
  Qed.

End Macro.

Section MacroSafety.
  Variables (fx : bool) (k : kind) (tw : Z) (ts : bool) (n v : Z).
  Hypothesis Hn : 0 <= n <= SSZ_MAX.
  Hypothesis Hw : 1 <= tw.
  Hypothesis Hv : in_range tw ts v.

  (* fast_access_in_bounds: boundscheck on => every direct item access is inside the array *)
  Lemma getitem_fast_in_bounds wa j :
    fast_index (getitem_int fx k tw ts n v wa true) = Some j -> 0 <= j < n.
  Proof.
    unfold getitem_int, getitem_generic_fast, sq_path.
    destruct (fits_ssz tw ts v) eqn:F.
    - pose proof (fits_true_in_ssz _ _ _ Hw Hv F) as Hs. rewrite (ssz_id _ Hs).
      destruct k; cbn [fast_index]; try discriminate;
        try (destruct (getitem_listtuple_fast n v wa true) eqn:E; cbn [fast_index]; try discriminate;
             intros X; inversion X; subst; eapply listtuple_fast_in_bounds; eassumption);
        try (destruct (getitem_unicode_fast n v wa true) eqn:E; cbn [fast_index]; try discriminate;
             intros X; inversion X; subst; eapply unicode_fast_in_bounds; eassumption);
        try (destruct (getitem_bytes_fast n v wa true) eqn:E; cbn [fast_index]; try discriminate;
             intros X; inversion X; subst; eapply bytes_fast_in_bounds; eassumption);
        brk; cbn [fast_index]; discriminate.
    - destruct k; cbn [fast_index]; discriminate.
  Qed.

  Lemma setitem_fast_in_bounds wa j :
    fast_index (setitem_int fx k tw ts n v wa true) = Some j -> 0 <= j < n.
  Proof.
    unfold setitem_int, sq_path.
    destruct (fits_ssz tw ts v) eqn:F.
    - pose proof (fits_true_in_ssz _ _ _ Hw Hv F) as Hs. rewrite (ssz_id _ Hs).
      destruct k; cbn [fast_index]; try discriminate;
        try (destruct (getitem_unicode_fast n v wa true) eqn:E; cbn [fast_index]; try discriminate;
             intros X; inversion X; subst; eapply unicode_fast_in_bounds; eassumption);
        try (match goal with |- fast_index ?a = _ -> _ => destruct a eqn:E end;
             cbn [fast_index]; try discriminate;
             intros X; inversion X; subst; eapply (list_set_in_bounds n v Hn Hs); eassumption);
        brk; cbn [fast_index]; discriminate.
    - destruct k; cbn [fast_index]; discriminate.
  Qed.

  Lemma delitem_no_fast wa : fast_index (delitem_int fx k tw ts n v wa) = None.
  Proof. unfold delitem_int, sq_path. destruct k; brk; reflexivity. Qed.
End MacroSafety.

(* default directives *)
Theorem getitem_eq fx k tw ts cn n v :
  0 <= n <= SSZ_MAX -> idx_ok tw ts cn v -> (k = KObjSeqPy -> fx = true) ->
  run n (getitem_int fx k tw ts n v (wa_flag true ts cn) true) = py_index n v.
Proof.
  intros Hn Hok Hfx. pose proof (pythonic_flag _ _ _ _ Hok) as P. destruct Hok as (Hw & Hr & _).
  apply getitem_int_gen; try assumption. left. reflexivity.
Qed.

Theorem setitem_eq fx k tw ts cn n v :
  0 <= n <= SSZ_MAX -> idx_ok tw ts cn v -> (k = KObjSeqPy -> fx = true) ->
  run n (setitem_int fx k tw ts n v (wa_flag true ts cn) true) = py_index n v.
Proof.
  intros Hn Hok Hfx. pose proof (pythonic_flag _ _ _ _ Hok) as P. destruct Hok as (Hw & Hr & _).
  apply setitem_int_gen; try assumption. left. reflexivity.
Qed.

Theorem delitem_eq fx k tw ts cn n v :
  0 <= n <= SSZ_MAX -> idx_ok tw ts cn v -> (k = KObjSeqPy -> fx = true) ->
  run n (delitem_int fx k tw ts n v (wa_flag true ts cn)) = py_index n v.
Proof.
  intros Hn Hok Hfx. pose proof (pythonic_flag _ _ _ _ Hok) as P. destruct Hok as (Hw & Hr & _).
  apply delitem_int_gen; assumption.
Qed.

(* the sequence-slot path through typeobject.c's dispatcher wraps twice *)
Theorem seq_subclass_double_wrap_refuted :
  exists n v, 0 <= n <= SSZ_MAX /\ idx_ok 64 true false v /\
    run n (getitem_int false KObjSeqPy 64 true n v (wa_flag true true false) true) = Elem 0 /\
    run n (setitem_int false KObjSeqPy 64 true n v (wa_flag true true false) true) = Elem 0 /\
    run n (delitem_int false KObjSeqPy 64 true n v (wa_flag true true false)) = Elem 0 /\
    py_index n v = IndexError.
Proof.
  exists 1, (-2). unfold idx_ok, in_range. vm_compute. intuition congruence.
Qed.

(* ---------------------------------------------------------------------------------------- *)
(* slices                                                                                    *)

Lemma py_slice_in_bounds n bs be f c :
  0 <= n -> py_slice n bs be = Sel f c -> 0 <= f /\ 0 <= c /\ f + c <= n.
Proof.
  intros Hn. unfold py_slice, py_slice_adjust, py_adjust_bound, norm_sel.
  generalize (py_unpack_start bs) (py_unpack_stop be). intros a b.
  brk; intros E; inversion E; subst; lia.
Qed.

Lemma py_slice_total n bs be : exists f c, py_slice n bs be = Sel f c.
Proof.
  unfold py_slice, py_slice_adjust, norm_sel.
  destruct (_ <=? 0); eauto.
Qed.

Lemma clamp_id v : in_ssz v -> clamp_ssz v = v.
Proof. intros H. lits. lia. Qed.

Section Slices.
  Variables n a b : Z.
  Hypothesis Hn : 0 <= n <= SSZ_MAX.
  Hypothesis Ha : in_ssz a.
  Hypothesis Hb : in_ssz b.

  Lemma unicode_substring_eq : unicode_substring n a b = py_slice n (BCInt a) (BCInt b).
  Proof.
    unfold unicode_substring, py_slice, py_slice_adjust, py_adjust_bound, norm_sel,
      py_unpack_start, py_unpack_stop.
    rewrite (clamp_id a Ha), (clamp_id b Hb). lits.
    brk; fin.
  Qed.

  Lemma listtuple_getslice_fixed_eq :
    listtuple_getslice true n a b = py_slice n (BCInt a) (BCInt b).
  Proof.
    unfold listtuple_getslice, crop_slice, py_slice, py_slice_adjust, py_adjust_bound, norm_sel,
      py_unpack_start, py_unpack_stop.
    rewrite (clamp_id a Ha), (clamp_id b Hb). lits. cbn [andb].
    brk; fin.
  Qed.

  (* the code as it is: correct unless stop' - start' leaves the Py_ssize_t range *)
  Definition crop_overflows : Prop := 0 <= a /\ b < 0 /\ b + n - a < SSZ_MIN.

  Lemma listtuple_getslice_current_partial :
    ~ crop_overflows -> listtuple_getslice false n a b = py_slice n (BCInt a) (BCInt b).
  Proof.
    unfold crop_overflows, listtuple_getslice, crop_slice, py_slice, py_slice_adjust,
      py_adjust_bound, norm_sel, py_unpack_start, py_unpack_stop.
    rewrite (clamp_id a Ha), (clamp_id b Hb). lits. cbn [andb]. intros NO.
    brk; fin.
  Qed.

  (* when it does overflow the helper copies from outside the item array *)
  Lemma listtuple_getslice_current_overflow :
    crop_overflows -> exists f c, listtuple_getslice false n a b = SliceOOB f c.
  Proof.
    unfold crop_overflows, listtuple_getslice, crop_slice. lits. cbn [andb]. intros O.
    brk; try (eexists; eexists; reflexivity); exfalso; lia.
  Qed.
End Slices.

Theorem crop_slice_refuted :
  exists n a b, 0 <= n <= SSZ_MAX /\ in_ssz a /\ in_ssz b /\
    listtuple_getslice false n a b = SliceOOB SSZ_MAX (n + 1) /\
    py_slice n (BCInt a) (BCInt b) = Sel 0 0.
Proof.
  exists 5, SSZ_MAX, SSZ_MIN. unfold in_ssz. vm_compute. intuition congruence.
Qed.

(* bounds as the compiler sees them *)
Definition bound_ok (b : bound) : Prop :=
  match b with BCInt v => in_ssz v | _ => True end.
Definition bound_fits (b : bound) : Prop :=
  match b with BPyInt z => in_ssz z | _ => True end.

Lemma coerce_start fl b :
  bound_ok b -> (fl = true \/ bound_fits b) ->
  exists s, coerce_bound fl 0 b = Some s /\ in_ssz s /\ py_unpack_start b = s.
Proof.
  intros Ok Fit. destruct b as [|v| |z]; cbn [coerce_bound py_unpack_start bound_ok bound_fits] in *.
  - exists 0. split; [reflexivity|]. split; [|reflexivity]. lits; lia.
  - exists v. split; [reflexivity|]. split; [assumption|]. apply clamp_id. assumption.
  - exists 0. split; [reflexivity|]. split; [|reflexivity]. lits; lia.
  - destruct (in_sszb z) eqn:E.
    + assert (Hz : in_ssz z) by (lits; lia).
      exists z. split; [reflexivity|]. split; [assumption|]. apply clamp_id. assumption.
    + destruct Fit as [->|Fz]; [|exfalso; lits; lia].
      exists (clamp_ssz z). split; [reflexivity|]. split; [|reflexivity]. lits; lia.
Qed.

Lemma coerce_stop fl b :
  bound_ok b -> (fl = true \/ bound_fits b) ->
  exists s, coerce_bound fl SSZ_MAX b = Some s /\ in_ssz s /\ py_unpack_stop b = s.
Proof.
  intros Ok Fit. destruct b as [|v| |z]; cbn [coerce_bound py_unpack_stop bound_ok bound_fits] in *.
  - exists SSZ_MAX. split; [reflexivity|]. split; [|reflexivity]. lits; lia.
  - exists v. split; [reflexivity|]. split; [assumption|]. apply clamp_id. assumption.
  - exists SSZ_MAX. split; [reflexivity|]. split; [|reflexivity]. lits; lia.
  - destruct (in_sszb z) eqn:E.
    + assert (Hz : in_ssz z) by (lits; lia).
      exists z. split; [reflexivity|]. split; [assumption|]. apply clamp_id. assumption.
    + destruct Fit as [->|Fz]; [|exfalso; lits; lia].
      exists (clamp_ssz z). split; [reflexivity|]. split; [|reflexivity]. lits; lia.
Qed.

Lemma py_slice_cint n bs be s e :
  in_ssz s -> in_ssz e -> py_unpack_start bs = s -> py_unpack_stop be = e ->
  py_slice n (BCInt s) (BCInt e) = py_slice n bs be.
Proof.
  intros Hs He Es Ee. unfold py_slice. cbn [py_unpack_start py_unpack_stop].
  rewrite (clamp_id s Hs), (clamp_id e He), Es, Ee. reflexivity.
Qed.

Lemma py_slice_pos_cint n bs be s e :
  in_ssz s -> in_ssz e -> py_unpack_start bs = s -> py_unpack_stop be = e ->
  py_slice_pos n (BCInt s) (BCInt e) = py_slice_pos n bs be.
Proof.
  intros Hs He Es Ee. unfold py_slice_pos. cbn [py_unpack_start py_unpack_stop].
  rewrite (clamp_id s Hs), (clamp_id e He), Es, Ee. reflexivity.
Qed.

(* base[start:stop] as generated = CPython, for every static base type, every length, every
   combination of absent / C / None / int-object bounds -- for the repaired helpers *)
Theorem slice_node_eq fc fl k n bs be :
  0 <= n <= SSZ_MAX -> bound_ok bs -> bound_ok be ->
  (fl = true \/ (bound_fits bs /\ bound_fits be)) ->
  (fc = true \/ (k <> KList /\ k <> KTuple)) ->
  slice_node fc fl k n bs be = py_slice n bs be.
Proof.
  intros Hn Os Oe Fit Fc.
  assert (Fs : fl = true \/ bound_fits bs) by tauto.
  assert (Fe : fl = true \/ bound_fits be) by tauto.
  destruct (coerce_start fl bs Os Fs) as (s & Cs & Hs & Us).
  destruct (coerce_stop fl be Oe Fe) as (e & Ce & He & Ue).
  unfold slice_node. rewrite Cs, Ce.
  destruct k; try reflexivity.
  - destruct Fc as [->|[X _]]; [|congruence].
    rewrite (listtuple_getslice_fixed_eq n s e Hn Hs He). apply py_slice_cint; assumption.
  - destruct Fc as [->|[_ X]]; [|congruence].
    rewrite (listtuple_getslice_fixed_eq n s e Hn Hs He). apply py_slice_cint; assumption.
  - rewrite (unicode_substring_eq n s e Hn Hs He). apply py_slice_cint; assumption.
  - apply py_slice_cint; assumption.
  - apply py_slice_cint; assumption.
Qed.

(* the tree as it is: list/tuple need the no-overflow side condition on the coerced bounds *)
Theorem slice_node_current_partial k n bs be :
  0 <= n <= SSZ_MAX -> bound_ok bs -> bound_ok be -> bound_fits bs -> bound_fits be ->
  ((k = KList \/ k = KTuple) ->
     ~ crop_overflows n (py_unpack_start bs) (py_unpack_stop be)) ->
  slice_node false false k n bs be = py_slice n bs be.
Proof.
  intros Hn Os Oe Fs Fe NO.
  destruct (coerce_start false bs Os (or_intror Fs)) as (s & Cs & Hs & Us).
  destruct (coerce_stop false be Oe (or_intror Fe)) as (e & Ce & He & Ue).
  unfold slice_node. rewrite Cs, Ce. rewrite Us, Ue in NO.
  destruct k; try reflexivity.
  - rewrite (listtuple_getslice_current_partial n s e Hn Hs He) by (apply NO; auto).
    apply py_slice_cint; assumption.
  - rewrite (listtuple_getslice_current_partial n s e Hn Hs He) by (apply NO; auto).
    apply py_slice_cint; assumption.
  - rewrite (unicode_substring_eq n s e Hn Hs He). apply py_slice_cint; assumption.
  - apply py_slice_cint; assumption.
  - apply py_slice_cint; assumption.
Qed.

Theorem setslice_node_eq fl k n bs be :
  0 <= n <= SSZ_MAX -> bound_ok bs -> bound_ok be ->
  (fl = true \/ (bound_fits bs /\ bound_fits be)) ->
  setslice_node fl k n bs be = py_slice_pos n bs be.
Proof.
  intros Hn Os Oe Fit.
  assert (Fs : fl = true \/ bound_fits bs) by tauto.
  assert (Fe : fl = true \/ bound_fits be) by tauto.
  destruct (coerce_start fl bs Os Fs) as (s & Cs & Hs & Us).
  destruct (coerce_stop fl be Oe Fe) as (e & Ce & He & Ue).
  unfold setslice_node. rewrite Cs, Ce.
  destruct k; try reflexivity; apply py_slice_pos_cint; assumption.
Qed.

(* an int object outside the Py_ssize_t range as bound of a builtin-typed base: OverflowError
   where CPython clamps *)
Theorem typed_slice_bound_overflow_refuted :
  exists k n bs be, 0 <= n <= SSZ_MAX /\ bound_ok bs /\ bound_ok be /\
    slice_node true false k n bs be = OverflowError /\
    setslice_node false KList n bs be = OverflowError /\
    py_slice n bs be = Sel 0 n.
Proof.
  exists KStr, 5, (BPyInt (SSZ_MIN - 1)), (BPyInt (SSZ_MAX + 1)).
  unfold bound_ok. vm_compute. intuition congruence.
Qed.

(* slice memory safety: whenever the (repaired) helper copies items, they are items of the array *)
Theorem slice_in_bounds fl k n bs be f c :
  0 <= n <= SSZ_MAX -> bound_ok bs -> bound_ok be ->
  (fl = true \/ (bound_fits bs /\ bound_fits be)) ->
  slice_node true fl k n bs be = Sel f c -> 0 <= f /\ 0 <= c /\ f + c <= n.
Proof.
  intros Hn Os Oe Fit E.
  rewrite (slice_node_eq true fl k n bs be Hn Os Oe Fit (or_introl eq_refl)) in E.
  eapply py_slice_in_bounds; [lia | eassumption].
Qed.
