(* C33 -- text codecs of the string conversions (Model/M_Convert.v, strings section).
   The UTF-8 tables and the strict decoder are those of C18 (Model/M_IntFmt.v utf8_ref /
   utf8_decode); the per code point round trip is C18's P_IntFmtUtf8.utf8_roundtrip, lifted here
   to whole strings in both directions:
     decode (encode s) = s   for every string the codec accepts  (Python -> C -> Python)
     encode (decode b) = b   for every byte string the decoder accepts (C -> Python -> C, the
                             codec_law hypothesis of P_Convert.to_from, now discharged). *)
From Coq Require Import ZArith NArith List Bool Lia ZifyBool ZifyNat ZifyN.
From CyVerif Require Import Lib.CInt Model.M_Convert Proof.P_Convert.
From CyVerif Require Model.M_IntFmt Proof.P_IntFmtUtf8.
Import ListNotations.
Open Scope Z_scope.
Ltac Zify.zify_post_hook ::= Z.to_euclidean_division_equations.

Module F := M_IntFmt.
Module U := P_IntFmtUtf8.

(* ---------- Z level: whole strings over the C18 tables ---------- *)
Definition valid (cp : Z) : Prop := 0 <= cp <= 1114111 /\ F.is_surrogate cp = false.

Lemma ref_roundtrip cp r : valid cp ->
  F.utf8_decode (F.utf8_ref cp ++ r) = option_map (cons cp) (F.utf8_decode r).
Proof.
  intros [R S]. destruct (Z.ltb_spec cp 128) as [L|G].
  - unfold F.utf8_ref. replace (cp <? 128) with true by lia. cbn [app]. apply U.dec1. lia.
  - rewrite <- U.enc_is_utf8 by lia. apply U.utf8_roundtrip; [lia|exact S].
Qed.

Lemma ref_bytes cp : valid cp -> Forall (fun b => 0 <= b <= 255) (F.utf8_ref cp).
Proof.
  intros [R S]. destruct (Z.ltb_spec cp 128) as [L|G].
  - unfold F.utf8_ref. replace (cp <? 128) with true by lia. constructor; [lia|constructor].
  - rewrite <- U.enc_is_utf8 by lia. apply U.enc_bytes.
Qed.

Lemma ref_high cp : 128 <= cp -> Forall (fun b => 128 <= b) (F.utf8_ref cp).
Proof.
  intros G. unfold F.utf8_ref. replace (cp <? 128) with false by lia.
  destruct (cp <? 2048); [|destruct (cp <? 65536)]; repeat constructor; lia.
Qed.

Lemma enc_dec_Z zl : Forall valid zl -> F.utf8_decode (flat_map F.utf8_ref zl) = Some zl.
Proof.
  induction 1 as [|cp r Hv _ IH]; [reflexivity|].
  cbn [flat_map]. rewrite (ref_roundtrip cp _ Hv), IH. reflexivity.
Qed.

(* the strict decoder only accepts what the encoder produces *)
Lemma dec_enc_Z n : forall l zl, (length l <= n)%nat -> F.utf8_decode l = Some zl ->
  flat_map F.utf8_ref zl = l /\ Forall valid zl.
Proof.
  induction n as [|n IH]; intros l zl Hl; destruct l as [|b0 r]; cbn [F.utf8_decode].
  - intros [= <-]. split; constructor.
  - cbn in Hl. lia.
  - intros [= <-]. split; constructor.
  - cbn [length] in Hl.
    destruct ((b0 <? 0) || (255 <? b0)) eqn:R0; [discriminate|].
    destruct (b0 <? 128) eqn:R1.
    { destruct (F.utf8_decode r) as [t|] eqn:D; [|discriminate]. cbn [option_map]. intros [= <-].
      destruct (IH r t ltac:(lia) D) as [E V]. split.
      - cbn [flat_map]. rewrite E. unfold F.utf8_ref. rewrite R1. reflexivity.
      - constructor; [unfold valid, F.is_surrogate; lia|exact V]. }
    destruct (b0 <? 194) eqn:R2; [discriminate|].
    destruct (b0 <? 224) eqn:R3.
    { destruct r as [|b1 r1]; [discriminate|]. destruct (F.is_cont b1) eqn:C1; [|discriminate].
      destruct (F.utf8_decode r1) as [t|] eqn:D; [|discriminate]. cbn [option_map]. intros [= <-].
      cbn [length] in Hl. destruct (IH r1 t ltac:(lia) D) as [E V]. unfold F.is_cont in C1. split.
      - cbn [flat_map]. rewrite E. unfold F.utf8_ref.
        set (cp := (b0 - 192) * 64 + (b1 - 128)).
        replace (cp <? 128) with false by lia. replace (cp <? 2048) with true by lia.
        cbn [app]. f_equal; [lia|]. f_equal. lia.
      - constructor; [unfold valid, F.is_surrogate; lia|exact V]. }
    destruct (b0 <? 240) eqn:R4.
    { destruct r as [|b1 [|b2 r2]]; [discriminate|discriminate|]. cbv zeta.
      set (cp := (b0 - 224) * 4096 + (b1 - 128) * 64 + (b2 - 128)).
      destruct (F.is_cont b1) eqn:C1; cbn [andb]; [|discriminate].
      destruct (F.is_cont b2) eqn:C2; cbn [andb]; [|discriminate].
      destruct (2048 <=? cp) eqn:C3; cbn [andb]; [|discriminate].
      destruct (F.is_surrogate cp) eqn:C4; cbn [negb]; [discriminate|].
      destruct (F.utf8_decode r2) as [t|] eqn:D; [|discriminate]. cbn [option_map]. intros [= <-].
      cbn [length] in Hl. destruct (IH r2 t ltac:(lia) D) as [E V]. unfold F.is_cont in C1, C2. split.
      - cbn [flat_map]. rewrite E. unfold F.utf8_ref.
        replace (cp <? 128) with false by lia. replace (cp <? 2048) with false by lia.
        replace (cp <? 65536) with true by lia.
        cbn [app]. f_equal; [lia|]. f_equal; [lia|]. f_equal. lia.
      - constructor; [split; [lia|exact C4]|exact V]. }
    destruct (b0 <? 245) eqn:R5; [|discriminate].
    destruct r as [|b1 [|b2 [|b3 r3]]]; [discriminate|discriminate|discriminate|]. cbv zeta.
    set (cp := (b0 - 240) * 262144 + (b1 - 128) * 4096 + (b2 - 128) * 64 + (b3 - 128)).
    destruct (F.is_cont b1) eqn:C1; cbn [andb]; [|discriminate].
    destruct (F.is_cont b2) eqn:C2; cbn [andb]; [|discriminate].
    destruct (F.is_cont b3) eqn:C3; cbn [andb]; [|discriminate].
    destruct (65536 <=? cp) eqn:C4; cbn [andb]; [|discriminate].
    destruct (cp <=? 1114111) eqn:C5; [|discriminate].
    destruct (F.utf8_decode r3) as [t|] eqn:D; [|discriminate]. cbn [option_map]. intros [= <-].
    cbn [length] in Hl. destruct (IH r3 t ltac:(lia) D) as [E V]. unfold F.is_cont in C1, C2, C3. split.
    + cbn [flat_map]. rewrite E. unfold F.utf8_ref.
      replace (cp <? 128) with false by lia. replace (cp <? 2048) with false by lia.
      replace (cp <? 65536) with false by lia.
      cbn [app]. f_equal; [lia|]. f_equal; [lia|]. f_equal; [lia|]. f_equal. lia.
    + constructor; [unfold valid, F.is_surrogate; lia|exact V].
Qed.

(* ---------- N level: the codec of the model ---------- *)
Lemma zs_ns l : Forall (fun z => 0 <= z) l -> zs (ns l) = l.
Proof.
  induction 1 as [|z r Hz _ IH]; [reflexivity|].
  unfold zs, ns in *. cbn [map]. rewrite IH, Z2N.id by exact Hz. reflexivity.
Qed.

Lemma encodable_valid c : encodable c = true <-> valid (Z.of_N c).
Proof. unfold encodable, M_Convert.is_surrogate, valid, F.is_surrogate. lia. Qed.

Lemma ns_app a b : ns (a ++ b) = ns a ++ ns b.
Proof. apply map_app. Qed.

(* utf8_encode = the table applied to every code point, or UnicodeEncodeError *)
Lemma utf8_encode_char s :
  utf8_encode s = if forallb encodable s then Ok (ns (flat_map F.utf8_ref (zs s)))
                  else Err UnicodeEncodeError.
Proof.
  induction s as [|c r IH]; [reflexivity|].
  cbn [utf8_encode forallb zs map flat_map]. unfold utf8_enc1.
  destruct (encodable c); cbn [andb]; [|reflexivity].
  rewrite IH. fold (zs r). destruct (forallb encodable r); [|reflexivity].
  rewrite ns_app. reflexivity.
Qed.

Lemma Forall_valid_zs s : forallb encodable s = true -> Forall valid (zs s).
Proof.
  intros H. rewrite forallb_forall in H. unfold zs. apply Forall_forall. intros z Hz.
  apply in_map_iff in Hz as (c & <- & Hc). apply encodable_valid. apply H. exact Hc.
Qed.

Lemma flat_ref_bytes zl : Forall valid zl -> Forall (fun b => 0 <= b) (flat_map F.utf8_ref zl).
Proof.
  induction 1 as [|cp r Hv _ IH]; [constructor|]. cbn [flat_map]. apply Forall_app. split; [|exact IH].
  eapply Forall_impl; [|apply (ref_bytes cp Hv)]. cbn. intros; lia.
Qed.

(* Python -> C -> Python: decode (encode s) = s for every accepted string *)
Theorem utf8_decode_encode s b : utf8_encode s = Ok b -> utf8_decode b = Ok s.
Proof.
  rewrite utf8_encode_char. destruct (forallb encodable s) eqn:A; [|discriminate]. intros [= <-].
  pose proof (Forall_valid_zs s A) as V. unfold utf8_decode.
  rewrite (zs_ns _ (flat_ref_bytes _ V)), (enc_dec_Z _ V), ns_zs. reflexivity.
Qed.

(* rejection: exactly the strings holding a lone surrogate (or a value that is no code point),
   and always UnicodeEncodeError *)
Theorem utf8_encode_rejects s e :
  utf8_encode s = Err e <-> e = UnicodeEncodeError /\ exists c, In c s /\ encodable c = false.
Proof.
  rewrite utf8_encode_char. destruct (forallb encodable s) eqn:A.
  - split; [discriminate|]. intros (_ & c & Hc & Hf). rewrite forallb_forall in A.
    rewrite (A c Hc) in Hf. discriminate.
  - split; [|intros [-> _]; reflexivity]. intros [= <-]. split; [reflexivity|].
    induction s as [|c r IH]; [discriminate|]. cbn [forallb] in A.
    destruct (encodable c) eqn:Ec.
    + destruct (IH A) as (c' & Hin & Hf). exists c'. split; [right; exact Hin|exact Hf].
    + exists c. split; [left; reflexivity|exact Ec].
Qed.

(* C -> Python -> C: encode (decode b) = b for every byte string the strict decoder accepts *)
Theorem utf8_codec_law : codec_law EUtf8.
Proof.
  intros b s. cbn [decode_with encode_with cd_dec cd_enc utf8_codec]. unfold utf8_decode.
  destruct (F.utf8_decode (zs b)) as [zl|] eqn:D; [|discriminate]. intros [= <-].
  destruct (dec_enc_Z (length (zs b)) (zs b) zl (le_n _) D) as [E V].
  assert (P : Forall (fun z => 0 <= z) zl).
  { eapply Forall_impl; [|exact V]. cbn. intros z [H _]. lia. }
  rewrite utf8_encode_char.
  assert (A : forallb encodable (ns zl) = true).
  { apply forallb_forall. intros c Hc. unfold ns in Hc. apply in_map_iff in Hc as (z & <- & Hz).
    apply encodable_valid. rewrite Forall_forall in V, P. rewrite Z2N.id by (apply P; exact Hz).
    apply V; exact Hz. }
  rewrite A, (zs_ns zl P), E, ns_zs. reflexivity.
Qed.

(* the encoded form has a NUL byte exactly where the text has U+0000 *)
Lemma utf8_encode_nul s b : utf8_encode s = Ok b -> (In 0%N b <-> In 0%N s).
Proof.
  revert b. induction s as [|c r IH]; intros b; cbn [utf8_encode].
  - intros [= <-]. reflexivity.
  - destruct (utf8_enc1 c) as [bs|] eqn:E1; [|discriminate].
    destruct (utf8_encode r) as [t|] eqn:Er; [|discriminate]. intros [= <-].
    specialize (IH t eq_refl). rewrite in_app_iff. cbn [In]. rewrite IH.
    assert (Hb : In 0%N bs <-> c = 0%N); [|tauto].
    unfold utf8_enc1 in E1. destruct (encodable c); [|discriminate]. injection E1 as <-.
    destruct (N.ltb_spec c 128) as [L|G].
    + rewrite (utf8_ref_ascii c L). cbn [In]. split; [intros [H|[]]; exact H|intros ->; left; reflexivity].
    + split; [|intros ->; lia]. intros H. unfold ns in H. apply in_map_iff in H as (z & Hz & Hin).
      pose proof (ref_high (Z.of_N c) ltac:(lia)) as Hh. rewrite Forall_forall in Hh.
      specialize (Hh z Hin). lia.
Qed.

(* ---------- both codecs: decode inverts encode ---------- *)
Definition codec_inv (e : senc) : Prop :=
  forall s b, encode_with e s = Ok b -> decode_with e b = Ok s.

Lemma ascii_codec_inv : codec_inv EAscii.
Proof.
  intros s b. cbn. destruct (all_ascii s) eqn:A; [|discriminate]. intros [= <-]. rewrite A. reflexivity.
Qed.

Lemma utf8_codec_inv : codec_inv EUtf8.
Proof. intros s b. cbn. apply utf8_decode_encode. Qed.

Lemma accepted_codec_inv e : str_accepts_unicode e = true -> codec_inv e.
Proof. destruct e; try discriminate; intros _; [apply ascii_codec_inv|apply utf8_codec_inv]. Qed.

Lemma accepted_codec_law e : str_accepts_unicode e = true -> codec_law e.
Proof. destruct e; try discriminate; intros _; [apply ascii_codec_law|apply utf8_codec_law]. Qed.

(* what s.encode(E) can raise *)
Lemma encode_with_error e s x : str_accepts_unicode e = true ->
  encode_with e s = Err x -> x = UnicodeEncodeError.
Proof.
  destruct e; try discriminate; intros _; cbn.
  - destruct (all_ascii s); [discriminate|]. intros [= <-]. reflexivity.
  - intros H. apply utf8_encode_rejects in H as [-> _]. reflexivity.
Qed.

(* PyUnicode_AsUTF8AndSize accepts exactly the strings without lone surrogates *)
Lemma api_exact_encodable a e s : forallb encodable s = true -> api_exact a e s.
Proof. intros H _ _. rewrite utf8_encode_char, H. eexists; reflexivity. Qed.

(* ascii: accepted iff every code point is below 128; then the bytes are the code points *)
Theorem ascii_decision a s : api_exact a EAscii s ->
  unicode_asas a EAscii s = if all_ascii s then Ok (s, length s) else Err UnicodeEncodeError.
Proof. intros Hx. rewrite asas_spec by (reflexivity || exact Hx). cbn. destruct (all_ascii s); reflexivity. Qed.

(* utf8: accepted iff encodable; the length is the number of BYTES and the bytes decode back *)
Theorem utf8_decision a s :
  (forall b n, unicode_asas a EUtf8 s = Ok (b, n) ->
     n = length b /\ utf8_decode b = Ok s /\ forallb encodable s = true) /\
  (forall x, unicode_asas a EUtf8 s = Err x ->
     x = UnicodeEncodeError /\ exists c, In c s /\ encodable c = false).
Proof.
  rewrite asas_spec by (reflexivity || (intros _ H; discriminate)).
  cbn [encode_with cd_enc utf8_codec]. split.
  - intros b n. destruct (utf8_encode s) as [b'|] eqn:E; [|discriminate]. cbn [rmap]. intros [= <- <-].
    split; [reflexivity|]. split; [apply utf8_decode_encode; exact E|].
    rewrite utf8_encode_char in E. destruct (forallb encodable s); [reflexivity|discriminate].
  - intros x. destruct (utf8_encode s) as [b'|x'] eqn:E; [discriminate|]. cbn [rmap]. intros [= <-].
    apply utf8_encode_rejects. exact E.
Qed.

(* ---------- end to end: def f(T x): return x on a str argument ---------- *)
(* std::string, c_string_type=str: the text itself or UnicodeEncodeError; NULs included *)
Theorem string_str_roundtrip a sc s : api_exact a (sc_enc sc) s ->
  sc_type sc = SUnicode -> str_accepts_unicode (sc_enc sc) = true ->
  string_roundtrip_l a sc (PStr s) =
    match encode_with (sc_enc sc) s with Ok _ => Ok (PStr s) | Err _ => Err UnicodeEncodeError end.
Proof.
  intros Hx Ht Ha. unfold string_roundtrip_l, string_from_py_l. rewrite as_string_and_size_str by exact Hx.
  destruct (encode_with (sc_enc sc) s) as [b|x] eqn:E; cbn [rmap bind].
  - unfold string_to_py, from_string_and_size. rewrite Ht.
    rewrite (accepted_codec_inv _ Ha s b E). reflexivity.
  - rewrite (encode_with_error _ s x Ha E). reflexivity.
Qed.

(* std::string, every c_string_type: from_string_and_size (s.encode(E)) *)
Theorem string_bytes_of_str a sc s : api_exact a (sc_enc sc) s ->
  string_roundtrip_l a sc (PStr s) =
    bind (encode_with (sc_enc sc) s) (from_string_and_size sc).
Proof.
  intros Hx. unfold string_roundtrip_l, string_from_py_l. rewrite as_string_and_size_str by exact Hx.
  destruct (encode_with (sc_enc sc) s); reflexivity.
Qed.

(* char*: the same bytes, cut at the first NUL by strlen *)
Theorem charp_of_str a sc s : api_exact a (sc_enc sc) s ->
  charp_roundtrip_l a sc (PStr s) =
    bind (encode_with (sc_enc sc) s) (fun b => from_string_and_size sc (until_nul b)).
Proof.
  intros Hx. unfold charp_roundtrip_l. rewrite charp_from_py_str by exact Hx.
  destruct (encode_with (sc_enc sc) s); reflexivity.
Qed.

Lemma encode_with_nul e s b : encode_with e s = Ok b -> (In 0%N b <-> In 0%N s).
Proof.
  destruct e; cbn; try discriminate.
  - destruct (all_ascii s); [|discriminate]. intros [= <-]. reflexivity.
  - apply utf8_encode_nul.
Qed.

Theorem charp_str_roundtrip a sc s : api_exact a (sc_enc sc) s ->
  sc_type sc = SUnicode -> str_accepts_unicode (sc_enc sc) = true -> ~ In 0%N s ->
  charp_roundtrip_l a sc (PStr s) =
    match encode_with (sc_enc sc) s with Ok _ => Ok (PStr s) | Err _ => Err UnicodeEncodeError end.
Proof.
  intros Hx Ht Ha Hn. rewrite charp_of_str by exact Hx.
  destruct (encode_with (sc_enc sc) s) as [b|x] eqn:E; cbn [bind].
  - rewrite until_nul_id by (rewrite (encode_with_nul _ s b E); exact Hn).
    unfold from_string_and_size. rewrite Ht. rewrite (accepted_codec_inv _ Ha s b E). reflexivity.
  - rewrite (encode_with_error _ s x Ha E). reflexivity.
Qed.

(* ---------- nested types without the codec hypothesis ---------- *)
Definition text_ok (sc : scfg) : Prop := sc_type sc = SUnicode -> str_accepts_unicode (sc_enc sc) = true.

Theorem to_from_closed sc : text_ok sc ->
  forall t c v, wf sc t c -> to_py sc t c = Ok v -> from_py sc t v = Ok c.
Proof. intros H. apply to_from. intros Ht. apply accepted_codec_law. apply H. exact Ht. Qed.
