(* Proofs about Model/M_IntFmt.v, part 2: the do-while loop, sign/padding, the main theorems
   (CIntToPyUnicode = CPython's format, buffer size) and the 'c' range test. *)
From Coq Require Import ZArith List Bool Lia ZifyBool ZifyNat.
From CyVerif Require Import Lib.CInt Model.M_IntFmt Proof.P_IntFmtDigits.
Import ListNotations.
Open Scope Z_scope.
(* lia is used for linear goals only in this file (div/mod facts come from part 1) *)

(* the do-while loop for 'o' and 'd' *)
Lemma pair_loop w s fc b table hexoff : 1 <= w -> is_pair_fc fc b table ->
  forall fuel rem dpos buf loo0 m,
  in_range w s rem -> Z.abs rem < 2 ^ Z.of_nat (S fuel) ->
  0 <= m -> Z.abs rem <= 2 ^ m -> 2 * (m / 6 + 1) <= dpos ->
  exists k loo,
    digits_loop (S fuel) w s fc hexoff rem dpos buf loo0 =
      LDone (dpos - k) (opt0 loo ++ py_digits b false (Z.abs rem) ++ buf) loo
    /\ k = Z.of_nat (length (opt0 loo ++ py_digits b false (Z.abs rem)))
    /\ k <= 2 * (m / 6 + 1).
Proof.
  intros Hw Hfc.
  assert (Hb8 : b = 8 \/ b = 10) by (destruct Hfc as [(_ & -> & _)|(_ & -> & _)]; auto).
  assert (Hc : b * b = 64 \/ b * b = 100 \/ b * b = 16) by (destruct Hb8 as [->| ->]; auto).
  induction fuel as [|fuel IH]; intros rem dpos buf loo0 m Hr Hf Hm Hle Hd.
  all: assert (M0 : 0 <= m / 6) by (apply Z.div_pos; lia).
  all: rewrite (pair_unfold w s fc b table) by (try assumption; lia); cbv zeta.
  all: pose proof (Z.abs_nonneg rem) as Hn; pose proof (quot_abs_pair b rem Hb8) as AQ.
  all: destruct (Z.eqb_spec (Z.quot rem (b * b)) 0) as [E|E].
  1,3: assert (E0 : Z.abs rem / (b * b) = 0) by (rewrite <- AQ, E; reflexivity).
  1,2: exists 2, (Z.abs rem mod (b * b) <? b).
  1,2: rewrite app_assoc, <- (last_pass_chars b (Z.abs rem)) by assumption.
  1,2: cbn [app length]; repeat split; lia.
  all: assert (E0 : Z.abs rem / (b * b) <> 0) by (rewrite <- AQ; lia).
  - destruct (more_pass_bounds b (Z.abs rem) 0 0 Hb8 Hn E0) as (N64 & _).
    change (2 ^ Z.of_nat 1) with 2 in Hf. lia.
  - destruct (more_pass_bounds b (Z.abs rem) (2 ^ (m - 6)) (2 ^ Z.of_nat (S fuel)) Hb8 Hn E0)
         as (N64 & N1 & NX & NY).
    destruct (pow2_ge_64 m Hm ltac:(lia)) as [M6 MP].
    destruct (quot_in_range w s rem (b * b) Hw Hr Hc) as [_ QR].
    rewrite (pow2_succ_nat (S fuel)) in Hf.
    destruct (IH (Z.quot rem (b * b)) (dpos - 2)
                ((48 + Z.abs rem / b mod b) :: (48 + Z.abs rem mod b) :: buf)
                (Z.abs rem mod (b * b) <? b) (m - 6) QR) as (k & loo & L & K1 & K2).
    + rewrite AQ. apply NY. lia.
    + lia.
    + rewrite AQ. apply NX. lia.
    + rewrite div6. lia.
    + exists (k + 2), loo. rewrite L. rewrite AQ in *.
      rewrite (more_pass_chars b (Z.abs rem)) by assumption.
      rewrite div6 in K2.
      repeat split.
      * f_equal; [lia|]. rewrite <- !app_assoc. reflexivity.
      * rewrite !app_length in *. cbn [length]. lia.
      * lia.
Qed.

(* the do-while loop for 'x' (and 'X' after hex_digits += 16) *)
Lemma hex_loop w s (upp : bool) : 1 <= w ->
  forall fuel rem dpos buf loo0 m,
  in_range w s rem -> Z.abs rem < 2 ^ Z.of_nat (S fuel) ->
  0 <= m -> Z.abs rem <= 2 ^ m -> m / 4 + 1 <= dpos ->
  exists k,
    digits_loop (S fuel) w s 120 (if upp then 16 else 0) rem dpos buf loo0 =
      LDone (dpos - k) (py_digits 16 upp (Z.abs rem) ++ buf) loo0
    /\ k = Z.of_nat (length (py_digits 16 upp (Z.abs rem)))
    /\ k <= m / 4 + 1.
Proof.
  intros Hw.
  induction fuel as [|fuel IH]; intros rem dpos buf loo0 m Hr Hf Hm Hle Hd.
  all: assert (M0 : 0 <= m / 4) by (apply Z.div_pos; lia).
  all: rewrite hex_unfold by (try assumption; lia); cbv zeta.
  all: pose proof (Z.abs_nonneg rem) as Hn; pose proof (quot_abs_16 rem) as AQ.
  all: destruct (Z.eqb_spec (Z.quot rem 16) 0) as [E|E].
  1,3: assert (E0 : Z.abs rem / 16 = 0) by (rewrite <- AQ, E; reflexivity).
  1,2: exists 1.
  1,2: rewrite <- (hex_last upp (Z.abs rem)) by assumption.
  1,2: cbn [app length]; repeat split; lia.
  all: assert (E0 : Z.abs rem / 16 <> 0) by (rewrite <- AQ; lia).
  - destruct (hex_bounds (Z.abs rem) 0 0 Hn E0) as (N16 & _).
    change (2 ^ Z.of_nat 1) with 2 in Hf. lia.
  - destruct (hex_bounds (Z.abs rem) (2 ^ (m - 4)) (2 ^ Z.of_nat (S fuel)) Hn E0)
         as (N16 & N1 & NX & NY).
    destruct (pow2_ge_16 m Hm ltac:(lia)) as [M4 MP].
    destruct (quot_in_range w s rem 16 Hw Hr ltac:(auto)) as [_ QR].
    rewrite (pow2_succ_nat (S fuel)) in Hf.
    destruct (IH (Z.quot rem 16) (dpos - 1) (digit_char upp (Z.abs rem mod 16) :: buf) loo0
                (m - 4) QR) as (k & L & K1 & K2).
    + rewrite AQ. apply NY. lia.
    + lia.
    + rewrite AQ. apply NX. lia.
    + rewrite div4. lia.
    + exists (k + 1). rewrite L. rewrite AQ in *.
      rewrite (hex_more upp (Z.abs rem)) by assumption.
      rewrite div4 in K2.
      repeat split.
      * f_equal; [lia|]. rewrite <- !app_assoc. reflexivity.
      * rewrite !app_length in *. cbn [length]. lia.
      * lia.
Qed.
