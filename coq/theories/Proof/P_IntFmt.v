(* Proofs about Model/M_IntFmt.v, part 2: the do-while loop, sign/padding, the main theorems
   (CIntToPyUnicode = CPython's format, buffer size) and the 'c' range test. *)
From Coq Require Import ZArith List Bool Lia ZifyBool ZifyNat.
From CyVerif Require Import Lib.CInt Model.M_IntFmt Proof.P_IntFmtDigits.
Import ListNotations.
Open Scope Z_scope.
(* lia is used for linear goals only in this file (div/mod facts come from part 1) *)
Ltac Zify.zify_post_hook ::= idtac.

(* the do-while loop for 'o' and 'd' *)
Lemma pair_loop w s fc b table hexoff : 1 <= w -> is_pair_fc fc b table ->
  forall fuel rem dpos buf loo0 m,
  in_range w s rem -> Z.abs rem < 2 ^ Z.of_nat (S fuel) ->
  0 <= m -> Z.abs rem <= 2 ^ m -> 2 * (m / 6 + 1) <= dpos ->
  exists k loo,
    digits_loop (S fuel) w s fc hexoff rem dpos buf loo0 =
      LDone (dpos - k) (opt0 loo ++ py_digits b false (Z.abs rem) ++ buf) loo
    /\ k = Z.of_nat (length (opt0 loo ++ py_digits b false (Z.abs rem)))
    /\ k <= 2 * (m / 6 + 1).
Proof.
  intros Hw Hfc.
  assert (Hb8 : b = 8 \/ b = 10) by (destruct Hfc as [(_ & -> & _)|(_ & -> & _)]; auto).
  assert (Hc : b * b = 64 \/ b * b = 100 \/ b * b = 16) by (destruct Hb8 as [->| ->]; auto).
  induction fuel as [|fuel IH]; intros rem dpos buf loo0 m Hr Hf Hm Hle Hd;
    assert (M0 : 0 <= m / 6) by (apply Z.div_pos; lia);
    rewrite (pair_unfold w s fc b table) by (try assumption; lia); cbv zeta;
    pose proof (Z.abs_nonneg rem) as Hn; pose proof (quot_abs_pair b rem Hb8) as AQ;
    (destruct (Z.eqb_spec (Z.quot rem (b * b)) 0) as [E|E];
     [ assert (E0 : Z.abs rem / (b * b) = 0) by (rewrite <- AQ, E; reflexivity);
       exists 2, (Z.abs rem mod (b * b) <? b);
       rewrite app_assoc, <- (last_pass_chars b (Z.abs rem)) by assumption;
       cbn [app length]; repeat split; lia
     | assert (E0 : Z.abs rem / (b * b) <> 0) by (rewrite <- AQ; lia) ]).
  - destruct (more_pass_bounds b (Z.abs rem) 0 0 Hb8 Hn E0) as (N64 & _).
    change (2 ^ Z.of_nat 1) with 2 in Hf. lia.
  - destruct (more_pass_bounds b (Z.abs rem) (2 ^ (m - 6)) (2 ^ Z.of_nat (S fuel)) Hb8 Hn E0)
         as (N64 & N1 & NX & NY).
    destruct (pow2_ge_64 m Hm ltac:(lia)) as [M6 MP].
    destruct (quot_in_range w s rem (b * b) Hw Hr Hc) as [_ QR].
    rewrite (pow2_succ_nat (S fuel)) in Hf.
    destruct (IH (Z.quot rem (b * b)) (dpos - 2)
                ((48 + Z.abs rem / b mod b) :: (48 + Z.abs rem mod b) :: buf)
                (Z.abs rem mod (b * b) <? b) (m - 6) QR) as (k & loo & L & K1 & K2).
    + rewrite AQ. apply NY. lia.
    + lia.
    + rewrite AQ. apply NX. lia.
    + rewrite div6. lia.
    + exists (k + 2), loo. rewrite L. rewrite AQ in *.
      rewrite (more_pass_chars b (Z.abs rem)) by assumption.
      rewrite div6 in K2.
      repeat split.
      * f_equal; [clear; lia|]. rewrite <- !app_assoc. reflexivity.
      * rewrite ?app_length in K1. rewrite !app_length. cbn [length]. clear - K1. lia.
      * clear - K2. lia.
Qed.

(* the do-while loop for 'x' (and 'X' after hex_digits += 16) *)
Lemma hex_loop w s (upp : bool) : 1 <= w ->
  forall fuel rem dpos buf loo0 m,
  in_range w s rem -> Z.abs rem < 2 ^ Z.of_nat (S fuel) ->
  0 <= m -> Z.abs rem <= 2 ^ m -> m / 4 + 1 <= dpos ->
  exists k,
    digits_loop (S fuel) w s 120 (if upp then 16 else 0) rem dpos buf loo0 =
      LDone (dpos - k) (py_digits 16 upp (Z.abs rem) ++ buf) loo0
    /\ k = Z.of_nat (length (py_digits 16 upp (Z.abs rem)))
    /\ k <= m / 4 + 1.
Proof.
  intros Hw.
  induction fuel as [|fuel IH]; intros rem dpos buf loo0 m Hr Hf Hm Hle Hd;
    assert (M0 : 0 <= m / 4) by (apply Z.div_pos; lia);
    rewrite hex_unfold by (try assumption; lia); cbv zeta;
    pose proof (Z.abs_nonneg rem) as Hn; pose proof (quot_abs_16 rem) as AQ;
    (destruct (Z.eqb_spec (Z.quot rem 16) 0) as [E|E];
     [ assert (E0 : Z.abs rem / 16 = 0) by (rewrite <- AQ, E; reflexivity);
       exists 1;
       rewrite <- (hex_last upp (Z.abs rem)) by assumption;
       cbn [app length]; repeat split; lia
     | assert (E0 : Z.abs rem / 16 <> 0) by (rewrite <- AQ; lia) ]).
  - destruct (hex_bounds (Z.abs rem) 0 0 Hn E0) as (N16 & _).
    change (2 ^ Z.of_nat 1) with 2 in Hf. lia.
  - destruct (hex_bounds (Z.abs rem) (2 ^ (m - 4)) (2 ^ Z.of_nat (S fuel)) Hn E0)
         as (N16 & N1 & NX & NY).
    destruct (pow2_ge_16 m Hm ltac:(lia)) as [M4 MP].
    destruct (quot_in_range w s rem 16 Hw Hr ltac:(auto)) as [_ QR].
    rewrite (pow2_succ_nat (S fuel)) in Hf.
    destruct (IH (Z.quot rem 16) (dpos - 1) (digit_char upp (Z.abs rem mod 16) :: buf) loo0
                (m - 4) QR) as (k & L & K1 & K2).
    + rewrite AQ. apply NY. lia.
    + lia.
    + rewrite AQ. apply NX. lia.
    + rewrite div4. lia.
    + exists (k + 1). rewrite L. rewrite AQ in *.
      rewrite (hex_more upp (Z.abs rem)) by assumption.
      rewrite div4 in K2.
      repeat split.
      * f_equal; [clear; lia|]. rewrite <- !app_assoc. reflexivity.
      * rewrite ?app_length in K1. rewrite !app_length. cbn [length]. clear - K1. lia.
      * clear - K2. lia.
Qed.

(* ---------- from the loop to the text ---------- *)
Definition valid_fc (fc : Z) : Prop := fc = 100 \/ fc = 111 \/ fc = 120 \/ fc = 88.

Lemma abs_bound w s v : 1 <= w -> in_range w s v ->
  Z.abs v < 2 ^ Z.of_nat (loop_fuel w) /\ Z.abs v <= 2 ^ (if s then w - 1 else w).
Proof.
  intros Hw Hr. unfold loop_fuel. rewrite pow2_succ_nat.
  replace (Z.of_nat (Z.to_nat w)) with w by lia.
  pose proof (pow2_split w Hw). pose proof (pow2_pos (w - 1) ltac:(lia)).
  unfold in_range, min_int, max_int in Hr. destruct s; lia.
Qed.

Lemma digits_phase w s v fc : 1 <= w -> in_range w s v -> valid_fc fc ->
  exists dpos loo,
    digits_loop (loop_fuel w) w s (if fc =? 88 then 120 else fc) (if fc =? 88 then 16 else 0)
                v (buf_size w) [] false
      = LDone dpos (opt0 loo ++ py_digits (fmt_base fc) (fmt_upper fc) (Z.abs v)) loo
    /\ dpos + b2z loo = buf_size w - Z.of_nat (length (py_digits (fmt_base fc) (fmt_upper fc) (Z.abs v)))
    /\ Z.of_nat (length (py_digits (fmt_base fc) (fmt_upper fc) (Z.abs v))) + b2z s <= buf_size w.
Proof.
  intros Hw Hr Hfc. destruct (abs_bound w s v Hw Hr) as [F M].
  destruct (buf_bounds w Hw) as (B1 & B2 & B3 & B4).
  set (m := if s then w - 1 else w) in *.
  assert (Hm : 0 <= m) by (subst m; destruct s; lia).
  assert (M6 : 2 * (m / 6 + 1) + b2z s <= buf_size w) by (subst m; destruct s; cbn [b2z]; lia).
  assert (M4 : m / 4 + 1 + b2z s <= buf_size w) by (subst m; destruct s; cbn [b2z]; lia).
  assert (Zs : 0 <= b2z s) by (destruct s; cbn; lia).
  unfold loop_fuel in *.
  destruct Hfc as [-> | [-> | [-> | ->]]].
  - destruct (pair_loop w s 100 10 DIGIT_PAIRS_10 0 Hw ltac:(right; auto) (Z.to_nat w) v (buf_size w)
                [] false m Hr F Hm M ltac:(lia)) as (k & loo & L & K1 & K2).
    exists (buf_size w - k), loo. change (100 =? 88) with false. cbv iota.
    change (fmt_base 100) with 10. change (fmt_upper 100) with false.
    rewrite L, app_nil_r. rewrite app_length in K1. destruct loo; cbn [opt0 length b2z] in *; repeat split; lia.
  - destruct (pair_loop w s 111 8 DIGIT_PAIRS_8 0 Hw ltac:(left; auto) (Z.to_nat w) v (buf_size w)
                [] false m Hr F Hm M ltac:(lia)) as (k & loo & L & K1 & K2).
    exists (buf_size w - k), loo. change (111 =? 88) with false. cbv iota.
    change (fmt_base 111) with 8. change (fmt_upper 111) with false.
    rewrite L, app_nil_r. rewrite app_length in K1. destruct loo; cbn [opt0 length b2z] in *; repeat split; lia.
  - destruct (hex_loop w s false Hw (Z.to_nat w) v (buf_size w) [] false m Hr F Hm M ltac:(lia))
      as (k & L & K1 & K2).
    exists (buf_size w - k), false. change (120 =? 88) with false. cbv iota.
    change (fmt_base 120) with 16. change (fmt_upper 120) with false.
    rewrite L, app_nil_r. cbn [opt0 app b2z]. repeat split; lia.
  - destruct (hex_loop w s true Hw (Z.to_nat w) v (buf_size w) [] false m Hr F Hm M ltac:(lia))
      as (k & L & K1 & K2).
    exists (buf_size w - k), false. change (88 =? 88) with true. cbv iota.
    change (fmt_base 88) with 16. change (fmt_upper 88) with true.
    rewrite L, app_nil_r. cbn [opt0 app b2z]. repeat split; lia.
Qed.

Lemma rep_if (p x : Z) : (if 0 <? x then repeat p (Z.to_nat x) else []) = repeat p (Z.to_nat x).
Proof.
  destruct (Z.ltb_spec 0 x); [reflexivity|]. replace (Z.to_nat x) with 0%nat by lia. reflexivity.
Qed.

Lemma bfa ul chars cl (ps : bool) pad : cl = Z.of_nat (length chars) -> cl <= ul ->
  build_from_ascii ul chars cl ps pad =
    Text ((if 0 <? ul - cl then
             (if ps then 45 :: repeat pad (Z.to_nat (ul - cl - 1)) else repeat pad (Z.to_nat (ul - cl)))
           else []) ++ chars).
Proof.
  intros -> H. unfold build_from_ascii.
  destruct (Z.ltb_spec (Z.of_nat (length chars)) 0); [lia|].
  destruct (Z.ltb_spec (Z.of_nat (length chars)) (Z.of_nat (length chars))); [lia|]. cbn [orb].
  destruct (Z.ltb_spec (ul - Z.of_nat (length chars)) 0); [lia|].
  rewrite Nat2Z.id, firstn_all. reflexivity.
Qed.

Lemma single {A} (l : list A) : length l = 1%nat -> exists c, l = [c].
Proof. destruct l as [|c [|d r]]; cbn; intros H; try discriminate. exists c. reflexivity. Qed.

(* main theorem: CIntToPyUnicode returns exactly CPython's text; in particular no write leaves
   the buffer, no table index is out of range, the assert holds, the loop terminates *)
Theorem format_eq w s v width pad fc :
  1 <= w -> in_range w s v -> valid_fc fc ->
  cint_to_unicode w s v width pad fc = Text (py_format_int v width pad fc).
Proof.
  intros Hw Hr Hfc.
  destruct (digits_phase w s v fc Hw Hr Hfc) as (dpos & loo & L & P & S).
  assert (Hokb : okb (fmt_base fc)).
  { destruct Hfc as [-> | [-> | [-> | ->]]]; unfold okb; cbn; auto. }
  pose proof (py_digits_nonempty (fmt_base fc) (fmt_upper fc) (Z.abs v) Hokb (Z.abs_nonneg v)) as NE.
  unfold cint_to_unicode, py_format_int. rewrite L.
  set (D := py_digits (fmt_base fc) (fmt_upper fc) (Z.abs v)) in *.
  assert (A : (if loo then match opt0 loo ++ D with
                            | c :: rest => if c =? 48 then Some rest else None | [] => None end
               else Some (opt0 loo ++ D)) = Some D) by (destruct loo; reflexivity).
  rewrite A. clear A L.
  replace (buf_size w - (dpos + b2z loo)) with (Z.of_nat (length D)) by lia.
  set (n := Z.of_nat (length D)) in *.
  assert (Hn : 1 <= n) by (subst n; lia).
  destruct s; cbn [andb b2z] in *.
  - destruct (Z.leb_spec v (-1)) as [Neg|Pos].
    + assert (V : (v <? 0) = true) by lia. rewrite V. cbn [length app].
      destruct (Z.eqb_spec pad 32) as [P32|P32]; cbn [orb].
      * destruct (Z.ltb_spec (dpos + b2z loo - 1) 0); [lia|].
        destruct (Z.eqb_spec (Z.max (n + 1) width) 1); [lia|].
        rewrite bfa by (cbn [length]; lia). rewrite rep_if. cbn [app]. f_equal. f_equal. f_equal. lia.
      * destruct (Z.leb_spec width (n + 1)).
        -- destruct (Z.ltb_spec (dpos + b2z loo - 1) 0); [lia|].
           destruct (Z.eqb_spec (Z.max (n + 1) width) 1); [lia|].
           rewrite bfa by (cbn [length]; lia). rewrite rep_if.
           replace (Z.to_nat (Z.max (n + 1) width - (n + 1))) with 0%nat by lia.
           replace (Z.to_nat (width - Z.of_nat (1 + length D))) with 0%nat by lia. reflexivity.
        -- destruct (Z.eqb_spec (Z.max (n + 1) width) 1); [lia|].
           rewrite bfa by lia.
           destruct (Z.ltb_spec 0 (Z.max (n + 1) width - n)); [|lia].
           cbn [app]. f_equal. f_equal. f_equal. f_equal. lia.
    + assert (V : (v <? 0) = false) by lia. rewrite V. cbn [length app].
      destruct (Z.eqb_spec (Z.max n width) 1) as [U|U].
      * destruct (single D ltac:(lia)) as [c ->]. cbn [length].
        replace (Z.to_nat (width - Z.of_nat (0 + 1))) with 0%nat by lia.
        cbn [repeat app]. destruct (pad =? 32); reflexivity.
      * rewrite bfa by lia. rewrite rep_if.
        replace (Z.to_nat (width - Z.of_nat (0 + length D))) with (Z.to_nat (Z.max n width - n)) by lia.
        destruct (pad =? 32); reflexivity.
  - assert (V : (v <? 0) = false) by (unfold in_range, min_int in Hr; lia). rewrite V. cbn [length app].
    destruct (Z.eqb_spec (Z.max n width) 1) as [U|U].
    + destruct (single D ltac:(lia)) as [c ->]. cbn [length].
      replace (Z.to_nat (width - Z.of_nat (0 + 1))) with 0%nat by lia.
      cbn [repeat app]. destruct (pad =? 32); reflexivity.
    + rewrite bfa by lia. rewrite rep_if.
      replace (Z.to_nat (width - Z.of_nat (0 + length D))) with (Z.to_nat (Z.max n width - n)) by lia.
      destruct (pad =? 32); reflexivity.
Qed.

Theorem no_error w s v width pad fc e :
  1 <= w -> in_range w s v -> valid_fc fc -> cint_to_unicode w s v width pad fc <> Err e.
Proof. intros Hw Hr Hfc. rewrite format_eq by assumption. discriminate. Qed.

(* the digits in the produced text: valid for the base and case, value |v|, no leading zero *)
Theorem digits_correct w s v fc :
  1 <= w -> in_range w s v -> valid_fc fc ->
  exists ds,
    cint_to_unicode w s v 0 32 fc = Text ((if v <? 0 then [45] else []) ++ ds)
    /\ parse_base (fmt_base fc) ds = Z.abs v
    /\ forallb (is_digit_of (fmt_base fc) (fmt_upper fc)) ds = true
    /\ no_leading_zero (Z.abs v) ds.
Proof.
  intros Hw Hr Hfc. rewrite format_eq by assumption.
  assert (Hokb : okb (fmt_base fc)).
  { destruct Hfc as [-> | [-> | [-> | ->]]]; unfold okb; cbn; auto. }
  exists (py_digits (fmt_base fc) (fmt_upper fc) (Z.abs v)).
  destruct (py_digits_correct (fmt_base fc) (fmt_upper fc) Hokb (S (Z.to_nat (Z.abs v))) (Z.abs v)
              ltac:(lia)) as (P1 & P2 & P3).
  repeat split; try assumption.
  unfold py_format_int. change (32 =? 32) with true. cbv iota.
  replace (Z.to_nat (0 - _)) with 0%nat by lia. reflexivity.
Qed.

(* ---------- 'c' ---------- *)
Lemma accepts_fixed w s v : 1 <= w -> in_range w s v ->
  uchar_accepts true w s v = (0 <=? v) && (v <? 1114112).
Proof.
  intros Hw Hr. unfold uchar_accepts.
  destruct (Z.ltb_spec v 0) as [Neg|Pos].
  - assert (s = true) by (destruct s; [reflexivity|unfold in_range, min_int in Hr; lia]). subst s.
    cbn [negb orb]. lia.
  - assert (C1 : negb s || (v =? 0) || (0 <? v) = true) by lia. rewrite C1. cbn [andb].
    rewrite land_high by assumption.
    destruct (Z.leb_spec (sizeof w) 2) as [Sm|Lg]; cbn [orb].
    + pose proof (small_type w s v Hw Sm Hr). lia.
    + destruct (Z.ltb_spec v 2097152); cbn [negb andb]; [rewrite int_id by lia|]; lia.
Qed.

Theorem char_range_fixed w s v width pad :
  1 <= w -> in_range w s v -> uchar_to_unicode true w s v width pad = py_format_char v width pad.
Proof.
  intros Hw Hr. unfold uchar_to_unicode, py_format_char. rewrite accepts_fixed by assumption.
  destruct ((0 <=? v) && (v <? 1114112)) eqn:A; cbn [negb]; [|reflexivity].
  assert (R : 0 <= v < 1114112) by lia. rewrite int_id by lia.
  destruct (mods v) as [M1 M2].
  destruct (Z.leb_spec width 1).
  - unfold from_ordinal. replace (Z.to_nat (width - 1)) with 0%nat by lia.
    assert (B : (0 <=? v) && (v <=? 1114111) = true) by lia. rewrite B. reflexivity.
  - unfold from_ordinal_padded, from_ordinal.
    assert (B : (0 <=? v) && (v <=? 1114111) = true) by lia. rewrite B.
    destruct ((width - 1 <=? 250) && ((v <? 55296) || (57343 <? v))).
    + destruct (Z.leb_spec v 255); [rewrite M1 by lia; reflexivity|].
      destruct (Z.ltb_spec v 65536); [reflexivity|].
      rewrite M2 by lia.
      assert (B2 : (65536 <=? v) && (v <=? 1114111) = true) by lia. rewrite B2. reflexivity.
    + destruct (Z.leb_spec v 127); [|reflexivity].
      cbv zeta. rewrite M1 by lia. destruct (Z.ltb_spec 127 v); [lia|reflexivity].
Qed.

(* the test as written agrees with the repaired one below 0x200000 and for 8/16-bit types *)
Theorem char_range_partial w s v width pad :
  1 <= w -> in_range w s v -> (v < 2097152 \/ sizeof w <= 2) ->
  uchar_to_unicode false w s v width pad = py_format_char v width pad.
Proof.
  intros Hw Hr H. rewrite <- char_range_fixed with (w := w) (s := s) by assumption.
  unfold uchar_to_unicode. replace (uchar_accepts false w s v) with (uchar_accepts true w s v); [reflexivity|].
  unfold uchar_accepts.
  destruct (Z.ltb_spec v 0) as [Neg|Pos].
  - assert (s = true) by (destruct s; [reflexivity|unfold in_range, min_int in Hr; lia]). subst s.
    assert (C1 : negb true || (v =? 0) || (0 <? v) = false) by lia. rewrite C1. reflexivity.
  - rewrite land_high by assumption.
    destruct (Z.leb_spec (sizeof w) 2) as [Sm|Lg]; cbn [orb]; [reflexivity|].
    assert (L : (v <? 2097152) = true) by lia. rewrite L. reflexivity.
Qed.

(* F17: as written, a value with a bit above bit 20 set is never rejected *)
Theorem char_range_refuted :
  exists w s v width pad, 1 <= w /\ in_range w s v /\
    py_format_char v width pad = COverflowError /\
    uchar_to_unicode false w s v width pad = CText [65].
Proof.
  exists 64, true, 4294967361, 0, 32. unfold in_range. vm_compute. intuition congruence.
Qed.

Theorem char_range_refuted_exc :
  exists w s v width pad, 1 <= w /\ in_range w s v /\
    py_format_char v width pad = COverflowError /\
    uchar_to_unicode false w s v width pad = CValueError.
Proof.
  exists 32, false, 2097152, 0, 32. unfold in_range. vm_compute. intuition congruence.
Qed.
