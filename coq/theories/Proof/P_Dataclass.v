(* P_Dataclass: the decisions of Cython's Dataclass.py equal those of dataclasses.py.
   Every theorem is over ALL field lists / option combinations; where the faithful model
   differs, the difference is proved (_refuted) and the equality is proved on the explicit
   complement (_partial). *)
From Coq Require Import NArith ZArith List Bool Lia.
From CyVerif Require Import Model.M_Dataclass Gen.Gen_HashAction.
Import ListNotations.

(* ------------------------------------------------------------------ list facts *)

Lemma filter_filter {A} (p q : A -> bool) (l : list A) :
  filter p (filter q l) = filter (fun x => q x && p x) l.
Proof.
  induction l as [|a l IH]; simpl; auto.
  destruct (q a); simpl; [destruct (p a)|]; rewrite ?IH; auto.
Qed.

Lemma filter_none {A} (p : A -> bool) (l : list A) :
  (forall a, In a l -> p a = false) -> filter p l = [].
Proof.
  induction l as [|a l IH]; simpl; intros H; auto.
  rewrite (H a (or_introl eq_refl)). apply IH. intros b Hb. apply H. now right.
Qed.

Lemma filter_all {A} (p : A -> bool) (l : list A) :
  (forall a, In a l -> p a = true) -> filter p l = l.
Proof.
  induction l as [|a l IH]; simpl; intros H; auto.
  rewrite (H a (or_introl eq_refl)). f_equal. apply IH. intros b Hb. apply H. now right.
Qed.

Lemma sig_cons_none r : sig_cons None r = r.
Proof. reflexivity. Qed.

(* ------------------------------------------------------------------ __init__ signature *)

Definition no_field_kw (fs : list field) : Prop := forall f, In f fs -> f_kw f = None.

Lemma eff_kw_nokw o fs : no_field_kw fs -> forall f, In f fs -> eff_kw o f = o_kw_only o.
Proof. intros H f Hf. unfold eff_kw. now rewrite (H f Hf). Qed.

Lemma py_std_nokw o fs : no_field_kw fs ->
  py_std o fs = if o_kw_only o then [] else filter f_init fs.
Proof.
  intros H. unfold py_std. destruct (o_kw_only o) eqn:Hk.
  - apply filter_none. intros f Hf. rewrite (eff_kw_nokw o fs H f Hf), Hk. apply andb_false_r.
  - apply filter_ext_in. intros f Hf. rewrite (eff_kw_nokw o fs H f Hf), Hk. apply andb_true_r.
Qed.

Lemma py_kwf_nokw o fs : no_field_kw fs ->
  py_kwf o fs = if o_kw_only o then filter f_init fs else [].
Proof.
  intros H. unfold py_kwf. destruct (o_kw_only o) eqn:Hk.
  - apply filter_ext_in. intros f Hf. rewrite (eff_kw_nokw o fs H f Hf), Hk. apply andb_true_r.
  - apply filter_none. intros f Hf. rewrite (eff_kw_nokw o fs H f Hf), Hk. apply andb_false_r.
Qed.

Lemma cy_loop_pos : forall fs seen,
  cy_init_loop false seen fs =
  match py_check seen (filter f_init fs) with
  | Some n => SigErr n
  | None => SigOk (map (py_param PPos) (filter f_init fs))
  end.
Proof.
  induction fs as [|a r IH]; intros seen; [reflexivity|].
  cbn [cy_init_loop filter].
  destruct (has_default a) eqn:Hd; destruct (f_init a) eqn:Hi.
  - cbn [py_check map]. rewrite Hi, Hd, IH.
    destruct (py_check true (filter f_init r)); cbn; unfold py_param; rewrite ?Hd; reflexivity.
  - rewrite sig_cons_none. apply IH.
  - destruct seen; cbn [andb negb py_check map]; rewrite Hi, Hd; [reflexivity|].
    rewrite IH. destruct (py_check false (filter f_init r)); cbn; unfold py_param; rewrite ?Hd; reflexivity.
  - rewrite andb_false_r, sig_cons_none. apply IH.
Qed.

Lemma cy_loop_kw : forall fs seen,
  cy_init_loop true seen fs = SigOk (map (py_param PKw) (filter f_init fs)).
Proof.
  induction fs as [|a r IH]; intros seen; [reflexivity|].
  cbn [cy_init_loop filter negb].
  rewrite andb_false_r. cbn [andb].
  destruct (has_default a) eqn:Hd; destruct (f_init a) eqn:Hi;
    rewrite ?sig_cons_none, IH; cbn; unfold py_param; rewrite ?Hd; reflexivity.
Qed.

(* the user-__init__ condition: dataclasses.py runs the seen_default check even when the
   class defines __init__ itself; Cython skips it *)
Definition user_init_checked (o : opts) (u : user) (fs : list field) : Prop :=
  u_init u = true -> o_init o = true -> py_check false (py_std o fs) = None.

Theorem init_signature_eq : forall o u fs,
  no_field_kw fs -> user_init_checked o u fs ->
  cy_init_sig o u fs = py_init_sig o u fs.
Proof.
  intros o u fs Hkw Hu. unfold cy_init_sig, py_init_sig.
  destruct (o_init o) eqn:Hoi; cbn [negb orb]; [|reflexivity].
  destruct (u_init u) eqn:Hui.
  - rewrite (Hu Hui Hoi). reflexivity.
  - rewrite (py_std_nokw o fs Hkw), (py_kwf_nokw o fs Hkw).
    destruct (o_kw_only o).
    + cbn [py_check map app]. apply cy_loop_kw.
    + rewrite cy_loop_pos. destruct (py_check false (filter f_init fs)); [reflexivity|].
      cbn [map]. now rewrite app_nil_r.
Qed.

(* in particular the error case: same offending field *)
Corollary init_error_eq : forall o u fs n,
  no_field_kw fs -> user_init_checked o u fs ->
  (cy_init_sig o u fs = SigErr n <-> py_init_sig o u fs = SigErr n).
Proof. intros o u fs n H1 H2. now rewrite (init_signature_eq o u fs H1 H2). Qed.

Definition fld (n : N) (d : dkind) (i : bool) (kw : option bool) : field :=
  mkField n d i true true None kw false.
Definition dflt_opts : opts := mkOpts true true true false false false true false.
Definition no_user : user := mkUser false false false HMissing false false.

(* field(kw_only=True): a compile error in Cython (see cy_rejected); dataclasses.py moves the
   parameter behind a bare star *)
Theorem init_signature_field_kw_refuted : exists o u fs,
  user_init_checked o u fs /\ cy_init_sig o u fs <> py_init_sig o u fs /\ cy_rejected o u fs = true
  /\ py_rejected o u fs = false.
Proof.
  exists dflt_opts, no_user, [fld 1 DValue true (Some true); fld 2 DNone true None].
  repeat split; try (intros; reflexivity); vm_compute; congruence.
Qed.

(* a user __init__ hides the non-default-after-default error in Cython only *)
Theorem init_signature_user_init_refuted : exists o u fs,
  no_field_kw fs /\ cy_init_sig o u fs = SigNone /\ py_init_sig o u fs = SigErr 2%N.
Proof.
  exists dflt_opts, (mkUser true false false HMissing false false),
    [fld 1 DValue true None; fld 2 DNone true None].
  split; [|split; reflexivity].
  intros f [<-|[<-|[]]]; reflexivity.
Qed.

(* ------------------------------------------------------------------ repr / compare / hash fields *)

Theorem repr_fields_eq : forall o u fs, cy_repr_fields o u fs = py_repr_fields o u fs.
Proof.
  intros. unfold cy_repr_fields, py_repr_fields, real_fields.
  destruct (o_repr o), (u_repr u); cbn; try reflexivity.
  rewrite filter_filter. do 2 f_equal. apply filter_ext. intros f. apply andb_comm.
Qed.

Lemma cmp_names_eq fs : cy_cmp_names fs = py_cmp_names fs.
Proof.
  unfold cy_cmp_names, py_cmp_names, real_fields. rewrite filter_filter. f_equal.
  apply filter_ext. intros f. apply andb_comm.
Qed.

Theorem compare_fields_eq : forall o u fs,
  cy_eq_fields o u fs = py_eq_fields o u fs /\ cy_order_fields o fs = py_order_fields o fs.
Proof.
  intros. unfold cy_eq_fields, py_eq_fields, cy_order_fields, py_order_fields.
  rewrite cmp_names_eq. destruct (o_eq o), (u_eq u), (o_order o); cbn; auto.
Qed.

(* with the repaired `hash is None` test *)
Theorem hash_fields_eq : forall fs, cy_hash_names true fs = py_hash_names fs.
Proof.
  intros. unfold cy_hash_names, py_hash_names, real_fields, cy_hash_flag. now rewrite filter_filter.
Qed.

(* the code as it is: equal only when no real field combines hash=None with compare=False *)
Definition hash_none_is_compared (fs : list field) : Prop :=
  forall f, In f fs -> f_initvar f = false -> f_hash f = None -> f_cmp f = true.

Theorem hash_fields_eq_partial : forall fs,
  hash_none_is_compared fs -> cy_hash_names false fs = py_hash_names fs.
Proof.
  intros fs H. rewrite <- hash_fields_eq. unfold cy_hash_names. f_equal. apply filter_ext_in.
  intros f Hf. destruct (f_initvar f) eqn:Hiv; [reflexivity|]. cbn [negb andb].
  unfold cy_hash_flag, hash_flag. destruct (f_hash f) eqn:Hh; [reflexivity|].
  symmetry. apply H; auto.
Qed.

(* full statement (false): forall fs, cy_hash_names false fs = py_hash_names fs.
   field a compared, field b = field(compare=False): b is hashed by Cython only, so equal
   objects get different hashes *)
Theorem hash_fields_compare_false_refuted : exists fs,
  cy_hash_names false fs = [1%N; 2%N] /\ py_hash_names fs = [1%N] /\ py_cmp_names fs = [1%N]
  /\ cy_cmp_names fs = [1%N].
Proof.
  exists [mkField 1%N DNone true true true None None false;
          mkField 2%N DNone true true false None None false].
  repeat split; reflexivity.
Qed.

(* the fields hashed are the compared ones unless field(hash=...) says otherwise *)
Theorem hash_fields_default_are_compare_fields : forall fs,
  (forall f, In f fs -> f_hash f = None) -> py_hash_names fs = py_cmp_names fs.
Proof.
  intros fs H. unfold py_hash_names, py_cmp_names. f_equal. apply filter_ext_in.
  intros f Hf. unfold hash_flag. rewrite H; auto.
  unfold real_fields in Hf. apply filter_In in Hf. tauto.
Qed.

(* ------------------------------------------------------------------ hash action *)

Theorem hash_action_eq : forall unsafe eq frozen expl,
  cy_hash_action unsafe eq frozen expl = py_hash_action unsafe eq frozen expl.
Proof. intros [] [] [] []; reflexivity. Qed.

Definition explicit_hash_agree (u : user) : Prop := ~ (u_hash u = HNone /\ u_eq u = true).

Theorem hash_eq_partial : forall o u fs,
  explicit_hash_agree u -> cy_hash true o u fs = py_hash o u fs.
Proof.
  intros o u fs H. unfold cy_hash, py_hash. rewrite hash_fields_eq, hash_action_eq.
  do 2 f_equal. unfold cy_explicit_hash, py_explicit_hash, explicit_hash_agree in *.
  destruct (u_hash u), (u_eq u); try reflexivity. exfalso. apply H. auto.
Qed.

(* full statement (false): forall o u fs, cy_hash o u fs = py_hash o u fs *)
Theorem hash_eq_refuted : exists o u fs, cy_hash true o u fs = HErr /\ py_hash o u fs = HAdd [1%N].
Proof.
  exists (mkOpts true true true false true false true false),
    (mkUser false false true HNone false false), [fld 1 DNone true None].
  split; reflexivity.
Qed.

(* the tables dumped from the running code (Gen_HashAction, regenerated on every run):
   cy_hash_rows from Dataclass.generate_hash_code, py_hash_rows from dataclasses._hash_action *)
Definition action_eqb (a b : action) : bool :=
  match a, b with
  | ANothing, ANothing | ASetNone, ASetNone | AAdd, AAdd | ARaise, ARaise => true
  | _, _ => false
  end.

Definition row := (bool * bool * bool * bool * action)%type.
Definition row_ok (f : bool -> bool -> bool -> bool -> action) (r : row) : bool :=
  match r with (a, b, c, d, x) => action_eqb (f a b c d) x end.

Definition all_keys : list (bool * bool * bool * bool) :=
  flat_map (fun a => flat_map (fun b => flat_map (fun c => map (fun d => (a, b, c, d))
    [false; true]) [false; true]) [false; true]) [false; true].

Definition key_eqb (k1 k2 : bool * bool * bool * bool) : bool :=
  match k1, k2 with (a, b, c, d), (a', b', c', d') =>
    Bool.eqb a a' && Bool.eqb b b' && Bool.eqb c c' && Bool.eqb d d' end.

Definition covers (rows : list row) : bool :=
  forallb (fun k => existsb (fun r => key_eqb k (fst r)) rows) all_keys.

Definition rows_agree (r1 r2 : list row) : bool :=
  forallb (fun r => forallb (fun r' => negb (key_eqb (fst r) (fst r')) || action_eqb (snd r) (snd r')) r2) r1.

Definition hash_table_check : bool :=
  forallb (row_ok cy_hash_action) cy_hash_rows && covers cy_hash_rows
  && forallb (row_ok py_hash_action) py_hash_rows && covers py_hash_rows
  && rows_agree cy_hash_rows py_hash_rows.

(* ------------------------------------------------------------------ __match_args__ *)

(* with the repaired loop (mx = true): full statement *)
Theorem match_args_eq : forall o u fs,
  no_field_kw fs -> cy_match_args true o u fs = py_match_args o u fs.
Proof.
  intros o u fs Hkw. unfold cy_match_args, py_match_args.
  destruct (o_match_args o), (u_match_args u); cbn; try reflexivity.
  rewrite (py_std_nokw o fs Hkw). now destruct (o_kw_only o).
Qed.

Theorem match_args_eq_partial : forall o u fs,
  no_field_kw fs -> (o_kw_only o = true \/ forall f, In f fs -> f_init f = true) ->
  cy_match_args false o u fs = py_match_args o u fs.
Proof.
  intros o u fs Hkw H. unfold cy_match_args, py_match_args.
  destruct (o_match_args o), (u_match_args u); cbn; try reflexivity.
  rewrite (py_std_nokw o fs Hkw). destruct (o_kw_only o) eqn:Hk; [reflexivity|].
  destruct H as [H|H]; [discriminate|]. now rewrite filter_all.
Qed.

(* full statement (false): forall o u fs, no_field_kw fs -> cy_match_args = py_match_args *)
Theorem match_args_init_false_refuted : exists o u fs,
  no_field_kw fs /\ cy_match_args false o u fs = Some [1%N; 2%N] /\ py_match_args o u fs = Some [1%N].
Proof.
  exists dflt_opts, no_user, [fld 1 DNone true None; fld 2 DValue false None].
  split; [|split; reflexivity].
  intros f [<-|[<-|[]]]; reflexivity.
Qed.

(* ------------------------------------------------------------------ attribute sources *)

Definition init_false_has_default (fs : list field) : Prop :=
  forall f, In f fs -> f_initvar f = false -> f_init f = false -> has_default f = true.

Theorem body_eq_partial : forall fs, init_false_has_default fs -> cy_body fs = py_body fs.
Proof.
  intros fs H. unfold cy_body, py_body. apply map_ext_in. intros f Hf.
  unfold real_fields in Hf. apply filter_In in Hf. destruct Hf as [Hf Hiv].
  apply negb_true_iff in Hiv. specialize (H f Hf Hiv).
  unfold cy_src, py_src, has_default in *. destruct (f_default f), (f_init f); try reflexivity.
  specialize (H eq_refl). discriminate.
Qed.

Theorem body_init_false_refuted : exists fs,
  cy_body fs = [(1%N, SZero)] /\ py_body fs = [(1%N, SUnset)].
Proof. exists [fld 1 DNone false None]. split; reflexivity. Qed.

(* ------------------------------------------------------------------ rejected classes *)

Definition no_initvar_factory (fs : list field) : Prop :=
  forall f, In f fs -> f_initvar f && is_factory f = false.

Theorem rejected_eq_partial : forall o u fs,
  no_field_kw fs -> user_init_checked o u fs -> explicit_hash_agree u ->
  no_initvar_factory fs -> (o_order o = true -> o_eq o = true) ->
  cy_rejected o u fs = py_rejected o u fs.
Proof.
  intros o u fs Hkw Hu Hh Hiv Hord. unfold cy_rejected, py_rejected.
  rewrite (init_signature_eq o u fs Hkw Hu), (hash_eq_partial o u fs Hh).
  replace (existsb (fun f => is_some (f_kw f)) fs) with false.
  replace (existsb (fun f => f_initvar f && is_factory f) fs) with false.
  replace (o_order o && negb (o_eq o)) with false. reflexivity.
  - destruct (o_order o); [rewrite Hord|]; reflexivity.
  - symmetry. apply not_true_is_false. intros E. apply existsb_exists in E.
    destruct E as [f [Hf E]]. rewrite (Hiv f Hf) in E. discriminate.
  - symmetry. apply not_true_is_false. intros E. apply existsb_exists in E.
    destruct E as [f [Hf E]]. rewrite (Hkw f Hf) in E. discriminate.
Qed.

(* order=True with eq=False: ValueError in dataclasses.py, accepted by Cython *)
Theorem rejected_order_without_eq_refuted : exists o u fs,
  no_field_kw fs /\ cy_rejected o u fs = false /\ py_rejected o u fs = true.
Proof.
  exists (mkOpts true true false true false false true false), no_user, [fld 1 DNone true None].
  split; [|split; reflexivity]. intros f [<-|[]]; reflexivity.
Qed.

(* InitVar with default_factory: TypeError in dataclasses.py, accepted by Cython *)
Theorem rejected_initvar_factory_refuted : exists o u fs,
  no_field_kw fs /\ cy_rejected o u fs = false /\ py_rejected o u fs = true.
Proof.
  exists dflt_opts, no_user, [mkField 1%N DFactory true true true None None true].
  split; [|split; reflexivity]. intros f [<-|[]]; reflexivity.
Qed.

(* ------------------------------------------------------------------ everything at once *)

Record domain_ok (o : opts) (u : user) (fs : list field) : Prop := {
  dom_kw : no_field_kw fs;
  dom_user_init : user_init_checked o u fs;
  dom_hash : explicit_hash_agree u;
  dom_initvar : no_initvar_factory fs;
  dom_order : o_order o = true -> o_eq o = true;
  dom_match : o_kw_only o = true \/ forall f, In f fs -> f_init f = true;
  dom_body : init_false_has_default fs
}.

Theorem decisions_eq_partial : forall o u fs, domain_ok o u fs -> cy_decide true true o u fs = py_decide o u fs.
Proof.
  intros o u fs [H1 H2 H3 H4 H5 H6 H7]. unfold cy_decide, py_decide.
  rewrite (rejected_eq_partial o u fs H1 H2 H3 H4 H5), (init_signature_eq o u fs H1 H2),
    repr_fields_eq, (hash_eq_partial o u fs H3), (match_args_eq o u fs H1),
    (body_eq_partial fs H7).
  destruct (compare_fields_eq o u fs) as [-> ->]. reflexivity.
Qed.

(* the code as it is (hx = false) on the further complement of the hash-field finding *)
Theorem decisions_eq_asis_partial : forall o u fs,
  domain_ok o u fs -> hash_none_is_compared fs -> cy_decide false false o u fs = py_decide o u fs.
Proof.
  intros o u fs H Hh. rewrite <- (decisions_eq_partial o u fs H). unfold cy_decide. f_equal.
  - unfold cy_hash. now rewrite (hash_fields_eq_partial fs Hh), hash_fields_eq.
  - destruct H as [H1 _ _ _ _ H6 _].
    now rewrite (match_args_eq_partial o u fs H1 H6), (match_args_eq o u fs H1).
Qed.

(* ------------------------------------------------------------------ ordering = tuple ordering *)

Section CmpProofs.
  Variable A : Type.
  Variable ident : A -> A -> bool.
  Variable eqv : A -> A -> bool.
  Variable rel : cop -> A -> A -> option bool.

  (* the contract on the element comparisons under which the field-by-field cascade is the
     tuple comparison: (1) identical objects are equal; (2) equal elements can be ordered and
     are not strictly ordered; (3) on unequal elements `<=` is `<` and `>=` is `>` *)
  Definition cmp_contract (ps : list (A * A)) : Prop :=
    forall x y, In (x, y) ps ->
      (ident x y = true -> eqv x y = true)
      /\ (eqv x y = true -> rel OLt x y = Some false /\ rel OGt x y = Some false)
      /\ (eqv x y = false -> rel OLe x y = rel OLt x y /\ rel OGe x y = rel OGt x y).

  Lemma strict_idem c : strict (strict c) = strict c.
  Proof. destruct c; reflexivity. Qed.

  Theorem order_is_tuple_order : forall c ps,
    cmp_contract ps -> cy_order A eqv rel c ps = py_order A ident eqv rel c ps.
  Proof.
    intros c ps. induction ps as [|[x y] r IH]; intros H; [reflexivity|].
    cbn [cy_order py_order].
    destruct (H x y (or_introl eq_refl)) as [H1 [H2 H3]].
    assert (IH' : cy_order A eqv rel c r = py_order A ident eqv rel c r).
    { apply IH. intros a b Hab. apply H. now right. }
    destruct (eqv x y) eqn:He.
    - rewrite orb_true_r. destruct (H2 eq_refl) as [Hl Hg].
      replace (rel (strict c) x y) with (Some false) by (destruct c; cbn; auto).
      cbn. exact IH'.
    - destruct (ident x y) eqn:Hi; [discriminate (H1 eq_refl)|].
      cbn [orb negb]. destruct (H3 eq_refl) as [Hle Hge].
      replace (rel c x y) with (rel (strict c) x y) by (destruct c; cbn; auto).
      destruct (rel (strict c) x y) as [[|]|]; reflexivity.
  Qed.

  Theorem equal_is_tuple_equal : forall ps,
    (forall x y, In (x, y) ps -> ident x y = true -> eqv x y = true) ->
    cy_equal A eqv ps = py_equal A ident eqv ps.
  Proof.
    induction ps as [|[x y] r IH]; intros H; [reflexivity|].
    cbn [cy_equal py_equal].
    assert (IH' : cy_equal A eqv r = py_equal A ident eqv r).
    { apply IH. intros a b Hab. apply H. now right. }
    destruct (eqv x y) eqn:He.
    - rewrite orb_true_r. exact IH'.
    - destruct (ident x y) eqn:Hi; [|reflexivity].
      pose proof (H x y (or_introl eq_refl) Hi) as E. congruence.
  Qed.
End CmpProofs.

(* integers satisfy the contract: unconditional statement for int-valued fields *)
Definition z_rel (c : cop) (x y : Z) : option bool :=
  Some (match c with OLt => Z.ltb x y | OLe => Z.leb x y | OGt => Z.gtb x y | OGe => Z.geb x y end).

Theorem order_is_tuple_order_int : forall c ps,
  cy_order Z Z.eqb z_rel c ps = py_order Z Z.eqb Z.eqb z_rel c ps.
Proof.
  intros c ps. apply order_is_tuple_order. unfold cmp_contract. intros x y _. unfold z_rel.
  split; [|split]; [intros E|intros E; split|intros E; split].
  - exact E.
  - apply Z.eqb_eq in E. subst. now rewrite Z.ltb_irrefl.
  - apply Z.eqb_eq in E. subst. f_equal. rewrite Z.gtb_ltb. apply Z.ltb_irrefl.
  - apply Z.eqb_neq in E. f_equal. destruct (Z.leb_spec x y), (Z.ltb_spec x y); auto; lia.
  - apply Z.eqb_neq in E. f_equal. rewrite Z.geb_leb, Z.gtb_ltb.
    destruct (Z.leb_spec y x), (Z.ltb_spec y x); auto; lia.
Qed.

(* and the tuple order on integers is the lexicographic order *)
Fixpoint lex_lt (ps : list (Z * Z)) : bool :=
  match ps with
  | [] => false
  | (x, y) :: r => Z.ltb x y || (Z.eqb x y && lex_lt r)
  end.

Theorem order_lt_is_lexicographic : forall ps, cy_order Z Z.eqb z_rel OLt ps = Some (lex_lt ps).
Proof.
  induction ps as [|[x y] r IH]; [reflexivity|].
  cbn [cy_order lex_lt strict z_rel]. rewrite IH.
  destruct (Z.ltb_spec x y), (Z.eqb_spec x y); cbn; auto; lia.
Qed.

(* full statement (false): order_is_tuple_order without clause (2) of the contract.
   Field value None on both sides: == holds, < raises. dataclasses: (None,) <= (None,) is True *)
Theorem order_unorderable_equal_refuted :
  cy_order (option Z) oz_ident oz_rel OLe [(None, None)] = None
  /\ py_order (option Z) oz_ident oz_ident oz_rel OLe [(None, None)] = Some true.
Proof. split; reflexivity. Qed.

(* full statement (false): equal_is_tuple_equal without reflexivity of == on identical objects
   (a NaN stored in a field, same object on both sides) *)
Theorem equal_nan_identity_refuted :
  cy_equal (bool * Z) nv_eqv [((true, 7%Z), (true, 7%Z))] = false
  /\ py_equal (bool * Z) nv_ident nv_eqv [((true, 7%Z), (true, 7%Z))] = true.
Proof. split; reflexivity. Qed.
