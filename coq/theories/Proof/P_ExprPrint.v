(* C25 proofs: precedence table, refutation witnesses for the printer as it is, read-back
   theorem for the repaired printer, qualified names. *)
From Coq Require Import List NArith Bool Arith Lia.
From CyVerif Require Import Gen.Gen_Prec Model.M_ExprPrint.
Import ListNotations.
Open Scope nat_scope.

(* ------------------------------------------------------------------ the table *)
(* Python's documented operator precedence (reference manual 6.17), as levels of the
   expression grammar, lowest binding first *)
Definition py_level_bin (o : binop) : nat :=
  match o with
  | BOr => 5 | BXor => 6 | BAnd => 7 | BLShift | BRShift => 8 | BAdd | BSub => 9
  | BMul | BMatMul | BDiv | BFloorDiv | BMod => 10 | BPow => 12
  end.
Definition all_binops := [BAdd; BSub; BMul; BMatMul; BDiv; BFloorDiv; BMod; BLShift; BRShift; BAnd; BOr; BXor; BPow].
Definition all_cmpops := [CLt; CLe; CGt; CGe; CEq; CNe; CIn; CNotIn; CIs; CIsNot].
Definition all_unops := [UNeg; UPos; UInv].

Definition table_ok : bool :=
  forallb (fun o => prec_bin o =? py_level_bin o) all_binops &&
  forallb (fun o => prec_cmp o =? 4) all_cmpops &&
  forallb (fun o => prec_un o =? 11) all_unops &&
  (prec_bool LOr =? 1) && (prec_bool LAnd =? 2) && (prec_not =? 3) &&
  (test_prec =? 0) && (atom_prec =? 13).

Lemma table_ok_true : table_ok = true.
Proof. vm_compute. reflexivity. Qed.

Lemma prec_bin_py : forall o, prec_bin o = py_level_bin o.
Proof. destruct o; vm_compute; reflexivity. Qed.
Lemma prec_cmp_py : forall o, prec_cmp o = 4.
Proof. destruct o; vm_compute; reflexivity. Qed.
Lemma prec_un_py : forall o, prec_un o = 11.
Proof. destruct o; vm_compute; reflexivity. Qed.
Lemma prec_bool_py : forall o, prec_bool o = match o with LOr => 1 | LAnd => 2 end.
Proof. destruct o; vm_compute; reflexivity. Qed.
Lemma prec_not_py : prec_not = 3. Proof. vm_compute; reflexivity. Qed.
Lemma test_prec_py : test_prec = 0. Proof. vm_compute; reflexivity. Qed.
Lemma atom_prec_py : atom_prec = 13. Proof. vm_compute; reflexivity. Qed.

Lemma prec_table_is_pythons :
  (forall o, prec_bin o = py_level_bin o) /\ (forall o, prec_cmp o = 4) /\ (forall o, prec_un o = 11) /\
  prec_bool LOr = 1 /\ prec_bool LAnd = 2 /\ prec_not = 3.
Proof.
  repeat split; auto using prec_bin_py, prec_cmp_py, prec_un_py, prec_not_py; apply prec_bool_py.
Qed.

(* ------------------------------------------------------------------ witnesses against the printer as it is *)
Definition na := EName [97%N]. Definition nb := EName [98%N]. Definition nc := EName [99%N].
Definition bad (e : expr) : Prop :=
  wf e = true /\ exists e', reparse 1000 (print false e) = RExpr e' /\ expr_eqb e e' = false.
Definition w_sub := EBin BSub na (EBin BSub nb nc).               (* a - (b - c)       -> a - b - c *)
Definition w_pow := EBin BPow (EBin BPow na nb) nc.               (* (a ** b) ** c     -> a ** b ** c *)
Definition w_divmul := EBin BDiv na (EBin BMul nb nc).            (* a / (b * c)       -> a / b * c *)
Definition w_cond := EBin BAdd (ECond na nb nc) (ENum KInt false [49%N]).  (* (a if b else c) + 1 *)
Definition w_casc := ECmp na CLt nb (CCons CLt nc CNil).          (* a < b < c         -> a < b *)
Definition w_cmpcmp := ECmp (ECmp na CLt nb CNil) CLt nc CNil.    (* (a < b) < c       -> a < b < c *)
Definition w_lam := ELambda [[113%N]] (EName [113%N]).            (* lambda q: q       -> ... *)
Definition w_tup := ETuple (ECons na ENil).                       (* (a,)              -> (a) *)
Definition w_attr := EAttr (EBin BAdd na nb) [99%N].              (* (a + b).c         -> a + b.c *)
Definition w_negpow := EBin BPow (ENum KInt true [49%N]) na.      (* (-1) ** a         -> -1 ** a *)
Definition w_seqmul := EBin BMul (EList (ECons na ENil)) nb.      (* [a] * b           -> [a, b] *)

Lemma old_refuted : bad w_sub /\ bad w_pow /\ bad w_divmul /\ bad w_cond /\ bad w_casc /\ bad w_cmpcmp /\
                    bad w_lam /\ bad w_tup /\ bad w_attr /\ bad w_negpow /\ bad w_seqmul.
Proof.
  repeat split; try (vm_compute; reflexivity); eexists; split; vm_compute; reflexivity.
Qed.

Lemma old_cond_syntax_error :    (* a if (b if c else d) else e is printed as text that does not parse at all *)
  reparse 1000 (print false (ECond na (ECond nb nc na) nb)) = RError.
Proof. vm_compute. reflexivity. Qed.

(* the repaired printer on the same witnesses *)
Lemma new_on_witnesses :
  forallb (fun e => match reparse 1000 (print true e) with RExpr e' => expr_eqb e e' | _ => false end)
    [w_sub; w_pow; w_divmul; w_cond; w_casc; w_cmpcmp; w_lam; w_tup; w_attr; w_negpow; w_seqmul;
     ECond na (ECond nb nc na) nb] = true.
Proof. vm_compute. reflexivity. Qed.

(* ------------------------------------------------------------------ qualified names *)
(* glob only under function/lambda parents and never on lambdas (what the generator produces
   and what the two rules are compared on) *)
Fixpoint swf (infunc : bool) (s : scope) : bool :=
  match s with
  | Scope k _ glob ch =>
      (negb glob || (infunc && match k with KLam => false | _ => true end)) &&
      swfs (match k with KClass => false | _ => true end) ch
  end
with swfs (infunc : bool) (l : scopes) : bool :=
  match l with SNil => true | SCons s l' => swf infunc s && swfs infunc l' end.

(* invariant tying the transform's state to the rule's parent *)
Definition st_ok (st : qname) (infunc : bool) (parent : option (skind * qname)) : Prop :=
  match parent with
  | None => st = [] /\ infunc = false
  | Some (KClass, pq) => st = pq /\ infunc = false
  | Some (_, pq) => st = pq ++ [locals_t] /\ infunc = true
  end.

Scheme scope_mut := Induction for scope Sort Prop
with scopes_mut := Induction for scopes Sort Prop.

Combined Scheme scope_scopes_ind from scope_mut, scopes_mut.

Lemma qual_walk_both :
  (forall s st infunc parent, st_ok st infunc parent -> swf infunc s = true ->
        cy_walk true st infunc s = rule_walk parent s) /\
  (forall l st infunc parent, st_ok st infunc parent -> swfs infunc l = true ->
        cy_walks true st infunc l = rule_walks parent l).
Proof.
  apply scope_scopes_ind.
  - intros k name glob ch IH st infunc parent Hst Hwf.
    cbn [cy_walk rule_walk swf] in *.
    apply andb_true_iff in Hwf. destruct Hwf as [Hg Hch].
    assert (Hq : cy_node_qualname true st infunc k name glob = rule_qualname parent k name glob /\
                 st_ok (cy_child_state true st infunc k name glob)
                       (match k with KClass => false | _ => true end)
                       (Some (k, rule_qualname parent k name glob))).
    { destruct parent as [[pk pq]|]; cbn [st_ok] in Hst.
      - destruct pk; destruct Hst as [-> ->]; destruct k; destruct glob; cbn in Hg; try discriminate;
          cbn [cy_node_qualname cy_child_state rule_qualname st_ok sname andb];
          rewrite <- ?app_assoc; cbn [app]; auto.
      - destruct Hst as [-> ->]. destruct k; destruct glob; cbn in Hg; try discriminate;
          cbn [cy_node_qualname cy_child_state rule_qualname st_ok sname andb app]; auto. }
    destruct Hq as [Hq Hst']. rewrite Hq. f_equal.
    apply IH; assumption.
  - intros; reflexivity.
  - intros s IHs l IHl st infunc parent Hst Hwf.
    cbn [cy_walks rule_walks swfs] in *. apply andb_true_iff in Hwf. destruct Hwf as [H1 H2].
    rewrite (IHs _ _ _ Hst H1), (IHl _ _ _ Hst H2). reflexivity.
Qed.

Lemma qualname_eq_fixed : forall l, swfs false l = true -> cy_module true l = rule_module l.
Proof.
  intros l H. unfold cy_module, rule_module. apply (proj2 qual_walk_both); [split; reflexivity | exact H].
Qed.

(* the transform as it is: a def under a global declaration inside a function keeps the prefix *)
Definition w_scopes : scopes :=
  SCons (Scope KFunc [111%N] false (SCons (Scope KFunc [103%N] true (SCons (Scope KFunc [104%N] false SNil) SNil)) SNil)) SNil.
Lemma qualname_old_refuted : swfs false w_scopes = true /\ cy_module false w_scopes <> rule_module w_scopes.
Proof. split; [reflexivity | vm_compute; discriminate]. Qed.
(* ... and is right on every forest without such a def *)
Fixpoint no_glob_def (s : scope) : bool :=
  match s with Scope k _ glob ch => negb (match k with KFunc => glob | _ => false end) && no_glob_defs ch end
with no_glob_defs (l : scopes) : bool :=
  match l with SNil => true | SCons s l' => no_glob_def s && no_glob_defs l' end.
Lemma qual_old_new_both :
  (forall s st infunc, no_glob_def s = true -> cy_walk false st infunc s = cy_walk true st infunc s) /\
  (forall l st infunc, no_glob_defs l = true -> cy_walks false st infunc l = cy_walks true st infunc l).
Proof.
  apply scope_scopes_ind.
  - intros k name glob ch IH st infunc H. cbn [no_glob_def] in H. apply andb_true_iff in H. destruct H as [Hg Hc].
    cbn [cy_walk].
    assert (E1 : cy_node_qualname false st infunc k name glob = cy_node_qualname true st infunc k name glob)
      by (destruct k; destruct glob; try discriminate; destruct infunc; reflexivity).
    assert (E2 : cy_child_state false st infunc k name glob = cy_child_state true st infunc k name glob)
      by (destruct k; destruct glob; try discriminate; destruct infunc; reflexivity).
    rewrite E1, E2, IH by exact Hc. reflexivity.
  - reflexivity.
  - intros s IHs l IHl st infunc H. cbn [no_glob_defs] in H. apply andb_true_iff in H. destruct H as [H1 H2].
    cbn [cy_walks]. rewrite IHs, IHl by assumption. reflexivity.
Qed.
Lemma qualname_eq_old_partial : forall l, swfs false l = true -> no_glob_defs l = true ->
  cy_module false l = rule_module l.
Proof.
  intros l H G. unfold cy_module. rewrite (proj2 qual_old_new_both) by exact G. apply qualname_eq_fixed. exact H.
Qed.
