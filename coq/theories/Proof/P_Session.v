From Coq Require Import List Bool Arith Lia Permutation.
From CyVerif Require Import Model.M_Session.
Import ListNotations.

Lemma pair_eqb_eq x y : pair_eqb x y = true <-> x = y.
Proof.
  destruct x as [a b], y as [a' b']. unfold pair_eqb. cbn.
  rewrite andb_true_iff, !Nat.eqb_eq. split; [intros [-> ->]; reflexivity|intros H; inversion H; auto].
Qed.

Lemma mem_pair_In x l : mem_pair x l = true <-> In x l.
Proof.
  unfold mem_pair. rewrite existsb_exists. split.
  - intros [y [Hy E]]. apply pair_eqb_eq in E. now subst.
  - intros H. exists x. split; [exact H|now apply pair_eqb_eq].
Qed.

Lemma mem_nat_In x l : mem_nat x l = true <-> In x l.
Proof.
  unfold mem_nat. rewrite existsb_exists. split.
  - intros [y [Hy E]]. apply Nat.eqb_eq in E. now subst.
  - intros H. exists x. split; [exact H|now apply Nat.eqb_eq].
Qed.

Lemma mem_pair_ext x l1 l2 : (In x l1 <-> In x l2) -> mem_pair x l1 = mem_pair x l2.
Proof.
  intros H. destruct (mem_pair x l1) eqn:E1, (mem_pair x l2) eqn:E2; try reflexivity.
  - apply mem_pair_In, H, mem_pair_In in E1. congruence.
  - apply mem_pair_In, H, mem_pair_In in E2. congruence.
Qed.

(* ---------- loading ---------- *)
Lemma load_marks c p : marks (fst (load c p)) = marks c.
Proof. unfold load. destruct (mem_nat p (loaded c)); reflexivity. Qed.

Lemma load_loaded c p q : In q (loaded (fst (load c p))) <-> q = p \/ In q (loaded c).
Proof.
  unfold load. destruct (mem_nat p (loaded c)) eqn:E; cbn.
  - apply mem_nat_In in E. split; [auto|intros [->|H]; auto].
  - split; [intros [<-|H]; auto|intros [->|H]; auto].
Qed.

Lemma load_parsed c p q : In q (snd (load c p)) <-> q = p /\ ~ In p (loaded c).
Proof.
  unfold load. destruct (mem_nat p (loaded c)) eqn:E; cbn.
  - apply mem_nat_In in E. split; [tauto|intros [_ H]; auto].
  - assert (~ In p (loaded c)) by (intros H; apply mem_nat_In in H; congruence).
    split; [intros [<-|[]]; auto|intros [-> _]; auto].
Qed.

Lemma load_all_marks m : forall c, marks (fst (load_all c m)) = marks c.
Proof.
  induction m as [|ci r IH]; intros c; cbn; [reflexivity|].
  destruct (load c (fst ci)) as [c1 ps] eqn:E1. destruct (load_all c1 r) as [c2 qs] eqn:E2. cbn.
  specialize (IH c1). rewrite E2 in IH. cbn in IH. rewrite IH.
  pose proof (load_marks c (fst ci)) as H. now rewrite E1 in H.
Qed.

Lemma load_all_loaded m : forall c q, In q (loaded (fst (load_all c m))) <-> In q (map fst m) \/ In q (loaded c).
Proof.
  induction m as [|ci r IH]; intros c q; cbn; [tauto|].
  destruct (load c (fst ci)) as [c1 ps] eqn:E1. destruct (load_all c1 r) as [c2 qs] eqn:E2. cbn.
  specialize (IH c1 q). rewrite E2 in IH. cbn in IH. rewrite IH.
  pose proof (load_loaded c (fst ci) q) as H. rewrite E1 in H. cbn in H. rewrite H.
  split; [intros [?|[?|?]]|intros [[?|?]|?]]; auto.
Qed.

Lemma load_all_parsed m : forall c q,
  In q (snd (load_all c m)) <-> In q (map fst m) /\ ~ In q (loaded c).
Proof.
  induction m as [|ci r IH]; intros c q; cbn; [tauto|].
  destruct (load c (fst ci)) as [c1 ps] eqn:E1. destruct (load_all c1 r) as [c2 qs] eqn:E2. cbn.
  rewrite in_app_iff.
  specialize (IH c1 q). rewrite E2 in IH. cbn in IH. rewrite IH.
  pose proof (load_parsed c (fst ci) q) as Hp. rewrite E1 in Hp. cbn in Hp. rewrite Hp.
  pose proof (load_loaded c (fst ci) q) as Hl. rewrite E1 in Hl. cbn in Hl. rewrite Hl.
  destruct (Nat.eq_dec q (fst ci)) as [->|Hne].
  - split; [intros [[_ H]|[H1 H2]]; [auto|exfalso; auto]|intros [_ H]; auto].
  - split.
    + intros [[H _]|[H1 H2]]; [contradiction|]. split; [auto|]. intros H. apply H2. auto.
    + intros [[H|H] H2]; [congruence|]. right. split; [exact H|]. intros [H3|H3]; auto.
Qed.

(* ---------- one compilation ---------- *)
Lemma compile_marks pxds c m : marks (fst (compile pxds c m)) = uses_of m ++ marks c.
Proof.
  unfold compile. destruct (load_all c m) as [c1 ps] eqn:E. cbn.
  pose proof (load_all_marks m c) as H. rewrite E in H. cbn in H. now rewrite H.
Qed.

Lemma compile_loaded pxds c m q :
  In q (loaded (fst (compile pxds c m))) <-> In q (map fst m) \/ In q (loaded c).
Proof.
  unfold compile. destruct (load_all c m) as [c1 ps] eqn:E. cbn.
  pose proof (load_all_loaded m c q) as H. now rewrite E in H.
Qed.

Lemma compile_parsed pxds c m q :
  In q (fst (snd (compile pxds c m))) <-> In q (map fst m) /\ ~ In q (loaded c).
Proof.
  unfold compile. destruct (load_all c m) as [c1 ps] eqn:E. cbn.
  pose proof (load_all_parsed m c q) as H. now rewrite E in H.
Qed.

Lemma emit_pxd_marks_ext pxds c c' p :
  (forall i, In (p, i) (marks c) <-> In (p, i) (marks c')) -> emit_pxd pxds c p = emit_pxd pxds c' p.
Proof.
  intros H. unfold emit_pxd. f_equal. apply filter_ext. intros i. f_equal. now apply mem_pair_ext.
Qed.

Lemma compile_out pxds c m :
  snd (snd (compile pxds c m)) = emit pxds (mkctx [] (uses_of m ++ marks c)) m.
Proof.
  unfold compile. destruct (load_all c m) as [c1 ps] eqn:E. cbn.
  pose proof (load_all_marks m c) as H. rewrite E in H. cbn in H.
  unfold emit. apply flat_map_ext. intros ci. apply emit_pxd_marks_ext. intros i. cbn. now rewrite H.
Qed.

Lemma emit_pxd_spec pxds c p q i :
  In (q, i) (emit_pxd pxds c p) <->
  q = p /\ i < length (entries_of pxds p) /\
  emits (nth i (entries_of pxds p) KAlways) (mem_pair (p, i) (marks c)) = true.
Proof.
  unfold emit_pxd. rewrite in_map_iff. split.
  - intros [j [E Hj]]. inversion E; subst. apply filter_In in Hj. destruct Hj as [Hs He].
    apply in_seq in Hs. split; [reflexivity|]. split; [lia|exact He].
  - intros [-> [Hl He]]. exists i. split; [reflexivity|]. apply filter_In. split; [apply in_seq; lia|exact He].
Qed.

Lemma emit_spec pxds c m p i :
  In (p, i) (emit pxds c m) <->
  In p (map fst m) /\ i < length (entries_of pxds p) /\
  emits (nth i (entries_of pxds p) KAlways) (mem_pair (p, i) (marks c)) = true.
Proof.
  unfold emit. rewrite in_flat_map. split.
  - intros [ci [Hci H]]. apply emit_pxd_spec in H. destruct H as [-> H]. split; [now apply in_map|exact H].
  - intros [Hp H]. apply in_map_iff in Hp. destruct Hp as [ci [<- Hci]]. exists ci. split; [exact Hci|].
    apply emit_pxd_spec. split; [reflexivity|exact H].
Qed.

Lemma emits_spec k b : emits k b = true <-> k = KAlways \/ b = true.
Proof. destruct k, b; cbn; split; auto; intros [H|H]; congruence. Qed.

Lemma uses_of_cimported m p i : In (p, i) (uses_of m) -> In p (map fst m).
Proof.
  unfold uses_of. rewrite in_flat_map. intros [ci [Hci H]]. apply in_map_iff in H.
  destruct H as [j [E _]]. inversion E; subst. now apply in_map.
Qed.

(* what one compilation writes, for any context it is started with *)
Lemma compile_out_spec pxds c m p i :
  In (p, i) (snd (snd (compile pxds c m))) <->
  In p (map fst m) /\ i < length (entries_of pxds p) /\
  (nth i (entries_of pxds p) KAlways = KAlways \/ In (p, i) (uses_of m) \/ In (p, i) (marks c)).
Proof.
  rewrite compile_out, emit_spec. cbn [marks]. rewrite emits_spec, mem_pair_In, in_app_iff. tauto.
Qed.

(* ---------- sessions ---------- *)
Theorem session_reset_isolated pxds ms : session pxds true fresh ms = map (isolated pxds) ms.
Proof.
  induction ms as [|m r IH]; cbn; [reflexivity|]. unfold isolated at 1.
  destruct (compile pxds fresh m) as [c' o]. cbn. now rewrite IH.
Qed.

Theorem session_reset_nth pxds ms i m :
  nth_error ms i = Some m -> nth_error (session pxds true fresh ms) i = Some (isolated pxds m).
Proof. intros H. rewrite session_reset_isolated. now apply map_nth_error. Qed.

Theorem session_reset_order_independent pxds ms ms' :
  Permutation ms ms' ->
  Permutation (combine ms (session pxds true fresh ms)) (combine ms' (session pxds true fresh ms')).
Proof.
  intros Hp. rewrite !session_reset_isolated.
  assert (E : forall l, combine l (map (isolated pxds) l) = map (fun m => (m, isolated pxds m)) l).
  { induction l as [|x l IH]; cbn; [reflexivity|now rewrite IH]. }
  rewrite !E. now apply Permutation_map.
Qed.

Lemma run_marks pxds ms : forall c x,
  In x (marks (run pxds c ms)) <-> (exists m, In m ms /\ In x (uses_of m)) \/ In x (marks c).
Proof.
  induction ms as [|m r IH]; intros c x; cbn.
  - split; [auto|intros [[m [[] _]]|H]; exact H].
  - rewrite IH, compile_marks, in_app_iff. split.
    + intros [[m' [H1 H2]]|[H|H]]; [left; exists m'; auto|left; exists m; auto|auto].
    + intros [[m' [[<-|H1] H2]]|H]; [auto|left; exists m'; auto|auto].
Qed.

Lemma run_loaded pxds ms : forall c q,
  In q (loaded (run pxds c ms)) <-> (exists m, In m ms /\ In q (map fst m)) \/ In q (loaded c).
Proof.
  induction ms as [|m r IH]; intros c q; cbn.
  - split; [auto|intros [[m [[] _]]|H]; exact H].
  - rewrite IH, compile_loaded. split.
    + intros [[m' [H1 H2]]|[H|H]]; [left; exists m'; auto|left; exists m; auto|auto].
    + intros [[m' [[<-|H1] H2]]|H]; [auto|left; exists m'; auto|auto].
Qed.

Lemma session_noreset_nth_gen pxds prefix : forall c m rest,
  nth_error (session pxds false c (prefix ++ m :: rest)) (length prefix) =
  Some (snd (compile pxds (run pxds c prefix) m)).
Proof.
  induction prefix as [|a r IH]; intros c m rest; cbn.
  - destruct (compile pxds c m) as [c' o]. reflexivity.
  - destruct (compile pxds c a) as [c' o] eqn:E. cbn. apply IH.
Qed.

(* the element of a context-keeping session at position |prefix| is [after prefix m] *)
Theorem session_noreset_nth pxds prefix m rest :
  nth_error (session pxds false fresh (prefix ++ m :: rest)) (length prefix) = Some (after pxds prefix m).
Proof. apply session_noreset_nth_gen. Qed.

(* exactly which declarations a module gets when the context is kept *)
Theorem after_out_spec pxds prefix m p i :
  In (p, i) (snd (after pxds prefix m)) <->
  In p (map fst m) /\ i < length (entries_of pxds p) /\
  (nth i (entries_of pxds p) KAlways = KAlways \/ In (p, i) (uses_of m) \/
   exists m', In m' prefix /\ In (p, i) (uses_of m')).
Proof.
  unfold after. rewrite compile_out_spec, run_marks. cbn [marks fresh]. split.
  - intros [H1 [H2 [H|[H|[H|[]]]]]]; auto.
  - intros [H1 [H2 [H|[H|H]]]]; auto 6.
Qed.

Theorem isolated_out_spec pxds m p i :
  In (p, i) (snd (isolated pxds m)) <->
  In p (map fst m) /\ i < length (entries_of pxds p) /\
  (nth i (entries_of pxds p) KAlways = KAlways \/ In (p, i) (uses_of m)).
Proof.
  unfold isolated. rewrite compile_out_spec. cbn [marks fresh]. split.
  - intros [H1 [H2 [H|[H|[]]]]]; auto.
  - intros [H1 [H2 [H|H]]]; auto.
Qed.

(* which .pxd files a module parses when the context is kept: those no earlier module loaded *)
Theorem after_parsed_spec pxds prefix m q :
  In q (fst (after pxds prefix m)) <->
  In q (map fst m) /\ forall m', In m' prefix -> ~ In q (map fst m').
Proof.
  unfold after. rewrite compile_parsed, run_loaded. cbn [loaded fresh]. split.
  - intros [H1 H2]. split; [exact H1|]. intros m' Hm' Hq. apply H2. left. exists m'. auto.
  - intros [H1 H2]. split; [exact H1|]. intros [[m' [Hm' Hq]]|[]]. exact (H2 m' Hm' Hq).
Qed.

Theorem isolated_parsed_spec pxds m q : In q (fst (isolated pxds m)) <-> In q (map fst m).
Proof. unfold isolated. rewrite compile_parsed. cbn. tauto. Qed.

Lemma flat_map_ext_in' {A B} (f g : A -> list B) l :
  (forall a, In a l -> f a = g a) -> flat_map f l = flat_map g l.
Proof.
  induction l as [|x l IH]; intros H; cbn; [reflexivity|].
  rewrite (H x (or_introl eq_refl)), IH; [reflexivity|]. intros a Ha. apply H. now right.
Qed.

(* keeping the context is harmless exactly as long as no earlier module marked a used-only entry
   of a scope this module cimports that the module does not mark itself *)
Theorem after_eq_isolated pxds prefix m :
  (forall m' p i, In m' prefix -> In (p, i) (uses_of m') -> In p (map fst m) ->
                  i < length (entries_of pxds p) -> nth i (entries_of pxds p) KAlways = KUsed ->
                  In (p, i) (uses_of m)) ->
  snd (after pxds prefix m) = snd (isolated pxds m).
Proof.
  intros H. unfold after, isolated. rewrite !compile_out. unfold emit.
  apply flat_map_ext_in'. intros ci Hci. unfold emit_pxd. f_equal. apply filter_ext_in.
  intros i Hi. apply in_seq in Hi. cbn [marks fresh].
  destruct (nth i (entries_of pxds (fst ci)) KAlways) eqn:Ek; cbn; [reflexivity|].
  apply mem_pair_ext. rewrite !in_app_iff, run_marks. cbn [marks fresh]. split.
  - intros [Hu|[[m' [Hm' Hu]]|[]]]; [auto|]. left.
    apply (H m' (fst ci) i Hm' Hu); [now apply in_map|lia|exact Ek].
  - intros [Hu|[]]. auto.
Qed.

(* in particular for batches whose modules do not share any .pxd *)
Corollary after_eq_isolated_disjoint pxds prefix m :
  (forall m' p, In m' prefix -> In p (map fst m') -> ~ In p (map fst m)) ->
  snd (after pxds prefix m) = snd (isolated pxds m).
Proof.
  intros H. apply after_eq_isolated. intros m' p i Hm' Hu Hp _ _.
  exfalso. apply (H m' p Hm'); [now apply uses_of_cimported in Hu|exact Hp].
Qed.

(* ... and it does show as soon as one such mark exists: for EVERY batch of that shape *)
Theorem after_neq_isolated pxds prefix m m' p i :
  In m' prefix -> In (p, i) (uses_of m') -> In p (map fst m) ->
  i < length (entries_of pxds p) -> nth i (entries_of pxds p) KAlways = KUsed ->
  ~ In (p, i) (uses_of m) ->
  snd (after pxds prefix m) <> snd (isolated pxds m).
Proof.
  intros Hm' Hu Hp Hl Hk Hn E.
  assert (Ha : In (p, i) (snd (after pxds prefix m))).
  { apply after_out_spec. split; [exact Hp|]. split; [exact Hl|]. right. right. exists m'. auto. }
  rewrite E in Ha. apply isolated_out_spec in Ha. destruct Ha as [_ [_ [Hk'|Hu']]]; [congruence|auto].
Qed.

(* the witness: shared.pxd = [struct; inline f; inline g]; a uses f, b uses nothing of it *)
Theorem noreset_depends_on_prefix_refuted :
  exists pxds a b,
    nth_error (session pxds false fresh [a; b]) 1 <> Some (isolated pxds b) /\
    nth_error (session pxds false fresh [b; a]) 0 = Some (isolated pxds b) /\
    nth_error (session pxds true fresh [a; b]) 1 = Some (isolated pxds b).
Proof.
  exists [[KAlways; KUsed; KUsed]], [(0, [1])], [(0, [])].
  vm_compute. split; [intros H; inversion H|split; reflexivity].
Qed.
