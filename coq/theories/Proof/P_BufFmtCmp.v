(* C17 -- __pyx_typeinfo_cmp: the type-info comparison that replaces the format check when the
   exporter is a Cython memoryview.  Soundness of the repaired comparison for ALL type-info trees:
   "equal" type infos have pairwise compatible scalar members (same size, dimensions, absolute
   offset; same typegroup and signedness up to C char); refuted for the code as it is. *)
From Coq Require Import ZArith List Bool Lia.
From CyVerif Require Import Model.M_BufFmt.
Import ListNotations.
Open Scope Z_scope.

Definition opt_all (P : cinfo -> Prop) (fs : option (list (cinfo * Z))) : Prop :=
  match fs with None => True | Some l => Forall (fun f => P (fst f)) l end.
Section CInd.
  Variable P : cinfo -> Prop.
  Hypothesis H : forall s g u arr fl fs, opt_all P fs -> P (CInfo s g u arr fl fs).
  Fixpoint cinfo_ind2 (a : cinfo) : P a :=
    match a with
    | CInfo s g u arr fl fs =>
      H s g u arr fl fs
        (match fs as o return opt_all P o with
         | None => I
         | Some l => (fix go (l : list (cinfo * Z)) : Forall (fun f => P (fst f)) l :=
                        match l with
                        | [] => Forall_nil _
                        | f :: r => Forall_cons f (cinfo_ind2 (fst f)) (go r)
                        end) l
         end)
    end.
End CInd.

Definition cflat_fields (l : list (cinfo * Z)) (o : Z) : list cleaf :=
  (fix go (l : list (cinfo * Z)) : list cleaf :=
     match l with [] => [] | (t, fo) :: r => cflat t (o + fo) ++ go r end) l.
Definition cmp_fields (fixh : bool) (la lb : list (cinfo * Z)) : bool :=
  (fix go (la : list (cinfo * Z)) (lb : list (cinfo * Z)) : bool :=
     match la, lb with
     | [], [] => true
     | (ta, oa) :: ra, (tb, ob) :: rb => (oa =? ob) && ticmp fixh ta tb && go ra rb
     | _, _ => false
     end) la lb.

Lemma forall2b_app : forall (f : cleaf -> cleaf -> bool) a1 b1 a2 b2,
  forall2b f a1 b1 = true -> forall2b f a2 b2 = true -> forall2b f (a1 ++ a2) (b1 ++ b2) = true.
Proof.
  intros f a1. induction a1 as [|x r IH]; intros [|y r'] a2 b2 H1 H2; cbn in *; try discriminate; auto.
  apply andb_prop in H1. destruct H1 as [Hx Hr]. rewrite Hx. cbn. apply IH; assumption.
Qed.

Lemma zlist_eqb_refl : forall l, zlist_eqb l l = true.
Proof. induction l as [|x r IH]; cbn; [reflexivity|]. rewrite Z.eqb_refl, IH. reflexivity. Qed.

(* equal lengths + prefix comparison = list equality *)
Lemma arr_prefix_eq : forall a b, length a = length b -> arr_prefix_eqb a b = true -> zlist_eqb a b = true.
Proof.
  induction a as [|x r IH]; intros [|y r'] Hl Hp; cbn in *; try discriminate; auto.
  apply andb_prop in Hp. destruct Hp as [Hx Hr]. rewrite Hx. cbn. apply IH; [lia|exact Hr].
Qed.

Theorem ticmp_sound : forall a b o, ticmp true a b = true ->
  forall2b cleaf_compat (cflat a o) (cflat b o) = true.
Proof.
  intros a. induction a as [sa ga ua aa fa fsa IH] using cinfo_ind2.
  intros [sb gb ub ab fb fsb] o Hc.
  cbn [ticmp] in Hc.
  fold (cmp_fields true) in Hc.
  set (ndim_eq := Nat.eqb (length aa) (length ab)) in *.
  (* the continuation: arrays, flags, fields *)
  assert (CONT : forall (Hs : sa = sb) (Hn : ndim_eq = true)
            (Hg : (ga = gb /\ ua = ub) \/ ((ga = 72 \/ gb = 72) /\ fsa = None /\ fsb = None)),
            (if negb (arr_prefix_eqb aa ab) then false
             else if ga =? 83 then
               if negb (fa =? fb) then false
               else match fsa, fsb with
                    | None, None => true
                    | Some la, Some lb => cmp_fields true la lb
                    | _, _ => false
                    end
             else true) = true ->
            forall2b cleaf_compat (cflat (CInfo sa ga ua aa fa fsa) o) (cflat (CInfo sb gb ub ab fb fsb) o) = true).
  { clear Hc. intros Hs Hn Hg Hk. subst sb.
    destruct (arr_prefix_eqb aa ab) eqn:Ha; [|discriminate Hk]. cbn [negb] in Hk.
    assert (Hd : zlist_eqb aa ab = true).
    { apply arr_prefix_eq; [|exact Ha]. unfold ndim_eq in Hn. apply Nat.eqb_eq in Hn. exact Hn. }
    assert (LEAF : forall g1 g2 u1 u2, ((g1 = g2 /\ u1 = u2) \/ (g1 = 72 \/ g2 = 72)) ->
               forall2b cleaf_compat [(g1, sa, u1, aa, o)] [(g2, sa, u2, ab, o)] = true).
    { intros g1 g2 u1 u2 Hgg. cbn [forall2b cleaf_compat]. rewrite !Z.eqb_refl, Hd. cbn [andb].
      rewrite andb_true_r.
      destruct Hgg as [[-> ->]|[->| ->]]; rewrite ?Z.eqb_refl; cbn; rewrite ?orb_true_r; reflexivity. }
    destruct Hg as [[<- <-]|[Hh [-> ->]]].
    - (* same typegroup *)
      destruct (ga =? 83) eqn:Hg83.
      + destruct (fa =? fb); [|discriminate Hk]. cbn [negb] in Hk.
        destruct fsa as [la|], fsb as [lb|]; try discriminate Hk.
        * unfold opt_all in IH. cbn [cflat]. rewrite Hg83. fold (cflat_fields la o). fold (cflat_fields lb o).
          clear Ha Hd LEAF. revert lb Hk. induction la as [|[ta oa] ra IHr]; intros [|[tb ob] rb] Hk;
            cbn in Hk; try discriminate; [reflexivity|].
          apply andb_prop in Hk. destruct Hk as [Hk Hr]. apply andb_prop in Hk. destruct Hk as [Ho Ht].
          apply Z.eqb_eq in Ho. subst ob.
          cbn [cflat_fields]. fold (cflat_fields ra o). fold (cflat_fields rb o).
          apply forall2b_app.
          -- exact (Forall_inv IH tb (o + oa) Ht).
          -- apply IHr; [exact (Forall_inv_tail IH)|exact Hr].
        * cbn [cflat]. apply LEAF. left. split; reflexivity.
      + cbn [cflat]. rewrite Hg83. destruct fsa, fsb; apply LEAF; left; split; reflexivity.
    - cbn [cflat]. apply LEAF. right. exact Hh. }
  destruct ((sa =? sb) && (ga =? gb) && (ua =? ub) && ndim_eq) eqn:Hb.
  - apply andb_prop in Hb. destruct Hb as [Hb Hn]. apply andb_prop in Hb. destruct Hb as [Hb Hu].
    apply andb_prop in Hb. destruct Hb as [Hs Hg]. apply Z.eqb_eq in Hs, Hg, Hu.
    apply CONT; auto.
  - destruct (((ga =? 72) || (gb =? 72)) && (sa =? sb) && ndim_eq && is_none fsa && is_none fsb) eqn:Hh;
      [|discriminate Hc].
    apply andb_prop in Hh. destruct Hh as [Hh Hnb]. apply andb_prop in Hh. destruct Hh as [Hh Hna].
    apply andb_prop in Hh. destruct Hh as [Hh Hn]. apply andb_prop in Hh. destruct Hh as [Hg Hs].
    apply Z.eqb_eq in Hs. destruct fsa; [discriminate Hna|]. destruct fsb; [discriminate Hnb|].
    apply CONT; auto. right. split; [|split; reflexivity].
    apply orb_prop in Hg. destruct Hg as [Hg|Hg]; apply Z.eqb_eq in Hg; auto.
Qed.

Corollary ticmp_sound0 : forall a b, ticmp true a b = true -> cinfo_compat a b = true.
Proof. intros a b H. exact (ticmp_sound a b 0 H). Qed.

(* witnesses: A {int i; char s[3]} against B {int i; signed char s} (both 8 bytes) *)
Definition ci_int : cinfo := CInfo 4 73 0 [] 0 None.
Definition ci_A : cinfo := CInfo 8 83 0 [] 0 (Some [(ci_int, 0); (CInfo 1 72 0 [3] 0 None, 4)]).
Definition ci_B : cinfo := CInfo 8 83 0 [] 0 (Some [(ci_int, 0); (CInfo 1 73 0 [] 0 None, 4)]).
Lemma ticmp_char_array_witness :
  ticmp false ci_B ci_A = true /\ ticmp false ci_A ci_B = true /\ cinfo_compat ci_B ci_A = false /\
  ticmp true ci_B ci_A = false /\ ticmp true ci_A ci_B = false /\ ticmp true ci_A ci_A = true.
Proof. repeat split; vm_compute; reflexivity. Qed.
