From Coq Require Import ZArith List Bool Lia ZifyBool.
From CyVerif Require Import Lib.CInt Model.M_MemSlice.
Import ListNotations.
Open Scope Z_scope.

(* ---------- C truncating division vs the CPython slice-length formula ---------- *)

Lemma quot_facts a b : b <> 0 ->
  a = b * Z.quot a b + Z.rem a b /\ Z.abs (Z.rem a b) < Z.abs b /\ 0 <= Z.rem a b * a.
Proof.
  intros Hb. split; [apply Z.quot_rem'|]. split; [apply Z.rem_bound_abs; exact Hb|].
  apply Z.rem_sign_mul; exact Hb.
Qed.

Lemma quot_nonneg a b : (0 <= a /\ 0 < b) \/ (a <= 0 /\ b < 0) -> 0 <= Z.quot a b.
Proof.
  intros [[Ha Hb]|[Ha Hb]].
  - apply Z.quot_pos; assumption.
  - rewrite <- (Z.quot_opp_opp a b) by lia. apply Z.quot_pos; lia.
Qed.

Lemma quot_nonpos a b : (0 <= a /\ b < 0) \/ (a <= 0 /\ 0 < b) -> Z.quot a b <= 0.
Proof.
  intros [[Ha Hb]|[Ha Hb]].
  - assert (H : 0 <= Z.quot a (- b)) by (apply Z.quot_pos; lia).
    rewrite Z.quot_opp_r in H by lia. lia.
  - assert (H : 0 <= Z.quot (- a) b) by (apply Z.quot_pos; lia).
    rewrite Z.quot_opp_l in H by lia. lia.
Qed.

(* the repaired rounding: ceil((stop-start)/step) clamped at 0 = CPython's slicelength *)
Lemma ceil_len_fixed_eq fc s e st : st <> 0 ->
  ceil_len {| fx_clamp := fc; fx_ceil := true |} s e st = py_len s e st.
Proof.
  intros Hst. unfold ceil_len, py_len. cbn [fx_ceil].
  destruct (quot_facts (e - s) st Hst) as (E & Hr & Hs).
  set (d := e - s) in *. set (q := Z.quot d st) in *.
  assert (Er : d - st * q = Z.rem d st) by lia.
  rewrite Er. set (r := Z.rem d st) in *.
  destruct (Z.ltb_spec st 0) as [Hneg|Hpos].
  - (* negative step *)
    destruct (Z.ltb_spec e s) as [Hlt|Hge].
    + (* d < 0 : non-empty *)
      assert (Hr0 : r <= 0) by (apply Z.rem_nonpos; lia).
      assert (Hq0 : 0 <= q) by (apply quot_nonneg; lia).
      destruct (Z.eqb_spec r 0) as [R0|R0]; cbn [negb andb].
      * assert (Hq : (s - e - 1) / (- st) = q - 1).
        { symmetry. apply Z.div_unique with (r := - st - 1); [lia|nia]. }
        rewrite Hq. destruct (Z.ltb_spec q 0); lia.
      * destruct (Z.ltb_spec r 0) as [_|?]; [|lia]. cbn [Bool.eqb].
        assert (Hq : (s - e - 1) / (- st) = q).
        { symmetry. apply Z.div_unique with (r := - r - 1); [lia|nia]. }
        rewrite Hq. destruct (Z.ltb_spec (q + 1) 0); lia.
    + (* d >= 0 : empty *)
      assert (Hr0 : 0 <= r) by (apply Z.rem_nonneg; lia).
      assert (Hq0 : q <= 0) by (apply quot_nonpos; lia).
      destruct (Z.eqb_spec r 0) as [R0|R0]; cbn [negb andb].
      * destruct (Z.ltb_spec q 0); lia.
      * destruct (Z.ltb_spec r 0) as [?|_]; [lia|]. cbn [Bool.eqb].
        destruct (Z.ltb_spec q 0); lia.
  - (* positive step *)
    assert (Hp : 0 < st) by lia.
    destruct (Z.ltb_spec s e) as [Hlt|Hge].
    + assert (Hr0 : 0 <= r) by (apply Z.rem_nonneg; lia).
      assert (Hq0 : 0 <= q) by (apply quot_nonneg; lia).
      destruct (Z.eqb_spec r 0) as [R0|R0]; cbn [negb andb].
      * assert (Hq : (d - 1) / st = q - 1).
        { symmetry. apply Z.div_unique with (r := st - 1); [lia|nia]. }
        rewrite Hq. destruct (Z.ltb_spec q 0); lia.
      * destruct (Z.ltb_spec r 0) as [?|_]; [lia|]. cbn [Bool.eqb].
        assert (Hq : (d - 1) / st = q).
        { symmetry. apply Z.div_unique with (r := r - 1); [lia|nia]. }
        rewrite Hq. destruct (Z.ltb_spec (q + 1) 0); lia.
    + assert (Hr0 : r <= 0) by (apply Z.rem_nonpos; lia).
      assert (Hq0 : q <= 0) by (apply quot_nonpos; lia).
      destruct (Z.eqb_spec r 0) as [R0|R0]; cbn [negb andb].
      * destruct (Z.ltb_spec q 0); lia.
      * destruct (Z.ltb_spec r 0) as [_|?]; [|lia]. cbn [Bool.eqb].
        destruct (Z.ltb_spec q 0); lia.
Qed.

(* ---------- normalised bounds vs slice.indices ---------- *)

Definition py_clamp (length : Z) (neg : bool) (v : Z) : Z :=
  let lower := if neg then -1 else 0 in
  let upper := if neg then length - 1 else length in
  if v <? 0 then (let s := v + length in if s <? lower then lower else s)
  else (if v >? upper then upper else v).

Definition py_start (length : Z) (neg : bool) (o : option Z) : Z :=
  match o with
  | None => if neg then (if neg then length - 1 else length) else (if neg then -1 else 0)
  | Some s => py_clamp length neg s
  end.

Definition py_stop (length : Z) (neg : bool) (o : option Z) : Z :=
  match o with
  | None => if neg then (if neg then -1 else 0) else (if neg then length - 1 else length)
  | Some s => py_clamp length neg s
  end.

Lemma py_slice_indices_unfold length a b c :
  py_slice_indices length a b c =
  let step' := match c with None => 1 | Some s => s end in
  if step' =? 0 then None
  else Some (py_len (py_start length (step' <? 0) a) (py_stop length (step' <? 0) b) step',
             py_start length (step' <? 0) a, step').
Proof. reflexivity. Qed.

Lemma norm_start_eq fe shape neg hs start : 0 <= shape ->
  norm_start {| fx_clamp := true; fx_ceil := fe |} shape neg hs start = py_start shape neg (opt hs start).
Proof.
  intros Hs. unfold norm_start, py_start, py_clamp, clamp_low, opt. cbn [fx_clamp].
  destruct hs, neg; cbn [andb];
    repeat match goal with |- context [if ?b then _ else _] => destruct b eqn:? end; lia.
Qed.

(* the stop bound may differ (shape instead of shape-1 for a negative step), never the length *)
Lemma norm_stop_len fe shape neg he stop s st : 0 <= shape ->
  neg = (st <? 0) -> (neg = true -> s <= shape - 1) ->
  py_len s (norm_stop {| fx_clamp := true; fx_ceil := fe |} shape neg he stop) st
  = py_len s (py_stop shape neg (opt he stop)) st.
Proof.
  intros Hs Hn Hb. unfold norm_stop, py_stop, py_clamp, clamp_low, opt. cbn [fx_clamp].
  destruct he, neg; cbn [andb];
    repeat match goal with |- context [if ?b then _ else _] => destruct b eqn:? end;
    try reflexivity; try (f_equal; lia).
  all: unfold py_len; rewrite <- Hn;
    repeat match goal with |- context [if ?b then _ else _] => destruct b eqn:? end; try lia.
Qed.

Lemma py_start_neg_bound shape o : 0 <= shape -> py_start shape true o <= shape - 1.
Proof.
  intros Hs. unfold py_start, py_clamp. destruct o; [|lia].
  repeat match goal with |- context [if ?b then _ else _] => destruct b eqn:? end; lia.
Qed.

(* MAIN: the repaired per-dimension computation = slice(start, stop, step).indices(shape) + length *)
Lemma slice_triple_eq shape start stop step hs he hst : 0 <= shape ->
  slice_triple fixes_all shape start stop step hs he hst
  = py_slice_indices shape (opt hs start) (opt he stop) (opt hst step).
Proof.
  intros Hs. rewrite py_slice_indices_unfold. unfold slice_triple, slice_bounds, fixes_all.
  destruct hst; cbn [andb].
  - change (opt true step) with (Some step). cbv beta iota zeta.
    destruct (Z.eqb_spec step 0) as [Z0|NZ]; [reflexivity|].
    rewrite ceil_len_fixed_eq by exact NZ.
    rewrite norm_start_eq by exact Hs.
    rewrite norm_stop_len; [reflexivity|exact Hs|reflexivity|].
    intros Hn. rewrite Hn. apply py_start_neg_bound; exact Hs.
  - change (opt false step) with (@None Z). cbv beta iota zeta.
    change (1 =? 0) with false. change (1 <? 0) with false. cbv iota.
    rewrite ceil_len_fixed_eq by lia.
    rewrite norm_start_eq by exact Hs.
    rewrite norm_stop_len; [reflexivity|exact Hs|reflexivity|discriminate].
Qed.

(* ---------- PySlice_Unpack + PySlice_AdjustIndices = slice.indices (values that fit) ---------- *)

Lemma py_len_stop_irrel s e1 e2 st :
  e1 = e2 \/ (st < 0 /\ s <= e1 /\ s <= e2) \/ (0 <= st /\ e1 <= s /\ e2 <= s) ->
  py_len s e1 st = py_len s e2 st.
Proof.
  intros [->|[(H1 & H2 & H3)|(H1 & H2 & H3)]]; [reflexivity| |]; unfold py_len;
    repeat match goal with |- context [if ?b then _ else _] => destruct b eqn:? end; lia.
Qed.

Lemma py_slice_ssize_eq M length a b c :
  0 <= length <= M -> (forall s, c = Some s -> - M <= s) ->
  py_slice_ssize M length a b c = py_slice_indices length a b c.
Proof.
  intros HM Hc. rewrite py_slice_indices_unfold. unfold py_slice_ssize, py_unpack.
  set (st0 := match c with Some s => if s <? - M then - M else s | None => 1 end).
  assert (Est : st0 = match c with Some s => s | None => 1 end).
  { unfold st0. destruct c as [s|]; [|reflexivity]. specialize (Hc s eq_refl).
    destruct (Z.ltb_spec s (- M)); [lia|reflexivity]. }
  rewrite <- Est. clearbody st0. clear Est Hc.
  destruct (Z.eqb_spec st0 0) as [Z0|NZ]; [reflexivity|].
  unfold py_adjust.
  match goal with |- Some (py_len ?s1 ?e1 _, ?s1', _) = Some (py_len ?s2 ?e2 _, _, _) =>
    assert (Es : s1 = s2); [| assert (Ee : e1 = e2) ] end.
  - unfold py_start, py_clamp. destruct a as [s|];
      repeat match goal with |- context [if ?b then _ else _] => destruct b eqn:? end; lia.
  - unfold py_stop, py_clamp. destruct b as [s|];
      repeat match goal with |- context [if ?b then _ else _] => destruct b eqn:? end; lia.
  - rewrite Es, Ee. reflexivity.
Qed.

Lemma slice_triple_ssize_eq M shape start stop step hs he hst :
  0 <= shape <= M -> (hst = true -> - M <= step) ->
  slice_triple fixes_all shape start stop step hs he hst
  = py_slice_ssize M shape (opt hs start) (opt he stop) (opt hst step).
Proof.
  intros HM Hst. rewrite py_slice_ssize_eq; [apply slice_triple_eq; lia|exact HM|].
  intros s Hs. destruct hst; [injection Hs as <-; auto|discriminate].
Qed.

(* ---------- elements and bounds ---------- *)

(* the view's i-th element lives at the base offset of element first + i*step (any variant) *)
Lemma element_eq fx shape stride start stop step hs he hst n s' o :
  slice_dim fx shape stride start stop step hs he hst = DSlice n s' o ->
  exists first istep,
    slice_triple fx shape start stop step hs he hst = Some (n, first, istep) /\
    (0 <= first -> forall i, o + i * s' = (first + i * istep) * stride) /\
    (first < 0 -> o = 0).
Proof.
  unfold slice_dim, slice_triple.
  destruct (slice_bounds fx shape start stop step hs he hst) as [[[[s0 e0] st0] n0]|]; [|discriminate].
  intros H. injection H as <- <- <-. exists s0, st0. split; [reflexivity|].
  destruct (Z.ltb_spec s0 0) as [Hneg|Hpos]; split.
  - intros Hge. lia.
  - intros _. ring.
  - intros _ i. ring.
  - intros Hlt. lia.
Qed.

Lemma py_clamp_bounds length (neg : bool) v : 0 <= length ->
  (if neg return Z then -1 else 0) <= py_clamp length neg v <= (if neg return Z then length - 1 else length).
Proof.
  intros H. unfold py_clamp. destruct neg;
    repeat match goal with |- context [if ?b then _ else _] => destruct b eqn:? end; lia.
Qed.

(* every index selected by slice.indices lies inside the sequence *)
Lemma py_slice_in_bounds length a b c n first step i :
  0 <= length -> py_slice_indices length a b c = Some (n, first, step) ->
  0 <= i < n -> 0 <= first + i * step < length.
Proof.
  intros Hl. rewrite py_slice_indices_unfold. cbv zeta.
  set (st := match c with Some s => s | None => 1 end).
  destruct (Z.eqb_spec st 0) as [Z0|NZ]; [discriminate|].
  intros H Hi. injection H as Hn Hf Hst. subst step first.
  set (s := py_start length (st <? 0) a) in *. set (e := py_stop length (st <? 0) b) in *.
  assert (Bs : (if st <? 0 return Z then -1 else 0) <= s <= (if st <? 0 return Z then length - 1 else length)).
  { unfold s, py_start. destruct a; [apply py_clamp_bounds; exact Hl|]. destruct (st <? 0); lia. }
  assert (Be : (if st <? 0 return Z then -1 else 0) <= e <= (if st <? 0 return Z then length - 1 else length)).
  { unfold e, py_stop. destruct b; [apply py_clamp_bounds; exact Hl|]. destruct (st <? 0); lia. }
  unfold py_len in Hn. clearbody s e.
  destruct (Z.ltb_spec st 0) as [Hneg|Hpos].
  - destruct (Z.ltb_spec e s) as [Hlt|Hge]; [|lia].
    assert (Hk : i * (- st) <= s - e - 1).
    { pose proof (Z.mul_div_le (s - e - 1) (- st) ltac:(lia)) as Hm.
      assert (i <= (s - e - 1) / (- st)) by lia. nia. }
    nia.
  - destruct (Z.ltb_spec s e) as [Hlt|Hge]; [|lia].
    assert (Hk : i * st <= e - s - 1).
    { pose proof (Z.mul_div_le (e - s - 1) st ltac:(lia)) as Hm.
      assert (i <= (e - s - 1) / st) by lia. nia. }
    nia.
Qed.

Lemma offsets_in_bounds shape start stop step hs he hst n first istep i :
  0 <= shape ->
  slice_triple fixes_all shape start stop step hs he hst = Some (n, first, istep) ->
  0 <= i < n -> 0 <= first + i * istep < shape.
Proof.
  intros Hs H Hi. rewrite slice_triple_eq in H by exact Hs.
  eapply py_slice_in_bounds; eassumption.
Qed.

Lemma py_len_nonneg s e st : st <> 0 -> 0 <= py_len s e st.
Proof.
  intros H. unfold py_len.
  destruct (Z.ltb_spec st 0); [destruct (Z.ltb_spec e s)|destruct (Z.ltb_spec s e)]; try lia.
  - pose proof (Z.div_pos (s - e - 1) (- st) ltac:(lia) ltac:(lia)). lia.
  - pose proof (Z.div_pos (e - s - 1) st ltac:(lia) ltac:(lia)). lia.
Qed.

(* ---------- integer index ---------- *)

Lemma index_dim_eq shape stride i :
  index_dim shape stride i =
  match py_index shape i with Some k => DIndex (k * stride) | None => DErr IndexError end.
Proof. unfold index_dim, py_index. destruct (_ && _); reflexivity. Qed.

Lemma py_index_spec length i :
  0 <= length ->
  (- length <= i < length -> py_index length i = Some (if i <? 0 then i + length else i)
                             /\ 0 <= (if i <? 0 then i + length else i) < length)
  /\ (~ (- length <= i < length) -> py_index length i = None).
Proof.
  intros Hl. unfold py_index. destruct (Z.ltb_spec i 0); split; intros Hx;
    match goal with |- context [if ?b then _ else _] => destruct b eqn:? end;
    try (split; [reflexivity|]); try reflexivity; lia.
Qed.

Lemma index_oob_raises shape stride i : 0 <= shape ->
  (index_dim shape stride i = DErr IndexError <-> ~ (- shape <= i < shape)).
Proof.
  intros Hs. rewrite index_dim_eq. destruct (py_index_spec shape i Hs) as [Hin Hout]. split.
  - intros H Hr. destruct (Hin Hr) as [E _]. rewrite E in H. discriminate.
  - intros Hr. rewrite (Hout Hr). reflexivity.
Qed.

(* ---------- zero step; bare ':' ---------- *)

Lemma zero_step_raises fx shape stride start stop step hs he hst :
  slice_dim fx shape stride start stop step hs he hst = DErr ValueError
  <-> (hst = true /\ step = 0).
Proof.
  unfold slice_dim, slice_bounds. destruct hst; cbn [andb].
  - destruct (Z.eqb_spec step 0); split; intros H; try reflexivity; try (split; auto; fail);
      try discriminate; lia.
  - split; [discriminate|intros [? _]; discriminate].
Qed.

Lemma slice_dim_never_index_error fx shape stride start stop step hs he hst :
  slice_dim fx shape stride start stop step hs he hst <> DErr IndexError.
Proof.
  unfold slice_dim. destruct (slice_bounds _ _ _ _ _ _ _ _) as [[[[? ?] ?] ?]|]; discriminate.
Qed.

Lemma simple_slice_eq fx shape stride : 0 <= shape ->
  slice_dim fx shape stride 0 0 0 false false false = simple_slice shape stride.
Proof.
  intros Hs. unfold slice_dim, slice_bounds, simple_slice, norm_start, norm_stop, ceil_len.
  cbn [andb]. rewrite Z.sub_0_r, Z.quot_1_r, Z.mul_1_l, Z.sub_diag, Z.mul_1_r, Z.mul_0_l.
  change (0 =? 0) with true. cbn [negb andb].
  destruct (fx_ceil fx); destruct (Z.ltb_spec shape 0); try lia; reflexivity.
Qed.

(* ---------- the code before the repairs ---------- *)

(* F7: a[:-12:-1] on 5 elements *)
Lemma clamp_unfixed_refuted : forall fe, exists shape start stop step hs he hst,
  0 <= shape /\ (hst = true -> step <> 0) /\
  slice_triple {| fx_clamp := false; fx_ceil := fe |} shape start stop step hs he hst
  <> py_slice_indices shape (opt hs start) (opt he stop) (opt hst step).
Proof.
  intros fe. exists 5, 0, (-12), (-1), false, true, true.
  split; [lia|]. split; [lia|]. destruct fe; vm_compute; discriminate.
Qed.

(* truncating ceil: a[3:2:2] on 5 elements has one element *)
Lemma ceil_unfixed_refuted : forall fc, exists shape start stop step hs he hst,
  0 <= shape /\ (hst = true -> step <> 0) /\
  slice_triple {| fx_clamp := fc; fx_ceil := false |} shape start stop step hs he hst
  <> py_slice_indices shape (opt hs start) (opt he stop) (opt hst step).
Proof.
  intros fc. exists 5, 3, 2, 2, true, true, true.
  split; [lia|]. split; [lia|]. destruct fc; vm_compute; discriminate.
Qed.

(* ... and a[5:4:2] on 5 elements addresses element 5 *)
Lemma bounds_unfixed_refuted : forall fc, exists shape start stop step hs he hst n first istep i,
  0 <= shape /\
  slice_triple {| fx_clamp := fc; fx_ceil := false |} shape start stop step hs he hst = Some (n, first, istep)
  /\ 0 <= i < n /\ ~ (0 <= first + i * istep < shape).
Proof.
  intros fc. exists 5, 5, 4, 2, true, true, true, 1, 5, 2, 0.
  split; [lia|]. split; [destruct fc; vm_compute; reflexivity|]. lia.
Qed.

(* ---------- several dimensions ---------- *)

Lemma opt_have_oz o : opt (have o) (oz o) = o.
Proof. destruct o; reflexivity. Qed.

Lemma slice_of_idx_eq fx sh st a b c : 0 <= sh ->
  slice_of_idx fx sh st a b c = slice_dim fx sh st (oz a) (oz b) (oz c) (have a) (have b) (have c).
Proof.
  intros Hs. unfold slice_of_idx. destruct a, b, c; try reflexivity.
  symmetry. apply simple_slice_eq; exact Hs.
Qed.

Lemma elem_offset_shift dims : forall js x c,
  elem_offset (x + c) dims js = elem_offset x dims js + c.
Proof.
  induction dims as [|[sh st] dr IH]; intros js x c; [destruct js; reflexivity|].
  destruct js as [|j jr]; [reflexivity|]. cbn [elem_offset].
  replace (x + c + j * st) with (x + j * st + c) by ring. apply IH.
Qed.

(* Every element of the result view is the element of the base that Python/NumPy basic
   indexing selects (base_index), that element lies inside the base, and it is read at the
   same byte offset. *)
Lemma slice_nd_elements : forall ixs dims off off' rdims,
  Forall (fun d => 0 <= fst d) dims ->
  slice_nd fixes_all dims ixs off = NdOk off' rdims ->
  forall js, in_box rdims js ->
  exists ks, base_index (map fst dims) ixs js = Some ks /\ in_box dims ks /\
             elem_offset off' rdims js = elem_offset off dims ks.
Proof.
  induction ixs as [|ix r IH]; intros dims off off' rdims Hd H js Hjs.
  - cbn [slice_nd] in H. destruct dims; [|discriminate]. injection H as <- <-.
    destruct js; [|contradiction]. exists []. repeat split.
  - destruct ix as [i|a b c| |].
    + (* integer *)
      cbn [slice_nd] in H. destruct dims as [|[sh st] dr]; [discriminate|].
      rewrite index_dim_eq in H. unfold py_index in H.
      set (k := if i <? 0 then i + sh else i) in *.
      destruct ((0 <=? k) && (k <? sh)) eqn:Hk; [|discriminate].
      inversion Hd as [|? ? Hsh Hdr]; subst.
      destruct (IH dr (off + k * st) off' rdims Hdr H js Hjs) as (ks & Hb & Hbox & Ho).
      exists (k :: ks). cbn [base_index map fst]. unfold py_index. fold k. rewrite Hk, Hb.
      repeat split; try lia; assumption.
    + (* slice *)
      cbn [slice_nd] in H. destruct dims as [|[sh st] dr]; [discriminate|].
      inversion Hd as [|? ? Hsh Hdr]; subst. cbn [fst] in Hsh.
      rewrite slice_of_idx_eq in H by exact Hsh.
      destruct (slice_dim fixes_all sh st (oz a) (oz b) (oz c) (have a) (have b) (have c))
        as [?|n s o|?] eqn:Hsd; try discriminate.
      destruct (slice_nd fixes_all dr r (off + o)) as [o'' ds| |] eqn:Hr; try discriminate.
      injection H as <- <-.
      destruct (element_eq _ _ _ _ _ _ _ _ _ _ _ _ Hsd) as (first & istep & Ht & Hoff & _).
      pose proof Ht as Ht'. rewrite slice_triple_eq in Ht' by exact Hsh. rewrite !opt_have_oz in Ht'.
      destruct js as [|j jr]; [contradiction|]. destruct Hjs as [Hj Hjr].
      assert (Hf0 : 0 <= first).
      { assert (H00 : 0 <= first + 0 * istep < sh) by (eapply offsets_in_bounds; [exact Hsh | exact Ht | lia]). lia. }
      specialize (Hoff Hf0).
      destruct (IH dr (off + o) o'' ds Hdr Hr jr Hjr) as (ks & Hb & Hbox & Ho).
      exists ((first + j * istep) :: ks). cbn [base_index map fst]. rewrite Ht'.
      assert (Hjb : (0 <=? j) && (j <? n) = true) by lia. rewrite Hjb, Hb.
      split; [reflexivity|]. split.
      * split; [|exact Hbox]. eapply offsets_in_bounds; eassumption.
      * cbn [elem_offset]. rewrite elem_offset_shift, Ho, <- elem_offset_shift. f_equal.
        rewrite <- Hoff. ring.
    + (* new axis *)
      cbn [slice_nd] in H.
      destruct (slice_nd fixes_all dims r off) as [o'' ds| |] eqn:Hr; try discriminate.
      injection H as <- <-.
      destruct js as [|j jr]; [contradiction|]. destruct Hjs as [Hj Hjr].
      destruct (IH dims off o'' ds Hd Hr jr Hjr) as (ks & Hb & Hbox & Ho).
      exists ks. cbn [base_index]. assert (E : j = 0) by lia. subst j. cbn [Z.eqb].
      repeat split; try assumption. cbn [elem_offset].
      replace (o'' + 0 * 0) with o'' by ring. exact Ho.
    + discriminate.
Qed.

(* result shape of the N-d composition: extents are non-negative *)
Lemma slice_nd_errors : forall ixs dims off e,
  slice_nd fixes_all dims ixs off = NdErr e ->
  (e = ValueError -> exists a b, In (ISlice a b (Some 0)) ixs) /\
  (e = IndexError -> exists i, In (IInt i) ixs).
Proof.
  induction ixs as [|ix r IH]; intros dims off e H.
  - cbn [slice_nd] in H. destruct dims; discriminate.
  - destruct ix as [i|a b c| |]; cbn [slice_nd] in H.
    + destruct dims as [|[sh st] dr]; [discriminate|].
      destruct (index_dim sh st i) as [o| |e'] eqn:Hi; try discriminate.
      * destruct (IH _ _ _ H) as [H1 H2]. split; intros He.
        -- destruct (H1 He) as (a & b & Hin). exists a, b. right; exact Hin.
        -- exists i. left; reflexivity.
      * injection H as <-. unfold index_dim in Hi. destruct (_ && _); [discriminate|].
        injection Hi as <-. split; [discriminate|]. intros _. exists i. left; reflexivity.
    + destruct dims as [|[sh st] dr]; [discriminate|].
      destruct (slice_of_idx fixes_all sh st a b c) as [?|n s o|e'] eqn:Hsd; try discriminate.
      * destruct (slice_nd fixes_all dr r (off + o)) as [| e'' |] eqn:Hr; try discriminate.
        injection H as <-. destruct (IH _ _ _ Hr) as [H1 H2]. split; intros He.
        -- destruct (H1 He) as (a' & b' & Hin). exists a', b'. right; exact Hin.
        -- destruct (H2 He) as (i & Hin). exists i. right; exact Hin.
      * injection H as <-. unfold slice_of_idx in Hsd.
        assert (Hd : slice_dim fixes_all sh st (oz a) (oz b) (oz c) (have a) (have b) (have c) = DErr e').
        { destruct a, b, c; try exact Hsd. discriminate. }
        destruct e'.
        -- exfalso. eapply slice_dim_never_index_error; exact Hd.
        -- apply zero_step_raises in Hd. destruct Hd as [Hh Hz]. split; [|discriminate].
           intros _. destruct c as [c0|]; [|discriminate]. cbn [oz] in Hz. subst c0.
           exists a, b. left; reflexivity.
    + destruct (slice_nd fixes_all dims r off) as [| e'' |] eqn:Hr; try discriminate.
      injection H as <-. destruct (IH _ _ _ Hr) as [H1 H2]. split; intros He.
      * destruct (H1 He) as (a & b & Hin). exists a, b. right; exact Hin.
      * destruct (H2 He) as (i & Hin). exists i. right; exact Hin.
    + discriminate.
Qed.

(* ---------- the unrepaired code outside the two finding classes ---------- *)

Lemma ceil_len_unfixed_eq fc s e st : st <> 0 -> ceil_class s e st = false ->
  ceil_len {| fx_clamp := fc; fx_ceil := false |} s e st
  = ceil_len {| fx_clamp := fc; fx_ceil := true |} s e st.
Proof.
  intros Hst Hc. unfold ceil_len, ceil_class in *. cbn [fx_ceil].
  destruct (quot_facts (e - s) st Hst) as (E & Hr & Hs).
  set (d := e - s) in *. set (q := Z.quot d st) in *.
  assert (Er : d - st * q = Z.rem d st) by lia.
  rewrite Er. set (r := Z.rem d st) in *.
  destruct (Z.eqb_spec r 0) as [R0|R0]; cbn [negb andb]; [reflexivity|].
  destruct (Bool.eqb (r <? 0) (st <? 0)) eqn:Hsg; [reflexivity|].
  (* remainder of the sign opposite to the step: exact quotient negative *)
  assert (Hd0 : d <> 0) by (intros D0; apply R0; unfold r; rewrite D0; apply Z.rem_0_l; exact Hst).
  assert (Hq : q <= 0).
  { apply quot_nonpos. revert Hsg.
    destruct (Z.ltb_spec r 0), (Z.ltb_spec st 0); cbn [Bool.eqb]; intros Hsg;
      try discriminate; [right|left]; split; try lia.
    all: try (destruct (Z.le_gt_cases d 0); [assumption|]; pose proof (Z.rem_nonneg d st Hst ltac:(lia)); lia).
    all: try (destruct (Z.le_gt_cases 0 d); [assumption|]; pose proof (Z.rem_nonpos d st Hst ltac:(lia)); lia). }
  destruct (Z.eq_dec q 0) as [Q0|Q0].
  - exfalso. assert (Edr : d = r) by (rewrite Q0 in E; lia).
    destruct (Z.eqb_spec d 0); [lia|]. cbn [negb andb] in Hc. rewrite Edr in Hc.
    rewrite Hsg in Hc. cbn [negb andb] in Hc. lia.
  - destruct (Z.ltb_spec (q + 1) 0), (Z.ltb_spec q 0); lia.
Qed.

Lemma norm_unfixed_eq fe shape start stop step hs he hst :
  f7_class shape start stop step hs he hst = false ->
  let neg := hst && (step <? 0) in
  norm_start {| fx_clamp := false; fx_ceil := fe |} shape neg hs start
    = norm_start {| fx_clamp := true; fx_ceil := fe |} shape neg hs start /\
  norm_stop {| fx_clamp := false; fx_ceil := fe |} shape neg he stop
    = norm_stop {| fx_clamp := true; fx_ceil := fe |} shape neg he stop.
Proof.
  unfold f7_class, norm_start, norm_stop, clamp_low. cbn [fx_clamp]. intros H. cbv zeta.
  destruct hst, hs, he; cbn [andb orb] in *;
    repeat match goal with |- context [if ?b then _ else _] => destruct b eqn:? end;
    split; try reflexivity; lia.
Qed.

Lemma slice_triple_current_partial shape start stop step hs he hst : 0 <= shape ->
  f7_class shape start stop step hs he hst = false ->
  (forall s' e' st' n, slice_bounds fixes_all shape start stop step hs he hst = Some (s', e', st', n) ->
                       ceil_class s' e' st' = false) ->
  slice_triple fixes_none shape start stop step hs he hst
  = py_slice_indices shape (opt hs start) (opt he stop) (opt hst step).
Proof.
  intros Hs Hf Hc. rewrite <- slice_triple_eq by exact Hs.
  unfold slice_triple, slice_bounds, fixes_none, fixes_all in *.
  destruct (hst && (step =? 0)) eqn:Hz; [reflexivity|].
  destruct (norm_unfixed_eq false shape start stop step hs he hst Hf) as [E1 E2].
  cbv zeta in E1, E2. rewrite E1.
  assert (E2' : forall fe, norm_stop {| fx_clamp := false; fx_ceil := fe |} shape (hst && (step <? 0)) he stop
                = norm_stop {| fx_clamp := true; fx_ceil := fe |} shape (hst && (step <? 0)) he stop).
  { intros fe. unfold norm_stop, clamp_low in *. cbn [fx_clamp] in *. exact E2. }
  assert (E1' : forall fe, norm_start {| fx_clamp := true; fx_ceil := fe |} shape (hst && (step <? 0)) hs start
                = norm_start {| fx_clamp := true; fx_ceil := true |} shape (hst && (step <? 0)) hs start)
    by reflexivity.
  rewrite E2'. rewrite E1'.
  assert (E3 : norm_stop {| fx_clamp := true; fx_ceil := false |} shape (hst && (step <? 0)) he stop
               = norm_stop {| fx_clamp := true; fx_ceil := true |} shape (hst && (step <? 0)) he stop)
    by reflexivity.
  rewrite E3.
  rewrite ceil_len_unfixed_eq; [rewrite (ceil_len_fixed_eq false); [rewrite (ceil_len_fixed_eq true); [reflexivity|]|]|
                                | eapply Hc; reflexivity].
  all: destruct hst; cbn [andb] in Hz; lia.
Qed.

(* ---------- no Py_ssize_t overflow in the index arithmetic of the slice branch ---------- *)

Lemma quot_mul_between a b : b <> 0 ->
  (0 <= b * Z.quot a b <= a) \/ (a <= b * Z.quot a b <= 0).
Proof.
  intros Hb. destruct (Z.le_ge_cases 0 a).
  - left. apply Z.mul_quot_le; assumption.
  - right. apply Z.mul_quot_ge; assumption.
Qed.

Lemma norm_bounds fx shape neg hs he start stop : 0 <= shape ->
  let s' := norm_start fx shape neg hs start in
  let e' := norm_stop fx shape neg he stop in
  (-1 <= s' <= shape /\ (neg = false -> 0 <= s') /\ (neg = true -> s' <= shape - 1 \/ s' = 0)) /\
  (-1 <= e' <= shape /\ (neg = false -> 0 <= e')).
Proof.
  intros Hs. cbv zeta. unfold norm_start, norm_stop, clamp_low.
  destruct (fx_clamp fx), neg, hs, he; cbn [andb];
    repeat match goal with |- context [if ?b then _ else _] => destruct b eqn:? end;
    repeat split; intros; try discriminate; lia.
Qed.

Lemma slice_no_overflow fx shape start stop step hs he hst :
  in_range 64 true start -> in_range 64 true stop -> in_range 64 true step ->
  0 <= shape <= max_int 64 true - 1 -> (hst = true -> step <> 0) ->
  Forall (in_range 64 true) (slice_intermediates fx shape start stop step hs he hst).
Proof.
  unfold in_range, min_int, max_int.
  replace (2 ^ (64 - 1)) with 9223372036854775808 by reflexivity.
  intros Ha Hb Hc Hs Hnz. unfold slice_intermediates.
  set (neg := hst && (step <? 0)). set (st' := if hst then step else 1).
  destruct (norm_bounds fx shape neg hs he start stop ltac:(lia)) as [(B1 & B2 & B3) (B4 & B5)].
  set (s' := norm_start fx shape neg hs start) in *. set (e' := norm_stop fx shape neg he stop) in *.
  assert (Hst : st' <> 0) by (unfold st'; destruct hst; [auto|lia]).
  assert (Hneg : neg = (st' <? 0)) by (unfold neg, st'; destruct hst; reflexivity).
  assert (Hstr : -9223372036854775808 <= st' <= 9223372036854775807) by (unfold st'; destruct hst; lia).
  pose proof (quot_mul_between (e' - s') st' Hst) as Hm.
  set (d := e' - s') in *. set (q := Z.quot d st') in *.
  assert (Hq : Z.abs q <= Z.abs (st' * q)).
  { rewrite Z.abs_mul. pose proof (Z.abs_nonneg q). assert (1 <= Z.abs st') by lia. nia. }
  assert (Hd : - shape - 1 <= d <= shape + 1) by (unfold d; lia).
  assert (Hqs : - shape - 1 <= q <= Z.max shape 1).
  { destruct neg eqn:En.
    - (* negative step: s' <= shape-1, so d >= -shape; for d > 0 the quotient is <= 0 *)
      assert (st' < 0) by lia.
      assert (- Z.max shape 1 <= d) by (unfold d; specialize (B3 eq_refl); lia).
      destruct (Z.le_gt_cases d 0).
      + lia.
      + assert (q <= 0) by (apply quot_nonpos; lia). lia.
    - assert (0 < st') by lia. specialize (B2 eq_refl). specialize (B5 eq_refl).
      assert (- shape <= d <= shape) by (unfold d; lia). lia. }
  repeat constructor; try lia.
  all: try (destruct (hs && (start <? 0)) eqn:E; lia).
  all: destruct (he && (stop <? 0)) eqn:E; lia.
Qed.
