(* C50: the parts put together (NFA -> DFA -> scanner), the executable well-formedness test of an
   NFA, and Regexps.chars_to_ranges. *)
From Coq Require Import ZArith NArith List Bool Lia ZifyBool ZifyNat.
From CyVerif Require Import Model.M_Plex Proof.P_Plex_TMap Proof.P_Plex_Sets Proof.P_Plex_DFA
  Proof.P_Plex_Scan Proof.P_Plex_Deriv.
Import ListNotations.
Open Scope Z_scope.

(* ---------- nfa_ok reflects the hypotheses of the subset-construction theorem ---------- *)
Lemma sorted_b_spec l : sorted_b l = true -> sorted l.
Proof.
  induction l as [|a t IH]; [intros; exact I|]. destruct t as [|b t']; [intros; exact I|].
  intros H. change (sorted_b (a :: b :: t')) with ((a <? b) && sorted_b (b :: t')) in H.
  apply andb_true_iff in H. destruct H as [H1 H2].
  change (a < b /\ sorted (b :: t')). split; [lia|auto].
Qed.

Lemma tm_inv_b_spec m : tm_inv_b m = true -> tm_inv m.
Proof.
  unfold tm_inv_b. intros H. repeat (apply andb_true_iff in H; destruct H as [H ?]).
  constructor.
  - apply Nat.eqb_eq. assumption.
  - apply Nat.leb_le. assumption.
  - lia.
  - lia.
  - apply sorted_b_spec. assumption.
Qed.

Lemma nfa_ok_spec m : nfa_ok m = true ->
  (forall s, tm_inv (n_tm (n_get m s))) /\ (forall s, tm_else_ok (n_tm (n_get m s)) = true).
Proof.
  unfold nfa_ok. intros H. rewrite forallb_forall in H.
  assert (Hs : forall s, tm_inv_b (n_tm (n_get m s)) && tm_else_ok (n_tm (n_get m s)) = true).
  { intros s. unfold n_get. destruct (Nat.lt_ge_cases s (length m)) as [Hlt|Hge].
    - apply H. apply nth_In. exact Hlt.
    - rewrite nth_overflow by exact Hge. reflexivity. }
  split; intros s; specialize (Hs s); apply andb_true_iff in Hs; destruct Hs as [H1 H2];
    [apply tm_inv_b_spec; exact H1|exact H2].
Qed.

(* ---------- the event word of a scanner configuration ---------- *)
Fixpoint evs (text : list Z) (cfg : config) (k : nat) : list event :=
  match k with O => [] | S k' => c_char cfg :: evs text (next_char text cfg) k' end.

Lemma dfa_run_evs tr text : forall k st cfg, dfa_run tr text st cfg k = dfa_run_w tr st (evs text cfg k).
Proof.
  induction k as [|k IH]; intros st cfg; [reflexivity|]. cbn [dfa_run evs dfa_run_w].
  destruct (nth_error tr st) as [d|]; [|reflexivity].
  destruct (d_lookup d (c_char cfg)); [apply IH|reflexivity].
Qed.

Definition text_ok (text : list Z) : Prop := Forall (fun ch => - maxint <= ch < maxint) text.

Lemma next_char_valid text cfg : text_ok text -> valid_ev (c_char (next_char text cfg)).
Proof.
  intros Ht. unfold next_char.
  destruct (c_ist cfg =? 1).
  - destruct (nth_error text (Z.to_nat (c_next cfg))) as [ch|] eqn:En; [|exact I].
    destruct (ch =? 10); [exact I|]. cbn. apply nth_error_In in En.
    unfold text_ok in Ht. rewrite Forall_forall in Ht. apply Ht. exact En.
  - destruct (c_ist cfg =? 2); [cbn; unfold maxint; lia|].
    destruct (c_ist cfg =? 3); [exact I|]. destruct (c_ist cfg =? 4); exact I.
Qed.

Lemma evs_valid text : text_ok text -> forall k cfg, valid_ev (c_char cfg) -> Forall valid_ev (evs text cfg k).
Proof.
  intros Ht. induction k as [|k IH]; intros cfg Hv; cbn [evs]; constructor; [exact Hv|].
  apply IH. apply next_char_valid. exact Ht.
Qed.

Lemma best_action_no_member m S : (forall t, s_mem t S = false) -> best_action m S = None.
Proof.
  intros H. destruct (best_action_spec m S) as [[E _]|(s & Hs & _)]; [exact E|].
  rewrite H in Hs. discriminate.
Qed.

(* the set of NFA states reached on the first k events, as a predicate on a state set *)
Definition nfa_set (m : nfa) (w : list event) (S : sset) : Prop :=
  forall t, s_mem t S = true <-> nreach m O w t.

(* Lexicon machine -> nfa_to_dfa -> scan_a_token: the token is the longest prefix of the pending
   events on which the NFA reaches an accepting state, its action is the highest-priority action
   of the states reached there, the scanner state is the one saved at that point; ('', None) /
   UnrecognizedInput exactly when no prefix is accepted. *)
Theorem lexer_pipeline m fuel D text cfg :
  nfa_ok m = true -> nfa_to_dfa fuel m = Some D ->
  text_ok text -> valid_ev (c_char cfg) -> 0 <= c_next cfg ->
  match scan_a_token D text cfg with
  | TokOk start stop line col a c =>
      exists k S, nfa_set m (evs text cfg k) S /\ best_action m S = Some a
        /\ (forall k' S', (k < k')%nat -> nfa_set m (evs text cfg k') S' -> best_action m S' = None)
        /\ c = iter_next k text cfg
        /\ start = c_pos cfg /\ stop = c_pos c /\ line = c_line cfg /\ col = c_pos cfg - c_lstart cfg
  | TokEof c | TokErr c =>
      forall k S, nfa_set m (evs text cfg k) S -> best_action m S = None
  | TokBad | TokFuel => False
  end.
Proof.
  intros Hok HD Ht Hv Hn. destruct (nfa_ok_spec m Hok) as (Hwf & Helse).
  destruct (nfa_to_dfa_correct m Hwf Helse fuel D HD) as (Hl & Hp & Hw & Hrun).
  pose proof (scan_a_token_spec D text cfg (conj Hl (conj Hp Hw)) Hn) as S.
  assert (Hacc : forall k a, accepts (dfa_acts D) (dfa_trans D) text O cfg k a <->
                   exists S0, nfa_set m (evs text cfg k) S0 /\ best_action m S0 = Some a).
  { intros k a. unfold accepts. rewrite dfa_run_evs.
    specialize (Hrun (evs text cfg k) (evs_valid text Ht k cfg Hv)).
    destruct (dfa_run_w (dfa_trans D) 0 (evs text cfg k)) as [d|].
    - destruct Hrun as (S' & Hs & Hm & Ha). split.
      + intros (st' & E & A). inversion E; subst st'. exists S'. split; [exact Hm|]. congruence.
      + intros (S0 & Hm0 & Hb). exists d. split; [reflexivity|].
        assert (S0 = S') by (apply s_ext; intros i; apply eq_true_iff_eq; rewrite (Hm0 i), (Hm i); tauto).
        subst S0. rewrite Ha, Hb. reflexivity.
    - split; [intros (st' & E & _); discriminate|]. intros (S0 & Hm0 & Hb).
      rewrite best_action_no_member in Hb; [discriminate|]. intros t.
      destruct (s_mem t S0) eqn:E; [|reflexivity]. apply Hm0 in E. exfalso. exact (Hrun t E). }
  assert (Hnone : forall k, (forall a, ~ accepts (dfa_acts D) (dfa_trans D) text O cfg k a) ->
                    forall S0, nfa_set m (evs text cfg k) S0 -> best_action m S0 = None).
  { intros k Hno S0 Hm0. destruct (best_action m S0) as [a|] eqn:E; [|reflexivity].
    exfalso. apply (Hno a). apply Hacc. exists S0. auto. }
  destruct (scan_a_token D text cfg) as [s e l c a c'|c'|c'| |]; try exact S.
  - destruct S as (k & A & Hmax & Ec & R). apply Hacc in A. destruct A as (S0 & Hm0 & Hb).
    exists k, S0. split; [exact Hm0|]. split; [exact Hb|]. split; [|split; [exact Ec|exact R]].
    intros k' S' Hk Hm'. apply (Hnone k'); [|exact Hm']. intros a'. apply Hmax. exact Hk.
  - destruct S as (Hno & _). intros k S0. apply Hnone. intros a. apply Hno.
  - destruct S as (Hno & _). intros k S0. apply Hnone. intros a. apply Hno.
Qed.

(* ---------- Regexps.chars_to_ranges ---------- *)
Lemma insert_sorted_in x l y : In y (insert_sorted x l) <-> y = x \/ In y l.
Proof.
  induction l as [|a t IH]; cbn [insert_sorted].
  - cbn. intuition.
  - destruct (x <=? a); cbn [In]; [intuition|]. rewrite IH. intuition.
Qed.

Lemma sort_codes_in l y : In y (sort_codes l) <-> In y l.
Proof.
  induction l as [|a t IH]; [reflexivity|]. cbn [sort_codes fold_right]. fold (sort_codes t).
  rewrite insert_sorted_in, IH. cbn. intuition.
Qed.

Fixpoint sorted_le (l : list Z) : Prop :=
  match l with
  | x :: ((y :: _) as t) => x <= y /\ sorted_le t
  | _ => True
  end.

Lemma insert_sorted_le x l : sorted_le l -> sorted_le (insert_sorted x l).
Proof.
  induction l as [|a t IH]; intros H; [exact I|]. cbn [insert_sorted].
  destruct (Z.leb_spec x a).
  - cbn [sorted_le]. split; [lia|exact H].
  - destruct t as [|b t'].
    + cbn. split; [lia|exact I].
    + change (a <= b /\ sorted_le (b :: t')) in H. destruct H as [Hab Ht]. specialize (IH Ht). cbn [insert_sorted] in IH |- *.
      destruct (Z.leb_spec x b); cbn [sorted_le] in IH |- *; (split; [lia|exact IH]).
Qed.

Lemma sort_codes_sorted l : sorted_le (sort_codes l).
Proof. induction l as [|a t IH]; [exact I|]. cbn [sort_codes fold_right]. apply insert_sorted_le. exact IH. Qed.

Lemma dedup_sorted_spec : forall l, sorted_le l ->
  sorted (dedup_sorted l) /\ (forall y, In y (dedup_sorted l) <-> In y l)
  /\ (forall a t, l = a :: t -> exists t', dedup_sorted l = a :: t').
Proof.
  induction l as [|a t IH]; intros H.
  - split; [exact I|]. split; [reflexivity|]. intros; discriminate.
  - destruct t as [|b t'].
    + cbn. split; [exact I|]. split; [reflexivity|]. intros a0 t0 E. inversion E; subst. eauto.
    + change (a <= b /\ sorted_le (b :: t')) in H. destruct H as [Hab Ht]. destruct (IH Ht) as (Hs & Hin & Hhd).
      destruct (Hhd b t' eq_refl) as (u & Eu).
      change (dedup_sorted (a :: b :: t')) with
        (if a =? b then dedup_sorted (b :: t') else a :: dedup_sorted (b :: t')).
      destruct (Z.eqb_spec a b) as [->|Hne].
      * split; [exact Hs|]. split.
        -- intros y. rewrite Hin. cbn. intuition.
        -- intros a0 t0 E. inversion E; subst. eauto.
      * split.
        -- rewrite Eu. rewrite Eu in Hs. cbn [sorted]. split; [lia|exact Hs].
        -- split.
           ++ intros y. cbn [In]. rewrite Hin. cbn. intuition.
           ++ intros a0 t0 E. inversion E; subst. eauto.
Qed.

Lemma c2r_go_spec x : forall l c1 c2, c1 < c2 -> sorted l -> (forall y, In y l -> c2 <= y) ->
  (ranges_cover (c2r_go c1 c2 l) x = true <-> (c1 <= x < c2) \/ In x l).
Proof.
  induction l as [|c t IH]; intros c1 c2 Hlt Hs Hge; cbn [c2r_go].
  - cbn. split; [intros H; left; lia|intros [H|[]]; lia].
  - assert (Hgt : forall y, In y t -> c < y) by (apply sorted_head_lt; exact Hs).
    pose proof (Hge c (or_introl eq_refl)) as Hc.
    destruct (Z.geb_spec c2 c) as [Hcc|Hcc].
    + rewrite IH; [|lia|eapply sorted_tail; eauto|intros y Hy; specialize (Hgt y Hy); lia].
      assert (Ec : c = c2) by lia. cbn [In]. split.
      * intros [H|H]; [|right; right; exact H].
        destruct (Z.eq_dec x c2); [right; left; lia|left; lia].
      * intros [H|[H|H]]; [left; lia|left; lia|right; exact H].
    + cbn [ranges_cover]. rewrite orb_true_iff.
      rewrite IH; [|lia|eapply sorted_tail; eauto|intros y Hy; specialize (Hgt y Hy); lia].
      cbn [In]. split.
      * intros [H|[H|H]]; [left; lia|right; left; lia|right; right; exact H].
      * intros [H|[->|H]]; [left; lia|right; left; lia|right; right; exact H].
Qed.

(* with duplicates removed the ranges cover exactly the characters of s *)
Theorem chars_to_ranges_dedup_correct s x :
  ranges_cover (chars_to_ranges true s) x = true <-> In x s.
Proof.
  unfold chars_to_ranges. destruct (dedup_sorted_spec (sort_codes s) (sort_codes_sorted s)) as (Hs & Hin & _).
  rewrite <- sort_codes_in, <- Hin. destruct (dedup_sorted (sort_codes s)) as [|c t].
  - cbn. split; [discriminate|contradiction].
  - rewrite c2r_go_spec; [|lia|eapply sorted_tail; eauto|].
    + cbn [In]. split; intros [H|H]; auto; [left; lia|left; lia].
    + intros y Hy. pose proof (sorted_head_lt t c Hs y Hy). lia.
Qed.

(* the code as it is: a repeated character widens the range (finding any_duplicate_chars) *)
Theorem chars_to_ranges_refuted :
  exists s x, ranges_cover (chars_to_ranges false s) x = true /\ ~ In x s.
Proof. exists [97; 97], 98. split; [vm_compute; reflexivity|]. cbn. intros [H|[H|[]]]; discriminate. Qed.

(* without repeated characters both variants agree *)
Theorem chars_to_ranges_nodup_partial s : sorted (sort_codes s) ->
  chars_to_ranges false s = chars_to_ranges true s.
Proof.
  intros H. unfold chars_to_ranges. f_equal.
  assert (forall l, sorted l -> dedup_sorted l = l) as Hd; [|rewrite Hd; auto].
  induction l as [|a t IH]; intros Hs; [reflexivity|]. destruct t as [|b t']; [reflexivity|].
  change (dedup_sorted (a :: b :: t')) with (if a =? b then dedup_sorted (b :: t') else a :: dedup_sorted (b :: t')).
  change (a < b /\ sorted (b :: t')) in Hs. destruct Hs as [Hab Ht]. destruct (Z.eqb_spec a b); [lia|]. rewrite (IH Ht). reflexivity.
Qed.
