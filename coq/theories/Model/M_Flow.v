(* C21 - model of Cython/Compiler/FlowControl.py: ControlFlow.initialize,
   ControlFlow.reaching_definitions, ControlFlow.map_one and the classification part of
   check_definitions.  Executable definitions only (proofs: Proof/P_Flow.v).

   Bit sets are Python ints in the code; here they are N ([x & ~k] = N.ldiff x k).
   Block index 0 is flow.entry_point (which is NOT a member of flow.blocks while
   check_definitions runs: it is never iterated, its i_output is fixed); indices 1.. are the
   members of flow.blocks in the (arbitrary but fixed) iteration order of that set. *)
From Coq Require Import NArith List Bool Arith.
Import ListNotations.

(* ---------- level 1: the raw data-flow problem and its iteration ---------- *)

Record rblock := mk_rblock { r_parents : list nat; r_gen : N; r_kill : N }.

Definition getN (l : list N) (i : nat) : N := nth i l 0%N.

Fixpoint set_nth (i : nat) (v : N) (l : list N) : list N :=
  match l, i with
  | [], _ => []
  | _ :: t, O => v :: t
  | h :: t, S j => h :: set_nth j v t
  end.

(* i_input = 0; for parent in block.parents: i_input |= parent.i_output *)
Definition or_parents (outs : list N) (ps : list nat) : N :=
  fold_left (fun acc p => N.lor acc (getN outs p)) ps 0%N.

(* i_output = (i_input & ~block.i_kill) | block.i_gen *)
Definition transfer (b : rblock) (i_input : N) : N :=
  N.lor (N.ldiff i_input (r_kill b)) (r_gen b).

(* one execution of the body of "while dirty": for block in self.blocks (in place) *)
Fixpoint rd_pass (todo : list (nat * rblock)) (outs ins : list N) (dirty : bool)
  : list N * list N * bool :=
  match todo with
  | [] => (outs, ins, dirty)
  | (i, b) :: rest =>
      let i_input := or_parents outs (r_parents b) in
      let i_output := transfer b i_input in
      let dirty' := if N.eqb i_output (getN outs i) then dirty else true in
      rd_pass rest (set_nth i i_output outs) (set_nth i i_input ins) dirty'
  end.

(* "while dirty" with explicit fuel; None = fuel exhausted (never happens with the fuel of
   rd_fuel: P_Flow.rd_terminates) *)
Fixpoint rd_loop (fuel : nat) (todo : list (nat * rblock)) (outs ins : list N)
  : option (list N * list N) :=
  match fuel with
  | O => None
  | S f =>
      let '(outs', ins', dirty) := rd_pass todo outs ins false in
      if dirty then rd_loop f todo outs' ins' else Some (outs', ins')
  end.

(* flow.blocks with their indices: everything but the entry point *)
Definition todo_of (bs : list rblock) : list (nat * rblock) :=
  combine (seq 1 (length bs - 1)) (tl bs).

Definition init_outs (bs : list rblock) : list N := map r_gen bs.   (* block.i_output = block.i_gen *)
Definition init_ins (bs : list rblock) : list N := map (fun _ => 0%N) bs.

Definition rd_fuel (nbits : nat) (bs : list rblock) : nat := length bs * nbits + 1.

Definition reaching_definitions (nbits : nat) (bs : list rblock) : option (list N * list N) :=
  rd_loop (rd_fuel nbits bs) (todo_of bs) (init_outs bs) (init_ins bs).

(* ---------- level 2: blocks of statements, initialize(), check_definitions ---------- *)

Inductive stat := SAssign (e : nat) | SDel (e : nat) | SRef (e : nat).

Definition stat_entry (s : stat) : nat :=
  match s with SAssign e | SDel e | SRef e => e end.
Definition is_def (s : stat) : bool :=
  match s with SRef _ => false | _ => true end.   (* isinstance(stat, NameAssignment) *)

Record block := mk_block { b_parents : list nat; b_stats : list stat; b_bounded : list nat }.

(* entries are numbered 0..ne-1 in the iteration order of flow.entries;
   e_closure e = entry.from_closure, e_static e = is_statically_assigned(entry) *)
Record cfg := mk_cfg { c_ne : nat; c_closure : list bool; c_static : list bool;
                       c_blocks : list block }.

Definition bitN (k : nat) : N := N.shiftl 1 (N.of_nat k).

(* stat.bit = bit; bit <<= 1   for every NameAssignment (deletions included) *)
Fixpoint number_stats (next : nat) (ss : list stat) : list (stat * nat) * nat :=
  match ss with
  | [] => ([], next)
  | s :: r =>
      if is_def s
      then let '(l, n) := number_stats (S next) r in ((s, next) :: l, n)
      else let '(l, n) := number_stats next r in ((s, 0) :: l, n)
  end.

Fixpoint number_blocks (next : nat) (bs : list block) : list (list (stat * nat)) * nat :=
  match bs with
  | [] => ([], next)
  | b :: r =>
      let '(ns, n1) := number_stats next (b_stats b) in
      let '(l, n2) := number_blocks n1 r in (ns :: l, n2)
  end.

(* numbered statements per block (entry point: not iterated, treated as empty) and the total
   number of bits *)
Definition numbered (c : cfg) : list (list (stat * nat)) * nat :=
  let '(l, n) := number_blocks (c_ne c) (tl (c_blocks c)) in ([] :: l, n).

(* assmts.mask = assmts.bit | every stat.bit of the entry *)
Definition mask_of (all : list (stat * nat)) (e : nat) : N :=
  fold_left (fun acc p => if is_def (fst p) && (stat_entry (fst p) =? e)
                          then N.lor acc (bitN (snd p)) else acc) all (bitN e).

(* block.gen: dict entry -> assignment | Uninitialized (None); later writes replace *)
Definition dict_set (e : nat) (v : option nat) (d : list (nat * option nat)) :=
  (e, v) :: filter (fun p => negb (fst p =? e)) d.

Fixpoint gen_dict (ns : list (stat * nat)) (d : list (nat * option nat)) : list (nat * option nat) :=
  match ns with
  | [] => d
  | (SAssign e, k) :: r => gen_dict r (dict_set e (Some k) d)
  | (SDel e, _) :: r => gen_dict r (dict_set e None d)
  | (SRef _, _) :: r => gen_dict r d
  end.

Definition gen_bits (d : list (nat * option nat)) : N :=
  fold_left (fun acc p => N.lor acc (match snd p with None => bitN (fst p) | Some k => bitN k end)) d 0%N.
Definition kill_bits (mask : nat -> N) (d : list (nat * option nat)) (bounded : list nat) : N :=
  fold_left (fun acc e => N.lor acc (bitN e)) bounded
    (fold_left (fun acc p => N.lor acc (mask (fst p))) d 0%N).

Definition all_uninit (ne : nat) : N :=
  fold_left (fun acc e => N.lor acc (bitN e)) (seq 0 ne) 0%N.

(* ControlFlow.initialize: raw blocks; the entry point generates every Uninitialized bit *)
Definition initialize (c : cfg) : list rblock :=
  let '(nss, _) := numbered c in
  let mask := mask_of (concat nss) in
  match combine (c_blocks c) nss with
  | [] => []
  | (b0, _) :: rest =>
      mk_rblock (b_parents b0) (all_uninit (c_ne c)) 0%N ::
      map (fun p => let d := gen_dict (snd p) [] in
                    mk_rblock (b_parents (fst p)) (gen_bits d)
                              (kill_bits mask d (b_bounded (fst p)))) rest
  end.

(* ---------- check_definitions: state tracking inside a block and cf_* hints ---------- *)

Inductive cls := DefNull | MaybeNull | Bound.   (* cf_is_null / cf_maybe_null only / neither *)

(* map_one + the hint rules of check_definitions for one statement's cf_state
   has_uninit = bool(istate & assmts.bit); has_other = some assmt of the entry in istate *)
Definition classify (from_closure static has_uninit has_other : bool) : cls :=
  if has_uninit then
    if static then Bound                (* StaticAssignment instead of Uninitialized *)
    else if from_closure then MaybeNull (* Unknown *)
    else if has_other then MaybeNull else DefNull
  else Bound.

Definition has_uninit (i_state : N) (e : nat) : bool :=
  negb (N.eqb (N.land i_state (bitN e)) 0).
Definition has_other (mask : nat -> N) (i_state : N) (e : nat) : bool :=
  negb (N.eqb (N.ldiff (N.land i_state (mask e)) (bitN e)) 0).

Definition stat_step (mask : nat -> N) (i_state : N) (p : stat * nat) : N :=
  match p with
  | (SAssign e, k) => N.lor (N.ldiff i_state (mask e)) (bitN k)
  | (SDel e, _) => N.lor (N.ldiff i_state (mask e)) (bitN e)
  | (SRef _, _) => i_state
  end.

Fixpoint walk (c : cfg) (mask : nat -> N) (i_state : N) (ns : list (stat * nat)) : list cls :=
  match ns with
  | [] => []
  | p :: r =>
      let e := stat_entry (fst p) in
      classify (nth e (c_closure c) false) (nth e (c_static c) false)
               (has_uninit i_state e) (has_other mask i_state e)
      :: walk c mask (stat_step mask i_state p) r
  end.

Record result := mk_result {
  res_masks : list N;                       (* assmts.mask per entry *)
  res_bits : list (list nat);               (* stat.bit index per statement (0 for references) *)
  res_raw : list rblock;                    (* i_gen / i_kill *)
  res_in : list N; res_out : list N;        (* i_input / i_output *)
  res_cls : list (list cls) }.

Definition analyse (c : cfg) : option result :=
  let '(nss, nbits) := numbered c in
  let mask := mask_of (concat nss) in
  let raw := initialize c in
  match reaching_definitions nbits raw with
  | None => None
  | Some (outs, ins) =>
      Some (mk_result (map mask (seq 0 (c_ne c)))
                      (map (map snd) nss) raw ins outs
                      (map (fun p => walk c mask (fst p) (snd p)) (combine ins nss)))
  end.
