(* M_IOTree — model of Cython/StringIOTree.py (class StringIOTree) as used through
   Cython/Compiler/Code.py CCodeWriter.write/_write_lines/insertion_point/insert, and the
   reference specification "list of holes".  Executable definitions only.

   Part 1: the implementation as it is.  A heap of StringIOTree objects (address = index in the
   heap); every object has prepended_children (list of addresses), stream (io.StringIO used
   append-only: its content, tell() = length) and markers.  The objects a client holds are
   numbered in creation order (handle k = k-th object returned by StringIOTree() or by
   insertion_point()); the objects commit() creates are heap objects without a handle.

   Part 2: the reference: documents (one per root buffer) that are flat lists of
   hole marks SOpen b / SClose b and text fragments STxt.  Writing to b or leaving an insertion
   point in b puts the new items immediately before SClose b. *)
From Coq Require Import List NArith Arith Bool.
Import ListNotations.

Definition text := list N.          (* code points *)
Definition marker := N.             (* opaque (source, line) value *)

Record obj := mkObj { o_children : list nat; o_stream : text; o_markers : list marker }.
Definition heap := list obj.
Definition empty_obj : obj := mkObj [] [] [].

Fixpoint set_nth {A} (n : nat) (x : A) (l : list A) : list A :=
  match l with
  | [] => []
  | y :: r => match n with O => x :: r | S k => y :: set_nth k x r end
  end.

Definition is_nil {A} (l : list A) : bool := match l with [] => true | _ => false end.

(* def commit(self): if self.stream.tell(): children.append(StringIOTree(self.stream));
   children[-1].markers = self.markers; self.markers = []; self.stream = StringIO() *)
Definition h_commit (h : heap) (a : nat) : option heap :=
  match nth_error h a with
  | None => None
  | Some o =>
      if is_nil (o_stream o) then Some h
      else Some (set_nth a (mkObj (o_children o ++ [length h]) [] []) h
                 ++ [mkObj [] (o_stream o) (o_markers o)])
  end.

Definition h_add_child (h : heap) (a c : nat) : option heap :=
  match nth_error h a with
  | None => None
  | Some o => Some (set_nth a (mkObj (o_children o ++ [c]) (o_stream o) (o_markers o)) h)
  end.

(* def insertion_point(self): self.commit(); other = StringIOTree(); children.append(other) *)
Definition h_insertion_point (h : heap) (a : nat) : option (heap * nat) :=
  match h_commit h a with
  | None => None
  | Some h1 =>
      let c := length h1 in
      match h_add_child (h1 ++ [empty_obj]) a c with
      | None => None
      | Some h2 => Some (h2, c)
      end
  end.

(* def insert(self, iotree): self.commit(); children.append(iotree) *)
Definition h_insert (h : heap) (a t : nat) : option heap :=
  match h_commit h a with
  | None => None
  | Some h1 => h_add_child h1 a t
  end.

(* def reset(self): children = []; markers = []; stream = StringIO() *)
Definition h_reset (h : heap) (a : nat) : option heap :=
  match nth_error h a with
  | None => None
  | Some _ => Some (set_nth a empty_obj h)
  end.

(* CCodeWriter.write: buffer.markers.extend(ms); buffer.write(s)   (ms = [] when s has no newline) *)
Definition h_write (h : heap) (a : nat) (s : text) (ms : list marker) : option heap :=
  match nth_error h a with
  | None => None
  | Some o => Some (set_nth a (mkObj (o_children o) (o_stream o ++ s) (o_markers o ++ ms)) h)
  end.

(* sequencing over the children; None = no result (unbounded recursion / dangling address) *)
Fixpoint ocat {A B} (f : A -> option (list B)) (l : list A) : option (list B) :=
  match l with
  | [] => Some []
  | x :: r => match f x with
              | None => None
              | Some u => match ocat f r with None => None | Some v => Some (u ++ v) end
              end
  end.

Fixpoint oall {A} (f : A -> option bool) (l : list A) : option bool :=
  match l with
  | [] => Some true
  | x :: r => match f x with
              | None => None
              | Some u => match oall f r with None => None | Some v => Some (u && v) end
              end
  end.

(* _collect_in / copyto: the chunks appended to the target, in order *)
Fixpoint collect (fuel : nat) (h : heap) (a : nat) : option (list text) :=
  match fuel with
  | O => None
  | S f =>
      match nth_error h a with
      | None => None
      | Some o =>
          match ocat (collect f h) (o_children o) with
          | None => None
          | Some cs => Some (cs ++ (if is_nil (o_stream o) then [] else [o_stream o]))
          end
      end
  end.

Fixpoint h_allmarkers (fuel : nat) (h : heap) (a : nat) : option (list marker) :=
  match fuel with
  | O => None
  | S f =>
      match nth_error h a with
      | None => None
      | Some o =>
          match ocat (h_allmarkers f h) (o_children o) with
          | None => None
          | Some cs => Some (cs ++ o_markers o)
          end
      end
  end.

(* def empty(self): if self.stream.tell(): return False;  return all([c.empty() for c in children]) *)
Fixpoint h_empty (fuel : nat) (h : heap) (a : nat) : option bool :=
  match fuel with
  | O => None
  | S f =>
      match nth_error h a with
      | None => None
      | Some o => if is_nil (o_stream o) then oall (h_empty f h) (o_children o) else Some false
      end
  end.

(* ---- the state machine over client handles ---- *)
Record state := mkState { st_heap : heap; st_handles : list nat }.
Definition init_state : state := mkState [] [].

Inductive op :=
| ONew                                               (* StringIOTree() *)
| OPoint (b : nat)                                   (* handle b .insertion_point() *)
| OWrite (b : nat) (s : text) (ms : list marker)     (* b.markers.extend(ms); b.write(s) *)
| OInsert (b t : nat)                                (* b.insert(t) *)
| OCommit (b : nat)
| OReset (b : nat).

Definition step (st : state) (o : op) : option state :=
  let h := st_heap st in
  let hs := st_handles st in
  match o with
  | ONew => Some (mkState (h ++ [empty_obj]) (hs ++ [length h]))
  | OPoint b =>
      match nth_error hs b with
      | None => None
      | Some a => match h_insertion_point h a with
                  | None => None
                  | Some (h', c) => Some (mkState h' (hs ++ [c]))
                  end
      end
  | OWrite b s ms =>
      match nth_error hs b with
      | None => None
      | Some a => option_map (fun h' => mkState h' hs) (h_write h a s ms)
      end
  | OInsert b t =>
      match nth_error hs b, nth_error hs t with
      | Some a, Some c => option_map (fun h' => mkState h' hs) (h_insert h a c)
      | _, _ => None
      end
  | OCommit b =>
      match nth_error hs b with
      | None => None
      | Some a => option_map (fun h' => mkState h' hs) (h_commit h a)
      end
  | OReset b =>
      match nth_error hs b with
      | None => None
      | Some a => option_map (fun h' => mkState h' hs) (h_reset h a)
      end
  end.

Definition ostep (acc : option state) (o : op) : option state :=
  match acc with None => None | Some st => step st o end.

Definition run (ops : list op) : option state := fold_left ostep ops (Some init_state).

(* observations through a handle; fuel = number of heap objects + 1 *)
Definition fuel_of (st : state) : nat := S (length (st_heap st)).

Definition copyto (st : state) (b : nat) : option (list text) :=
  match nth_error (st_handles st) b with
  | None => None
  | Some a => collect (fuel_of st) (st_heap st) a
  end.

Definition getvalue (st : state) (b : nat) : option text := option_map (@concat N) (copyto st b).

Definition allmarkers (st : state) (b : nat) : option (list marker) :=
  match nth_error (st_handles st) b with
  | None => None
  | Some a => h_allmarkers (fuel_of st) (st_heap st) a
  end.

Definition is_empty (st : state) (b : nat) : option bool :=
  match nth_error (st_handles st) b with
  | None => None
  | Some a => h_empty (fuel_of st) (st_heap st) a
  end.

(* ================= reference: list of holes ================= *)
Inductive item :=
| SOpen (b : nat)
| SClose (b : nat)
| STxt (s : text) (ms : list marker).

Definition is_open (b : nat) (i : item) : bool := match i with SOpen c => Nat.eqb c b | _ => false end.
Definition is_close (b : nat) (i : item) : bool := match i with SClose c => Nat.eqb c b | _ => false end.

Fixpoint ins_before_close (b : nat) (x : list item) (l : list item) : list item :=
  match l with
  | [] => []
  | i :: r => if is_close b i then x ++ i :: r else i :: ins_before_close b x r
  end.

Definition doc := list item.
Record spec := mkSpec { sp_docs : list doc; sp_n : nat }.
Definition init_spec : spec := mkSpec [] 0.

Definition is_root (t : nat) (d : doc) : bool := match d with i :: _ => is_open t i | [] => false end.

Fixpoint take_doc (t : nat) (ds : list doc) : option (doc * list doc) :=
  match ds with
  | [] => None
  | d :: r => if is_root t d then Some (d, r)
              else match take_doc t r with
                   | Some (x, r') => Some (x, d :: r')
                   | None => None
                   end
  end.

Definition has_close (b : nat) (d : doc) : bool := existsb (is_close b) d.
Definition has_open (d : doc) : bool := existsb (fun i => match i with SOpen _ => true | _ => false end) d.

Fixpoint after_open (b : nat) (l : list item) : option (list item) :=
  match l with
  | [] => None
  | i :: r => if is_open b i then Some r else after_open b r
  end.

Fixpoint until_close (b : nat) (l : list item) : option (list item) :=
  match l with
  | [] => None
  | i :: r => if is_close b i then Some [] else option_map (cons i) (until_close b r)
  end.

(* the items strictly inside hole b *)
Definition region (b : nat) (l : list item) : option (list item) :=
  match after_open b l with None => None | Some r => until_close b r end.

Definition sregion (sp : spec) (b : nat) : option (list item) := region b (concat (sp_docs sp)).

Fixpoint frags (l : list item) : list (text * list marker) :=
  match l with
  | [] => []
  | STxt s ms :: r => (s, ms) :: frags r
  | _ :: r => frags r
  end.

Definition texts_of (fs : list (text * list marker)) : text := concat (map fst fs).
Definition marks_of (fs : list (text * list marker)) : list marker := concat (map snd fs).

Definition svalue (sp : spec) (b : nat) : option text := option_map (fun l => texts_of (frags l)) (sregion sp b).
Definition smarkers (sp : spec) (b : nat) : option (list marker) := option_map (fun l => marks_of (frags l)) (sregion sp b).

(* reset b: everything inside hole b goes away; the holes that were directly inside become
   separate documents (their handles stay usable, detached).  split_top d acc l cuts a sequence of
   top-level holes into documents and drops the text between them. *)
Fixpoint split_top (d : nat) (acc : list item) (l : list item) : list doc :=
  match l with
  | [] => []
  | STxt s ms :: r => match d with O => split_top d acc r | S _ => split_top d (acc ++ [STxt s ms]) r end
  | SOpen b :: r => split_top (S d) (acc ++ [SOpen b]) r
  | SClose b :: r => match d with
                     | S O => (acc ++ [SClose b]) :: split_top O [] r
                     | S d' => split_top d' (acc ++ [SClose b]) r
                     | O => split_top O acc r
                     end
  end.

(* replace the inside of hole b by nothing *)
Fixpoint drop_until_close (b : nat) (m : list item) : list item :=
  match m with
  | [] => []
  | j :: q => if is_close b j then j :: q else drop_until_close b q
  end.

Fixpoint clear_hole (b : nat) (l : list item) : list item :=
  match l with
  | [] => []
  | i :: r => if is_open b i then i :: drop_until_close b r else i :: clear_hole b r
  end.

Definition spec_step (sp : spec) (o : op) : spec :=
  let ds := sp_docs sp in
  let n := sp_n sp in
  match o with
  | ONew => mkSpec (ds ++ [[SOpen n; SClose n]]) (S n)
  | OPoint b => mkSpec (map (ins_before_close b [SOpen n; SClose n]) ds) (S n)
  | OWrite b s ms => if is_nil s then sp else mkSpec (map (ins_before_close b [STxt s ms]) ds) n
  | OInsert b t =>
      match take_doc t ds with
      | Some (d, rest) => mkSpec (map (ins_before_close b d) rest) n
      | None => sp
      end
  | OCommit b => sp
  | OReset b =>
      match sregion sp b with
      | Some body => mkSpec (map (clear_hole b) ds ++ split_top 0 [] body) n
      | None => sp
      end
  end.

(* well-formed operation: handles exist; markers only together with text (CCodeWriter: one marker
   per newline of s); an inserted buffer is a root and not the tree the target lives in. *)
Definition wf_op (sp : spec) (o : op) : bool :=
  let n := sp_n sp in
  match o with
  | ONew => true
  | OPoint b => b <? n
  | OWrite b s ms => (b <? n) && (negb (is_nil s) || is_nil ms)
  | OInsert b t =>
      (b <? n) && match take_doc t (sp_docs sp) with
                  | Some (d, _) => negb (has_close b d)
                  | None => false
                  end
  | OCommit b => b <? n
  | OReset b => b <? n
  end.

Fixpoint wf_hist (sp : spec) (ops : list op) : bool :=
  match ops with
  | [] => true
  | o :: r => wf_op sp o && wf_hist (spec_step sp o) r
  end.

Definition spec_run (ops : list op) : spec := fold_left spec_step ops init_spec.

(* the fragments a history writes (non-empty texts), in chronological order *)
Fixpoint written (ops : list op) : list (text * list marker) :=
  match ops with
  | [] => []
  | OWrite _ s ms :: r => if is_nil s then written r else (s, ms) :: written r
  | _ :: r => written r
  end.

Definition has_reset (ops : list op) : bool :=
  existsb (fun o => match o with OReset _ => true | _ => false end) ops.

Fixpoint count_nl (s : text) : nat :=
  match s with
  | [] => 0
  | c :: r => (if N.eqb c 10 then 1 else 0) + count_nl r
  end.
