(* Model of the compile-time constant machinery of the compiler (property C09):
     - Cython/Utils.py: str_to_number, strip_py2_long_suffix           (section 1)
       on top of a Gallina definition of CPython's int(str, base) contract
     - an independent definition of CPython's integer-literal grammar      (section 2)
     - ExprNodes.IntNode.generate_evaluation_code / Code.get_int_const /
       Code.generate_num_constants (decimal, hex and base-32 emission)      (section 3)
     - ExprNodes.make_dedup_key and the keys of the pooled tuple / slice /
       frozenset constants (Code.get_py_const)                             (section 4)
     - Optimize.ConstantFolding on the int/bool fragment                   (section 5)
   Strings are lists of code points (Z); only ASCII input is modelled.
   Executable definitions only; proofs are in Proof/P_Consts.v. *)
From Coq Require Import ZArith List Bool.
From CyVerif Require Import Lib.CInt.
Import ListNotations.
Open Scope Z_scope.

(* ------------------------------------------------------------------ *)
(* 1. int(str, base) and str_to_number                                 *)
(* ------------------------------------------------------------------ *)

Definition ch_us : Z := 95.      (* '_' *)
Definition ch_minus : Z := 45.   (* '-' *)
Definition ch_plus : Z := 43.    (* '+' *)
Definition ch_0 : Z := 48.       (* '0' *)

Definition is_x (c : Z) : bool := (c =? 120) || (c =? 88).   (* xX *)
Definition is_o (c : Z) : bool := (c =? 111) || (c =? 79).   (* oO *)
Definition is_b (c : Z) : bool := (c =? 98) || (c =? 66).    (* bB *)
Definition is_l (c : Z) : bool := (c =? 108) || (c =? 76).   (* lL *)

(* Py_ISSPACE on ASCII *)
Definition is_space (c : Z) : bool := (c =? 32) || ((9 <=? c) && (c <=? 13)).

(* _PyLong_DigitValue: 0-9, a-z, A-Z; everything else is 37 *)
Definition digit_val (c : Z) : Z :=
  if (48 <=? c) && (c <=? 57) then c - 48
  else if (97 <=? c) && (c <=? 122) then c - 87
  else if (65 <=? c) && (c <=? 90) then c - 55
  else 37.

Fixpoint drop_space (s : list Z) : list Z :=
  match s with
  | c :: t => if is_space c then drop_space t else s
  | [] => []
  end.

(* long_from_string_base: digits and single interior underscores; stops at the first other
   character.  None = double or trailing underscore.  Result: value, number of digits, rest. *)
Fixpoint scan (base : Z) (prev_us : bool) (acc nd : Z) (s : list Z) : option (Z * Z * list Z) :=
  match s with
  | [] => if prev_us then None else Some (acc, nd, [])
  | c :: t =>
      if c =? ch_us then (if prev_us then None else scan base true acc nd t)
      else if digit_val c <? base then scan base false (acc * base + digit_val c) (nd + 1) t
      else if prev_us then None else Some (acc, nd, s)
  end.

(* sys.get_int_max_str_digits() default; applies to bases that are not powers of two *)
Definition max_str_digits : Z := 4300.
Definition is_pow2_base (b : Z) : bool :=
  (b =? 2) || (b =? 4) || (b =? 8) || (b =? 16) || (b =? 32).

(* CPython int(s, base) for an ASCII str s and base in {0, 2..36}; None = ValueError.
   (Objects/longobject.c: PyLong_FromString) *)
Definition py_int (base : Z) (s0 : list Z) : option Z :=
  let s1 := drop_space s0 in
  let neg := match s1 with c :: _ => c =? ch_minus | [] => false end in
  let s2 := match s1 with c :: t => if (c =? ch_minus) || (c =? ch_plus) then t else s1 | [] => s1 end in
  (* base 0: look at the prefix; "0<digits>" is the old octal form, legal only for zero *)
  let b := if base =? 0 then
             match s2 with
             | c0 :: c1 :: _ =>
                 if c0 =? ch_0 then (if is_x c1 then 16 else if is_o c1 then 8 else if is_b c1 then 2 else 10)
                 else 10
             | _ => 10
             end
           else base in
  let old_octal := (base =? 0) &&
             match s2 with
             | c0 :: c1 :: _ => (c0 =? ch_0) && negb (is_x c1 || is_o c1 || is_b c1)
             | c0 :: [] => c0 =? ch_0
             | [] => false
             end in
  (* optional 0x/0o/0b matching the base, then one optional underscore *)
  let s3 := match s2 with
            | c0 :: c1 :: t =>
                if (c0 =? ch_0) && (((b =? 16) && is_x c1) || ((b =? 8) && is_o c1) || ((b =? 2) && is_b c1))
                then match t with u :: t' => if u =? ch_us then t' else t | [] => t end
                else s2
            | _ => s2
            end in
  match s3 with
  | [] => None
  | c :: _ =>
      if c =? ch_us then None else
      match scan b false 0 0 s3 with
      | None => None
      | Some (v, nd, rest) =>
          if nd =? 0 then None
          else if negb (forallb is_space rest) then None
          else if negb (is_pow2_base b) && (max_str_digits <? nd) then None
          else if old_octal && negb (v =? 0) then None
          else Some (if neg then - v else v)
      end
  end.

(* Utils.strip_py2_long_suffix (callers guarantee a non-empty string) *)
Definition strip_L (s : list Z) : list Z :=
  if is_l (last s 0) then removelast s else s.

(* Utils.str_to_number; None = ValueError *)
Definition str_to_number (s : list Z) : option Z :=
  let neg := match s with c :: _ => c =? ch_minus | [] => false end in
  let v := match s with c :: t => if c =? ch_minus then t else s | [] => s end in
  let r := match v with
           | c0 :: c1 :: rest =>
               if c0 =? ch_0 then
                 if is_x c1 then py_int 16 (skipn 2 (strip_L v))
                 else if is_o c1 then py_int 8 rest
                 else if is_b c1 then py_int 2 rest
                 else py_int 8 v
               else py_int 0 v
           | _ => py_int 0 v
           end in
  match r with Some x => Some (if neg then - x else x) | None => None end.

(* Scanning.strip_underscores: text.replace('_', '') applied to every INT token *)
Definition strip_us (s : list Z) : list Z := filter (fun c => negb (c =? ch_us)) s.

(* ------------------------------------------------------------------ *)
(* 2. CPython's integer literal grammar (the specification)           *)
(*    integer    ::= decinteger | bininteger | octinteger | hexinteger *)
(*    decinteger ::= nonzerodigit (["_"] digit)* | "0"+ (["_"] "0")*   *)
(*    hexinteger ::= "0" ("x"|"X") (["_"] hexdigit)+   (oct, bin alike)*)
(* ------------------------------------------------------------------ *)

Definition is_dec (c : Z) : bool := (48 <=? c) && (c <=? 57).
Definition is_nonzero_dec (c : Z) : bool := (49 <=? c) && (c <=? 57).
Definition is_hexd (c : Z) : bool :=
  is_dec c || ((97 <=? c) && (c <=? 102)) || ((65 <=? c) && (c <=? 70)).
Definition is_octd (c : Z) : bool := (48 <=? c) && (c <=? 55).
Definition is_bind (c : Z) : bool := (c =? 48) || (c =? 49).
Definition is_zero_ch (c : Z) : bool := c =? 48.

(* (["_"] d)* *)
Fixpoint us_digits (isd : Z -> bool) (s : list Z) : bool :=
  match s with
  | [] => true
  | c :: t =>
      if c =? ch_us then match t with d :: t' => isd d && us_digits isd t' | [] => false end
      else isd c && us_digits isd t
  end.

Definition nonempty (s : list Z) : bool := match s with [] => false | _ => true end.

(* base and digit part (underscores still inside) of a literal; None = not a literal *)
Definition lit_split (s : list Z) : option (Z * list Z) :=
  match s with
  | [] => None
  | c0 :: t =>
      if c0 =? ch_0 then
        match t with
        | [] => Some (10, s)
        | c1 :: u =>
            if is_x c1 then (if nonempty u && us_digits is_hexd u then Some (16, u) else None)
            else if is_o c1 then (if nonempty u && us_digits is_octd u then Some (8, u) else None)
            else if is_b c1 then (if nonempty u && us_digits is_bind u then Some (2, u) else None)
            else if us_digits is_zero_ch t then Some (10, s) else None
        end
      else if is_nonzero_dec c0 && us_digits is_dec t then Some (10, s) else None
  end.

(* digit-wise evaluation by base *)
Definition eval_digits (base : Z) (s : list Z) : Z :=
  fold_left (fun a c => a * base + digit_val c) s 0.

Definition python_int_literal (s : list Z) : option Z :=
  match lit_split s with
  | Some (b, d) => Some (eval_digits b (strip_us d))
  | None => None
  end.

(* CPython refuses decimal literals of more than 4300 digits (its parser converts with
   strtoul first, so the all-zero forms "000...0" are accepted at any length) *)
Definition literal_within_limit (s : list Z) : bool :=
  match lit_split s with
  | Some (b, d) => negb (b =? 10) || (match d with c :: _ => c =? ch_0 | [] => true end)
                   || (Z.of_nat (length (strip_us d)) <=? max_str_digits)
  | None => true
  end.

(* what the compiler hands to str_to_number: an optional '-' (added by unop_node /
   ConstantFolding) in front of a literal *)
Definition signed_literal (s : list Z) : option Z :=
  match s with
  | c :: t => if c =? ch_minus
              then match python_int_literal t with Some v => Some (- v) | None => None end
              else python_int_literal s
  | [] => None
  end.

Definition signed_within_limit (s : list Z) : bool :=
  match s with
  | c :: t => if c =? ch_minus then literal_within_limit t else literal_within_limit s
  | [] => true
  end.

Definition strip_us_signed (s : list Z) : list Z := strip_us s.

(* the legacy form "0NNN" the lexicon still accepts (not Python 3 syntax) *)
Definition legacy_octal (s : list Z) : bool :=
  match s with
  | c0 :: c1 :: t => (c0 =? ch_0) && forallb is_octd (c1 :: t)
  | _ => false
  end.

(* ------------------------------------------------------------------ *)
(* 3. emission of Python int constants                                 *)
(* ------------------------------------------------------------------ *)

Definition digit_char (d : Z) : Z := if d <? 10 then 48 + d else 87 + d.

(* least significant digit first *)
Fixpoint digits_rev (fuel : nat) (b n : Z) : list Z :=
  match fuel with
  | O => []
  | S f => if n <=? 0 then [] else
           let (q, r) := Z.div_eucl n b in digit_char r :: digits_rev f b q
  end.

(* the same for b = 2^k, by shifting (what CPython does for binary bases) *)
Fixpoint digits_rev_pow2 (fuel : nat) (k n : Z) : list Z :=
  match fuel with
  | O => []
  | S f => if n <=? 0 then [] else
           digit_char (Z.land n (Z.ones k)) :: digits_rev_pow2 f k (Z.shiftr n k)
  end.

Definition digit_fuel (n : Z) : nat := S (Z.to_nat (Z.log2 n)).

(* digits of n > 0, most significant first; [] for n <= 0 *)
Definition to_digits (b n : Z) : list Z := rev (digits_rev (digit_fuel n) b n).
Definition to_digits_pow2 (k n : Z) : list Z := rev (digits_rev_pow2 (digit_fuel n) k n).

(* str(int): None = ValueError above 4300 digits, i.e. from 10^4300 on *)
Definition pow10_limit : Z := 10 ^ max_str_digits.
Definition py_str (v : Z) : option (list Z) :=
  if v =? 0 then Some [ch_0]
  else if pow10_limit <=? Z.abs v then None
  else let d := to_digits 10 (Z.abs v) in
       Some (if v <? 0 then ch_minus :: d else d).

(* hex(int) *)
Definition py_hex (v : Z) : list Z :=
  let d := if v =? 0 then [ch_0] else to_digits_pow2 4 (Z.abs v) in
  (if v <? 0 then [ch_minus] else []) ++ [ch_0; 120] ++ d.

(* IntNode.generate_evaluation_code: the text handed to get_py_int.
   abs_threshold = false is the code as it is:  hex if value > 10**13 else str
   abs_threshold = true  is the repaired code:  hex if abs(value) > 10**13 else str *)
Definition int_const_text (abs_threshold : bool) (v : Z) : option (list Z) :=
  if (if abs_threshold then Z.abs v else v) >? 10 ^ 13
  then Some (strip_L (py_hex v)) else
  match py_str v with Some s => Some (strip_L s) | None => None end.

(* unop_node: "-" in front of an integer literal becomes a new literal text
   repaired = false:  str(-str_to_number(value))
   repaired = true :  (hex if abs(v) > 2**64 else str)(v)  with v = -str_to_number(value) *)
Definition negated_literal_text (repaired : bool) (s : list Z) : option (list Z) :=
  match str_to_number s with
  | None => None
  | Some v => if repaired && (Z.abs (- v) >? 2 ^ 64) then Some (py_hex (- v)) else py_str (- v)
  end.

(* Code.generate_num_constants.to_base32 *)
Definition to_base32 (n : Z) : list Z :=
  if n =? 0 then [ch_0]
  else (if n <? 0 then [ch_minus] else []) ++ to_digits_pow2 5 (Z.abs n).

(* int.bit_length *)
Definition bit_length (n : Z) : Z := if n =? 0 then 0 else Z.log2 (Z.abs n) + 1.

(* size class (bytes) of the C array a small constant is stored in: the loop
   "while (bit_length + 8) // 8 > 1 << (len(lists) - 1): lists.append([])" starting from
   the class reached by the constants sorted before it (cur, a power of two >= 1) *)
Definition next_size (cur need : Z) : Z :=
  if need <=? cur then cur
  else if need <=? 2 then Z.max cur 2 else if need <=? 4 then Z.max cur 4 else Z.max cur 8.
Definition c_array_bytes (cur n : Z) : Z := next_size cur ((bit_length n + 8) / 8).

Inductive emitted :=
| EmitC (bytes : Z) (v : Z)        (* element of an int<8*bytes>_t array, PyLong_FromLong(Long) *)
| EmitBase32 (text : list Z).      (* PyLong_FromString(text, &end, 32) *)

(* from the pooled text to the initialiser *)
Definition emit_num (cur : Z) (text : list Z) : option emitted :=
  match str_to_number text with
  | None => None
  | Some n => if bit_length n <=? 63 then Some (EmitC (c_array_bytes cur n) n)
              else Some (EmitBase32 (to_base32 n))
  end.

(* what the module's init code computes from the initialiser *)
Definition decode_emitted (e : emitted) : option Z :=
  match e with
  | EmitC bytes v => Some (wrap (8 * bytes) true v)
  | EmitBase32 t => py_int 32 t
  end.

(* literal value -> run-time value of the pooled Python int; None = the compiler raises *)
Definition int_emission (abs_threshold : bool) (cur : Z) (v : Z) : option Z :=
  match int_const_text abs_threshold v with
  | None => None
  | Some text => match emit_num cur text with
                 | None => None
                 | Some e => decode_emitted e
                 end
  end.

(* the key of Code.get_int_const: (text, 'long' if longness else 'int') *)
Definition int_const_key (abs_threshold : bool) (v : Z) (longness : bool) : option (list Z * bool) :=
  match int_const_text abs_threshold v with Some t => Some (t, longness) | None => None end.

(* ------------------------------------------------------------------ *)
(* 4. constants, Python equality, make_dedup_key                       *)
(* ------------------------------------------------------------------ *)

(* scalar constant values; a float is its IEEE-754 binary64 bit pattern 0 <= bits < 2^64 *)
Inductive scalar :=
| SNone | SEllipsis
| SInt (z : Z) | SBool (b : bool) | SFloat (bits : Z)
| SStr (s : list Z) | SBytes (s : list Z).

Inductive pyclass := PcNone | PcEllipsis | PcInt | PcBool | PcFloat | PcStr | PcBytes.

Definition class_of (v : scalar) : pyclass :=
  match v with
  | SNone => PcNone | SEllipsis => PcEllipsis | SInt _ => PcInt | SBool _ => PcBool
  | SFloat _ => PcFloat | SStr _ => PcStr | SBytes _ => PcBytes
  end.

Definition pyclass_eqb (a b : pyclass) : bool :=
  match a, b with
  | PcNone, PcNone | PcEllipsis, PcEllipsis | PcInt, PcInt | PcBool, PcBool
  | PcFloat, PcFloat | PcStr, PcStr | PcBytes, PcBytes => true
  | _, _ => false
  end.

(* node.type of constant nodes: the builtin Python types and C numeric types (by rank id) *)
Inductive ntype :=
| TPyObject | TPyInt | TPyFloat | TPyBool | TPyStr | TPyBytes
| TPyTuple | TPyList | TPySlice | TPyFrozenset
| TC (id : Z).

Definition ntype_eqb (a b : ntype) : bool :=
  match a, b with
  | TPyObject, TPyObject | TPyInt, TPyInt | TPyFloat, TPyFloat | TPyBool, TPyBool
  | TPyStr, TPyStr | TPyBytes, TPyBytes | TPyTuple, TPyTuple | TPyList, TPyList
  | TPySlice, TPySlice | TPyFrozenset, TPyFrozenset => true
  | TC x, TC y => x =? y
  | _, _ => false
  end.

(* IEEE-754 binary64 on bit patterns *)
Definition f_sign (bits : Z) : Z := bits / 2 ^ 63.
Definition f_exp (bits : Z) : Z := (bits / 2 ^ 52) mod 2 ^ 11.
Definition f_man (bits : Z) : Z := bits mod 2 ^ 52.
Definition f_is_nan (bits : Z) : bool := (f_exp bits =? 2047) && negb (f_man bits =? 0).
Definition f_is_zero (bits : Z) : bool := (bits mod 2 ^ 63) =? 0.

(* float == float: no NaN, same pattern or both zeros *)
Definition float_eq (x y : Z) : bool :=
  negb (f_is_nan x) && negb (f_is_nan y) && ((x =? y) || (f_is_zero x && f_is_zero y)).

(* Some z when the float is finite and integral with value z *)
Definition float_as_int (bits : Z) : option Z :=
  let e := f_exp bits in
  let m := f_man bits in
  let sg := if f_sign bits =? 0 then 1 else -1 in
  if e =? 2047 then None
  else if e =? 0 then (if m =? 0 then Some 0 else None)
  else let mm := m + 2 ^ 52 in
       let sh := e - 1075 in
       if 0 <=? sh then Some (sg * (mm * 2 ^ sh))
       else if mm mod 2 ^ (- sh) =? 0 then Some (sg * (mm / 2 ^ (- sh))) else None.

Fixpoint zlist_eqb (a b : list Z) : bool :=
  match a, b with
  | [], [] => true
  | x :: a', y :: b' => (x =? y) && zlist_eqb a' b'
  | _, _ => false
  end.

Definition as_int (v : scalar) : option Z :=
  match v with SInt z => Some z | SBool b => Some (b2z b) | _ => None end.

(* Python == on scalar constants: 1 == 1.0 == True, 0.0 == -0.0, nan != nan, 'a' != b'a' *)
Definition scalar_eq (a b : scalar) : bool :=
  match a, b with
  | SNone, SNone => true
  | SEllipsis, SEllipsis => true
  | SStr x, SStr y => zlist_eqb x y
  | SBytes x, SBytes y => zlist_eqb x y
  | SFloat x, SFloat y => float_eq x y
  | SFloat x, _ => match as_int b, float_as_int x with Some z, Some w => z =? w | _, _ => false end
  | _, SFloat y => match as_int a, float_as_int y with Some z, Some w => z =? w | _, _ => false end
  | _, _ => match as_int a, as_int b with Some z, Some w => z =? w | _, _ => false end
  end.

(* math.copysign(1.0, x) as 0 / 1, only for floats (the repaired key's extra component) *)
Definition float_sign_tag (v : scalar) : option Z :=
  match v with SFloat bits => Some (f_sign bits) | _ => None end.

(* constant nodes as make_dedup_key sees them *)
Inductive cnode :=
| NLeaf (ty : ntype) (v : scalar)                     (* has_constant_result(): node.type, node.constant_result *)
| NSeq (ty : ntype) (literal : bool) (mult : option cnode) (args : list cnode)   (* is_sequence_constructor *)
| NSlice (ty : ntype) (start stop step : cnode)       (* is_slice *)
| NOpaque.                                            (* no constant result *)

(* keys: Python tuples / frozensets of tuples *)
Inductive key :=
| KLeaf (ty : ntype) (v : scalar) (cls : option pyclass) (sgn : option (option Z))
    (* (node.type, constant_result, type(constant_result) or None [, sign or None]) *)
| KCont (ty : ntype) (as_set : bool) (items : list key).
    (* (outer_type, tuple(item_keys)) or (outer_type, frozenset(item_keys)) *)

(* Two switches select the code as it is (false, false) and the repaired code (true, true):
   fx : the leaf key carries the sign of a float constant as a fourth component
   os : frozenset constants use an ordered (tuple) key like every other container *)
Definition none_entry (fx : bool) : key :=
  KLeaf TPyObject SNone (Some PcNone) (if fx then Some None else None).

Definition leaf_key (fx : bool) (ty : ntype) (v : scalar) : key :=
  KLeaf ty v (if ntype_eqb ty TPyObject then Some (class_of v) else None)
        (if fx then Some (float_sign_tag v) else None).

Fixpoint all_some (l : list (option key)) : option (list key) :=
  match l with
  | [] => Some []
  | Some k :: t => match all_some t with Some r => Some (k :: r) | None => None end
  | None :: _ => None
  end.

Definition cont_key (os : bool) (outer : ntype) (items : list (option key)) : option key :=
  match all_some items with
  | Some ks => Some (KCont outer (ntype_eqb outer TPyFrozenset && negb os) ks)
  | None => None
  end.

Fixpoint item_key (fx os : bool) (n : cnode) : option key :=
  match n with
  | NLeaf ty v => Some (leaf_key fx ty v)
  | NSeq ty literal mult args =>
      cont_key os ty
        ((match mult with
          | Some m => if literal then item_key fx os m else Some (none_entry fx)
          | None => Some (none_entry fx)
          end) :: map (item_key fx os) args)
  | NSlice ty a b c => cont_key os ty [item_key fx os a; item_key fx os b; item_key fx os c]
  | NOpaque => None
  end.

(* ExprNodes.make_dedup_key(outer_type, item_nodes); an absent node is Python None *)
Definition make_dedup_key (fx os : bool) (outer : ntype) (items : list (option cnode)) : option key :=
  cont_key os outer
    (map (fun o => match o with Some n => item_key fx os n | None => Some (none_entry fx) end) items).

Definition optclass_eqb (a b : option pyclass) : bool :=
  match a, b with
  | None, None => true | Some x, Some y => pyclass_eqb x y | _, _ => false
  end.
Definition optz_eqb (a b : option Z) : bool :=
  match a, b with
  | None, None => true | Some x, Some y => x =? y | _, _ => false
  end.
Definition sgn_eqb (a b : option (option Z)) : bool :=
  match a, b with
  | None, None => true | Some x, Some y => optz_eqb x y | _, _ => false
  end.

(* Python == of two keys (what the dict lookup in get_py_const decides; equal keys have
   equal hashes).  Tuples: same length and pairwise ==; frozensets: mutual inclusion. *)
Fixpoint key_eq (a b : key) {struct a} : bool :=
  match a, b with
  | KLeaf t1 v1 c1 s1, KLeaf t2 v2 c2 s2 =>
      ntype_eqb t1 t2 && scalar_eq v1 v2 && optclass_eqb c1 c2 && sgn_eqb s1 s2
  | KCont t1 f1 l1, KCont t2 f2 l2 =>
      ntype_eqb t1 t2 &&
      (if f1 then
         f2 && forallb (fun x => existsb (fun y => key_eq x y) l2) l1
            && forallb (fun y => existsb (fun x => key_eq x y) l1) l2
       else
         negb f2 &&
         (fix leq (l1 l2 : list key) {struct l1} : bool :=
            match l1, l2 with
            | [], [] => true
            | x :: t1, y :: t2 => key_eq x y && leq t1 t2
            | _, _ => false
            end) l1 l2)
  | _, _ => false
  end.

(* run-time values of pooled constants *)
Inductive pyconst :=
| CScalar (v : scalar)
| CSeq (ty : ntype) (items : list pyconst)       (* tuple (or list) *)
| CSlice (a b c : pyconst).

(* identical = same type and same value bit for bit, recursively: structural equality,
   because floats are bit patterns and bool / int / float are different constructors *)
Definition identical (a b : pyconst) : Prop := a = b.

Fixpoint repeat_list {A} (n : nat) (l : list A) : list A :=
  match n with O => [] | S k => l ++ repeat_list k l end.

Fixpoint opt_list {A} (l : list (option A)) : option (list A) :=
  match l with
  | [] => Some []
  | Some k :: t => match opt_list t with Some r => Some (k :: r) | None => None end
  | None :: _ => None
  end.

(* the object the pooled constant is at run time *)
Fixpoint denote (n : cnode) : option pyconst :=
  match n with
  | NLeaf ty v => Some (CScalar v)
  | NSeq ty literal mult args =>
      match opt_list (map denote args) with
      | None => None
      | Some vs =>
          match (if literal then mult else None) with
          | None => Some (CSeq ty vs)
          | Some (NLeaf _ v) =>
              match as_int v with
              | Some k => Some (CSeq ty (repeat_list (Z.to_nat k) vs))
              | None => None
              end
          | Some _ => None
          end
      end
  | NSlice ty a b c =>
      match denote a, denote b, denote c with
      | Some x, Some y, Some z => Some (CSlice x y z)
      | _, _, _ => None
      end
  | NOpaque => None
  end.

(* ExprNodes invariant assumed of analysed constant nodes: a node with a concrete builtin type
   carries a constant_result of that Python class; a multiplier is an int/bool constant *)
Definition leaf_okb (ty : ntype) (v : scalar) : bool :=
  match ty, v with
  | TPyObject, _ => true
  | TPyInt, SInt _ | TPyFloat, SFloat _ | TPyBool, SBool _ | TPyStr, SStr _ | TPyBytes, SBytes _ => true
  | _, _ => false
  end.

Definition mult_okb (m : option cnode) : bool :=
  match m with
  | None => true
  | Some (NLeaf ty v) =>
      match ty, v with
      | (TPyObject | TPyInt | TC _), SInt _ => true
      | (TPyObject | TPyBool | TC _), SBool _ => true
      | _, _ => false
      end
  | Some _ => false
  end.

Definition float_okb (v : scalar) : bool :=
  match v with SFloat bits => (0 <=? bits) && (bits <? 2 ^ 64) | _ => true end.

Fixpoint wf_node (n : cnode) : bool :=
  match n with
  | NLeaf ty v => leaf_okb ty v && float_okb v
  | NSeq ty literal mult args =>
      (ntype_eqb ty TPyTuple || ntype_eqb ty TPyList) && mult_okb mult && forallb wf_node args
  | NSlice ty a b c => ntype_eqb ty TPySlice && wf_node a && wf_node b && wf_node c
  | NOpaque => false
  end.

(* the three kinds of pooled containers and their keys as the code builds them *)
Inductive topnode :=
| TopSeq (n : cnode)                  (* TupleNode.generate_operation_code *)
| TopSlice (n : cnode)                (* SliceNode.generate_result_code: make_dedup_key(type, (self,)) *)
| TopFrozen (args : list cnode).      (* FrozenSetFromArrayNode: make_dedup_key(frozenset_type, args) *)

Definition top_key (fx os : bool) (t : topnode) : option key :=
  match t with
  | TopSeq (NSeq ty literal mult args) =>
      make_dedup_key fx os ty ((if literal then mult else None) :: map Some args)
  | TopSeq _ => None
  | TopSlice (NSlice ty a b c) => make_dedup_key fx os ty [Some (NSlice ty a b c)]
  | TopSlice _ => None
  | TopFrozen args => make_dedup_key fx os TPyFrozenset (map Some args)
  end.

Definition wf_top (t : topnode) : bool :=
  match t with
  | TopSeq (NSeq ty l m a) => wf_node (NSeq ty l m a)
  | TopSlice (NSlice ty a b c) => wf_node (NSlice ty a b c)
  | TopFrozen args => forallb wf_node args
  | _ => false
  end.

(* Python == on constants (for the set semantics of frozenset construction) *)
Fixpoint py_eq (a b : pyconst) {struct a} : bool :=
  match a, b with
  | CScalar x, CScalar y => scalar_eq x y
  | CSeq t1 l1, CSeq t2 l2 =>
      ntype_eqb t1 t2 &&
      (fix leq (l1 l2 : list pyconst) {struct l1} : bool :=
         match l1, l2 with
         | [], [] => true
         | x :: r1, y :: r2 => py_eq x y && leq r1 r2
         | _, _ => false
         end) l1 l2
  | CSlice a1 b1 c1, CSlice a2 b2 c2 => py_eq a1 a2 && py_eq b1 b2 && py_eq c1 c2
  | _, _ => false
  end.

(* frozenset(args): the first of several equal elements stays *)
Definition fs_build (l : list pyconst) : list pyconst :=
  fold_left (fun acc x => if existsb (fun y => py_eq y x) acc then acc else acc ++ [x]) l [].

Inductive topconst :=
| VConst (c : pyconst)
| VFrozen (elems : list pyconst).     (* the elements of the run-time frozenset, any order *)

Definition denote_top (t : topnode) : option topconst :=
  match t with
  | TopSeq n | TopSlice n => match denote n with Some c => Some (VConst c) | None => None end
  | TopFrozen args =>
      match opt_list (map denote args) with
      | Some vs => Some (VFrozen (fs_build vs))
      | None => None
      end
  end.

Definition identical_top (a b : topconst) : Prop :=
  match a, b with
  | VConst x, VConst y => identical x y
  | VFrozen l1, VFrozen l2 => (forall x, In x l1 -> In x l2) /\ (forall x, In x l2 -> In x l1)
  | _, _ => False
  end.

(* ---- frozenset keys since a8197db74 ("equal frozenset constants are shared again whatever their
   item order"): of the item keys only the FIRST one per Python value is kept, in a frozenset:
       first_items = {}
       for item_key in item_keys: first_items.setdefault(_dedup_key_value(item_key), item_key)
       return outer_type, frozenset(first_items.values())
   (os = false / true above are the two earlier variants: all item keys in a frozenset / in a tuple) *)

(* _dedup_key_value: the Python value an item key stands for -- constant_result of a leaf, the
   tuple of the item values of a container key (for a sequence the first item is the multiplier
   entry or None: the multiplier is NOT applied) *)
Fixpoint key_value (k : key) : pyconst :=
  match k with
  | KLeaf _ v _ _ => CScalar v
  | KCont _ _ l => CSeq TPyTuple (map key_value l)
  end.

(* dict.setdefault by value: the elements whose value is not == to the value of an earlier one *)
Fixpoint first_by {T} (val : T -> pyconst) (seen : list pyconst) (l : list T) : list T :=
  match l with
  | [] => []
  | x :: r => if existsb (fun s => py_eq s (val x)) seen then first_by val seen r
              else x :: first_by val (seen ++ [val x]) r
  end.

(* a sequence with an effective multiplier somewhere in the item *)
Fixpoint has_mult (n : cnode) : bool :=
  match n with
  | NSeq _ literal mult args =>
      (match (if literal then mult else None) with Some _ => true | None => false end)
      || existsb has_mult args
  | NSlice _ a b c => has_mult a || has_mult b || has_mult c
  | _ => false
  end.

(* guard = false: the code as it is.  guard = true: the repaired code (proposed_fixes/
   C09-frozenset_multiplied_tuple_merged.diff), which does not pool a frozenset that has a
   multiplied sequence among its items *)
Definition frozen_key (fx guard : bool) (args : list cnode) : option key :=
  if guard && existsb has_mult args then None else
  match all_some (map (item_key fx true) args) with
  | Some ks => Some (KCont TPyFrozenset true (first_by key_value [] ks))
  | None => None
  end.

Definition top_key2 (fx guard : bool) (t : topnode) : option key :=
  match t with
  | TopFrozen args => frozen_key fx guard args
  | _ => top_key fx true t
  end.

(* the items of a frozenset are hashable: scalars and tuples of hashable items *)
Fixpoint hashable (n : cnode) : bool :=
  match n with
  | NLeaf _ _ => true
  | NSeq ty _ _ args => ntype_eqb ty TPyTuple && forallb hashable args
  | _ => false
  end.
Definition wf_top2 (t : topnode) : bool :=
  wf_top t && match t with TopFrozen args => forallb hashable args | _ => true end.
Definition top_has_mult (t : topnode) : bool :=
  match t with TopFrozen args => existsb has_mult args | _ => false end.

(* ------------------------------------------------------------------ *)
(* 5. ConstantFolding on the int / bool fragment                       *)
(* ------------------------------------------------------------------ *)

Inductive binop := OAdd | OSub | OMul | OFloorDiv | OMod | OPow | OLshift | ORshift | OAnd | OOr | OXor.
Inductive unop := UPlus | UMinus | UInvert | UNot.

(* literal operands: BoolNode(value) or IntNode(text) *)
Inductive lit := LBool (b : bool) | LInt (z : Z).

Definition lit_int (l : lit) : Z := match l with LBool b => b2z b | LInt z => z end.

(* Python's own operators on int / bool operands (operator.add ... of the compile-time tables);
   None: the operation raises (ZeroDivisionError, negative shift count) or leaves the
   int/bool fragment (negative exponent gives a float) *)
Definition py_binop (op : binop) (a b : lit) : option lit :=
  let x := lit_int a in
  let y := lit_int b in
  let both_bool := match a, b with LBool _, LBool _ => true | _, _ => false end in
  match op with
  | OAdd => Some (LInt (x + y))
  | OSub => Some (LInt (x - y))
  | OMul => Some (LInt (x * y))
  | OFloorDiv => if y =? 0 then None else Some (LInt (x / y))
  | OMod => if y =? 0 then None else Some (LInt (x mod y))
  | OPow => if y <? 0 then None else Some (LInt (x ^ y))
  | OLshift => if y <? 0 then None else Some (LInt (Z.shiftl x y))
  | ORshift => if y <? 0 then None else Some (LInt (Z.shiftr x y))
  | OAnd => if both_bool then Some (LBool (negb (Z.land x y =? 0))) else Some (LInt (Z.land x y))
  | OOr => if both_bool then Some (LBool (negb (Z.lor x y =? 0))) else Some (LInt (Z.lor x y))
  | OXor => if both_bool then Some (LBool (negb (Z.lxor x y =? 0))) else Some (LInt (Z.lxor x y))
  end.

Definition py_unop (op : unop) (a : lit) : lit :=
  match op with
  | UPlus => LInt (lit_int a)
  | UMinus => LInt (- lit_int a)
  | UInvert => LInt (- lit_int a - 1)
  | UNot => LBool (lit_int a =? 0)
  end.

(* the operator test of visit_BinopNode:  node.operator in '+-//<<%**>>'  (substring test) *)
Definition op_in_arith_string (op : binop) : bool :=
  match op with
  | OAdd | OSub | OMul | OFloorDiv | OMod | OPow | OLshift | ORshift => true
  | OAnd | OOr | OXor => false
  end.

(* the node a fold produces: BoolNode(value) or IntNode(value text) *)
Inductive folded := FBool (b : bool) | FInt (text : list Z) | FOperand.   (* FOperand: the operand node itself *)

(* int(x) of a constant_result *)
Definition int_of_lit (l : lit) : Z := lit_int l.
Definition bool_of_lit (l : lit) : bool := negb (lit_int l =? 0).

(* visit_BinopNode for two literal operands of class BoolNode / IntNode *)
Definition fold_binop (op : binop) (a b : lit) : option folded :=
  match py_binop op a b with
  | None => None                                   (* not a constant: node stays *)
  | Some r =>
      let widest_is_bool := match a, b with LBool _, LBool _ => true | _, _ => false end in
      let target_is_int := negb widest_is_bool || op_in_arith_string op in
      if target_is_int then Some (FInt (strip_L (py_hex (int_of_lit r))))
      else match r with
           | LBool v => Some (FBool v)             (* BoolNode(value=constant_result) asserts a bool *)
           | LInt _ => None
           end
  end.

(* visit_UnopNode for a literal operand.  '-' on an IntNode never reaches the folder: the
   parser's unop_node already produced the negated literal (negated_literal_text). *)
Definition fold_unop (op : unop) (a : lit) : option folded :=
  let r := py_unop op a in
  match op, a with
  | UNot, _ => Some (FBool (bool_of_lit r))
  | _, LBool _ => match py_str (int_of_lit r) with Some t => Some (FInt t) | None => None end
  | UPlus, LInt z => Some FOperand
  | UMinus, LInt z => None
  | UInvert, LInt _ => None                        (* node stays, evaluated at run time *)
  end.

(* what the folded node is when the compiler reads it back *)
Definition folded_value (operand : lit) (f : folded) : option lit :=
  match f with
  | FOperand => Some operand
  | FBool b => Some (LBool b)
  | FInt t => match str_to_number t with Some z => Some (LInt z) | None => None end
  end.
