(* Model of typed-memoryview indexing and slicing:
     Cython/Utility/MemoryView_C.c : __pyx_memoryview_slice_memviewslice  (slice_dim / index_dim),
                                     SliceIndex (index_dim), SimpleSlice (simple_slice),
     Cython/Compiler/MemoryView.py : unellipsify, generate_buffer_slice_code (slice_nd),
     Cython/Utility/MemoryView.pyx : _unellipsify(_index_tuple) (unellipsify_rt), memview_slice
                                     (slice_nd again: it calls the same C function per dimension),
   and of the specification: CPython Objects/sliceobject.c PySlice_Unpack + PySlice_AdjustIndices
   (py_unpack / py_adjust) and its arbitrary-precision twin _PySlice_GetLongIndices
   (py_slice_indices).
   Py_ssize_t values are modelled as Z; the C division `/` is Z.quot (truncation).  That no
   intermediate leaves the Py_ssize_t range is a separate statement (slice_dim_no_overflow).
   Only direct dimensions (suboffset < 0) are modelled. *)
From Coq Require Import ZArith List Bool.
From CyVerif Require Import Lib.CInt.
Import ListNotations.
Open Scope Z_scope.

(* Two repairs are kept behind flags (false = the code before the repair):
     fx_clamp : a start/stop that is still negative after adding the extent is clamped to
                `negative_step ? -1 : 0` (was: 0)                                   -- finding F7
     fx_ceil  : new_shape is rounded up only when the remainder has the sign of the step
                (was: whenever the remainder is non-zero, although C division truncates)   *)
Record fixes := { fx_clamp : bool; fx_ceil : bool }.
Definition fixes_none : fixes := {| fx_clamp := false; fx_ceil := false |}.
Definition fixes_all  : fixes := {| fx_clamp := true;  fx_ceil := true  |}.

Inductive err := IndexError | ValueError.

(* an optional slice field as the pair (have_x, x) the C function receives *)
Definition opt (have_x : bool) (x : Z) : option Z := if have_x then Some x else None.

(* ---- the slice branch, "check our bounds and set defaults" ---- *)

Definition clamp_low (fx : fixes) (negative_step : bool) : Z :=
  if fx_clamp fx && negative_step then -1 else 0.

Definition norm_start (fx : fixes) (shape : Z) (negative_step have_start : bool) (start : Z) : Z :=
  if have_start then
    if start <? 0 then
      let s := start + shape in
      if s <? 0 then clamp_low fx negative_step else s
    else if start >=? shape then (if negative_step then shape - 1 else shape)
    else start
  else (if negative_step then shape - 1 else 0).

Definition norm_stop (fx : fixes) (shape : Z) (negative_step have_stop : bool) (stop : Z) : Z :=
  if have_stop then
    if stop <? 0 then
      let s := stop + shape in
      if s <? 0 then clamp_low fx negative_step else s
    else if stop >? shape then shape
    else stop
  else (if negative_step then -1 else shape).

(* len = ceil((stop - start) / step), clamped at 0, with C's truncating division *)
Definition ceil_len (fx : fixes) (start stop step : Z) : Z :=
  let d := stop - start in
  let q := Z.quot d step in
  let r := d - step * q in
  let q1 := if fx_ceil fx
            then (if negb (r =? 0) && Bool.eqb (r <? 0) (step <? 0) then q + 1 else q)
            else (if negb (r =? 0) then q + 1 else q) in
  if q1 <? 0 then 0 else q1.

(* normalised (start, stop, step, new_shape) of the slice branch; None = "Step may not be zero" *)
Definition slice_bounds (fx : fixes) (shape start stop step : Z)
           (have_start have_stop have_step : bool) : option (Z * Z * Z * Z) :=
  if have_step && (step =? 0) then None
  else
    let negative_step := have_step && (step <? 0) in
    let step' := if have_step then step else 1 in
    let start' := norm_start fx shape negative_step have_start start in
    let stop' := norm_stop fx shape negative_step have_stop stop in
    Some (start', stop', step', ceil_len fx start' stop' step').

(* the two input classes on which the unrepaired code deviates (see Prop/C16.v) *)
Definition f7_class (shape start stop step : Z) (have_start have_stop have_step : bool) : bool :=
  have_step && (step <? 0) &&
  ((have_start && (start <? - shape)) || (have_stop && (stop <? - shape))).

(* on the normalised bounds: the exact quotient (stop'-start')/step' lies strictly in (-1, 0) *)
Definition ceil_class (start' stop' step' : Z) : bool :=
  let d := stop' - start' in
  negb (d =? 0) && negb (Bool.eqb (d <? 0) (step' <? 0)) && (Z.abs d <? Z.abs step').

(* what one call does to dst for a direct dimension *)
Inductive dim_res :=
| DIndex (offset : Z)                           (* dimension indexed away; data += offset *)
| DSlice (new_shape new_stride offset : Z)      (* dst.shape/strides[new_ndim]; data += offset *)
| DErr (e : err).

(* is_slice = 0 branch; also the SliceIndex template with wraparound and boundscheck on
   (its test (size_t)i < (size_t)shape equals 0 <= i < shape for shape >= 0) *)
Definition index_dim (shape stride idx : Z) : dim_res :=
  let i := if idx <? 0 then idx + shape else idx in
  if (0 <=? i) && (i <? shape) then DIndex (i * stride) else DErr IndexError.

(* is_slice = 1 branch *)
Definition slice_dim (fx : fixes) (shape stride start stop step : Z)
           (have_start have_stop have_step : bool) : dim_res :=
  match slice_bounds fx shape start stop step have_start have_stop have_step with
  | None => DErr ValueError
  | Some (start', _, step', new_shape) =>
      (* an empty slice with a negative step can have start' = -1: there is no first item and the
         data pointer / suboffset stays where it is *)
      DSlice new_shape (stride * step') ((if start' <? 0 then 0 else start') * stride)
  end.

(* (new_shape, first index, index step) of the slice branch *)
Definition slice_triple (fx : fixes) (shape start stop step : Z)
           (have_start have_stop have_step : bool) : option (Z * Z * Z) :=
  match slice_bounds fx shape start stop step have_start have_stop have_step with
  | None => None
  | Some (start', _, step', new_shape) => Some (new_shape, start', step')
  end.

(* SimpleSlice template: a bare ':' copies extent and stride *)
Definition simple_slice (shape stride : Z) : dim_res := DSlice shape stride 0.

(* every intermediate value of the slice branch, for the no-overflow statement
   (stride * step and start * stride excluded: they depend on the buffer geometry) *)
Definition slice_intermediates (fx : fixes) (shape start stop step : Z)
           (have_start have_stop have_step : bool) : list Z :=
  let negative_step := have_step && (step <? 0) in
  let step' := if have_step then step else 1 in
  let start' := norm_start fx shape negative_step have_start start in
  let stop' := norm_stop fx shape negative_step have_stop stop in
  let d := stop' - start' in
  let q := Z.quot d step' in
  [ (if have_start && (start <? 0) then start + shape else 0);
    (if have_stop && (stop <? 0) then stop + shape else 0);
    shape - 1; start'; stop'; d; q; step' * q; d - step' * q; q + 1 ].

(* ---- specification: CPython ---- *)

(* slicelength as computed at the end of PySlice_AdjustIndices *)
Definition py_len (start stop step : Z) : Z :=
  if step <? 0
  then (if stop <? start then (start - stop - 1) / (- step) + 1 else 0)
  else (if start <? stop then (stop - start - 1) / step + 1 else 0).

(* PySlice_AdjustIndices(length, &start, &stop, step) -> (slicelength, start, stop) *)
Definition py_adjust (length start stop step : Z) : Z * Z * Z :=
  let start' :=
    if start <? 0 then
      let s := start + length in
      if s <? 0 then (if step <? 0 then -1 else 0) else s
    else if start >=? length then (if step <? 0 then length - 1 else length)
    else start in
  let stop' :=
    if stop <? 0 then
      let s := stop + length in
      if s <? 0 then (if step <? 0 then -1 else 0) else s
    else if stop >=? length then (if step <? 0 then length - 1 else length)
    else stop in
  (py_len start' stop' step, start', stop').

(* PySlice_Unpack with PY_SSIZE_T_MAX = M (so PY_SSIZE_T_MIN = -M-1); None = ValueError *)
Definition py_unpack (M : Z) (start stop step : option Z) : option (Z * Z * Z) :=
  let step' := match step with None => 1 | Some s => if s <? - M then - M else s end in
  if step' =? 0 then None
  else
    let start' := match start with
                  | None => if step' <? 0 then M else 0
                  | Some s => s end in
    let stop' := match stop with
                 | None => if step' <? 0 then - M - 1 else M
                 | Some s => s end in
    Some (start', stop', step').

(* seq[start:stop:step] on a sequence of the given length, via the ssize_t API:
   Some (slicelength, first index, index step) or None (ValueError) *)
Definition py_slice_ssize (M length : Z) (start stop step : option Z) : option (Z * Z * Z) :=
  match py_unpack M start stop step with
  | None => None
  | Some (s, e, st) => let '(n, s', _) := py_adjust length s e st in Some (n, s', st)
  end.

(* slice(start, stop, step).indices(length): _PySlice_GetLongIndices, arbitrary precision *)
Definition py_slice_indices (length : Z) (start stop step : option Z) : option (Z * Z * Z) :=
  let step' := match step with None => 1 | Some s => s end in
  if step' =? 0 then None
  else
    let neg := step' <? 0 in
    let lower := if neg then -1 else 0 in
    let upper := if neg then length - 1 else length in
    let clampv (v : Z) :=
      if v <? 0 then (let s := v + length in if s <? lower then lower else s)
      else (if v >? upper then upper else v) in
    let start' := match start with None => if neg then upper else lower | Some s => clampv s end in
    let stop' := match stop with None => if neg then lower else upper | Some s => clampv s end in
    Some (py_len start' stop' step', start', step').

(* seq[i] for an integer i: Some (normalised index) or None (IndexError) *)
Definition py_index (length i : Z) : option Z :=
  let j := if i <? 0 then i + length else i in
  if (0 <=? j) && (j <? length) then Some j else None.

(* ---- several dimensions ---- *)

Inductive idx :=
| IInt (i : Z)
| ISlice (start stop step : option Z)
| INewaxis
| IEllipsis.

Definition full_slice : idx := ISlice None None None.
Definition is_newaxis (x : idx) : bool := match x with INewaxis => true | _ => false end.
Definition oz (o : option Z) : Z := match o with Some v => v | None => 0 end.
Definition have (o : option Z) : bool := match o with Some _ => true | None => false end.

(* Compiler/MemoryView.py: unellipsify(indices, ndim) -> result list *)
Fixpoint unell_go (nslices : nat) (seen : bool) (ixs : list idx) : list idx :=
  match ixs with
  | [] => []
  | IEllipsis :: r =>
      if seen then full_slice :: unell_go nslices true r
      else repeat full_slice nslices ++ unell_go nslices true r
  | x :: r => x :: unell_go nslices seen r
  end.

Definition unellipsify (ndim : nat) (ixs : list idx) : list idx :=
  let newaxes := length (filter is_newaxis ixs) in
  let n_indices := (length ixs - newaxes)%nat in
  let result := unell_go (ndim - n_indices + 1)%nat false ixs in
  let result_length := (length result - newaxes)%nat in
  result ++ repeat full_slice (ndim - result_length)%nat.

(* a view: data offset (bytes, relative to the base data pointer) and (shape, stride) per dim *)
Inductive nd_res :=
| NdOk (off : Z) (dims : list (Z * Z))
| NdErr (e : err)
| NdBad.                                   (* index list does not fit ndim: rejected at compile time *)

Definition slice_of_idx (fx : fixes) (shape stride : Z) (start stop step : option Z) : dim_res :=
  match start, stop, step with
  | None, None, None => simple_slice shape stride
  | _, _, _ => slice_dim fx shape stride (oz start) (oz stop) (oz step) (have start) (have stop) (have step)
  end.

(* generate_buffer_slice_code / memview_slice: one pass over the (un-ellipsified) indices *)
Fixpoint slice_nd (fx : fixes) (dims : list (Z * Z)) (ixs : list idx) (off : Z) : nd_res :=
  match ixs with
  | [] => match dims with [] => NdOk off [] | _ => NdBad end
  | INewaxis :: r =>
      match slice_nd fx dims r off with
      | NdOk o ds => NdOk o ((1, 0) :: ds)
      | e => e
      end
  | IEllipsis :: _ => NdBad
  | IInt i :: r =>
      match dims with
      | [] => NdBad
      | (sh, st) :: dr =>
          match index_dim sh st i with
          | DIndex o => slice_nd fx dr r (off + o)
          | DErr e => NdErr e
          | DSlice _ _ _ => NdBad
          end
      end
  | ISlice a b c :: r =>
      match dims with
      | [] => NdBad
      | (sh, st) :: dr =>
          match slice_of_idx fx sh st a b c with
          | DSlice n s o =>
              match slice_nd fx dr r (off + o) with
              | NdOk o' ds => NdOk o' ((n, s) :: ds)
              | e => e
              end
          | DErr e => NdErr e
          | DIndex _ => NdBad
          end
      end
  end.

Definition getitem_nd (fx : fixes) (dims : list (Z * Z)) (ixs : list idx) : nd_res :=
  slice_nd fx dims (unellipsify (length dims) ixs) 0.

(* byte offset of the element at multi-index js in a view *)
Fixpoint elem_offset (off : Z) (dims : list (Z * Z)) (js : list Z) : Z :=
  match dims, js with
  | (_, st) :: dr, j :: jr => elem_offset (off + j * st) dr jr
  | _, _ => off
  end.

Fixpoint in_box (dims : list (Z * Z)) (js : list Z) : Prop :=
  match dims, js with
  | [], [] => True
  | (sh, _) :: dr, j :: jr => 0 <= j < sh /\ in_box dr jr
  | _, _ => False
  end.

(* specification of the element selection: the base multi-index addressed by result
   multi-index js under indices ixs (Python/NumPy basic indexing), None = error/ill-formed *)
Fixpoint base_index (shapes : list Z) (ixs : list idx) (js : list Z) : option (list Z) :=
  match ixs with
  | [] => match shapes, js with [], [] => Some [] | _, _ => None end
  | INewaxis :: r =>
      match js with
      | j :: jr => if j =? 0 then base_index shapes r jr else None
      | [] => None
      end
  | IEllipsis :: _ => None
  | IInt i :: r =>
      match shapes with
      | [] => None
      | sh :: sr =>
          match py_index sh i with
          | None => None
          | Some k => option_map (cons k) (base_index sr r js)
          end
      end
  | ISlice a b c :: r =>
      match shapes, js with
      | sh :: sr, j :: jr =>
          match py_slice_indices sh a b c with
          | None => None
          | Some (n, first, step) =>
              if (0 <=? j) && (j <? n)
              then option_map (cons (first + j * step)) (base_index sr r jr)
              else None
          end
      | _, _ => None
      end
  end.
