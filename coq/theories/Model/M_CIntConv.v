(* Model of Cython/Utility/TypeConversion.c: CIntFromPy / CIntFromPyVerify / CIntToPy as
   instantiated (Compiler/PyrexTypes.py: CIntLike.create_from_py_utility_code) at a C integer
   type T of width w bits and signedness s, plus __Pyx_PyNumber_Long, __Pyx_PyLong_AsSsize_t /
   __Pyx_PyIndex_AsSsize_t (the converter of Py_ssize_t) and __Pyx_PyObject_IsTrue (bint).
   The C text is followed branch by branch; every C conversion is an explicit [wrap]; the
   CPython C-API calls are Gallina definitions of their documented contract (value in range ->
   value, otherwise (T)-1 with OverflowError set).  Executable definitions only. *)
From Coq Require Import ZArith List Bool Lia.
From CyVerif Require Import Lib.CInt Lib.PyLong.
Import ListNotations.
Open Scope Z_scope.

(* ---- build configuration (all tests in the C text are sizeof / #if tests on these) ---- *)
Record cfg := Cfg {
  c_sh : Z;            (* PyLong_SHIFT *)
  c_int : Z;           (* 8*sizeof(int) *)
  c_long : Z;          (* 8*sizeof(long) *)
  c_llong : Z;         (* 8*sizeof(PY_LONG_LONG) *)
  c_ssize : Z;         (* 8*sizeof(Py_ssize_t) = 8*sizeof(size_t) *)
  c_compact : Z;       (* 8*sizeof(__Pyx_compact_pylong): Py_ssize_t on 3.12+, sdigit before *)
  c_internals : bool;  (* CYTHON_USE_PYLONG_INTERNALS *)
  c_asint : bool;      (* __PYX_LIMITED_VERSION_HEX >= 0x030d0000 : PyLong_AsInt is used *)
  c_chunks : bool;     (* __Pyx_LargePyLong_: true = chunk loop through the C-API (Limited API,
                          PyPy); false = _PyLong_AsByteArray (CPython < 3.13) *)
  c_slots : bool       (* CYTHON_USE_TYPE_SLOTS *)
}.

(* the configurations that are run: CPython 3.12, LP64 *)
Definition lp64_internals : cfg := Cfg 30 32 64 64 64 64 true false false true.
Definition lp64_nointernals : cfg := Cfg 30 32 64 64 64 64 false false false true.
Definition lp64_limited : cfg := Cfg 30 32 64 64 64 64 false false true false.

(* ---- results ---- *)
Inductive err :=
| Overflow          (* Cython: "value too large to convert to T" *)
| NegOverflow       (* Cython: "can't convert negative value to T" *)
| CPyOverflow       (* CPython: "Python int too large to convert to C long" (and variants) *)
| CPyNegOverflow    (* CPython: "can't convert negative value to unsigned int" / "... negative int to unsigned" *)
| CPyBytesOverflow  (* CPython: "int too big to convert" (_PyLong_AsByteArray) *)
| TypeErr           (* TypeError *)
| OtherErr.         (* an exception raised by user code (__int__ / __index__) *)

(* what a C conversion function leaves behind: return value and error indicator *)
Inductive cres :=
| Ret (v : Z) (e : option err)
| UB              (* the C text has undefined behaviour on this path *)
| OutOfFuel.      (* model artefact: loop fuel exhausted (proved unreachable) *)

(* what the generated caller sees: `if (unlikely((v == (T)-1) && PyErr_Occurred())) goto error` *)
Inductive outcome :=
| Ok (v : Z)
| Err (e : err)
| Lost (v : Z) (e : err)   (* error set but the return value is not (T)-1: the error is missed *)
| Undefined
| Stuck.

Definition observe (w : Z) (s : bool) (r : cres) : outcome :=
  match r with
  | UB => Undefined
  | OutOfFuel => Stuck
  | Ret v None => Ok v
  | Ret v (Some e) => if v =? wrap w s (-1) then Err e else Lost v e
  end.

Definition is_some {A} (o : option A) : bool := match o with Some _ => true | None => false end.

(* ---- CPython C-API contracts, on the value of the int object ---- *)
Definition api_as_signed (fw : Z) (v : Z) : Z * option err :=       (* PyLong_AsLong/AsLongLong/AsInt/AsSsize_t *)
  if in_rangeb fw true v then (v, None) else (-1, Some CPyOverflow).
Definition api_as_unsigned (fw : Z) (v : Z) : Z * option err :=     (* PyLong_AsUnsignedLong/LongLong *)
  if v <? 0 then (wrap fw false (-1), Some CPyNegOverflow)
  else if in_rangeb fw false v then (v, None) else (wrap fw false (-1), Some CPyOverflow).

(* ---- __PYX__VERIFY_RETURN_INT(target_type = (w,s), func_type = (fw,fs), func_value, exc) ---- *)
Definition raise_overflow (w : Z) (s : bool) : cres := Ret (wrap w s (-1)) (Some Overflow).
Definition raise_neg_overflow (w : Z) (s : bool) : cres := Ret (wrap w s (-1)) (Some NegOverflow).

Definition verify (w : Z) (s : bool) (fw : Z) (fs : bool) (exc : bool) (val : Z * option err) : cres :=
  let (v, e) := val in
  if w <? fw then                                    (* sizeof(target_type) < sizeof(func_type) *)
    if negb (v =? wrap fw fs (wrap w s v)) then      (* value != (func_type)(target_type) value *)
      if exc && (v =? wrap fw fs (-1)) && is_some e then Ret (wrap w s (-1)) e
      else if negb s && (v <? 0) then raise_neg_overflow w s   (* is_unsigned && value < zero *)
      else raise_overflow w s
    else Ret (wrap w s v) e
  else Ret (wrap w s v) e.                           (* return (target_type) value; *)

(* `if (g1) {b1} else if (g2) {b2} else ... {}` where a body either returns (Some r) or is left
   without returning (None): control then continues after the whole chain *)
Fixpoint chain (bs : list (bool * option cres)) : option cres :=
  match bs with
  | [] => None
  | (g, b) :: rest => if g then b else chain rest
  end.

Definition of_join (j : option Z) (k : Z -> cres) : cres :=
  match j with Some v => k v | None => UB end.

(* ---- __Pyx_LargePyLong_<T> ---- *)
(* _PyLong_AsByteArray(x, bytes, sizeof(val), little, !is_unsigned) *)
Definition large_bytearray (w : Z) (s : bool) (v : Z) : cres :=
  if negb s && (v <? 0) then Ret (wrap w s (-1)) (Some CPyNegOverflow)
  else if in_rangeb w s v then Ret v None
  else Ret (wrap w s (-1)) (Some CPyBytesOverflow).

(* `val |= ((T) idigit) << bits` in T; a signed shift that is not representable is undefined *)
Definition or_shifted (w : Z) (s : bool) (val idigit bits : Z) : option Z :=
  let sh := Z.shiftl (wrap w s idigit) bits in
  if s && negb (in_rangeb w s sh) then None else Some (Z.lor val (wrap w s sh)).

(* for (bits = 0; bits < sizeof(T)*8 - chunk_size; bits += chunk_size) *)
Fixpoint chunk_loop (fuel : nat) (c_long w : Z) (s : bool) (chunk bits stepval val : Z)
  : option (cres + (Z * Z * Z)) :=
  match fuel with
  | O => None
  | S f =>
    if bits <? w - chunk then
      let digit := Z.land stepval (2 ^ chunk - 1) in          (* PyNumber_And(stepval, mask) *)
      let (idigit, e) := api_as_signed c_long digit in        (* PyLong_AsLong(digit) *)
      if idigit <? 0 then Some (inl (Ret (wrap w s (-1)) e))   (* goto done with ret = -1 *)
      else match or_shifted w s val idigit bits with
           | None => Some (inl UB)
           | Some val' => chunk_loop f c_long w s chunk (bits + chunk) (Z.shiftr stepval chunk) val'
           end
    else Some (inr (bits, stepval, val))
  end.

Definition large_chunks (c : cfg) (w : Z) (s : bool) (v : Z) : cres :=
  let chunk := if c_long c <? 64 then 30 else 62 in
  let is_negative := v <? 0 in
  if negb s && is_negative then raise_neg_overflow w s
  else
    let stepval := if is_negative then Z.lnot v else v in      (* PyNumber_Invert *)
    match chunk_loop (S (Z.to_nat w)) (c_long c) w s chunk 0 stepval 0 with
    | None => OutOfFuel
    | Some (inl r) => r
    | Some (inr (bits, stepval, val)) =>
      let (idigit, e) := api_as_signed (c_long c) stepval in   (* PyLong_AsLong(stepval) *)
      if idigit <? 0 then Ret (wrap w s (-1)) e
      else
        let remaining_bits := w - bits - (if s then 1 else 0) in
        if (remaining_bits <? 0) || (c_long c - 1 <=? remaining_bits) then UB   (* 1L << remaining_bits *)
        else if 2 ^ remaining_bits <=? idigit then raise_overflow w s
        else match or_shifted w s val idigit bits with
             | None => UB
             | Some val' =>
               if s then
                 if negb (Z.land val' (wrap w s (Z.shiftl 1 (w - 1))) =? 0) then raise_overflow w s
                 else Ret (if is_negative then wrap w s (Z.lnot val') else val') None
               else Ret val' None
             end
    end.

Definition large (c : cfg) (w : Z) (s : bool) (v : Z) : cres :=
  if c_chunks c then large_chunks c w s v else large_bytearray w s v.

(* ---- __Pyx_PyULong_<T> (is_unsigned = 1) ---- *)
Definition ulong_branch (c : cfg) (w : Z) (x : pylong) (k : nat) : bool * option cres :=
  let sh := c_sh c in let kz := Z.of_nat k in
  ((ndigits x =? kz) && ((kz - 1) * sh <? w),
   if kz * sh <? c_long c then
     Some (of_join (join_c (c_long c) false sh k x) (fun j => verify w false (c_long c) false false (j, None)))
   else if kz * sh <=? w then
     Some (of_join (join_c w false sh k x) (fun j => Ret (wrap w false j) None))
   else None).

Definition pyulong (c : cfg) (w : Z) (x : pylong) : cres :=
  let v := value (c_sh c) x in
  let pre :=
    if c_internals c then chain [ulong_branch c w x 2; ulong_branch c w x 3; ulong_branch c w x 4]
    else if v <? 0 then Some (raise_neg_overflow w false)   (* Py_SIZE(x) < 0 / RichCompareBool(x, False, Py_LT) *)
    else None in
  match pre with
  | Some r => r
  | None =>
    if w <=? c_long c then verify w false (c_long c) false true (api_as_unsigned (c_long c) v)
    else if w <=? c_llong c then verify w false (c_llong c) false true (api_as_unsigned (c_llong c) v)
    else large c w false v
  end.

(* ---- __Pyx_PySLong_<T> (is_unsigned = 0) ---- *)
Definition slong_neg_branch (c : cfg) (w : Z) (x : pylong) (k : nat) : bool * option cres :=
  let sh := c_sh c in let kz := Z.of_nat k in let lw := c_long c in
  ((ndigits x =? kz) && ((kz - 1) * sh <? w),
   if kz * sh <? lw then
     (* long ival = - (long) join;  __PYX_VERIFY_RETURN_INT(T, long, ival) *)
     Some (of_join (join_c lw false sh k x) (fun j =>
             let jl := wrap lw true j in
             if jl =? min_int lw true then UB else verify w true lw true false (- jl, None)))
   else if kz * sh <? w - 1 then
     (* return (T) (((T)-1) * join_T) *)
     Some (of_join (join_c w true sh k x) (fun j =>
             if in_rangeb w true (- j) then Ret (wrap w true (- j)) None else UB))
   else None).

Definition slong_pos_branch (c : cfg) (w : Z) (x : pylong) (k : nat) : bool * option cres :=
  let sh := c_sh c in let kz := Z.of_nat k in let lw := c_long c in
  ((ndigits x =? kz) && ((kz - 1) * sh <? w),
   if kz * sh <? lw then
     Some (of_join (join_c lw false sh k x) (fun j => verify w true lw false false (j, None)))
   else if kz * sh <? w - 1 then
     Some (of_join (join_c w true sh k x) (fun j => Ret (wrap w true j) None))
   else None).

Definition pyslong (c : cfg) (w : Z) (x : pylong) : cres :=
  let v := value (c_sh c) x in
  let pre :=
    if c_internals c then
      if pl_neg x
      then chain [slong_neg_branch c w x 2; slong_neg_branch c w x 3; slong_neg_branch c w x 4]
      else chain [slong_pos_branch c w x 2; slong_pos_branch c w x 3; slong_pos_branch c w x 4]
    else None in
  match pre with
  | Some r => r
  | None =>
    if c_asint c && (w <=? c_int c) && (c_int c <? c_long c)
    then verify w true (c_int c) true true (api_as_signed (c_int c) v)
    else if w <=? c_long c then verify w true (c_long c) true true (api_as_signed (c_long c) v)
    else if w <=? c_llong c then verify w true (c_llong c) true true (api_as_signed (c_llong c) v)
    else large c w true v
  end.

(* ---- __Pyx_PyLong_<T>: x is an int object (PyLong_Check) ---- *)
Definition from_py (c : cfg) (w : Z) (s : bool) (x : pylong) : cres :=
  if negb s then
    if c_internals c then
      if pl_neg x then raise_neg_overflow w s
      else if is_compact x
      then verify w s (c_compact c) false false (compact_uvalue x, None)
      else pyulong c w x
    else pyulong c w x
  else
    if c_internals c && is_compact x
    then verify w s (c_compact c) true false (compact_value x, None)
    else pyslong c w x.

(* ---- CIntToPy: the value of the Python int built from the C value v of type (w,s) ---- *)
Definition to_py (c : cfg) (w : Z) (s : bool) (v : Z) : Z :=
  if negb s then
    if w <? c_long c then wrap (c_long c) true v               (* PyLong_FromLong((long) value) *)
    else if w <=? c_long c then wrap (c_long c) false v        (* PyLong_FromUnsignedLong *)
    else if w <=? c_llong c then wrap (c_llong c) false v      (* PyLong_FromUnsignedLongLong *)
    else wrap w s v                                            (* bytes of value, little, unsigned *)
  else
    if w <=? c_long c then wrap (c_long c) true v              (* PyLong_FromLong *)
    else if w <=? c_llong c then wrap (c_llong c) true v       (* PyLong_FromLongLong *)
    else wrap w s v.                                           (* bytes of value, little, signed *)

(* `def f(T x): return x` : argument conversion followed by return conversion *)
Definition roundtrip (c : cfg) (w : Z) (s : bool) (x : pylong) : outcome :=
  match observe w s (from_py c w s x) with
  | Ok v => Ok (to_py c w s v)
  | o => o
  end.

(* ---- objects that are not ints: __Pyx_NonPyLong_<T> -> __Pyx_PyNumber_Long ---- *)
Inductive slot_result :=
| SR_int (x : pylong)      (* returns an exact int *)
| SR_raise                 (* raises *)
| SR_nonint.               (* returns something that is not an int *)

Record objkind := ObjKind { nb_int : option slot_result; nb_index : option slot_result }.

Inductive pyobj :=
| PInt (x : pylong)        (* int, bool, instance of an int subclass: PyLong_Check is true *)
| PObj (k : objkind).

Definition run_slot (r : slot_result) : pylong + err :=
  match r with SR_int x => inl x | SR_raise => inr OtherErr | SR_nonint => inr TypeErr end.

(* CYTHON_USE_TYPE_SLOTS: nb_int only; otherwise PyNumber_Long (nb_int, then nb_index) *)
Definition pynumber_long (c : cfg) (k : objkind) : pylong + err :=
  match nb_int k with
  | Some r => run_slot r
  | None => if c_slots c then inr TypeErr
            else match nb_index k with Some r => run_slot r | None => inr TypeErr end
  end.

(* PyNumber_Index / operator.index: the rule of CPython's own PyLong_As* since 3.10 *)
Definition pynumber_index (k : objkind) : pylong + err :=
  match nb_index k with Some r => run_slot r | None => inr TypeErr end.

Definition from_py_obj (c : cfg) (w : Z) (s : bool) (o : pyobj) : cres :=
  match o with
  | PInt x => from_py c w s x
  | PObj k => match pynumber_long c k with
              | inl x => from_py c w s x
              | inr e => Ret (wrap w s (-1)) (Some e)
              end
  end.

(* ---- Py_ssize_t: __Pyx_PyIndex_AsSsize_t / __Pyx_PyLong_AsSsize_t ---- *)
Definition ssize_branch (c : cfg) (x : pylong) (k : nat) : bool * option cres :=
  let sh := c_sh c in let kz := Z.of_nat k in let zw := c_ssize c in
  (* #if SIZEOF_SIZE_T * 8 > k * PyLong_SHIFT   if (size == k) { ival = (Py_ssize_t) join_size_t } *)
  ((kz * sh <? zw) && (ndigits x =? kz),
   Some (of_join (join_c zw false sh k x) (fun j =>
           let ival := wrap zw true j in
           if pl_neg x then (if ival =? min_int zw true then UB else Ret (- ival) None)
           else Ret ival None))).

Definition pylong_as_ssize_t (c : cfg) (x : pylong) : cres :=
  let api := let (v, e) := api_as_signed (c_ssize c) (value (c_sh c) x) in Ret v e in
  if c_internals c then
    if ndigits x =? 0 then Ret 0 None
    else match chain [ssize_branch c x 1; ssize_branch c x 2; ssize_branch c x 3; ssize_branch c x 4] with
         | Some r => r
         | None => api
         end
  else api.

Definition pyindex_as_ssize_t (c : cfg) (o : pyobj) : cres :=
  match o with
  | PInt x => pylong_as_ssize_t c x
  | PObj k => match pynumber_index k with
              | inl x => pylong_as_ssize_t c x
              | inr e => Ret (-1) (Some e)
              end
  end.

(* ---- bint: __Pyx_PyObject_IsTrue on an int, __Pyx_PyBool_FromLong back ---- *)
Definition bint_from_py (c : cfg) (x : pylong) : Z := b2z (negb (value (c_sh c) x =? 0)).
