(* Model of Cython/Compiler/StringEncoding.py: escape_byte_string (with the regular-expression
   replacer built by _build_specials_replacer), split_string_literal, escape_char,
   BytesLiteral.as_c_string_literal; of Cython/Compiler/Code.py: _split_characters and the MSVC
   char-array form of _write_cstring_const; and a reference reader of C string / character
   literals (C11 5.1.1.2 translation phases 1, 2, 5, 6 and 6.4.4.4 / 6.4.5 escape sequences).

   Bytes and source characters are both numbers (N); text = list of character codes.
   Definitions only; proofs are in Proof/P_CStr.v. *)
From Coq Require Import NArith List Bool Arith.
From CyVerif Require Import Lib.CInt.
Import ListNotations.
Open Scope N_scope.

(* ------------------------------------------------------------------------------------ *)
(* escape_byte_string                                                                     *)

(* backslash + three octal digits *)
Definition oct3 (b : N) : list N := [92; 48 + b / 64; 48 + (b / 8) mod 8; 48 + b mod 8].

(* _to_escape_sequence for the one-character alternatives of the regular expression
   (backslash, double quote, single quote, chr(0..31)); any other byte is not matched by the
   expression and is copied. *)
Definition esc_special (b : N) : list N :=
  if b =? 92 then [92; 92]
  else if b =? 34 then [92; 34]
  else if b =? 39 then oct3 39
  else if b =? 10 then [92; 110]
  else if b =? 13 then [92; 114]
  else if b =? 9 then [92; 116]
  else if b <? 32 then oct3 b
  else [b].

(* re.sub over the alternation (backslash | ?? | dquote | squote | x00 | ... | x1f): leftmost
   match, scanning left to right, matched text replaced, unmatched bytes copied.  The pair of
   question marks is the only two-byte alternative (and no one-byte alternative matches a
   question mark); its replacement is \077\077. *)
Fixpoint replace_specials (bs : list N) : list N :=
  match bs with
  | [] => []
  | b :: r =>
      match r with
      | b2 :: r2 =>
          if (b =? 63) && (b2 =? 63) then oct3 63 ++ oct3 63 ++ replace_specials r2
          else esc_special b ++ replace_specials r
      | [] => esc_special b
      end
  end.

(* second loop of escape_byte_string: b >= 127 -> three-digit octal escape *)
Definition esc_high (b : N) : list N := if 127 <=? b then oct3 b else [b].

(* s.decode(ASCII) succeeds iff every byte is < 128 *)
Definition is_ascii (s : list N) : bool := forallb (fun b => b <? 128) s.

Definition escape_byte_string (bs : list N) : list N :=
  let s := replace_specials bs in
  if is_ascii s then s else flat_map esc_high s.

(* ------------------------------------------------------------------------------------ *)
(* split_string_literal.  The Python loop keeps an absolute index `start` into s; here the
   loop state is the remaining suffix t = s[start:], all indices are relative to start
   (end_rel = end - start).  For limit >= 5 no index of the original is negative, so the two
   are the same computation; limit < 5 (Python negative-index wrap-around) is Unmodelled.   *)

Inductive sres := Chunks (cs : list (list N)) | OutOfFuel | Unmodelled.

(* s[end-4:end].find(backslash) *)
Fixpoint find_bs (w : list N) : option nat :=
  match w with
  | [] => None
  | c :: r => if c =? 92 then Some O else option_map S (find_bs r)
  end.

(* while s[end-1] == backslash: end -= 1; if end == start: end = <fallback>; break
   -- the current value of end (relative) is S e'                                         *)
Fixpoint retreat (t : list N) (fallback : nat) (e' : nat) : nat :=
  if nth e' t 0 =? 92 then
    match e' with
    | O => fallback
    | S e'' => retreat t fallback e''
    end
  else S e'.

Definition chunk_end (t : list N) (limit : nat) : nat :=
  if (limit - 4 <? length t)%nat then
    match find_bs (firstn 4 (skipn (limit - 4) t)) with
    | Some i => retreat t (limit - limit mod 2 - 4)%nat (limit - 5 + i)%nat
    | None => limit
    end
  else limit.

(* while start < len(s): ... chunks.append(s[start:end]); start = end *)
Fixpoint split_loop (fuel : nat) (t : list N) (limit : nat) : sres :=
  match fuel with
  | O => OutOfFuel
  | S f =>
      match t with
      | [] => Chunks []
      | _ :: _ =>
          let e := chunk_end t limit in
          match split_loop f (skipn e t) limit with
          | Chunks cs => Chunks (firstn e t :: cs)
          | x => x
          end
      end
  end.

Definition split_chunks (s : list N) (limit : nat) : sres :=
  if (limit <? 5)%nat then Unmodelled
  else if (length s <? limit)%nat then Chunks [s]
  else split_loop (S (length s)) s limit.

(* two double quotes joined between chunks *)
Fixpoint join_chunks (cs : list (list N)) : list N :=
  match cs with
  | [] => []
  | [c] => c
  | c :: r => c ++ [34; 34] ++ join_chunks r
  end.

Definition split_string_literal (s : list N) (limit : nat) : option (list N) :=
  match split_chunks s limit with
  | Chunks cs => Some (join_chunks cs)
  | _ => None
  end.

(* BytesLiteral.as_c_string_literal: dquote + split_string_literal(escape_byte_string(self)) + dquote *)
Definition as_c_string_literal (bs : list N) (limit : nat) : option (list N) :=
  match split_string_literal (escape_byte_string bs) limit with
  | Some v => Some ([34] ++ v ++ [34])
  | None => None
  end.

(* ------------------------------------------------------------------------------------ *)
(* escape_char                                                                            *)

Definition hexdigit (d : N) : N := if d <? 10 then 48 + d else 55 + d.   (* upper case *)

Definition escape_char (b : N) : list N :=
  if b =? 10 then [92; 110]
  else if b =? 13 then [92; 114]
  else if b =? 9 then [92; 116]
  else if b =? 92 then [92; 92]
  else if b =? 39 then [92; 39]
  else if (b <? 32) || (127 <=? b) then [92; 120; hexdigit (b / 16); hexdigit (b mod 16)]
  else [b].

(* ------------------------------------------------------------------------------------ *)
(* Code.py: _split_characters = findall of (backslash [0-7][0-7][0-7] | backslash . | .) with
   DOTALL, and the MSVC branch: the items in single quotes joined by commas between braces
   (we model the text between the braces). *)

Definition is_oct (c : N) : bool := (48 <=? c) && (c <=? 55).

Fixpoint split_characters (t : list N) : list (list N) :=
  match t with
  | [] => []
  | x :: t1 =>
      if x =? 92 then
        match t1 with
        | [] => [[x]]                    (* a lone final backslash: third alternative *)
        | a :: t2 =>
            match t2 with
            | b :: c :: r =>
                if is_oct a && is_oct b && is_oct c
                then [x; a; b; c] :: split_characters r
                else [x; a] :: split_characters t2
            | _ => [x; a] :: split_characters t2
            end
        end
      else [x] :: split_characters t1
  end.

Fixpoint char_array_items (cs : list (list N)) : list N :=
  match cs with
  | [] => []
  | [c] => [39] ++ c ++ [39]
  | c :: r => [39] ++ c ++ [39] ++ [44] ++ char_array_items r
  end.

Definition char_array_form (bs : list N) : list N :=
  char_array_items (split_characters (escape_byte_string bs)).

(* ------------------------------------------------------------------------------------ *)
(* Reference C reader.                                                                    *)

(* phase 1: trigraph replacement (C11 5.2.1.1), left to right *)
Definition trigraph_char (c : N) : option N :=
  if c =? 61 then Some 35        (* ??= -> # *)
  else if c =? 40 then Some 91   (* ??( -> [ *)
  else if c =? 47 then Some 92   (* ??/ -> \ *)
  else if c =? 41 then Some 93   (* ??) -> ] *)
  else if c =? 39 then Some 94   (* ?? squote -> ^ *)
  else if c =? 60 then Some 123  (* ??< -> { *)
  else if c =? 33 then Some 124  (* ??! -> | *)
  else if c =? 62 then Some 125  (* ??> -> } *)
  else if c =? 45 then Some 126  (* ??- -> ~ *)
  else None.

Fixpoint phase1 (t : list N) : list N :=
  match t with
  | [] => []
  | a :: r =>
      match r with
      | b :: c :: r3 =>
          if (a =? 63) && (b =? 63) then
            match trigraph_char c with
            | Some x => x :: phase1 r3
            | None => a :: phase1 r
            end
          else a :: phase1 r
      | _ => a :: phase1 r
      end
  end.

(* phase 2: backslash immediately followed by new-line is deleted *)
Fixpoint phase2 (t : list N) : list N :=
  match t with
  | [] => []
  | a :: r =>
      match r with
      | b :: r2 => if (a =? 92) && (b =? 10) then phase2 r2 else a :: phase2 r
      | [] => [a]
      end
  end.

(* a text contains a trigraph sequence *)
Fixpoint contains_trigraph (t : list N) : bool :=
  match t with
  | a :: r =>
      match r with
      | b :: c :: _ =>
          ((a =? 63) && (b =? 63) && (match trigraph_char c with Some _ => true | None => false end))
          || contains_trigraph r
      | _ => false
      end
  | [] => false
  end.

(* two adjacent question marks anywhere *)
Fixpoint has_qq (t : list N) : bool :=
  match t with
  | a :: r => (match r with b :: _ => (a =? 63) && (b =? 63) | [] => false end) || has_qq r
  | [] => false
  end.

(* phases 5 and 6 as a character automaton.
   mode: string literals (adjacent literals concatenate, white space between them),
         one character constant, or a comma separated list of character constants. *)
Inductive rmode := MStr | MChar | MArr.
Inductive rstate :=
| RStart                     (* nothing read yet: a literal must open *)
| ROut                       (* after a closing delimiter *)
| RSep                       (* MArr: after the comma *)
| RIn                        (* inside a literal *)
| REsc                       (* after a backslash *)
| ROct (v : N) (k : nat)     (* k = 1 or 2 octal digits read, value v *)
| RHex (v : N) (k : nat).    (* after \x, k hex digits read *)

Definition delim (m : rmode) : N := match m with MStr => 34 | _ => 39 end.
Definition is_ws (c : N) : bool := (c =? 32) || (c =? 9) || (c =? 10).

Definition hexval (c : N) : option N :=
  if (48 <=? c) && (c <=? 57) then Some (c - 48)
  else if (65 <=? c) && (c <=? 70) then Some (c - 55)
  else if (97 <=? c) && (c <=? 102) then Some (c - 87)
  else None.

(* value of an escape must be representable in unsigned char (6.4.4.4p9) *)
Definition emit_byte (v : N) : option (list N) := if v <? 256 then Some [v] else None.

(* character c seen inside a literal, no escape pending *)
Definition in_step (m : rmode) (c : N) : option (rstate * list N) :=
  if c =? delim m then Some (ROut, [])
  else if c =? 92 then Some (REsc, [])
  else if c =? 10 then None
  else Some (RIn, [c]).

Definition esc_step (c : N) : option (rstate * list N) :=
  if (c =? 39) || (c =? 34) || (c =? 63) || (c =? 92) then Some (RIn, [c])
  else if c =? 97 then Some (RIn, [7])
  else if c =? 98 then Some (RIn, [8])
  else if c =? 102 then Some (RIn, [12])
  else if c =? 110 then Some (RIn, [10])
  else if c =? 114 then Some (RIn, [13])
  else if c =? 116 then Some (RIn, [9])
  else if c =? 118 then Some (RIn, [11])
  else if is_oct c then Some (ROct (c - 48) 1, [])
  else if c =? 120 then Some (RHex 0 0, [])
  else None.

(* finish a pending escape with value v, then treat c as an ordinary literal character *)
Definition flush_then (m : rmode) (v : N) (c : N) : option (rstate * list N) :=
  match emit_byte v, in_step m c with
  | Some o, Some (s, o2) => Some (s, o ++ o2)
  | _, _ => None
  end.

Definition step (m : rmode) (s : rstate) (c : N) : option (rstate * list N) :=
  match s with
  | RStart => if c =? delim m then Some (RIn, []) else None
  | ROut =>
      match m with
      | MStr => if c =? 34 then Some (RIn, []) else if is_ws c then Some (ROut, []) else None
      | MChar => None
      | MArr => if c =? 44 then Some (RSep, []) else None
      end
  | RSep => if c =? 39 then Some (RIn, []) else None
  | RIn => in_step m c
  | REsc => esc_step c
  | ROct v k =>
      if is_oct c then
        match k with
        | S O => Some (ROct (8 * v + (c - 48)) 2, [])
        | _ => match emit_byte (8 * v + (c - 48)) with Some o => Some (RIn, o) | None => None end
        end
      else flush_then m v c
  | RHex v k =>
      match hexval c with
      | Some d => Some (RHex (16 * v + d) (S k), [])
      | None => match k with O => None | S _ => flush_then m v c end
      end
  end.

Fixpoint rd (m : rmode) (s : rstate) (t : list N) : option (list N) :=
  match t with
  | [] => match s with ROut => Some [] | _ => None end
  | c :: r =>
      match step m s c with
      | Some (s', o) => match rd m s' r with Some x => Some (o ++ x) | None => None end
      | None => None
      end
  end.

(* the byte string denoted by a sequence of adjacent string literals *)
Definition c_read (t : list N) : option (list N) := rd MStr RStart (phase2 (phase1 t)).

(* the byte denoted by one character constant (as unsigned char) *)
Definition c_read_char (t : list N) : option N :=
  match rd MChar RStart (phase2 (phase1 t)) with
  | Some [b] => Some b
  | _ => None
  end.

(* bytes of a comma separated list of character constants (array initialiser) *)
Definition c_read_chars (t : list N) : option (list N) := rd MArr RStart (phase2 (phase1 t)).
