(* M_Dataclass: the synthesis DECISIONS of Cython/Compiler/Dataclass.py (cy_ functions,
   transcribed from handle_cclass_dataclass / process_class_get_fields / generate_init_code /
   generate_match_args / generate_repr_code / generate_cmp_code / generate_hash_code) and the
   same decisions transcribed independently from CPython 3.12 Lib/dataclasses.py (py_
   functions: _process_class, _fields_in_init_order, _init_fn, _hash_action, _hash_add).
   Definitions only.  Field names are numbers (N); the default of a field is one of
   none / value / factory (field() rejects default together with default_factory on both
   sides before any of the decisions below is taken). *)
From Coq Require Import NArith ZArith List Bool.
Import ListNotations.

Definition name := N.

Inductive dkind := DNone | DValue | DFactory.

Record field := mkField {
  f_name : name;
  f_default : dkind;
  f_init : bool;
  f_repr : bool;
  f_cmp : bool;
  f_hash : option bool;        (* field(hash=None/True/False) *)
  f_kw : option bool;          (* field(kw_only=...); None = not given *)
  f_initvar : bool             (* annotated InitVar[...] *)
}.

Record opts := mkOpts {
  o_init : bool; o_repr : bool; o_eq : bool; o_order : bool;
  o_unsafe_hash : bool; o_frozen : bool; o_match_args : bool; o_kw_only : bool
}.

(* what the class body defines itself *)
Inductive class_hash := HMissing | HNone | HDef.
Record user := mkUser {
  u_init : bool; u_repr : bool; u_eq : bool; u_hash : class_hash;
  u_match_args : bool; u_post_init : bool
}.

Inductive pkind := PPos | PKw.
Definition param := (name * pkind * bool)%type.      (* name, kind, has a default *)

Inductive sigres :=
| SigNone                       (* no __init__ synthesised *)
| SigErr (n : name)             (* non-default argument n follows default argument *)
| SigOk (ps : list param).

Definition has_default (f : field) : bool :=
  match f_default f with DNone => false | _ => true end.

Definition sig_cons (p : option param) (r : sigres) : sigres :=
  match p, r with
  | Some q, SigOk ps => SigOk (q :: ps)
  | _, _ => r
  end.

(* ------------------------------------------------------------------ Cython *)

(* generate_init_code: one pass over all fields in definition order; `seen` is
   seen_default; a parameter is appended only for init fields; with the decorator's
   kw_only a bare star precedes every parameter. *)
Fixpoint cy_init_loop (kw seen : bool) (fs : list field) : sigres :=
  match fs with
  | [] => SigOk []
  | f :: r =>
      let k := if kw then PKw else PPos in
      if has_default f then
        sig_cons (if f_init f then Some (f_name f, k, true) else None)
                 (cy_init_loop kw (if f_init f then true else seen) r)
      else if seen && negb kw && f_init f then SigErr (f_name f)
      else sig_cons (if f_init f then Some (f_name f, k, false) else None)
                    (cy_init_loop kw seen r)
  end.

Definition cy_init_sig (o : opts) (u : user) (fs : list field) : sigres :=
  if negb (o_init o) || u_init u then SigNone else cy_init_loop (o_kw_only o) false fs.

Definition names (fs : list field) : list name := map f_name fs.

Definition cy_repr_fields (o : opts) (u : user) (fs : list field) : option (list name) :=
  if negb (o_repr o) || u_repr u then None
  else Some (names (filter (fun f => f_repr f && negb (f_initvar f)) fs)).

Definition cy_cmp_names (fs : list field) : list name :=
  names (filter (fun f => f_cmp f && negb (f_initvar f)) fs).

Definition cy_eq_fields (o : opts) (u : user) (fs : list field) : option (list name) :=
  if negb (o_eq o) || u_eq u then None else Some (cy_cmp_names fs).

(* generate_order_code does not look at eq *)
Definition cy_order_fields (o : opts) (fs : list field) : option (list name) :=
  if o_order o then Some (cy_cmp_names fs) else None.

Definition hash_flag (f : field) : bool :=
  match f_hash f with None => f_cmp f | Some b => b end.

(* generate_hash_code tests `field.hash.value is None`, but the value of a NoneNode is the
   string "Py_None": the test never succeeds and a field whose hash flag is unspecified is
   hashed whatever its compare flag says.  hx = true is the repaired test (hash.is_none). *)
Definition cy_hash_flag (hx : bool) (f : field) : bool :=
  if hx then hash_flag f
  else match f_hash f with Some b => b | None => true end.

Definition cy_hash_names (hx : bool) (fs : list field) : list name :=
  names (filter (fun f => negb (f_initvar f) && cy_hash_flag hx f) fs).

Inductive action := ANothing | ASetNone | AAdd | ARaise.

(* generate_hash_code as an action over (unsafe_hash, eq, frozen, __hash__ found in the
   class scope) *)
Definition cy_hash_action (unsafe eq frozen expl : bool) : action :=
  if expl then (if unsafe then ARaise else ANothing)
  else if negb unsafe then
         (if negb eq then ANothing else if negb frozen then ASetNone else AAdd)
       else AAdd.

Definition cy_explicit_hash (u : user) : bool :=
  match u_hash u with HMissing => false | _ => true end.

Inductive hashres := HKeep | HSetNone | HAdd (ns : list name) | HErr.

Definition hash_of_action (a : action) (ns : list name) : hashres :=
  match a with ANothing => HKeep | ASetNone => HSetNone | AAdd => HAdd ns | ARaise => HErr end.

Definition cy_hash (hx : bool) (o : opts) (u : user) (fs : list field) : hashres :=
  hash_of_action (cy_hash_action (o_unsafe_hash o) (o_eq o) (o_frozen o) (cy_explicit_hash u))
                 (cy_hash_names hx fs).

(* generate_match_args: every field unless the decorator says kw_only (Field has no kw_only
   attribute, so the hasattr test is always false); init is not consulted *)
(* mx = true: the repaired loop also requires field.init *)
Definition cy_match_args (mx : bool) (o : opts) (u : user) (fs : list field) : option (list name) :=
  if negb (o_match_args o) || u_match_args u then None
  else Some (if o_kw_only o then [] else names (if mx then filter f_init fs else fs)).

(* where the value of a (non InitVar) attribute comes from after the synthesised __init__ *)
Inductive src := SParam | SParamOrFactory | SDefault | SFactory | SUnset | SZero.

Definition cy_src (f : field) : src :=
  match f_default f with
  | DFactory => if f_init f then SParamOrFactory else SFactory
  | DValue => if f_init f then SParam else SDefault
  | DNone => if f_init f then SParam else SZero     (* C-level zero / None *)
  end.

Definition real_fields (fs : list field) : list field := filter (fun f => negb (f_initvar f)) fs.

Definition cy_body (fs : list field) : list (name * src) :=
  map (fun f => (f_name f, cy_src f)) (real_fields fs).

Definition post_init_args (u : user) (fs : list field) : option (list name) :=
  if u_post_init u then Some (names (filter f_initvar fs)) else None.

Definition is_some {A} (x : option A) : bool := match x with Some _ => true | None => false end.
Definition is_sigerr (s : sigres) : bool := match s with SigErr _ => true | _ => false end.
Definition is_herr (h : hashres) : bool := match h with HErr => true | _ => false end.

(* compile errors: Field() rejects the kw_only keyword; the two errors above *)
Definition cy_rejected (o : opts) (u : user) (fs : list field) : bool :=
  existsb (fun f => is_some (f_kw f)) fs
  || is_sigerr (cy_init_sig o u fs)
  || is_herr (cy_hash true o u fs).

(* ------------------------------------------------------------------ dataclasses.py *)

Definition eff_kw (o : opts) (f : field) : bool :=
  match f_kw f with Some b => b | None => o_kw_only o end.

Definition py_std (o : opts) (fs : list field) : list field :=
  filter (fun f => f_init f && negb (eff_kw o f)) fs.
Definition py_kwf (o : opts) (fs : list field) : list field :=
  filter (fun f => f_init f && eff_kw o f) fs.

(* the seen_default loop of _init_fn over std_fields *)
Fixpoint py_check (seen : bool) (std : list field) : option name :=
  match std with
  | [] => None
  | f :: r =>
      if f_init f then
        if has_default f then py_check true r
        else if seen then Some (f_name f) else py_check seen r
      else py_check seen r
  end.

Definition py_param (k : pkind) (f : field) : param := (f_name f, k, has_default f).

(* _init_fn is evaluated before _set_new_attribute looks for a user __init__ *)
Definition py_init_sig (o : opts) (u : user) (fs : list field) : sigres :=
  if negb (o_init o) then SigNone
  else match py_check false (py_std o fs) with
       | Some n => SigErr n
       | None => if u_init u then SigNone
                 else SigOk (map (py_param PPos) (py_std o fs) ++ map (py_param PKw) (py_kwf o fs))
       end.

Definition py_repr_fields (o : opts) (u : user) (fs : list field) : option (list name) :=
  if o_repr o then (if u_repr u then None else Some (names (filter f_repr (real_fields fs))))
  else None.

Definition py_cmp_names (fs : list field) : list name := names (filter f_cmp (real_fields fs)).

Definition py_eq_fields (o : opts) (u : user) (fs : list field) : option (list name) :=
  if o_eq o then (if u_eq u then None else Some (py_cmp_names fs)) else None.

Definition py_order_fields (o : opts) (fs : list field) : option (list name) :=
  if o_order o then Some (py_cmp_names fs) else None.

Definition py_hash_names (fs : list field) : list name :=
  names (filter hash_flag (real_fields fs)).

(* _hash_action, the table, row by row *)
Definition py_hash_action (unsafe eq frozen expl : bool) : action :=
  match unsafe, eq, frozen, expl with
  | false, false, false, false => ANothing
  | false, false, false, true => ANothing
  | false, false, true, false => ANothing
  | false, false, true, true => ANothing
  | false, true, false, false => ASetNone
  | false, true, false, true => ANothing
  | false, true, true, false => AAdd
  | false, true, true, true => ANothing
  | true, false, false, false => AAdd
  | true, false, false, true => ARaise
  | true, false, true, false => AAdd
  | true, false, true, true => ARaise
  | true, true, false, false => AAdd
  | true, true, false, true => ARaise
  | true, true, true, false => AAdd
  | true, true, true, true => ARaise
  end.

(* has_explicit_hash: a __hash__ = None next to a user __eq__ counts as not explicit *)
Definition py_explicit_hash (u : user) : bool :=
  match u_hash u with HMissing => false | HNone => negb (u_eq u) | HDef => true end.

Definition py_hash (o : opts) (u : user) (fs : list field) : hashres :=
  hash_of_action (py_hash_action (o_unsafe_hash o) (o_eq o) (o_frozen o) (py_explicit_hash u))
                 (py_hash_names fs).

Definition py_match_args (o : opts) (u : user) (fs : list field) : option (list name) :=
  if o_match_args o then (if u_match_args u then None else Some (names (py_std o fs))) else None.

Definition py_src (f : field) : src :=
  match f_default f with
  | DFactory => if f_init f then SParamOrFactory else SFactory
  | DValue => if f_init f then SParam else SDefault   (* class attribute *)
  | DNone => if f_init f then SParam else SUnset      (* AttributeError on access *)
  end.

Definition py_body (fs : list field) : list (name * src) :=
  map (fun f => (f_name f, py_src f)) (real_fields fs).

Definition is_factory (f : field) : bool :=
  match f_default f with DFactory => true | _ => false end.

Definition py_rejected (o : opts) (u : user) (fs : list field) : bool :=
  existsb (fun f => f_initvar f && is_factory f) fs     (* _get_field: TypeError *)
  || (o_order o && negb (o_eq o))                        (* ValueError *)
  || is_sigerr (py_init_sig o u fs)
  || is_herr (py_hash o u fs).

(* ------------------------------------------------------------------ all decisions *)

Record decisions := mkDec {
  d_rejected : bool;
  d_sig : sigres;
  d_repr : option (list name);
  d_eq : option (list name);
  d_order : option (list name);
  d_hash : hashres;
  d_match : option (list name);
  d_body : list (name * src);
  d_post : option (list name)
}.

Definition cy_decide (hx mx : bool) (o : opts) (u : user) (fs : list field) : decisions :=
  mkDec (cy_rejected o u fs) (cy_init_sig o u fs) (cy_repr_fields o u fs) (cy_eq_fields o u fs)
        (cy_order_fields o fs) (cy_hash hx o u fs) (cy_match_args mx o u fs) (cy_body fs)
        (post_init_args u fs).

Definition py_decide (o : opts) (u : user) (fs : list field) : decisions :=
  mkDec (py_rejected o u fs) (py_init_sig o u fs) (py_repr_fields o u fs) (py_eq_fields o u fs)
        (py_order_fields o fs) (py_hash o u fs) (py_match_args o u fs) (py_body fs)
        (post_init_args u fs).

(* ------------------------------------------------------------------ comparison bodies *)

(* generate_cmp_code emits, per compared field, `if self.f OP' other.f: return True` (OP' = OP
   without the equals sign; not for ==) then `if self.f != other.f: return False`, and a
   final `return '=' in OP`.  dataclasses.py compares tuples: CPython's tuple richcompare
   skips items that are identical or equal, applies OP to the first differing pair, and
   compares lengths (equal here) when there is none.  An element comparison can raise
   (None). *)
Inductive cop := OLt | OLe | OGt | OGe.

Definition strict (c : cop) : cop :=
  match c with OLt => OLt | OLe => OLt | OGt => OGt | OGe => OGt end.
Definition has_eq (c : cop) : bool :=
  match c with OLe => true | OGe => true | _ => false end.

Section Cmp.
  Variable A : Type.
  Variable ident : A -> A -> bool.            (* `x is y` *)
  Variable eqv : A -> A -> bool.              (* `x == y` as a truth value; != is its negation *)
  Variable rel : cop -> A -> A -> option bool.  (* None: the comparison raises *)

  Fixpoint cy_order (c : cop) (ps : list (A * A)) : option bool :=
    match ps with
    | [] => Some (has_eq c)
    | (x, y) :: r =>
        match rel (strict c) x y with
        | None => None
        | Some true => Some true
        | Some false => if negb (eqv x y) then Some false else cy_order c r
        end
    end.

  Fixpoint py_order (c : cop) (ps : list (A * A)) : option bool :=
    match ps with
    | [] => Some (has_eq c)
    | (x, y) :: r => if ident x y || eqv x y then py_order c r else rel c x y
    end.

  Fixpoint cy_equal (ps : list (A * A)) : bool :=
    match ps with
    | [] => true
    | (x, y) :: r => if negb (eqv x y) then false else cy_equal r
    end.

  Fixpoint py_equal (ps : list (A * A)) : bool :=
    match ps with
    | [] => true
    | (x, y) :: r => if ident x y || eqv x y then py_equal r else false
    end.
End Cmp.

(* two small value universes used for witnesses and for the extracted runner:
   v = Some z is the integer z, v = None is Python None (== but no ordering);
   nan-like: a value that is identical to but not equal to itself is (true, z) below *)

Definition oz_ident (x y : option Z) : bool :=
  match x, y with Some a, Some b => Z.eqb a b | None, None => true | _, _ => false end.
Definition oz_rel (c : cop) (x y : option Z) : option bool :=
  match x, y with
  | Some a, Some b =>
      Some (match c with OLt => Z.ltb a b | OLe => Z.leb a b | OGt => Z.gtb a b | OGe => Z.geb a b end)
  | _, _ => None
  end.

(* (is_nan, identity) *)
Definition nv_ident (x y : bool * Z) : bool := Z.eqb (snd x) (snd y).
Definition nv_eqv (x y : bool * Z) : bool :=
  negb (fst x) && negb (fst y) && Z.eqb (snd x) (snd y).
