(* Model of Cython/Compiler/Nodes.py:ParallelRangeNode (prange):
   (i)  iteration space: nsteps = (stop - start + step - sign(step)) / step  (C division), target = start + step * i, lastprivate;
   (ii) reductions as folds over an arbitrary partition / order of the index list;
   (iii) exception hand-off: fetch_parallel_exception / restore_parallel_exception. *)
From Coq Require Import ZArith List Bool Lia Permutation.
From CyVerif Require Import Lib.CInt.
Import ListNotations.
Open Scope Z_scope.

(* ---- (i) iteration space ---------------------------------------------------------------- *)

(* int abs(int): the argument is converted to int first *)
Definition c_abs_int (x : Z) : Z := Z.abs (wrap 32 true x).

(* None = the C expression divides by zero (undefined behaviour).
   nsteps_old: the expression before the repair, (stop - start + step - step/abs(step)) / step *)
Definition nsteps_old (start stop step : Z) : option Z :=
  let a := c_abs_int step in
  if (step =? 0) || (a =? 0) then None
  else Some (Z.quot (stop - start + step - Z.quot step a) step).

(* current text: (stop - start + step - ((step > 0) - (step < 0))) / step ; a zero step aborts before *)
Definition nsteps (start stop step : Z) : option Z :=
  if step =? 0 then None
  else Some (Z.quot (stop - start + step - (b2z (0 <? step) - b2z (step <? 0))) step).

Definition target_at (start step i : Z) : Z := start + step * i.

(* indices executed by the generated loop: if (nsteps > 0) for (i = 0; i < nsteps; i++) *)
Definition loop_indices (n : Z) : list Z := map Z.of_nat (seq 0 (Z.to_nat n)).
Definition prange_values (start stop step : Z) : option (list Z) :=
  match nsteps start stop step with
  | None => None
  | Some n => Some (map (target_at start step) (loop_indices n))
  end.

(* Python: len(range(start, stop, step)) and list(range(...)) *)
Definition py_range_len (start stop step : Z) : Z :=
  if 0 <? step then (if start <? stop then (stop - start - 1) / step + 1 else 0)
  else (if stop <? start then (start - stop - 1) / (- step) + 1 else 0).
Definition py_range (start stop step : Z) : list Z :=
  map (fun i => start + step * Z.of_nat i) (seq 0 (Z.to_nat (py_range_len start stop step))).

(* ---- (ii) reductions ----------------------------------------------------------------------- *)

(* sequential loop: acc = op acc (f i) in index order *)
Definition seq_reduce {A} (op : A -> A -> A) (f : Z -> A) (init : A) (idxs : list Z) : A :=
  fold_left (fun acc i => op acc (f i)) idxs init.

(* OpenMP reduction clause: every thread starts from the identity, folds its own chunk (in
   whatever order the schedule hands it the iterations), and the partial results are combined
   into the original value in an unspecified order *)
Definition par_reduce {A} (op : A -> A -> A) (e : A) (f : Z -> A) (init : A) (chunks : list (list Z)) : A :=
  fold_left op (map (seq_reduce op f e) chunks) init.

(* ---- (iii) exception hand-off ---------------------------------------------------------------- *)

(* One event = thread t reaches the error label with exception object e and runs
   fetch_parallel_exception (atomic: it holds the GIL / the free-threading lock):
      if (!parallel_exc_type) { ErrFetch(&parallel_exc...) }   else the exception stays in t's thread state *)
Record hstate := { saved : option Z;                (* __pyx_parallel_exc_* *)
                   pending : list (nat * Z);        (* (thread, exception) left in a thread state *)
                   why : Z }.                       (* __pyx_parallel_why *)
Definition h0 : hstate := {| saved := None; pending := []; why := 0 |}.

Definition fetch (s : hstate) (ev : nat * Z) : hstate :=
  match saved s with
  | None => {| saved := Some (snd ev); pending := pending s; why := 4 |}
  | Some _ => {| saved := saved s; pending := ev :: pending s; why := 4 |}
  end.

(* other exits (continue=1, break=2, return=3) only assign parallel_why *)
Inductive event := Err (t : nat) (e : Z) | Exit (t : nat) (k : Z).
Definition step (s : hstate) (ev : event) : hstate :=
  match ev with
  | Err t e => fetch s (t, e)
  | Exit _ k => {| saved := saved s; pending := pending s; why := k |}
  end.
Definition run (evs : list event) : hstate := fold_left step evs h0.

(* after the region: "if (parallel_exc_type) why = 4;" then restore_parallel_exception re-raises
   the saved exception in the calling thread; every exception still pending in a thread state
   is released when that thread state is cleared (workers) or overwritten by the restore (caller).
   Outcome: (why, re-raised exception, list of released exception objects) *)
Definition finish (s : hstate) : Z * option Z * list Z :=
  ((match saved s with Some _ => 4 | None => why s end), saved s, map snd (pending s)).

Definition raised (evs : list event) : list Z :=
  flat_map (fun ev => match ev with Err _ e => [e] | Exit _ _ => [] end) evs.
