(* Model of structural pattern matching (Cython/Compiler/MatchCaseNodes.py + Cython/Utility/MatchCase.c).

   match_ref  = PEP 634 as implemented by CPython 3.12 (compile.c pattern helpers, ceval.c
                match_keys / match_class): first case whose pattern matches and whose guard holds.
   match_cy   = the decision structure MatchCaseNodes builds: sequence length test (== / >=),
                element extraction by index from the front and by len+(negative) from the back,
                wildcards never indexed, mapping duplicate-key check executed first, literal keys
                sorted before value keys, class isinstance test then __Pyx_MatchCase_ClassPositional
                (allowed test, duplicate test up front, getattr), keyword lookups, keyword
                sub-patterns tested before positional ones, or-alternatives left to right,
                simple value cases compiled to if-chains.

   Binding lists are recorded in source order in both functions: names bound by one pattern are
   pairwise distinct (both compilers reject anything else), so the order of the assignments is
   not observable; the order of the TESTS is modelled because it decides which error surfaces. *)
From Coq Require Import ZArith List Bool NArith.
Import ListNotations.
Open Scope Z_scope.

(* ---------- values ---------- *)
Inductive lit := LInt (z : Z) | LBool (b : bool) | LNone | LStr (s : N).

Inductive value :=
| VInt (z : Z) | VBool (b : bool) | VNone | VStr (s : N) | VBytes (s : N)
| VTuple (l : list value) | VList (l : list value)
| VSeq (l : list value)                              (* instance of a custom collections.abc.Sequence *)
| VDict (custom : bool) (kvs : list (lit * value))   (* dict / custom collections.abc.Mapping *)
| VInst (c : N) (attrs : list (N * value)).          (* instance of user class c *)

Inductive cls := CInt | CBool | CStr | CBytes | CTuple | CList | CDict | CUser (c : N).

(* user class table: class id -> __match_args__ (absent entry = no __match_args__) *)
Definition ctab := list (N * list N).

Inductive exn := ETypeError | EValueError | EUnbound | EInternal.

Inductive res (A : Type) := Ok (a : A) | NoMatch | Err (e : exn).
Arguments Ok {A} a. Arguments NoMatch {A}. Arguments Err {A} e.

Definition binds := list (N * value).

Definition bind {A B} (r : res A) (f : A -> res B) : res B :=
  match r with Ok a => f a | NoMatch => NoMatch | Err e => Err e end.

(* r1 then r2 (short circuit), bindings concatenated *)
Definition both (r1 r2 : res binds) : res binds :=
  bind r1 (fun a => bind r2 (fun b => Ok (a ++ b))).

(* ---------- patterns ---------- *)
Inductive star_t := StarNone | StarWild | StarCap (x : N).
Inductive key := KLit (l : lit) | KVal (l : lit) | KAttr (a : N).

Inductive pat :=
| PLit (l : lit)                 (* literal: ==, but is for None/True/False *)
| PVal (l : lit)                 (* dotted name evaluating to l: == *)
| PCap (x : N) | PWild
| PSeq (pre : pats) (st : star_t) (post : pats)
| PMap (items : kpats) (rest : option N)
| PClass (c : cls) (pos : pats) (kw : kpats)
| POr (alts : pats)
| PAs (p : pat) (x : N)
with pats := PNil | PCons (p : pat) (ps : pats)
with kpats := KNil | KCons (k : key) (p : pat) (ks : kpats).

Fixpoint plen (ps : pats) : nat := match ps with PNil => O | PCons _ r => S (plen r) end.
Fixpoint klen (ks : kpats) : nat := match ks with KNil => O | KCons _ _ r => S (klen r) end.
Fixpoint kkeys (ks : kpats) : list key := match ks with KNil => [] | KCons k _ r => k :: kkeys r end.

(* ---------- Python equality on the scalar fragment ---------- *)
Inductive ckey := CNum (z : Z) | CStrK (s : N) | CNoneK | CAttrK (a : N).

Definition b2z (b : bool) : Z := if b then 1 else 0.

Definition canon (l : lit) : ckey :=
  match l with LInt z => CNum z | LBool b => CNum (b2z b) | LNone => CNoneK | LStr s => CStrK s end.

Definition ckey_eqb (a b : ckey) : bool :=
  match a, b with
  | CNum x, CNum y => Z.eqb x y
  | CStrK x, CStrK y => N.eqb x y
  | CNoneK, CNoneK => true
  | CAttrK x, CAttrK y => N.eqb x y
  | _, _ => false
  end.

Definition vcanon (v : value) : option ckey :=
  match v with
  | VInt z => Some (CNum z) | VBool b => Some (CNum (b2z b)) | VNone => Some CNoneK
  | VStr s => Some (CStrK s) | _ => None
  end.

(* subject == l *)
Definition eq_lit (l : lit) (v : value) : bool :=
  match vcanon v with Some c => ckey_eqb c (canon l) | None => false end.

(* literal pattern: None/True/False compare by identity *)
Definition lit_match (l : lit) (v : value) : bool :=
  match l, v with
  | LNone, VNone => true
  | LNone, _ => false
  | LBool b, VBool b' => Bool.eqb b b'
  | LBool _, _ => false
  | _, _ => eq_lit l v
  end.

Definition key_canon (k : key) : ckey :=
  match k with KLit l => canon l | KVal l => canon l | KAttr a => CAttrK a end.

Definition memc (c : ckey) (l : list ckey) : bool := existsb (ckey_eqb c) l.

Fixpoint nodupc (l : list ckey) : bool :=
  match l with [] => true | a :: r => negb (memc a r) && nodupc r end.

(* ---------- subject tests ---------- *)
(* Py_TPFLAGS_SEQUENCE: list, tuple, Sequence ABC subclasses; never str/bytes/bytearray *)
Definition seq_items (v : value) : option (list value) :=
  match v with VTuple l | VList l | VSeq l => Some l | _ => None end.

(* Py_TPFLAGS_MAPPING *)
Definition map_items (v : value) : option (list (lit * value)) :=
  match v with VDict _ kvs => Some kvs | _ => None end.

Fixpoint dict_get (c : ckey) (kvs : list (lit * value)) : option value :=
  match kvs with
  | [] => None
  | (k, x) :: r => if ckey_eqb (canon k) c then Some x else dict_get c r
  end.

Fixpoint attr_get (a : N) (attrs : list (N * value)) : option value :=
  match attrs with
  | [] => None
  | (b, x) :: r => if N.eqb a b then Some x else attr_get a r
  end.

Definition getattr (v : value) (a : N) : option value :=
  match v with VInst _ attrs => attr_get a attrs | _ => None end.

(* lookup used for keyed sub-patterns: dict keys on a mapping, attribute names on an object *)
Definition klookup (v : value) (k : key) : option value :=
  match k with
  | KAttr a => getattr v a
  | _ => match map_items v with Some kvs => dict_get (key_canon k) kvs | None => None end
  end.

Definition isinst (v : value) (c : cls) : bool :=
  match c, v with
  | CInt, VInt _ | CInt, VBool _ | CBool, VBool _ | CStr, VStr _ | CBytes, VBytes _
  | CTuple, VTuple _ | CList, VList _ | CDict, VDict false _ => true
  | CUser a, VInst b _ => N.eqb a b
  | _, _ => false
  end.

(* _Py_TPFLAGS_MATCH_SELF *)
Definition match_self (c : cls) : bool := match c with CUser _ => false | _ => true end.

Fixpoint ctab_get (ct : ctab) (c : N) : option (list N) :=
  match ct with [] => None | (d, ma) :: r => if N.eqb c d then Some ma else ctab_get r c end.

Definition match_args (ct : ctab) (c : cls) : list N :=
  match c with CUser n => match ctab_get ct n with Some ma => ma | None => [] end | _ => [] end.

Definition allowed (ct : ctab) (c : cls) : nat :=
  if match_self c then 1%nat else length (match_args ct c).

Definition star_binds (st : star_t) (mid : list value) : binds :=
  match st with StarCap x => [(x, VList mid)] | _ => [] end.

Definition rest_binds (rest : option N) (d : list (lit * value)) : binds :=
  match rest with Some x => [(x, VDict false d)] | None => [] end.

Fixpoint attr_vals (v : value) (names : list N) : option (list value) :=
  match names with
  | [] => Some []
  | a :: r => match getattr v a, attr_vals v r with
              | Some x, Some xs => Some (x :: xs) | _, _ => None end
  end.

(* ================= PEP 634 / CPython ================= *)

(* match_keys / match_class name loops: duplicate test interleaved with the lookups *)
Fixpoint ref_lookups (present : key -> bool) (seen : list ckey) (ks : list key) (dup : exn) : res unit :=
  match ks with
  | [] => Ok tt
  | k :: r =>
      if memc (key_canon k) seen then Err dup
      else if present k then ref_lookups present (key_canon k :: seen) r dup
      else NoMatch
  end.

Definition ref_rest (items : kpats) (kvs : list (lit * value)) : list (lit * value) :=
  filter (fun kv => negb (memc (canon (fst kv)) (map key_canon (kkeys items)))) kvs.

Section REF.
Variable ct : ctab.

Fixpoint pm_ref (p : pat) (v : value) {struct p} : res binds :=
  match p with
  | PLit l => if lit_match l v then Ok [] else NoMatch
  | PVal l => if eq_lit l v then Ok [] else NoMatch
  | PCap x => Ok [(x, v)]
  | PWild => Ok []
  | PSeq pre st post =>
      match seq_items v with
      | None => NoMatch
      | Some l =>
          let n := plen pre in let m := plen post in let L := length l in
          match st with
          | StarNone =>
              if Nat.eqb L (n + m)
              then both (ref_list pre (firstn n l)) (ref_list post (skipn (L - m) l))
              else NoMatch
          | _ =>
              if Nat.leb (n + m) L
              then both (ref_list pre (firstn n l))
                     (both (Ok (star_binds st (firstn (L - n - m) (skipn n l))))
                           (ref_list post (skipn (L - m) l)))
              else NoMatch
          end
      end
  | PMap items rest =>
      match map_items v with
      | None => NoMatch
      | Some kvs =>
          if Nat.ltb (length kvs) (klen items) then NoMatch
          else bind (ref_lookups (fun k => match klookup v k with Some _ => true | None => false end)
                                 [] (kkeys items) EValueError)
                 (fun _ => both (ref_kp items v) (Ok (rest_binds rest (ref_rest items kvs))))
      end
  | PClass c pos kw =>
      if negb (isinst v c) then NoMatch
      else if Nat.ltb (allowed ct c) (plen pos) then Err ETypeError
      else
        let pnames := if match_self c then [] else firstn (plen pos) (match_args ct c) in
        bind (ref_lookups (fun k => match klookup v k with Some _ => true | None => false end)
                          [] (map KAttr pnames ++ kkeys kw) ETypeError)
          (fun _ =>
             match (if match_self c then Some (match plen pos with O => [] | S _ => [v] end) else attr_vals v pnames) with
             | None => Err EInternal
             | Some vals => both (ref_list pos vals) (ref_kp kw v)
             end)
  | POr alts => ref_alts alts v
  | PAs q x => both (pm_ref q v) (Ok [(x, v)])
  end
with ref_list (ps : pats) (vs : list value) {struct ps} : res binds :=
  match ps, vs with
  | PNil, [] => Ok []
  | PCons p r, x :: xs => both (pm_ref p x) (ref_list r xs)
  | _, _ => NoMatch                       (* length mismatch: the pattern fails *)
  end
with ref_kp (ks : kpats) (v : value) {struct ks} : res binds :=
  match ks with
  | KNil => Ok []
  | KCons k p r =>
      match klookup v k with
      | Some x => both (pm_ref p x) (ref_kp r v)
      | None => NoMatch                   (* missing key / attribute: the pattern fails *)
      end
  end
with ref_alts (ps : pats) (v : value) {struct ps} : res binds :=
  match ps with
  | PNil => NoMatch
  | PCons p r => match pm_ref p v with Ok b => Ok b | NoMatch => ref_alts r v | Err e => Err e end
  end.
End REF.

(* ================= Cython ================= *)

Definition is_wild (p : pat) : bool := match p with PWild => true | _ => false end.
Definition is_litkey (k : key) : bool := match k with KVal _ => false | _ => true end.

(* base[idx] with boundscheck=False, wraparound=False: a negative or too large index is an
   out-of-bounds read; made explicit as EInternal *)
Definition index_z (l : list value) (i : Z) : option value :=
  if i <? 0 then None else nth_error l (Z.to_nat i).

(* SliceToListNode: list(base[start:stop]) with 0 <= start, stop computed as len + negative *)
Definition slice_z (l : list value) (start stop : Z) : option (list value) :=
  if (start <? 0) || (stop <? start) || (Z.of_nat (length l) <? stop) then None
  else Some (firstn (Z.to_nat (stop - start)) (skipn (Z.to_nat start) l)).

(* __Pyx_MatchCase_CheckMappingDuplicateKeys: value keys among themselves, then literal keys
   against the value keys (literal/literal duplicates are compile-time errors) *)
Definition cy_map_dup (ks : list key) : bool :=
  let vals := map key_canon (filter (fun k => negb (is_litkey k)) ks) in
  let lits := map key_canon (filter is_litkey ks) in
  negb (nodupc vals) || existsb (fun c => memc c vals) lits.

(* __Pyx_MatchCase_ClassCheckDuplicateAttrs *)
Definition cy_cls_dup (pnames : list N) (kwnames : list key) : bool :=
  let ps := map CAttrK pnames in
  negb (nodupc ps) || existsb (fun k => memc (key_canon k) ps) kwnames.

(* DoubleStarCapture: copy the mapping, delete every pattern key *)
Definition del_key (c : ckey) (kvs : list (lit * value)) : list (lit * value) :=
  filter (fun kv => negb (ckey_eqb (canon (fst kv)) c)) kvs.
Definition cy_rest (ks : list key) (kvs : list (lit * value)) : list (lit * value) :=
  fold_left (fun d k => del_key (key_canon k) d) ks kvs.

(* validate_keys: literal keys are sorted before value keys (stable) *)
Definition sorted_keys (ks : list key) : list key :=
  filter is_litkey ks ++ filter (fun k => negb (is_litkey k)) ks.

Definition lit_value (l : lit) : value :=
  match l with LInt z => VInt z | LBool b => VBool b | LNone => VNone | LStr s => VStr s end.

(* PatternNode.create_target_assignments: an as-target directly on a value pattern whose value
   is_simple() is assigned the PATTERN value, not the subject (fxas = false: the code as it is;
   fxas = true: the repaired variant that assigns the subject) *)
Fixpoint as_src (q : pat) : option lit :=
  match q with PLit l | PVal l => Some l | PAs q' _ => as_src q' | _ => None end.
Definition as_value (fxas : bool) (q : pat) (v : value) : value :=
  if fxas then v else match as_src q with Some l => lit_value l | None => v end.

Section CY.
Variable fxas : bool.
Variable ct : ctab.

Fixpoint cy (p : pat) (v : value) {struct p} : res binds :=
  match p with
  | PLit l => if lit_match l v then Ok [] else NoMatch
  | PVal l => if eq_lit l v then Ok [] else NoMatch
  | PCap x => Ok [(x, v)]
  | PWild => Ok []
  | PSeq pre st post =>
      match seq_items v with
      | None => NoMatch
      | Some l =>
          let n := Z.of_nat (plen pre) in let m := Z.of_nat (plen post) in
          let L := Z.of_nat (length l) in
          match st with
          | StarNone =>
              (* indices 0 .. n+m-1, all from the front *)
              if L =? n + m
              then both (cy_items pre l 0) (cy_items post l n)
              else NoMatch
          | _ =>
              if n + m <=? L
              then both (cy_items pre l 0)
                     (both (match st with
                            | StarCap x =>
                                match slice_z l n (if m =? 0 then L else L + (- m)) with
                                | Some mid => Ok [(x, VList mid)]
                                | None => Err EInternal
                                end
                            | _ => Ok []
                            end)
                           (* post item j is base[len + (j - m)] *)
                           (cy_items post l (L + (- m))))
              else NoMatch
          end
      end
  | PMap items rest =>
      if cy_map_dup (kkeys items) then Err EValueError
      else match map_items v with
      | None => NoMatch
      | Some kvs =>
          if Nat.ltb (length kvs) (klen items) then NoMatch
          else if negb (forallb (fun k => match klookup v k with Some _ => true | None => false end)
                                (sorted_keys (kkeys items))) then NoMatch
          else both (bind (cy_kp true items v) (fun bl =>
                     bind (cy_kp false items v) (fun bv => cy_kp_binds items bl bv)))
                    (Ok (rest_binds rest (cy_rest (kkeys items) kvs)))
      end
  | PClass c pos kw =>
      if negb (isinst v c) then NoMatch
      else
        let np := plen pos in
        let pnames := if match_self c then [] else firstn np (match_args ct c) in
        bind (match np with
              | O => Ok tt                                   (* no ClassPositional call *)
              | _ =>
                  if Nat.ltb (allowed ct c) np then Err ETypeError
                  else if match_self c then Ok tt
                  else if cy_cls_dup pnames (kkeys kw) then Err ETypeError
                  else if forallb (fun a => match getattr v a with Some _ => true | None => false end) pnames
                       then Ok tt else NoMatch
              end)
          (fun _ =>
             if negb (forallb (fun k => match klookup v k with Some _ => true | None => false end) (kkeys kw))
             then NoMatch
             else
               match (if match_self c then Some (match np with O => [] | S _ => [v] end) else attr_vals v pnames) with
               | None => Err EInternal
               | Some vals =>
                   (* keyword sub-patterns are tested first, then the positional ones *)
                   bind (cy_kall kw v) (fun bk =>
                   bind (cy_list pos vals) (fun bp => Ok (bp ++ bk)))
               end)
  | POr alts => cy_alts alts v
  | PAs q x => both (cy q v) (Ok [(x, as_value fxas q v)])
  end
(* sequence items by index; wildcards are never indexed *)
with cy_items (ps : pats) (l : list value) (i : Z) {struct ps} : res binds :=
  match ps with
  | PNil => Ok []
  | PCons p r =>
      if is_wild p then cy_items r l (i + 1)
      else match index_z l i with
           | Some x => both (cy p x) (cy_items r l (i + 1))
           | None => Err EInternal
           end
  end
with cy_list (ps : pats) (vs : list value) {struct ps} : res binds :=
  match ps, vs with
  | PNil, [] => Ok []
  | PCons p r, x :: xs => both (cy p x) (cy_list r xs)
  | _, _ => NoMatch
  end
(* one pass over the keyed sub-patterns: those with a literal (or attribute) key when
   lits = true, those with a value key when lits = false; result keeps one entry per item
   of the pass *)
with cy_kp (lits : bool) (ks : kpats) (v : value) {struct ks} : res (list binds) :=
  match ks with
  | KNil => Ok []
  | KCons k p r =>
      if Bool.eqb (is_litkey k) lits then
        match klookup v k with
        | Some x => bind (cy p x) (fun b => bind (cy_kp lits r v) (fun bs => Ok (b :: bs)))
        | None => NoMatch
        end
      else cy_kp lits r v
  end
(* keyword sub-patterns of a class pattern, in order *)
with cy_kall (ks : kpats) (v : value) {struct ks} : res binds :=
  match ks with
  | KNil => Ok []
  | KCons k p r =>
      match klookup v k with
      | Some x => both (cy p x) (cy_kall r v)
      | None => NoMatch
      end
  end
with cy_alts (ps : pats) (v : value) {struct ps} : res binds :=
  match ps with
  | PNil => NoMatch
  | PCons p r => match cy p v with Ok b => Ok b | NoMatch => cy_alts r v | Err e => Err e end
  end
(* target assignments follow the (sorted) item list; recorded here in source order *)
with cy_kp_binds (ks : kpats) (bl bv : list binds) {struct ks} : res binds :=
  match ks with
  | KNil => match bl, bv with [], [] => Ok [] | _, _ => Err EInternal end
  | KCons k _ r =>
      if is_litkey k then
        match bl with b :: bl' => bind (cy_kp_binds r bl' bv) (fun bs => Ok (b ++ bs)) | [] => Err EInternal end
      else
        match bv with b :: bv' => bind (cy_kp_binds r bl bv') (fun bs => Ok (b ++ bs)) | [] => Err EInternal end
  end.

(* is_simple_value_comparison: cases turned into an if/elif chain by refactor_cases *)
Fixpoint simple_notarget (p : pat) : bool :=
  match p with
  | PLit _ | PVal _ | PWild => true
  | _ => false
  end.
Fixpoint all_simple_notarget (ps : pats) : bool :=
  match ps with PNil => true | PCons p r => simple_notarget p && all_simple_notarget r end.

Fixpoint is_simple (p : pat) : bool :=
  match p with
  | PLit _ | PVal _ | PCap _ | PWild => true
  | PAs q _ => is_simple q
  | POr alts => all_simple_notarget alts
  | _ => false
  end.

Definition simple_cmp (p : pat) (v : value) : bool :=
  match p with PLit l => lit_match l v | PVal l => eq_lit l v | _ => true end.
Fixpoint simple_or (ps : pats) (v : value) : bool :=
  match ps with PNil => false | PCons p r => simple_cmp p v || simple_or r v end.

(* condition of the if-clause + the assignments inserted at the top of its body *)
Fixpoint cy_simple (p : pat) (v : value) : res binds :=
  match p with
  | POr alts => if simple_or alts v then Ok [] else NoMatch
  | PAs q x => both (cy_simple q v) (Ok [(x, as_value fxas q v)])
  | PCap x => Ok [(x, v)]
  | _ => if simple_cmp p v then Ok [] else NoMatch
  end.
End CY.

(* ================= match statements ================= *)
Inductive guard := GNone | GConst (b : bool) | GVarEq (x : N) (l : lit).

Fixpoint env_get (x : N) (env : binds) : option value :=
  match env with [] => None | (y, w) :: r => if N.eqb x y then Some w else env_get x r end.

(* env: latest binding first *)
Definition eval_guard (g : guard) (env : binds) : res bool :=
  match g with
  | GNone => Ok true
  | GConst b => Ok b
  | GVarEq x l => match env_get x env with Some w => Ok (eq_lit l w) | None => Err EUnbound end
  end.

Definition has_guard (g : guard) : bool := match g with GNone => false | _ => true end.

Record outcome := { o_sel : option nat;      (* index of the selected case *)
                    o_env : binds;           (* all bindings made, latest first *)
                    o_guards : list nat }.   (* indices of the cases whose guard was evaluated, in order *)

Inductive sres := SDone (o : outcome) | SRaise (e : exn) (guards : list nat).

(* the cases are tried in order; bindings of a case whose guard fails persist *)
Fixpoint run_cases (matcher : nat -> pat -> guard -> value -> res binds)
         (cases : list (pat * guard)) (v : value) (i : nat) (env : binds) (gs : list nat) : sres :=
  match cases with
  | [] => SDone {| o_sel := None; o_env := env; o_guards := rev gs |}
  | (p, g) :: r =>
      match matcher i p g v with
      | Err e => SRaise e (rev gs)
      | NoMatch => run_cases matcher r v (S i) env gs
      | Ok b =>
          let env' := rev b ++ env in
          let gs' := if has_guard g then i :: gs else gs in
          match eval_guard g env' with
          | Err e => SRaise e (rev gs')
          | NoMatch => SRaise EInternal (rev gs')
          | Ok true => SDone {| o_sel := Some i; o_env := env'; o_guards := rev gs' |}
          | Ok false => run_cases matcher r v (S i) env' gs'
          end
      end
  end.

Definition match_ref (ct : ctab) (cases : list (pat * guard)) (v : value) : sres :=
  run_cases (fun _ p _ w => pm_ref ct p w) cases v O [] [].

(* a guarded case is never "simple"; simple cases go through the if-chain comparison *)
Definition match_cy (fxas : bool) (ct : ctab) (cases : list (pat * guard)) (v : value) : sres :=
  run_cases (fun _ p g w => if is_simple p && negb (has_guard g) then cy_simple fxas p w else cy fxas ct p w)
            cases v O [] [].

(* ================= static side conditions (complement of the findings) ================= *)
(* strict = true: additionally no class pattern with more positional sub-patterns than allowed,
   so that nothing below can raise.  A node that reorders its sub-pattern tests (class pattern
   with positional AND keyword sub-patterns, mapping pattern with a value key) requires its
   sub-patterns to be strict. *)
Definition has_valkey (ks : list key) : bool := existsb (fun k => negb (is_litkey k)) ks.

Section SAFE.
Variable ct : ctab.
Fixpoint safe (strict : bool) (p : pat) {struct p} : bool :=
  match p with
  | PLit _ | PVal _ | PCap _ | PWild => true
  | PSeq pre _ post => safe_list strict pre && safe_list strict post
  | PMap items _ =>
      nodupc (map key_canon (kkeys items)) &&
      safe_kp (strict || has_valkey (kkeys items)) items
  | PClass c pos kw =>
      let pnames := if match_self c then [] else firstn (plen pos) (match_args ct c) in
      nodupc (map key_canon (map KAttr pnames ++ kkeys kw)) &&
      (negb strict || Nat.leb (plen pos) (allowed ct c)) &&
      let s := strict || (negb (Nat.eqb (plen pos) 0) && negb (Nat.eqb (klen kw) 0)) in
      safe_list s pos && safe_kp s kw
  | POr alts => safe_list strict alts
  | PAs q _ => safe strict q
  end
with safe_list (strict : bool) (ps : pats) {struct ps} : bool :=
  match ps with PNil => true | PCons p r => safe strict p && safe_list strict r end
with safe_kp (strict : bool) (ks : kpats) {struct ks} : bool :=
  match ks with KNil => true | KCons _ p r => safe strict p && safe_kp strict r end.
End SAFE.

(* no as-target directly on a value pattern whose value differs observably from an equal subject *)
Fixpoint as_harmless (q : pat) : bool :=
  match q with
  | PLit (LInt _) => false
  | PVal (LInt _) | PVal (LBool _) => false
  | PAs q' _ => as_harmless q'
  | _ => true
  end.
Fixpoint as_ok (p : pat) {struct p} : bool :=
  match p with
  | PLit _ | PVal _ | PCap _ | PWild => true
  | PSeq pre _ post => as_ok_list pre && as_ok_list post
  | PMap items _ => as_ok_kp items
  | PClass _ pos kw => as_ok_list pos && as_ok_kp kw
  | POr alts => as_ok_list alts
  | PAs q _ => as_harmless q && as_ok q
  end
with as_ok_list (ps : pats) {struct ps} : bool :=
  match ps with PNil => true | PCons p r => as_ok p && as_ok_list r end
with as_ok_kp (ks : kpats) {struct ks} : bool :=
  match ks with KNil => true | KCons _ p r => as_ok p && as_ok_kp r end.

Definition as_ok_cases (cases : list (pat * guard)) : bool :=
  forallb (fun pg => as_ok (fst pg)) cases.

Definition safe_cases (ct : ctab) (cases : list (pat * guard)) : bool :=
  forallb (fun pg => safe ct false (fst pg)) cases.
