(* Model of the ordered emission in Cython/Compiler/Code.py:GlobalState: constants are collected
   in dictionaries/sets during code generation (in whatever order the tree walk and the hash
   seed produce) and written out after `consts.sort()` on a key tuple that starts with
   (len(cname), cname) or the value itself -- unique per constant. *)
From Coq Require Import ZArith List Bool.
Import ListNotations.
Open Scope Z_scope.

Section Emit.
  Context {A : Type} (key : A -> Z).

  Fixpoint insert (x : A) (l : list A) : list A :=
    match l with
    | [] => [x]
    | y :: r => if key x <=? key y then x :: l else y :: insert x r
    end.

  (* list.sort() on (key, item) pairs with pairwise distinct keys *)
  Fixpoint isort (l : list A) : list A :=
    match l with
    | [] => []
    | x :: r => insert x (isort r)
    end.

  (* the emitted text: one fragment per constant, in sorted order *)
  Definition emit {T} (text : A -> T) (l : list A) : list T := map text (isort l).
End Emit.
