(* Model of Cython/Plex: Transitions.TransitionMap, Machines.{Machine,Node,FastMachine},
   Regexps.build_machine (all RE classes), Lexicons.Lexicon (default scanner state),
   DFA.nfa_to_dfa and Scanners.Scanner.{run_machine_inlined, scan_a_token, read}; plus a
   reference matcher by Brzozowski derivatives over the event alphabet.

   Conventions
   - an NFA state is its index in Machine.states (Node.number - 1); a Python `set` of Nodes is
     a finite set of indices, represented by the bits of an N (membership = N.testbit,
     union = N.lor, tuple(sorted(set)) as dictionary key = the number itself);
   - the list `TransitionMap.map = [code_0, S_0, code_1, ..., S_n-1, code_n]` is kept as the
     two lists of its even (codes) and odd (sets) positions; `split` computes on the *flat*
     indices exactly as the Python text does (lo, hi, mid = ((lo+hi)//2) & ~1);
   - every loop that is not structurally recursive carries fuel and returns None / an explicit
     constructor when it runs out (never silently). *)
From Coq Require Import ZArith NArith List Bool Lia.
Import ListNotations.
Open Scope Z_scope.

Definition maxint : Z := 2147483647.
Definition LOWEST_PRIORITY : Z := - maxint.

Notation "'do' x <- a ; b" := (match a with Some x => b | None => None end)
  (at level 200, x pattern, a at level 100, b at level 200, right associativity).

(* ---------- state sets ---------- *)
Definition sset := N.
Definition s_empty : sset := 0%N.
Definition s_mem (i : nat) (s : sset) : bool := N.testbit s (N.of_nat i).
Definition s_add (i : nat) (s : sset) : sset := N.setbit s (N.of_nat i).
Definition s_single (i : nat) : sset := s_add i s_empty.
Definition s_union (a b : sset) : sset := N.lor a b.
Definition s_is_empty (s : sset) : bool := N.eqb s 0.
(* iteration over a set: members in increasing order *)
Definition s_elems (s : sset) : list nat :=
  filter (fun i => s_mem i s) (seq 0 (N.to_nat (N.size s))).

(* ---------- Transitions.TransitionMap ---------- *)
Record tmap := { tm_codes : list Z; tm_sets : list sset }.
Definition tm_new : tmap := {| tm_codes := [- maxint; maxint]; tm_sets := [s_empty] |}.

(* map[flat] for an even flat index *)
Definition code_at (codes : list Z) (flat : Z) : Z := nth (Z.to_nat (flat / 2)) codes 0.

(* the `while hi - lo >= 4` loop of split *)
Fixpoint split_loop (fuel : nat) (codes : list Z) (code lo hi : Z) : option (Z * Z) :=
  if hi - lo <? 4 then Some (lo, hi)
  else match fuel with
       | O => None
       | S f =>
           let mid := Z.land ((lo + hi) / 2) (-2) in
           if code <? code_at codes mid
           then split_loop f codes code lo mid
           else split_loop f codes code mid hi
       end.

(* split(code) -> (index i with map[i] == code, map after the possible insertion) *)
Definition tm_split (m : tmap) (code : Z) : option (Z * tmap) :=
  let hi := 2 * Z.of_nat (length (tm_sets m)) in          (* len(map) - 1 *)
  if code =? maxint then Some (hi, m)
  else
    do r <- split_loop (length (tm_codes m)) (tm_codes m) code 0 hi;
    let '(lo, hi') := r in
    if code_at (tm_codes m) lo =? code then Some (lo, m)
    else
      (* map[hi:hi] = [code, map[hi - 1].copy()] *)
      let k := Z.to_nat (hi' / 2) in
      Some (hi', {| tm_codes := firstn k (tm_codes m) ++ code :: skipn k (tm_codes m);
                    tm_sets := firstn k (tm_sets m)
                               ++ nth (k - 1) (tm_sets m) s_empty :: skipn k (tm_sets m) |}).

(* i = split(c0); j = split(c1); while i < j: map[i+1].update(s); i += 2 *)
Fixpoint upd_from (k : Z) (i j : Z) (s : sset) (sets : list sset) : list sset :=
  match sets with
  | [] => []
  | x :: t => (if (i <=? 2 * k) && (2 * k <? j) then s_union x s else x)
              :: upd_from (k + 1) i j s t
  end.

Definition tm_add_set (m : tmap) (c0 c1 : Z) (s : sset) : option tmap :=
  do r1 <- tm_split m c0;
  let '(i, m1) := r1 in
  do r2 <- tm_split m1 c1;
  let '(j, m2) := r2 in
  Some {| tm_codes := tm_codes m2; tm_sets := upd_from 0 i j s (tm_sets m2) |}.

Definition tm_add (m : tmap) (c0 c1 : Z) (st : nat) : option tmap :=
  tm_add_set m c0 c1 (s_single st).

(* iteritems(), the character-range part *)
Fixpoint items_loop (els : bool) (codes : list Z) (sets : list sset) : list (Z * Z * sset) :=
  match codes, sets with
  | c0 :: ((c1 :: _) as rest), s :: sets' =>
      (if negb (s_is_empty s) || els then [(c0, c1, s)] else []) ++ items_loop els rest sets'
  | _, _ => []
  end.
Definition tm_items (m : tmap) : list (Z * Z * sset) :=
  items_loop (negb (s_is_empty (hd s_empty (tm_sets m)))) (tm_codes m) (tm_sets m).

(* ---------- Machines.Node / Machine (NFA) ---------- *)
Inductive tev := TRange (c0 c1 : Z) | TEps | TBol | TEol | TEof.

Record nstate := {
  n_tm : tmap;          (* transitions.map *)
  n_eps : sset; n_bol : sset; n_eol : sset; n_eof : sset;   (* transitions.special *)
  n_act : option Z;     (* action (token number) *)
  n_prio : Z }.         (* action_priority *)
Definition n_new : nstate :=
  {| n_tm := tm_new; n_eps := s_empty; n_bol := s_empty; n_eol := s_empty; n_eof := s_empty;
     n_act := None; n_prio := LOWEST_PRIORITY |}.

Definition nfa := list nstate.

Definition new_state (m : nfa) : nfa * nat := (m ++ [n_new], length m).

Fixpoint upd_nth {A} (l : list A) (i : nat) (f : A -> option A) : option (list A) :=
  match l, i with
  | [], _ => None
  | x :: t, O => do y <- f x; Some (y :: t)
  | x :: t, S i' => do t' <- upd_nth t i' f; Some (x :: t')
  end.

(* Node.add_transition(event, new_state) *)
Definition node_add (st : nstate) (ev : tev) (t : nat) : option nstate :=
  match ev with
  | TRange c0 c1 =>
      do tm <- tm_add (n_tm st) c0 c1 t;
      Some {| n_tm := tm; n_eps := n_eps st; n_bol := n_bol st; n_eol := n_eol st;
              n_eof := n_eof st; n_act := n_act st; n_prio := n_prio st |}
  | TEps => Some {| n_tm := n_tm st; n_eps := s_add t (n_eps st); n_bol := n_bol st;
                    n_eol := n_eol st; n_eof := n_eof st; n_act := n_act st; n_prio := n_prio st |}
  | TBol => Some {| n_tm := n_tm st; n_eps := n_eps st; n_bol := s_add t (n_bol st);
                    n_eol := n_eol st; n_eof := n_eof st; n_act := n_act st; n_prio := n_prio st |}
  | TEol => Some {| n_tm := n_tm st; n_eps := n_eps st; n_bol := n_bol st;
                    n_eol := s_add t (n_eol st); n_eof := n_eof st; n_act := n_act st;
                    n_prio := n_prio st |}
  | TEof => Some {| n_tm := n_tm st; n_eps := n_eps st; n_bol := n_bol st; n_eol := n_eol st;
                    n_eof := s_add t (n_eof st); n_act := n_act st; n_prio := n_prio st |}
  end.

Definition add_tr (m : nfa) (s : nat) (ev : tev) (t : nat) : option nfa :=
  upd_nth m s (fun st => node_add st ev t).

(* Node.set_action(action, priority) *)
Definition set_action (m : nfa) (s : nat) (a : Z) (prio : Z) : option nfa :=
  upd_nth m s (fun st =>
    if prio >? n_prio st
    then Some {| n_tm := n_tm st; n_eps := n_eps st; n_bol := n_bol st; n_eol := n_eol st;
                 n_eof := n_eof st; n_act := Some a; n_prio := prio |}
    else Some st).

(* ---------- Regexps: the primitive RE classes ---------- *)
Inductive special := SBol | SEol | SEof.

Inductive re :=
| RRange (c0 c1 : Z)            (* RawCodeRange(code1, code2) *)
| RNewline                      (* RawNewline *)
| RSpecial (s : special)        (* SpecialSymbol(sym) *)
| RSeq (l : list re)
| RAlt (l : list re)
| RRep1 (r : re)
| RCase (r : re) (nocase : bool). (* SwitchCase(re, nocase) *)

Fixpoint re_nullable (r : re) : bool :=
  match r with
  | RRange _ _ | RNewline | RSpecial _ => false
  | RSeq l => (fix go l := match l with [] => true | x :: t => re_nullable x && go t end) l
  | RAlt l => (fix go l := match l with [] => false | x :: t => re_nullable x || go t end) l
  | RRep1 r => re_nullable r
  | RCase r _ => re_nullable r
  end.

(* Seq.__init__: scan from the right: the first RE with match_nl wins, stop at the first
   non-nullable one *)
Fixpoint re_match_nl (r : re) : bool :=
  match r with
  | RRange _ _ => false
  | RNewline => true
  | RSpecial _ => false
  | RSeq l =>
      (fix go l := match l with
                   | [] => false
                   | x :: t => go t || (re_match_nl x && (fix nl l := match l with [] => true | y :: u => re_nullable y && nl u end) t)
                   end) l
  | RAlt l => (fix go l := match l with [] => false | x :: t => re_match_nl x || go t end) l
  | RRep1 r => re_match_nl r
  | RCase r _ => re_match_nl r
  end.

Definition uppercase_range (c1 c2 : Z) : option (Z * Z) :=
  let c3 := Z.max c1 97 in let c4 := Z.min c2 123 in
  if c3 <? c4 then Some (c3 - 32, c4 - 32) else None.
Definition lowercase_range (c1 c2 : Z) : option (Z * Z) :=
  let c3 := Z.max c1 65 in let c4 := Z.min c2 91 in
  if c3 <? c4 then Some (c3 + 32, c4 + 32) else None.

Definition link (m : nfa) (s t : nat) : option nfa := add_tr m s TEps t.

(* RE.build_opt(m, initial_state, c) *)
Definition build_opt (m : nfa) (i : nat) (c : tev) : option (nfa * nat) :=
  let '(m1, s) := new_state m in
  do m2 <- link m1 i s;
  do m3 <- add_tr m2 i c s;
  Some (m3, s).

Definition opt_bol (mb : bool) (m : nfa) (i : nat) : option (nfa * nat) :=
  if mb then build_opt m i TBol else Some (m, i).

(* build_machine(m, initial_state, final_state, match_bol, nocase) *)
Fixpoint build (r : re) (m : nfa) (i f : nat) (mb nc : bool) {struct r} : option nfa :=
  match r with
  | RRange c0 c1 =>
      do r1 <- opt_bol mb m i;
      let '(m1, i1) := r1 in
      do m2 <- add_tr m1 i1 (TRange c0 c1) f;
      if nc then
        do m3 <- match uppercase_range c0 c1 with
                 | Some (a, b) => add_tr m2 i1 (TRange a b) f | None => Some m2 end;
        match lowercase_range c0 c1 with
        | Some (a, b) => add_tr m3 i1 (TRange a b) f | None => Some m3 end
      else Some m2
  | RNewline =>
      do r1 <- opt_bol mb m i;
      let '(m1, i1) := r1 in
      do r2 <- build_opt m1 i1 TEol;
      let '(m2, s) := r2 in
      add_tr m2 s (TRange 10 11) f
  | RSpecial sym =>
      do r1 <- opt_bol (mb && match sym with SEol => true | _ => false end) m i;
      let '(m1, i1) := r1 in
      add_tr m1 i1 (match sym with SBol => TBol | SEol => TEol | SEof => TEof end) f
  | RSeq l =>
      match l with
      | [] => link m i f
      | _ =>
        (fix go (l : list re) (m : nfa) (s1 : nat) (mb : bool) {struct l} : option nfa :=
           match l with
           | [] => Some m
           | x :: t =>
               match t with
               | [] => build x m s1 f mb nc
               | _ =>
                   let '(m1, s2) := new_state m in
                   do m2 <- build x m1 s1 s2 mb nc;
                   go t m2 s2 (re_match_nl x || (mb && re_nullable x))
               end
           end) l m i mb
      end
  | RAlt l =>
      do m1 <- (fix go (l : list re) (m : nfa) {struct l} : option nfa :=
                  match l with
                  | [] => Some m
                  | x :: t => do m' <- (if re_nullable x then build x m i f mb nc else Some m);
                              go t m'
                  end) l m;
      if existsb (fun x => negb (re_nullable x)) l then
        do r1 <- opt_bol mb m1 i;
        let '(m2, i2) := r1 in
        (fix go (l : list re) (m : nfa) {struct l} : option nfa :=
           match l with
           | [] => Some m
           | x :: t => do m' <- (if re_nullable x then Some m else build x m i2 f false nc);
                       go t m'
           end) l m2
      else Some m1
  | RRep1 r1 =>
      let '(ma, s1) := new_state m in
      let '(mb', s2) := new_state ma in
      do m1 <- link mb' i s1;
      do m2 <- build r1 m1 s1 s2 (mb || re_match_nl r1) nc;
      do m3 <- link m2 s2 s1;
      link m3 s2 f
  | RCase r1 nc' => build r1 m i f mb nc'
  end.

(* Lexicon.__init__ for a list of (pattern, action) tuples in the default state; the action
   of token k is k (1-based), its priority -k *)
Fixpoint add_tokens (rules : list re) (k : Z) (m : nfa) : option nfa :=
  match rules with
  | [] => Some m
  | r :: t =>
      let '(m1, fin) := new_state m in
      do m2 <- build r m1 O fin true false;
      do m3 <- set_action m2 fin k (- k);
      add_tokens t (k + 1) m3
  end.
Definition lexicon_nfa (rules : list re) : option nfa :=
  let '(m0, _) := new_state [] in add_tokens rules 1 m0.

(* ---------- DFA.nfa_to_dfa ---------- *)
Definition n_get (m : nfa) (s : nat) : nstate := nth s m n_new.

(* add_to_epsilon_closure(state_set, state): recursion depth bounded by fuel *)
Fixpoint eclose_add (fuel : nat) (m : nfa) (acc : sset) (s : nat) : option sset :=
  match fuel with
  | O => None
  | S f =>
      if s_mem s acc then Some acc
      else fold_left (fun a s2 => do a' <- a; eclose_add f m a' s2)
                     (s_elems (n_eps (n_get m s))) (Some (s_add s acc))
  end.
(* epsilon_closure(state)  (the per-node memo is not modelled: the NFA is not modified while
   nfa_to_dfa runs) *)
Definition eclose (m : nfa) (s : nat) : option sset := eclose_add (S (length m)) m s_empty s.
(* set_epsilon_closure(state_set) *)
Definition eclose_set (m : nfa) (ss : sset) : option sset :=
  fold_left (fun a s => do a' <- a; do c <- eclose m s; Some (s_union a' c))
            (s_elems ss) (Some s_empty).

(* StateMap.highest_priority_action *)
Definition best_action (m : nfa) (ss : sset) : option Z :=
  fst (fold_left (fun (b : option Z * Z) s =>
                    let st := n_get m s in
                    if n_prio st >? snd b then (n_act st, n_prio st) else b)
                 (s_elems ss) (None, LOWEST_PRIORITY)).

(* a state of the FastMachine: the dict entries for single characters (kept as the disjoint
   code ranges they were written from), 'else', 'bol', 'eol', 'eof' ('' is never written) *)
Record dstate := {
  d_chars : list (Z * Z * nat);
  d_else : option nat; d_bol : option nat; d_eol : option nat; d_eof : option nat }.

(* StateMap: new state j <-> old set (nth j sets); new_machine.states[j]['action'] *)
Record smap := { sm_sets : list sset; sm_acts : list (option Z) }.

Fixpoint find_idx (key : sset) (l : list sset) (k : nat) : option nat :=
  match l with
  | [] => None
  | x :: t => if N.eqb x key then Some k else find_idx key t (S k)
  end.

(* StateMap.old_to_new *)
Definition old_to_new (m : nfa) (sm : smap) (ss : sset) : smap * nat :=
  match find_idx ss (sm_sets sm) O with
  | Some j => (sm, j)
  | None => ({| sm_sets := sm_sets sm ++ [ss]; sm_acts := sm_acts sm ++ [best_action m ss] |},
             length (sm_sets sm))
  end.

(* the union TransitionMap of one new state: chars + bol/eol/eof *)
Record utrans := { u_tm : tmap; u_bol : sset; u_eol : sset; u_eof : sset }.

Definition add_state_transitions (m : nfa) (u : utrans) (s : nat) : option utrans :=
  let st := n_get m s in
  do tm <- fold_left (fun a it => do tm <- a;
                        let '(c0, c1, tg) := it in
                        if s_is_empty tg then Some tm
                        else do cl <- eclose_set m tg; tm_add_set tm c0 c1 cl)
                     (tm_items (n_tm st)) (Some (u_tm u));
  do b <- eclose_set m (n_bol st);
  do e <- eclose_set m (n_eol st);
  do f <- eclose_set m (n_eof st);
  Some {| u_tm := tm; u_bol := s_union (u_bol u) b; u_eol := s_union (u_eol u) e;
          u_eof := s_union (u_eof u) f |}.

Definition union_transitions (m : nfa) (old : sset) : option utrans :=
  fold_left (fun a s => do u <- a; add_state_transitions m u s) (s_elems old)
            (Some {| u_tm := tm_new; u_bol := s_empty; u_eol := s_empty; u_eof := s_empty |}).

(* FastMachine.add_transitions for the range items of `transitions.items()`.
   else_fix = false is the code as it is (a range ending at maxint is not written; characters
   above the last split point fall to 'else'). *)
Fixpoint add_range_items (m : nfa) (items : list (Z * Z * sset)) (sm : smap) (d : dstate)
  : smap * dstate :=
  match items with
  | [] => (sm, d)
  | (c0, c1, ss) :: t =>
      let '(sm1, j) := old_to_new m sm ss in
      let d1 :=
        if c0 =? - maxint then
          {| d_chars := d_chars d; d_else := Some j; d_bol := d_bol d; d_eol := d_eol d;
             d_eof := d_eof d |}
        else if negb (c1 =? maxint) then
          {| d_chars := d_chars d ++ [(c0, c1, j)]; d_else := d_else d; d_bol := d_bol d;
             d_eol := d_eol d; d_eof := d_eof d |}
        else d in
      add_range_items m t sm1 d1
  end.

Definition add_special (m : nfa) (ss : sset) (sm : smap) : smap * option nat :=
  if s_is_empty ss then (sm, None)
  else let '(sm1, j) := old_to_new m sm ss in (sm1, Some j).

(* the body of `for new_state in new_machine.states` *)
Definition process_state (m : nfa) (sm : smap) (old : sset) : option (smap * dstate) :=
  do u <- union_transitions m old;
  let d0 := {| d_chars := []; d_else := None; d_bol := None; d_eol := None; d_eof := None |} in
  let '(sm1, d1) := add_range_items m (tm_items (u_tm u)) sm d0 in
  let '(sm2, jb) := add_special m (u_bol u) sm1 in
  let '(sm3, je) := add_special m (u_eol u) sm2 in
  let '(sm4, jf) := add_special m (u_eof u) sm3 in
  Some (sm4, {| d_chars := d_chars d1; d_else := d_else d1; d_bol := jb; d_eol := je;
                d_eof := jf |}).

(* the worklist: `done` holds the transitions of the states processed so far *)
Fixpoint worklist (fuel : nat) (m : nfa) (sm : smap) (done : list dstate)
  : option (smap * list dstate) :=
  match fuel with
  | O => None
  | S f =>
      match nth_error (sm_sets sm) (length done) with
      | None => Some (sm, done)
      | Some old =>
          do r <- process_state m sm old;
          let '(sm1, d) := r in
          worklist f m sm1 (done ++ [d])
      end
  end.

Record dfa := { dfa_sets : list sset; dfa_acts : list (option Z); dfa_trans : list dstate }.

(* nfa_to_dfa(old_machine): initial state '' of the NFA is state 0; its DFA state is 0 *)
Definition nfa_to_dfa (fuel : nat) (m : nfa) : option dfa :=
  do c0 <- eclose m O;
  let '(sm0, _) := old_to_new m {| sm_sets := []; sm_acts := [] |} c0 in
  do r <- worklist fuel m sm0 [];
  let '(sm, tr) := r in
  Some {| dfa_sets := sm_sets sm; dfa_acts := sm_acts sm; dfa_trans := tr |}.

(* ---------- Scanners.Scanner ---------- *)
Inductive event := EvChar (c : Z) | EvBol | EvEol | EvEof | EvNone.   (* EvNone = '' *)

(* state.get(c, NOT_FOUND); if NOT_FOUND: c and state.get('else') *)
Definition d_lookup (d : dstate) (e : event) : option nat :=
  match e with
  | EvChar c =>
      match find (fun it => let '(c0, c1, _) := it in (c0 <=? c) && (c <? c1)) (d_chars d) with
      | Some (_, _, j) => Some j
      | None => d_else d
      end
  | EvBol => d_bol d
  | EvEol => d_eol d
  | EvEof => d_eof d
  | EvNone => None
  end.

Record config := {
  c_pos : Z; c_line : Z; c_lstart : Z; c_char : event; c_ist : Z; c_next : Z }.

Definition config0 : config :=
  {| c_pos := 0; c_line := 1; c_lstart := 0; c_char := EvBol; c_ist := 1; c_next := 0 |}.

(* the inlined next_char(); the buffer refill is abstracted: the whole text is available *)
Definition next_char (text : list Z) (c : config) : config :=
  if c_ist c =? 1 then
    match nth_error text (Z.to_nat (c_next c)) with
    | Some ch =>
        if ch =? 10 then
          {| c_pos := c_next c; c_line := c_line c; c_lstart := c_lstart c; c_char := EvEol;
             c_ist := 2; c_next := c_next c + 1 |}
        else
          {| c_pos := c_next c; c_line := c_line c; c_lstart := c_lstart c;
             c_char := EvChar ch; c_ist := 1; c_next := c_next c + 1 |}
    | None =>
        {| c_pos := c_next c; c_line := c_line c; c_lstart := c_lstart c; c_char := EvEol;
           c_ist := 4; c_next := c_next c |}
    end
  else if c_ist c =? 2 then
    {| c_pos := c_pos c; c_line := c_line c; c_lstart := c_lstart c; c_char := EvChar 10;
       c_ist := 3; c_next := c_next c |}
  else if c_ist c =? 3 then
    {| c_pos := c_next c; c_line := c_line c + 1; c_lstart := c_next c; c_char := EvBol;
       c_ist := 1; c_next := c_next c |}
  else if c_ist c =? 4 then
    {| c_pos := c_pos c; c_line := c_line c; c_lstart := c_lstart c; c_char := EvEof;
       c_ist := 5; c_next := c_next c |}
  else
    {| c_pos := c_pos c; c_line := c_line c; c_lstart := c_lstart c; c_char := EvNone;
       c_ist := c_ist c; c_next := c_next c |}.

Inductive run_result :=
| RunOk (a : Z) (c : config)      (* backed up to the last accepting configuration *)
| RunFail (c : config)            (* blocked with no accepting state seen: action None *)
| RunBad                          (* a state index outside the machine *)
| RunFuel.

(* run_machine_inlined: st = current DFA state, bk = (b_action, b_cur_pos, ...) *)
Fixpoint run_machine (fuel : nat) (acts : list (option Z)) (tr : list dstate) (text : list Z)
  (st : nat) (cfg : config) (bk : option (Z * config)) : run_result :=
  match fuel with
  | O => RunFuel
  | S f =>
      match nth_error acts st, nth_error tr st with
      | Some act, Some d =>
          let bk' := match act with Some a => Some (a, cfg) | None => bk end in
          match d_lookup d (c_char cfg) with
          | Some st' => run_machine f acts tr text st' (next_char text cfg) bk'
          | None => match bk' with
                    | Some (a, c) => RunOk a c
                    | None => RunFail cfg
                    end
          end
      | _, _ => RunBad
      end
  end.

Inductive token :=
| TokOk (start stop : Z) (line col : Z) (a : Z) (c : config)   (* text = buffer[start:stop] *)
| TokEof (c : config)                     (* ('', None) *)
| TokErr (c : config)                     (* UnrecognizedInput *)
| TokBad | TokFuel.

Definition is_eof (e : event) : bool := match e with EvEof => true | _ => false end.

Definition scan_fuel (text : list Z) : nat := 3 * length text + 8.

(* scan_a_token *)
Definition scan_a_token (D : dfa) (text : list Z) (cfg : config) : token :=
  match run_machine (scan_fuel text) (dfa_acts D) (dfa_trans D) text O cfg None with
  | RunOk a c => TokOk (c_pos cfg) (c_pos c) (c_line cfg) (c_pos cfg - c_lstart cfg) a c
  | RunFail c => if (c_pos c =? c_pos cfg) && is_eof (c_char c) then TokEof c else TokErr c
  | RunBad => TokBad
  | RunFuel => TokFuel
  end.

(* up to n calls of read() with actions that return their token number *)
Fixpoint scan_tokens (n : nat) (D : dfa) (text : list Z) (cfg : config) : list token :=
  match n with
  | O => []
  | S n' =>
      let t := scan_a_token D text cfg in
      match t with
      | TokOk _ _ _ _ _ c => t :: scan_tokens n' D text c
      | _ => [t]
      end
  end.

(* the event word a scanner in configuration cfg still has to read, up to and including EOF *)
Fixpoint events_from (fuel : nat) (text : list Z) (cfg : config) : list event :=
  match fuel with
  | O => []
  | S f => match c_char cfg with
           | EvNone => []
           | e => e :: events_from f text (next_char text cfg)
           end
  end.

(* ---------- reference: regular expressions over events, Brzozowski derivatives ---------- *)
Inductive ere :=
| EEmpty                       (* no word *)
| EEps                         (* the empty word *)
| ERange (c0 c1 : Z)           (* one character event with c0 <= code < c1 *)
| ESym (s : special)           (* one BOL / EOL / EOF event *)
| ESeq (a b : ere)
| EAlt (a b : ere)
| ERep1 (a : ere).

Definition EOpt (a : ere) : ere := EAlt a EEps.

Fixpoint e_nullable (r : ere) : bool :=
  match r with
  | EEmpty => false | EEps => true | ERange _ _ => false | ESym _ => false
  | ESeq a b => e_nullable a && e_nullable b
  | EAlt a b => e_nullable a || e_nullable b
  | ERep1 a => e_nullable a
  end.

Definition special_eqb (a b : special) : bool :=
  match a, b with SBol, SBol | SEol, SEol | SEof, SEof => true | _, _ => false end.

Definition ev_matches (c0 c1 : Z) (e : event) : bool :=
  match e with EvChar c => (c0 <=? c) && (c <? c1) | _ => false end.
Definition ev_is (s : special) (e : event) : bool :=
  match e, s with EvBol, SBol | EvEol, SEol | EvEof, SEof => true | _, _ => false end.

Fixpoint e_deriv (e : event) (r : ere) : ere :=
  match r with
  | EEmpty | EEps => EEmpty
  | ERange c0 c1 => if ev_matches c0 c1 e then EEps else EEmpty
  | ESym s => if ev_is s e then EEps else EEmpty
  | ESeq a b => if e_nullable a then EAlt (ESeq (e_deriv e a) b) (e_deriv e b)
                else ESeq (e_deriv e a) b
  | EAlt a b => EAlt (e_deriv e a) (e_deriv e b)
  | ERep1 a => ESeq (e_deriv e a) (EOpt (ERep1 a))
  end.

Fixpoint e_matches (r : ere) (w : list event) : bool :=
  match w with
  | [] => e_nullable r
  | e :: t => e_matches (e_deriv e r) t
  end.

(* the reading of a Plex RE as a language of event words: what build_machine is meant to
   implement.  A character-level RE may be preceded by one BOL event where match_bol holds
   (start of a token, after something that can end in a newline); a newline character may be
   preceded by the EOL event; nocase adds the other-case ranges. *)
Definition e_optbol (mb : bool) (r : ere) : ere := if mb then ESeq (EOpt (ESym SBol)) r else r.

Fixpoint ere_of (r : re) (mb nc : bool) {struct r} : ere :=
  match r with
  | RRange c0 c1 =>
      let base := ERange c0 c1 in
      let up := match uppercase_range c0 c1 with Some (a, b) => ERange a b | None => EEmpty end in
      let lo := match lowercase_range c0 c1 with Some (a, b) => ERange a b | None => EEmpty end in
      e_optbol mb (if nc then EAlt base (EAlt up lo) else base)
  | RNewline => e_optbol mb (ESeq (EOpt (ESym SEol)) (ERange 10 11))
  | RSpecial s => e_optbol (mb && match s with SEol => true | _ => false end) (ESym s)
  | RSeq l =>
      (fix go (l : list re) (mb : bool) {struct l} : ere :=
         match l with
         | [] => EEps
         | x :: t => ESeq (ere_of x mb nc) (go t (re_match_nl x || (mb && re_nullable x)))
         end) l mb
  | RAlt l =>
      EAlt ((fix go (l : list re) {struct l} : ere :=
               match l with
               | [] => EEmpty
               | x :: t => if re_nullable x then EAlt (ere_of x mb nc) (go t) else go t
               end) l)
           (e_optbol mb
              ((fix go (l : list re) {struct l} : ere :=
                  match l with
                  | [] => EEmpty
                  | x :: t => if re_nullable x then go t else EAlt (ere_of x false nc) (go t)
                  end) l))
  | RRep1 r1 => ERep1 (ere_of r1 (mb || re_match_nl r1) nc)
  | RCase r1 nc' => ere_of r1 mb nc'
  end.

(* longest accepted prefix of the event word and the earliest rule accepting it:
   (number of events, rule number) *)
Fixpoint first_nullable (rs : list ere) (k : Z) : option Z :=
  match rs with
  | [] => None
  | r :: t => if e_nullable r then Some k else first_nullable t (k + 1)
  end.

Fixpoint ref_longest (rs : list ere) (w : list event) (n : Z) (best : option (Z * Z))
  : option (Z * Z) :=
  let best' := match first_nullable rs 1 with Some k => Some (n, k) | None => best end in
  match w with
  | [] => best'
  | e :: t => ref_longest (map (e_deriv e) rs) t (n + 1) best'
  end.

Definition ref_scan (rules : list re) (w : list event) : option (Z * Z) :=
  ref_longest (map (fun r => ere_of r true false) rules) w 0 None.

(* reference tokenisation: the same read() loop, each token chosen by ref_scan on the events
   still to be read; no-match is reported without the EOF/error distinction *)
Fixpoint iter_next (n : nat) (text : list Z) (cfg : config) : config :=
  match n with O => cfg | S k => iter_next k text (next_char text cfg) end.

Definition ref_token (rules : list re) (text : list Z) (cfg : config) : token :=
  match ref_scan rules (events_from (scan_fuel text) text cfg) with
  | Some (n, k) =>
      let c := iter_next (Z.to_nat n) text cfg in
      TokOk (c_pos cfg) (c_pos c) (c_line cfg) (c_pos cfg - c_lstart cfg) k c
  | None => TokErr cfg
  end.

Fixpoint ref_tokens (n : nat) (rules : list re) (text : list Z) (cfg : config) : list token :=
  match n with
  | O => []
  | S n' =>
      let t := ref_token rules text cfg in
      match t with
      | TokOk _ _ _ _ _ c => t :: ref_tokens n' rules text c
      | _ => [t]
      end
  end.

(* the documented invariant states_0 == states_n-1 of every TransitionMap of the machine
   (FastMachine.add_transitions relies on it: the range ending at maxint is not written) *)
Definition tm_else_ok (m : tmap) : bool :=
  N.eqb (hd s_empty (tm_sets m)) (last (tm_sets m) s_empty).
Definition nfa_else_ok (m : nfa) : bool := forallb (fun st => tm_else_ok (n_tm st)) m.

(* executable form of the TransitionMap invariant (docstring of the class) *)
Fixpoint sorted_b (l : list Z) : bool :=
  match l with
  | x :: ((y :: _) as t) => (x <? y) && sorted_b t
  | _ => true
  end.
Definition tm_inv_b (m : tmap) : bool :=
  Nat.eqb (length (tm_codes m)) (S (length (tm_sets m))) && Nat.leb 1 (length (tm_sets m))
  && (nth 0 (tm_codes m) 0 =? - maxint) && (nth (length (tm_sets m)) (tm_codes m) 0 =? maxint)
  && sorted_b (tm_codes m).
Definition nfa_ok (m : nfa) : bool :=
  forallb (fun st => tm_inv_b (n_tm st) && tm_else_ok (n_tm st)) m.

(* ---------- Regexps.chars_to_ranges (used by Any / AnyBut) ----------
   dedup = false: the code as it is (char_list = list(s); char_list.sort());
   dedup = true : the proposed repair (char_list = sorted(set(s))). *)
Fixpoint insert_sorted (x : Z) (l : list Z) : list Z :=
  match l with
  | [] => [x]
  | y :: t => if x <=? y then x :: l else y :: insert_sorted x t
  end.
Definition sort_codes (l : list Z) : list Z := fold_right insert_sorted [] l.
Fixpoint dedup_sorted (l : list Z) : list Z :=
  match l with
  | [] => []
  | x :: t => match t with
              | [] => [x]
              | y :: _ => if x =? y then dedup_sorted t else x :: dedup_sorted t
              end
  end.
(* the two nested while loops: the current range is [code1, code2) *)
Fixpoint c2r_go (code1 code2 : Z) (l : list Z) : list Z :=
  match l with
  | [] => [code1; code2]
  | c :: t => if code2 >=? c then c2r_go code1 (code2 + 1) t
              else code1 :: code2 :: c2r_go c (c + 1) t
  end.
Definition chars_to_ranges (dedup : bool) (s : list Z) : list Z :=
  let l := sort_codes s in
  let l := if dedup then dedup_sorted l else l in
  match l with [] => [] | c :: t => c2r_go c (c + 1) t end.
(* is the code c inside one of the pairs [a, b) of the flat list *)
Fixpoint ranges_cover (r : list Z) (c : Z) : bool :=
  match r with
  | a :: b :: t => ((a <=? c) && (c <? b)) || ranges_cover t c
  | _ => false
  end.

(* every transition target is a state of the machine (hypothesis of the termination theorem) *)
Definition set_bounded_b (n : nat) (S : sset) : bool := N.ltb S (2 ^ N.of_nat n).
Definition nfa_bounded (m : nfa) : bool :=
  Nat.ltb 0 (length m) &&
  forallb (fun st => forallb (set_bounded_b (length m)) (tm_sets (n_tm st))
                     && set_bounded_b (length m) (n_eps st) && set_bounded_b (length m) (n_bol st)
                     && set_bounded_b (length m) (n_eol st) && set_bounded_b (length m) (n_eof st)) m.
