(* C17 -- model of MemoryView_C.c MemviewSliceValidateAndInit, the axis part: __pyx_check_strides,
   __pyx_verify_contig and the ndim test of __Pyx_ValidateAndInit_memviewslice, for direct
   (non-indirect) axes of a buffer that exports strides.  Executable definitions only. *)
From Coq Require Import ZArith List Bool.
Import ListNotations.
Open Scope Z_scope.

(* axis specification of the declared memoryview type *)
Inductive axis := AStrided     (* `:`    __Pyx_MEMVIEW_DIRECT | __Pyx_MEMVIEW_STRIDED *)
                | AContig      (* `::1`  __Pyx_MEMVIEW_DIRECT | __Pyx_MEMVIEW_CONTIG *)
                | AFollow.     (* the other axes of a C/F-contiguous type: __Pyx_MEMVIEW_FOLLOW *)
Inductive cflag := FNone | FC | FF.    (* c_or_f_flag: 0, __Pyx_IS_C_CONTIG, __Pyx_IS_F_CONTIG *)

(* __pyx_check_strides(buf, dim, ndim, spec) with buf->strides != NULL *)
Definition check_stride (isz : Z) (ax : axis) (sh st : Z) : bool :=
  if sh <=? 1 then true else
  match ax with
  | AContig => st =? isz
  | AFollow => isz <=? Z.abs st
  | AStrided => true
  end.

(* the loop of __pyx_verify_contig: dims = (shape[i], strides[i]) in the order the loop visits them *)
Fixpoint vc_loop (isz stride : Z) (dims : list (Z * Z)) : bool :=
  match dims with
  | [] => true
  | (sh, st) :: r => if negb (stride * isz =? st) && (1 <? sh) then false else vc_loop isz (stride * sh) r
  end.
Definition verify_contig (fl : cflag) (isz : Z) (shape strides : list Z) : bool :=
  match fl with
  | FNone => true
  | FF => vc_loop isz 1 (combine shape strides)                (* i = 0 .. ndim-1 *)
  | FC => vc_loop isz 1 (rev (combine shape strides))          (* i = ndim-1 .. 0 *)
  end.

(* for (i = 0; i < ndim; i++) __pyx_check_strides(buf, i, ndim, axes_specs[i]) *)
Definition check_axes (isz : Z) (axes : list axis) (shape strides : list Z) : bool :=
  forallb (fun t => check_stride isz (fst t) (fst (snd t)) (snd (snd t))) (combine axes (combine shape strides)).

Definition prodz (l : list Z) : Z := fold_right Z.mul 1 l.

(* __Pyx_ValidateAndInit_memviewslice after the dtype check: ndim test, then (buf->len > 0) the axes *)
Definition validate_axes (axes : list axis) (fl : cflag) (isz : Z) (shape strides : list Z) : bool :=
  if negb (Nat.eqb (length shape) (length axes)) then false
  else if prodz shape * isz <=? 0 then true
  else check_axes isz axes shape strides && verify_contig fl isz shape strides.

(* specification: C-contiguous = every dimension with more than one element has the stride
   itemsize * (number of elements of one index step) ; dims listed from the last to the first *)
Fixpoint contig_from (isz inner : Z) (dims : list (Z * Z)) : Prop :=
  match dims with
  | [] => True
  | (sh, st) :: r => (1 < sh -> st = isz * inner) /\ contig_from isz (inner * sh) r
  end.
Definition c_contiguous (isz : Z) (shape strides : list Z) : Prop :=
  contig_from isz 1 (rev (combine shape strides)).
Definition f_contiguous (isz : Z) (shape strides : list Z) : Prop :=
  contig_from isz 1 (combine shape strides).
