(* The documented result-type table of a ** b (docs/src/userguide/cpow_table.csv and the text
   of the `cpow` directive in source_files_and_compilation.rst), as a decision function. *)
From Coq Require Import List Bool.
Import ListNotations.

Inductive atype := AInt | AUInt | AFloat.           (* signed C integer | unsigned C integer | C floating point *)
Inductive bkind :=
  | BNegIntConst | BNonNegIntConst                    (* integer compile-time constants *)
  | BRuntimeSignedInt | BRuntimeUnsignedInt           (* C integer variables: may be negative | known >= 0 *)
  | BIntegralFloatConst | BFloatConst | BRuntimeFloat. (* 2.0 / -2.0 | 2.5 | C floating point variable *)
Inductive rtype := RInt | RFloat | RSoftComplex | ROther
  | RComplex | RObj.                                  (* C complex | Python object (extended operand classes below) *)

Definition a_is_int (a : atype) : bool := match a with AFloat => false | _ => true end.
Definition b_is_int (b : bkind) : bool :=
  match b with BNegIntConst | BNonNegIntConst | BRuntimeSignedInt | BRuntimeUnsignedInt => true | _ => false end.

(* result types the documentation allows for (cpow, type of a, kind of b) *)
Definition doc_allows (cpow : bool) (a : atype) (b : bkind) (r : rtype) : bool :=
  match a_is_int a, b with
  (* C integer ** negative integer constant : C double, for both settings *)
  | true, BNegIntConst => match r with RFloat => true | _ => false end
  (* C integer ** C integer known to be >= 0 : integer *)
  | true, BNonNegIntConst | true, BRuntimeUnsignedInt => match r with RInt => true | _ => false end
  (* C integer ** C integer that may be negative : integer (cpow) / C double (not cpow) *)
  | true, BRuntimeSignedInt => match r with RInt => cpow | RFloat => negb cpow | _ => false end
  (* C floating point ** C integer : floating point *)
  | false, BNegIntConst | false, BNonNegIntConst | false, BRuntimeSignedInt | false, BRuntimeUnsignedInt =>
      match r with RFloat => true | _ => false end
  (* anything ** C floating point : floating point (cpow; NaN if complex) /
     "either a C real or complex number" (not cpow): a real type only where the result is
     provably real (base known >= 0, or the exponent constant is integral) *)
  | _, _ =>
      match r with
      | RFloat => cpow || (match a with AUInt => true | _ => false end)
                       || (match b with BIntegralFloatConst => true | _ => false end)
      | RSoftComplex => negb cpow
      | _ => false
      end
  end.

Definition row_ok (row : bool * atype * bkind * rtype) : bool :=
  let '(cpow, a, b, r) := row in doc_allows cpow a b r.


(* ------------------------------------------------------------------------------------------
   Extended operand classes and the DESTINATION rule (ExprNodes.PowNode.compute_c_result_type +
   PowNode.coerce_to).  The cpow directive has three states: the user guide documents
   default=False; the compiler keeps "unset" apart for exactly one purpose, written down in the
   comment of PowNode.coerce_to: a power whose type depended on cpow being off, coerced DIRECTLY to
   a C integer / C floating point destination, is re-typed with the cpow=True rule (with a
   warning).  An explicit True/False is never re-typed. *)
Inductive cpow3 := CUnset | CTrue | CFalse.
Inductive opnd := OC (a : atype) | OComplex | OObj               (* C real | C complex | Python object *)
  | OPosFloat                  (* C floating point known >= 0 at compile time (a constant base such as 2.0) *)
  | OPosIntConst.              (* non-negative integer constant base (3 ** b): typed like an unsigned C integer, but the
                                  constant node is re-typed to double with the power, so the C-int fallback test fails *)
Inductive ekind := EC (b : bkind) | EComplexConst | ERuntimeComplex | EObj.
(* where the value of a ** b goes.  DNone: nowhere typed (return from a def function,
   cython.typeof).  DCInt/DCFloat/DCComplex/DPyObj: coerced by assignment to a typed variable,
   return from a typed cdef function, or argument of a C function.  DCast*: explicit <T> cast.
   DArith*: operand of C arithmetic with a value of that type. *)
Inductive dest := DNone | DCInt | DCFloat | DCComplex | DPyObj | DCastInt | DCastFloat | DArithInt | DArithFloat.

Definition eff_cpow (c : cpow3) : bool := match c with CTrue => true | _ => false end.

Definition o_is_c_real (a : opnd) : bool := match a with OC _ | OPosFloat | OPosIntConst => true | _ => false end.
Definition e_is_c_real (b : ekind) : bool := match b with EC _ => true | _ => false end.
Definition o_is_c_int (a : opnd) : bool := match a with OC AInt | OC AUInt => true | _ => false end.
Definition e_is_c_int (b : ekind) : bool := match b with EC k => b_is_int k | _ => false end.
(* exponent is a run-time C integer (not a constant) *)
Definition e_is_runtime_int (b : ekind) : bool :=
  match b with EC BRuntimeSignedInt | EC BRuntimeUnsignedInt => true | _ => false end.

(* widest numeric class of the two operands (NumBinopNode.compute_c_result_type) *)
Definition base_type (a : opnd) (b : ekind) : rtype :=
  match a, b with
  | OObj, _ | _, EObj => RObj
  | OComplex, _ | _, EComplexConst | _, ERuntimeComplex => RComplex
  | OC a', EC b' => if a_is_int a' && b_is_int b' then RInt else RFloat
  | OPosFloat, EC _ => RFloat
  | OPosIntConst, EC b' => if b_is_int b' then RInt else RFloat
  end.

Definition widen (r : rtype) : rtype := match r with RInt => RFloat | _ => r end.

(* the deterministic documented result type: the table, with "either a C real or complex number"
   resolved to: a C real where the result is provably real (base known >= 0 or exponent
   integral), the soft complex type otherwise *)
Definition pow_type (cpow : bool) (a : opnd) (b : ekind) : rtype :=
  match base_type a b with
  | RObj => RObj
  | RComplex => RComplex
  | base =>
      match b with
      | EC BNegIntConst => widen base
      | EC BRuntimeSignedInt => if cpow then base else widen base
      | EC BFloatConst | EC BRuntimeFloat =>
          if cpow then base else match a with OC AUInt | OPosFloat | OPosIntConst => base | _ => RSoftComplex end
      | _ => base
      end
  end.

(* PowNode.type_was_inferred: the type depended on cpow being off *)
Definition type_inferred (a : opnd) (b : ekind) : bool :=
  match base_type a b with
  | RObj => false
  | _ => match b with
         | EC BRuntimeSignedInt => true
         | EC BFloatConst | EC BRuntimeFloat => match a with OC AUInt | OPosFloat | OPosIntConst => false | OC _ => true | _ => false end
         | _ => false
         end
  end.

Definition is_direct_c_real (d : dest) : bool := match d with DCInt | DCFloat => true | _ => false end.

(* does the unset-directive fallback fire?  only for a direct coercion to a C int / C float, an
   inferred type, and operands that are plain C reals (soft complex case) resp. C integers
   (C int destination) *)
Definition fallback_fires (c : cpow3) (a : opnd) (b : ekind) (d : dest) : bool :=
  match c with
  | CUnset =>
      type_inferred a b && is_direct_c_real d &&
      match pow_type false a b, d with
      | RSoftComplex, _ => o_is_c_real a && e_is_c_real b
      | RFloat, DCInt => o_is_c_int a && e_is_c_int b
      | _, _ => false
      end
  | _ => false
  end.

(* standard C assignment rule: is a value of type r accepted for destination d at compile time *)
Definition assignable (r : rtype) (d : dest) : bool :=
  match d, r with
  | DCInt, RInt | DCInt, RObj => true
  | DCInt, _ => false
  | DCFloat, RComplex => false
  | DCFloat, ROther => false
  | _, ROther => false
  | _, _ => true
  end.

Record outcome := mk_outcome { o_type : rtype; o_rejected : bool; o_warned : bool }.

(* the whole rule: type of the power node after analysis, compile error or not, warning or not *)
Definition pow_coerced (c : cpow3) (a : opnd) (b : ekind) (d : dest) : outcome :=
  let fb := fallback_fires c a b d in
  let r := pow_type (eff_cpow c || fb) a b in
  mk_outcome r (negb (assignable r d)) fb.

(* the same rule written from the documentation side: an explicit setting selects the column of
   the table and the destination has no influence; only `unset` consults the destination *)
Definition doc_coerced (c : cpow3) (a : opnd) (b : ekind) (d : dest) : outcome :=
  match c with
  | CTrue => let r := pow_type true a b in mk_outcome r (negb (assignable r d)) false
  | CFalse => let r := pow_type false a b in mk_outcome r (negb (assignable r d)) false
  | CUnset =>
      let r0 := pow_type false a b in
      let direct := match d with DCInt | DCFloat => true | _ => false end in
      let c_reals := match a, b with OC _, EC _ | OPosFloat, EC _ | OPosIntConst, EC _ => true | _, _ => false end in
      let c_ints := match a, b with OC AInt, EC k | OC AUInt, EC k => b_is_int k | _, _ => false end in
      let differs := negb (match r0, pow_type true a b with
                           | RInt, RInt | RFloat, RFloat | RComplex, RComplex | RObj, RObj => true | _, _ => false end) in
      let fb := direct && differs && c_reals &&
                match r0, d with RSoftComplex, _ => true | RFloat, DCInt => c_ints | _, _ => false end in
      let r := if fb then pow_type true a b else r0 in
      mk_outcome r (negb (assignable r d)) fb
  end.

(* run-time delivery of a value of static type r to destination d.  `real` = the mathematical
   (CPython) result is a real number. *)
Inductive delivery :=
  | VInt          (* C integer arithmetic: the IntPow helper (0 for negative exponents) *)
  | VFloat        (* C pow(): NaN where the Python result would be complex *)
  | VPyReal       (* Python value, real *)
  | VPyComplex    (* Python value, complex *)
  | VTypeError    (* (soft) complex value with non-zero imaginary part cannot become a C real *)
  | VNoValue.     (* rejected at compile time / not a coercion this model describes *)

Definition deliver (r : rtype) (d : dest) (real : bool) : delivery :=
  if negb (assignable r d) then VNoValue else
  match r with
  | RInt => VInt
  | RFloat => VFloat
  | RSoftComplex =>
      match d with
      | DCFloat => if real then VPyReal else VTypeError
      | DNone | DPyObj | DArithFloat | DArithInt => if real then VPyReal else VPyComplex
      | DCComplex => VPyComplex
      | _ => VNoValue
      end
  | RComplex => match d with DCastInt | DCastFloat => VNoValue | _ => VPyComplex end
  | RObj => (* Python value, then the ordinary object -> C conversion *)
      match d with
      | DCInt | DCFloat => if real then VPyReal else VTypeError
      | DCComplex => VPyComplex
      | _ => if real then VPyReal else VPyComplex
      end
  | ROther => VNoValue
  end.

Definition rtype_eqb (x y : rtype) : bool :=
  match x, y with
  | RInt, RInt | RFloat, RFloat | RSoftComplex, RSoftComplex | ROther, ROther | RComplex, RComplex | RObj, RObj => true
  | _, _ => false
  end.
Definition outcome_eqb (x y : outcome) : bool :=
  rtype_eqb (o_type x) (o_type y) && Bool.eqb (o_rejected x) (o_rejected y) && Bool.eqb (o_warned x) (o_warned y).

(* a row dumped from the running compiler: (cpow, a, b, destination, observed type, rejected, warned) *)
Definition crow := (cpow3 * opnd * ekind * dest * (rtype * bool * bool))%type.
Definition crow_ok (row : crow) : bool :=
  let '(c, a, b, d, (r, rej, w)) := row in outcome_eqb (doc_coerced c a b d) (mk_outcome r rej w).
Definition crow_model_ok (row : crow) : bool :=
  let '(c, a, b, d, (r, rej, w)) := row in outcome_eqb (pow_coerced c a b d) (mk_outcome r rej w).
