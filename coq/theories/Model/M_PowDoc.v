(* The documented result-type table of a ** b (docs/src/userguide/cpow_table.csv and the text
   of the `cpow` directive in source_files_and_compilation.rst), as a decision function. *)
From Coq Require Import List Bool.
Import ListNotations.

Inductive atype := AInt | AUInt | AFloat.           (* signed C integer | unsigned C integer | C floating point *)
Inductive bkind :=
  | BNegIntConst | BNonNegIntConst                    (* integer compile-time constants *)
  | BRuntimeSignedInt | BRuntimeUnsignedInt           (* C integer variables: may be negative | known >= 0 *)
  | BIntegralFloatConst | BFloatConst | BRuntimeFloat. (* 2.0 / -2.0 | 2.5 | C floating point variable *)
Inductive rtype := RInt | RFloat | RSoftComplex | ROther.

Definition a_is_int (a : atype) : bool := match a with AFloat => false | _ => true end.
Definition b_is_int (b : bkind) : bool :=
  match b with BNegIntConst | BNonNegIntConst | BRuntimeSignedInt | BRuntimeUnsignedInt => true | _ => false end.

(* result types the documentation allows for (cpow, type of a, kind of b) *)
Definition doc_allows (cpow : bool) (a : atype) (b : bkind) (r : rtype) : bool :=
  match a_is_int a, b with
  (* C integer ** negative integer constant : C double, for both settings *)
  | true, BNegIntConst => match r with RFloat => true | _ => false end
  (* C integer ** C integer known to be >= 0 : integer *)
  | true, BNonNegIntConst | true, BRuntimeUnsignedInt => match r with RInt => true | _ => false end
  (* C integer ** C integer that may be negative : integer (cpow) / C double (not cpow) *)
  | true, BRuntimeSignedInt => match r with RInt => cpow | RFloat => negb cpow | _ => false end
  (* C floating point ** C integer : floating point *)
  | false, BNegIntConst | false, BNonNegIntConst | false, BRuntimeSignedInt | false, BRuntimeUnsignedInt =>
      match r with RFloat => true | _ => false end
  (* anything ** C floating point : floating point (cpow; NaN if complex) /
     "either a C real or complex number" (not cpow): a real type only where the result is
     provably real (base known >= 0, or the exponent constant is integral) *)
  | _, _ =>
      match r with
      | RFloat => cpow || (match a with AUInt => true | _ => false end)
                       || (match b with BIntegralFloatConst => true | _ => false end)
      | RSoftComplex => negb cpow
      | _ => false
      end
  end.

Definition row_ok (row : bool * atype * bkind * rtype) : bool :=
  let '(cpow, a, b, r) := row in doc_allows cpow a b r.
