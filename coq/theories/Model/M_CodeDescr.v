(* C25, second part: the code object of a compiled function, from which inspect.signature() of a
   CyFunction is computed.

     Cython/Compiler/Code.py      GlobalState.generate_codeobject_constants
        - one "downsized" struct type per module, __Pyx_PyCode_New_function_description, whose
          unsigned bit-fields argcount / num_posonly_args / num_kwonly_args / nlocals / flags /
          first_line are exactly as wide as the bit length of the module-wide maximum of each
          quantity; generator expressions (synthetic arguments) are skipped for the three
          argument maxima;
     Cython/Compiler/ExprNodes.py CodeObjectNode.__init__ / generate_codeobj
        - co_varnames = arguments in declaration order, then *args, **kwargs, then locals;
        - one initialiser  descr = {argcount - kwonly, posonly, kwonly, nlocals, flags, line};
     Cython/Utility/ModuleSetupCode.c  __Pyx_PyCode_New
        - reads the fields back and passes them to PyCode_NewWithPosOnlyArgs;
     CPython Lib/inspect.py  _signature_from_function   (what inspect.signature() does with
        __code__, __defaults__, __kwdefaults__ of a function-like object).

   Storing a value v in an unsigned bit-field of width w keeps v mod 2^w (C11 6.3.1.3p2, 6.7.2.1).
   Executable definitions only; proofs in Proof/P_CodeDescr.v.
   Names and default values are opaque identifiers (N). *)
From Coq Require Import ZArith NArith List Bool.
Import ListNotations.
Open Scope Z_scope.

Definition name := N.
Definition dflt := N.

(* ------------------------------------------------------------------ *)
(* 1. source functions                                                 *)
(* ------------------------------------------------------------------ *)

(* what decides the CO_* flags: is_asyncgen / is_coroutine / is_generator / is_generator_expression *)
Inductive fkind := KPlain | KGen | KCoro | KAsyncGen | KGenExpr.

Definition fkind_eqb (a b : fkind) : bool :=
  match a, b with
  | KPlain, KPlain | KGen, KGen | KCoro, KCoro | KAsyncGen, KAsyncGen | KGenExpr, KGenExpr => true
  | _, _ => false
  end.

(* a declared parameter: name and default value, if any *)
Definition param := (name * option dflt)%type.

(* def f(<po>, /, <pk>, *<star>, <ko>, **<ss>): <locals>   at line <line>.
   s_synth: number of synthetic arguments of a generator expression's DefNode (the outermost
   iterable); they are in def_node.args but neither in varnames nor in the emitted argcount. *)
Record fsrc := {
  s_kind : fkind;
  s_po : list param;
  s_pk : list param;
  s_star : option name;
  s_ko : list param;
  s_ss : option name;
  s_locals : list name;
  s_synth : Z;
  s_line : Z
}.

Inductive pkind := POnly | PosOrKw | VarPos | KwOnly | VarKw.

(* one entry of inspect.Signature.parameters *)
Definition sigparam := (name * pkind * option dflt)%type.

Definition tag (k : pkind) (p : param) : sigparam := (fst p, k, snd p).
Definition opt_list {A B} (f : A -> B) (o : option A) : list B :=
  match o with Some x => [f x] | None => [] end.

(* the parameter list the source declares (the language rule; tied to CPython's inspect) *)
Definition source_sig (f : fsrc) : list sigparam :=
  map (tag POnly) (s_po f) ++ map (tag PosOrKw) (s_pk f)
  ++ opt_list (fun n => (n, VarPos, None)) (s_star f)
  ++ map (tag KwOnly) (s_ko f)
  ++ opt_list (fun n => (n, VarKw, None)) (s_ss f).

Definition is_some {A} (o : option A) : bool := match o with Some _ => true | None => false end.

Fixpoint somes {A} (l : list (option A)) : list A :=
  match l with
  | [] => []
  | Some x :: r => x :: somes r
  | None :: r => somes r
  end.

(* func.__defaults__ and func.__kwdefaults__ (CyFunction keeps the evaluated default values) *)
Definition defaults_of (f : fsrc) : list dflt := somes (map snd (s_po f ++ s_pk f)).
Fixpoint kwd_of (l : list param) : list (name * dflt) :=
  match l with
  | [] => []
  | (n, Some d) :: r => (n, d) :: kwd_of r
  | (_, None) :: r => kwd_of r
  end.
Definition kwdefaults_of (f : fsrc) : list (name * dflt) := kwd_of (s_ko f).

(* Python's syntax rule: once a positional parameter has a default, all later ones have *)
Fixpoint suffix_defaults (l : list (option dflt)) : bool :=
  match l with
  | [] => true
  | None :: r => suffix_defaults r
  | Some _ :: r => forallb is_some r
  end.

Fixpoint nodupb (l : list N) : bool :=
  match l with
  | [] => true
  | x :: r => negb (existsb (N.eqb x) r) && nodupb r
  end.

(* a function the parser accepts (and the shape of a generator expression's DefNode) *)
Definition wf_src (f : fsrc) : bool :=
  suffix_defaults (map snd (s_po f ++ s_pk f))
  && nodupb (map fst (s_ko f))
  && (0 <=? s_synth f) && (0 <=? s_line f)
  && (if fkind_eqb (s_kind f) KGenExpr
      then match s_po f, s_pk f, s_ko f, s_star f, s_ss f with
           | [], [], [], None, None => true
           | _, _, _, _, _ => false
           end
      else true).

(* ------------------------------------------------------------------ *)
(* 2. the DefNode quantities the code generator looks at               *)
(* ------------------------------------------------------------------ *)

Definition zlen {A} (l : list A) : Z := Z.of_nat (length l).

Definition num_posonly (f : fsrc) : Z := zlen (s_po f).
Definition num_kwonly (f : fsrc) : Z := zlen (s_ko f).
(* len(def_node.args): every named parameter, keyword-only ones included *)
Definition num_args (f : fsrc) : Z :=
  if fkind_eqb (s_kind f) KGenExpr then s_synth f
  else zlen (s_po f) + zlen (s_pk f) + zlen (s_ko f).

(* CodeObjectNode.varnames: args, then the *args / **kwargs entries, then the other locals *)
Definition varnames (f : fsrc) : list name :=
  map fst (s_po f) ++ map fst (s_pk f) ++ map fst (s_ko f)
  ++ opt_list (fun n => n) (s_star f) ++ opt_list (fun n => n) (s_ss f) ++ s_locals f.

Definition CO_OPTIMIZED := 1.
Definition CO_NEWLOCALS := 2.
Definition CO_VARARGS := 4.
Definition CO_VARKEYWORDS := 8.
Definition CO_GENERATOR := 32.
Definition CO_COROUTINE := 128.
Definition CO_ASYNC_GENERATOR := 512.

Definition kind_flag (k : fkind) : Z :=
  match k with
  | KPlain => 0
  | KGen | KGenExpr => CO_GENERATOR
  | KCoro => CO_COROUTINE
  | KAsyncGen => CO_ASYNC_GENERATOR
  end.

Definition flags_gen (k : fkind) (star ss : bool) : Z :=
  Z.lor (Z.lor (Z.lor (Z.lor CO_OPTIMIZED CO_NEWLOCALS) (if star then CO_VARARGS else 0))
               (if ss then CO_VARKEYWORDS else 0)) (kind_flag k).

Definition flags_of (f : fsrc) : Z := flags_gen (s_kind f) (is_some (s_star f)) (is_some (s_ss f)).

(* the six numbers of a description, in struct order *)
Record descr := {
  d_argcount : Z; d_posonly : Z; d_kwonly : Z; d_nlocals : Z; d_flags : Z; d_line : Z
}.

(* generate_codeobj: the initialiser text  {argcount - kwonly_argcount, num_posonly_args, ...} *)
Definition emitted (f : fsrc) : descr :=
  let argcount := if fkind_eqb (s_kind f) KGenExpr then 0 else num_args f in
  {| d_argcount := argcount - num_kwonly f;
     d_posonly := num_posonly f;
     d_kwonly := num_kwonly f;
     d_nlocals := zlen (varnames f);
     d_flags := flags_of f;
     d_line := s_line f |}.

(* ------------------------------------------------------------------ *)
(* 3. the module-wide struct: field widths                              *)
(* ------------------------------------------------------------------ *)

(* int.bit_length() for the non-negative numbers that occur *)
Definition bitlen (z : Z) : Z := if z <=? 0 then 0 else Z.log2 z + 1.

Definition maxl (l : list Z) : Z := fold_right Z.max 1 l.     (* max_... = 1 initially *)

(* which code objects do not take part in the three argument maxima.
   skip_genexpr is the code as it is ("if not def_node.is_generator_expression");
   skip_generators is the variant "if not def_node.is_generator" (every generator-like function:
   is_generator is also set for coroutines and async generators) *)
Definition skip_genexpr (k : fkind) : bool := fkind_eqb k KGenExpr.
Definition skip_generators (k : fkind) : bool := negb (fkind_eqb k KPlain).
Definition skip_none (k : fkind) : bool := false.

Definition counted (skip : fkind -> bool) (fs : list fsrc) : list fsrc :=
  filter (fun f => negb (skip (s_kind f))) fs.

Definition max_flags := 1023.       (* 0x3ff *)

Definition widths (skip : fkind -> bool) (fs : list fsrc) : descr :=
  let cs := counted skip fs in
  {| d_argcount := bitlen (maxl (map (fun f => num_args f - num_kwonly f) cs));
     d_posonly := bitlen (maxl (map num_posonly cs));
     d_kwonly := bitlen (maxl (map num_kwonly cs));
     d_nlocals := bitlen (maxl (map (fun f => zlen (varnames f)) fs));
     d_flags := bitlen max_flags;
     d_line := bitlen (maxl (map s_line fs)) |}.

(* initialising an unsigned bit-field of width w with v, and reading it back *)
Definition store_field (w v : Z) : Z := v mod 2 ^ w.

Definition store (w d : descr) : descr :=
  {| d_argcount := store_field (d_argcount w) (d_argcount d);
     d_posonly := store_field (d_posonly w) (d_posonly d);
     d_kwonly := store_field (d_kwonly w) (d_kwonly d);
     d_nlocals := store_field (d_nlocals w) (d_nlocals d);
     d_flags := store_field (d_flags w) (d_flags d);
     d_line := store_field (d_line w) (d_line d) |}.

(* the same as a packed bit string: fields laid one after the other from bit 0 *)
Definition fields (d : descr) : list Z :=
  [d_argcount d; d_posonly d; d_kwonly d; d_nlocals d; d_flags d; d_line d].

Fixpoint pack (ws vs : list Z) : Z :=
  match ws, vs with
  | w :: wr, v :: vr => v mod 2 ^ w + 2 ^ w * pack wr vr
  | _, _ => 0
  end.

Fixpoint unpack (ws : list Z) (x : Z) : list Z :=
  match ws with
  | [] => []
  | w :: wr => x mod 2 ^ w :: unpack wr (x / 2 ^ w)
  end.

(* ------------------------------------------------------------------ *)
(* 4. the code object and inspect._signature_from_function              *)
(* ------------------------------------------------------------------ *)

Record code := {
  co_argcount : Z; co_posonlyargcount : Z; co_kwonlyargcount : Z; co_nlocals : Z;
  co_flags : Z; co_firstlineno : Z; co_varnames : list name
}.

(* __Pyx_PyCode_New(descr, varnames, ...): var_count = descr.nlocals names are copied *)
Definition code_of_descr (d : descr) (names : list name) : code :=
  {| co_argcount := d_argcount d; co_posonlyargcount := d_posonly d; co_kwonlyargcount := d_kwonly d;
     co_nlocals := d_nlocals d; co_flags := d_flags d; co_firstlineno := d_line d;
     co_varnames := firstn (Z.to_nat (d_nlocals d)) names |}.

(* the code object function f of module fs gets *)
Definition code_of (skip : fkind -> bool) (fs : list fsrc) (f : fsrc) : code :=
  code_of_descr (store (widths skip fs) (emitted f)) (varnames f).

Fixpoint lookup (n : name) (l : list (name * dflt)) : option dflt :=
  match l with
  | [] => None
  | (m, d) :: r => if N.eqb n m then Some d else lookup n r
  end.

(* the two loops over the positional names share the countdown  posonly_left *)
Fixpoint ploop (l : list param) (left : nat) : list sigparam :=
  match l with
  | [] => []
  | p :: r => tag (match left with O => PosOrKw | S _ => POnly end) p :: ploop r (pred left)
  end.

Inductive sigres := SigOk (ps : list sigparam) | SigError.   (* IndexError / ValueError *)

Definition zfirstn {A} (n : Z) (l : list A) := firstn (Z.to_nat n) l.
Definition zskipn {A} (n : Z) (l : list A) := skipn (Z.to_nat n) l.
(* Python slices l[:n] and l[n:] (a negative bound counts from the end, clipped at 0) *)
Definition py_upto {A} (n : Z) (l : list A) := if n <? 0 then zfirstn (zlen l + n) l else zfirstn n l.
Definition py_from {A} (n : Z) (l : list A) := if n <? 0 then zskipn (zlen l + n) l else zskipn n l.

(* Signature(parameters, __validate_parameters__=True) additionally raises ValueError for duplicate
   names / misordered kinds; a faithful parameter list never does, so validation is not modelled *)
Definition sig_of_code (c : code) (defaults : list dflt) (kwdefaults : list (name * dflt)) : sigres :=
  let pos_count := co_argcount c in
  let arg_names := co_varnames c in
  let positional := py_upto pos_count arg_names in
  let kw_count := co_kwonlyargcount c in
  (* arg_names[pos_count:pos_count + keyword_only_count], both bounds non-negative *)
  let keyword_only := zfirstn kw_count (zskipn pos_count arg_names) in
  let non_default_count := pos_count - zlen defaults in
  let part1 := map (fun n => (n, None)) (py_upto non_default_count positional) in
  (* for offset, name in enumerate(positional[non_default_count:]): default = defaults[offset] *)
  let part2 := combine (py_from non_default_count positional) (map Some defaults) in
  let pos_params := ploop (part1 ++ part2) (Z.to_nat (co_posonlyargcount c)) in
  let has_var := Z.testbit (co_flags c) 2 in
  let has_kw := Z.testbit (co_flags c) 3 in
  let idx := Z.to_nat (pos_count + kw_count) in
  let kw_params := map (fun n => (n, KwOnly, lookup n kwdefaults)) keyword_only in
  match (if has_var then nth_error arg_names idx else Some 0%N),
        (if has_kw then nth_error arg_names (if has_var then S idx else idx) else Some 0%N) with
  | Some vn, Some kn =>
      SigOk (pos_params ++ (if has_var then [(vn, VarPos, None)] else []) ++ kw_params
             ++ (if has_kw then [(kn, VarKw, None)] else []))
  | _, _ => SigError
  end.

(* inspect.signature(f) of the compiled function *)
Definition compiled_sig (skip : fkind -> bool) (fs : list fsrc) (f : fsrc) : sigres :=
  sig_of_code (code_of skip fs f) (defaults_of f) (kwdefaults_of f).

(* do all six numbers of f survive the module's struct? *)
Definition descr_eqb (a b : descr) : bool :=
  (d_argcount a =? d_argcount b) && (d_posonly a =? d_posonly b) && (d_kwonly a =? d_kwonly b)
  && (d_nlocals a =? d_nlocals b) && (d_flags a =? d_flags b) && (d_line a =? d_line b).

Definition survives (skip : fkind -> bool) (fs : list fsrc) (f : fsrc) : bool :=
  descr_eqb (store (widths skip fs) (emitted f)) (emitted f).

(* witnesses for the refuted variant: def plain(a, b=1) next to
   def gen(a, b, c=3, d=4, *, key=5, flag=6, **kw): yield   (names are numbered 1..) *)
Definition w_plain : fsrc :=
  {| s_kind := KPlain; s_po := []; s_pk := [(1%N, None); (2%N, Some 1%N)]; s_star := None; s_ko := [];
     s_ss := None; s_locals := []; s_synth := 0; s_line := 3 |}.
Definition w_gen : fsrc :=
  {| s_kind := KGen; s_po := [];
     s_pk := [(1%N, None); (2%N, None); (3%N, Some 3%N); (4%N, Some 4%N)]; s_star := None;
     s_ko := [(5%N, Some 5%N); (6%N, Some 6%N)]; s_ss := Some 7%N; s_locals := []; s_synth := 0;
     s_line := 6 |}.
Definition w_module : list fsrc := [w_plain; w_gen].
